package main

// C11 — authorization on every entry point.  See impl.go for the implementation side.
//
// A case is a history on a fresh world: stream registrations, user saves / deletes (directly
// and through the API), logins, refreshes, ageing, expiry sweeps, and requests on every entry
// point (plain HTTP FLV / m3u8 / ts, the management API, WebSocket FLV, RTSP on a pipe, RTSP
// over WebSocket, WSP control + data channels).  The implementation executes the history op by
// op; the line sent to the Lean driver carries every op with the outcome the implementation
// showed.  The driver answers, per op, the outcome of the executable model (correspondence) and
// the verdict of the reference monitor on the implementation's outcome (property oracle).

import (
	"fmt"
	"path"
	"strconv"
	"strings"

	. "verifharness/hlib"

	"github.com/cnotch/ipchub/provider/auth"
	"github.com/cnotch/ipchub/utils"
)

func main() { Main("C11", run) }

var (
	names     = []string{"alice", "bob", "Carl", "dave", "root"}
	passwords = []string{"pw1", "pw2", "hunter2"}
	keys      = []string{"/a/b", "/cam/1", "/cam/1/3", "/x/y", "/live/room", "/pub/s1", "/a"}
	rights    = []string{"", "*", "/a/b", "/a/*", "/cam/+", "/cam/1", "/cam/1/+", "/cam/1/*", "/x/*", "/x/y;/a/b", "/pub/*",
		"/live/room", " /a/b ; /x/y ", "/+/b", "/cam/*;/live/+", "/A/B", "/a", "/pub/s1;/cam/1", "/x/+;/a/+"}
	// sections the composed masks and the mask-relative request paths are made of (those of `keys`, and a few more)
	secWords = []string{"a", "b", "cam", "1", "3", "x", "y", "live", "room", "pub", "s1", "s2", "2", "hall"}
	ages = []int{30, 600, 3000, 7000, 7200 - 90, 7200 + 90, 40000, 604800 - 7200 - 200, 604800 - 7200 + 200, 604800 + 90}
)

type uinfo struct {
	pw      string
	saves   int
	deleted bool
	admin   bool
	push    string
	pull    string
}

// what the generator remembers about an issued token pair (guidance only: nothing is judged with it)
type tinfo struct {
	user   string
	issued int // generator clock at issue
	dead   bool
}

type sess struct {
	key      string // RTSP session key ("n3", "w2") or wsp index
	kind     string // rtsp | wsrtsp | wsp
	plan     []string
	user     string
	hasNonce bool
	done     bool
	wsj      int
	wspi     int
	target   string
}

type gen struct {
	c           *Ctx
	w           *world
	ops         []string // op@impl
	raw         []string // op
	impls       []string
	users       map[string]*uinfo
	regd        []string
	authOn      bool
	nRtsp       int
	sess        []*sess
	feats       map[string]bool
	clock       int
	toks        []tinfo
	lastTokUser string // user of the token the last tokFor / tokRef returned (guidance)
	near        map[string]string // request path derived from a mask → the user whose mask it was (guidance)
}

func hexs(s string) string { return Hx([]byte(s)) }

func (g *gen) do(op string) string {
	if g.w.wedged {
		return "skipped" // an earlier operation of this case never returned; nothing more is executed or recorded
	}
	out := g.w.execW(op)
	if out == "hung" {
		g.w.wedged = true // the case ends here: whatever was stuck may still hold what later operations need
	}
	g.note(op, out)
	g.raw = append(g.raw, op)
	g.impls = append(g.impls, out)
	if out != "" {
		g.ops = append(g.ops, op+"@"+out)
	} else {
		g.ops = append(g.ops, op)
	}
	return out
}

// note keeps the generator's guidance state (who owns which token, what time it is)
func (g *gen) note(op, out string) {
	f := strings.Split(op, ":")
	switch f[0] {
	case "li":
		if strings.HasPrefix(out, "t") {
			g.toks = append(g.toks, tinfo{user: strings.ToLower(string(Unhx(f[1]))), issued: g.clock})
		}
	case "rf":
		if len(f[1]) > 1 && f[1][0] == 'R' {
			if k, err := strconv.Atoi(f[1][1:]); err == nil && k < len(g.toks) {
				if strings.HasPrefix(out, "t") {
					g.toks = append(g.toks, tinfo{user: g.toks[k].user, issued: g.clock})
				}
				g.toks[k].dead = true
			}
		}
	case "ag":
		n, _ := strconv.Atoi(f[1])
		g.clock += n
	}
}

// does the generator believe this user holds the right on key (evaluated with the real matcher)?
func (g *gen) holds(name, key string, push bool) bool {
	u := g.users[name]
	if u == nil || u.deleted {
		return false
	}
	x := &auth.User{Name: name}
	x.CopyFrom(&auth.User{Name: name, Admin: u.admin, PushAccess: u.push, PullAccess: u.pull}, false)
	if push {
		return x.ValidatePermission(key, auth.PushRight)
	}
	return x.ValidatePermission(key, auth.PullRight)
}

// an access token that should work for `key`, if the generator knows one
func (g *gen) goodTok(key string, push bool) (string, bool) {
	var cands []int
	for k, t := range g.toks {
		if !t.dead && g.clock-t.issued < 7000 && g.holds(t.user, key, push) {
			cands = append(cands, k)
		}
	}
	if len(cands) == 0 {
		return "", false
	}
	return "A" + strconv.Itoa(cands[g.c.Rng.Intn(len(cands))]), true
}

// a token reference for a request on `key`: half of the time one that should be accepted
func (g *gen) tokFor(key string) string {
	t := g.tokRef()
	if g.c.Rng.Chance(55) {
		if gt, ok := g.goodTok(key, false); ok {
			t = gt
		}
	} else if o := g.near[key]; o != "" && g.c.Rng.Chance(70) {
		// the path was derived from a mask of this user: the request comes from him, whether the mask covers it or not
		if ot, ok := g.tokOf(o); ok {
			t = ot
		}
	}
	g.lastTokUser = ""
	if len(t) > 1 && t[0] == 'A' {
		if k, err := strconv.Atoi(t[1:]); err == nil && k < len(g.toks) {
			g.lastTokUser = g.toks[k].user
		}
	}
	return t
}

// a user for an RTSP session about `key`
func (g *gen) userFor(key string, push bool) string {
	if o := g.near[key]; o != "" && g.c.Rng.Chance(40) {
		if u := g.users[o]; u != nil && !u.deleted {
			return o // the owner of the mask the path was derived from, whether the mask covers it or not
		}
	}
	if g.c.Rng.Chance(60) {
		var cands []string
		for n := range g.users {
			if g.holds(n, key, push) {
				cands = append(cands, n)
			}
		}
		if len(cands) > 0 {
			sortStrings(cands)
			return cands[g.c.Rng.Intn(len(cands))]
		}
	}
	return g.pickUser()
}

func (g *gen) pick(ss []string) string { return ss[g.c.Rng.Intn(len(ss))] }

func (g *gen) pickUser() string {
	var live []string
	for n, u := range g.users {
		if !u.deleted {
			live = append(live, n)
		}
	}
	if len(live) == 0 || g.c.Rng.Chance(8) {
		return strings.ToLower(g.pick(names))
	}
	// deterministic order
	sortStrings(live)
	return live[g.c.Rng.Intn(len(live))]
}

func sortStrings(s []string) {
	for i := 1; i < len(s); i++ {
		for j := i; j > 0 && s[j] < s[j-1]; j-- {
			s[j], s[j-1] = s[j-1], s[j]
		}
	}
}

func (g *gen) saveOp(name string, via string) {
	r := g.c.Rng
	lname := strings.ToLower(name)
	u := g.users[lname]
	admin := r.Chance(15) || (lname == "root" && r.Chance(80))
	push, pull := g.right(), g.right()
	if r.Chance(15) {
		push = ""
	}
	pw := g.pick(passwords)
	upd := r.Chance(50)
	if u != nil && !u.deleted && !r.Chance(30) {
		pw = u.pw
	}
	pwt := "p" + hexs(pw)
	if r.Chance(15) {
		pwt = "m" + hexs(pw)
	}
	fields := fmt.Sprintf("%s:%s:%s:%s:%s:%s", hexs(name), B01(admin), hexs(push), hexs(pull), pwt, B01(upd))
	applied := true
	if via == "" {
		g.do("sv:" + fields)
	} else {
		applied = g.do("asv:"+via+":"+fields+g.claim("", true)) == "pass"
	}
	if applied {
		if u == nil || u.deleted {
			g.users[lname] = &uinfo{pw: pw, saves: 1, admin: admin, push: push, pull: pull}
		} else {
			u.saves++
			u.admin, u.push, u.pull = admin, push, pull
			if upd {
				u.pw = pw
			}
			g.feats["user-updated"] = true
		}
	}
}

func (g *gen) tokRef() string {
	r := g.c.Rng
	n := len(g.w.tokens)
	switch {
	case n == 0 || r.Chance(4):
		if r.Bool() {
			return "-"
		}
		return "X" + strconv.Itoa(r.Intn(5))
	case r.Chance(8):
		return "R" + strconv.Itoa(r.Intn(n))
	default:
		k := n - 1 - r.Intn(min(n, 4))
		if r.Chance(20) {
			k = r.Intn(n)
		}
		return "A" + strconv.Itoa(k)
	}
}

func min(a, b int) int {
	if a < b {
		return a
	}
	return b
}

func (g *gen) anyKey() string {
	if g.c.Rng.Chance(22) {
		if k := g.nearKey(); k != "" {
			return k
		}
	}
	if len(g.regd) > 0 && g.c.Rng.Chance(75) {
		return g.pick(g.regd)
	}
	return g.pick(keys)
}

// a live access token of this user, if the generator knows one
func (g *gen) tokOf(user string) (string, bool) {
	var cands []int
	for k, t := range g.toks {
		if !t.dead && g.clock-t.issued < 7000 && t.user == user {
			cands = append(cands, k)
		}
	}
	if len(cands) == 0 {
		return "", false
	}
	return "A" + strconv.Itoa(cands[g.c.Rng.Intn(len(cands))]), true
}

// ---- rights and request paths chosen RELATIVE to each other ----
//
// What a right covers is a relation between a mask and a path: equal section counts, a longer path
// under an end wildcard, a shorter one, `+` against any one section.  Lists of unrelated masks and
// paths meet only a few of these relations; so masks are also composed from the stream paths
// (deeper, shallower, beside, `+` for any section, with and without the end wildcard) and request
// paths from the masks the users currently hold (strict ancestors of the fixed prefix, the prefix
// itself, children, grandchildren, siblings at every depth).

func sections(p string) []string {
	var out []string
	for _, s := range strings.Split(strings.ToLower(strings.TrimSpace(p)), "/") {
		if s = strings.TrimSpace(s); s != "" {
			out = append(out, s)
		}
	}
	return out
}

// one mask derived from a stream path
func (g *gen) maskFrom(key string) string {
	r := g.c.Rng
	secs := append([]string{}, sections(key)...)
	switch r.Intn(5) {
	case 0, 1: // deeper: the stream path is a strict ancestor of the mask's fixed part
		for n := 1 + r.Intn(2); n > 0; n-- {
			secs = append(secs, g.pick(secWords))
		}
	case 2: // shallower: the stream path lies below the mask's fixed part
		if len(secs) > 1 {
			secs = secs[:1+r.Intn(len(secs)-1)]
		}
	case 3: // beside: one section differs
		secs[r.Intn(len(secs))] = g.pick(secWords)
	default: // the path itself
	}
	for i := range secs {
		if r.Chance(18) {
			secs[i] = "+"
		}
	}
	m := "/" + strings.Join(secs, "/")
	if r.Chance(60) {
		m += "/*"
	}
	if r.Chance(6) {
		m = mixCase(r, m)
	}
	return m
}

// a right string: one of the fixed list, or one to three masks composed from stream paths
func (g *gen) right() string {
	r := g.c.Rng
	if r.Chance(55) {
		return g.pick(rights)
	}
	var ms []string
	for n := 1 + r.Intn(100)/70 + r.Intn(100)/85; n > 0; n-- {
		k := g.pick(keys)
		if len(g.regd) > 0 && r.Chance(60) {
			k = g.pick(g.regd)
		}
		ms = append(ms, g.maskFrom(k))
	}
	g.c.Count("gen-right-composed")
	sep := ";"
	if r.Chance(10) {
		sep = " ; "
	}
	return strings.Join(ms, sep)
}

// a request path derived from a mask some live user holds now; remembers whose mask it was
func (g *gen) nearKey() string {
	r := g.c.Rng
	type um struct{ user, mask string }
	var cands []um
	var ns []string
	for n, u := range g.users {
		if !u.deleted {
			ns = append(ns, n)
		}
	}
	sortStrings(ns)
	for _, n := range ns {
		for _, acc := range []string{g.users[n].pull, g.users[n].push} {
			for _, m := range strings.Split(acc, ";") {
				if secs := sections(m); len(secs) > 0 && !(len(secs) == 1 && secs[0] == "*") {
					cands = append(cands, um{n, m})
				}
			}
		}
	}
	if len(cands) == 0 {
		return ""
	}
	c := cands[r.Intn(len(cands))]
	secs := append([]string{}, sections(c.mask)...)
	if secs[len(secs)-1] == "*" {
		secs = secs[:len(secs)-1]
	}
	for i := range secs {
		if secs[i] == "+" || secs[i] == "*" {
			secs[i] = g.pick(secWords)
		}
	}
	n := len(secs)
	rel := "prefix"
	switch x := r.Intn(100); {
	case x < 34 && n >= 2: // a strict ancestor of the fixed part
		secs = secs[:1+r.Intn(n-1)]
		rel = "ancestor"
	case x < 46: // the fixed part itself
	case x < 62: // a child
		secs = append(secs, g.pick(secWords))
		rel = "child"
	case x < 72: // deeper
		secs = append(secs, g.pick(secWords), g.pick(secWords))
		rel = "descendant"
	case x < 88: // beside, at any depth
		secs[r.Intn(n)] = g.pick(secWords)
		rel = "sibling"
	default: // beside an ancestor
		if n >= 2 {
			secs = secs[:1+r.Intn(n-1)]
			secs[len(secs)-1] = g.pick(secWords)
			rel = "ancestor-sibling"
		}
	}
	k := "/" + strings.Join(secs, "/")
	g.near[k] = c.user
	g.c.Count("gen-path-" + rel + "-of-a-held-mask")
	return k
}

func mixCase(r *Rng, s string) string {
	b := []byte(s)
	for i := range b {
		if b[i] >= 'a' && b[i] <= 'z' && r.Chance(30) {
			b[i] -= 32
		}
	}
	return string(b)
}

// a stream path as a request may spell it
func (g *gen) spell(key string) (string, bool) {
	r := g.c.Rng
	if !r.Chance(28) {
		return key, false
	}
	switch r.Intn(8) {
	case 0:
		return mixCase(r, key), false
	case 1:
		return strings.Replace(key, "/", "//", 1), true
	case 2:
		return "/x/.." + key, true
	case 3:
		return "/cam/1/../.." + key, true
	case 4:
		return "/." + key, true
	case 5:
		return key + "/", false
	case 6:
		i := strings.LastIndex(key, "/")
		return key[:i] + "/zz/.." + key[i:], true
	default:
		return key + " ", false
	}
}

// An identity claim the client makes OUTSIDE its token: a value for the header the interceptors use
// among themselves to pass the verified user name on (any spelling of the key is the same key to
// net/http).  Mostly the name of someone who holds what the request needs; "" = no such header.
func (g *gen) claim(key string, admin bool) string {
	r := g.c.Rng
	if !r.Chance(14) {
		return ""
	}
	var cands []string
	for n, u := range g.users {
		if u.deleted {
			continue
		}
		if admin && u.admin || !admin && g.holds(n, key, false) {
			cands = append(cands, n)
		}
	}
	sortStrings(cands)
	name := g.pickUser()
	if len(cands) > 0 && r.Chance(80) {
		name = cands[r.Intn(len(cands))]
	}
	if r.Chance(20) {
		name = mixCase(r, name)
	}
	g.feats["identity-header"] = true
	h := ":H" + hexs(name)
	if r.Chance(15) {
		h += "," + hexs(g.pickUser())
	}
	return h
}

// a stream path as the URL of a WebSocket upgrade may spell it: an upgrade is a GET, whose path
// net/http cleans (301) but does not case-fold or trim
func (g *gen) spellWs(key string) (string, bool) {
	r := g.c.Rng
	if !r.Chance(22) {
		return key, false
	}
	switch r.Intn(5) {
	case 0, 1:
		g.feats["ws-noncanonical"] = true
		return mixCase(r, key), false
	case 2:
		g.feats["ws-noncanonical"] = true
		return key + " ", false
	case 3:
		g.feats["ws-noncanonical"] = true
		return key + "/", false
	default:
		return g.spell(key)
	}
}

func (g *gen) httpOp() {
	r := g.c.Rng
	key := g.anyKey()
	sp, nonCanon := g.spell(key)
	p := "/streams" + sp
	switch x := r.Intn(100); {
	case x < 32:
		p += ".flv"
	case x < 55:
		if r.Chance(8) {
			p += g.pick([]string{".M3U8", ".M3u8"})
		} else {
			p += ".m3u8"
		}
	case x < 88:
		seq := strconv.Itoa(1 + r.Intn(3))
		if r.Chance(12) {
			seq = g.pick([]string{"0", "4", "abc", "+2", "-1", "03", ""})
		}
		ext := ".ts"
		if r.Chance(12) {
			// odd-case extensions: the permission step and the handler must agree on what a segment request is
			ext = g.pick([]string{".TS", ".Ts", ".tS"})
		}
		p += "/" + seq + ext
	case x < 91:
		p = "/streams" + sp + "/crossdomain.xml"
	case x < 94:
		p += ".mp4"
	case x < 96:
		p += ".FLV"
	default:
		// no extension at all
	}
	m := "G"
	if nonCanon && r.Chance(70) || r.Chance(8) {
		m = "C"
	} else if r.Chance(4) {
		m = "O"
	}
	if nonCanon {
		g.feats["noncanonical"] = true
	}
	g.do(fmt.Sprintf("hs:%s:%s:%s%s", m, hexs(p), g.tokFor(key), g.claim(key, false)))
}

var apiPaths = []string{"/api/v1/users", "/api/v1/users/nobody", "/api/v1/routes", "/api/v1/routes/nopattern", "/api/v1/streams/no/stream", "/api/v1/streams", "/api/v1/streamsfoo",
	"/api/v1/login", "/api/v1/server", "/api/v1/runtime", "/api/v1/refreshtoken", "/api/v1/Server", "/api/v1/LOGIN", "/api/v1/crossdomain.xml",
	"/api/v1/users/../server", "/api/v1//users", "/api/v2/whatever", "/api/v1/streams/../users", "/api/"}

func (g *gen) apiOp() {
	r := g.c.Rng
	p := g.pick(apiPaths)
	m := g.pick([]string{"G", "G", "G", "D", "P", "C"})
	// side-effect free targets only: nothing exists under the names that DELETE / POST address, and
	// a refresh token never goes to the refresh end point through this op (that is `rf`)
	t := g.tokRef()
	if t[0] == 'R' {
		t = "A" + t[1:]
	}
	g.do(fmt.Sprintf("ap:%s:%s:%s%s", m, hexs(p), t, g.claim("", true)))
	_ = r
}

func (g *gen) loginOp() {
	r := g.c.Rng
	name := g.pickUser()
	u := g.users[name]
	pw := g.pick(passwords)
	if u != nil && !r.Chance(22) {
		pw = u.pw
	}
	if r.Chance(25) {
		name = mixCase(r, name)
	}
	pwt := "p" + hexs(pw)
	if r.Chance(15) {
		pwt = "m" + hexs(pw)
	}
	g.do(fmt.Sprintf("li:%s:%s", hexs(name), pwt))
}

func (g *gen) adminTok() string {
	// an access token that was issued to a (then) administrator, if the generator knows one
	if len(g.w.tokens) == 0 {
		return g.tokRef()
	}
	return g.tokRef()
}

// credentials for an RTSP request of this session
func (g *gen) cred(s *sess, honest bool) string {
	r := g.c.Rng
	if !g.authOn && !r.Chance(20) {
		return "-"
	}
	name := s.user
	u := g.users[name]
	pw := g.pick(passwords)
	if u != nil {
		pw = u.pw
	}
	fresh := s.hasNonce
	if !honest {
		switch r.Intn(4) {
		case 0:
			pw = g.pick(passwords)
		case 1:
			fresh = false
		case 2:
			name = g.pickUser()
		case 3:
			return "-"
		}
	}
	if r.Chance(15) {
		name = mixCase(r, name)
	}
	pwt := "p" + hexs(pw)
	if r.Chance(20) {
		pwt = "m" + hexs(pw)
	}
	return fmt.Sprintf("%s/%s/%s", hexs(name), pwt, B01(fresh))
}

func (g *gen) rtspStep(s *sess) {
	r := g.c.Rng
	if len(s.plan) == 0 {
		s.done = true
		return
	}
	step := s.plan[0]
	s.plan = s.plan[1:]
	f := strings.Split(step, "|") // METHOD|path|ctrl|tr[|nocred]
	method, p, ctrl, tr := f[0], f[1], f[2], f[3]
	// rights change while the session is half way: the later steps must see the rights as saved now
	if (method == "PLAY" || method == "RECORD" || method == "SETUP") && s.user != "" && r.Chance(12) {
		if u := g.users[s.user]; u != nil && !u.deleted {
			if r.Chance(75) {
				g.do(fmt.Sprintf("sv:%s:%s:%s:%s:p%s:0", hexs(s.user), B01(false), hexs(g.pick([]string{"", "/zz"})), hexs(g.pick([]string{"", "/zz"})), hexs(u.pw)))
				u.saves++
				u.admin, u.push, u.pull = false, "", ""
				g.feats["user-updated"] = true
			} else {
				g.do("dl:" + hexs(s.user))
				u.deleted = true
			}
			g.feats["narrowed-mid-session"] = true
		}
	}
	cred := "-"
	if s.kind == "rtsp" {
		if len(f) > 4 && f[4] == "nocred" {
			cred = "-"
		} else {
			cred = g.cred(s, !r.Chance(12))
		}
	} else if r.Chance(5) {
		cred = g.cred(s, true)
	}
	ct, sdp := "1", "1"
	if method == "ANNOUNCE" {
		if r.Chance(6) {
			ct = "0"
		}
		if r.Chance(6) {
			sdp = "0"
		}
	}
	out := g.do(fmt.Sprintf("rt:%s:%s:%s:%s:%s:%s:%s:%s", s.key, method, hexs(p), cred, ct, sdp, ctrl, tr))
	if strings.HasPrefix(out, "io:") || out == "no-session" {
		s.done = true
		return
	}
	if s.kind == "rtsp" && g.authOn {
		s.hasNonce = true
	}
	if method == "TEARDOWN" {
		s.done = true
	}
}

func (g *gen) planRtsp(ws bool) []string {
	r := g.c.Rng
	key := g.anyKey()
	sp, nc := g.spell(key)
	if ws {
		sp = key
	} else if nc {
		g.feats["noncanonical"] = true
	}
	other := g.anyKey()
	tr := g.pick([]string{"t/-/0", "t/-/0", "t/-/0", "t/p/0", "t/-/1", "x/-/0", "x/-/1"}) // UDP play needs a peer with an IP address: not on net.Pipe
	ctrl := g.pick([]string{"v", "v", "v", "a", "u"})
	var plan []string
	first := func(m, p string) {
		if !ws && g.authOn {
			plan = append(plan, m+"|"+p+"|v|t/-/0|nocred")
		}
	}
	switch x := r.Intn(100); {
	case x < 40: // play
		first("DESCRIBE", sp)
		plan = append(plan, "DESCRIBE|"+sp+"|v|t/-/0", "SETUP|"+sp+"|"+ctrl+"|"+tr, "PLAY|"+sp+"|v|t/-/0")
	case x < 62: // publish
		pub := g.pick([]string{"/pub/s1", "/pub/s2", "/a/b", "/live/new", key})
		if r.Chance(30) {
			if k := g.nearKey(); k != "" {
				pub = k // related to a mask somebody holds: above, at, below or beside its fixed part
			}
		}
		first("ANNOUNCE", pub)
		rtr := g.pick([]string{"t/r/0", "t/r/0", "t/r/0", "u/r/0", "t/-/0", "t/r/1"})
		plan = append(plan, "ANNOUNCE|"+pub+"|v|t/-/0", "SETUP|"+pub+"|"+ctrl+"|"+rtr, "RECORD|"+pub+"|v|t/-/0")
		if r.Chance(40) {
			plan = append(plan, "TEARDOWN|"+pub+"|v|t/-/0")
		}
	case x < 75: // switch path mid-session
		first("DESCRIBE", sp)
		plan = append(plan, "DESCRIBE|"+sp+"|v|t/-/0", "DESCRIBE|"+other+"|v|t/-/0", "SETUP|"+other+"|v|t/-/0", "PLAY|"+other+"|v|t/-/0")
	case x < 88: // announce another path, then play or record it
		first("ANNOUNCE", other)
		plan = append(plan, "ANNOUNCE|"+other+"|v|t/-/0")
		if r.Bool() {
			plan = append(plan, "DESCRIBE|"+sp+"|v|t/-/0", "SETUP|"+sp+"|v|t/-/0", "PLAY|"+sp+"|v|t/-/0")
		} else {
			plan = append(plan, "SETUP|"+other+"|v|t/r/0", "RECORD|"+other+"|v|t/-/0")
		}
	default: // anything
		first("OPTIONS", sp)
		n := 2 + r.Intn(5)
		for i := 0; i < n; i++ {
			m := g.pick([]string{"OPTIONS", "DESCRIBE", "ANNOUNCE", "SETUP", "PLAY", "RECORD", "PAUSE", "OTHER", "SETUP", "DESCRIBE"})
			plan = append(plan, m+"|"+g.anyKey()+"|"+g.pick([]string{"v", "a", "u"})+"|"+g.pick([]string{"t/-/0", "t/r/0", "u/r/0", "x/-/1"}))
		}
	}
	return plan
}

func (g *gen) startSession() {
	r := g.c.Rng
	switch x := r.Intn(100); {
	case x < 50:
		j := g.nRtsp
		g.nRtsp++
		g.do("ro:" + strconv.Itoa(j))
		plan := g.planRtsp(false)
		// the user: often one who holds the right the first real step needs
		user := g.pickUser()
		for _, st := range plan {
			f := strings.Split(st, "|")
			if f[0] == "DESCRIBE" || f[0] == "ANNOUNCE" {
				user = g.userFor(utils.CanonicalPath(f[1]), f[0] == "ANNOUNCE")
				break
			}
		}
		g.sess = append(g.sess, &sess{key: "n" + strconv.Itoa(j), kind: "rtsp", plan: plan, user: user})
	case x < 78:
		key := g.anyKey()
		sp, _ := g.spellWs(key)
		out := g.do(fmt.Sprintf("ws:rtsp:%s:%s%s", hexs("/streams"+sp), g.tokFor(key), g.claim(key, false)))
		if strings.HasPrefix(out, "up.") {
			wsUser := ""
			if tk := g.lastTokUser; tk != "" {
				wsUser = tk
			}
			g.sess = append(g.sess, &sess{key: "w" + out[3:], kind: "wsrtsp", plan: g.planRtsp(true), user: wsUser})
			g.feats["ws-rtsp"] = true
		}
	default:
		key := g.anyKey()
		ctok := g.tokFor(key)
		sp, _ := g.spellWs(key)
		out := g.do(fmt.Sprintf("ws:control:%s:%s%s", hexs("/streams"+sp), ctok, g.claim(key, false)))
		if strings.HasPrefix(out, "up.") {
			wsj, _ := strconv.Atoi(out[3:])
			ch := g.do("wc:" + out[3:])
			if strings.HasPrefix(ch, "ch.") {
				i, _ := strconv.Atoi(ch[3:])
				plan := []string{"DESCRIBE", "SETUP", "JOIN", "PLAY"}
				switch r.Intn(6) {
				case 0, 5:
					plan = []string{"DESCRIBE", "SETUP", "PLAY", "JOIN", "JOIN"}
				case 1:
					plan = []string{"JOIN", "DESCRIBE", "SETUP", "PLAY", "PAUSE", "PLAY"}
				case 2:
					plan = []string{"PLAY", "DESCRIBE", "SETUP", "OTHER", "PLAY", "JOIN", "JOIN"}
				}
				g.sess = append(g.sess, &sess{key: ch[3:], kind: "wsp", plan: plan, wsj: wsj, wspi: i, target: key, user: ctok})
				g.feats["wsp"] = true
			}
		}
	}
}

func (g *gen) wspStep(s *sess) {
	r := g.c.Rng
	if len(s.plan) == 0 {
		s.done = true
		return
	}
	step := s.plan[0]
	s.plan = s.plan[1:]
	if step == "JOIN" {
		// a data channel: the same URL and token kind as a well-behaved client, or someone else's
		// a well-behaved client opens the data channel like the control channel: same URL, same token
		key, tok := s.target, s.user
		if r.Chance(30) {
			key = g.anyKey()
		}
		if r.Chance(40) {
			tok = g.tokFor(key)
		}
		out := g.do(fmt.Sprintf("ws:data:%s:%s%s", hexs("/streams"+key), tok, g.claim(key, false)))
		if strings.HasPrefix(out, "up.") {
			ch := s.key
			if r.Chance(8) {
				ch = "x"
			}
			g.do(fmt.Sprintf("wd:%s:%s", out[3:], ch))
		}
		return
	}
	ctrl, trok := "v", "1"
	if r.Chance(8) {
		ctrl = "u"
	}
	if r.Chance(8) {
		trok = "0"
	}
	out := g.do(fmt.Sprintf("wr:%s:%s:%s:%s", s.key, step, ctrl, trok))
	if out == "io" || out == "err" {
		s.done = true
	}
}

func (g *gen) advance() bool {
	var live []*sess
	for _, s := range g.sess {
		if !s.done {
			live = append(live, s)
		}
	}
	if len(live) == 0 {
		return false
	}
	s := live[g.c.Rng.Intn(len(live))]
	if s.kind == "wsp" {
		g.wspStep(s)
	} else {
		g.rtspStep(s)
	}
	return true
}

func (g *gen) generate() {
	r := g.c.Rng
	g.authOn = !r.Chance(7)
	g.do("auth:" + B01(g.authOn))
	n := 2 + r.Intn(3)
	perm := r.Intn(len(keys))
	for i := 0; i < n; i++ {
		k := keys[(perm+i*3)%len(keys)]
		dup := false
		for _, x := range g.regd {
			dup = dup || x == k
		}
		if !dup {
			g.regd = append(g.regd, k)
			g.do("st:" + hexs(k))
		}
	}
	nu := 2 + r.Intn(3)
	for i := 0; i < nu; i++ {
		g.saveOp(names[(perm+i)%len(names)], "")
	}
	if r.Chance(60) {
		g.saveOp("root", "")
	}
	// streams AT paths related to the rights just saved (mostly: above the fixed part of a mask), so that
	// a wrong grant there delivers media and a wrong refusal withholds it
	for i := 0; i < 2; i++ {
		if !r.Chance(65) {
			continue
		}
		if k := g.nearKey(); k != "" {
			dup := false
			for _, x := range g.regd {
				dup = dup || x == k
			}
			if !dup {
				g.regd = append(g.regd, k)
				g.do("st:" + hexs(k))
			}
		}
	}
	// everybody logs in once, so that tokens exist
	for i := 0; i < 1+r.Intn(3); i++ {
		g.loginOp()
	}
	steps := 8 + r.Intn(28)
	for i := 0; i < steps; i++ {
		switch x := r.Intn(100); {
		case x < 9:
			via := ""
			if r.Chance(30) {
				via = g.tokRef()
			}
			name := g.pickUser()
			if r.Chance(20) {
				name = g.pick(names)
			}
			g.saveOp(name, via)
		case x < 12:
			name := g.pickUser()
			if r.Chance(30) {
				if g.do("adl:"+g.tokRef()+":"+hexs(name)+g.claim("", true)) == "pass" {
					if u := g.users[name]; u != nil {
						u.deleted = true
						g.feats["user-deleted"] = true
					}
				}
			} else {
				g.do("dl:" + hexs(mixCase(r, name)))
				if u := g.users[name]; u != nil {
					u.deleted = true
					g.feats["user-deleted"] = true
				}
			}
		case x < 21:
			g.loginOp()
		case x < 26:
			g.do("rf:" + g.refreshRef())
		case x < 31:
			g.do("ag:" + strconv.Itoa(ages[r.Intn(len(ages))]))
			g.feats["aged"] = true
			if r.Chance(60) {
				g.loginOp()
			}
		case x < 33:
			g.do("ex")
		case x < 55:
			g.httpOp()
		case x < 62:
			g.apiOp()
		case x < 65:
			key := g.anyKey()
			ext := g.pick([]string{".flv", ".flv", ".flv", ".mp4", ""})
			sp, _ := g.spellWs(key)
			g.do(fmt.Sprintf("ws:none:%s:%s%s", hexs("/streams"+sp+ext), g.tokFor(key), g.claim(key, false)))
		case x < 72:
			g.startSession()
		default:
			if !g.advance() {
				g.startSession()
			}
		}
	}
	// let the sessions finish what they planned (they interleave with nothing now)
	for i := 0; i < 12 && g.advance(); i++ {
	}
}

func (g *gen) refreshRef() string {
	r := g.c.Rng
	n := len(g.w.tokens)
	if n == 0 {
		return g.tokRef()
	}
	switch {
	case r.Chance(70):
		return "R" + strconv.Itoa(n-1-r.Intn(min(n, 3)))
	case r.Chance(50):
		return "A" + strconv.Itoa(r.Intn(n))
	default:
		return g.tokRef()
	}
}

// ---- classification of a failing op (stable class names for known_findings) ----

func classify(op string, verdict string, feats map[string]bool, raw, impls []string, at int) string {
	f := strings.Split(op, ":")
	v := strings.ToLower(verdict)
	base := f[0]
	switch f[0] {
	case "hs":
		p := string(Unhx(f[2]))
		sp := strings.TrimPrefix(p, "/streams")
		switch {
		case strings.HasSuffix(strings.ToLower(p), ".ts"):
			base = "http-ts-path"
		case strings.Contains(sp, "//") || strings.Contains(sp, "/./") || strings.Contains(sp, ".."):
			base = "http-noncanonical-path"
		case feats["user-updated"] || feats["user-deleted"]:
			base = "rights-after-update"
		default:
			base = "http-stream"
		}
	case "rt":
		// an earlier request of the same plain session was answered 401 although it carried credentials
		afterFailure := false
		for j := 0; j < at && j < len(raw); j++ {
			g := strings.Split(raw[j], ":")
			if g[0] == "rt" && g[1] == f[1] && g[4] != "-" && strings.HasPrefix(impls[j], "401") {
				afterFailure = true
			}
		}
		switch {
		case strings.HasPrefix(f[1], "w"):
			base = "ws-rtsp-permission"
		case afterFailure && v == "incomplete":
			base = "rtsp-digest-after-failure"
		case feats["user-updated"] || feats["user-deleted"]:
			base = "rights-after-update"
		default:
			base = "rtsp-permission"
		}
	case "ws":
		if feats["user-updated"] || feats["user-deleted"] {
			base = "rights-after-update"
		} else {
			base = "ws-upgrade"
		}
	case "wd":
		base = "wsp-join"
	case "wr":
		base = "wsp-session-permission"
	case "ap", "asv", "adl":
		base = "api-gate"
	case "li":
		base = "login"
	case "rf":
		base = "token-refresh"
	}
	if strings.HasPrefix(f[len(f)-1], "H") {
		// the request carried the client's own value for the internal identity header
		base += "-with-identity-header"
	}
	if v == "unsound" && aboveSomeMask(raw, impls, at, f) {
		// the path granted lies two or more sections ABOVE the fixed part of a mask saved in this history
		base += "-above-a-held-mask"
	}
	return base + "-" + v
}

// the stream path a request op names ("" if the op names none itself)
func opPath(f []string) string {
	switch f[0] {
	case "hs":
		p := strings.TrimPrefix(string(Unhx(f[2])), "/streams")
		if strings.HasSuffix(strings.ToLower(p), ".ts") {
			if i := strings.LastIndex(p, "/"); i >= 0 {
				return p[:i]
			}
		}
		if i := strings.LastIndex(p, "."); i > strings.LastIndex(p, "/") {
			p = p[:i]
		}
		return p
	case "ws":
		p := strings.TrimPrefix(string(Unhx(f[2])), "/streams")
		if i := strings.LastIndex(p, "."); i > strings.LastIndex(p, "/") {
			p = p[:i]
		}
		return p
	case "rt":
		return string(Unhx(f[3]))
	}
	return ""
}

// the user a request op speaks for, as far as the op itself says: the owner of its access token
// (followed through logins and refreshes by the outcomes recorded in the history) or the name in
// its digest credentials; "" when the op does not say (a request inside a WebSocket session)
func opUser(raw, impls []string, f []string) string {
	tokUser := func(k int) string {
		for depth := 0; depth < 64; depth++ {
			found := false
			for j, o := range impls {
				if o != "t"+strconv.Itoa(k) || j >= len(raw) {
					continue
				}
				x := strings.Split(raw[j], ":")
				if x[0] == "li" {
					return strings.ToLower(string(Unhx(x[1])))
				}
				if x[0] == "rf" && len(x[1]) > 1 && x[1][0] == 'R' {
					if k2, err := strconv.Atoi(x[1][1:]); err == nil {
						k, found = k2, true
					}
				}
				break
			}
			if !found {
				return ""
			}
		}
		return ""
	}
	ref := ""
	switch f[0] {
	case "hs", "ws":
		ref = f[3]
	case "rt":
		if f[4] != "-" {
			return strings.ToLower(string(Unhx(strings.Split(f[4], "/")[0])))
		}
	}
	if len(ref) > 1 && ref[0] == 'A' {
		if k, err := strconv.Atoi(ref[1:]); err == nil {
			return tokUser(k)
		}
	}
	return ""
}

// is the path of this op two or more sections shorter than a mask of the rights its user was LAST
// saved with, every section it has met by the mask's?  (names the class of an unsound grant only)
func aboveSomeMask(raw, impls []string, at int, f []string) bool {
	p, user := opPath(f), opUser(raw, impls, f)
	if p == "" || user == "" {
		return false
	}
	ps := sections(utils.CanonicalPath(p))
	var accs []string
	for j := 0; j < at && j < len(raw); j++ {
		x := strings.Split(raw[j], ":")
		switch {
		case x[0] == "sv" && len(x) > 4 && strings.ToLower(string(Unhx(x[1]))) == user:
			accs = []string{string(Unhx(x[3])), string(Unhx(x[4]))}
		case x[0] == "asv" && len(x) > 5 && impls[j] == "pass" && strings.ToLower(string(Unhx(x[2]))) == user:
			accs = []string{string(Unhx(x[4])), string(Unhx(x[5]))}
		}
	}
	for _, acc := range accs {
		for _, m := range strings.Split(acc, ";") {
			ms := sections(m)
			if len(ps) == 0 || len(ms) < len(ps)+2 {
				continue
			}
			ok := true
			for i := range ps {
				ok = ok && (ms[i] == "+" || ms[i] == ps[i])
			}
			if ok {
				return true
			}
		}
	}
	return false
}

// ---- sub-models compared directly with the library functions they model ----

func subModels(c *Ctx) {
	r := c.Rng
	alpha := []string{"a", "B", "/", "/", ".", "..", " ", "x.flv", "1", "cam", "//", "/./", "/../", ".ts", "\t"}
	var lines []string
	var want []string
	n := c.Budget(3000, 30000)
	for i := 0; i < n; i++ {
		var b strings.Builder
		for k := r.Intn(7); k > 0; k-- {
			b.WriteString(alpha[r.Intn(len(alpha))])
		}
		s := b.String()
		switch i % 4 {
		case 0:
			lines = append(lines, "c11 canon "+hexs(s))
			want = append(want, hexs(utils.CanonicalPath(s)))
		case 1:
			lines = append(lines, "c11 base "+hexs(s))
			want = append(want, hexs(path.Base(s)))
		case 2:
			num := g0pick(r, []string{"", "0", "7", "12", "+3", "-4", "03", "1a", "a", "+", "-", " 1", "9999"})
			lines = append(lines, "c11 atoi "+hexs(num))
			if v, err := strconv.Atoi(num); err == nil {
				want = append(want, strconv.Itoa(v))
			} else {
				want = append(want, "err")
			}
		case 3:
			// path.Ext through the model's extract: compared as the ext part only
			s = "/" + s
			lines = append(lines, "c11 extract "+hexs(s))
			want = append(want, "ext="+hexs(path.Ext(s)))
		}
	}
	outs := c.Drive(lines)
	for i := range lines {
		got := outs[i]
		if strings.HasPrefix(want[i], "ext=") {
			f := strings.Fields(got)
			if len(f) == 2 {
				got = "ext=" + f[1]
			} else if got == "panic" {
				continue // bounds: exercised through the real handler instead
			}
		}
		c.Eval(lines[i], true)
		c.Count("submodel")
		if got != want[i] {
			c.Find(Finding{Kind: "corr", Class: "submodel", Case: lines[i], Impl: want[i], Model: got})
		}
	}
}

func g0pick(r *Rng, ss []string) string { return ss[r.Intn(len(ss))] }

// ---- runner ----

type caseRec struct {
	line   string
	raw    []string
	impls  []string
	feats  map[string]bool
	slow   bool // a wait limit expired while this record was made
	wedged bool // an operation never returned
}

func runOps(c *Ctx, raw []string) caseRec {
	g := &gen{c: c, w: newWorld(), users: map[string]*uinfo{}, feats: map[string]bool{}, near: map[string]string{}}
	defer g.w.close()
	for _, op := range raw {
		g.do(op)
	}
	return caseRec{line: "c11 case " + strings.Join(g.ops, " "), raw: g.raw, impls: g.impls, feats: featsOf(g.raw), slow: g.w.slow, wedged: g.w.wedged}
}

// settle: a record made while some wait limit expired says nothing yet (a loaded machine can make any
// wait long).  The same operations are executed again on a fresh world, nothing else running in this
// process, with limits three times as long; only what that second run shows is judged.  An operation
// that does not return in the second run either is a stable hang of the implementation: a finding
// with the case as replay.
func settle(c *Ctx, k caseRec) (caseRec, bool) {
	if !k.slow {
		return k, true
	}
	c.Count("rerun-after-expired-wait")
	waitLimit, hangLimit = 3*waitLimitBase, 3*hangLimitBase
	k2 := runOps(c, k.raw)
	waitLimit, hangLimit = waitLimitBase, hangLimitBase
	if !k2.slow {
		c.Count("rerun-clean")
		return k2, true
	}
	c.Count("rerun-slow-again")
	src := k2
	if len(k2.raw) == 0 && k.wedged {
		src = k // the stuck operation of the first run blocks even the reset of the world: the process is wedged
	}
	for at, o := range src.impls {
		if o == "hung" {
			kind := strings.SplitN(src.raw[at], ":", 2)[0]
			c.Find(Finding{Kind: "oracle", Class: "hang-" + kind, Case: src.line, Impl: "no answer within " + (3 * waitLimitBase).String() + ", twice", Spec: "an answer",
				Detail: fmt.Sprintf("op #%d %s (%s)", at, src.raw[at], describe(src.raw[at]))})
			// one replay of a stable hang is enough, and every further one would cost minutes: stop generating
			// (goroutines are stuck inside the implementation, possibly holding its locks)
			return src, false
		}
	}
	// whatever else the second run shows is stable: it is judged like any other record
	return k2, !k2.wedged
}

// features recomputed from the ops themselves (so that replayed cases classify identically)
func featsOf(raw []string) map[string]bool {
	f := map[string]bool{}
	saved := map[string]int{}
	for _, op := range raw {
		x := strings.Split(op, ":")
		switch x[0] {
		case "sv":
			n := strings.ToLower(string(Unhx(x[1])))
			saved[n]++
			if saved[n] > 1 {
				f["user-updated"] = true
			}
		case "asv":
			n := strings.ToLower(string(Unhx(x[2])))
			saved[n]++
			if saved[n] > 1 {
				f["user-updated"] = true
			}
		case "dl", "adl":
			f["user-deleted"] = true
		case "ws":
			if sp := strings.TrimPrefix(string(Unhx(x[2])), "/streams"); utils.CanonicalPath(sp) != sp && !strings.Contains(sp, ".") {
				f["ws-noncanonical-path"] = true
			}
		}
		if strings.HasPrefix(x[len(x)-1], "H") {
			f["client-identity-header"] = true
		}
	}
	return f
}

func run(c *Ctx) {
	setupService()
	c.Res.Rule = "case = one history (stream registrations, user saves/deletes, logins, refreshes, ageing, requests on HTTP-FLV/m3u8/ts, API, WS-FLV, RTSP, ws-RTSP, WSP) on a fresh world; distinct by the full op list; non-trivial when it contains at least one request op on a media or API entry point with authentication enabled"
	var cases []caseRec
	// corpus first
	for _, l := range c.CorpusLines() {
		f := strings.Fields(l)
		if len(f) >= 3 && f[0] == "c11" && f[1] == "case" {
			var raw []string
			for _, t := range f[2:] {
				raw = append(raw, strings.SplitN(t, "@", 2)[0])
			}
			k, _ := settle(c, runOps(c, raw))
			cases = append(cases, k)
			c.Count("corpus-case")
		}
	}
	if c.Replay == "" {
		n := c.Budget(1200, 12000)
		for i := 0; i < n; i++ {
			g := &gen{c: c, w: newWorld(), users: map[string]*uinfo{}, feats: map[string]bool{}, near: map[string]string{}}
			g.generate()
			g.w.close()
			k, usable := settle(c, caseRec{line: "c11 case " + strings.Join(g.ops, " "), raw: g.raw, impls: g.impls, feats: featsOf(g.raw), slow: g.w.slow, wedged: g.w.wedged})
			cases = append(cases, k)
			if !usable {
				// a goroutine is stuck inside the implementation, possibly holding one of its locks:
				// nothing executed after this could be trusted
				c.Count("stopped-after-stable-hang")
				break
			}
		}
	}
	lines := make([]string, len(cases))
	for i, k := range cases {
		lines[i] = k.line
	}
	outs := c.Drive(lines)
	for i, k := range cases {
		res := strings.Fields(outs[i])
		nontrivial := false
		if len(res) != len(k.raw) {
			c.Find(Finding{Kind: "corr", Class: "driver-output", Case: k.line, Impl: strconv.Itoa(len(k.raw)), Model: outs[i]})
			continue
		}
		authOn := true
		diverged := false
		for j, op := range k.raw {
			kind := strings.SplitN(op, ":", 2)[0]
			if op == "auth:0" {
				authOn = false
			}
			mv := strings.SplitN(res[j], "~", 2)
			if len(mv) != 2 {
				c.Find(Finding{Kind: "corr", Class: "driver-output", Case: k.line, Impl: k.impls[j], Model: res[j], Detail: "op " + op})
				break
			}
			model, verdict := mv[0], mv[1]
			impl := k.impls[j]
			c.Count("op-" + kind)
			if impl != "" {
				c.Count("out-" + kind + "-" + outcomeClass(impl))
				if authOn {
					switch kind {
					case "hs", "ap", "ws", "rt", "wr", "wd", "asv", "adl":
						nontrivial = true
					}
				}
				if impl != model && !diverged {
					c.Find(Finding{Kind: "corr", Class: kind, Case: k.line, Impl: impl, Model: model,
						Detail: fmt.Sprintf("op #%d %s (%s)", j, op, describe(op))})
					// the model's state is no longer the implementation's: later outcomes of this history are
					// not compared with the model — but the monitor still judges every one of them, its state
					// follows the implementation's outcomes, not the model's
					diverged = true
				}
			}
			if verdict != "ok" {
				c.Find(Finding{Kind: "oracle", Class: classify(op, verdict, k.feats, k.raw, k.impls, j), Case: k.line, Impl: impl, Model: model, Spec: verdict,
					Detail: fmt.Sprintf("op #%d %s (%s)", j, op, describe(op))})
			}
		}
		for f := range k.feats {
			c.Count("case-with-" + f)
		}
		c.Eval(k.line, nontrivial)
		if i%(len(cases)/6+1) == 0 {
			c.Sample(truncate(k.line, 700))
		}
	}
	subModels(c)
	if c.Replay == "" {
		secrecy(c)
	}
}

func truncate(s string, n int) string {
	if len(s) > n {
		return s[:n] + "…"
	}
	return s
}

func outcomeClass(o string) string {
	switch {
	case strings.HasPrefix(o, "sv."):
		return strings.Join(strings.Split(o, ".")[:2], ".")
	case strings.HasPrefix(o, "up."), strings.HasPrefix(o, "fl."), strings.HasPrefix(o, "cl."), strings.HasPrefix(o, "ch."):
		return o[:2]
	case strings.HasPrefix(o, "t") && len(o) > 1 && o[1] >= '0' && o[1] <= '9':
		return "issued"
	case strings.Contains(o, "/"):
		f := strings.SplitN(o, "/", 2)
		e := f[1]
		if len(e) > 1 {
			e = e[:1]
		}
		return f[0] + "/" + e
	}
	return o
}

// human-readable form of an op for the finding detail
func describe(op string) string {
	f := strings.Split(op, ":")
	var out []string
	for _, x := range f {
		if len(x) >= 2 && len(x)%2 == 0 && isHex(x) {
			out = append(out, strconv.Quote(string(Unhx(x))))
		} else {
			out = append(out, x)
		}
	}
	return strings.Join(out, " ")
}

func isHex(s string) bool {
	for _, c := range s {
		if !(c >= '0' && c <= '9' || c >= 'a' && c <= 'f') {
			return false
		}
	}
	return true
}
