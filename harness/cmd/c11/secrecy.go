package main

// Secrecy of tokens and nonces, tied to the real server: everything an unauthenticated or another
// client is shown (RTSP `Session:` headers, WSP channel ids, its own nonces and tokens) is turned
// into symbolic terms by recognising the real renderings of security.ID; every secret of the victim
// (access token, refresh token, digest nonce of his session) likewise; the Lean attacker model
// (IpcHub/Model/Ids.lean, `derivable`) then says whether the victim's secret can be computed.

import (
	"bufio"
	"fmt"
	"net"
	"strconv"
	"strings"

	. "verifharness/hlib"

	"github.com/cnotch/ipchub/provider/security"
)

const idWindow = 400 // how far from a disclosed counter value the explanation search looks

type explainer struct {
	ids   []uint64          // counter values disclosed so far
	rnd   map[string]int    // opaque strings → index
	seen  map[string]string // secret → term
	count int
}

func parseID(s string) (uint64, string, bool) {
	// decimal (ID.String)
	if v, err := strconv.ParseUint(s, 10, 64); err == nil && security.ID(v).String() == s {
		return v, "d", true
	}
	return 0, "", false
}

// explain a string the server produced as a term over the disclosed counter values
func (x *explainer) explain(s string) string {
	if t, ok := x.seen[s]; ok {
		return t
	}
	t := ""
	for _, id := range x.ids {
		for d := -idWindow; d <= idWindow && t == ""; d++ {
			v := security.ID(uint64(int64(id) + int64(d)))
			switch s {
			case v.MD5():
				t = fmt.Sprintf("m.c.%d", uint64(v))
			case v.Base64():
				t = fmt.Sprintf("b.c.%d", uint64(v))
			case v.String():
				t = fmt.Sprintf("d.c.%d", uint64(v))
			case v.Hex(), strings.ToLower(v.Hex()):
				t = fmt.Sprintf("h.c.%d", uint64(v))
			}
		}
	}
	if t == "" {
		if _, ok := x.rnd[s]; !ok {
			x.rnd[s] = len(x.rnd)
		}
		t = fmt.Sprintf("r.%d", x.rnd[s])
	}
	x.seen[s] = t
	return t
}

// one unauthenticated RTSP exchange: the Session header and the digest nonce the server shows
func rtspProbe() (session, nonce string) {
	c1, c2 := net.Pipe()
	svc.VerifAcceptRTSP(c2)
	defer c1.Close()
	cl := &rtspClient{pipe: c1, rd: bufio.NewReader(c1)}
	_, hdr, _, err := cl.roundTrip("OPTIONS rtsp://h/x RTSP/1.0\r\nCSeq: 1\r\n\r\n", true)
	if err != nil {
		return "", ""
	}
	return hdr["session"], cl.nonce
}

// decode the uvarint+base64 Session id back to the counter value by search around a known one
func idOfSession(sess string, around uint64) (uint64, bool) {
	for d := -100000; d <= 100000; d++ {
		v := uint64(int64(around) + int64(d))
		if security.ID(v).Base64() == sess {
			return v, true
		}
	}
	return 0, false
}

func secrecy(c *Ctx) {
	n := c.Budget(40, 400)
	var lines []string
	var descr []string
	for i := 0; i < n; i++ {
		w := newWorld()
		w.exec("auth:1")
		w.exec("st:" + hexs("/a/b"))
		w.exec(fmt.Sprintf("sv:%s:0:-:%s:p%s:1", hexs("victim"), hexs("/a/b"), hexs("pw1")))
		w.exec(fmt.Sprintf("sv:%s:0:-:%s:p%s:1", hexs("mallory"), hexs("/a/b"), hexs("pw2")))
		x := &explainer{rnd: map[string]int{}, seen: map[string]string{}}
		// interleave in a seeded order: what the attacker sees before and after the victim's secrets are made
		var known []string
		attackerSees := func() {
			switch c.Rng.Intn(3) {
			case 0, 1:
				sess, nonce := rtspProbe()
				if sess != "" {
					// the counter value behind the Session header (the search start is the current counter,
					// which any NewID reveals)
					if id, ok := idOfSession(sess, uint64(security.NewID())); ok {
						x.ids = append(x.ids, id)
					}
					known = append(known, sess, nonce)
				}
			case 2:
				if w.exec(fmt.Sprintf("li:%s:p%s", hexs("mallory"), hexs("pw2"))) != "no" {
					t := w.tokens[len(w.tokens)-1]
					known = append(known, t.a, t.r)
					out := w.exec(fmt.Sprintf("ws:control:%s:A%d", hexs("/streams/a/b"), len(w.tokens)-1))
					if strings.HasPrefix(out, "up.") {
						if ch := w.exec("wc:" + out[3:]); strings.HasPrefix(ch, "ch.") {
							k, _ := strconv.Atoi(ch[3:])
							cid := w.wsp[k].chan_
							if id, _, ok := parseID(cid); ok {
								x.ids = append(x.ids, id)
							}
							known = append(known, cid)
						}
					}
				}
			}
		}
		for k := c.Rng.Intn(3); k >= 0; k-- {
			attackerSees()
		}
		var secrets []string
		if w.exec(fmt.Sprintf("li:%s:p%s", hexs("victim"), hexs("pw1"))) != "no" {
			t := w.tokens[len(w.tokens)-1]
			secrets = append(secrets, t.a, t.r)
		}
		if _, nonce := rtspProbe(); nonce != "" {
			secrets = append(secrets, nonce) // the nonce of the victim's own session
		}
		for k := c.Rng.Intn(3); k >= 0; k-- {
			attackerSees()
		}
		w.close()
		var K []string
		for _, s := range known {
			K = append(K, x.explain(s))
		}
		seen := map[string]bool{}
		for _, s := range secrets {
			if seen[s] {
				c.Find(Finding{Kind: "oracle", Class: "token-collision", Case: "secret repeated: " + s, Impl: "repeated", Spec: "distinct"})
			}
			seen[s] = true
			for _, kn := range known {
				if kn == s {
					c.Find(Finding{Kind: "oracle", Class: "token-collision", Case: "a victim secret equals a disclosed string", Impl: "equal", Spec: "distinct"})
				}
			}
			lines = append(lines, fmt.Sprintf("c11 secrecy %s %s", strings.Join(K, ","), x.explain(s)))
			descr = append(descr, fmt.Sprintf("secret %s… explained as %s; disclosed %d strings, %d counter values", s[:6], x.explain(s), len(known), len(x.ids)))
		}
	}
	outs := c.Drive(lines)
	for i, o := range outs {
		m := KV(o)
		c.Eval(lines[i], true)
		c.Count("secrecy-target")
		c.Count("secrecy-source-" + m["source"])
		if strings.Contains(lines[i], " m.c.") || strings.HasSuffix(strings.Fields(lines[i])[3], "c."+"") {
			c.Count("secrecy-target-is-counter-hash")
		}
		if m["derivable"] != "0" {
			c.Find(Finding{Kind: "oracle", Class: "token-derivable", Case: lines[i], Impl: "derivable", Spec: "secret", Model: o, Detail: descr[i]})
		}
		if i == 0 {
			c.Sample(lines[i] + " -> " + o + "   (" + descr[i] + ")")
		}
	}
}
