// C06 — RTP depacketisation reproduces the sender's access units exactly.
//
// The Lean driver packetises generated NAL-unit / AU sequences with the specification
// packetiser (Spec/Packetise.lean) and runs the model (Model/Depack.lean); this binary feeds the
// same packets — wrapped into RTP and RTSP-interleaved frames and parsed by the real
// rtp.ReadPacket — to the real depacketizers (synchronously, or through the rtp.Demuxer
// goroutine), compares frames / PTS / per-packet results / parameter sets with the model
// (correspondence) and lets the driver judge the observed frames with the property predicate
// (oracle).
package main

import (
	"bytes"
	"fmt"
	"os"
	"sort"
	"strings"

	d "verifharness/depack"
	. "verifharness/hlib"
)

func main() { Main("C06", run) }

type work struct {
	c    *d.Case
	line string // run line
	m    d.ModelOut
	impl d.ImplOut
}

func genCase(g *d.Gen, c *Ctx) *d.Case {
	r := c.Rng
	cs := &d.Case{Codec: "h264", Rate: 90000, ARate: 44100, Mode: "exact"}
	if r.Chance(45) {
		cs.Codec = "h265"
	}
	c.Count("codec-" + cs.Codec)
	if r.Chance(10) {
		cs.Rate = []int{90000, 48000, 1000, 12345}[r.Intn(4)]
	}
	// timestamps
	var ts uint32
	switch x := r.Intn(100); {
	case x < 45:
		ts = uint32(r.U64())
	case x < 75:
		ts = uint32(r.Intn(100000))
	default:
		ts = 0xFFFFFFFF - uint32(r.Intn(20000))
		cs.Tags = append(cs.Tags, "ts-near-wrap")
	}
	step := []uint32{3000, 3600, 1, 90000, 1500}[r.Intn(5)]
	switch x := r.Intn(100); {
	case x < 60:
		cs.Seq0 = uint16(r.U64())
	default:
		cs.Seq0 = uint16(65536 - r.Intn(25))
		cs.Tags = append(cs.Tags, "seq-near-wrap")
	}
	nAU := 1 + r.Intn(7)
	inband := r.Chance(30)
	filler := cs.Codec == "h264" && !inband && r.Chance(8)
	var pre []d.Elem
	if cs.Codec == "h264" {
		sps, pps := d.H264Sps[r.Intn(len(d.H264Sps))], d.H264Pps[r.Intn(len(d.H264Pps))]
		if inband {
			if r.Bool() {
				pre = []d.Elem{{Kind: 'A', TS: ts, Nals: [][]byte{sps, pps}}}
			} else {
				pre = []d.Elem{{Kind: 'S', TS: ts, Nals: [][]byte{sps}}, {Kind: 'S', TS: ts, Nals: [][]byte{pps}}}
			}
		} else {
			cs.Sps, cs.Pps, cs.WK = sps, pps, true
		}
	} else {
		vps, sps, pps := d.H265Vps[0], d.H265Sps[r.Intn(len(d.H265Sps))], d.H265Pps[0]
		if inband {
			if r.Bool() {
				pre = []d.Elem{{Kind: 'A', TS: ts, Nals: [][]byte{vps, sps, pps}}}
			} else {
				pre = []d.Elem{{Kind: 'S', TS: ts, Nals: [][]byte{vps}}, {Kind: 'S', TS: ts, Nals: [][]byte{sps}}, {Kind: 'S', TS: ts, Nals: [][]byte{pps}}}
			}
		} else {
			cs.Vps, cs.Sps, cs.Pps, cs.WK = vps, sps, pps, true
		}
	}
	if inband {
		cs.Mode, cs.Strict, cs.Skip = "contain", true, len(pre)
		cs.Tags = append(cs.Tags, "inband-ps")
		c.Count("setup-inband-parameter-sets")
	} else {
		c.Count("setup-sdp-parameter-sets")
	}
	if filler {
		cs.Tags = append(cs.Tags, "filler")
	}
	velems := g.VideoElems(cs.Codec, nAU, ts, step, filler)
	elems := append(pre, velems...)
	// audio
	if r.Chance(50) {
		cs.Aac = true
		cs.ARate = []int{44100, 48000, 8000, 16000}[r.Intn(4)]
		cs.ASeq0 = uint16(r.U64())
		ats := uint32(r.U64())
		if r.Chance(25) {
			ats = 0xFFFFFFFF - uint32(r.Intn(5000))
			cs.Tags = append(cs.Tags, "ats-near-wrap")
		}
		na := 1 + r.Intn(5)
		for i := 0; i < na; i++ {
			e := g.AacElem(ats)
			ats += uint32(1024 * len(e.Nals))
			pos := len(pre) + r.Intn(len(elems)-len(pre)+1)
			elems = append(elems[:pos], append([]d.Elem{e}, elems[pos:]...)...)
		}
	}
	// packets without payload between the sender's items (never inside a fragmented unit: RFC 6184
	// 5.8 / RFC 7798 4.4.3 forbid other packets of the stream between the fragments): padding-only
	// packets (pacing, probing, keep-alive) or a bare header — they carry no unit at all
	if r.Chance(25) {
		k := 1 + r.Intn(3)
		for i := 0; i < k; i++ {
			e := d.Elem{Kind: 'R', TS: ts + uint32(r.Intn(3))*step, M: r.Chance(20)}
			if cs.Aac && r.Chance(25) {
				e.Kind = 'Q'
			}
			pos := len(pre) + r.Intn(len(elems)-len(pre)+1)
			elems = append(elems[:pos], append([]d.Elem{e}, elems[pos:]...)...)
		}
		cs.Tags = append(cs.Tags, "empty-packets")
		c.Count("with-padding-only-or-empty-packets")
	}
	cs.Sync = !cs.Aac || r.Bool()
	// RTCP sender report somewhere (sync mode only: frames are attributed to packets there)
	if cs.Sync && r.Chance(6) {
		e := d.Elem{Kind: 'C', Data: d.SenderReport(ts - 1000)}
		if cs.Aac && r.Bool() {
			e.Kind = 'X'
		}
		pos := len(pre) + r.Intn(len(elems)-len(pre)+1)
		elems = append(elems[:pos], append([]d.Elem{e}, elems[pos:]...)...)
		cs.Tags = append(cs.Tags, "sr")
		c.Count("with-sender-report")
	}
	cs.Elems = elems
	// arrival order
	n := 0
	var fragPos []int
	for i, e := range elems {
		if e.Kind == 'F' && i >= len(pre) {
			for k := 0; k < e.NPkts(); k++ {
				fragPos = append(fragPos, n+k)
			}
		}
		n += e.NPkts()
	}
	firstFree := 0
	for _, e := range pre {
		firstFree += e.NPkts()
	}
	if !filler {
		x := r.Intn(100)
		if inband && x >= 75 {
			x -= 40 // in-band parameter sets: loss only (the containment judge needs the sender's order)
		}
		switch {
		case x < 45:
			c.Count("arrival-in-order")
		case x < 75:
			// loss: mostly inside fragmented units
			drop := map[int]bool{}
			k := 1 + r.Intn(3)
			for i := 0; i < k; i++ {
				if len(fragPos) > 0 && r.Chance(75) {
					drop[fragPos[r.Intn(len(fragPos))]] = true
				} else if n > firstFree {
					drop[firstFree+r.Intn(n-firstFree)] = true
				}
			}
			cs.Order = []int{}
			for i := 0; i < n; i++ {
				if !drop[i] {
					cs.Order = append(cs.Order, i)
				}
			}
			cs.Tags = append(cs.Tags, "loss")
			c.Count("arrival-loss")
		case x < 90:
			cs.Order = make([]int, n)
			for i := range cs.Order {
				cs.Order[i] = i
			}
			k := 1 + r.Intn(2)
			for i := 0; i < k && n-firstFree >= 2; i++ {
				p := firstFree + r.Intn(n-firstFree-1)
				if len(fragPos) > 1 && r.Chance(70) {
					p = fragPos[r.Intn(len(fragPos))]
					if p+1 >= n {
						p--
					}
					if p < firstFree {
						p = firstFree
					}
				}
				switch y := r.Intn(100); {
				case y < 50 || n-firstFree < 4: // adjacent swap
					cs.Order[p], cs.Order[p+1] = cs.Order[p+1], cs.Order[p]
					c.Count("reorder-adjacent-swap")
				case y < 85: // one packet overtakes / falls behind by 2..5 positions
					q := p + 2 + r.Intn(4)
					if q >= n {
						q = n - 1
					}
					a, b := p, q
					if r.Bool() { // late arrival: p moves to q
						x := cs.Order[a]
						copy(cs.Order[a:b], cs.Order[a+1:b+1])
						cs.Order[b] = x
					} else { // early arrival: q moves to p
						x := cs.Order[b]
						copy(cs.Order[a+1:b+1], cs.Order[a:b])
						cs.Order[a] = x
					}
					c.Count("reorder-displaced-packet")
				default: // a window of 3..5 packets arrives in arbitrary order
					w := 3 + r.Intn(3)
					if p+w > n {
						w = n - p
					}
					for j := w - 1; j > 0; j-- {
						k := r.Intn(j + 1)
						cs.Order[p+j], cs.Order[p+k] = cs.Order[p+k], cs.Order[p+j]
					}
					c.Count("reorder-shuffled-window")
				}
			}
			cs.Tags = append(cs.Tags, "reorder")
			c.Count("arrival-reorder")
		default:
			cs.Order = []int{}
			for i := 0; i < n; i++ {
				if i >= firstFree && r.Chance(10) {
					continue
				}
				cs.Order = append(cs.Order, i)
				if i >= firstFree && r.Chance(12) {
					cs.Order = append(cs.Order, i)
				}
			}
			cs.Tags = append(cs.Tags, "loss", "dup")
			c.Count("arrival-loss-and-duplicates")
		}
	} else {
		c.Count("arrival-in-order")
		c.Count("with-filler-units")
	}
	// audio packets and RTCP travel in their own RTP streams / channels: they may arrive anywhere
	// between the video packets, also between the fragments of a unit (not a reordering of the
	// video stream)
	if r.Chance(30) {
		var chOf []byte // per packet position: the element kind it came from
		for _, e := range elems {
			for k := 0; k < e.NPkts(); k++ {
				chOf = append(chOf, e.Kind)
			}
		}
		other := func(pos int) bool {
			k := chOf[pos]
			return k == 'U' || k == 'Q' || k == 'C' || k == 'X'
		}
		ord := cs.Order
		if ord == nil {
			ord = make([]int, n)
			for i := range ord {
				ord[i] = i
			}
		}
		var vid, oth []int
		for _, pos := range ord {
			if pos >= firstFree && other(pos) {
				oth = append(oth, pos)
			} else {
				vid = append(vid, pos)
			}
		}
		if len(oth) > 0 {
			// merge: the other streams' packets at random places after the parameter-set prefix
			lo := 0
			for lo < len(vid) && vid[lo] < firstFree {
				lo++
			}
			out := append([]int{}, vid[:lo]...)
			rest := vid[lo:]
			for len(rest) > 0 || len(oth) > 0 {
				if len(oth) > 0 && (len(rest) == 0 || r.Intn(len(rest)+len(oth)) < len(oth)) {
					out, oth = append(out, oth[0]), oth[1:]
				} else {
					out, rest = append(out, rest[0]), rest[1:]
				}
			}
			cs.Order = out
			cs.Tags = append(cs.Tags, "cross-stream-interleave")
			c.Count("arrival-audio-rtcp-interleaved-anywhere")
		}
	}
	if r.Chance(45) {
		cs.Hdr = 1 + r.Intn(6)
		if os.Getenv("C06_DEBUG_NOPAD") != "" && (cs.Hdr == 3 || cs.Hdr == 4 || cs.Hdr == 6) {
			cs.Hdr = 1
		}
	}
	c.Count(fmt.Sprintf("rtp-header-variant-%d", cs.Hdr))
	if cs.Sync {
		c.Count("mode-sync-depacketizer")
	} else {
		c.Count("mode-demuxer-goroutine")
	}
	for _, t := range cs.Tags {
		if strings.HasSuffix(t, "near-wrap") {
			c.Count(t)
		}
	}
	return cs
}

func classOf(cs *d.Case, base string) string {
	s := cs.Codec + ":" + base
	if cs.HasTag("reorder") {
		s += "-under-reorder"
	} else if cs.HasTag("dup") {
		s += "-under-loss-dup"
	} else if cs.HasTag("loss") {
		s += "-under-loss"
	}
	return s
}

func run(c *Ctx) {
	g := &d.Gen{R: c.Rng, Count: c.Count}
	tbl := d.NewSpsTable()
	c.Res.Rule = "case = one generated stream (codec, parameter-set setup, NAL/AU sizes, per-unit packetisation decision single/aggregate/fragment with cut sizes, sequence/timestamp start incl. wrap, arrival order with loss/reorder/duplicates, RTP header variant, sync or goroutine mode); distinct by the full op line; non-trivial when it has at least 2 packets and the implementation handed on at least one frame"
	var cases []*d.Case
	for _, l := range c.CorpusLines() {
		f := strings.Fields(l)
		if len(f) >= 2 && strings.EqualFold(f[0], "c06") && f[1] == "run" {
			cases = append(cases, d.CaseFromLine(strings.Join(f[1:], " ")))
		}
	}
	nCorpus := len(cases)
	if c.Replay == "" {
		n := c.Budget(700, 9000)
		for i := 0; i < n; i++ {
			cases = append(cases, genCase(g, c))
		}
	}
	const batch = 250
	for lo := 0; lo < len(cases); lo += batch {
		hi := lo + batch
		if hi > len(cases) {
			hi = len(cases)
		}
		runBatch(c, tbl, cases[lo:hi], lo < nCorpus)
		if d.Stopped {
			c.Note("stopped after a hang of the implementation: the remaining cases were not run")
			break
		}
	}
}

func runBatch(c *Ctx, tbl *d.SpsTable, cases []*d.Case, corpus bool) {
	ws := make([]*work, len(cases))
	lines := make([]string, len(cases))
	cands := make([][][]byte, len(cases))
	for i, cs := range cases {
		ws[i] = &work{c: cs}
		// candidates known in advance: the pools and every parameter-set-typed unit of the stream
		var cd [][]byte
		if len(cs.Sps) > 0 {
			cd = append(cd, cs.Sps)
		}
		for _, e := range cs.Elems {
			for _, n := range e.Nals {
				if len(n) > 0 && ((cs.Codec == "h264" && n[0]&0x1f == 7) || (cs.Codec == "h265" && (n[0]>>1)&0x3f == 33)) {
					cd = append(cd, n)
				}
			}
		}
		cands[i] = cd
	}
	// run lines; re-drive the cases whose model consulted an SPS the table does not know yet
	todo := make([]int, len(cases))
	for i := range todo {
		todo[i] = i
	}
	for round := 0; len(todo) > 0 && round < 4; round++ {
		var ls []string
		for _, i := range todo {
			ok, ko := tbl.Split(cases[i].Codec, cands[i])
			lines[i] = "c06 " + cases[i].Line("run", ok, ko, "")
			ls = append(ls, lines[i])
		}
		outs := c.Drive(ls)
		var next []int
		for k, i := range todo {
			ws[i].m = d.ParseRun(outs[k])
			ws[i].line = lines[i]
			if len(ws[i].m.Unk) > 0 {
				cands[i] = append(cands[i], ws[i].m.Unk...)
				next = append(next, i)
				c.Count("sps-oracle-requery")
			}
		}
		todo = next
	}
	// implementation
	var jl []string
	var ji []int
	for i, w := range ws {
		cs := w.c
		order := cs.Order
		if order == nil {
			order = make([]int, len(w.m.Pkts))
			for k := range order {
				order[k] = k
			}
		}
		if d.Stopped {
			break
		}
		if cs.Sync {
			w.impl = d.RunSync(cs, w.m.Pkts, order)
		} else {
			w.impl = d.RunDemuxer(cs, w.m.Pkts, order)
		}
		c.Eval(w.line, len(w.m.Pkts) >= 2 && len(w.impl.Frames) >= 1)
		if w.impl.Skipped != "" {
			c.Count("skipped-" + strings.SplitN(w.impl.Skipped, ":", 2)[0])
			if strings.HasPrefix(w.impl.Skipped, "readpacket") {
				c.Find(Finding{Kind: "oracle", Class: classOf(cs, "readpacket-rejects-valid-rtp"), Case: w.line, Impl: w.impl.Skipped, Spec: "accepted"})
			}
			continue
		}
		compare(c, w)
		ok, ko := tbl.Split(cs.Codec, cands[i])
		jl = append(jl, "c06 "+cs.Line("judge", ok, ko, "obs="+d.ObsString(w.impl.Frames)))
		ji = append(ji, i)
	}
	outs := c.Drive(jl)
	var jl2 []string
	var ji2 []int
	for k, i := range ji {
		w := ws[i]
		v := KV(outs[k])
		if _, ok := v["video"]; !ok {
			Fatal("judge: %s", outs[k])
		}
		for _, key := range []string{"video", "audio", "vpts", "apts"} {
			if v[key] == "ok" {
				continue
			}
			c.Count("oracle-" + key + "-" + v[key])
			if key == "video" && v[key] == "unit-missing" && w.c.Codec == "h264" {
				ok, ko := tbl.Split(w.c.Codec, cands[i])
				jl2 = append(jl2, "c06 "+w.c.Line("judge", ok, ko, "nofiller=1 obs="+d.ObsString(w.impl.Frames)))
				ji2 = append(ji2, i)
				continue
			}
			cl := classOf(w.c, v[key])
			if key == "vpts" || key == "apts" {
				cl = v[key] // rtp-timestamp-wrap / sr-rebase / pts-mismatch
			}
			c.Find(Finding{Kind: "oracle", Class: cl, Case: w.line, Impl: summary(w.impl.Frames), Spec: key + " " + v[key], Model: summary(w.m.Frames), Detail: v["detail"]})
		}
	}
	outs = c.Drive(jl2)
	for k, i := range ji2 {
		w := ws[i]
		v := KV(outs[k])
		cl := "h264-filler-dropped"
		if v["video"] != "ok" {
			cl = classOf(w.c, v["video"])
		}
		c.Find(Finding{Kind: "oracle", Class: cl, Case: w.line, Impl: summary(w.impl.Frames), Spec: "video unit-missing", Model: summary(w.m.Frames), Detail: v["detail"]})
	}
	if corpus || len(c.Res.Samples) < 10 {
		for _, w := range ws {
			if len(c.Res.Samples) >= 10 {
				break
			}
			l := w.line
			if len(l) > 300 {
				l = l[:300] + "…"
			}
			c.Sample(fmt.Sprintf("%s → %d packets, impl %d frames, model %d frames, sts=%s", l, len(w.m.Pkts), len(w.impl.Frames), len(w.m.Frames), w.impl.Sts))
		}
	}
}

func summary(fs []d.MFrame) string {
	var b strings.Builder
	fmt.Fprintf(&b, "%d frames:", len(fs))
	for i, f := range fs {
		if i >= 6 {
			b.WriteString(" …")
			break
		}
		dg := f.Dig
		if len(dg) > 24 {
			dg = dg[:24] + "…"
		}
		fmt.Fprintf(&b, " %s@%d/%d:%s", B01(f.Audio), f.TS, f.Pts, dg)
	}
	return b.String()
}

func abs64(x int64) int64 {
	if x < 0 {
		return -x
	}
	return x
}

// compare implementation and model (correspondence)
func compare(c *Ctx, w *work) {
	cs, im, m := w.c, w.impl, w.m
	corr := func(class, impl, model string) {
		c.Find(Finding{Kind: "corr", Class: class, Case: w.line, Impl: impl, Model: model})
	}
	if im.Hung {
		// stable: nothing for HangBudget (5 min) on a call / a goroutine that normally takes microseconds
		c.Find(Finding{Kind: "oracle", Class: classOf(cs, "depacketizer-hung"), Case: w.line,
			Impl: fmt.Sprintf("no completion within %v: the units of this stream are never handed on", d.HangBudget), Spec: "every packet is consumed and the units are handed on", Model: "alive=" + B01(m.Alive)})
		return
	}
	if im.Alive != m.Alive {
		corr("alive", fmt.Sprintf("alive=%v %s", im.Alive, im.Panic), "alive="+B01(m.Alive))
	}
	if !im.Alive {
		c.Count("impl-goroutine-died-or-panicked")
	}
	if cs.Sync && im.Sts != m.Sts {
		corr("per-packet-status", im.Sts, m.Sts)
	}
	for _, ch := range im.Sts {
		switch ch {
		case 'e':
			c.Count("packet-result-error")
		case 'p':
			c.Count("packet-result-panic")
		}
	}
	c.CountN("frames-emitted", len(im.Frames))
	if len(im.Frames) != len(m.Frames) {
		corr("frame-count", summary(im.Frames), summary(m.Frames))
	} else {
		for i := range im.Frames {
			a, b := im.Frames[i], m.Frames[i]
			if a.Audio != b.Audio || a.Dig != b.Dig {
				corr("frame-bytes", summary(im.Frames[i:]), summary(m.Frames[i:]))
				break
			}
			// float64 result within 1 ns of the exact rational (DESIGN §3: conv)
			if abs64(a.Pts-b.Pts) > 1 {
				corr("frame-pts", fmt.Sprintf("frame %d pts=%d", i, a.Pts), fmt.Sprintf("pts=%d", b.Pts))
				break
			}
			if a.Pts != b.Pts {
				c.Count("pts-float-rounding-1ns")
			}
		}
	}
	if d.Digest(im.Sps) != m.Sps || d.Digest(im.Pps) != m.Pps || d.Digest(im.Vps) != m.Vps {
		corr("parameter-sets", d.Digest(im.Vps)+"/"+d.Digest(im.Sps)+"/"+d.Digest(im.Pps), m.Vps+"/"+m.Sps+"/"+m.Pps)
	}
	if im.Padding != "" {
		c.Find(Finding{Kind: "oracle", Class: "rtp-payload-extraction", Case: w.line, Impl: im.Padding, Spec: "Payload() = the sender's payload (header, CSRC list, extension and padding removed)"})
	}
	if im.HdrMis != "" {
		c.Find(Finding{Kind: "oracle", Class: "rtp-header-fields", Case: w.line, Impl: im.HdrMis, Spec: "sequence number / timestamp / marker as sent"})
	}
	_ = bytes.Equal
	_ = sort.Ints
}
