package main

import (
	. "verifharness/hlib"
	ml "verifharness/medialib"
)

func main() { Main("C02", run) }

func run(c *Ctx) {
	c.Res.Rule = "case = a sequential script on a real media.Stream (H.264/H.265, cache_gop on/off): publishes of single-NAL / aggregation / fragmentation packets with arbitrary NAL types, a consumer joining after EVERY prefix (with and without the cache), compared op by op with the Lean model (replay contents and order, live continuation, counters); plus gated interleavings of a join with a concurrent publish. Distinct by script text; non-trivial when it has a join and a publish."
	var scripts []ml.Script
	// a joiner after every prefix of a realistic stream
	n := c.Budget(60, 1200)
	for i := 0; i < n; i++ {
		sc := ml.Script{Hevc: c.Rng.Chance(45), Gop: !c.Rng.Chance(30)}
		ln := 6 + c.Rng.Intn(22)
		for k := 0; k < ln; k++ {
			if c.Rng.Chance(50) {
				sc.Ops = append(sc.Ops, ml.Op{Code: 'P', Raw: ml.GenRaw(c.Rng, sc.Hevc)})
			} else {
				g := ml.GenScript(c.Rng, "mixed", 1)
				added := false
				for _, o := range g.Ops {
					if o.Code == 'P' {
						sc.Ops = append(sc.Ops, o)
						added = true
						break
					}
				}
				if !added {
					sc.Ops = append(sc.Ops, ml.Op{Code: 'P', Kind: ml.KNonKey})
				}
			}
			sc.Ops = append(sc.Ops, ml.Op{Code: 'J', Name: k, Gop: !c.Rng.Chance(15)})
		}
		scripts = append(scripts, sc)
	}
	m := c.Budget(120, 2500)
	for i := 0; i < m; i++ {
		scripts = append(scripts, ml.GenScript(c.Rng, "classify", 36))
	}
	ml.RunScripts(c, "c02", scripts)
	var fl []ml.FlvScript
	for i := 0; i < c.Budget(120, 2500); i++ {
		fl = append(fl, ml.GenFlvScript(c.Rng))
	}
	ml.RunFlvScripts(c, "c02", fl)
	for _, hevc := range []bool{false, true} {
		ml.RecordOutcome(c, ml.ScJoinRace(false, hevc), "c02")
		ml.RecordOutcome(c, ml.ScJoinRace(true, hevc), "c02")
		ml.RecordOutcome(c, ml.ScStapParamsetsIdr(hevc), "c02")
	}
	ml.RecordOutcome(c, ml.ScGopReplayNonVideo(false), "c02")
	ml.RecordOutcome(c, ml.ScGopReplayNonVideo(true), "c02")
}
