package main

import (
	"fmt"
	"net/url"
	"strings"
	"time"

	. "verifharness/hlib"

	"github.com/cnotch/ipchub/media"
	"github.com/cnotch/ipchub/provider/route"
	"github.com/cnotch/ipchub/utils"
	"github.com/cnotch/xlog"
)

// C17: route resolution.  Implementation: the real global route table (route.Reset with an
// empty in-memory provider, route.Save / Del / Get / All / Match) and media.GetOrCreate with a
// recording pull-stream factory.  One case = one history of operations; the same line is
// evaluated by the Lean model (Model/Route.lean + Model/Tables.lean) and by the specification
// (Spec/RouteMatch.lean over Spec/Table.lean).
func main() { Main("C17", runC17) }

// ---- an empty provider (route.Provider is a public interface) ----
type emptyProvider struct{}

func (emptyProvider) LoadAll() ([]*route.Route, error)                { return nil, nil }
func (emptyProvider) Flush(full, saves, removes []*route.Route) error { return nil }

// ---- recording pull-stream factory ----
type recFactory struct {
	called      bool
	local, url_ string
}

func (f *recFactory) Can(remoteURL string) bool { return true }
func (f *recFactory) Create(localPath, remoteURL string) (*media.Stream, error) {
	f.called, f.local, f.url_ = true, localPath, remoteURL
	return nil, fmt.Errorf("verif: recording factory creates nothing")
}

var factory = &recFactory{}

// ---- ops ----
type op struct {
	kind    byte // s d g a m c
	pattern string
	url     string
	ka      bool
}

func (o op) token() string {
	switch o.kind {
	case 's':
		_, err := url.Parse(o.url)
		return fmt.Sprintf("s,%s,%s,%s,%s", Hx([]byte(o.pattern)), Hx([]byte(o.url)), B01(o.ka), B01(err == nil))
	case 'a':
		return "a"
	default:
		return fmt.Sprintf("%c,%s", o.kind, Hx([]byte(o.pattern)))
	}
}

func line(ops []op) string {
	t := make([]string, len(ops))
	for i, o := range ops {
		t[i] = o.token()
	}
	return "c17 hist " + strings.Join(t, " ")
}

func parseLine(l string) ([]op, bool) {
	f := strings.Fields(l)
	if len(f) < 2 || f[0] != "c17" || f[1] != "hist" {
		return nil, false
	}
	var ops []op
	for _, t := range f[2:] {
		p := strings.Split(t, ",")
		switch {
		case p[0] == "s" && len(p) == 5:
			ops = append(ops, op{kind: 's', pattern: string(Unhx(p[1])), url: string(Unhx(p[2])), ka: p[3] == "1"})
		case p[0] == "a" && len(p) == 1:
			ops = append(ops, op{kind: 'a'})
		case len(p) == 2 && len(p[0]) == 1 && strings.Contains("dgmc", p[0]):
			ops = append(ops, op{kind: p[0][0], pattern: string(Unhx(p[1]))})
		default:
			return nil, false
		}
	}
	return ops, true
}

func fmtRoute(r *route.Route) string {
	return fmt.Sprintf("%s,%s,%s", Hx([]byte(r.Pattern)), Hx([]byte(r.URL)), B01(r.KeepAlive))
}

func fmtList(rs []*route.Route) string {
	if len(rs) == 0 {
		return "[]"
	}
	s := make([]string, len(rs))
	for i, r := range rs {
		s[i] = fmtRoute(r)
	}
	return strings.Join(s, "+")
}

// snapshot of everything observable of the table: the list and, per listed pattern, the map entry
func snapshot() string {
	all := route.All()
	var b strings.Builder
	b.WriteString(fmtList(all))
	for _, r := range all {
		g := route.Get(r.Pattern)
		if g == nil {
			b.WriteString(";nil")
		} else {
			b.WriteString(";" + fmtRoute(g))
		}
	}
	return b.String()
}

func safeMatch(p string) (r *route.Route, pan bool) {
	defer func() {
		if x := recover(); x != nil {
			pan = true
		}
	}()
	return route.Match(p), false
}

func fmtMatch(r *route.Route, pan bool) string {
	if pan {
		return "panic"
	}
	if r == nil {
		return "none"
	}
	return "F:" + fmtRoute(r)
}

// run one history on the real code; one observation per op
func runImpl(c *Ctx, ops []op) []string {
	route.Reset(emptyProvider{})
	obs := make([]string, len(ops))
	for i, o := range ops {
		func() {
			defer func() {
				if x := recover(); x != nil {
					obs[i] = "panic"
				}
			}()
			switch o.kind {
			case 's':
				if err := route.Save(&route.Route{Pattern: o.pattern, URL: o.url, KeepAlive: o.ka}); err != nil {
					obs[i] = "err"
				} else {
					obs[i] = "ok"
				}
			case 'd':
				if err := route.Del(o.pattern); err != nil {
					obs[i] = "err"
				} else {
					obs[i] = "ok"
				}
			case 'g':
				if r := route.Get(o.pattern); r != nil {
					obs[i] = "F:" + fmtRoute(r)
				} else {
					obs[i] = "none"
				}
			case 'a':
				obs[i] = fmtList(route.All())
			case 'm':
				before := snapshot()
				r, pan := safeMatch(o.pattern)
				first := fmtMatch(r, pan)
				res := first
				// the range over the Go map starts at a random position: ask again
				for k := 0; k < 5; k++ {
					r2, pan2 := safeMatch(o.pattern)
					if fmtMatch(r2, pan2) != first {
						res = "order-dependent"
					}
				}
				// the caller may do what it likes with the result: the table must not notice
				if r != nil {
					r.URL += "#scribble"
					r.Pattern = "/scribble"
					r.KeepAlive = !r.KeepAlive
				}
				if snapshot() == before {
					res += ",T1"
				} else {
					res += ",T0"
				}
				if res == "order-dependent,T1" || res == "order-dependent,T0" {
					res = "order-dependent"
				}
				obs[i] = res
			case 'c':
				factory.called = false
				s := media.GetOrCreate(o.pattern)
				if s != nil {
					obs[i] = "stream"
				} else if factory.called {
					obs[i] = fmt.Sprintf("C:%s,%s", Hx([]byte(factory.local)), Hx([]byte(factory.url_)))
				} else {
					obs[i] = "none"
				}
			}
		}()
	}
	return obs
}

// ---- classification of an oracle failure (stable name of the kind of failing input) ----
func classify(ops []op, i int, impl string) string {
	o := ops[i]
	switch o.kind {
	case 'm', 'c':
		if strings.HasPrefix(impl, "panic") {
			// is an empty URL stored under a directory pattern that covers the path?
			cp := utils.CanonicalPath(o.pattern)
			tbl := map[string]string{}
			for _, p := range ops[:i] {
				k := utils.CanonicalPath(p.pattern)
				if p.kind == 's' {
					if _, err := url.Parse(p.url); err == nil {
						tbl[k] = p.url
					}
				} else if p.kind == 'd' {
					delete(tbl, k)
				}
			}
			for k, u := range tbl {
				if u == "" && strings.HasSuffix(k, "/") && strings.HasPrefix(cp, k) {
					return "match-empty-url-panic"
				}
			}
			return "match-panic"
		}
		if strings.HasSuffix(impl, ",T0") {
			return "match-modifies-table"
		}
		if impl == "order-dependent" {
			return "match-order-dependent"
		}
		if c1 := utils.CanonicalPath(o.pattern); utils.CanonicalPath(c1) != c1 {
			return "canon-not-idempotent" // the canonical form of the request is itself not canonical
		}
		if o.kind == 'c' {
			return "getorcreate-args"
		}
		return "match-result"
	case 's':
		return "table-save"
	case 'd':
		return "table-del"
	case 'g':
		return "table-get"
	default:
		return "table-all"
	}
}

// ---- generators ----
var patterns = []string{"/cam/", "/cam/hall/", "/cam/cam", "/ca/", "/", "/a", "/a/", "/a/b", "/a/b/", "/a/b/c", "/a/b/c/", "/A/", "/A/B", "/b", "/b/", "/ab/", "/a/bc/",
	"a/", "a", " /a/ ", "/a//b/", "/a/./b/", "/a/../b/", "/a/b/..", "", "//", "/a /", "/a/b /", "/a/ b/", "/c/d/e/f/", "/x"}
var urls = []string{"rtsp://h/x", "rtsp://h/x/", "rtsp://h", "rtsp://h/", "rtsp://h:554/live/", "http://u:p@h/q?x=1", "rtsp://h//", "/", "x", "", "",
	"rtsp://h/%zz", ":bad", "rtsp://h/\x7f"}
var segs = []string{"a", "b", "c", "A", "B", "ab", "bc", "d", "e", "f", "x", "..", ".", "", "a ", " b"}

// a remainder made of the characters of the pattern it is appended to (a join that treats the
// pattern as a character set, or compares lengths instead of prefixes, shows here): the pattern's
// own segments again, permuted letters, a letter of the pattern followed by a foreign one
func echoSeg(c *Ctx, p string) string {
	r := c.Rng
	var letters []byte
	for i := 0; i < len(p); i++ {
		if p[i] != '/' && p[i] != ' ' && p[i] != '.' {
			letters = append(letters, p[i])
		}
	}
	if len(letters) == 0 {
		return segs[r.Intn(len(segs))]
	}
	var b []byte
	for i, n := 0, 1+r.Intn(4); i < n; i++ {
		b = append(b, letters[r.Intn(len(letters))])
	}
	switch r.Intn(4) {
	case 0:
		b = append(b, "1x9"[r.Intn(3)])
	case 1:
		b = append([]byte{"1x9"[r.Intn(3)]}, b...)
	}
	return string(b)
}

func genPath(c *Ctx, from []string) string {
	r := c.Rng
	var p string
	if len(from) > 0 && r.Chance(75) {
		// derived from a stored pattern: the pattern itself, extended, shortened
		p = from[r.Intn(len(from))]
		switch r.Intn(6) {
		case 0:
		case 1:
			p = strings.TrimRight(p, " ") + segs[r.Intn(len(segs))]
		case 2:
			p = strings.TrimRight(p, " ")
			p += echoSeg(c, p)
			if r.Chance(30) {
				p += "/" + echoSeg(c, p)
			}
		case 3:
			p = strings.TrimRight(p, " ")
			if !strings.HasSuffix(p, "/") {
				p += "/"
			}
			p += segs[r.Intn(6)] + "/" + segs[r.Intn(len(segs))]
		case 4:
			p = strings.TrimRight(strings.TrimRight(p, " "), "/")
		case 5:
			if len(p) > 1 {
				p = p[:len(p)-1]
			}
		}
	} else {
		n := 1 + r.Intn(4)
		var s []string
		for i := 0; i < n; i++ {
			s = append(s, segs[r.Intn(len(segs))])
		}
		p = strings.Join(s, "/")
		if r.Chance(80) {
			p = "/" + p
		}
		if r.Chance(15) {
			p += "/"
		}
	}
	if r.Chance(8) {
		p = " " + p + " "
	}
	if r.Chance(10) {
		p = strings.ToUpper(p)
	}
	return p
}

func genHistory(c *Ctx) []op {
	r := c.Rng
	var ops []op
	var stored []string
	nmut := 1 + r.Intn(7)
	for i := 0; i < nmut; i++ {
		if len(stored) > 0 && r.Chance(22) {
			p := stored[r.Intn(len(stored))]
			if r.Chance(20) {
				p = patterns[r.Intn(len(patterns))]
			}
			ops = append(ops, op{kind: 'd', pattern: p})
		} else {
			p := patterns[r.Intn(len(patterns))]
			if len(stored) > 0 && r.Chance(20) {
				p = stored[r.Intn(len(stored))] // update
			}
			u := urls[r.Intn(len(urls))]
			if r.Chance(70) {
				u = urls[r.Intn(7)]
			}
			ops = append(ops, op{kind: 's', pattern: p, url: u, ka: r.Chance(30)})
			stored = append(stored, p)
		}
		// queries interleaved with the mutations
		for r.Chance(45) {
			switch r.Intn(10) {
			case 0:
				ops = append(ops, op{kind: 'a'})
			case 1:
				ops = append(ops, op{kind: 'g', pattern: genPath(c, stored)})
			case 2, 3:
				ops = append(ops, op{kind: 'c', pattern: genPath(c, stored)})
			default:
				ops = append(ops, op{kind: 'm', pattern: genPath(c, stored)})
			}
		}
	}
	nq := 2 + r.Intn(5)
	for i := 0; i < nq; i++ {
		k := byte('m')
		if r.Chance(25) {
			k = 'c'
		}
		ops = append(ops, op{kind: k, pattern: genPath(c, stored)})
	}
	ops = append(ops, op{kind: 'a'})
	return ops
}

// exhaustive small universe (thorough): every table of ≤ 3 routes over a small pattern / URL
// alphabet, saved in every order, each queried with every path of a fixed list
func enumerate(c *Ctx, emit func([]op)) {
	pats := []string{"/", "/a/", "/a/b/", "/a/b", "/A/", "/ab/"}
	us := []string{"rtsp://h/x", "rtsp://h/x/", "rtsp://h"}
	paths := []string{"/a", "/a/b", "/a/b/c", "/a/b/c/d", "/ab/c", "/abc", "/a/", "/b", "/A/B/C", "/a/bc", "/a/b/../c", "/"}
	var rec func(tbl []op, used int)
	rec = func(tbl []op, used int) {
		if len(tbl) > 0 {
			ops := append([]op{}, tbl...)
			for _, p := range paths {
				ops = append(ops, op{kind: 'm', pattern: p})
			}
			emit(ops)
		}
		if len(tbl) == 3 {
			return
		}
		for i, p := range pats {
			if used&(1<<uint(i)) != 0 {
				continue
			}
			u := us[(i+len(tbl))%len(us)]
			rec(append(tbl, op{kind: 's', pattern: p, url: u}), used|1<<uint(i))
		}
	}
	rec(nil, 0)
}

func runC17(c *Ctx) {
	xlog.ReplaceGlobal(xlog.New(xlog.NewNopCore()))
	media.RegistPullStreamFactory(factory)

	var cases [][]op
	for _, l := range c.CorpusLines() {
		if ops, ok := parseLine(l); ok {
			cases = append(cases, ops)
		}
	}
	if c.Replay == "" {
		// the documented behaviour (provider/route/routetable_test.go) and the shapes named in the statement
		cases = append(cases,
			[]op{{kind: 's', pattern: "/test/live1", url: "rtsp://localhost:5540/live1"}, {kind: 's', pattern: "/easy/", url: "rtsp://localhost:5540/test"},
				{kind: 'm', pattern: "/easy/live4"}, {kind: 'm', pattern: "/test/live1"}, {kind: 'm', pattern: "/easy/"}, {kind: 'c', pattern: "/EASY/live4"}},
			[]op{{kind: 's', pattern: "/a/", url: "rtsp://h/x/"}, {kind: 's', pattern: "/a/b/", url: "rtsp://h/y"}, {kind: 's', pattern: "/a/b/c", url: "rtsp://h/z"},
				{kind: 'm', pattern: "/a/b/c"}, {kind: 'm', pattern: "/a/b/d"}, {kind: 'm', pattern: "/a/d"}, {kind: 'm', pattern: "/b"}, {kind: 'm', pattern: "/a/b/"}},
		)
		if c.Thorough() {
			enumerate(c, func(o []op) { cases = append(cases, o) })
			c.Note("every table of ≤ 3 routes over 6 patterns (3 URL shapes), in every save order, queried with 12 paths: enumerated completely")
		}
		n := c.Budget(6000, 80000)
		for i := 0; i < n; i++ {
			cases = append(cases, genHistory(c))
		}
		// malformed stream: arbitrary bytes as patterns / paths (ASCII, the model's character functions are ASCII)
		for i := 0; i < c.Budget(500, 5000); i++ {
			rb := func() string {
				b := make([]byte, c.Rng.Intn(7))
				for k := range b {
					b[k] = c.Rng.Pick("/ab.A \t/./")
				}
				return string(b)
			}
			cases = append(cases, []op{{kind: 's', pattern: rb(), url: "rtsp://h/x"}, {kind: 's', pattern: rb(), url: "rtsp://h/y/"},
				{kind: 'm', pattern: rb()}, {kind: 'm', pattern: rb()}, {kind: 'g', pattern: rb()}, {kind: 'a'}})
		}
	}

	lines := make([]string, len(cases))
	for i, k := range cases {
		lines[i] = line(k)
	}
	outs := c.Drive(lines)
	c.Res.Rule = "case = one history of route.Save/Del/Get/All/Match and media.GetOrCreate on the real global table (≥1 mutation, ≥2 lookups); " +
		"distinct by the whole op line; non-trivial when at least one lookup resolves to a route"
	blocked := ""
	for i, ops := range cases {
		if blocked != "" {
			c.Count("case-not-run")
			continue
		}
		// a lookup that never returns (a loop that does not end, a lock never released) must not hang the
		// harness: after 60 s without an answer the case is given ten more minutes, then it is a finding
		// (and the global route table, blocked by it, is not used any more)
		done := make(chan []string, 1)
		go func(ops []op) { done <- runImpl(c, ops) }(ops)
		var impl []string
		select {
		case impl = <-done:
		case <-time.After(60 * time.Second):
			select {
			case impl = <-done:
				c.Count("slow-case-waited-for")
			case <-time.After(600 * time.Second):
				c.Find(Finding{Kind: "oracle", Class: "lookup-never-returns", Case: lines[i], Impl: "no answer within 660 s", Spec: strings.TrimPrefix(outs[i], "model="),
					Detail: "a history of route.Save/Del/Match / media.GetOrCreate did not return"})
				c.Note("the cases after " + lines[i] + " were not run: the route table is blocked")
				blocked = lines[i]
				continue
			}
		}
		kv := KV(outs[i])
		model := strings.Split(kv["model"], "|")
		spec := strings.Split(kv["spec"], "|")
		if len(model) != len(ops) || len(spec) != len(ops) {
			c.Find(Finding{Kind: "corr", Class: "driver-output", Case: lines[i], Impl: strings.Join(impl, "|"), Model: outs[i]})
			continue
		}
		nontrivial := false
		for j, o := range ops {
			c.Count("op-" + string(o.kind))
			if o.kind == 'm' || o.kind == 'c' {
				switch {
				case strings.HasPrefix(impl[j], "F:") || strings.HasPrefix(impl[j], "C:"):
					nontrivial = true
					// exact or directory?
					cp := utils.CanonicalPath(o.pattern)
					got := impl[j][2:]
					if strings.HasPrefix(got, Hx([]byte(cp))+",") && strings.Contains(spec[j], got) && isExact(ops[:j], cp) {
						c.Count("lookup-exact")
					} else {
						c.Count("lookup-directory")
					}
				case impl[j] == "panic":
					c.Count("lookup-panic")
				case strings.HasPrefix(impl[j], "none"):
					if strings.HasSuffix(utils.CanonicalPath(o.pattern), "/") {
						c.Count("lookup-none-trailing-slash")
					} else {
						c.Count("lookup-none")
					}
				}
			}
			if impl[j] != model[j] {
				c.Find(Finding{Kind: "corr", Class: "op-" + string(o.kind), Case: lines[i], Impl: impl[j], Model: model[j], Spec: spec[j],
					Detail: fmt.Sprintf("op #%d %s", j, o.token())})
			}
			if impl[j] != spec[j] {
				// the property speaks about resolution (Match, GetOrCreate); what Save/Del/Get/All themselves
				// answer is C18's subject: here a difference only says that the table the lookups run on
				// is not the one the specification was given
				kind := "oracle"
				if o.kind != 'm' && o.kind != 'c' {
					kind = "corr"
				}
				c.Find(Finding{Kind: kind, Class: classify(ops, j, impl[j]), Case: lines[i], Impl: impl[j], Model: model[j], Spec: spec[j],
					Detail: fmt.Sprintf("op #%d %s (%q)", j, o.token(), o.pattern)})
			}
		}
		c.Count(fmt.Sprintf("table-size-%d", len(route.All())))
		c.Eval(lines[i], nontrivial)
		if i%(len(cases)/10+1) == 0 {
			c.Sample(fmt.Sprintf("%s → impl=%s", describe(ops), strings.Join(impl, "|")))
		}
	}
}

// was cp stored as an exact (non-directory) pattern and not deleted since?
func isExact(prev []op, cp string) bool {
	present := false
	for _, p := range prev {
		if utils.CanonicalPath(p.pattern) == cp {
			if p.kind == 's' {
				if _, err := url.Parse(p.url); err == nil {
					present = true
				}
			} else if p.kind == 'd' {
				present = false
			}
		}
	}
	return present
}

func describe(ops []op) string {
	var s []string
	for _, o := range ops {
		switch o.kind {
		case 's':
			s = append(s, fmt.Sprintf("save(%q→%q)", o.pattern, o.url))
		case 'a':
			s = append(s, "all")
		default:
			s = append(s, fmt.Sprintf("%c(%q)", o.kind, o.pattern))
		}
	}
	return strings.Join(s, " ")
}
