package main

import (
	"encoding/json"
	"fmt"
	"io/ioutil"
	"os"
	"path/filepath"
	"strings"
	"sync/atomic"
	"time"

	. "verifharness/hlib"

	"github.com/cnotch/ipchub/provider/auth"
)

// memUsers is a UserProvider of the harness (the package's own memory provider is not exported)
type memUsers struct{ users []*auth.User }

func (p *memUsers) LoadAll() ([]*auth.User, error)                { return p.users, nil }
func (p *memUsers) Flush(full, saves, removes []*auth.User) error { return nil }

type evaluator struct {
	c       *Ctx
	dir     string // scratch directory of the users.json route
	jsonBad bool   // the scratch file cannot be written: the json route falls back to save
	dead    bool   // a confirmed hang: the implementation cannot be called any more
	sampled int
	nSample int
}

func newEvaluator(c *Ctx) *evaluator {
	d, err := ioutil.TempDir("", "c16-users-")
	e := &evaluator{c: c, dir: d}
	if err != nil {
		e.jsonBad = true
		c.Note("users.json route disabled: no scratch directory: " + err.Error())
	}
	auth.Reset(&memUsers{})
	return e
}

func (e *evaluator) close() {
	if e.dir != "" {
		os.RemoveAll(e.dir)
	}
}

func needOf(s string) auth.AccessRight {
	switch s {
	case "pull":
		return auth.PullRight
	case "push":
		return auth.PushRight
	}
	return auth.AccessRight(0)
}

const userName = "c16user"

// implPermit builds the user by the case's route and asks the implementation
func (e *evaluator) implPermit(k cs) (res string) {
	defer func() {
		if r := recover(); r != nil {
			res = "panic"
		}
	}()
	var u *auth.User
	route := k.route
	if route == "json" && e.jsonBad {
		route = "save"
	}
	switch {
	case route == "save":
		auth.Del(userName)
		if err := auth.Save(&auth.User{Name: userName, Admin: k.admin, PullAccess: k.pull, PushAccess: k.push}, true); err != nil {
			return "save-error"
		}
		u = auth.Get(userName)
	case strings.HasPrefix(route, "upd:"):
		f := strings.Split(route, ":")
		auth.Del(userName)
		if len(f) == 4 {
			if err := auth.Save(&auth.User{Name: userName, Admin: f[3] == "1", PullAccess: string(Unhx(f[1])), PushAccess: string(Unhx(f[2]))}, true); err != nil {
				return "save-error"
			}
		}
		if err := auth.Save(&auth.User{Name: userName, Admin: k.admin, PullAccess: k.pull, PushAccess: k.push}, false); err != nil {
			return "save-error"
		}
		u = auth.Get(userName)
	case route == "json":
		b, err := json.Marshal([]*auth.User{{Name: "other", PullAccess: "/other/*", PushAccess: "/other"}, {Name: userName, Admin: k.admin, PullAccess: k.pull, PushAccess: k.push}})
		fn := filepath.Join(e.dir, "users.json")
		if err == nil {
			err = ioutil.WriteFile(fn, b, 0600)
		}
		if err != nil {
			// an environment problem of the harness, not a verdict
			e.jsonBad = true
			e.c.Note("users.json route disabled: " + err.Error())
			return e.implPermit(cs{pull: k.pull, push: k.push, admin: k.admin, need: k.need, path: k.path, route: "save"})
		}
		if err := auth.JSON.Configure(map[string]interface{}{"file": fn}); err != nil {
			return "configure-error"
		}
		auth.Reset(auth.JSON)
		u = auth.Get(userName)
	default: // copy
		u = &auth.User{Name: userName}
		u.CopyFrom(&auth.User{Name: userName, Admin: k.admin, PullAccess: k.pull, PushAccess: k.push}, false)
	}
	if u == nil {
		return "no-user"
	}
	return B01(u.ValidatePermission(k.path, needOf(k.need)))
}

// implAll evaluates the cases one after the other in a worker goroutine and watches its progress:
// the functions under test are pure computations on short strings, so a case that does not return is
// a hang of the implementation — but only after it has been confirmed by running the same case alone
// with a long budget.  Returns the results and, for a confirmed hang, the index of the case.
func (e *evaluator) implAll(cases []cs) ([]string, int) {
	out := make([]string, len(cases))
	var progress int64
	done := make(chan struct{})
	go func() {
		for i, k := range cases {
			out[i] = e.implPermit(k)
			atomic.StoreInt64(&progress, int64(i+1))
		}
		close(done)
	}()
	last, lastChange := int64(0), time.Now()
	patience := 60 * time.Second
	tick := time.NewTicker(500 * time.Millisecond)
	defer tick.Stop()
	for {
		select {
		case <-done:
			return out, -1
		case <-tick.C:
			p := atomic.LoadInt64(&progress)
			if p != last {
				last, lastChange = p, time.Now()
				continue
			}
			if time.Since(lastChange) < patience {
				continue
			}
			// no case finished for a minute: run the pending case alone (on the route without shared
			// state) and give the worker ten more minutes; only a case that still has not returned
			// then is a hang
			idx := int(p)
			alone := cases[idx]
			alone.route = "copy"
			solo := make(chan string, 1)
			go func() { solo <- e.implPermit(alone) }()
			deadline := time.After(10 * time.Minute)
			for waiting := true; waiting; {
				select {
				case <-done:
					return out, -1
				case <-solo:
					solo = nil
				case <-deadline:
					if atomic.LoadInt64(&progress) == p {
						return out, idx
					}
					waiting = false
				case <-tick.C:
					if atomic.LoadInt64(&progress) != p {
						waiting = false
					}
				}
			}
			patience *= 2
			last, lastChange = atomic.LoadInt64(&progress), time.Now()
		}
	}
}

func (e *evaluator) sample(k cs, impl, out string) {
	e.nSample++
	// a spread of early cases, then every 50 000th
	if e.sampled < 12 && (e.nSample%7919 == 1 || (e.nSample < 200 && e.nSample%40 == 3)) {
		e.sampled++
		e.c.Sample(fmt.Sprintf("pull=%q push=%q admin=%v need=%s path=%q route=%s impl=%s %s", k.pull, k.push, k.admin, k.need, k.path, strings.SplitN(k.route, ":", 2)[0], impl, out))
	}
}

func (e *evaluator) count(k cs, impl string) {
	c := e.c
	switch impl {
	case "1":
		c.Count("permitted")
	case "0":
		c.Count("denied")
	default:
		c.Count("impl-" + impl)
	}
	right := k.relevant()
	if strings.Contains(right, "+") {
		c.Count("right-has-plus")
	}
	if strings.Contains(right, "*") {
		c.Count("right-has-star")
	}
	if strings.Contains(right, ";") {
		c.Count("right-multi")
	}
	if k.admin {
		c.Count("admin")
	}
	c.Count("need-" + k.need)
	c.Count("route-" + strings.SplitN(k.route, ":", 2)[0])
	if !isASCII(right) {
		c.Count("right-non-ascii")
	}
	if !isASCII(k.path) {
		c.Count("path-non-ascii")
	}
	if strings.TrimSpace(k.path) != strings.Trim(k.path, " ") || strings.TrimSpace(right) != strings.Trim(right, " ") {
		c.Count("outer-blank-not-space")
	}
}

func nontrivial(k cs) bool {
	return k.need != "other" && strings.Trim(strings.TrimSpace(k.relevant()), "; ") != "" && k.path != ""
}

// run: implementation against model (correspondence) and against specification (oracle)
func (e *evaluator) run(cases []cs) {
	if len(cases) == 0 || e.dead {
		return
	}
	c := e.c
	lines := make([]string, len(cases))
	for i, k := range cases {
		lines[i] = k.line()
	}
	outs := c.Drive(lines)
	impls, hung := e.implAll(cases)
	for i, k := range cases {
		if hung >= 0 && i >= hung {
			break
		}
		impl := impls[i]
		m := KV(outs[i])
		if k.exh {
			c.Res.Evaluations++
			if nontrivial(k) {
				c.Res.Distinct++
			}
		} else {
			c.Eval(lines[i], nontrivial(k))
		}
		e.count(k, impl)
		e.sample(k, impl, outs[i])
		detail := fmt.Sprintf("pull=%q push=%q admin=%v need=%s path=%q route=%s", k.pull, k.push, k.admin, k.need, k.path, k.route)
		if _, isAns := m["model"]; !isAns {
			// the driver could not read the case (a corpus line with bytes that are not UTF-8)
			c.Count("driver-" + outs[i])
			continue
		}
		if impl != m["model"] {
			c.Find(Finding{Kind: "corr", Class: "permit", Case: lines[i], Impl: impl, Model: m["model"], Spec: m["spec"], Detail: detail})
		}
		// the property speaks about the decision; a user that cannot be stored or found again is the
		// user table's business (C11, C18): a broken correspondence here, not a C16 verdict
		if impl != m["spec"] && (impl == "0" || impl == "1" || impl == "panic") {
			cl := c16Class(k)
			if impl == "panic" {
				cl = "panic"
			}
			c.Find(Finding{Kind: "oracle", Class: cl, Case: lines[i], Impl: impl, Model: m["model"], Spec: m["spec"], Detail: detail})
		}
	}
	if hung >= 0 {
		e.dead = true
		k := cases[hung]
		m := KV(outs[hung])
		c.Find(Finding{Kind: "oracle", Class: "hang", Case: lines[hung], Impl: "no-answer", Model: m["model"], Spec: m["spec"],
			Detail: fmt.Sprintf("ValidatePermission / user set-up did not return within 10 minutes, also when run alone: pull=%q push=%q admin=%v need=%s path=%q route=%s", k.pull, k.push, k.admin, k.need, k.path, k.route)})
		c.Note("the run stopped at a case on which the implementation does not return")
	}
}

// runInvalid: raw[i] holds bytes that are not valid UTF-8, repl[i] the same case with every invalid
// byte replaced by U+FFFD; the implementation on raw must answer like the model on repl.
func (e *evaluator) runInvalid(raw, repl []cs) {
	if len(raw) == 0 || e.dead {
		return
	}
	c := e.c
	lines := make([]string, len(repl))
	for i, k := range repl {
		lines[i] = k.line()
	}
	outs := c.Drive(lines)
	impls, hung := e.implAll(raw)
	for i, k := range raw {
		if hung >= 0 && i >= hung {
			break
		}
		m := KV(outs[i])
		c.Eval(k.line(), nontrivial(k))
		c.Count("invalid-utf8-probe")
		if impls[i] != m["model"] {
			c.Find(Finding{Kind: "corr", Class: "invalid-utf8-as-fffd", Case: k.line(), Impl: impls[i], Model: m["model"],
				Detail: fmt.Sprintf("bytes that are not UTF-8 do not act like U+FFFD: pull=%q push=%q need=%s path=%q", k.pull, k.push, k.need, k.path)})
		}
	}
	if hung >= 0 {
		e.dead = true
		c.Find(Finding{Kind: "oracle", Class: "hang", Case: raw[hung].line(), Impl: "no-answer",
			Detail: "ValidatePermission did not return within 10 minutes on an input that is not valid UTF-8, also when run alone"})
	}
}
