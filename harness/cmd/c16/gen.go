package main

import (
	"fmt"
	"strings"
	"unicode"
	"unicode/utf8"

	. "verifharness/hlib"
)

// The character class the specification covers (Spec/PatternDoc.lean `covered`): all of ASCII, all
// of Unicode White_Space and these letters / marks / format characters.  Upper → lower pairs are
// used to derive near-matching paths in the other case.
var casePairs = [][2]rune{
	{0xC0, 0xE0}, {0xC9, 0xE9}, {0xD6, 0xF6}, {0xDE, 0xFE}, {0x100, 0x101}, {0x12E, 0x12F}, {0x130, 0x69}, {0x178, 0xFF},
	{0x1C4, 0x1C6}, {0x1C5, 0x1C6}, {0x391, 0x3B1}, {0x3A3, 0x3C3}, {0x3A9, 0x3C9}, {0x400, 0x450}, {0x416, 0x436}, {0x42F, 0x44F},
	{0x10A0, 0x2D00}, {0x1E9E, 0xDF}, {0x2126, 0x3C9}, {0x212A, 0x6B}, {0x212B, 0xE5}, {0x2160, 0x2170}, {0x24B6, 0x24D0},
	{0xFF21, 0xFF41}, {0x10400, 0x10428},
}
var caseless = []rune{0xB5, 0xDF, 0xD7, 0x131, 0x17F, 0x3C2, 0x3A2, 0x4E2D, 0x3042, 0x5D0, 0x301, 0xAD, 0x200B, 0x180E, 0xFEFF, 0xFFFD, 0x1F600, 0xE000, 0x10FFFF}
var blanks = []rune{' ', '\t', '\n', '\v', '\f', '\r', 0x85, 0xA0, 0x1680, 0x2000, 0x2001, 0x2002, 0x2003, 0x2004, 0x2005, 0x2006, 0x2007, 0x2008, 0x2009, 0x200A, 0x2028, 0x2029, 0x202F, 0x205F, 0x3000}

// not blanks, though they look like it
var notBlanks = []rune{0x200B, 0x180E, 0xFEFF, 0x1F, 0xAD, 0}

type gen struct {
	c       *Ctx
	segs    []string        // segment alphabet
	upperOf map[rune][]rune // lower → the upper-case characters that fold to it
	lowerOf map[rune]rune
	blanks  []rune
	excl    map[rune]bool // characters on which the linked unicode package and the tables disagree
}

func newGen(c *Ctx, excl map[rune]bool) *gen {
	g := &gen{c: c, upperOf: map[rune][]rune{}, lowerOf: map[rune]rune{}, excl: excl}
	for r := 'A'; r <= 'Z'; r++ {
		g.upperOf[r+32] = append(g.upperOf[r+32], r)
		g.lowerOf[r] = r + 32
	}
	for _, p := range casePairs {
		if excl[p[0]] || excl[p[1]] {
			continue
		}
		g.upperOf[p[1]] = append(g.upperOf[p[1]], p[0])
		g.lowerOf[p[0]] = p[1]
	}
	for _, b := range blanks {
		if !excl[b] {
			g.blanks = append(g.blanks, b)
		}
	}
	g.segs = []string{"a", "A", "b", "bc", "+", "*", "", "Ab", "a", "b", "+", "*"}
	// letters of the class, alone and inside ASCII
	for _, p := range casePairs {
		if excl[p[0]] || excl[p[1]] {
			continue
		}
		g.segs = append(g.segs, string(p[0]), string(p[1]), "a"+string(p[0]), string(p[1])+"B")
	}
	for _, r := range caseless {
		if !excl[r] {
			g.segs = append(g.segs, string(r), "x"+string(r))
		}
	}
	g.segs = append(g.segs, "k", "K", "i", "I", "s", "S", "ss", "å", "ω", "ÿ", "+a", "a+", "**", "a*", "*a", "++")
	kept := g.segs[:0]
	for _, w := range g.segs {
		bad := false
		for _, ch := range w {
			bad = bad || excl[ch]
		}
		if !bad {
			kept = append(kept, w)
		}
	}
	g.segs = kept
	return g
}

func (g *gen) blank() string { return string(g.blanks[g.c.Rng.Intn(len(g.blanks))]) }

// edge returns a string with a blank (or a look-alike that is not one) put in front, behind or inside
func (g *gen) edge(s string) string {
	r := g.c.Rng
	b := g.blank()
	if r.Chance(15) {
		b = string(notBlanks[r.Intn(len(notBlanks))])
	}
	switch r.Intn(4) {
	case 0:
		return b + s
	case 1:
		return s + b
	case 2:
		return b + s + g.blank()
	}
	if len(s) >= 2 && utf8.ValidString(s) {
		rs := []rune(s)
		i := 1 + r.Intn(len(rs)-1)
		return string(rs[:i]) + b + string(rs[i:])
	}
	return s + b
}

// flip changes the case of some letters of s, staying inside the class
func (g *gen) flip(s string, pct int) string {
	r := g.c.Rng
	var b strings.Builder
	for _, ch := range s {
		if r.Chance(pct) {
			if l, ok := g.lowerOf[ch]; ok {
				ch = l
			} else if us := g.upperOf[ch]; len(us) > 0 {
				ch = us[r.Intn(len(us))]
			}
		}
		b.WriteRune(ch)
	}
	return b.String()
}

func (g *gen) seg() string {
	r := g.c.Rng
	var w string
	if r.Chance(70) {
		w = g.segs[r.Intn(12)] // the ASCII core
	} else {
		w = g.segs[r.Intn(len(g.segs))]
	}
	if r.Chance(4) {
		w = g.edge(w) // a blank at a segment edge or inside: significant
	}
	return w
}

func (g *gen) pattern() string {
	r := g.c.Rng
	ns := 1 + r.Intn(4)
	ss := make([]string, 0, ns+1)
	for k := 0; k < ns; k++ {
		ss = append(ss, g.seg())
	}
	if r.Chance(25) {
		ss = append(ss, "*")
	}
	p := strings.Join(ss, "/")
	if r.Chance(70) {
		p = "/" + p
	}
	if r.Chance(8) {
		p += "/"
	}
	if r.Chance(4) {
		p = "/" + p + "//"
	}
	if r.Chance(12) {
		// blanks around a list element: not significant
		p = g.blank() + p
		if r.Bool() {
			p += g.blank() + g.blank()
		}
	}
	return p
}

func (g *gen) right() (string, []string) {
	r := g.c.Rng
	if r.Chance(5) {
		return "", nil
	}
	np := 1 + r.Intn(3)
	var pats, parts []string
	for j := 0; j < np; j++ {
		p := g.pattern()
		pats = append(pats, p)
		parts = append(parts, p)
		if r.Chance(8) { // an empty or blank list element
			parts = append(parts, []string{"", " ", g.blank()}[r.Intn(3)])
		}
	}
	if r.Chance(6) {
		parts = append([]string{[]string{"", g.blank()}[r.Intn(2)]}, parts...)
	}
	s := strings.Join(parts, ";")
	if r.Chance(3) {
		s = " * "
		pats = []string{"*"}
	}
	if r.Chance(3) {
		s = g.blank() + s + g.blank()
	}
	return s, pats
}

// pathFor derives a path from one of the patterns (near-match) or draws one at random
func (g *gen) pathFor(pats []string) string {
	r := g.c.Rng
	var path string
	if r.Chance(75) && len(pats) > 0 {
		base := strings.Split(strings.Trim(strings.TrimSpace(pats[r.Intn(len(pats))]), "/"), "/")
		var ss []string
		for i, s := range base {
			switch {
			case s == "+":
				ss = append(ss, g.seg())
			case s == "*" && i == len(base)-1:
				for k := r.Intn(3); k > 0; k-- {
					ss = append(ss, g.seg())
				}
			default:
				if r.Chance(8) {
					s = g.seg()
				}
				ss = append(ss, g.flip(s, 40))
			}
		}
		if r.Chance(10) {
			ss = append(ss, "z")
		}
		if r.Chance(12) && len(ss) > 0 {
			// a strictly shorter path: one or two segments fewer
			ss = ss[:len(ss)-1]
			if len(ss) > 0 && r.Bool() {
				ss = ss[:len(ss)-1]
			}
		}
		path = strings.Join(ss, "/")
		if r.Chance(85) {
			path = "/" + path
		}
		if r.Chance(6) {
			path += "/"
		}
	} else {
		l := r.Intn(7)
		var b strings.Builder
		for k := 0; k < l; k++ {
			if r.Chance(85) {
				b.WriteByte(r.Pick("aAb+*/; "))
			} else {
				b.WriteString(g.segs[r.Intn(len(g.segs))])
			}
		}
		path = b.String()
	}
	if r.Chance(10) {
		// blanks around the path: not significant
		path = g.blank() + path
		if r.Bool() {
			path += g.blank()
		}
	}
	return path
}

func (g *gen) next() cs {
	r := g.c.Rng
	var k cs
	right, pats := g.right()
	other, _ := g.right()
	if r.Chance(30) {
		other = "/none"
	}
	k.admin = r.Chance(15)
	k.path = g.pathFor(pats)
	if r.Bool() {
		k.need, k.pull, k.push = "pull", right, other
	} else {
		k.need, k.pull, k.push = "push", other, right
	}
	if r.Chance(20) {
		// a path derived from the OTHER right: decides whether the two rights are kept apart
		o, op := g.right()
		if k.need == "pull" {
			k.push = o
		} else {
			k.pull = o
		}
		if len(op) > 0 {
			k.path = g.pathFor(op)
		}
	}
	if r.Chance(1) {
		k.need = "other"
	}
	switch x := r.Intn(100); {
	case x < 40:
		k.route = "copy"
	case x < 65:
		k.route = "save"
	case x < 92:
		// the user existed before with other rights (possibly as administrator)
		pp, _ := g.right()
		pq, _ := g.right()
		k.route = fmt.Sprintf("upd:%s:%s:%s", Hx([]byte(pp)), Hx([]byte(pq)), B01(r.Chance(30)))
	default:
		k.route = "json"
	}
	return k
}

// probeChars compares, for every code point (quick: below U+30000, which holds every cased letter
// and every blank; thorough: all), the model's unicode.ToLower / unicode.IsSpace and — on the covered
// class — the specification's tables with the unicode package the harness is linked with, and
// strings.ToLower / strings.TrimSpace with the per-character functions.  A difference is a property of
// the Go toolchain, not of ipchub: it is reported as a note and the characters are left out of the
// generated inputs.
func probeChars(c *Ctx) map[rune]bool {
	excl := map[rune]bool{}
	max := rune(0x30000)
	if c.Thorough() {
		max = unicode.MaxRune + 1
	}
	var lines []string
	var chunks [][]rune
	var cur []rune
	for r := rune(0); r < max; r++ {
		if r >= 0xD800 && r <= 0xDFFF {
			continue
		}
		cur = append(cur, r)
		if len(cur) == 4096 {
			chunks = append(chunks, cur)
			cur = nil
		}
	}
	if !c.Thorough() {
		cur = append(cur, 0xE0001, 0xF0000, 0x10FFFF)
	}
	chunks = append(chunks, cur)
	for _, ch := range chunks {
		h := Hx([]byte(string(ch)))
		lines = append(lines, "c16 lowermap "+h, "c16 spacemap "+h)
	}
	outs := c.Drive(lines)
	nModel, nSpec, nStr, nCov := 0, 0, 0, 0
	for i, ch := range chunks {
		lo, sp := KV(outs[2*i]), KV(outs[2*i+1])
		ml := []rune(string(Unhx(lo["out"])))
		sl := []rune(string(Unhx(lo["spec"])))
		cov := lo["cov"]
		if len(ml) != len(ch) || len(sl) != len(ch) || len(cov) != len(ch) || len(sp["out"]) != len(ch) || len(sp["spec"]) != len(ch) {
			Fatal("char probe: driver answered %d/%d/%d characters for %d", len(ml), len(sl), len(sp["out"]), len(ch))
		}
		for j, r := range ch {
			gl, gs := unicode.ToLower(r), unicode.IsSpace(r)
			if ml[j] != gl || (sp["out"][j] == '1') != gs {
				nModel++
				excl[r] = true
			}
			if cov[j] == '1' {
				nCov++
				if sl[j] != gl || (sp["spec"][j] == '1') != gs {
					nSpec++
					excl[r] = true
				}
			}
			if (sp["spec"][j] == '1') != gs {
				if !excl[r] {
					nSpec++
				}
				excl[r] = true
			}
			// the string functions the code calls are the per-character functions
			s := "x" + string(r) + "y"
			if strings.ToLower(s) != "x"+string(gl)+"y" || (strings.TrimSpace(string(r)+"x"+string(r)) == "x") != gs {
				nStr++
				excl[r] = true
			}
		}
	}
	c.CountN("char-probe-code-points", int(max))
	c.CountN("char-probe-covered-class", nCov)
	if nModel+nSpec+nStr > 0 {
		c.Note(fmt.Sprintf("character tables differ from the unicode package of this Go toolchain on %d code points (model %d, specification %d on the covered class, strings.* %d): these characters are not generated", len(excl), nModel, nSpec, nStr))
	}
	return excl
}
