package main

import (
	"fmt"
	"strings"
	"unicode/utf8"

	. "verifharness/hlib"
)

// C16: permission patterns.  Implementation: auth.User initialised through one of four routes
// (CopyFrom; auth.Save + auth.Get of a new user; auth.Save over an existing user with other rights;
// users.json loaded by auth.Reset(auth.JSON)) and ValidatePermission with the pull or the push
// right.  Model and specification: the compiled Lean driver (Drv/C16.lean).
func main() { Main("C16", runC16) }

// one case.  The op line is
//
//	c16 perm2 <pull-hex> <push-hex> <admin> <pull|push|other> <path-hex> <route>
//
// (strings as UTF-8 bytes); corpus lines of the older form `c16 permit <right> <admin> <path>` are
// read as pull-only cases on the CopyFrom route.
type cs struct {
	pull, push string
	admin      bool
	need       string // pull | push | other
	path       string
	route      string // copy | save | upd:<prevpull-hex>:<prevpush-hex>:<prevadmin> | json
	exh        bool   // member of the exhaustive enumeration (distinct by construction)
}

func (k cs) line() string {
	return fmt.Sprintf("c16 perm2 %s %s %s %s %s %s", Hx([]byte(k.pull)), Hx([]byte(k.push)), B01(k.admin), k.need, Hx([]byte(k.path)), k.route)
}

func (k cs) relevant() string {
	if k.need == "push" {
		return k.push
	}
	return k.pull
}

func parseCase(l string) (cs, bool) {
	f := strings.Fields(l)
	if len(f) == 5 && f[0] == "c16" && f[1] == "permit" {
		return cs{pull: string(Unhx(f[2])), admin: f[3] == "1", need: "pull", path: string(Unhx(f[4])), route: "copy"}, true
	}
	if len(f) >= 7 && f[0] == "c16" && f[1] == "perm2" {
		k := cs{pull: string(Unhx(f[2])), push: string(Unhx(f[3])), admin: f[4] == "1", need: f[5], path: string(Unhx(f[6])), route: "copy"}
		if len(f) >= 8 {
			k.route = f[7]
		}
		return k, true
	}
	return cs{}, false
}

// segEdgeSpace: some '/'-segment of s (after trimming the whole string) begins or ends with a blank
func segEdgeSpace(s string) bool {
	s = strings.TrimSpace(s)
	for _, seg := range strings.Split(strings.Trim(s, "/"), "/") {
		if seg != strings.TrimSpace(seg) {
			return true
		}
	}
	return false
}

func isASCII(s string) bool {
	for i := 0; i < len(s); i++ {
		if s[i] >= 0x80 {
			return false
		}
	}
	return true
}

// c16Class names the kind of input a failing case belongs to
func c16Class(k cs) string {
	right := k.relevant()
	ws := segEdgeSpace(k.path)
	for _, p := range strings.Split(right, ";") {
		if segEdgeSpace(p) {
			ws = true
		}
	}
	switch {
	case ws:
		return "segment-edge-whitespace"
	case k.need == "other":
		return "neither-right"
	case !isASCII(right) || !isASCII(k.path):
		return "non-ascii"
	case strings.ContainsAny(right+k.path, "\t\n\v\f\r"):
		return "ascii-blank"
	case k.need == "push":
		return "push-right"
	case k.route != "copy":
		return "saved-user"
	}
	return "other"
}

func runC16(c *Ctx) {
	c.Res.Rule = "case = (pull right, push right, admin flag, which right is needed, path, route by which the user is built); distinct by that tuple; non-trivial when the relevant right has at least one non-empty pattern and the path is non-empty"
	ev := newEvaluator(c)
	defer ev.close()

	// 0. the character functions of the model and of the specification against the linked unicode package
	excl := probeChars(c)

	// 1. corpus / replay
	var first []cs
	for _, l := range c.CorpusLines() {
		if k, isCase := parseCase(l); isCase {
			first = append(first, k)
		}
	}
	if c.Replay != "" {
		ev.run(first)
		return
	}
	// 2. the documented examples (docs/config.md §3.2 and §4.1)
	for _, e := range [][2]string{{"/a", "/a"}, {"/a", "/a/b"}, {"/a/*", "/a"}, {"/a/*", "/a/b"}, {"/a/*", "/a/c"}, {"/a/*", "/a/b/c"},
		{"/a/+/c/*", "a/b/c"}, {"/a/+/c/*", "a/d/c"}, {"/a/+/c/*", "a/b/c/d"}, {"/a/+/c/*", "a/b/c/d/e"}, {"/a/+/c/*", "a/c"}, {"*", "/x/y"},
		{"/test/*;/rooms/*", "/rooms/1"}, {"/test/*;/rooms/*", "/Test"}, {"/rooms/+/entrance", "/rooms/7/entrance"}, {"/rooms/+/entrance", "/rooms/entrance"}} {
		for _, r := range []string{"copy", "save", "json"} {
			first = append(first, cs{pull: e[0], push: "/none", need: "pull", path: e[1], route: r})
			first = append(first, cs{pull: "/none", push: e[0], need: "push", path: e[1], route: r})
		}
	}
	ev.run(first)
	if ev.dead {
		return
	}

	// 3. small scope, exhaustive: every (right, path) over the statement's alphabet up to a bound
	exhaustive(c, ev)
	if ev.dead {
		return
	}

	// 4. structured random pairs biased to near-matches: Unicode letters and blanks, two rights, all routes
	g := newGen(c, excl)
	n := c.Budget(60000, 600000)
	const chunk = 100000
	for done := 0; done < n && !ev.dead; done += chunk {
		m := chunk
		if n-done < m {
			m = n - done
		}
		batch := make([]cs, 0, m)
		for i := 0; i < m; i++ {
			batch = append(batch, g.next())
		}
		ev.run(batch)
	}
	if ev.dead {
		return
	}

	// 5. byte strings that are not valid UTF-8 (outside the theorems): the implementation must treat
	//    them like the string with every invalid byte replaced by U+FFFD
	probeInvalidUTF8(c, ev, g)
}

// exhaustive enumerates all pairs over {a,A,b,+,*,/,;,space}: quick |right|+|path| ≤ 5 (219 345
// pairs), thorough |right|+|path| ≤ 7 (18.9 million pairs).  Odd cases carry the right as the PUSH right (next to a pull right that
// permits something else), even ones as the pull right.
func exhaustive(c *Ctx, ev *evaluator) {
	const alpha = "aAb+*/; "
	maxLen := 5
	in := func(lr, lp int) bool { return lr+lp <= 5 }
	desc := "|right|+|path| ≤ 5"
	if c.Thorough() {
		maxLen = 7
		in = func(lr, lp int) bool { return lr+lp <= 7 }
		desc = "|right|+|path| ≤ 7"
	}
	byLen := make([][]string, maxLen+1)
	byLen[0] = []string{""}
	for l := 1; l <= maxLen; l++ {
		for _, p := range byLen[l-1] {
			for i := 0; i < len(alpha); i++ {
				byLen[l] = append(byLen[l], p+string(alpha[i]))
			}
		}
	}
	batch := make([]cs, 0, 250000)
	total := 0
	for lr := 0; lr <= maxLen; lr++ {
		for lp := 0; lp <= maxLen; lp++ {
			if !in(lr, lp) {
				continue
			}
			for _, r := range byLen[lr] {
				for _, p := range byLen[lp] {
					k := cs{pull: r, need: "pull", path: p, route: "copy", exh: true}
					if total%2 == 1 {
						k = cs{pull: "/zz/*", push: r, need: "push", path: p, route: "copy", exh: true}
					}
					total++
					batch = append(batch, k)
					if len(batch) == cap(batch) {
						ev.run(batch)
						batch = batch[:0]
						if ev.dead {
							return
						}
					}
				}
			}
		}
	}
	ev.run(batch)
	c.CountN("exhaustive-pairs", total)
	c.Note(fmt.Sprintf("exhaustive: all %d (right, path) pairs over {a,A,b,+,*,/,;,space} with %s; longer and non-ASCII ones sampled", total, desc))
}

// probeInvalidUTF8: not valid UTF-8 is excluded from the theorems (strings are List Char).  What the
// implementation does there is pinned by this probe as a correspondence: every invalid byte acts
// like U+FFFD (strings.ToLower rewrites it so; TrimSpace and the scanners see RuneError).
func probeInvalidUTF8(c *Ctx, ev *evaluator, g *gen) {
	bad := []string{"\xff", "\x80", "\xc3", "\xe2\x80", "\xc0\xaf", "\xed\xa0\x80", "\xf0\x90\x80", "\xfe"}
	inject := func(s string) string {
		b := bad[c.Rng.Intn(len(bad))]
		if len(s) == 0 {
			return b
		}
		// at a rune boundary
		var idx []int
		for i := range s {
			idx = append(idx, i)
		}
		idx = append(idx, len(s))
		i := idx[c.Rng.Intn(len(idx))]
		return s[:i] + b + s[i:]
	}
	n := c.Budget(4000, 40000)
	var raw, repl []cs
	for len(raw) < n {
		k := g.next()
		k.route = "copy"
		which := c.Rng.Intn(3)
		r := k
		switch which {
		case 0:
			r.path = inject(r.path)
		case 1:
			if r.need == "push" {
				r.push = inject(r.push)
			} else {
				r.pull = inject(r.pull)
			}
		default:
			r.path = inject(r.path)
			r.pull = inject(r.pull)
			r.push = inject(r.push)
		}
		if utf8.ValidString(r.pull) && utf8.ValidString(r.push) && utf8.ValidString(r.path) {
			continue
		}
		v := r
		v.pull, v.push, v.path = string([]rune(r.pull)), string([]rune(r.push)), string([]rune(r.path))
		raw = append(raw, r)
		repl = append(repl, v)
	}
	ev.runInvalid(raw, repl)
}
