package main

import (
	"fmt"
	"strings"

	. "verifharness/hlib"

	"github.com/cnotch/ipchub/provider/auth"
)

// C16: permission patterns.  Implementation: a fresh auth.User initialised through
// CopyFrom (→ init → initMatchers → NewPathMatcher) and ValidatePermission.
func main() { Main("C16", runC16) }

func implPermit(right string, admin bool, path string) (res bool, panicked string) {
	defer func() {
		if r := recover(); r != nil {
			panicked = fmt.Sprint(r)
		}
	}()
	u := &auth.User{Name: "u"}
	src := &auth.User{Name: "u", Admin: admin, PullAccess: right, PushAccess: ""}
	u.CopyFrom(src, false)
	return u.ValidatePermission(path, auth.PullRight), ""
}

// hasEdgeSpace: some '/'-segment of s (after trimming the whole string) begins or ends with a blank
func segEdgeSpace(s string) bool {
	s = strings.TrimSpace(s)
	for _, seg := range strings.Split(strings.Trim(s, "/"), "/") {
		if seg != strings.TrimSpace(seg) {
			return true
		}
	}
	return false
}

func c16Class(right, path string) string {
	ws := segEdgeSpace(path)
	for _, p := range strings.Split(right, ";") {
		if segEdgeSpace(p) {
			ws = true
		}
	}
	if ws {
		return "segment-edge-whitespace"
	}
	return "other"
}

func runC16(c *Ctx) {
	type cs struct {
		right string
		admin bool
		path  string
	}
	var cases []cs
	add := func(r string, a bool, p string) { cases = append(cases, cs{r, a, p}) }

	for _, l := range c.CorpusLines() {
		f := strings.Fields(l)
		if len(f) == 5 && f[0] == "c16" && f[1] == "permit" {
			add(string(Unhx(f[2])), f[3] == "1", string(Unhx(f[4])))
		}
	}
	// the documented examples (docs/config.md §3.2)
	for _, e := range [][2]string{{"/a", "/a"}, {"/a", "/a/b"}, {"/a/*", "/a"}, {"/a/*", "/a/b"}, {"/a/*", "/a/b/c"},
		{"/a/+/c/*", "a/b/c"}, {"/a/+/c/*", "a/d/c"}, {"/a/+/c/*", "a/b/c/d"}, {"/a/+/c/*", "a/b/c/d/e"}, {"/a/+/c/*", "a/c"}, {"*", "/x/y"}} {
		add(e[0], false, e[1])
	}
	alpha := "aAb+*/; "
	if c.Thorough() {
		// exhaustive: all right strings up to 5 and paths up to 4 over the alphabet: 8^0..5 × 8^0..4
		var all func(n int, pre string, out *[]string)
		all = func(n int, pre string, out *[]string) {
			*out = append(*out, pre)
			if n == 0 {
				return
			}
			for i := 0; i < len(alpha); i++ {
				all(n-1, pre+string(alpha[i]), out)
			}
		}
		var rs, ps []string
		all(5, "", &rs)
		all(4, "", &ps)
		// all rights × paths of length ≤ 3 fully; longer paths sampled per right
		for _, r := range rs {
			for _, p := range ps {
				if len(r)+len(p) <= 6 || c.Rng.Intn(400) == 0 {
					add(r, false, p)
				}
			}
		}
		c.Res.Exhaustive = false
		c.Note("all (right,path) pairs over {a,A,b,+,*,/,;,space} with |right|+|path| ≤ 6 enumerated completely; longer ones sampled")
	}
	// random structured pairs biased to near-matches
	segsAlpha := []string{"a", "A", "b", "bc", "+", "*", "", " a", "a ", " ", "a b", "Ab"}
	n := c.Budget(60000, 600000)
	for i := 0; i < n; i++ {
		var right string
		np := 1 + c.Rng.Intn(3)
		var pats []string
		for j := 0; j < np; j++ {
			ns := 1 + c.Rng.Intn(4)
			var ss []string
			for k := 0; k < ns; k++ {
				w := segsAlpha[c.Rng.Intn(len(segsAlpha))]
				if !c.Rng.Chance(12) && strings.ContainsAny(w, " ") {
					w = "a"
				}
				ss = append(ss, w)
			}
			p := strings.Join(ss, "/")
			if c.Rng.Chance(70) {
				p = "/" + p
			}
			if c.Rng.Chance(10) {
				p = " " + p + " "
			}
			pats = append(pats, p)
		}
		right = strings.Join(pats, ";")
		if c.Rng.Chance(5) {
			right = ""
		}
		// path: derive from one pattern (near-match) or random
		var path string
		if c.Rng.Chance(70) && len(pats) > 0 {
			base := strings.Split(strings.Trim(strings.TrimSpace(pats[c.Rng.Intn(len(pats))]), "/"), "/")
			var ss []string
			for _, s := range base {
				switch {
				case s == "+":
					ss = append(ss, segsAlpha[c.Rng.Intn(4)])
				case s == "*":
					for k := c.Rng.Intn(3); k > 0; k-- {
						ss = append(ss, "x")
					}
				default:
					if c.Rng.Chance(10) {
						s = segsAlpha[c.Rng.Intn(len(segsAlpha))]
					}
					if c.Rng.Chance(20) {
						s = strings.ToUpper(s)
					}
					ss = append(ss, s)
				}
			}
			if c.Rng.Chance(10) {
				ss = append(ss, "z")
			}
			if c.Rng.Chance(10) && len(ss) > 0 {
				ss = ss[:len(ss)-1]
			}
			path = "/" + strings.Join(ss, "/")
		} else {
			l := c.Rng.Intn(7)
			b := make([]byte, l)
			for k := range b {
				b[k] = c.Rng.Pick(alpha)
			}
			path = string(b)
		}
		add(right, c.Rng.Chance(15), path)
	}

	lines := make([]string, len(cases))
	for i, k := range cases {
		lines[i] = fmt.Sprintf("c16 permit %s %s %s", Hx([]byte(k.right)), B01(k.admin), Hx([]byte(k.path)))
	}
	outs := c.Drive(lines)
	c.Res.Rule = "case = (right string, admin flag, path); distinct by the triple; non-trivial when the right has at least one non-empty pattern and the path is non-empty"
	for i, k := range cases {
		got, pan := implPermit(k.right, k.admin, k.path)
		m := KV(outs[i])
		impl := B01(got)
		if pan != "" {
			impl = "panic"
		}
		c.Eval(lines[i], strings.Trim(k.right, "; ") != "" && k.path != "")
		if got {
			c.Count("permitted")
		} else {
			c.Count("denied")
		}
		if strings.Contains(k.right, "+") {
			c.Count("right-has-plus")
		}
		if strings.Contains(k.right, "*") {
			c.Count("right-has-star")
		}
		if strings.Contains(k.right, ";") {
			c.Count("right-multi")
		}
		if k.admin {
			c.Count("admin")
		}
		if i%(len(cases)/8+1) == 0 {
			c.Sample(fmt.Sprintf("right=%q admin=%v path=%q impl=%s %s", k.right, k.admin, k.path, impl, outs[i]))
		}
		if impl != m["model"] {
			c.Find(Finding{Kind: "corr", Class: "permit", Case: lines[i], Impl: impl, Model: m["model"], Spec: m["spec"],
				Detail: fmt.Sprintf("right=%q admin=%v path=%q", k.right, k.admin, k.path)})
		}
		if impl != m["spec"] {
			c.Find(Finding{Kind: "oracle", Class: c16Class(k.right, k.path), Case: lines[i], Impl: impl, Model: m["model"], Spec: m["spec"],
				Detail: fmt.Sprintf("right=%q admin=%v path=%q", k.right, k.admin, k.path)})
		}
	}
}
