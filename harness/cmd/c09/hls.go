package main

// Op "hls" of C09: "the transport stream written for HLS" is what hls.SegmentGenerator writes
// with the frames the real packetizers hand to it — the FrameWriter behind the packetizers in
// production is the generator (which keeps audio frames back and re-frames them into one PES per
// ~100 ms), not an mpegts.Writer.  The case is a time-ordered list of codec frames; the
// implementation is NewH264Packetizer / NewAacPacketizer → hls.SegmentGenerator (memory
// segments); every segment file (as served by Playlist.Segment when it gets listed, and the open
// one at the end) goes to the driver, which demultiplexes each with the reference demultiplexer
// and checks that, across the segments, the video PES packets are the source NAL units (with
// delimiter / parameter sets / time stamps / key-frame flags) and the audio PES packets are
// chains of well-formed ADTS frames whose payloads are the source AAC frames, each exactly once
// and in order.  (Playlist, numbering, key-frame starts and storage are C10's subject.)

import (
	"fmt"
	"io"
	"io/ioutil"
	"strings"

	. "verifharness/hlib"

	"github.com/cnotch/ipchub/av/codec"
	"github.com/cnotch/ipchub/av/format/hls"
	"github.com/cnotch/ipchub/av/format/mpegts"
	"github.com/cnotch/xlog"
)

var hlsRates = []int{8000, 16000, 22050, 44100, 48000}
var hlsRateIdx = map[int]int{8000: 11, 16000: 8, 22050: 7, 44100: 4, 48000: 3}

// genHlsCase: a few seconds of video (GOP about a second) and AAC frames whose sizes vary from
// frame to frame (VBR) or stay constant; parameter sets known from the start or only in-band
func genHlsCase(c *Ctx) *tcase {
	k := &tcase{op: "hls"}
	k.frag = 1 + c.Rng.Intn(2)
	k.rate = hlsRates[c.Rng.Intn(len(hlsRates))]
	k.sps = sanitizeNal(append([]byte{0x67}, c.Rng.Bytes(2+c.Rng.Intn(10))...))
	k.pps = sanitizeNal(append([]byte{0x68}, c.Rng.Bytes(1+c.Rng.Intn(4))...))
	k.inband = c.Rng.Chance(30)
	ot, ch := 1+c.Rng.Intn(4), 1+c.Rng.Intn(2)
	v := uint16(ot)<<11 | uint16(hlsRateIdx[k.rate])<<7 | uint16(ch)<<3
	k.ascraw = []byte{byte(v >> 8), byte(v)}
	k.truth = fmt.Sprintf("%d,%d,%d", ot, hlsRateIdx[k.rate], ch)
	frameDur := int64([]int{3000, 3600, 9000}[c.Rng.Intn(3)])
	gop := int64(90000) * int64(k.frag) / frameDur * int64(1+c.Rng.Intn(2)) / 2
	if gop < 2 {
		gop = 2
	}
	total := int64(3+c.Rng.Intn(3)) * 90000 * int64(k.frag)
	t0 := int64(c.Rng.Intn(3)) * int64(c.Rng.Intn(4000000))
	aDur := int64(1024) * 90000 / int64(k.rate)
	cbr := c.Rng.Chance(25)
	cbrSize := 1 + c.Rng.Intn(400)
	vt, at, vi := int64(0), int64(c.Rng.Intn(2000)), int64(0)
	for vt < total || at < total {
		if vt <= at && vt < total {
			typ := byte(1)
			if vi%gop == 0 {
				typ = 5
			}
			dts := t0 + vt
			pts := dts
			if c.Rng.Chance(30) {
				pts = dts + frameDur
			}
			nal := genNal(c, 2+c.Rng.Intn(300))
			nal[0] = nal[0]&0xe0 | typ
			if typ == 5 && (c.Rng.Chance(20) || (k.inband && vi == 0)) {
				// parameter sets travel as frames of their own in front of the IDR
				k.av = append(k.av, avFrame{'v', nsOfTicks(dts), nsOfTicks(pts), k.sps})
				k.av = append(k.av, avFrame{'v', nsOfTicks(dts), nsOfTicks(pts), k.pps})
			}
			k.av = append(k.av, avFrame{'v', nsOfTicks(dts), nsOfTicks(pts), nal})
			vt += frameDur
			vi++
		} else {
			if at >= total {
				break
			}
			sz := cbrSize
			if !cbr {
				sz = 1 + c.Rng.Intn(600)
				if c.Rng.Chance(3) {
					sz = 2041 - 7 + c.Rng.Intn(14) // frame_length crossing 2^11
				}
			}
			p := t0 + at
			if c.Rng.Chance(30) {
				p += int64(c.Rng.Intn(91)) - 45
			}
			k.av = append(k.av, avFrame{'a', nsOfTicks(p), nsOfTicks(p), c.Rng.Bytes(sz)})
			at += aDur
		}
	}
	return k
}

// runHls returns the segment files in order of sequence number (finished ones as served when
// they were listed, then the open one)
func runHls(k *tcase) (segs [][]byte, panicked bool, note string) {
	defer func() {
		if r := recover(); r != nil {
			panicked = true
			note = fmt.Sprintf("panic:%v", r)
		}
	}()
	pl := hls.NewPlaylist()
	sg, err := hls.NewSegmentGenerator(pl, "/c09", k.frag, "", k.rate, xlog.New(xlog.NewNopCore()))
	if err != nil {
		return nil, false, "open-error"
	}
	defer func() { sg.Close(); pl.Close() }()
	vm := &codec.VideoMeta{Codec: "H264", Sps: k.sps, Pps: k.pps}
	if k.inband {
		vm.Sps, vm.Pps = nil, nil // not in the SDP: they arrive as NAL units, the depacketizer stores them
	}
	am := &codec.AudioMeta{Codec: "AAC", Sps: k.ascraw}
	vp := mpegts.NewH264Packetizer(vm, sg)
	ap := mpegts.NewAacPacketizer(am, sg)
	seen := map[int]bool{}
	capture := func() {
		for _, s := range pl.VerifSegments() {
			if seen[s.SequenceNo] {
				continue
			}
			seen[s.SequenceNo] = true
			r, _, err := pl.Segment(s.SequenceNo)
			if err != nil {
				note = "listed-segment-not-served"
				segs = append(segs, nil)
				continue
			}
			b, _ := ioutil.ReadAll(r)
			if cl, ok := r.(io.Closer); ok {
				cl.Close()
			}
			segs = append(segs, b)
		}
	}
	for _, f := range k.av {
		switch f.kind {
		case 'v':
			if k.inband && len(f.payload) > 0 {
				// what rtp's h264Depacketizer does with an in-band parameter set while the SDP gave none
				switch f.payload[0] & 0x1f {
				case 7:
					if len(vm.Sps) == 0 {
						vm.Sps = f.payload
					}
				case 8:
					if len(vm.Pps) == 0 {
						vm.Pps = f.payload
					}
				}
			}
			vp.Packetize(toCodec(f))
		case 'a':
			ap.Packetize(toCodec(f))
		}
		capture()
	}
	if _, ok, _, _ := sg.VerifCurrent(); ok {
		segs = append(segs, sg.VerifCurrentBytes())
	}
	return segs, false, note
}

func hlsLine(k *tcase, segs [][]byte) string {
	var b strings.Builder
	b.WriteString(k.line())
	for _, s := range segs {
		b.WriteString(" seg=" + Hx(s))
	}
	return b.String()
}
