package main

// C09: MPEG-TS output.  Implementation under test (in-process, real code):
//   mpegts.NewWriter / Writer.WriteMpegtsFrame           (raw frames, via the verif frame constructor)
//   mpegts.NewH264Packetizer / NewAacPacketizer .Packetize (codec frames, synchronously)
//   mpegts.NewMuxer → WriteFrame → process goroutine     (codec frames, through the queue)
//   aac.NewADTSHeader, Frame.prepareAvcHeader            (header builders alone)
// Each case is sent to the Lean driver together with the bytes the implementation wrote; the
// driver answers whether the model writes the same bytes (correspondence) and whether the
// reference demultiplexer finds the source frames in the implementation's bytes (oracle).

import (
	"bytes"
	"fmt"
	"io/ioutil"
	"os"
	"strconv"
	"runtime"
	"strings"
	"sync"
	"time"

	. "verifharness/hlib"

	"github.com/cnotch/ipchub/av/codec"
	"github.com/cnotch/ipchub/av/codec/aac"
	"github.com/cnotch/ipchub/av/format/mpegts"
	"github.com/cnotch/xlog"
)

func main() { Main("C09", run) }

// Watchdog budgets: free when the call returns; expiry of the first is never a verdict (the case is
// run again alone with the second).
const (
	firstBudget   = 3 * time.Minute
	confirmBudget = 10 * time.Minute
)

// ---------- case representation ----------

type avFrame struct {
	kind     byte // 'v' 'a' 'o'
	dts, pts int64
	payload  []byte
}

type rawFrame struct {
	pid, sid int
	dts, pts int64
	key      bool
	hdr, pl  []byte
}

type tcase struct {
	op     string // "av" | "raw" | "adts" | "avchdr"
	sps    []byte
	pps    []byte
	ascraw []byte
	truth  string // ground truth of the ADTS-visible audio parameters, when the generator knows it
	mux    bool
	frag   int  // hls: fragment length (s)
	rate   int  // hls: audio sample rate
	inband bool // hls: SPS/PPS are not known when the packetizer is built, they arrive as NAL units
	av     []avFrame
	raw    []rawFrame
	args   []string // adts / avchdr
}

func (k *tcase) line() string {
	var b strings.Builder
	b.WriteString("c09 " + k.op)
	switch k.op {
	case "av", "hls":
		if k.op == "hls" {
			fmt.Fprintf(&b, " frag=%d rate=%d inband=%s", k.frag, k.rate, B01(k.inband))
		}
		fmt.Fprintf(&b, " sps=%s pps=%s ascraw=%s mux=%s", Hx(k.sps), Hx(k.pps), Hx(k.ascraw), B01(k.mux))
		if k.truth != "" {
			b.WriteString(" truth=" + k.truth)
		}
		for _, f := range k.av {
			switch f.kind {
			case 'v':
				fmt.Fprintf(&b, " v:%d:%d:%s", f.dts, f.pts, Hx(f.payload))
			case 'a':
				fmt.Fprintf(&b, " a:%d:%s", f.pts, Hx(f.payload))
			default:
				fmt.Fprintf(&b, " o:%s", Hx(f.payload))
			}
		}
	case "raw":
		for _, f := range k.raw {
			fmt.Fprintf(&b, " r:%d:%d:%d:%d:%s:%s:%s", f.pid, f.sid, f.dts, f.pts, B01(f.key), Hx(f.hdr), Hx(f.pl))
		}
	default:
		for _, a := range k.args {
			b.WriteString(" " + a)
		}
	}
	return b.String()
}

func parseCase(l string) *tcase {
	f := strings.Fields(l)
	if len(f) < 2 || f[0] != "c09" {
		return nil
	}
	k := &tcase{op: f[1]}
	for _, t := range f[2:] {
		switch {
		case strings.HasPrefix(t, "sps="):
			k.sps = Unhx(t[4:])
		case strings.HasPrefix(t, "pps="):
			k.pps = Unhx(t[4:])
		case strings.HasPrefix(t, "ascraw="):
			k.ascraw = Unhx(t[7:])
		case strings.HasPrefix(t, "mux="):
			k.mux = t[4:] == "1"
		case strings.HasPrefix(t, "frag="):
			k.frag, _ = strconv.Atoi(t[5:])
		case strings.HasPrefix(t, "rate="):
			k.rate, _ = strconv.Atoi(t[5:])
		case strings.HasPrefix(t, "inband="):
			k.inband = t[7:] == "1"
		case strings.HasPrefix(t, "truth="):
			k.truth = t[6:]
		case strings.Contains(t, "="):
		case k.op == "av" || k.op == "hls":
			p := strings.Split(t, ":")
			switch {
			case p[0] == "v" && len(p) == 4:
				d, _ := strconv.ParseInt(p[1], 10, 64)
				q, _ := strconv.ParseInt(p[2], 10, 64)
				k.av = append(k.av, avFrame{'v', d, q, Unhx(p[3])})
			case p[0] == "a" && len(p) == 3:
				q, _ := strconv.ParseInt(p[1], 10, 64)
				k.av = append(k.av, avFrame{'a', q, q, Unhx(p[2])})
			case p[0] == "o" && len(p) == 2:
				k.av = append(k.av, avFrame{'o', 0, 0, Unhx(p[1])})
			}
		case k.op == "raw":
			p := strings.Split(t, ":")
			if p[0] == "r" && len(p) == 8 {
				pid, _ := strconv.Atoi(p[1])
				sid, _ := strconv.Atoi(p[2])
				d, _ := strconv.ParseInt(p[3], 10, 64)
				q, _ := strconv.ParseInt(p[4], 10, 64)
				k.raw = append(k.raw, rawFrame{pid, sid, d, q, p[5] == "1", Unhx(p[6]), Unhx(p[7])})
			}
		default:
			k.args = append(k.args, t)
		}
	}
	return k
}

// ---------- the implementation ----------

// ascFields decodes the AudioSpecificConfig with the real decoder and renders the fields the
// model's ToAdtsHeader needs ("none" = prepareAsc leaves audioSps nil)
func ascFields(raw []byte) string {
	var asc aac.AudioSpecificConfig
	if err := asc.Decode(raw); err != nil {
		return "none"
	}
	if asc.ObjectType == aac.AOT_NULL || asc.ObjectType == aac.AOT_ESCAPE {
		return "none"
	}
	return fmt.Sprintf("%d,%d,%d,%d,%d", asc.ObjectType, asc.SamplingIndex, asc.ExtSampleRate, asc.ExtSamplingIndex, asc.ChannelConfig)
}

type countingWriter struct {
	mu sync.Mutex
	w  mpegts.FrameWriter
	n  int
}

func (c *countingWriter) WriteMpegtsFrame(f *mpegts.Frame) error {
	c.mu.Lock()
	defer c.mu.Unlock()
	err := c.w.WriteMpegtsFrame(f)
	c.n++
	return err
}
func (c *countingWriter) count() int { c.mu.Lock(); defer c.mu.Unlock(); return c.n }

func toCodec(f avFrame) *codec.Frame {
	mt := codec.MediaTypeData
	switch f.kind {
	case 'v':
		mt = codec.MediaTypeVideo
	case 'a':
		mt = codec.MediaTypeAudio
	}
	return &codec.Frame{MediaType: mt, Dts: f.dts, Pts: f.pts, Payload: f.payload}
}

// runAv: codec frames through the real packetizers (synchronously, or through the Muxer goroutine)
func runAv(k *tcase, muxBudget time.Duration) (out []byte, panicked bool, note string) {
	var buf bytes.Buffer
	w, err := mpegts.NewWriter(&buf)
	if err != nil {
		return nil, false, "newwriter-error"
	}
	vm := &codec.VideoMeta{Codec: "H264", Sps: k.sps, Pps: k.pps}
	am := &codec.AudioMeta{Codec: "AAC", Sps: k.ascraw}
	if !k.mux {
		func() {
			defer func() {
				if r := recover(); r != nil {
					panicked = true
				}
			}()
			vp := mpegts.NewH264Packetizer(vm, w)
			ap := mpegts.NewAacPacketizer(am, w)
			for _, f := range k.av {
				switch f.kind {
				case 'v':
					vp.Packetize(toCodec(f))
				case 'a':
					ap.Packetize(toCodec(f))
				}
			}
		}()
		return buf.Bytes(), panicked, ""
	}
	// through the real Muxer: count the frames that reach the writer
	cw := &countingWriter{w: w}
	mx, err := mpegts.NewMuxer(vm, am, cw, xlog.New(xlog.NewNopCore()))
	if err != nil {
		return nil, false, "newmuxer-error"
	}
	// how many calls to expect: every video/audio frame up to the first one whose packetizer panics
	asc := ascFields(k.ascraw)
	expect := 0
	for _, f := range k.av {
		if f.kind == 'v' {
			if len(f.payload) == 0 {
				panicked = true
				break
			}
			expect++
		} else if f.kind == 'a' {
			if asc == "none" {
				continue // rejected by the packetizer: nothing reaches the writer
			}
			expect++
		}
	}
	for _, f := range k.av {
		mx.WriteFrame(toCodec(f))
	}
	// wait for the event (the expected number of frames reached the writer); the budget only bounds a
	// goroutine that is gone or stuck and its expiry is confirmed by a run of the case alone
	deadline := time.Now().Add(muxBudget)
	for n := 0; cw.count() < expect && time.Now().Before(deadline); n++ {
		if n < 200 {
			runtime.Gosched()
		} else {
			time.Sleep(200 * time.Microsecond)
		}
	}
	if cw.count() < expect {
		note = fmt.Sprintf("stalled:%d/%d", cw.count(), expect)
	}
	if panicked {
		// give the goroutine a chance to reach (and recover from) the panic; nothing more may be
		// written (a frame written after it would be counted below; too short a pause only misses that)
		time.Sleep(3 * time.Millisecond)
	}
	mx.Close()
	if cw.count() > expect {
		note = fmt.Sprintf("extra-frames:%d/%d", cw.count(), expect)
	}
	cw.mu.Lock()
	out = append([]byte(nil), buf.Bytes()...)
	cw.mu.Unlock()
	return out, panicked, note
}

func runRaw(k *tcase) (out []byte, panicked bool) {
	var buf bytes.Buffer
	defer func() {
		if r := recover(); r != nil {
			panicked = true
			out = buf.Bytes()
		}
	}()
	w, _ := mpegts.NewWriter(&buf)
	for _, f := range k.raw {
		w.WriteMpegtsFrame(mpegts.VerifNewFrame(f.pid, f.sid, f.dts, f.pts, f.hdr, f.pl, f.key))
	}
	return buf.Bytes(), false
}

// ---------- generators ----------

var nalTypes = []byte{1, 1, 1, 5, 5, 5, 6, 7, 8, 9, 2, 3, 4, 10, 11, 12, 13, 14, 19, 20, 24, 28, 31, 0}

// interesting total sizes for (header+payload): the stuffing branches are selected by
// (188 - p - size): every residue of 184 and the few values around packet boundaries
func genSize(c *Ctx, big bool) int {
	switch c.Rng.Intn(10) {
	case 0:
		return 1 + c.Rng.Intn(8)
	case 1, 2:
		return 1 + c.Rng.Intn(400)
	case 3, 4:
		// around a packet boundary of the 1st/2nd/3rd/... packet for each of the header shapes
		firsts := []int{184 - 14, 184 - 19, 184 - 8 - 14, 184 - 8 - 19}
		base := firsts[c.Rng.Intn(4)] + 184*c.Rng.Intn(6)
		n := base - 4 + c.Rng.Intn(9)
		if n < 1 {
			n = 1
		}
		return n
	case 5:
		return 1 + c.Rng.Intn(3000)
	case 6:
		// around PES_packet_length overflow: size + (5|10) + 3 > 65535
		if c.Rng.Chance(12) {
			return 65535 - 13 - 3 + c.Rng.Intn(12) // 65519..65530: both limits (65522 with DTS, 65527 without) and neighbours
		}
		return 1 + c.Rng.Intn(600)
	case 7:
		if big {
			return 60000 + c.Rng.Intn(150000)
		}
		return 1 + c.Rng.Intn(2000)
	default:
		return 1 + c.Rng.Intn(1200)
	}
}

func genTicks(c *Ctx) int64 {
	const max = int64(1) << 33
	switch c.Rng.Intn(8) {
	case 0:
		return 0
	case 1:
		return max - 1 - int64(c.Rng.Intn(3))
	case 2:
		return (int64(1) << uint(c.Rng.Intn(34))) - int64(c.Rng.Intn(2))
	case 3:
		return (int64(c.Rng.Intn(8)) << 30) | (int64(c.Rng.Intn(3)) << 15) | int64(c.Rng.Intn(3))
	default:
		return int64(c.Rng.U64() % uint64(max))
	}
}

func nsOfTicks(t int64) int64 { // smallest ns value whose conversion gives t
	ns := t * 1000000000 / 90000
	for ns*90000/1000000000 < t {
		ns++
	}
	return ns
}

func genNal(c *Ctx, size int) []byte {
	b := c.Rng.Bytes(size)
	if size > 0 {
		b[0] = byte(c.Rng.Intn(4))<<5 | nalTypes[c.Rng.Intn(len(nalTypes))]
	}
	// avoid accidental start codes inside the NAL (emulation prevention is the encoder's job)
	for i := 2; i < len(b); i++ {
		if b[i-2] == 0 && b[i-1] == 0 && b[i] <= 3 {
			b[i] = 4 + b[i]
		}
	}
	if size > 1 && b[size-1] == 0 {
		b[size-1] = 0x80
	}
	return b
}

func genAsc(c *Ctx) ([]byte, string) {
	switch c.Rng.Intn(12) {
	case 0:
		return nil, ""
	case 1:
		return c.Rng.Bytes(1 + c.Rng.Intn(6)), ""
	case 2:
		// explicit SBR signalling: AOT 5, sr idx, chan, ext sr idx, AOT 2: ADTS shows AAC-LC at the
		// extension sampling rate
		ot, si, ch, esi := 5, c.Rng.Intn(13), 1+c.Rng.Intn(7), c.Rng.Intn(13)
		v := uint32(ot)<<27 | uint32(si)<<23 | uint32(ch)<<19 | uint32(esi)<<15 | uint32(2)<<10
		return []byte{byte(v >> 24), byte(v >> 16), byte(v >> 8), byte(v)}, fmt.Sprintf("2,%d,%d", esi, ch)
	case 3:
		return aac.Encode2BytesASC(byte(c.Rng.Intn(32)), byte(c.Rng.Intn(16)), byte(c.Rng.Intn(16))), ""
	default:
		ot, si, ch := 1+c.Rng.Intn(4), c.Rng.Intn(13), 1+c.Rng.Intn(7)
		// written out bit by bit (not with the package's own encoder): 5 bits object type, 4 bits
		// frequency index, 4 bits channel configuration
		v := uint16(ot)<<11 | uint16(si)<<7 | uint16(ch)<<3
		return []byte{byte(v >> 8), byte(v)}, fmt.Sprintf("%d,%d,%d", ot, si, ch)
	}
}

func genAvCase(c *Ctx, big bool) *tcase {
	k := &tcase{op: "av", mux: c.Rng.Chance(35)}
	if c.Rng.Chance(90) {
		k.sps = sanitizeNal(append([]byte{0x67}, c.Rng.Bytes(1+c.Rng.Intn(30))...))
	}
	if c.Rng.Chance(90) {
		k.pps = sanitizeNal(append([]byte{0x68}, c.Rng.Bytes(1+c.Rng.Intn(8))...))
	}
	k.ascraw, k.truth = genAsc(c)
	n := 1 + c.Rng.Intn(8)
	if c.Rng.Chance(10) {
		n = 16 + c.Rng.Intn(40) // long enough for the continuity counters to wrap several times
	}
	t := genTicks(c) / 2
	for i := 0; i < n; i++ {
		t += int64(c.Rng.Intn(9000))
		switch r := c.Rng.Intn(100); {
		case r < 55:
			sz := genSize(c, big && i == 0)
			if c.Rng.Chance(2) {
				sz = 0
			}
			pts := t
			if c.Rng.Chance(50) {
				pts = t + int64(c.Rng.Intn(20000))
			}
			k.av = append(k.av, avFrame{'v', nsOfTicks(t), nsOfTicks(pts), genNal(c, sz)})
		case r < 95:
			sz := 1 + c.Rng.Intn(800)
			switch c.Rng.Intn(20) {
			case 0:
				sz = 8184 - c.Rng.Intn(3) // largest frame_length
			case 1:
				sz = 2041 - 7 + c.Rng.Intn(14) // frame_length crossing 2^11
			case 2:
				sz = 0
			case 3:
				if c.Rng.Chance(30) {
					sz = 8185 + c.Rng.Intn(200) // frame_length does not fit 13 bits (correspondence only)
				}
			}
			k.av = append(k.av, avFrame{'a', nsOfTicks(t), nsOfTicks(t), c.Rng.Bytes(sz)})
		default:
			k.av = append(k.av, avFrame{'o', 0, 0, c.Rng.Bytes(c.Rng.Intn(5))})
		}
	}
	return k
}

func genRawCase(c *Ctx, big bool) *tcase {
	k := &tcase{op: "raw"}
	vpid := 256
	if c.Rng.Chance(30) {
		vpid = 32 + c.Rng.Intn(8100)
		if vpid == 257 {
			vpid = 256
		}
	}
	n := 1 + c.Rng.Intn(5)
	if c.Rng.Chance(8) {
		n = 20 + c.Rng.Intn(30)
	}
	for i := 0; i < n; i++ {
		f := rawFrame{pid: vpid, sid: 0xe0}
		if c.Rng.Chance(35) {
			f.pid, f.sid = 257, 0xc0
		}
		if c.Rng.Chance(10) {
			f.sid = c.Rng.Intn(256)
		}
		f.dts = genTicks(c)
		f.pts = f.dts
		if c.Rng.Chance(50) {
			f.pts = genTicks(c)
		}
		f.key = c.Rng.Chance(40)
		total := genSize(c, big && i == 0)
		hl := 0
		if c.Rng.Chance(70) {
			hl = c.Rng.Intn(32)
		}
		if hl >= total {
			hl = total - 1
		}
		if c.Rng.Chance(3) {
			hl, total = c.Rng.Intn(5), 0 // empty payload: nothing is written
			total = hl
		}
		f.hdr = c.Rng.Bytes(hl)
		f.pl = c.Rng.Bytes(total - hl)
		k.raw = append(k.raw, f)
	}
	return k
}

// driveParallel: several driver processes side by side (chunks balanced by bytes)
func driveParallel(c *Ctx, lines []string) []string {
	const workers = 8
	total := 0
	for _, l := range lines {
		total += len(l) + 200
	}
	outs := make([]string, len(lines))
	var wg sync.WaitGroup
	start, acc := 0, 0
	for i, l := range lines {
		acc += len(l) + 200
		if acc >= total/workers+1 || i == len(lines)-1 {
			lo, hi := start, i+1
			wg.Add(1)
			go func() {
				defer wg.Done()
				copy(outs[lo:hi], c.Drive(lines[lo:hi]))
			}()
			start, acc = i+1, 0
		}
	}
	wg.Wait()
	return outs
}

// ---------- run ----------

func run(c *Ctx) {
	var cases []*tcase
	for _, l := range c.CorpusLines() {
		if k := parseCase(l); k != nil {
			cases = append(cases, k)
		}
	}
	nCorpus := len(cases)
	if c.Replay == "" {
		// every total size 1..N for each header shape, alone in a stream (the stuffing branches)
		sweep := c.Budget(420, 1300)
		for sz := 1; sz <= sweep; sz++ {
			for shape := 0; shape < 4; shape++ {
				f := rawFrame{pid: 256, sid: 0xe0, dts: 1234567 + int64(sz), key: shape&1 == 1, pl: c.Rng.Bytes(sz)}
				f.pts = f.dts
				if shape&2 == 2 {
					f.pts = f.dts + 3003
				}
				cases = append(cases, &tcase{op: "raw", raw: []rawFrame{f}})
			}
		}
		for _, sz := range []int{65521, 65522, 65523, 65526, 65527, 65528} {
			for shape := 0; shape < 4; shape++ {
				f := rawFrame{pid: 256, sid: 0xe0, dts: 777, key: shape&1 == 1, pl: c.Rng.Bytes(sz)}
				f.pts = f.dts
				if shape&2 == 2 {
					f.pts = f.dts + 1
				}
				cases = append(cases, &tcase{op: "raw", raw: []rawFrame{f}})
			}
		}
		nr := c.Budget(2500, 80000)
		for i := 0; i < nr; i++ {
			cases = append(cases, genRawCase(c, c.Thorough() && i%100 == 0 || i%500 == 0))
		}
		na := c.Budget(2500, 80000)
		for i := 0; i < na; i++ {
			cases = append(cases, genAvCase(c, c.Thorough() && i%100 == 0 || i%500 == 0))
		}
		// the HLS path: packetizers → hls.SegmentGenerator (audio re-framed into one PES per ~100 ms)
		nhls := c.Budget(150, 1200)
		for i := 0; i < nhls; i++ {
			cases = append(cases, genHlsCase(c))
		}
		// header builders alone: every profile/index/channel byte pattern of interest × sizes
		nh := c.Budget(3000, 100000)
		for i := 0; i < nh; i++ {
			sz := c.Rng.Intn(9000)
			if c.Rng.Chance(30) {
				sz = []int{0, 1, 7, 8, 2040, 2041, 2047, 2048, 8183, 8184}[c.Rng.Intn(10)]
			}
			cases = append(cases, &tcase{op: "adts", args: []string{strconv.Itoa(c.Rng.Intn(256)), strconv.Itoa(c.Rng.Intn(256)), strconv.Itoa(c.Rng.Intn(256)), strconv.Itoa(sz)}})
		}
		for i := 0; i < nh/4; i++ {
			var sps, pps []byte
			if c.Rng.Chance(80) {
				sps = c.Rng.Bytes(1 + c.Rng.Intn(6))
			}
			if c.Rng.Chance(80) {
				pps = c.Rng.Bytes(1 + c.Rng.Intn(4))
			}
			cases = append(cases, &tcase{op: "avchdr", args: []string{Hx(sps), Hx(pps), Hx(c.Rng.Bytes(c.Rng.Intn(3)))}})
		}
		for t := 0; t < 256; t++ { // every first byte
			cases = append(cases, &tcase{op: "avchdr", args: []string{"6742", "68ce", Hx([]byte{byte(t), 0x11})}})
		}
	}
	c.Res.Rule = "case = one transport stream: (a) a list of raw mpegts frames (pid, stream id, dts, pts, key, header, payload) written by the real Writer, " +
		"(b) a list of codec frames (video NAL / AAC frame / other, ns time stamps) with SPS, PPS, AudioSpecificConfig through the real packetizers (directly or through the Muxer goroutine), " +
		"(c) one call of NewADTSHeader / prepareAvcHeader, (d) a time-ordered list of codec frames through the real packetizers into the real hls.SegmentGenerator (the segment files are the streams); distinct by the full input; non-trivial when at least one frame with a non-empty payload is written"

	// run the implementation, build driver lines
	var hangs []int
	type obs struct {
		impl     []byte
		panicked bool
		note     string
		oracleOK bool // the case is in the property's domain (oracle verdict is binding)
		nsegs    int  // hls: segment files observed
	}
	tImpl := time.Now()
	lines := make([]string, len(cases))
	ob := make([]obs, len(cases))
	runCase := func(i int, k *tcase, muxBudget time.Duration) (o obs, line string) {
		switch k.op {
		case "raw":
			out, p := runRaw(k)
			o = obs{impl: out, panicked: p, oracleOK: true}
			for _, f := range k.raw {
				if f.dts < 0 || f.pts < 0 || f.dts >= 1<<33 || f.pts >= 1<<33 {
					o.oracleOK = false
				}
			}
			line = k.line() + " impl=" + Hx(out)
		case "av":
			out, p, note := runAv(k, muxBudget)
			asc := ascFields(k.ascraw)
			o = obs{impl: out, panicked: p, note: note, oracleOK: true}
			for _, f := range k.av {
				if f.kind == 'a' && len(f.payload) > 8184 && asc != "none" {
					o.oracleOK = false // frame_length has 13 bits: no AAC frame is that large
				}
				if f.dts < 0 || f.pts < 0 {
					o.oracleOK = false
				}
			}
			line = k.line() + " asc=" + asc + " impl=" + Hx(out)
		case "hls":
			segs, p, note := runHls(k)
			o = obs{panicked: p, note: note, oracleOK: true, nsegs: len(segs)}
			line = hlsLine(k, segs) + " asc=" + ascFields(k.ascraw)
		case "adts":
			a := k.args
			p, _ := strconv.Atoi(a[0])
			s, _ := strconv.Atoi(a[1])
			ch, _ := strconv.Atoi(a[2])
			n, _ := strconv.Atoi(a[3])
			h := aac.NewADTSHeader(byte(p), byte(s), byte(ch), n)
			o = obs{impl: h[:]}
			line = k.line()
		case "avchdr":
			a := k.args
			func() {
				defer func() {
					if r := recover(); r != nil {
						o.panicked = true
					}
				}()
				o.impl = mpegts.VerifAvcHeader(Unhx(a[0]), Unhx(a[1]), Unhx(a[2]))
			}()
			line = k.line()
		}
		return
	}
	type done struct {
		o    obs
		line string
	}
	// guarded: one case under a watchdog (hung = the call into the implementation did not return
	// within the budget; its goroutine is abandoned)
	guarded := func(i int, k *tcase, budget, muxBudget time.Duration) (hung bool) {
		ch := make(chan done, 1)
		go func() {
			o, l := runCase(i, k, muxBudget)
			ch <- done{o, l}
		}()
		t := time.NewTimer(budget)
		defer t.Stop()
		select {
		case d := <-ch:
			ob[i], lines[i] = d.o, d.line
			return false
		case <-t.C:
			return true
		}
	}
	suspect := make([]bool, len(cases))
	var wgI sync.WaitGroup
	sem := make(chan struct{}, 8)
	for i, k := range cases {
		i, k := i, k
		wgI.Add(1)
		sem <- struct{}{}
		go func() {
			defer func() { <-sem; wgI.Done() }()
			suspect[i] = guarded(i, k, firstBudget, firstBudget/2) || strings.HasPrefix(ob[i].note, "stalled")
		}()
	}
	wgI.Wait()
	// a case whose watchdog expired (or whose Muxer goroutine did not deliver in time) is run again,
	// alone, with a long budget: only what still does not return / deliver then is reported
	for i, k := range cases {
		if !suspect[i] {
			continue
		}
		c.Count("watchdog-expired-rerun-alone")
		if guarded(i, k, confirmBudget, confirmBudget/2) {
			hangs = append(hangs, i)
			ob[i] = obs{}
			lines[i] = "c09 skip"
		}
	}
	total := 0
	for _, l := range lines {
		total += len(l)
	}
	c.Note(fmt.Sprintf("driver input %d MB", total>>20))
	c.Note(fmt.Sprintf("implementation time %.1fs", time.Since(tImpl).Seconds()))
	if p := os.Getenv("C09_DUMP"); p != "" {
		ioutil.WriteFile(p, []byte(strings.Join(lines, "\n")+"\n"), 0644)
	}
	t0 := time.Now()
	outs := driveParallel(c, lines)
	c.Note(fmt.Sprintf("driver time %.1fs for %d lines", time.Since(t0).Seconds(), len(lines)))

	isHang := map[int]bool{}
	for _, i := range hangs {
		isHang[i] = true
		c.Eval(cases[i].line(), true)
		c.Find(Finding{Kind: "oracle", Class: "writer-call-never-returns", Case: cases[i].line(),
			Impl: fmt.Sprintf("the call into the implementation did not return within %v, run alone", confirmBudget),
			Spec: "every frame is written"})
	}
	for i, k := range cases {
		if isHang[i] {
			continue
		}
		m := KV(outs[i])
		in := k.line()
		o := ob[i]
		switch k.op {
		case "adts", "avchdr":
			impl := "hdr=" + Hx(o.impl)
			if o.panicked {
				impl = "panic"
			}
			c.Eval(in, true)
			c.Count("op-" + k.op)
			if impl != outs[i] {
				c.Find(Finding{Kind: "corr", Class: k.op, Case: in, Impl: impl, Model: outs[i]})
			}
			continue
		}
		if k.op == "hls" {
			na, sizes := 0, map[int]bool{}
			for _, f := range k.av {
				if f.kind == 'a' {
					na++
					sizes[len(f.payload)] = true
				}
			}
			c.Eval(in, o.nsegs > 0)
			c.Count("op-hls-path")
			if k.inband {
				c.Count("hls-path:parameter-sets-in-band-only")
			}
			if len(sizes) > 1 {
				c.Count("hls-path:aac-frame-sizes-vary")
			} else {
				c.Count("hls-path:aac-frame-size-constant")
			}
			c.Count(fmt.Sprintf("hls-path:segments-%d", o.nsegs))
			if o.note != "" {
				c.Find(Finding{Kind: "oracle", Class: "hls-path-" + strings.SplitN(o.note, ":", 2)[0], Case: in, Impl: o.note, Spec: "segments written and served"})
				continue
			}
			if spec := m["spec"]; spec != "ok" {
				c.Find(Finding{Kind: "oracle", Class: "hls-path:" + strings.TrimPrefix(spec, "fail:"), Case: in,
					Impl: fmt.Sprintf("%d segment files", o.nsegs), Spec: spec})
			}
			continue
		}
		written := 0
		if k.op == "raw" {
			for _, f := range k.raw {
				if len(f.pl) > 0 {
					written++
				}
				total := len(f.hdr) + len(f.pl)
				countSize(c, total, f.key, f.dts != f.pts)
			}
			c.Count("op-raw")
		} else {
			for _, f := range k.av {
				if len(f.payload) > 0 && f.kind != 'o' {
					written++
				}
				if f.kind == 'v' && len(f.payload) > 0 {
					c.Count(fmt.Sprintf("nal-type-%d", f.payload[0]&0x1f))
					countSize(c, len(f.payload), f.payload[0]&0x1f == 5, f.dts != f.pts)
				}
				if f.kind == 'a' {
					c.Count("audio-frame")
				}
			}
			if k.mux {
				c.Count("op-av-muxer-goroutine")
			} else {
				c.Count("op-av-packetizers")
			}
			if len(k.ascraw) == 0 {
				c.Count("asc-empty")
			}
		}
		c.Eval(in, written > 0)
		if i < nCorpus {
			c.Count("corpus-case")
		}
		if i%(len(cases)/6+1) == 0 && len(in) < 600 {
			c.Sample(fmt.Sprintf("%s  →  impl %d bytes; driver: %s", in, len(o.impl), outs[i]))
		}
		implDesc := fmt.Sprintf("%d bytes panic=%s %s", len(o.impl), B01(o.panicked), o.note)
		if m["model"] != "ok" || (k.op == "av" && m["panic"] != B01(o.panicked)) || o.note != "" {
			c.Find(Finding{Kind: "corr", Class: k.op + "-bytes", Case: in, Impl: implDesc, Model: outs[i], Detail: o.note})
		}
		if o.panicked {
			c.Count("impl-panic")
		}
		spec := m["spec"]
		if !o.oracleOK || spec == "skip" {
			c.Count("oracle-out-of-domain")
			continue
		}
		if spec != "ok" {
			c.Find(Finding{Kind: "oracle", Class: strings.TrimPrefix(spec, "fail:"), Case: in, Impl: implDesc, Spec: spec, Model: m["model"]})
		}
	}
}

func countSize(c *Ctx, total int, key, dtsDiffers bool) {
	if total == 0 {
		c.Count("size-0")
		return
	}
	// which branch the LAST packet takes
	hdr := 14
	if dtsDiffers {
		hdr = 19
	}
	if key {
		hdr += 8
	}
	first := 184 - hdr
	switch {
	case total < first && key:
		c.Count("last-packet:first+stuff-into-pcr-field")
	case total < first:
		c.Count("last-packet:first+new-stuffing-field")
	case total == first:
		c.Count("last-packet:first-exact")
	default:
		rem := (total - first) % 184
		switch rem {
		case 0:
			c.Count("last-packet:exact-184")
		case 183:
			c.Count("last-packet:stuff-1")
		case 182:
			c.Count("last-packet:stuff-2")
		default:
			c.Count("last-packet:stuff>2")
		}
	}
	if total+hdr-9+3 > 0xffff && !key || total+hdr-8-9+3 > 0xffff && key {
		c.Count("pes-length-0(>65535)")
	}
	if key {
		c.Count("key")
	}
	if dtsDiffers {
		c.Count("pts+dts")
	} else {
		c.Count("pts-only")
	}
}

// sanitizeNal: a NAL unit never contains 00 00 0x (x <= 3) and never ends in a zero byte
// (emulation prevention and rbsp trailing bits are the encoder's job)
func sanitizeNal(b []byte) []byte {
	for i := 2; i < len(b); i++ {
		if b[i-2] == 0 && b[i-1] == 0 && b[i] <= 3 {
			b[i] = 4 + b[i]
		}
	}
	if n := len(b); n > 0 && b[n-1] == 0 {
		b[n-1] = 0x80
	}
	return b
}
