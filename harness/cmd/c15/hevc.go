package main

import (
	"encoding/base64"
	"fmt"
	"strconv"
	"strings"

	. "verifharness/hlib"

	"github.com/cnotch/ipchub/av/codec"
	"github.com/cnotch/ipchub/av/codec/hevc"
)

// ---- dumps in the format of Drv/C15.lean HevcDump ----

func u8(x uint8) uint64 { return uint64(x) }

func compat32(f [32]uint8) uint64 {
	var v uint64
	for j := 0; j < 32; j++ {
		v = v<<1 | uint64(f[j]&1)
	}
	return v
}

func dumpPtl(p *hevc.H265RawProfileTierLevel, maxSub int) string {
	g := nats(u8(p.General_profile_space), u8(p.General_tier_flag), u8(p.General_profile_idc), compat32(p.General_profile_compatibility_flag),
		u8(p.General_progressive_source_flag), u8(p.General_interlaced_source_flag), u8(p.General_non_packed_constraint_flag), u8(p.General_frame_only_constraint_flag),
		u8(p.General_max_12bit_constraint_flag), u8(p.General_max_10bit_constraint_flag), u8(p.General_max_8bit_constraint_flag),
		u8(p.General_max_422chroma_constraint_flag), u8(p.General_max_420chroma_constraint_flag), u8(p.General_max_monochrome_constraint_flag),
		u8(p.General_intra_constraint_flag), u8(p.General_one_picture_only_constraint_flag), u8(p.General_lower_bit_rate_constraint_flag),
		u8(p.General_max_14bit_constraint_flag), u8(p.General_inbld_flag))
	var subs []string
	for i := 0; i < maxSub && i < len(p.Sub_layer_level_idc); i++ {
		subs = append(subs, nats(u8(p.Sub_layer_profile_present_flag[i]), u8(p.Sub_layer_level_present_flag[i]))+","+
			nats(u8(p.Sub_layer_profile_space[i]), u8(p.Sub_layer_tier_flag[i]), u8(p.Sub_layer_profile_idc[i]), compat32(p.Sub_layer_profile_compatibility_flag[i]),
				u8(p.Sub_layer_progressive_source_flag[i]), u8(p.Sub_layer_interlaced_source_flag[i]), u8(p.Sub_layer_non_packed_constraint_flag[i]), u8(p.Sub_layer_frame_only_constraint_flag[i]),
				u8(p.Sub_layer_max_12bit_constraint_flag[i]), u8(p.Sub_layer_max_10bit_constraint_flag[i]), u8(p.Sub_layer_max_8bit_constraint_flag[i]),
				u8(p.Sub_layer_max_422chroma_constraint_flag[i]), u8(p.Sub_layer_max_420chroma_constraint_flag[i]), u8(p.Sub_layer_max_monochrome_constraint_flag[i]),
				u8(p.Sub_layer_intra_constraint_flag[i]), u8(p.Sub_layer_one_picture_only_constraint_flag[i]), u8(p.Sub_layer_lower_bit_rate_constraint_flag[i]),
				u8(p.Sub_layer_max_14bit_constraint_flag[i]), u8(p.Sub_layer_inbld_flag[i]))+","+strconv.Itoa(int(p.Sub_layer_level_idc[i])))
	}
	// GeneralProfileCompatibilityFlags must be the same 32 bits as the flag array
	if uint64(p.GeneralProfileCompatibilityFlags) != compat32(p.General_profile_compatibility_flag) {
		g += "!compat-shortcut-differs"
	}
	return g + "," + nats(p.GeneralConstraintIndicatorFlags, u8(p.General_level_idc)) + ",[" + strings.Join(subs, "|") + "]"
}

func dumpCpb(s *hevc.H265RawSubLayerHRDParameters, present bool, cnt int) string {
	if !present {
		return "[]"
	}
	var es []string
	for i := 0; i <= cnt && i < len(s.Cbr_flag); i++ {
		es = append(es, fmt.Sprintf("%d/%d/%d/%d/%d", s.Bit_rate_value_minus1[i], s.Cpb_size_value_minus1[i], s.Cpb_size_du_value_minus1[i], s.Bit_rate_du_value_minus1[i], s.Cbr_flag[i]))
	}
	return "[" + strings.Join(es, ".") + "]"
}

func dumpHrd(h *hevc.H265RawHRDParameters, present bool, maxSub int) string {
	if !present {
		return "0,0,0,0,0,0,0,0,0,0,0,0,0,{}"
	}
	var subs []string
	for i := 0; i <= maxSub && i < len(h.Cpb_cnt_minus1); i++ {
		subs = append(subs, nats(u8(h.Fixed_pic_rate_general_flag[i]), u8(h.Fixed_pic_rate_within_cvs_flag[i]), uint64(h.Elemental_duration_in_tc_minus1[i]),
			u8(h.Low_delay_hrd_flag[i]), u8(h.Cpb_cnt_minus1[i]))+","+
			dumpCpb(&h.Nal_sub_layer_hrd_parameters[i], h.Nal_hrd_parameters_present_flag == 1, int(h.Cpb_cnt_minus1[i]))+","+
			dumpCpb(&h.Vcl_sub_layer_hrd_parameters[i], h.Vcl_hrd_parameters_present_flag == 1, int(h.Cpb_cnt_minus1[i])))
	}
	return nats(u8(h.Nal_hrd_parameters_present_flag), u8(h.Vcl_hrd_parameters_present_flag), u8(h.Sub_pic_hrd_params_present_flag), u8(h.Tick_divisor_minus2),
		u8(h.Du_cpb_removal_delay_increment_length_minus1), u8(h.Sub_pic_cpb_params_in_pic_timing_sei_flag), u8(h.Dpb_output_delay_du_length_minus1),
		u8(h.Bit_rate_scale), u8(h.Cpb_size_scale), u8(h.Cpb_size_du_scale), u8(h.Initial_cpb_removal_delay_length_minus1),
		u8(h.Au_cpb_removal_delay_length_minus1), u8(h.Dpb_output_delay_length_minus1)) + ",{" + strings.Join(subs, "|") + "}"
}

func dumpOrdering(a, b [hevc.HEVC_MAX_SUB_LAYERS]uint8, c [hevc.HEVC_MAX_SUB_LAYERS]uint32, maxSub int) string {
	var es []string
	for i := 0; i <= maxSub && i < len(a); i++ {
		es = append(es, fmt.Sprintf("%d/%d/%d", a[i], b[i], c[i]))
	}
	return "[" + strings.Join(es, ".") + "]"
}

func pairs16(a []uint16, b []uint8, n int) string {
	var es []string
	for i := 0; i < n && i < len(a); i++ {
		es = append(es, fmt.Sprintf("%d/%d", a[i], b[i]))
	}
	return "[" + strings.Join(es, ".") + "]"
}

func dotU8(a []uint8, n int) string {
	var es []string
	for i := 0; i < n && i < len(a); i++ {
		es = append(es, strconv.Itoa(int(a[i])))
	}
	return "[" + strings.Join(es, ".") + "]"
}

func dumpRps(r *hevc.H265RawSTRefPicSet, nFlags int) string {
	if r.Inter_ref_pic_set_prediction_flag != 1 {
		nFlags = 0
	}
	return nats(u8(r.Inter_ref_pic_set_prediction_flag), u8(r.Delta_idx_minus1), u8(r.Delta_rps_sign), uint64(r.Abs_delta_rps_minus1)) + "," +
		dotU8(r.Used_by_curr_pic_flag[:], nFlags) + "," + dotU8(r.Use_delta_flag[:], nFlags) + "," +
		nats(u8(r.Num_negative_pics), u8(r.Num_positive_pics)) + "," +
		pairs16(r.Delta_poc_s0_minus1[:], r.Used_by_curr_pic_s0_flag[:], int(r.Num_negative_pics)) + "," +
		pairs16(r.Delta_poc_s1_minus1[:], r.Used_by_curr_pic_s1_flag[:], int(r.Num_positive_pics))
}

func dumpScaling(sl *hevc.H265RawScalingList) string {
	if sl == nil {
		return ""
	}
	var sizes []string
	for sizeId := 0; sizeId < 4; sizeId++ {
		step := 1
		if sizeId == 3 {
			step = 3
		}
		var ms []string
		for m := 0; m < 6; m += step {
			dc := 0
			if sizeId > 1 {
				dc = int(sl.Scaling_list_dc_coef_minus8[sizeId-2][m])
			}
			if sl.Scaling_list_pred_mode_flag[sizeId][m] == 0 {
				dc = 0
			}
			ms = append(ms, fmt.Sprintf("%d,%d,%d,%s", sl.Scaling_list_pred_mode_flag[sizeId][m], sl.Scaling_list_pred_matrix_id_delta[sizeId][m], dc,
				trimZerosI8(sl.Scaling_list_delta_coeff[sizeId][m][:])))
		}
		sizes = append(sizes, strings.Join(ms, ";"))
	}
	return strings.Join(sizes, "|")
}

func dumpVui265(v *hevc.H265RawVUI, maxSub int) string {
	return nats(u8(v.Aspect_ratio_info_present_flag), u8(v.Aspect_ratio_idc), uint64(v.Sar_width), uint64(v.Sar_height), u8(v.Overscan_info_present_flag),
		u8(v.Overscan_appropriate_flag), u8(v.Video_signal_type_present_flag), u8(v.Video_format), u8(v.Video_full_range_flag),
		u8(v.Colour_description_present_flag), u8(v.Colour_primaries), u8(v.Transfer_characteristics), u8(v.Matrix_coefficients),
		u8(v.Chroma_loc_info_present_flag), u8(v.Chroma_sample_loc_type_top_field), u8(v.Chroma_sample_loc_type_bottom_field),
		u8(v.Neutral_chroma_indication_flag), u8(v.Field_seq_flag), u8(v.Frame_field_info_present_flag), u8(v.Default_display_window_flag),
		uint64(v.Def_disp_win_left_offset), uint64(v.Def_disp_win_right_offset), uint64(v.Def_disp_win_top_offset), uint64(v.Def_disp_win_bottom_offset),
		u8(v.Vui_timing_info_present_flag), uint64(v.Vui_num_units_in_tick), uint64(v.Vui_time_scale), u8(v.Vui_poc_proportional_to_timing_flag),
		uint64(v.Vui_num_ticks_poc_diff_one_minus1), u8(v.Vui_hrd_parameters_present_flag), u8(v.Bitstream_restriction_flag),
		u8(v.Tiles_fixed_structure_flag), u8(v.Motion_vectors_over_pic_boundaries_flag), u8(v.Restricted_ref_pic_lists_flag),
		uint64(v.Min_spatial_segmentation_idc), u8(v.Max_bytes_per_pic_denom), u8(v.Max_bits_per_min_cu_denom), u8(v.Log2_max_mv_length_horizontal),
		u8(v.Log2_max_mv_length_vertical)) + ";R=" + dumpHrd(&v.Hrd_parameters, v.Vui_hrd_parameters_present_flag == 1, maxSub)
}

func dumpSps265(s *hevc.H265RawSPS) string {
	maxSub := int(s.Sps_max_sub_layers_minus1)
	n := s.Nal_unit_header
	var b strings.Builder
	b.WriteString("H=" + nats(u8(n.Nal_unit_type), u8(n.Nuh_layer_id), u8(n.Nuh_temporal_id_plus1), u8(s.Sps_video_parameter_set_id),
		u8(s.Sps_max_sub_layers_minus1), u8(s.Sps_temporal_id_nesting_flag), u8(s.Sps_seq_parameter_set_id), u8(s.Chroma_format_idc),
		u8(s.Separate_colour_plane_flag), uint64(s.Pic_width_in_luma_samples), uint64(s.Pic_height_in_luma_samples), u8(s.Conformance_window_flag),
		uint64(s.Conf_win_left_offset), uint64(s.Conf_win_right_offset), uint64(s.Conf_win_top_offset), uint64(s.Conf_win_bottom_offset)))
	b.WriteString(";T=" + dumpPtl(&s.Profile_tier_level, maxSub))
	b.WriteString(";B=" + nats(u8(s.Bit_depth_luma_minus8), u8(s.Bit_depth_chroma_minus8), u8(s.Log2_max_pic_order_cnt_lsb_minus4), u8(s.Sps_sub_layer_ordering_info_present_flag)) + "," +
		dumpOrdering(s.Sps_max_dec_pic_buffering_minus1, s.Sps_max_num_reorder_pics, s.Sps_max_latency_increase_plus1, maxSub) + "," +
		nats(u8(s.Log2_min_luma_coding_block_size_minus3), u8(s.Log2_diff_max_min_luma_coding_block_size), u8(s.Log2_min_luma_transform_block_size_minus2),
			u8(s.Log2_diff_max_min_luma_transform_block_size), u8(s.Max_transform_hierarchy_depth_inter), u8(s.Max_transform_hierarchy_depth_intra),
			u8(s.Scaling_list_enabled_flag), u8(s.Sps_scaling_list_data_present_flag), u8(s.Amp_enabled_flag), u8(s.Sample_adaptive_offset_enabled_flag),
			u8(s.Pcm_enabled_flag), u8(s.Pcm_sample_bit_depth_luma_minus1), u8(s.Pcm_sample_bit_depth_chroma_minus1),
			u8(s.Log2_min_pcm_luma_coding_block_size_minus3), u8(s.Log2_diff_max_min_pcm_luma_coding_block_size), u8(s.Pcm_loop_filter_disabled_flag),
			u8(s.Num_short_term_ref_pic_sets), u8(s.Long_term_ref_pics_present_flag), u8(s.Num_long_term_ref_pics_sps), u8(s.Sps_temporal_mvp_enabled_flag),
			u8(s.Strong_intra_smoothing_enabled_flag), u8(s.Vui_parameters_present_flag), u8(s.Sps_extension_present_flag), u8(s.Sps_range_extension_flag),
			u8(s.Sps_multilayer_extension_flag), u8(s.Sps_3d_extension_flag), u8(s.Sps_scc_extension_flag), u8(s.Sps_extension_4bits)))
	b.WriteString(";S=" + dumpScaling(s.Scaling_list))
	var rs []string
	for i := range s.St_ref_pic_set {
		nf := 0
		if i > 0 {
			nf = int(s.St_ref_pic_set[i-1].Num_negative_pics+s.St_ref_pic_set[i-1].Num_positive_pics) + 1
		}
		rs = append(rs, dumpRps(&s.St_ref_pic_set[i], nf))
	}
	b.WriteString(";P=" + strings.Join(rs, "|"))
	b.WriteString(";L=" + pairs16(s.Lt_ref_pic_poc_lsb_sps[:], s.Used_by_curr_pic_lt_sps_flag[:], int(s.Num_long_term_ref_pics_sps)))
	b.WriteString(";V=" + dumpVui265(&s.Vui, maxSub))
	return b.String()
}

func dumpVps265(v *hevc.H265RawVPS) string {
	maxSub := int(v.Vps_max_sub_layers_minus1)
	n := v.Nal_unit_header
	var rows []string
	for i := range v.Layer_id_included_flag {
		var sb strings.Builder
		for j := 0; j <= int(v.Vps_max_layer_id) && j < len(v.Layer_id_included_flag[i]); j++ {
			sb.WriteString(strconv.Itoa(int(v.Layer_id_included_flag[i][j])))
		}
		rows = append(rows, sb.String())
	}
	var hs []string
	for i := range v.Hrd_parameters {
		hs = append(hs, fmt.Sprintf("%d,%d,", v.Hrd_layer_set_idx[i], v.Cprms_present_flag[i])+dumpHrd(&v.Hrd_parameters[i], true, maxSub))
	}
	return "H=" + nats(u8(n.Nal_unit_type), u8(n.Nuh_layer_id), u8(n.Nuh_temporal_id_plus1), u8(v.Vps_video_parameter_set_id),
		u8(v.Vps_base_layer_internal_flag), u8(v.Vps_base_layer_available_flag), u8(v.Vps_max_layers_minus1), u8(v.Vps_max_sub_layers_minus1),
		u8(v.Vps_temporal_id_nesting_flag), u8(v.Vps_sub_layer_ordering_info_present_flag), u8(v.Vps_max_layer_id), uint64(v.Vps_num_layer_sets_minus1),
		u8(v.Vps_timing_info_present_flag), uint64(v.Vps_num_units_in_tick), uint64(v.Vps_time_scale), u8(v.Vps_poc_proportional_to_timing_flag),
		uint64(v.Vps_num_ticks_poc_diff_one_minus1), uint64(v.Vps_num_hrd_parameters), u8(v.Vps_extension_flag)) +
		";T=" + dumpPtl(&v.Profile_tier_level, maxSub) +
		";O=" + dumpOrdering(v.Vps_max_dec_pic_buffering_minus1, v.Vps_max_num_reorder_pics, v.Vps_max_latency_increase_plus1, maxSub) +
		";I=" + strings.Join(rows, "|") + ";R=" + strings.Join(hs, "#")
}

func implHevcSps(b []byte) (r implVideo) {
	defer func() {
		if e := recover(); e != nil {
			r.outcome = "escaped-panic"
		}
	}()
	var s hevc.H265RawSPS
	if err := s.Decode(append([]byte{}, b...)); err != nil {
		r.outcome = "err=" + errKind(err)
	} else {
		r.outcome = "ok"
		r.dump = dumpSps265(&s)
		r.w, r.h, r.fixed, r.fps = s.Width(), s.Height(), s.IsFixedFrameRate(), s.FrameRate()
	}
	vm := codec.VideoMeta{Codec: "H265", Vps: []byte{0x40, 1, 0x0c}, Sps: append([]byte{}, b...), Pps: []byte{0x44, 1, 0xc0}}
	r.ready = hevc.MetadataIsReady(&vm)
	r.mw, r.mh, r.mfixed, r.mfps = vm.Width, vm.Height, vm.FixedFrameRate, vm.FrameRate
	noVps := codec.VideoMeta{Codec: "H265", Sps: append([]byte{}, b...), Pps: []byte{0x44}}
	noPps := codec.VideoMeta{Codec: "H265", Sps: append([]byte{}, b...), Vps: []byte{0x40}}
	noSps := codec.VideoMeta{Codec: "H265", Vps: []byte{0x40}, Pps: []byte{0x44}}
	known := codec.VideoMeta{Codec: "H265", Vps: []byte{0x40}, Sps: append([]byte{}, b...), Pps: []byte{0x44}, Width: 7, Height: 9}
	if hevc.MetadataIsReady(&noVps) || hevc.MetadataIsReady(&noPps) || hevc.MetadataIsReady(&noSps) || noVps.Width != 0 || noPps.Width != 0 ||
		(len(b) > 0 && (!hevc.MetadataIsReady(&known) || known.Width != 7 || known.Height != 9)) {
		r.outcome = "guards-broken"
	}
	return
}

func implHevcVps(b []byte) (outcome, dump string) {
	defer func() {
		if e := recover(); e != nil {
			outcome = "escaped-panic"
		}
	}()
	var v hevc.H265RawVPS
	if err := v.Decode(append([]byte{}, b...)); err != nil {
		return "err=" + errKind(err), ""
	}
	return "ok", dumpVps265(&v)
}

var hevcSpsSamples = []string{
	"QgEBAWAAAAMAkAAAAwAAAwBdoAKAgC0WWVmkkyuAQAAA+kAAF3AC",
	"QgEBBAgAAAMAnQgAAAMAAF2wAoCALRZZWaSTK4BAAAADAEAAAAeC",
	"AAAAAUIBAQFgAAADAAADAAADAAADAJagAWggBln3ja5JMmuWMAgAAAMACAAAAwB4QA==",
}
var hevcVpsSamples = []string{"QAEMAf//AWAAAAMAkAAAAwAAAwBdlZgJ", "QAEMAf//BAgAAAMAnQgAAAMAAF2VmAk="}

func evalHevcSps(c *Ctx, k caseT, out string) {
	var data []byte
	m := KV(out)
	if k.kind == "hevcspsenc" {
		data = Unhx(m["bytes"])
	} else {
		data = Unhx(strings.Fields(k.line)[2])
	}
	gr, ok := guard(c, k, "hevc-sps-decode", func() interface{} { return implHevcSps(data) })
	if !ok {
		return
	}
	r := gr.(implVideo)
	modelOutcome := "ok"
	if e, bad := m["err"]; bad {
		modelOutcome = "err=" + e
	}
	c.Eval(k.line, r.outcome == "ok" || strings.HasPrefix(r.outcome, "err=panic") || r.outcome == "err=e4")
	c.Count("hevc-sps:" + k.kind)
	c.Count("hevc-sps:outcome-" + r.outcome)
	implS := r.outcome
	if r.outcome == "ok" {
		implS = fmt.Sprintf("ok dims=%d,%d,%s,%v dump=%s", r.w, r.h, B01(r.fixed), r.fps, r.dump)
		if strings.Contains(r.dump, ";P=1,") || strings.Contains(r.dump, "|1,") {
			c.Count("hevc-sps:has-inter-rps")
		}
	}
	if r.outcome != modelOutcome {
		c.Find(Finding{Kind: "corr", Class: "hevc-sps-outcome", Case: k.line, Impl: implS, Model: out})
	} else if r.outcome == "ok" {
		if r.dump != m["dump"] {
			c.Find(Finding{Kind: "corr", Class: "hevc-sps-fields", Case: k.line, Impl: implS, Model: out, Detail: firstDiff(r.dump, m["dump"])})
		}
		if !dimsEq(m["dims"], r.w, r.h, r.fixed, r.fps) {
			c.Find(Finding{Kind: "corr", Class: "hevc-sps-dims", Case: k.line, Impl: implS, Model: out})
		}
	}
	if r.outcome != "escaped-panic" {
		// … and nothing at all when Decode fails (Model/MetaReady.lean `ready`: the marker Width == 0 stays)
		if r.ready != (r.outcome == "ok") || (r.ready && !(r.mw == r.w && r.mh == r.h && r.mfixed == r.fixed && sameF(r.mfps, r.fps))) ||
			(!r.ready && (r.mw != 0 || r.mh != 0 || r.mfixed || r.mfps != 0)) {
			c.Find(Finding{Kind: "corr", Class: "hevc-metadata-ready", Case: k.line, Impl: fmt.Sprintf("ready=%v %d,%d,%v,%v", r.ready, r.mw, r.mh, r.mfixed, r.mfps), Model: out})
		}
	} else {
		c.Find(Finding{Kind: "oracle", Class: "hevc-panic-escapes", Case: k.line, Impl: r.outcome, Spec: "error or result"})
	}
	if r.outcome != "escaped-panic" {
		// through SDP: width and height against the standard; fixed flag and rate against the model (their difference from
		// the standard is judged once, in the direct oracle below)
		sp := ""
		if q := strings.Split(m["spec"], ","); len(q) == 4 {
			sp = q[0] + "," + q[1] + ",*,*"
		}
		sdpCaseOf(c, k, "h265", data, sp, derive)
	}
	if k.kind == "hevcspsenc" && k.wf {
		spec := m["spec"]
		c.Count("hevc-sps:class-" + k.class)
		if r.outcome != "ok" {
			c.Find(Finding{Kind: "oracle", Class: k.class, Case: k.line, Impl: implS, Spec: "ok dims=" + spec, Detail: "valid SPS rejected"})
		} else if q := strings.Split(spec, ","); len(q) == 4 {
			if !dimsEqSpec(q[0]+","+q[1]+",*,*", r.w, r.h, r.fixed, r.fps) {
				c.Find(Finding{Kind: "oracle", Class: k.class, Case: k.line, Impl: fmt.Sprintf("%d,%d", r.w, r.h), Spec: q[0] + "," + q[1],
					Detail: "width,height reported for a valid SPS differ from the standard's"})
			}
			// fixed-rate flag and picture rate: the standard's (E.3.2: fixed_pic_rate_within_cvs_flag[HighestTid],
			// elemental_duration_in_tc_minus1) — the class is computed by the specification from the tree (`rate=`): a tree on
			// which the code's convention "timing information ⇒ fixed, one tick per picture" is not the standard's belongs to
			// one of the two known classes, any other difference to the tree's own class
			if !dimsEqSpec("*,*,"+q[2]+","+q[3], r.w, r.h, r.fixed, r.fps) {
				cl := m["rate"]
				if cl == "agree" || cl == "" {
					cl = k.class
				}
				c.Find(Finding{Kind: "oracle", Class: cl, Case: k.line, Impl: fmt.Sprintf("fixed=%s fps=%v", B01(r.fixed), r.fps), Spec: "fixed=" + q[2] + " fps=" + q[3],
					Detail: "fixed-rate flag / picture rate reported for a valid SPS differ from the standard's (H.265 E.3.2)"})
			}
			c.Count("hevc-sps:rate-" + m["rate"])
		}
	}
}

func evalHevcVps(c *Ctx, k caseT, out string) {
	var data []byte
	m := KV(out)
	if k.kind == "hevcvpsenc" {
		data = Unhx(m["bytes"])
	} else {
		data = Unhx(strings.Fields(k.line)[2])
	}
	gr, ok := guard(c, k, "hevc-vps-decode", func() interface{} { o, d := implHevcVps(data); return [2]string{o, d} })
	if !ok {
		return
	}
	outcome, dump := gr.([2]string)[0], gr.([2]string)[1]
	modelOutcome := "ok"
	if e, bad := m["err"]; bad {
		modelOutcome = "err=" + e
	}
	c.Eval(k.line, outcome == "ok" || strings.HasPrefix(outcome, "err=panic"))
	c.Count("hevc-vps:" + k.kind)
	c.Count("hevc-vps:outcome-" + outcome)
	if outcome != modelOutcome {
		c.Find(Finding{Kind: "corr", Class: "hevc-vps-outcome", Case: k.line, Impl: outcome + " " + dump, Model: out})
	} else if outcome == "ok" && dump != m["dump"] {
		c.Find(Finding{Kind: "corr", Class: "hevc-vps-fields", Case: k.line, Impl: dump, Model: out, Detail: firstDiff(dump, m["dump"])})
	}
	if outcome == "escaped-panic" {
		c.Find(Finding{Kind: "oracle", Class: "hevc-panic-escapes", Case: k.line, Impl: outcome, Spec: "error or result"})
	}
	if outcome != "escaped-panic" {
		sdpCaseOfVps(c, k, data, derive)
	}
	if k.kind == "hevcvpsenc" && k.wf {
		c.Count("hevc-vps:class-" + k.class)
		if outcome != "ok" {
			c.Find(Finding{Kind: "oracle", Class: k.class, Case: k.line, Impl: outcome, Spec: "ok", Detail: "valid VPS rejected"})
		} else if want := m["spec"]; want != "" && !strings.HasPrefix(dump, "H="+want) {
			c.Find(Finding{Kind: "oracle", Class: k.class, Case: k.line, Impl: dump, Spec: want, Detail: "VPS header fields differ from the syntax tree"})
		}
	}
}

func genHevc(c *Ctx, add func(caseT)) {
	var sps, vps [][]byte
	for _, s := range hevcSpsSamples {
		if b, err := base64.StdEncoding.DecodeString(s); err == nil {
			sps = append(sps, b)
			for i := 0; i <= len(b); i++ {
				add(caseT{line: "c15 hevcspsdec " + Hx(b[:i]), kind: "hevcspsdec", class: "truncation"})
			}
		}
	}
	for _, s := range hevcVpsSamples {
		if b, err := base64.StdEncoding.DecodeString(s); err == nil {
			vps = append(vps, b)
			for i := 0; i <= len(b); i++ {
				add(caseT{line: "c15 hevcvpsdec " + Hx(b[:i]), kind: "hevcvpsdec", class: "truncation"})
			}
		}
	}
	n := c.Budget(3000, 20000)
	for i := 0; i < n; i++ {
		var b []byte
		switch c.Rng.Intn(3) {
		case 0:
			b = mutate(c.Rng, sps[c.Rng.Intn(len(sps))])
		case 1:
			b = append([]byte{0x42, 0x01, byte(c.Rng.Intn(16))<<4 | byte(c.Rng.Intn(8))<<1 | 1}, c.Rng.Bytes(11+c.Rng.Intn(80))...)
		case 2:
			b = c.Rng.Bytes(c.Rng.Intn(48))
		}
		add(caseT{line: "c15 hevcspsdec " + Hx(b), kind: "hevcspsdec", class: "malformed"})
		switch c.Rng.Intn(3) {
		case 0:
			b = mutate(c.Rng, vps[c.Rng.Intn(len(vps))])
		case 1:
			b = append([]byte{0x40, 0x01, byte(c.Rng.U64()), byte(c.Rng.U64()) | 1, 0xff, 0xff}, c.Rng.Bytes(11+c.Rng.Intn(80))...)
		case 2:
			b = c.Rng.Bytes(c.Rng.Intn(48))
		}
		add(caseT{line: "c15 hevcvpsdec " + Hx(b), kind: "hevcvpsdec", class: "malformed"})
	}
}
