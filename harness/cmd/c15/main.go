// Correspondence harness of C15 — codec parameter parsing.
//
// Implementation under test (real packages, in-process): utils/bits.Reader,
// utils.RemoveH264or5EmulationBytes, h264.RawSPS, hevc.H265RawSPS / H265RawVPS,
// aac.AudioSpecificConfig, the MetadataIsReady shortcuts, sdp.ParseMetadata and
// media.NewStream.  Every case is piped to the Lean driver, which answers with the model's
// result (correspondence) and, for generated syntax trees, with the bytes produced by the
// specification's encoder and the values the standard derives (oracle).
package main

import (
	"fmt"
	"os"
	"strconv"
	"strings"

	. "verifharness/hlib"
)

func main() { Main("C15", run) }

type caseT struct {
	line  string // op line for the driver
	kind  string // bits | epb | h264dec | h264enc | ...
	wf    bool   // generated inside the value ranges of the specification (oracle applies)
	class string // signature class of the input, for oracle findings
	note  string
}

func run(c *Ctx) {
	// C15_SDP_FIND="<kind> <more|extra>": the first form seeds with a third H.264 set / with further fmtp parameters
	if a := strings.Fields(os.Getenv("C15_SDP_FIND")); len(a) == 2 {
		for v, n := uint64(0), 0; v < 100000 && n < 5; v++ {
			f := drawForm(a[0], v, []byte{0x42}, goodVps265, goodPps265)
			if (a[1] == "more" && f.moreSets) || (a[1] == "extra" && f.extra && !f.moreSets) {
				fmt.Println(v, f.startCode, f.params)
				n++
			}
		}
		os.Exit(0)
	}
	// C15_SDP_LINE="<kind> <hex> <form seed> <spec>": print the op line of that SDP case (for corpus files) and stop
	if a := strings.Fields(os.Getenv("C15_SDP_LINE")); len(a) == 4 {
		seed, _ := strconv.ParseUint(a[2], 10, 64)
		vps0, pps0 := goodVps265, goodPps265
		if a[0] == "h264" {
			vps0, pps0 = nil, sdpPps264
		}
		fmt.Println(sdpLine(a[0], Unhx(a[1]), vps0, pps0, seed, a[3]))
		os.Exit(0)
	}
	var cases, derived []caseT
	total := 0
	// cases are driven and evaluated in batches (the op lines of syntax trees are long); evaluating a decoder case may
	// derive an SDP case from it (derive), driven with the next batch
	derive = func(k caseT) { derived = append(derived, k) }
	flush := func() {
		for len(cases) > 0 && hung == nil {
			batch := cases
			cases = nil
			lines := make([]string, len(batch))
			for i, k := range batch {
				lines[i] = k.line
			}
			outs := c.Drive(lines)
			for i, k := range batch {
				if hung != nil {
					break
				}
				switch k.kind {
				case "bits":
					evalBits(c, k, outs[i])
				case "epb":
					evalEpb(c, k, outs[i])
				case "h264dec", "h264enc":
					evalH264(c, k, outs[i])
				case "ascdec", "ascenc":
					evalAsc(c, k, outs[i])
				case "hevcspsdec", "hevcspsenc":
					evalHevcSps(c, k, outs[i])
				case "hevcvpsdec", "hevcvpsenc":
					evalHevcVps(c, k, outs[i])
				case "sdp":
					evalSdp(c, k, outs[i])
				default:
					c.Find(Finding{Kind: "corr", Class: "unknown-op", Case: k.line, Impl: "?", Model: outs[i]})
				}
				if (total+i)%4001 == 0 {
					c.Sample(fmt.Sprintf("%.160s → %.200s", k.line, outs[i]))
				}
			}
			total += len(batch)
			cases, derived = derived, nil
		}
		cases = nil
	}
	add := func(k caseT) {
		if hung != nil {
			return
		}
		cases = append(cases, k)
		if len(cases) >= 6000 {
			flush()
		}
	}

	// corpus first
	for _, l := range c.CorpusLines() {
		f := strings.Fields(l)
		if len(f) >= 2 && f[0] == "c15" {
			add(caseT{line: l, kind: f[1], wf: true, class: "corpus"})
		}
	}
	c.Res.Rule = "case = one driver op line: a reader script over a byte buffer; a byte string for emulation-prevention removal; a byte string fed to a decoder " +
		"(samples, every truncation, mutations, random); or a generated syntax tree (every optional branch drawn on and off, Exp-Golomb values of every width, signed values) " +
		"encoded by the specification's encoder; or such a parameter set inside a generated SDP (fmtp parameters of the payload format's RFC in any order, start-code prefixes, one or two media sections) for ParseMetadata/NewStream and the depacketizer. Distinct by the op line; non-trivial when the decoder got past its header checks or the script has ≥ 2 ops"
	genBits(c, add)
	genEpb(c, add)
	genH264(c, add)
	genAsc(c, add)
	genHevc(c, add)
	genHevcTrees(c, add)
	flush()
}

// derive queues a case derived from the evaluation of another one (set by run)
var derive func(caseT)

func trunc(s string, n int) string {
	if len(s) > n {
		return s[:n] + "…"
	}
	return s
}
