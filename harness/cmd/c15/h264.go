package main

import (
	"encoding/base64"
	"fmt"
	"math"
	"strconv"
	"strings"

	. "verifharness/hlib"

	"github.com/cnotch/ipchub/av/codec"
	"github.com/cnotch/ipchub/av/codec/h264"
)

// ---- Go side: decode with the real code and dump every field (format of Drv/C15.lean dumpSps) ----

func nats(v ...uint64) string {
	s := make([]string, len(v))
	for i, x := range v {
		s[i] = strconv.FormatUint(x, 10)
	}
	return strings.Join(s, ",")
}

func trimZerosI8(a []int8) string {
	n := len(a)
	for n > 0 && a[n-1] == 0 {
		n--
	}
	s := make([]string, n)
	for i := 0; i < n; i++ {
		s[i] = strconv.Itoa(int(a[i]))
	}
	return "[" + strings.Join(s, ".") + "]"
}

func dumpHrd264(h *h264.RawHRD) string {
	var es []string
	for i := 0; i <= int(h.CpbCntMinus1) && i < len(h.BitRateValueMinus1); i++ {
		es = append(es, fmt.Sprintf("%d/%d/%d", h.BitRateValueMinus1[i], h.CpbSizeValueMinus1[i], h.CbrFlag[i]))
	}
	return nats(uint64(h.CpbCntMinus1), uint64(h.BitRateScale), uint64(h.CpbSizeScale)) + ",[" + strings.Join(es, ".") + "]," +
		nats(uint64(h.InitialCpbRemovalDelayLengthMinus1), uint64(h.CpbRemovalDelayLengthMinus1), uint64(h.DpbOutputDelayLengthMinus1), uint64(h.TimeOffsetLength))
}

func dumpSps264(s *h264.RawSPS, hrdNal, hrdVcl bool) string {
	u := func(x uint8) uint64 { return uint64(x) }
	h := s.NalUnitHeader
	var b strings.Builder
	b.WriteString("H=" + nats(u(h.ForbiddenZeroBit), u(h.NalRefIdc), u(h.NalUnitType), u(s.ProfileIdc), u(s.ConstraintSet0Flag), u(s.ConstraintSet1Flag),
		u(s.ConstraintSet2Flag), u(s.ConstraintSet3Flag), u(s.ConstraintSet4Flag), u(s.ConstraintSet5Flag), u(s.ReservedZero2Bits), u(s.LevelIdc), u(s.SeqParameterSetID)))
	b.WriteString(";C=" + nats(u(s.ChromaFormatIdc), u(s.SeparateColourPlaneFlag), u(s.BitDepthLumaMinus8), u(s.BitDepthChromaMinus8),
		u(s.QpprimeYZeroTransformBypassFlag), u(s.SeqScalingMatrixPresentFlag)))
	nl := 0
	if s.SeqScalingMatrixPresentFlag != 0 {
		nl = 8
		if s.ChromaFormatIdc == 3 {
			nl = 12
		}
	}
	var fl, ls []string
	for i := 0; i < nl; i++ {
		fl = append(fl, strconv.Itoa(int(s.SeqScalingListPresentFlag[i])))
		switch {
		case s.SeqScalingListPresentFlag[i] == 0:
			ls = append(ls, "[]")
		case i < 6:
			ls = append(ls, trimZerosI8(s.ScalingList4x4[i][:]))
		default:
			ls = append(ls, trimZerosI8(s.ScalingList8x8[i-6][:]))
		}
	}
	b.WriteString(",[" + strings.Join(fl, ".") + "]," + strings.Join(ls, ""))
	var offs []string
	for i := 0; i < int(s.NumRefFramesInPicOrderCntCycle); i++ {
		offs = append(offs, strconv.Itoa(int(s.OffsetForRefFrame[i])))
	}
	b.WriteString(";P=" + nats(u(s.Log2MaxFrameNumMinus4), u(s.PicOrderCntType), u(s.Log2MaxPicOrderCntLsbMinus4), u(s.DeltaPicOrderAlwaysZeroFlag)) +
		fmt.Sprintf(",%d,%d,%d,[%s]", s.OffsetForNonRefPic, s.OffsetForTopToBottomField, s.NumRefFramesInPicOrderCntCycle, strings.Join(offs, ".")))
	b.WriteString(";F=" + nats(u(s.MaxNumRefFrames), u(s.GapsInFrameNumAllowedFlag), uint64(s.PicWidthInMbsMinus1), uint64(s.PicHeightInMapUnitsMinus1), u(s.FrameMbsOnlyFlag),
		u(s.MbAdaptiveFrameFieldFlag), u(s.Direct8x8InferenceFlag), u(s.FrameCroppingFlag), uint64(s.FrameCropLeftOffset), uint64(s.FrameCropRightOffset),
		uint64(s.FrameCropTopOffset), uint64(s.FrameCropBottomOffset)))
	v := &s.Vui
	b.WriteString(";V=" + nats(u(s.VuiParametersPresentFlag), u(v.AspectRatioInfoPresentFlag), u(v.AspectRatioIdc), uint64(v.SarWidth), uint64(v.SarHeight), u(v.OverscanInfoPresentFlag),
		u(v.OverscanAppropriateFlag), u(v.VideoSignalTypePresentFlag), u(v.VideoFormat), u(v.VideoFullRangeFlag), u(v.ColourDescriptionPresentFlag),
		u(v.ColourPrimaries), u(v.TransferCharacteristics), u(v.MatrixCoefficients), u(v.ChromaLocInfoPresentFlag), u(v.ChromaSampleLocTypeTopField),
		u(v.ChromaSampleLocTypeBottomField), u(v.TimingInfoPresentFlag), uint64(v.NumUnitsInTick), uint64(v.TimeScale), u(v.FixedFrameRateFlag),
		u(v.NalHrdParametersPresentFlag), u(v.VclHrdParametersPresentFlag), u(v.LowDelayHrdFlag), u(v.PicStructPresentFlag), u(v.BitstreamRestrictionFlag),
		u(v.MotionVectorsOverPicBoundariesFlag), u(v.MaxBytesPerPicDenom), u(v.MaxBitsPerMbDenom), u(v.Log2MaxMvLengthHorizontal),
		u(v.Log2MaxMvLengthVertical), u(v.MaxNumReorderFrames), u(v.MaxDecFrameBuffering)))
	hd := func(present uint8, h *h264.RawHRD) string {
		if present != 1 {
			return "0,0,0,[],0,0,0,0"
		}
		return dumpHrd264(h)
	}
	b.WriteString(";N=" + hd(v.NalHrdParametersPresentFlag, &v.NalHrdParameters) + ";L=" + hd(v.VclHrdParametersPresentFlag, &v.VclHrdParameters))
	return b.String()
}

func errKind(err error) string {
	m := err.Error()
	switch {
	case strings.Contains(m, "decode panic"):
		return "panic"
	case strings.Contains(m, "The data is not enough"):
		return "e1"
	case strings.Contains(m, "not supported"):
		return "e2"
	case strings.Contains(m, "not is sps NAL UNIT"), strings.Contains(m, "not is vps NAL UNIT"):
		return "e3"
	case strings.Contains(m, "not divisible by MinCbSizeY"):
		return "e4"
	case strings.Contains(m, "vps_temporal_id_nesting_flag must be 1"):
		return "e5"
	case strings.Contains(m, "Invalid data found"):
		return "e6"
	}
	return "other:" + trunc(m, 40)
}

type implVideo struct {
	outcome string // "ok" | "err=<kind>" | "escaped-panic"
	dump    string
	w, h    int
	fixed   bool
	fps     float64
	ready   bool // MetadataIsReady
	mw, mh  int  // what MetadataIsReady stored
	mfixed  bool
	mfps    float64
}

func implH264(b []byte) (r implVideo) {
	defer func() {
		if e := recover(); e != nil {
			r.outcome = "escaped-panic"
		}
	}()
	var s h264.RawSPS
	if err := s.Decode(append([]byte{}, b...)); err != nil {
		r.outcome = "err=" + errKind(err)
	} else {
		r.outcome = "ok"
		r.dump = dumpSps264(&s, true, true)
		r.w, r.h, r.fixed, r.fps = s.Width(), s.Height(), s.IsFixedFrameRate(), s.FrameRate()
	}
	vm := codec.VideoMeta{Codec: "H264", Sps: append([]byte{}, b...), Pps: []byte{0x68, 0xce, 0x38, 0x80}}
	r.ready = h264.MetadataIsReady(&vm)
	r.mw, r.mh, r.mfixed, r.mfps = vm.Width, vm.Height, vm.FixedFrameRate, vm.FrameRate
	// guards of MetadataIsReady: no PPS / no SPS → not ready; Width already known → ready without decoding
	noPps := codec.VideoMeta{Codec: "H264", Sps: append([]byte{}, b...)}
	noSps := codec.VideoMeta{Codec: "H264", Pps: []byte{0x68}}
	known := codec.VideoMeta{Codec: "H264", Sps: append([]byte{}, b...), Pps: []byte{0x68}, Width: 7, Height: 9}
	if h264.MetadataIsReady(&noPps) || h264.MetadataIsReady(&noSps) || noPps.Width != 0 ||
		(len(b) > 0 && (!h264.MetadataIsReady(&known) || known.Width != 7 || known.Height != 9)) {
		r.outcome = "guards-broken"
	}
	return
}

// "n/d" or "0" → float64 exactly as a float64 division
func fpsOf(s string) float64 {
	if s == "0" || s == "" {
		return 0
	}
	p := strings.Split(s, "/")
	n, _ := strconv.ParseUint(p[0], 10, 64)
	d, _ := strconv.ParseUint(p[1], 10, 64)
	return float64(n) / float64(d)
}

func sameF(a, b float64) bool {
	if math.IsNaN(a) && math.IsNaN(b) {
		return true
	}
	return a == b
}

// dims string "w,h,fixed,fps" of the driver against the implementation
func dimsEq(d string, w, h int, fixed bool, fps float64) bool {
	p := strings.Split(d, ",")
	if len(p) != 4 {
		return false
	}
	return p[0] == strconv.Itoa(w) && p[1] == strconv.Itoa(h) && p[2] == B01(fixed) && sameF(fpsOf(p[3]), fps)
}

func evalH264(c *Ctx, k caseT, out string) {
	var data []byte
	m := KV(out)
	if k.kind == "h264enc" {
		data = Unhx(m["bytes"])
	} else {
		data = Unhx(strings.Fields(k.line)[2])
	}
	gr, ok := guard(c, k, "h264-sps-decode", func() interface{} { return implH264(data) })
	if !ok {
		return
	}
	r := gr.(implVideo)
	modelOutcome := "ok"
	if e, bad := m["err"]; bad {
		modelOutcome = "err=" + e
	}
	c.Eval(k.line, r.outcome == "ok" || strings.HasPrefix(r.outcome, "err=panic"))
	c.Count("h264:" + k.kind)
	c.Count("h264:outcome-" + r.outcome)
	implS := r.outcome
	if r.outcome == "ok" {
		implS = fmt.Sprintf("ok dims=%d,%d,%s,%v dump=%s", r.w, r.h, B01(r.fixed), r.fps, r.dump)
	}
	if r.outcome != modelOutcome {
		c.Find(Finding{Kind: "corr", Class: "h264-outcome", Case: k.line, Impl: implS, Model: out})
	} else if r.outcome == "ok" {
		if r.dump != m["dump"] {
			c.Find(Finding{Kind: "corr", Class: "h264-fields", Case: k.line, Impl: implS, Model: out, Detail: firstDiff(r.dump, m["dump"])})
		}
		if !dimsEq(m["dims"], r.w, r.h, r.fixed, r.fps) {
			c.Find(Finding{Kind: "corr", Class: "h264-dims", Case: k.line, Impl: implS, Model: out})
		}
	}
	// MetadataIsReady: ready iff decode ok, and stores exactly Width/Height/IsFixedFrameRate/FrameRate
	if r.outcome != "escaped-panic" {
		// … and nothing at all when Decode fails (Model/MetaReady.lean `ready`: the marker Width == 0 stays)
		if r.ready != (r.outcome == "ok") || (r.ready && !(r.mw == r.w && r.mh == r.h && r.mfixed == r.fixed && sameF(r.mfps, r.fps))) ||
			(!r.ready && (r.mw != 0 || r.mh != 0 || r.mfixed || r.mfps != 0)) {
			c.Find(Finding{Kind: "corr", Class: "h264-metadata-ready", Case: k.line, Impl: fmt.Sprintf("ready=%v %d,%d,%v,%v", r.ready, r.mw, r.mh, r.mfixed, r.mfps), Model: out})
		}
	}
	if r.outcome == "escaped-panic" {
		c.Find(Finding{Kind: "oracle", Class: "h264-panic-escapes", Case: k.line, Impl: r.outcome, Spec: "error or result", Detail: "a panic left RawSPS.Decode / MetadataIsReady"})
	}
	// the same parameter set through SDP (sdp.ParseMetadata, media.NewStream, depacketizer): a derived case
	if r.outcome != "escaped-panic" {
		sdpCaseOf(c, k, "h264", data, m["spec"], derive)
	}
	// oracle: a syntactically valid SPS (generated inside the standard's value ranges) must decode
	// and report the dimensions / frame rate / fixed flag the standard derives
	if k.kind == "h264enc" && k.wf {
		spec := m["spec"]
		if r.outcome != "ok" {
			c.Find(Finding{Kind: "oracle", Class: k.class, Case: k.line, Impl: implS, Spec: "ok dims=" + spec, Detail: "valid SPS rejected"})
		} else if !dimsEq(spec, r.w, r.h, r.fixed, r.fps) {
			c.Find(Finding{Kind: "oracle", Class: k.class, Case: k.line, Impl: fmt.Sprintf("%d,%d,%s,%v", r.w, r.h, B01(r.fixed), r.fps), Spec: spec,
				Detail: "width,height,fixed,fps reported for a valid SPS differ from the standard's"})
		}
		c.Count("h264:class-" + k.class)
	}
}

func firstDiff(a, b string) string {
	i := 0
	for i < len(a) && i < len(b) && a[i] == b[i] {
		i++
	}
	lo := i - 30
	if lo < 0 {
		lo = 0
	}
	return fmt.Sprintf("first difference at %d: impl …%s | model …%s", i, trunc(a[lo:], 60), trunc(b[lo:], 60))
}

// ---- generators ----

var h264Samples = []string{
	"Z01AH6sSB4CL9wgAAAMACAAAAwGUeMGMTA==",
	"Z2QAH6zZQFAFuhAAAAMAEAAAAwPI8YMZYA==",
	"Z2QAM6wspADwAQ+wFSAgICgAAB9IAAdTBO0LFok=",
	"AAAAAWdkAB6s0gLASaEAAAMAAQAAAwAehA==",
	"Z0IAKeKQFAe2AtwEBAaQeJEV", "Z0LAHtkDxWhAAAADAEAAAAwDxYuS", "Z2QAKKzZQHgCJ+XARAAAAwAEAAADAPA8YMZY",
}

type kvb struct{ sb strings.Builder }

func (k *kvb) n(name string, v uint64) { fmt.Fprintf(&k.sb, " %s=%d", name, v) }
func (k *kvb) i(name string, v int64)  { fmt.Fprintf(&k.sb, " %s=%d", name, v) }
func (k *kvb) b(name string, v bool)   { fmt.Fprintf(&k.sb, " %s=%s", name, B01(v)) }
func (k *kvb) s(name, v string)        { fmt.Fprintf(&k.sb, " %s=%s", name, v) }

// ue value for a field the Go struct keeps in `bits` bits: inside the range, or (wild) anywhere below 2^32−1
func ueField(r *Rng, limit uint64, wild bool) uint64 {
	if wild && r.Chance(30) {
		return widthVal(r, 32) % 0xffffffff
	}
	switch r.Intn(4) {
	case 0:
		return 0
	case 1:
		return limit
	}
	return r.U64() % (limit + 1)
}

func seVal(r *Rng, maxBits int) int64 {
	v := int64(widthVal(r, maxBits))
	if r.Bool() {
		v = -v
	}
	return v
}

// one scaling_list() of n coefficients: delta_scale values present while nextScale != 0
func genDeltas(r *Rng, n int) []int64 {
	var ds []int64
	last := int64(8)
	mode := r.Intn(4) // 0: default-matrix escape (first delta makes 0), 1: early stop, 2: full small, 3: full random
	for j := 0; j < n; j++ {
		var d int64
		stop := (mode == 0 && j == 0) || (mode == 1 && r.Chance(20))
		switch {
		case stop:
			d = (256 - last) % 256
			if d > 127 {
				d -= 256
			}
		case mode == 3:
			d = int64(r.Intn(256)) - 128
		default:
			d = int64(r.Intn(7)) - 3
		}
		ds = append(ds, d)
		next := (last + d + 256) % 256
		if next == 0 {
			break
		}
		last = next
	}
	return ds
}

func intsDot(v []int64) string {
	if len(v) == 0 {
		return "e"
	}
	s := make([]string, len(v))
	for i, x := range v {
		s[i] = strconv.FormatInt(x, 10)
	}
	return strings.Join(s, ".")
}

func genHrd264(r *Rng, k *kvb, p string, wild bool) {
	cnt := 1 + r.Intn(3)
	if r.Chance(10) {
		cnt = 32
	}
	if wild && r.Chance(20) {
		cnt = 33 + r.Intn(3)
	}
	var es []string
	for i := 0; i < cnt; i++ {
		es = append(es, fmt.Sprintf("%d/%d/%d", widthVal(r, 32)%0xffffffff, widthVal(r, 32)%0xffffffff, r.Intn(2)))
	}
	k.s(p+"cpb", strings.Join(es, "."))
	k.n(p+"brs", uint64(r.Intn(16)))
	k.n(p+"css", uint64(r.Intn(16)))
	k.n(p+"l1", uint64(r.Intn(32)))
	k.n(p+"l2", uint64(r.Intn(32)))
	k.n(p+"l3", uint64(r.Intn(32)))
	k.n(p+"l4", uint64(r.Intn(32)))
}

var h264Profiles = []uint64{66, 77, 88, 100, 110, 122, 244, 44, 83, 86, 118, 128, 138, 139, 134, 135}

// genSps264 draws a syntax tree; wild = some element outside the ranges of SpsWF (correspondence only)
func genSps264(r *Rng, wild bool) (line string, class string) {
	k := &kvb{}
	classes := []string{}
	k.n("ref", uint64(r.Intn(4)))
	profile := h264Profiles[r.Intn(len(h264Profiles))]
	if r.Chance(8) {
		profile = uint64(r.Intn(256))
	}
	k.n("profile", profile)
	for _, f := range []string{"c0", "c1", "c2", "c3", "c4", "c5"} {
		k.b(f, r.Bool())
	}
	k.n("level", uint64(r.Intn(256)))
	k.n("id", ueField(r, 31, wild))
	high := false
	for _, p := range []uint64{100, 110, 122, 244, 44, 83, 86, 118, 128, 138, 139, 134, 135} {
		if p == profile {
			high = true
		}
	}
	if profile == 128 || profile == 138 || profile == 139 || profile == 134 || profile == 135 {
		classes = append(classes, "h264-profile-chroma")
	}
	cf := uint64(r.Intn(4))
	sep := cf == 3 && r.Bool()
	if wild && r.Chance(10) {
		cf = 4 + uint64(r.Intn(3))
	}
	k.n("cf", cf)
	k.b("sep", sep)
	k.n("bdl", ueField(r, 6, wild))
	k.n("bdc", ueField(r, 6, wild))
	k.b("qp", r.Bool())
	sm := r.Chance(35)
	k.b("sm", sm)
	nl := 8
	if cf == 3 {
		nl = 12
	}
	var sl []string
	seUsed := false
	for i := 0; i < nl; i++ {
		if r.Chance(45) {
			sl = append(sl, "-")
			continue
		}
		sz := 16
		if i >= 6 {
			sz = 64
		}
		sl = append(sl, intsDot(genDeltas(r, sz)))
		seUsed = true
	}
	k.s("sl", strings.Join(sl, "|"))
	if high && sm && seUsed {
		classes = append(classes, "h264-se-value")
	}
	if !high {
		cf, sep = 1, false
	}
	k.n("fn", ueField(r, 12, wild))
	pt := uint64(r.Intn(3))
	if wild && r.Chance(10) {
		pt = 3 + uint64(r.Intn(4))
	}
	k.n("pt", pt)
	k.n("lsb", ueField(r, 12, wild))
	k.b("dz", r.Bool())
	k.i("o1", seVal(r, 31))
	k.i("o2", seVal(r, 31))
	ncyc := r.Intn(5)
	if r.Chance(8) {
		ncyc = 255
	}
	if wild && r.Chance(10) {
		ncyc = 256 + r.Intn(3)
	}
	offs := make([]int64, ncyc)
	for i := range offs {
		offs[i] = seVal(r, 31)
	}
	k.s("offs", intsDot(offs))
	if pt == 1 {
		classes = append(classes, "h264-se-value")
	}
	k.n("refs", ueField(r, 16, wild))
	k.b("gaps", r.Bool())
	wmb, hmb := uint64(r.Intn(1055)), uint64(r.Intn(1055))
	if r.Chance(10) {
		wmb, hmb = widthVal(r, 16), widthVal(r, 16)
	}
	if wild && r.Chance(20) {
		wmb = 65536 + uint64(r.Intn(5000))
	}
	k.n("w", wmb)
	k.n("h", hmb)
	fmo := r.Chance(60)
	k.b("fmo", fmo)
	k.b("mbaff", r.Bool())
	k.b("d8", r.Bool())
	crop := r.Chance(65)
	k.b("crop", crop)
	cat := cf
	if sep {
		cat = 0
	}
	cux, cuy := uint64(1), uint64(1)
	if cat == 1 || cat == 2 {
		cux = 2
	}
	if cat == 1 {
		cuy = 2
	}
	fh := uint64(1)
	if !fmo {
		fh = 2
		cuy *= 2
	}
	// offsets inside the frame (the standard's range), occasionally zero / maximal
	pick := func(total, unit uint64) (uint64, uint64) {
		maxSum := (total - 1) / unit
		if maxSum > 65535 {
			maxSum = 65535
		}
		a := r.U64() % (maxSum + 1)
		b := r.U64() % (maxSum - a + 1)
		switch r.Intn(5) {
		case 0:
			a = 0
		case 1:
			b = 0
		}
		return a, b
	}
	cl, cr := pick((wmb+1)*16, cux)
	ct, cb := pick(fh*(hmb+1)*16, cuy)
	if wild && r.Chance(15) {
		cl = 65536 + uint64(r.Intn(100))
	}
	k.n("cl", cl)
	k.n("cr", cr)
	k.n("ct", ct)
	k.n("cb", cb)
	if crop && (cl+cr > 0) && cux != 2 {
		classes = append(classes, "h264-crop-unit")
	}
	if crop && (ct+cb > 0) && cuy != 2 {
		classes = append(classes, "h264-crop-unit")
	}
	if (wmb+1)*16 > 65535 || fh*(hmb+1)*16 > 65535 || (crop && (cl*2 > 65535 || cr*2 > 65535 || ct*2 > 65535 || cb*2 > 65535)) {
		classes = append(classes, "h264-dims-uint16")
	}
	vui := r.Chance(70)
	k.b("vui", vui)
	k.b("ar", r.Bool())
	ar := uint64(r.Intn(256))
	if r.Chance(40) {
		ar = 255
	}
	k.n("aridc", ar)
	k.n("sarw", uint64(r.Intn(65536)))
	k.n("sarh", uint64(r.Intn(65536)))
	k.b("os", r.Bool())
	k.b("osa", r.Bool())
	k.b("vs", r.Bool())
	k.n("vfmt", uint64(r.Intn(8)))
	k.b("vfr", r.Bool())
	k.b("cd", r.Bool())
	k.n("cprim", uint64(r.Intn(256)))
	k.n("ctrans", uint64(r.Intn(256)))
	k.n("cmat", uint64(r.Intn(256)))
	k.b("loc", r.Bool())
	k.n("loct", ueField(r, 5, wild))
	k.n("locb", ueField(r, 5, wild))
	ti := r.Chance(70)
	k.b("ti", ti)
	nut := widthVal(r, 32)
	if r.Chance(50) {
		nut = []uint64{1, 1001, 1000, 2, 3600}[r.Intn(5)]
	}
	if r.Chance(4) {
		nut = 0
	}
	ts := widthVal(r, 32)
	if r.Chance(50) {
		ts = []uint64{50, 60000, 30000, 25, 90000, 180000}[r.Intn(6)]
	}
	k.n("nut", nut)
	k.n("ts", ts)
	k.b("ffr", r.Bool())
	if vui && ti && nut >= 1<<31 {
		classes = append(classes, "h264-fps-overflow")
	}
	k.b("nal", r.Chance(40))
	genHrd264(r, k, "n.", wild)
	k.b("vcl", r.Chance(40))
	genHrd264(r, k, "v.", wild)
	k.b("low", r.Bool())
	k.b("ps", r.Bool())
	k.b("br", r.Bool())
	k.b("mv", r.Bool())
	k.n("r1", ueField(r, 16, wild))
	k.n("r2", ueField(r, 16, wild))
	k.n("r3", ueField(r, 16, wild))
	k.n("r4", ueField(r, 16, wild))
	k.n("r5", ueField(r, 16, wild))
	k.n("r6", ueField(r, 16, wild))
	class = "h264-other"
	// the most specific class first (stable, computed from the input only)
	for _, want := range []string{"h264-profile-chroma", "h264-se-value", "h264-crop-unit", "h264-dims-uint16", "h264-fps-overflow"} {
		for _, have := range classes {
			if have == want {
				return "c15 h264enc" + k.sb.String(), want
			}
		}
	}
	return "c15 h264enc" + k.sb.String(), class
}

func mutate(r *Rng, b []byte) []byte {
	o := append([]byte{}, b...)
	switch r.Intn(6) {
	case 0: // truncate
		if len(o) > 0 {
			o = o[:r.Intn(len(o))]
		}
	case 1: // bit flips
		for j := 1 + r.Intn(3); j > 0 && len(o) > 0; j-- {
			o[r.Intn(len(o))] ^= 1 << uint(r.Intn(8))
		}
	case 2: // byte overwrite
		if len(o) > 0 {
			o[r.Intn(len(o))] = byte(r.U64())
		}
	case 3: // insert zeros / 000003
		if len(o) > 1 {
			p := 1 + r.Intn(len(o)-1)
			ins := [][]byte{{0, 0, 3}, {0, 0}, {0, 0, 0, 1}, {0xff}}[r.Intn(4)]
			o = append(append(append([]byte{}, o[:p]...), ins...), o[p:]...)
		}
	case 4: // start code in front
		o = append([]byte{0, 0, 0, 1}[r.Intn(2):], o...)
	case 5: // random tail
		o = append(o, r.Bytes(r.Intn(6))...)
	}
	return o
}

func genH264(c *Ctx, add func(caseT)) {
	var samples [][]byte
	for _, s := range h264Samples {
		if b, err := base64.StdEncoding.DecodeString(s); err == nil {
			samples = append(samples, b)
			add(caseT{line: "c15 h264dec " + Hx(b), kind: "h264dec", class: "sample"})
			for i := 0; i <= len(b); i++ { // every truncation
				add(caseT{line: "c15 h264dec " + Hx(b[:i]), kind: "h264dec", class: "truncation"})
			}
		}
	}
	// all byte strings up to 2 bytes, and 3-byte strings with an SPS header
	for v := 0; v < 256; v++ {
		add(caseT{line: "c15 h264dec " + Hx([]byte{byte(v)}), kind: "h264dec", class: "short"})
	}
	n := c.Budget(3000, 30000)
	for i := 0; i < n; i++ {
		var b []byte
		switch c.Rng.Intn(3) {
		case 0:
			b = mutate(c.Rng, samples[c.Rng.Intn(len(samples))])
		case 1:
			b = append([]byte{0x67}, c.Rng.Bytes(c.Rng.Intn(64))...)
			if c.Rng.Chance(50) { // a high profile so that the scaling list branch is reached
				b = append([]byte{0x67, []byte{100, 110, 122, 244, 44, 83, 86, 118}[c.Rng.Intn(8)]}, c.Rng.Bytes(c.Rng.Intn(63))...)
			}
		case 2:
			b = c.Rng.Bytes(c.Rng.Intn(65))
		}
		add(caseT{line: "c15 h264dec " + Hx(b), kind: "h264dec", class: "malformed"})
	}
	m := c.Budget(6000, 40000)
	for i := 0; i < m; i++ {
		wild := c.Rng.Chance(12)
		line, class := genSps264(c.Rng, wild)
		add(caseT{line: line, kind: "h264enc", wf: !wild, class: class})
	}
}
