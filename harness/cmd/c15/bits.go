package main

import (
	"fmt"
	"strconv"
	"strings"

	. "verifharness/hlib"

	"github.com/cnotch/ipchub/utils"
	"github.com/cnotch/ipchub/utils/bits"
)

// ---- a plain bit writer (harness side, used to lay out reader scripts) ----

type bitw struct {
	b []byte
	n int
}

func (w *bitw) bit(v uint64) {
	if w.n%8 == 0 {
		w.b = append(w.b, 0)
	}
	if v&1 == 1 {
		w.b[w.n/8] |= 0x80 >> uint(w.n%8)
	}
	w.n++
}
func (w *bitw) u(n int, v uint64) {
	for i := n - 1; i >= 0; i-- {
		w.bit(v >> uint(i))
	}
}
func (w *bitw) ue(k uint64) {
	m := k + 1
	z := 0
	for (m >> uint(z+1)) != 0 {
		z++
	}
	w.u(z, 0)
	w.u(z+1, m)
}
func (w *bitw) se(v int64) {
	if v > 0 {
		w.ue(uint64(2*v - 1))
	} else {
		w.ue(uint64(-2 * v))
	}
}

// value with a random bit width ≤ maxBits (so that every Exp-Golomb length occurs)
func widthVal(r *Rng, maxBits int) uint64 {
	w := r.Intn(maxBits + 1)
	if w == 0 {
		return 0
	}
	v := r.U64()
	if w < 64 {
		v &= (1 << uint(w)) - 1
	}
	v |= 1 << uint(w-1)
	return v
}

func genBits(c *Ctx, add func(caseT)) {
	n := c.Budget(6000, 60000)
	for i := 0; i < n; i++ {
		var buf []byte
		var ops []string
		switch c.Rng.Intn(3) {
		case 0: // random bytes, random ops
			buf = c.Rng.Bytes(c.Rng.Intn(11))
			for j := c.Rng.Intn(10) + 1; j > 0; j-- {
				ops = append(ops, randOp(c.Rng))
			}
		case 1: // laid out: the script reads back what was written (plus noise)
			w := &bitw{}
			for j := c.Rng.Intn(8) + 1; j > 0; j-- {
				switch c.Rng.Intn(6) {
				case 0:
					w.bit(c.Rng.U64())
					ops = append(ops, "b")
				case 1:
					nb := c.Rng.Intn(65)
					mx := []int{8, 16, 32, 64}[c.Rng.Intn(4)]
					if nb > 0 && nb <= mx {
						w.u(nb, c.Rng.U64())
					}
					ops = append(ops, fmt.Sprintf("u%d.%d", nb, mx))
				case 2:
					w.ue(widthVal(c.Rng, 32) % 0xffffffff)
					ops = append(ops, "e")
				case 3:
					v := int64(widthVal(c.Rng, 31))
					if c.Rng.Bool() {
						v = -v
					}
					w.se(v)
					ops = append(ops, "g")
				case 4:
					k := c.Rng.Intn(40)
					w.u(k, c.Rng.U64())
					ops = append(ops, fmt.Sprintf("s%d", k))
				case 5:
					k := c.Rng.Intn(65)
					ops = append(ops, fmt.Sprintf("p%d", k), "l")
				}
			}
			if c.Rng.Chance(50) {
				w.u(c.Rng.Intn(9), c.Rng.U64())
			}
			buf = w.b
			if c.Rng.Chance(15) && len(buf) > 0 {
				buf = buf[:len(buf)-1] // truncated: the last op runs off the end
			}
		case 2: // long zero runs: the 32-zero limit of ReadUe
			w := &bitw{}
			lead := c.Rng.Intn(8)
			w.u(lead, c.Rng.U64())
			z := 28 + c.Rng.Intn(10)
			w.u(z, 0)
			w.u(1, 1)
			for j := 0; j < 5; j++ {
				w.u(8, c.Rng.U64())
			}
			buf = w.b
			ops = append(ops, fmt.Sprintf("s%d", lead))
			ops = append(ops, []string{"e", "g"}[c.Rng.Intn(2)], "l", "e")
		}
		add(caseT{line: "c15 bits " + Hx(buf) + " " + strings.Join(ops, " "), kind: "bits", wf: true, class: "bits-script"})
	}
	if c.Thorough() {
		// exhaustive: every 1- and 2-byte buffer with a single ReadUe / ReadSe
		for v := 0; v < 65536+256; v++ {
			var buf []byte
			if v < 256 {
				buf = []byte{byte(v)}
			} else {
				buf = []byte{byte((v - 256) >> 8), byte(v - 256)}
			}
			add(caseT{line: "c15 bits " + Hx(buf) + " e l", kind: "bits", wf: true, class: "bits-script"})
			add(caseT{line: "c15 bits " + Hx(buf) + " g l", kind: "bits", wf: true, class: "bits-script"})
		}
		c.Note("ReadUe and ReadSe on every 1- and 2-byte buffer enumerated completely")
	}
}

func randOp(r *Rng) string {
	switch r.Intn(9) {
	case 0:
		return "b"
	case 1, 2:
		return fmt.Sprintf("u%d.%d", r.Intn(70), []int{8, 16, 32, 64}[r.Intn(4)])
	case 3:
		return fmt.Sprintf("s%d", r.Intn(30))
	case 4:
		return fmt.Sprintf("p%d", r.Intn(66))
	case 5, 6:
		return "e"
	case 7:
		return "g"
	}
	return "l"
}

// run the script on the real reader
func implBits(buf []byte, ops []string) (out []string) {
	r := bits.NewReader(buf)
	defer func() {
		if e := recover(); e != nil {
			out = append(out, "panic")
		}
	}()
	for _, op := range ops {
		arg := op[1:]
		switch op[0] {
		case 'b':
			out = append(out, strconv.Itoa(int(r.ReadBit())))
		case 'u':
			p := strings.Split(arg, ".")
			n, _ := strconv.Atoi(p[0])
			mx, _ := strconv.Atoi(p[1])
			var v uint64
			switch mx {
			case 8:
				v = uint64(r.ReadUint8(n))
			case 16:
				v = uint64(r.ReadUint16(n))
			case 32:
				if n%2 == 0 {
					v = uint64(r.Read(n))
				} else {
					v = uint64(r.ReadUint32(n))
				}
			default:
				if n%2 == 0 {
					v = r.ReadUint64(n)
				} else {
					v = uint64(r.ReadInt(n))
				}
			}
			out = append(out, strconv.FormatUint(v, 10))
		case 's':
			n, _ := strconv.Atoi(arg)
			r.Skip(n)
			out = append(out, "_")
		case 'p':
			n, _ := strconv.Atoi(arg)
			out = append(out, strconv.FormatUint(r.Peek(n), 10))
		case 'e':
			out = append(out, strconv.FormatUint(uint64(r.ReadUe()), 10))
		case 'g':
			out = append(out, strconv.FormatInt(int64(r.ReadSe()), 10))
		case 'l':
			out = append(out, strconv.Itoa(r.BitsLeft()))
		default:
			out = append(out, "bad")
		}
	}
	return
}

// the specification of one ReadSe on a buffer laid out as a single se(v) code is checked in
// the oracle of evalBits: scripts produced by layout case 1 carry the written values
func evalBits(c *Ctx, k caseT, model string) {
	f := strings.Fields(k.line)
	buf := Unhx(f[2])
	ops := f[3:]
	gr, ok := guard(c, k, "bits-reader", func() interface{} { return implBits(buf, ops) })
	if !ok {
		return
	}
	impl := strings.Join(gr.([]string), ",")
	c.Eval(k.line, len(ops) >= 2)
	c.Count("bits:scripts")
	if strings.HasSuffix(impl, "panic") {
		c.Count("bits:panic-outcome")
	}
	for _, op := range ops {
		c.Count("bits:op-" + op[:1])
	}
	if impl != model {
		c.Find(Finding{Kind: "corr", Class: "bits-reader", Case: k.line, Impl: impl, Model: model})
	}
	// oracle: a buffer that is exactly one ue(v)/se(v) code (clause 9.1) must read back its value
	if len(ops) == 2 && (ops[0] == "e" || ops[0] == "g") && ops[1] == "l" {
		if want, ok := golombSpec(buf, ops[0] == "g"); ok {
			got := strings.Split(impl, ",")[0]
			if got != want {
				cl := "ue-value"
				if ops[0] == "g" {
					cl = "se-value"
				}
				c.Find(Finding{Kind: "oracle", Class: cl, Case: k.line, Impl: got, Spec: want, Detail: "Exp-Golomb code read back with a different value (H.264 9.1)"})
			}
		}
	}
}

// golombSpec decodes the Exp-Golomb code at the start of buf by the text of clause 9.1
// (leadingZeroBits, codeNum = 2^lz − 1 + read_bits(lz)); ok=false when the buffer is too short
// or the code is longer than 32+1+32 bits
func golombSpec(buf []byte, signed bool) (string, bool) {
	bit := func(i int) (int, bool) {
		if i/8 >= len(buf) {
			return 0, false
		}
		return int(buf[i/8]>>uint(7-i%8)) & 1, true
	}
	lz := 0
	for {
		b, ok := bit(lz)
		if !ok {
			return "", false
		}
		if b == 1 {
			break
		}
		lz++
		if lz > 31 {
			return "", false
		}
	}
	var suffix uint64
	for i := 0; i < lz; i++ {
		b, ok := bit(lz + 1 + i)
		if !ok {
			return "", false
		}
		suffix = suffix<<1 | uint64(b)
	}
	codeNum := (uint64(1) << uint(lz)) - 1 + suffix
	if !signed {
		return strconv.FormatUint(codeNum, 10), true
	}
	v := int64((codeNum + 1) / 2)
	if codeNum%2 == 0 {
		v = -v
	}
	return strconv.FormatInt(v, 10), true
}

// ---- emulation prevention ----

func genEpb(c *Ctx, add func(caseT)) {
	n := c.Budget(4000, 40000)
	for i := 0; i < n; i++ {
		l := c.Rng.Intn(14)
		b := make([]byte, l)
		for j := range b {
			switch c.Rng.Intn(10) {
			case 0, 1, 2, 3:
				b[j] = 0
			case 4, 5:
				b[j] = 3
			case 6:
				b[j] = 1
			case 7:
				b[j] = 2
			default:
				b[j] = byte(c.Rng.U64())
			}
		}
		add(caseT{line: "c15 epb " + Hx(b), kind: "epb", wf: true, class: "epb"})
	}
	if c.Thorough() {
		// exhaustive over {0,1,3,4}^≤7
		al := []byte{0, 1, 3, 4}
		var rec func(pre []byte, d int)
		rec = func(pre []byte, d int) {
			add(caseT{line: "c15 epb " + Hx(pre), kind: "epb", wf: true, class: "epb"})
			if d == 0 {
				return
			}
			for _, a := range al {
				rec(append(append([]byte{}, pre...), a), d-1)
			}
		}
		rec(nil, 7)
		c.Note("emulation-prevention removal on every string over {00,01,03,04} up to 7 bytes enumerated completely")
	}
}

func implEpb(b []byte) (res string) {
	defer func() {
		if e := recover(); e != nil {
			res = "panic"
		}
	}()
	in := append([]byte{}, b...)
	return Hx(utils.RemoveH264or5EmulationBytes(in))
}

func evalEpb(c *Ctx, k caseT, model string) {
	f := strings.Fields(k.line)
	b := Unhx(f[2])
	m := KV(model)
	ins := append([]byte{0x67}, Unhx(m["ins"])...)
	gr, ok := guard(c, k, "epb-remove", func() interface{} { return [2]string{implEpb(b), implEpb(ins)} })
	if !ok {
		return
	}
	impl, back := gr.([2]string)[0], gr.([2]string)[1]
	c.Eval(k.line, len(b) >= 3)
	c.Count("epb:cases")
	if strings.Contains(f[2], "000003") {
		c.Count("epb:has-000003")
	}
	if impl != m["model"] {
		c.Find(Finding{Kind: "corr", Class: "epb-remove", Case: k.line, Impl: impl, Model: m["model"]})
	}
	// oracle: removal inverts the standard's insertion (a NAL header byte 0x67 in front, as in a real unit)
	want := Hx(append([]byte{0x67}, b...))
	if back != want {
		c.Find(Finding{Kind: "oracle", Class: "epb-roundtrip", Case: k.line, Impl: back, Spec: want, Detail: "RemoveH264or5EmulationBytes(header ++ insertEpb(payload)) ≠ header ++ payload"})
	}
}
