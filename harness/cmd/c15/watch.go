package main

import (
	"fmt"
	"os"
	"strings"
	"time"

	. "verifharness/hlib"
)

// Every call into the implementation runs under a watchdog: the property says "without panicking,
// looping, or reading out of bounds", and a parser that loops must become a finding with the input as
// replay instead of a harness that hangs until ./check kills it.
//
// The calls are pure computations on at most a few hundred bytes (microseconds).  The verdict is NOT
// taken at the first expiry: after `watchFirst` the harness is doing nothing else (it is single-threaded),
// so the case is running alone; it is then given `watchLong` more.  Only a call that has still not
// returned after both — minutes for microseconds of work — is reported, as "still running" (a stable
// state), and the run ends there (the looping goroutine cannot be stopped and would eat a core per hang).
var (
	watchFirst = 30 * time.Second
	watchLong  = 300 * time.Second
)

// C15_WATCHDOG="<first>,<long>" (Go durations) shortens the budgets — for the self-test of the watchdog on a mutant that
// loops; never set by ./check
func init() {
	if p := strings.Split(os.Getenv("C15_WATCHDOG"), ","); len(p) == 2 {
		a, e1 := time.ParseDuration(p[0])
		b, e2 := time.ParseDuration(p[1])
		if e1 == nil && e2 == nil {
			watchFirst, watchLong = a, b
		}
	}
}

type hangT struct{ what string }

// the first confirmed hang ends the run: evaluation functions return early once this is set
var hung *hangT

// guard runs f on its own goroutine and returns its result; ok=false: f did not return (see above).
// f must not touch anything the caller reads when ok is false.
func guard(c *Ctx, k caseT, what string, f func() interface{}) (res interface{}, ok bool) {
	if hung != nil {
		return nil, false
	}
	ch := make(chan interface{}, 1)
	go func() { ch <- f() }()
	t := time.NewTimer(watchFirst)
	defer t.Stop()
	select {
	case res = <-ch:
		return res, true
	case <-t.C:
	}
	c.Count("watchdog:first-budget-expired")
	fmt.Fprintf(os.Stderr, "c15: %s has not returned after %v, waiting %v more: %.200s\n", what, watchFirst, watchLong, k.line)
	t2 := time.NewTimer(watchLong)
	defer t2.Stop()
	select {
	case res = <-ch:
		c.Count("watchdog:slow-but-returned")
		return res, true
	case <-t2.C:
	}
	hung = &hangT{what: what}
	c.Find(Finding{Kind: "oracle", Class: what + "-does-not-return", Case: k.line, Impl: fmt.Sprintf("still running after %v", watchFirst+watchLong),
		Spec: "an error or a result", Detail: "a call that takes microseconds on this input size did not return: the parser loops"})
	c.Note("run ended early: " + what + " did not return on one input (the looping goroutine cannot be stopped)")
	return nil, false
}
