package main

import (
	"encoding/base64"
	"encoding/hex"
	"fmt"
	"strings"

	. "verifharness/hlib"

	"github.com/cnotch/ipchub/av/codec"
	"github.com/cnotch/ipchub/av/format/sdp"
	"github.com/cnotch/ipchub/media"
)

// ---- sdp.ParseMetadata and media.NewStream with the parameter sets of a case ----

type sdpVariant struct {
	codecName string // rtpmap name as written
	startCode int    // 0 none, 3, 4: the base64 data carries a start code prefix
	spaced    bool   // blanks after ';'
	spropLast bool   // sprop parameter at the end of the fmtp line
}

func sc(n int) []byte {
	switch n {
	case 3:
		return []byte{0, 0, 1}
	case 4:
		return []byte{0, 0, 0, 1}
	}
	return nil
}

func b64(b []byte, v sdpVariant) string {
	return base64.StdEncoding.EncodeToString(append(sc(v.startCode), b...))
}

func buildSdp(kind string, ps []byte, v sdpVariant, audioCfg []byte, audioRate, audioCh int) string {
	sep := ";"
	if v.spaced {
		sep = "; "
	}
	var fmtp string
	switch kind {
	case "h264":
		sprop := "sprop-parameter-sets=" + b64(ps, v) + "," + b64([]byte{0x68, 0xce, 0x38, 0x80}, v)
		if v.spropLast {
			fmtp = "packetization-mode=1" + sep + "profile-level-id=64001F" + sep + sprop
		} else {
			fmtp = "packetization-mode=1" + sep + sprop + sep + "profile-level-id=64001F"
		}
	case "h265":
		vps := "sprop-vps=" + b64([]byte{0x40, 0x01, 0x0c, 0x01}, v)
		sps := "sprop-sps=" + b64(ps, v)
		pps := "sprop-pps=" + b64([]byte{0x44, 0x01, 0xc0, 0xf7}, v)
		parts := []string{vps, sps, pps}
		if v.spropLast {
			parts = []string{pps, sps, vps}
		}
		fmtp = strings.Join(parts, sep)
	}
	var b strings.Builder
	b.WriteString("v=0\r\no=- 0 0 IN IP4 127.0.0.1\r\ns=x\r\nc=IN IP4 127.0.0.1\r\nt=0 0\r\n")
	b.WriteString("m=video 0 RTP/AVP 96\r\nb=AS:2500\r\na=rtpmap:96 " + v.codecName + "/90000\r\na=fmtp:96 " + fmtp + "\r\na=control:streamid=0\r\n")
	if audioCfg != nil {
		b.WriteString(fmt.Sprintf("m=audio 0 RTP/AVP 97\r\nb=AS:160\r\na=rtpmap:97 MPEG4-GENERIC/%d/%d\r\n", audioRate, audioCh))
		b.WriteString("a=fmtp:97 profile-level-id=1;mode=AAC-hbr;sizelength=13;indexlength=3;indexdeltalength=3;" + strings.TrimSpace(sep[1:]) + "config=" + hex.EncodeToString(audioCfg) + "\r\na=control:streamid=1\r\n")
	}
	return b.String()
}

type sdpOut struct {
	outcome        string
	vcodec         string
	w, h           int
	fixed          bool
	fps            float64
	clock          int
	acodec         string
	arate, ach     int
	streamOK       bool
	streamW        int
	spsKept        bool
}

func stripStartCode(b []byte) []byte {
	if len(b) >= 4 && b[0] == 0 && b[1] == 0 && b[2] == 0 && b[3] == 1 {
		return b[4:]
	}
	if len(b) >= 3 && b[0] == 0 && b[1] == 0 && b[2] == 1 {
		return b[3:]
	}
	return b
}

func implSdp(raw string, ps []byte) (o sdpOut) {
	defer func() {
		if e := recover(); e != nil {
			o.outcome = "escaped-panic:" + trunc(fmt.Sprint(e), 60)
		}
	}()
	var vm codec.VideoMeta
	var am codec.AudioMeta
	if err := sdp.ParseMetadata(raw, &vm, &am); err != nil {
		o.outcome = "err"
		return
	}
	o.outcome = "ok"
	o.vcodec, o.w, o.h, o.fixed, o.fps, o.clock = vm.Codec, vm.Width, vm.Height, vm.FixedFrameRate, vm.FrameRate, vm.ClockRate
	o.acodec, o.arate, o.ach = am.Codec, am.SampleRate, am.Channels
	o.spsKept = string(vm.Sps) == string(ps)
	s := media.NewStream("/c15/probe", raw)
	if s != nil {
		o.streamOK = s.Video.Codec == vm.Codec && s.Path() != ""
		o.streamW = s.Video.Width
		s.Close()
	}
	return
}

// checkSdp: the parameter set `ps` of a decoder case, put into an SDP; `dims` is the model's
// "w,h,fixed,fps" when its decode succeeded ("" otherwise); wf: the set came from the specification's encoder
func checkSdp(c *Ctx, k caseT, kind string, ps []byte, dims string, specDims string) {
	if len(ps) == 0 {
		return
	}
	r := c.Rng
	names := map[string][]string{"h264": {"H264", "h264"}, "h265": {"H265", "h265", "HEVC", "hevc"}}[kind]
	v := sdpVariant{codecName: names[r.Intn(len(names))], startCode: []int{0, 0, 3, 4}[r.Intn(4)], spaced: r.Bool(), spropLast: r.Bool()}
	rate := []int{44100, 48000, 8000, 22050}[r.Intn(4)]
	ch := 1 + r.Intn(2)
	// a set that still starts with a start code after the removal done by ParseMetadata is decoded differently through
	// SDP (two removals) than directly (one): not comparable with the direct decode, skipped
	if once := stripStartCode(append(sc(v.startCode), ps...)); len(stripStartCode(once)) != len(once) || len(stripStartCode(ps)) != len(ps) && v.startCode != 0 {
		c.Count("sdp:skipped-double-startcode")
		return
	}
	raw := buildSdp(kind, ps, v, []byte{0x12, 0x10}, rate, ch)
	o := implSdp(raw, stripStartCode(append(sc(v.startCode), ps...)))
	c.Count("sdp:" + kind)
	c.Count(fmt.Sprintf("sdp:startcode-%d", v.startCode))
	wantCodec := map[string]string{"h264": "H264", "h265": "H265"}[kind]
	want := "0,0,0,0"
	if dims != "" {
		want = dims
	}
	got := fmt.Sprintf("%s codec=%s/%s clock=%d audio=%d/%d kept=%v stream=%v/%d", o.outcome, o.vcodec, o.acodec, o.clock, o.arate, o.ach, o.spsKept, o.streamOK, o.streamW)
	okMeta := o.outcome == "ok" && o.vcodec == wantCodec && o.acodec == "AAC" && o.clock == 90000 && o.arate == rate && o.ach == ch && o.spsKept && o.streamOK
	dimsOK := dimsEq(want, o.w, o.h, o.fixed, o.fps) && fmt.Sprint(o.streamW) == strings.Split(want, ",")[0]
	cs := k.line + "\n# sdp: " + strings.ReplaceAll(raw, "\r\n", "\\r\\n")
	if strings.HasPrefix(o.outcome, "escaped-panic") {
		c.Find(Finding{Kind: "oracle", Class: "sdp-panic-escapes", Case: cs, Impl: got, Spec: "a stream", Detail: "ParseMetadata/NewStream panicked on an SDP carrying this parameter set"})
		return
	}
	if !okMeta || !dimsOK {
		kindF, class := "corr", "sdp-"+kind
		if specDims != "" && k.wf {
			kindF, class = "oracle", "sdp-"+kind // a valid parameter set in a well-formed SDP must yield the standard's values
			want = specDims
		}
		c.Find(Finding{Kind: kindF, Class: class, Case: cs, Impl: fmt.Sprintf("%s dims=%d,%d,%v,%v", got, o.w, o.h, o.fixed, o.fps),
			Model: "ok codec=" + wantCodec + "/AAC dims=" + want, Spec: "ok codec=" + wantCodec + "/AAC dims=" + want,
			Detail: "stream metadata after sdp.ParseMetadata / media.NewStream"})
	}
}
