package main

import (
	"encoding/base64"
	"encoding/hex"
	"fmt"
	"strings"

	. "verifharness/hlib"

	"github.com/cnotch/ipchub/av/codec"
	"github.com/cnotch/ipchub/av/codec/h264"
	"github.com/cnotch/ipchub/av/format/rtp"
	"github.com/cnotch/ipchub/av/format/sdp"
	"github.com/cnotch/ipchub/media"
)

// a known-good H.264 parameter-set pair (the one of media/stream_test.go)
var goodSps, _ = base64.StdEncoding.DecodeString("Z2QAH6zZQFAFuhAAAAMAEAAAAwPI8YMZYA==")
var goodPps, _ = base64.StdEncoding.DecodeString("aO+8sA==")

type frameSink struct{ n int }

func (f *frameSink) WriteFrame(fr *codec.Frame) error { f.n++; return nil }

func rtpOf(seq uint16, ts uint32, nal []byte) *rtp.Packet {
	d := make([]byte, 12, 12+len(nal))
	d[0], d[1] = 0x80, 96
	d[2], d[3] = byte(seq>>8), byte(seq)
	d[4], d[5], d[6], d[7] = byte(ts>>24), byte(ts>>16), byte(ts>>8), byte(ts)
	d[11] = 1
	p := &rtp.Packet{Channel: rtp.ChannelVideo, Data: append(d, nal...)}
	if err := p.Header.Unmarshal(p.Data); err != nil {
		panic(err)
	}
	return p
}

// usableAfterBadSps: "SDP with such parameter sets still yields a usable stream".  The SDP's
// H.264 SPS was rejected by the parser; the sender then repeats VALID parameter sets in band
// (as every camera does) followed by an IDR.  The stream is usable when the depacketizer takes
// the valid sets: the metadata then shows the valid SPS's size and the IDR is handed on.
func usableAfterBadSps(raw string) (ok bool, got string) {
	defer func() {
		if e := recover(); e != nil {
			ok, got = false, "panic:"+trunc(fmt.Sprint(e), 60)
		}
	}()
	var vm codec.VideoMeta
	var am codec.AudioMeta
	if err := sdp.ParseMetadata(raw, &vm, &am); err != nil {
		return true, "sdp-rejected"
	}
	var want h264.RawSPS
	if err := want.Decode(goodSps); err != nil {
		return true, "good-sps-undecodable"
	}
	sink := &frameSink{}
	dp := rtp.NewH264Depacketizer(&vm, sink)
	idr := []byte{0x65, 0x88, 0x84, 0x00, 0x33, 0xff}
	for r := 0; r < 2; r++ {
		base := uint16(10 + 3*r)
		dp.Depacketize(rtpOf(base, 9000*uint32(r+1), goodSps))
		dp.Depacketize(rtpOf(base+1, 9000*uint32(r+1), goodPps))
		dp.Depacketize(rtpOf(base+2, 9000*uint32(r+1), idr))
	}
	got = fmt.Sprintf("w=%d h=%d frames=%d spsIsValid=%v", vm.Width, vm.Height, sink.n, string(vm.Sps) == string(goodSps))
	ok = vm.Width == want.Width() && vm.Height == want.Height() && sink.n >= 1 && string(vm.Sps) == string(goodSps)
	return
}

// ---- sdp.ParseMetadata and media.NewStream with the parameter sets of a case ----

type sdpVariant struct {
	codecName string // rtpmap name as written
	startCode int    // 0 none, 3, 4: the base64 data carries a start code prefix
	spaced    bool   // blanks after ';'
	spropLast bool   // sprop parameter at the end of the fmtp line
}

func sc(n int) []byte {
	switch n {
	case 3:
		return []byte{0, 0, 1}
	case 4:
		return []byte{0, 0, 0, 1}
	}
	return nil
}

func b64(b []byte, v sdpVariant) string {
	return base64.StdEncoding.EncodeToString(append(sc(v.startCode), b...))
}

func buildSdp(kind string, ps []byte, v sdpVariant, audioCfg []byte, audioRate, audioCh int) string {
	sep := ";"
	if v.spaced {
		sep = "; "
	}
	var fmtp string
	switch kind {
	case "h264":
		sprop := "sprop-parameter-sets=" + b64(ps, v) + "," + b64([]byte{0x68, 0xce, 0x38, 0x80}, v)
		if v.spropLast {
			fmtp = "packetization-mode=1" + sep + "profile-level-id=64001F" + sep + sprop
		} else {
			fmtp = "packetization-mode=1" + sep + sprop + sep + "profile-level-id=64001F"
		}
	case "h265":
		vps := "sprop-vps=" + b64([]byte{0x40, 0x01, 0x0c, 0x01}, v)
		sps := "sprop-sps=" + b64(ps, v)
		pps := "sprop-pps=" + b64([]byte{0x44, 0x01, 0xc0, 0xf7}, v)
		parts := []string{vps, sps, pps}
		if v.spropLast {
			parts = []string{pps, sps, vps}
		}
		fmtp = strings.Join(parts, sep)
	}
	var b strings.Builder
	b.WriteString("v=0\r\no=- 0 0 IN IP4 127.0.0.1\r\ns=x\r\nc=IN IP4 127.0.0.1\r\nt=0 0\r\n")
	b.WriteString("m=video 0 RTP/AVP 96\r\nb=AS:2500\r\na=rtpmap:96 " + v.codecName + "/90000\r\na=fmtp:96 " + fmtp + "\r\na=control:streamid=0\r\n")
	if audioCfg != nil {
		b.WriteString(fmt.Sprintf("m=audio 0 RTP/AVP 97\r\nb=AS:160\r\na=rtpmap:97 MPEG4-GENERIC/%d/%d\r\n", audioRate, audioCh))
		b.WriteString("a=fmtp:97 profile-level-id=1;mode=AAC-hbr;sizelength=13;indexlength=3;indexdeltalength=3;" + strings.TrimSpace(sep[1:]) + "config=" + hex.EncodeToString(audioCfg) + "\r\na=control:streamid=1\r\n")
	}
	return b.String()
}

type sdpOut struct {
	outcome    string
	vcodec     string
	w, h       int
	fixed      bool
	fps        float64
	clock      int
	acodec     string
	arate, ach int
	streamOK   bool
	streamW    int
	spsKept    bool
}

func stripStartCode(b []byte) []byte {
	if len(b) >= 4 && b[0] == 0 && b[1] == 0 && b[2] == 0 && b[3] == 1 {
		return b[4:]
	}
	if len(b) >= 3 && b[0] == 0 && b[1] == 0 && b[2] == 1 {
		return b[3:]
	}
	return b
}

func implSdp(raw string, ps []byte) (o sdpOut) {
	defer func() {
		if e := recover(); e != nil {
			o.outcome = "escaped-panic:" + trunc(fmt.Sprint(e), 60)
		}
	}()
	var vm codec.VideoMeta
	var am codec.AudioMeta
	if err := sdp.ParseMetadata(raw, &vm, &am); err != nil {
		o.outcome = "err"
		return
	}
	o.outcome = "ok"
	o.vcodec, o.w, o.h, o.fixed, o.fps, o.clock = vm.Codec, vm.Width, vm.Height, vm.FixedFrameRate, vm.FrameRate, vm.ClockRate
	o.acodec, o.arate, o.ach = am.Codec, am.SampleRate, am.Channels
	o.spsKept = string(vm.Sps) == string(ps)
	s := media.NewStream("/c15/probe", raw)
	if s != nil {
		o.streamOK = s.Video.Codec == vm.Codec && s.Path() != ""
		o.streamW = s.Video.Width
		s.Close()
	}
	return
}

// checkSdp: the parameter set `ps` of a decoder case, put into an SDP; `dims` is the model's
// "w,h,fixed,fps" when its decode succeeded ("" otherwise); wf: the set came from the specification's encoder
func checkSdp(c *Ctx, k caseT, kind string, ps []byte, dims string, specDims string) {
	if len(ps) == 0 {
		return
	}
	r := c.Rng
	names := map[string][]string{"h264": {"H264", "h264"}, "h265": {"H265", "h265", "HEVC", "hevc"}}[kind]
	v := sdpVariant{codecName: names[r.Intn(len(names))], startCode: []int{0, 0, 3, 4}[r.Intn(4)], spaced: r.Bool(), spropLast: r.Bool()}
	rate := []int{44100, 48000, 8000, 22050}[r.Intn(4)]
	ch := 1 + r.Intn(2)
	// a set that still starts with a start code after the removal done by ParseMetadata is decoded differently through
	// SDP (two removals) than directly (one): not comparable with the direct decode, skipped
	if once := stripStartCode(append(sc(v.startCode), ps...)); len(stripStartCode(once)) != len(once) || len(stripStartCode(ps)) != len(ps) && v.startCode != 0 {
		c.Count("sdp:skipped-double-startcode")
		return
	}
	raw := buildSdp(kind, ps, v, []byte{0x12, 0x10}, rate, ch)
	o := implSdp(raw, stripStartCode(append(sc(v.startCode), ps...)))
	c.Count("sdp:" + kind)
	c.Count(fmt.Sprintf("sdp:startcode-%d", v.startCode))
	wantCodec := map[string]string{"h264": "H264", "h265": "H265"}[kind]
	want := "0,0,0,0"
	if dims != "" {
		want = dims
	}
	got := fmt.Sprintf("%s codec=%s/%s clock=%d audio=%d/%d kept=%v stream=%v/%d", o.outcome, o.vcodec, o.acodec, o.clock, o.arate, o.ach, o.spsKept, o.streamOK, o.streamW)
	okMeta := o.outcome == "ok" && o.vcodec == wantCodec && o.acodec == "AAC" && o.clock == 90000 && o.arate == rate && o.ach == ch && o.spsKept && o.streamOK
	dimsOK := dimsEq(want, o.w, o.h, o.fixed, o.fps) && fmt.Sprint(o.streamW) == strings.Split(want, ",")[0]
	cs := k.line + "\n# sdp: " + strings.ReplaceAll(raw, "\r\n", "\\r\\n")
	if strings.HasPrefix(o.outcome, "escaped-panic") {
		c.Find(Finding{Kind: "oracle", Class: "sdp-panic-escapes", Case: cs, Impl: got, Spec: "a stream", Detail: "ParseMetadata/NewStream panicked on an SDP carrying this parameter set"})
		return
	}
	if kind == "h264" && dims == "" && o.outcome == "ok" {
		// the parser rejected this SPS: the stream must stay repairable by valid in-band sets
		c.Count("sdp:usable-after-rejected-sps-probe")
		if ok, how := usableAfterBadSps(raw); !ok {
			c.Find(Finding{Kind: "oracle", Class: "sdp-rejected-sps-makes-stream-unusable", Case: cs, Impl: how,
				Spec:   "valid in-band SPS/PPS are taken: metadata of the valid SPS, IDR handed on",
				Detail: "SDP carrying a parameter set the parser rejects, followed by valid in-band parameter sets and an IDR"})
		}
	}
	if !okMeta || !dimsOK {
		kindF, class := "corr", "sdp-"+kind
		if specDims != "" && k.wf {
			kindF, class = "oracle", "sdp-"+kind // a valid parameter set in a well-formed SDP must yield the standard's values
			want = specDims
		}
		c.Find(Finding{Kind: kindF, Class: class, Case: cs, Impl: fmt.Sprintf("%s dims=%d,%d,%v,%v", got, o.w, o.h, o.fixed, o.fps),
			Model: "ok codec=" + wantCodec + "/AAC dims=" + want, Spec: "ok codec=" + wantCodec + "/AAC dims=" + want,
			Detail: "stream metadata after sdp.ParseMetadata / media.NewStream"})
	}
}
