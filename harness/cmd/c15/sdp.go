package main

// SDP part of C15: "… reported for the stream equal the values defined by the respective standard …
// and SDP with such parameter sets still yields a usable stream".
//
// An SDP case is a first-class op line (replayable on its own):
//
//	c15 sdp <h264|h265|aac> <hex of the parameter set> v=<form seed> spec=<values of the standard | ->
//
// The driver answers with the model's decode of the parameter set (as for h264dec / hevcspsdec / ascdec); the
// harness builds the SDP text of form `v` around the set (payload format parameters of RFC 6184 / 7798 / 3640 in
// any order, further parameters of those RFCs around them, start-code prefixes, one or two media sections in
// either order), runs sdp.ParseMetadata and media.NewStream on it and then feeds the stream's depacketizer.

import (
	"encoding/base64"
	"encoding/hex"
	"fmt"
	"strconv"
	"strings"

	. "verifharness/hlib"

	"github.com/cnotch/ipchub/av/codec"
	"github.com/cnotch/ipchub/av/format/rtp"
	"github.com/cnotch/ipchub/av/format/sdp"
	"github.com/cnotch/ipchub/media"
)

// known-good parameter sets sent in band (H.264: the pair of media/stream_test.go; H.265: an x265 stream), with the
// size the standards derive for them (the Lean specification gives the same: see corpus/C15/sdp-good-sets.case)
var goodSps, _ = base64.StdEncoding.DecodeString("Z2QAH6zZQFAFuhAAAAMAEAAAAwPI8YMZYA==")
var goodPps, _ = base64.StdEncoding.DecodeString("aO+8sA==")
var goodVps265, _ = base64.StdEncoding.DecodeString("QAEMAf//AWAAAAMAkAAAAwAAAwBdlZgJ")
var goodSps265, _ = base64.StdEncoding.DecodeString("QgEBAWAAAAMAkAAAAwAAAwBdoAKAgC0WWVmkkyuAQAAA+kAAF3AC")
var goodPps265, _ = base64.StdEncoding.DecodeString("RAHBcrRiQA==")

const goodW, goodH = 1280, 720 // both

// the PPS that accompanies the case's SPS in an H.264 SDP
var sdpPps264 = []byte{0x68, 0xce, 0x38, 0x80}

// frameSink counts the coded slices handed on by a depacketizer
type frameSink struct {
	kind string
	idr  int
}

func (f *frameSink) WriteFrame(fr *codec.Frame) error {
	if len(fr.Payload) == 0 {
		return nil
	}
	if (f.kind == "h264" && fr.Payload[0]&0x1f == 5) || (f.kind == "h265" && (fr.Payload[0]>>1)&0x3f == 19) {
		f.idr++
	}
	return nil
}

func rtpOf(seq uint16, ts uint32, nal []byte) *rtp.Packet {
	d := make([]byte, 12, 12+len(nal))
	d[0], d[1] = 0x80, 96
	d[2], d[3] = byte(seq>>8), byte(seq)
	d[4], d[5], d[6], d[7] = byte(ts>>24), byte(ts>>16), byte(ts>>8), byte(ts)
	d[11] = 1
	p := &rtp.Packet{Channel: rtp.ChannelVideo, Data: append(d, nal...)}
	if err := p.Header.Unmarshal(p.Data); err != nil {
		panic(err)
	}
	return p
}

// ---- the form of the SDP around the parameter set ----

type sdpForm struct {
	kind       string
	pt         int
	codecName  string
	startCode  int    // 0 none, 3, 4: the base64 data carries a start code prefix
	sep        string // between fmtp parameters
	params     []string
	extra      bool // further parameters of the RFC (not parameter sets) are present
	moreSets   bool // H.264: a third parameter set after "sps,pps"
	audio      bool // an AAC section accompanies the video section
	audioFirst bool
	rate, ch   int    // rtpmap of the audio section
	cfg        []byte // AudioSpecificConfig of the audio section
	upperHex   bool
}

func sc(n int) []byte {
	switch n {
	case 3:
		return []byte{0, 0, 1}
	case 4:
		return []byte{0, 0, 0, 1}
	}
	return nil
}

func stripStartCode(b []byte) []byte {
	if len(b) >= 4 && b[0] == 0 && b[1] == 0 && b[2] == 0 && b[3] == 1 {
		return b[4:]
	}
	if len(b) >= 3 && b[0] == 0 && b[1] == 0 && b[2] == 1 {
		return b[3:]
	}
	return b
}

// formRng: the generator of the SDP forms, private to this file so that the form of a stored case line (`v=<seed>`) does
// not change when the shared generator does (splitmix64 over the scrambled seed)
type formRng struct{ s uint64 }

func newFormRng(seed uint64) *formRng {
	r := &formRng{s: seed ^ 0x5DEECE66D}
	r.s = r.u64() ^ seed<<32
	return r
}
func (r *formRng) u64() uint64 {
	r.s += 0x9E3779B97F4A7C15
	z := r.s
	z = (z ^ (z >> 30)) * 0xBF58476D1CE4E5B9
	z = (z ^ (z >> 27)) * 0x94D049BB133111EB
	return z ^ (z >> 31)
}
func (r *formRng) Intn(n int) int    { return int(r.u64() % uint64(n)) }
func (r *formRng) Bool() bool        { return r.u64()&1 == 1 }
func (r *formRng) Chance(p int) bool { return r.Intn(100) < p }

func shuffle(r *formRng, s []string) {
	for i := len(s) - 1; i > 0; i-- {
		j := r.Intn(i + 1)
		s[i], s[j] = s[j], s[i]
	}
}

// drawForm: everything about the SDP text except the parameter set itself, from the form seed
func drawForm(kind string, seed uint64, ps, vps0, pps0 []byte) sdpForm {
	r := newFormRng(seed)
	f := sdpForm{kind: kind, pt: 96 + r.Intn(32), startCode: []int{0, 0, 3, 4}[r.Intn(4)], sep: []string{";", "; "}[r.Intn(2)]}
	b64 := func(b []byte) string { return base64.StdEncoding.EncodeToString(append(sc(f.startCode), b...)) }
	switch kind {
	case "h264":
		f.codecName = []string{"H264", "h264"}[r.Intn(2)]
		sets := b64(ps) + "," + b64(pps0)
		if r.Chance(15) { // RFC 6184 8.1: any number of parameter sets
			f.moreSets = true
			sets += "," + b64([]byte{0x68, 0xee, 0x3c, 0x80})
		}
		f.params = []string{"packetization-mode=1", "profile-level-id=64001F", "sprop-parameter-sets=" + sets}
		if r.Chance(40) {
			f.extra = true
			more := []string{"level-asymmetry-allowed=1", "max-mbps=245760", "max-fs=8192", "sprop-interleaving-depth=0", "sprop-deint-buf-req=0", "sprop-max-don-diff=0"}
			for n := 1 + r.Intn(2); n > 0; n-- {
				f.params = append(f.params, more[r.Intn(len(more))])
			}
		}
		shuffle(r, f.params)
	case "h265":
		f.codecName = []string{"H265", "h265", "HEVC", "hevc"}[r.Intn(4)]
		f.params = []string{"sprop-vps=" + b64(vps0), "sprop-sps=" + b64(ps), "sprop-pps=" + b64(pps0)}
		shuffle(r, f.params)
		if r.Chance(40) { // RFC 7798 7.1: parameters that do not carry parameter sets, before and/or after
			f.extra = true
			more := []string{"profile-space=0", "profile-id=1", "tier-flag=0", "level-id=93", "interop-constraints=B00000000000", "tx-mode=SRST", "sprop-max-don-diff=0", "sprop-depack-buf-nalus=0"}
			for n := 1 + r.Intn(3); n > 0; n-- {
				p := more[r.Intn(len(more))]
				if r.Bool() {
					f.params = append([]string{p}, f.params...)
				} else {
					f.params = append(f.params, p)
				}
			}
		}
	case "aac":
		f.codecName = "MPEG4-GENERIC"
		f.cfg = ps
		f.audio = true
		f.upperHex = r.Bool()
	}
	if kind != "aac" {
		f.audio = r.Chance(60)
		f.cfg = [][]byte{{0x12, 0x10}, {0x11, 0x90}, {0x2b, 0x8a, 0x08, 0x00}}[r.Intn(3)]
	}
	f.audioFirst = r.Bool()
	f.rate = []int{44100, 48000, 8000, 22050, 96000, 12000}[r.Intn(6)]
	f.ch = 1 + r.Intn(2)
	return f
}

func (f *sdpForm) text(video bool) string {
	var b strings.Builder
	b.WriteString("v=0\r\no=- 0 0 IN IP4 127.0.0.1\r\ns=x\r\nc=IN IP4 127.0.0.1\r\nt=0 0\r\n")
	vs := fmt.Sprintf("m=video 0 RTP/AVP %d\r\nb=AS:2500\r\na=rtpmap:%d %s/90000\r\na=fmtp:%d %s\r\na=control:streamid=0\r\n", f.pt, f.pt, f.codecName, f.pt, strings.Join(f.params, f.sep))
	apt := 97
	if apt == f.pt {
		apt = 98
	}
	cfg := hex.EncodeToString(f.cfg)
	if f.upperHex {
		cfg = strings.ToUpper(cfg)
	}
	ap := []string{"profile-level-id=1", "mode=AAC-hbr", "sizelength=13", "indexlength=3", "indexdeltalength=3", "config=" + cfg}
	if f.upperHex { // config need not be the last parameter
		ap[5], ap[1] = ap[1], ap[5]
	}
	as := fmt.Sprintf("m=audio 0 RTP/AVP %d\r\nb=AS:160\r\na=rtpmap:%d MPEG4-GENERIC/%d/%d\r\na=fmtp:%d %s\r\na=control:streamid=1\r\n", apt, apt, f.rate, f.ch, apt, strings.Join(ap, f.sep))
	switch {
	case !video:
		b.WriteString(as)
	case !f.audio:
		b.WriteString(vs)
	case f.audioFirst:
		b.WriteString(as + vs)
	default:
		b.WriteString(vs + as)
	}
	return b.String()
}

// ---- the implementation on one SDP ----

type sdpOut struct {
	outcome      string
	vcodec       string
	w, h         int
	fixed        bool
	fps          float64
	clock        int
	acodec       string
	arate, ach   int
	cfgKept      bool
	spsKept      bool
	ppsSet       bool
	streamOK     bool
	streamW      int
	usable       string // "" = usable; otherwise what is wrong after the in-band parameter sets and an IDR
	usableDetail string
	idr          int    // state after the in-band sets and the IDR
	which        string // own | inband | other: whose SPS is stored
	uw, uh       int
	ufixed       bool
	ufps         float64
}

func implSdp(kind, raw string, ps, cfg []byte, psDims string) (o sdpOut) {
	defer func() {
		if e := recover(); e != nil {
			o.outcome = "escaped-panic:" + trunc(fmt.Sprint(e), 60)
		}
	}()
	var vm codec.VideoMeta
	var am codec.AudioMeta
	if err := sdp.ParseMetadata(raw, &vm, &am); err != nil {
		o.outcome = "err"
		return
	}
	o.outcome = "ok"
	o.vcodec, o.w, o.h, o.fixed, o.fps, o.clock = vm.Codec, vm.Width, vm.Height, vm.FixedFrameRate, vm.FrameRate, vm.ClockRate
	o.acodec, o.arate, o.ach = am.Codec, am.SampleRate, am.Channels
	o.spsKept = string(vm.Sps) == string(ps)
	o.ppsSet = len(vm.Pps) > 0
	o.cfgKept = string(am.Sps) == string(cfg)
	s := media.NewStream("/c15/probe", raw)
	if s != nil {
		o.streamOK = s.Video.Codec == vm.Codec && s.Audio.Codec == am.Codec && s.Path() != "" && s.Audio.SampleRate == am.SampleRate && s.Audio.Channels == am.Channels
		o.streamW = s.Video.Width
		s.Close()
	}
	if kind == "aac" {
		return
	}
	// "still yields a usable stream": the sender repeats valid parameter sets in band (as every camera does) followed by an
	// IDR.  Usable = the IDR is handed on and the metadata is that of a parameter set the parser accepts: the SDP's
	// own set when it is valid and was kept, otherwise the valid in-band one.
	sink := &frameSink{kind: kind}
	var dp rtp.Depacketizer
	var sets [][]byte
	if kind == "h264" {
		dp = rtp.NewH264Depacketizer(&vm, sink)
		sets = [][]byte{goodSps, goodPps, {0x65, 0x88, 0x84, 0x00, 0x33, 0xff}}
	} else {
		dp = rtp.NewH265Depacketizer(&vm, sink)
		sets = [][]byte{goodVps265, goodSps265, goodPps265, {0x26, 0x01, 0xaf, 0x08, 0x42, 0x7f}}
	}
	seq := uint16(10)
	for _, n := range sets {
		dp.Depacketize(rtpOf(seq, 9000, append([]byte{}, n...)))
		seq++
	}
	good := sets[0]
	if kind == "h265" {
		good = sets[1]
	}
	which := "other"
	switch {
	case string(vm.Sps) == string(ps):
		which = "own"
	case string(vm.Sps) == string(good):
		which = "inband"
	}
	o.idr, o.which, o.uw, o.uh, o.ufixed, o.ufps = sink.idr, which, vm.Width, vm.Height, vm.FixedFrameRate, vm.FrameRate
	byGood := string(vm.Sps) == string(good) && vm.Width == goodW && vm.Height == goodH
	byOwn := psDims != "" && string(vm.Sps) == string(ps) && dimsEq(psDims, vm.Width, vm.Height, vm.FixedFrameRate, vm.FrameRate)
	o.usableDetail = fmt.Sprintf("after in-band sets: w=%d h=%d idr-frames=%d sps-is=%s", vm.Width, vm.Height, sink.idr, which)
	switch {
	case sink.idr < 1:
		o.usable = "no-idr-handed-on"
	case !byGood && !byOwn:
		o.usable = "metadata-of-no-accepted-parameter-set"
	}
	return
}

// evalSdp: one "c15 sdp" case against the model's decode of its parameter set
func evalSdp(c *Ctx, k caseT, out string) {
	f := strings.Fields(k.line)
	if len(f) < 5 {
		c.Find(Finding{Kind: "corr", Class: "unknown-op", Case: k.line, Impl: "?", Model: out})
		return
	}
	kind, ps := f[2], Unhx(f[3])
	kv := KV(strings.Join(f[4:], " "))
	seed, _ := strconv.ParseUint(kv["v"], 10, 64)
	spec := kv["spec"]
	if spec == "-" {
		spec = ""
	}
	m := KV(out)
	_, rejected := m["err"]
	// the other sets of the SDP are those of the line (`sd=<vps|->.<pps>`)
	var vps0, pps0 []byte
	if sd := strings.Split(kv["sd"], "."); len(sd) == 2 {
		vps0, pps0 = Unhx(sd[0]), Unhx(sd[1])
	}
	form := drawForm(kind, seed, ps, vps0, pps0)
	own := stripStartCode(append(sc(form.startCode), ps...)) // what one removal of the start code leaves
	if kind != "aac" && (len(stripStartCode(own)) != len(own) || (len(stripStartCode(ps)) != len(ps) && form.startCode != 0)) {
		// a set that still starts with a start code after the removal done by ParseMetadata is decoded differently through
		// SDP (two removals) than directly (one): not comparable with the direct decode
		c.Count("sdp:skipped-double-startcode")
		return
	}
	dims := "" // the model's values of the set, "" when it rejects the set
	if !rejected {
		dims = m["dims"]
	}
	if kind == "aac" {
		// RFC 3640 4.1: the rtpmap announces the sampling rate and the channels of the stream — of THIS configuration when
		// the case carries the standard's values
		if p := strings.Split(spec, ","); len(p) == 2 {
			ch, _ := strconv.Atoi(p[0])
			rate, _ := strconv.Atoi(p[1])
			if ch >= 1 && rate >= 1 {
				form.ch, form.rate = ch, rate
			}
		}
	}
	raw := form.text(kind != "aac")
	cfg := form.cfg
	if kind != "aac" && !form.audio {
		cfg = nil
	}
	gr, ok := guard(c, k, "sdp-parse", func() interface{} { return implSdp(kind, raw, own, cfg, dims) })
	if !ok {
		return
	}
	o := gr.(sdpOut)
	c.Eval(k.line, o.outcome == "ok")
	c.Count("sdp:" + kind)
	formClass := "sdp-" + kind
	switch {
	case form.moreSets:
		formClass += "-more-than-two-sets"
	case form.extra:
		formClass += "-with-other-fmtp-parameters"
	}
	c.Count("sdp:form-" + formClass)
	if rejected {
		c.Count("sdp:" + kind + "-set-rejected-by-the-parser")
	}
	cs := k.line + "\n# sdp: " + strings.ReplaceAll(raw, "\r\n", "\\r\\n")
	if strings.HasPrefix(o.outcome, "escaped-panic") {
		c.Find(Finding{Kind: "oracle", Class: "sdp-panic-escapes", Case: cs, Impl: o.outcome, Spec: "a stream", Detail: "ParseMetadata/NewStream/depacketizer panicked on an SDP carrying this parameter set"})
		return
	}
	got := fmt.Sprintf("%s codec=%s/%s clock=%d audio=%d/%d cfg-kept=%v sps-kept=%v pps-set=%v stream=%v/%d dims=%d,%d,%v,%v", o.outcome, o.vcodec, o.acodec, o.clock, o.arate, o.ach,
		o.cfgKept, o.spsKept, o.ppsSet, o.streamOK, o.streamW, o.w, o.h, o.fixed, o.fps)
	if kind == "aac" {
		want := fmt.Sprintf("ok codec=AAC audio=%d/%d cfg-kept=true", form.rate, form.ch)
		if !(o.outcome == "ok" && o.acodec == "AAC" && o.arate == form.rate && o.ach == form.ch && o.cfgKept && o.streamOK) {
			kindF := "corr"
			if spec != "" && k.wf {
				kindF = "oracle" // a valid configuration in a well-formed SDP: the stream reports the standard's rate and channels
			}
			c.Find(Finding{Kind: kindF, Class: formClass, Case: cs, Impl: got, Model: want, Spec: want, Detail: "audio metadata after sdp.ParseMetadata / media.NewStream"})
		}
		return
	}
	wantCodec := map[string]string{"h264": "H264", "h265": "H265"}[kind]
	want := "0,0,0,0"
	if dims != "" {
		want = dims
	}
	audioOK := !form.audio && o.acodec == "" || form.audio && o.acodec == "AAC" && o.arate == form.rate && o.ach == form.ch && o.cfgKept
	okMeta := o.outcome == "ok" && o.vcodec == wantCodec && o.clock == 90000 && audioOK && o.spsKept && o.ppsSet && o.streamOK
	dimsOK := dimsEq(want, o.w, o.h, o.fixed, o.fps) && fmt.Sprint(o.streamW) == strings.Split(want, ",")[0]
	specOK := spec == "" || !k.wf || dimsEqSpec(spec, o.w, o.h, o.fixed, o.fps)
	if !okMeta || !dimsOK || !specOK {
		kindF := "corr"
		if spec != "" && k.wf {
			kindF = "oracle" // a valid parameter set in a well-formed SDP must yield the standard's values
			want = spec
		}
		c.Find(Finding{Kind: kindF, Class: formClass, Case: cs, Impl: got,
			Model: "ok codec=" + wantCodec + " sps-kept=true pps-set=true dims=" + want, Spec: "ok codec=" + wantCodec + " dims=" + want,
			Detail: "stream metadata after sdp.ParseMetadata / media.NewStream"})
	}
	if o.usable != "" && o.outcome == "ok" {
		class := formClass + "-stream-unusable"
		if rejected {
			class = "sdp-rejected-sps-makes-stream-unusable"
			if kind == "h265" {
				class = "sdp-rejected-hevc-sps-makes-stream-unusable"
			}
		}
		c.Find(Finding{Kind: "oracle", Class: class, Case: cs, Impl: o.usable + ": " + o.usableDetail,
			Spec:   "the IDR is handed on; metadata = that of the SDP's parameter set if the parser accepts it, else of the valid in-band set",
			Detail: "SDP carrying this parameter set, followed by valid in-band parameter sets and an IDR"})
	}
	// the same scenario in the model (Model/MetaReady.lean: c15_total_usable_* are theorems about it)
	if u := strings.Split(m["usable"], ","); len(u) == 7 && o.outcome == "ok" {
		same := u[0] == B01(o.idr >= 1) && u[2] == o.which && u[3] == strconv.Itoa(o.uw) && u[4] == strconv.Itoa(o.uh) && u[5] == B01(o.ufixed) && sameF(fpsOf(u[6]), o.ufps)
		if !same {
			c.Find(Finding{Kind: "corr", Class: "sdp-" + kind + "-state-after-in-band-sets", Case: cs,
				Impl: fmt.Sprintf("%s,%s,%d,%d,%s,%v", B01(o.idr >= 1), o.which, o.uw, o.uh, B01(o.ufixed), o.ufps), Model: m["usable"],
				Detail: "slice handed on, whose SPS is stored, Width, Height, FixedFrameRate, FrameRate after the SDP's sets and one in-band repetition"})
		}
	} else if o.outcome == "ok" {
		c.Find(Finding{Kind: "corr", Class: "unknown-op", Case: cs, Impl: "?", Model: out})
	}
}

// sdpCaseOf derives the SDP case of a decoder case (a sample of them)
func sdpCaseOf(c *Ctx, k caseT, kind string, ps []byte, spec string, add func(caseT)) {
	if len(ps) == 0 || c.Rng.Intn(4) != 0 {
		return
	}
	if spec == "" || !k.wf {
		spec = "-"
	}
	vps0, pps0 := goodVps265, goodPps265
	if kind == "h264" {
		vps0, pps0 = nil, sdpPps264
	}
	add(caseT{line: sdpLine(kind, ps, vps0, pps0, c.Rng.U64()%1000000, spec), kind: "sdp", wf: k.wf && spec != "-", class: k.class})
}

// sdpCaseOfVps: the VPS of a decoder case as sprop-vps next to the known-good SPS and PPS — hevc.MetadataIsReady only needs
// a non-empty VPS, so whatever the bytes are the stream reports the size of the good SPS
func sdpCaseOfVps(c *Ctx, k caseT, vps []byte, add func(caseT)) {
	if len(stripStartCode(vps)) == 0 || len(stripStartCode(vps)) != len(vps) || c.Rng.Intn(4) != 0 {
		return
	}
	add(caseT{line: sdpLine("h265", goodSps265, vps, goodPps265, c.Rng.U64()%1000000, fmt.Sprintf("%d,%d,*,*", goodW, goodH)), kind: "sdp", wf: true, class: "sdp-arbitrary-vps"})
}

// sdpLine: the op line of an SDP case; the other sets of the SDP, the start-code prefix and the in-band sets are spelled
// out (the text of the SDP is determined by the line)
func sdpLine(kind string, ps, vps0, pps0 []byte, seed uint64, spec string) string {
	line := fmt.Sprintf("c15 sdp %s %s v=%d spec=%s", kind, Hx(ps), seed, spec)
	form := drawForm(kind, seed, ps, vps0, pps0)
	switch kind {
	case "h264":
		line += fmt.Sprintf(" sc=%d sd=-.%s ib=-.%s.%s", form.startCode, Hx(pps0), Hx(goodSps), Hx(goodPps))
	case "h265":
		line += fmt.Sprintf(" sc=%d sd=%s.%s ib=%s.%s.%s", form.startCode, Hx(vps0), Hx(pps0), Hx(goodVps265), Hx(goodSps265), Hx(goodPps265))
	}
	return line
}

// the standard's values with "*" for a component that is not compared
func dimsEqSpec(spec string, w, h int, fixed bool, fps float64) bool {
	p := strings.Split(spec, ",")
	if len(p) != 4 {
		return false
	}
	return (p[0] == "*" || p[0] == strconv.Itoa(w)) && (p[1] == "*" || p[1] == strconv.Itoa(h)) &&
		(p[2] == "*" || p[2] == B01(fixed)) && (p[3] == "*" || sameF(fpsOf(p[3]), fps))
}
