package main

import (
	"fmt"
	"strings"

	. "verifharness/hlib"
)

// ---- generators of H.265 syntax trees (key=value lines for Drv/C15.lean HevcIn) ----

func genProfile(r *Rng) string {
	idc := r.Intn(32)
	if r.Chance(60) {
		idc = []int{1, 2, 3, 4, 5, 9, 10, 11}[r.Intn(8)]
	}
	compat := r.U64() & 0xffffffff
	if r.Chance(40) {
		compat = uint64(1) << uint(31-r.Intn(12))
	}
	return fmt.Sprintf("%d,%d,%d,%d,%d,%d,%d,%d,%d,%d", r.Intn(4), r.Intn(2), idc, compat, r.Intn(2), r.Intn(2), r.Intn(2), r.Intn(2),
		r.U64()&((1<<43)-1), r.Intn(2))
}

func genPtl(r *Rng, k *kvb, msl int) {
	k.s("gp", genProfile(r))
	k.n("glevel", uint64(r.Intn(256)))
	var subs []string
	for i := 0; i < msl; i++ {
		subs = append(subs, fmt.Sprintf("%d,%d,%s,%d", r.Intn(2), r.Intn(2), genProfile(r), r.Intn(256)))
	}
	k.s("subs", strings.Join(subs, "|"))
}

func genOrdering(r *Rng, k *kvb, msl int, wild bool) {
	oflag := r.Bool()
	k.b("oflag", oflag)
	n := 1
	if oflag {
		n = msl + 1
	}
	var es []string
	for i := 0; i < n; i++ {
		a := r.Intn(16)
		es = append(es, fmt.Sprintf("%d/%d/%d", ueField(r, 15, wild), r.Intn(a+1), widthVal(r, 32)%0xffffffff))
	}
	k.s("ord", strings.Join(es, "."))
}

func genCpbs(r *Rng, n int) string {
	var es []string
	for i := 0; i < n; i++ {
		es = append(es, fmt.Sprintf("%d/%d/%d/%d/%d", widthVal(r, 32)%0xffffffff, widthVal(r, 32)%0xffffffff, widthVal(r, 32)%0xffffffff, widthVal(r, 32)%0xffffffff, r.Intn(2)))
	}
	return strings.Join(es, ".")
}

func genHrd(r *Rng, k *kvb, p string, msl int, wild bool) {
	nal, vcl, sp := r.Chance(50), r.Chance(40), r.Chance(40)
	k.s(p+"c", fmt.Sprintf("%s,%s,%s,%d,%d,%d,%d,%d,%d,%d,%d,%d,%d", B01(nal), B01(vcl), B01(sp), r.Intn(256), r.Intn(32), r.Intn(2), r.Intn(32),
		r.Intn(16), r.Intn(16), r.Intn(16), r.Intn(32), r.Intn(32), r.Intn(32)))
	var subs []string
	for i := 0; i <= msl; i++ {
		g, w, low := r.Intn(2), r.Intn(2), r.Intn(2)
		cnt := r.Intn(3)
		if r.Chance(6) {
			cnt = 31
		}
		if wild && r.Chance(15) {
			cnt = 32 + r.Intn(3)
		}
		eff := cnt
		if g == 0 && w == 0 && low == 1 {
			eff = 0 // cpb_cnt_minus1 not coded: inferred 0
		}
		subs = append(subs, fmt.Sprintf("%d,%d,%d,%d,%d,%s,%s", g, w, r.Intn(2048), low, cnt, genCpbs(r, eff+1), genCpbs(r, eff+1)))
	}
	k.s(p+"s", strings.Join(subs, "|"))
}

// arrays of 7.4.8 (harness side, to know NumDeltaPocs of the previous set)
type rpsArr struct{ s0, s1 []int64 }

func genRps(r *Rng, wild bool) (string, bool) {
	n := r.Intn(6)
	if r.Chance(10) {
		n = 10 + r.Intn(55)
	}
	var sets []string
	prev := rpsArr{}
	hasInter := false
	for idx := 0; idx < n; idx++ {
		if idx > 0 && r.Chance(45) {
			hasInter = true
			sign := r.Bool()
			abs := int64(r.Intn(6))
			if r.Chance(10) {
				abs = int64(r.Intn(3000))
			}
			d := abs + 1
			if sign {
				d = -d
			}
			nd := len(prev.s0) + len(prev.s1)
			flags := make([][2]bool, nd+1)
			cnt := 0
			for j := range flags {
				used := r.Chance(60)
				useDelta := used || r.Chance(50)
				if useDelta && cnt >= 15 {
					used, useDelta = false, false
				}
				if useDelta {
					cnt++
				}
				flags[j] = [2]bool{used, useDelta}
			}
			var fs []string
			for _, f := range flags {
				fs = append(fs, B01(f[0])+"/"+B01(f[1]))
			}
			sets = append(sets, fmt.Sprintf("i:%s:%d:%s", B01(sign), abs, strings.Join(fs, ".")))
			// derive the new arrays (7-61, 7-62)
			var ns0, ns1 []int64
			for j := len(prev.s1) - 1; j >= 0; j-- {
				if dp := prev.s1[j] + d; dp < 0 && flags[len(prev.s0)+j][1] {
					ns0 = append(ns0, dp)
				}
			}
			if d < 0 && flags[nd][1] {
				ns0 = append(ns0, d)
			}
			for j := 0; j < len(prev.s0); j++ {
				if dp := prev.s0[j] + d; dp < 0 && flags[j][1] {
					ns0 = append(ns0, dp)
				}
			}
			for j := len(prev.s0) - 1; j >= 0; j-- {
				if dp := prev.s0[j] + d; dp > 0 && flags[j][1] {
					ns1 = append(ns1, dp)
				}
			}
			if d > 0 && flags[nd][1] {
				ns1 = append(ns1, d)
			}
			for j := 0; j < len(prev.s1); j++ {
				if dp := prev.s1[j] + d; dp > 0 && flags[len(prev.s0)+j][1] {
					ns1 = append(ns1, dp)
				}
			}
			prev = rpsArr{ns0, ns1}
			continue
		}
		neg, pos := r.Intn(5), r.Intn(4)
		if r.Chance(8) {
			neg, pos = r.Intn(9), r.Intn(8)
		}
		if wild && r.Chance(15) {
			neg = 17
		}
		var a rpsArr
		mk := func(cnt int, sign int64, dst *[]int64) string {
			var es []string
			acc := int64(0)
			for i := 0; i < cnt; i++ {
				m := int64(r.Intn(4))
				if r.Chance(10) {
					m = int64(r.Intn(2000))
				}
				acc += sign * (m + 1)
				*dst = append(*dst, acc)
				es = append(es, fmt.Sprintf("%d/%d", m, r.Intn(2)))
			}
			return strings.Join(es, ".")
		}
		s0 := mk(neg, -1, &a.s0)
		s1 := mk(pos, 1, &a.s1)
		sets = append(sets, "e:"+s0+":"+s1)
		prev = a
	}
	return strings.Join(sets, "|"), hasInter
}

func genScaling(r *Rng) string {
	var es []string
	for kx := 0; kx < 20; kx++ {
		sizeId, matrixId := kx/6, kx%6
		if kx >= 18 {
			sizeId, matrixId = 3, (kx-18)*3
		}
		if r.Chance(40) {
			d := r.Intn(matrixId + 1)
			if sizeId == 3 {
				d = r.Intn(matrixId/3 + 1)
			}
			es = append(es, fmt.Sprintf("0,%d", d))
			continue
		}
		n := 16
		if sizeId > 0 {
			n = 64
		}
		cs := make([]int64, n)
		for i := range cs {
			if r.Chance(70) {
				cs[i] = int64(r.Intn(7)) - 3
			} else {
				cs[i] = int64(r.Intn(256)) - 128
			}
		}
		es = append(es, fmt.Sprintf("1,%d,%s", r.Intn(255)-7, intsDot(cs)))
	}
	return strings.Join(es, ";")
}

func genVui265(r *Rng, k *kvb, msl int, wild bool) (nut uint64) {
	k.b("ar", r.Bool())
	ar := uint64(r.Intn(256))
	if r.Chance(40) {
		ar = 255
	}
	k.n("aridc", ar)
	k.n("sarw", uint64(r.Intn(65536)))
	k.n("sarh", uint64(r.Intn(65536)))
	k.b("os", r.Bool())
	k.b("osa", r.Bool())
	k.b("vs", r.Bool())
	k.n("vfmt", uint64(r.Intn(8)))
	k.b("vfr", r.Bool())
	k.b("cd", r.Bool())
	k.n("cprim", uint64(r.Intn(256)))
	k.n("ctrans", uint64(r.Intn(256)))
	k.n("cmat", uint64(r.Intn(256)))
	k.b("loc", r.Bool())
	k.n("loct", ueField(r, 5, wild))
	k.n("locb", ueField(r, 5, wild))
	k.b("neutral", r.Bool())
	k.b("fseq", r.Bool())
	k.b("ffi", r.Bool())
	k.b("ddw", r.Chance(30))
	k.n("ddl", ueField(r, 300, wild))
	k.n("ddr", ueField(r, 300, wild))
	k.n("ddt", ueField(r, 300, wild))
	k.n("ddb", ueField(r, 300, wild))
	k.b("ti", r.Chance(75))
	nut = widthVal(r, 32)
	if r.Chance(50) {
		nut = []uint64{1, 1001, 1000, 2, 3600}[r.Intn(5)]
	}
	if r.Chance(4) {
		nut = 0
	}
	ts := widthVal(r, 32)
	if r.Chance(50) {
		ts = []uint64{50, 60000, 30000, 25, 90000, 24000}[r.Intn(6)]
	}
	k.n("nut", nut)
	k.n("ts", ts)
	k.b("pp", r.Bool())
	k.n("nticks", widthVal(r, 32)%0xffffffff)
	k.b("hrd", r.Chance(50))
	genHrd(r, k, "h.", msl, wild)
	k.b("br", r.Bool())
	k.b("tfs", r.Bool())
	k.b("mv", r.Bool())
	k.b("rrl", r.Bool())
	k.n("mss", ueField(r, 4095, wild))
	k.n("r1", ueField(r, 16, wild))
	k.n("r2", ueField(r, 16, wild))
	k.n("r3", ueField(r, 15, wild))
	k.n("r4", ueField(r, 15, wild))
	return
}

func genSps265(r *Rng, wild bool) (string, string) {
	k := &kvb{}
	msl := r.Intn(7)
	if r.Chance(50) {
		msl = 0
	}
	if wild && r.Chance(10) {
		msl = 7
	}
	k.n("layer", uint64(r.Intn(64)))
	k.n("tid", uint64(1+r.Intn(7)))
	k.n("vid", uint64(r.Intn(16)))
	k.b("nest", r.Bool())
	genPtl(r, k, msl)
	k.n("id", ueField(r, 15, wild))
	cf := uint64(r.Intn(4))
	if wild && r.Chance(10) {
		cf = 4 + uint64(r.Intn(3))
	}
	k.n("cf", cf)
	k.b("sep", cf == 3 && r.Bool())
	mincb := uint64(r.Intn(4))
	size := uint64(8) << mincb
	w := size * uint64(1+r.Intn(int(16888/size)))
	h := size * uint64(1+r.Intn(int(16888/size)))
	if r.Chance(50) {
		w, h = size*uint64(1+r.Intn(60)), size*uint64(1+r.Intn(40))
	}
	if wild && r.Chance(15) {
		w += uint64(1 + r.Intn(7)) // not divisible by MinCbSizeY
	}
	if wild && r.Chance(10) {
		mincb = 13 + uint64(r.Intn(4)) // shift ≥ 16
	}
	k.n("w", w)
	k.n("h", h)
	cw := r.Chance(60)
	k.b("cw", cw)
	sw, sh := uint64(1), uint64(1)
	if cf == 1 || cf == 2 {
		sw = 2
	}
	if cf == 1 {
		sh = 2
	}
	pick := func(total, unit uint64) (uint64, uint64) {
		maxSum := (total - 1) / unit
		a := r.U64() % (maxSum + 1)
		b := r.U64() % (maxSum - a + 1)
		switch r.Intn(5) {
		case 0:
			a = 0
		case 1:
			b = 0
		}
		return a, b
	}
	cl, cr := pick(w, sw)
	ct, cb := pick(h, sh)
	k.n("cl", cl)
	k.n("cr", cr)
	k.n("ct", ct)
	k.n("cb", cb)
	k.n("bdl", ueField(r, 8, wild))
	k.n("bdc", ueField(r, 8, wild))
	lsb := uint64(r.Intn(13))
	k.n("lsb", lsb)
	genOrdering(r, k, msl, wild)
	k.n("mincb", mincb)
	k.n("diffcb", ueField(r, 3, wild))
	k.n("mintb", ueField(r, 3, wild))
	k.n("difftb", ueField(r, 3, wild))
	k.n("thinter", ueField(r, 4, wild))
	k.n("thintra", ueField(r, 4, wild))
	k.b("sle", r.Chance(40))
	k.b("sldp", r.Chance(60))
	k.s("sl", genScaling(r))
	k.b("amp", r.Bool())
	k.b("sao", r.Bool())
	k.b("pcm", r.Chance(35))
	k.n("pcm1", uint64(r.Intn(16)))
	k.n("pcm2", uint64(r.Intn(16)))
	k.n("pcm3", ueField(r, 2, wild))
	k.n("pcm4", ueField(r, 2, wild))
	k.b("pcm5", r.Bool())
	rps, hasInter := genRps(r, wild)
	k.s("rps", rps)
	k.b("ltp", r.Chance(35))
	nlt := r.Intn(4)
	if r.Chance(8) {
		nlt = 32
	}
	if wild && r.Chance(15) {
		nlt = 33
	}
	var lts []string
	for i := 0; i < nlt; i++ {
		lts = append(lts, fmt.Sprintf("%d/%d", r.U64()&((1<<(lsb+4))-1), r.Intn(2)))
	}
	k.s("lt", strings.Join(lts, "."))
	k.b("mvp", r.Bool())
	k.b("sis", r.Bool())
	k.b("vui", r.Chance(75))
	genVui265(r, k, msl, wild)
	k.b("ext", r.Chance(30))
	k.b("e1", r.Bool())
	k.b("e2", r.Bool())
	k.b("e3", r.Bool())
	k.b("e4", r.Bool())
	k.n("e5", uint64(r.Intn(16)))
	class := "hevc-other"
	switch {
	case hasInter:
		class = "hevc-inter-rps"
	case msl > 0:
		class = "hevc-sublayer-ordering"
	}
	return "c15 hevcspsenc" + k.sb.String(), class
}

func genVps265(r *Rng, wild bool) (string, string) {
	k := &kvb{}
	msl := r.Intn(7)
	if r.Chance(40) {
		msl = 0
	}
	if wild && r.Chance(10) {
		msl = 7
	}
	k.n("layer", uint64(r.Intn(64)))
	k.n("tid", uint64(1+r.Intn(7)))
	k.n("vid", uint64(r.Intn(16)))
	k.b("bli", r.Bool())
	k.b("bla", r.Bool())
	k.n("ml", uint64(r.Intn(64)))
	nest := r.Bool()
	if msl == 0 && !(wild && r.Chance(30)) {
		nest = true
	}
	k.b("nest", nest)
	genPtl(r, k, msl)
	genOrdering(r, k, msl, wild)
	mli := r.Intn(8)
	if r.Chance(8) {
		mli = 62
	}
	if wild && r.Chance(15) {
		mli = 63
	}
	k.n("mli", uint64(mli))
	nrows := r.Intn(4)
	var rows []string
	for i := 0; i < nrows; i++ {
		var sb strings.Builder
		for j := 0; j <= mli; j++ {
			sb.WriteString(B01(r.Bool()))
		}
		rows = append(rows, sb.String())
	}
	k.s("rows", strings.Join(rows, "|"))
	k.b("ti", r.Chance(60))
	k.n("nut", widthVal(r, 32))
	k.n("ts", widthVal(r, 32))
	k.b("pp", r.Bool())
	k.n("nticks", widthVal(r, 32)%0xffffffff)
	nh := r.Intn(3)
	k.n("nhrd", uint64(nh))
	var idx, cp []string
	for i := 0; i < nh; i++ {
		idx = append(idx, fmt.Sprint(r.Intn(nrows+1)))
		c := true
		if wild && r.Chance(40) {
			c = false
		}
		cp = append(cp, B01(c))
		genHrd(r, k, fmt.Sprintf("h%d.", i), msl, wild)
	}
	k.s("hrdidx", strings.Join(idx, "."))
	k.s("cprms", strings.Join(cp, "."))
	k.b("ext", r.Bool())
	return "c15 hevcvpsenc" + k.sb.String(), "hevc-vps"
}

func genHevcTrees(c *Ctx, add func(caseT)) {
	n := c.Budget(4000, 24000)
	for i := 0; i < n; i++ {
		wild := c.Rng.Chance(12)
		line, class := genSps265(c.Rng, wild)
		add(caseT{line: line, kind: "hevcspsenc", wf: !wild, class: class})
	}
	m := c.Budget(1500, 8000)
	for i := 0; i < m; i++ {
		wild := c.Rng.Chance(12)
		line, class := genVps265(c.Rng, wild)
		add(caseT{line: line, kind: "hevcvpsenc", wf: !wild, class: class})
	}
}
