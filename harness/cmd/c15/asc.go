package main

import (
	"fmt"
	"strings"

	. "verifharness/hlib"

	"github.com/cnotch/ipchub/av/codec"
	"github.com/cnotch/ipchub/av/codec/aac"
)

type implAudio struct {
	outcome  string
	dump     string
	ready    bool
	channels int
	rate     int
}

func implAsc(b []byte) (r implAudio) {
	defer func() {
		if e := recover(); e != nil {
			r.outcome = "escaped-panic"
		}
	}()
	var a aac.AudioSpecificConfig
	if err := a.Decode(append([]byte{}, b...)); err != nil {
		r.outcome = "err=" + errKind(err)
	} else {
		r.outcome = "ok"
		r.dump = fmt.Sprintf("%d,%d,%d,%d,%d,%d,%d,%d,%d,%d,%d", a.ObjectType, a.SamplingIndex, a.SampleRate, a.ChannelConfig, a.Sbr,
			a.ExtObjectType, a.ExtSamplingIndex, a.ExtSampleRate, a.ExtChannelConfig, a.Channels, a.Ps)
	}
	am := codec.AudioMeta{Codec: "AAC", Sps: append([]byte{}, b...)}
	r.ready = aac.MetadataIsReady(&am)
	r.channels, r.rate = am.Channels, am.SampleRate
	empty := codec.AudioMeta{Codec: "AAC"}
	known := codec.AudioMeta{Codec: "AAC", Sps: append([]byte{}, b...), SampleRate: 7, Channels: 9}
	if aac.MetadataIsReady(&empty) || (len(b) > 0 && (!aac.MetadataIsReady(&known) || known.SampleRate != 7 || known.Channels != 9)) ||
		(r.ready && am.SampleSize != 16) {
		r.outcome = "guards-broken"
	}
	return
}

var ascSamples = []string{"1210", "1390", "1190", "2b8a08002000", "1388", "eb098800", "1210" + "56e5" + "00", "f8e85000"}

func genAscTree(r *Rng) (string, string) {
	k := &kvb{}
	aot := uint64(1 + r.Intn(4))
	sig := []string{"plain", "hier", "back"}[r.Intn(3)]
	if sig != "back" && r.Chance(25) {
		aot = 32 + uint64(r.Intn(64))
		if aot == 36 {
			aot = 37
		}
	}
	idx := func() (uint64, uint64) {
		if r.Chance(30) {
			f := widthVal(r, 24)
			if f == 0 {
				f = 1
			}
			return 15, f
		}
		return uint64(r.Intn(13)), 0
	}
	sfi, sf := idx()
	ei, ef := idx()
	k.n("aot", aot)
	k.n("sfi", sfi)
	k.n("sf", sf)
	k.n("cc", uint64(1+r.Intn(7)))
	k.b("fl", r.Bool())
	k.s("sig", sig)
	k.n("ei", ei)
	k.n("ef", ef)
	class := "asc-" + sig
	switch sig {
	case "hier":
		ps := r.Bool()
		k.b("ps", ps)
		if ps {
			class = "asc-hier-ps"
		}
	case "back":
		k.b("sbr", r.Chance(75))
		switch r.Intn(3) {
		case 0:
			k.s("ps", "1")
		case 1:
			k.s("ps", "0")
		}
	}
	return "c15 ascenc" + k.sb.String(), class
}

func genAsc(c *Ctx, add func(caseT)) {
	var samples [][]byte
	for _, s := range ascSamples {
		b := Unhx(s)
		samples = append(samples, b)
		for i := 0; i <= len(b); i++ {
			add(caseT{line: "c15 ascdec " + Hx(b[:i]), kind: "ascdec", class: "truncation"})
		}
	}
	// every 1- and 2-byte configuration in the thorough tier, a sample of them otherwise
	for v := 0; v < 65536; v++ {
		if c.Thorough() || c.Rng.Intn(16) == 0 {
			add(caseT{line: "c15 ascdec " + Hx([]byte{byte(v >> 8), byte(v)}), kind: "ascdec", class: "short"})
		}
	}
	if c.Thorough() {
		c.Note("AudioSpecificConfig.Decode on every 2-byte configuration enumerated completely")
	}
	n := c.Budget(3000, 30000)
	for i := 0; i < n; i++ {
		var b []byte
		switch c.Rng.Intn(4) {
		case 0:
			b = mutate(c.Rng, samples[c.Rng.Intn(len(samples))])
		case 1:
			b = c.Rng.Bytes(c.Rng.Intn(24))
		case 2: // ALS: object type 36 via escape, magic, payload
			w := &bitw{}
			w.u(5, 31)
			w.u(6, 4)
			w.u(4, uint64(c.Rng.Intn(16)))
			if w.b[len(w.b)-1]&0 == 0 && c.Rng.Chance(20) {
				w.u(24, c.Rng.U64())
			}
			w.u(4, uint64(c.Rng.Intn(16)))
			w.u(5, c.Rng.U64())
			if c.Rng.Chance(50) {
				w.u(24, 0x414C53)
			} else if c.Rng.Chance(50) {
				w.u(24, c.Rng.U64())
			}
			if c.Rng.Chance(80) {
				w.u(32, 0x414C5300)
			} else {
				w.u(32, c.Rng.U64())
			}
			w.u(32, widthVal(c.Rng, 32))
			w.u(32, c.Rng.U64())
			w.u(16, c.Rng.U64())
			w.u(c.Rng.Intn(40), c.Rng.U64())
			b = w.b
			if c.Rng.Chance(20) && len(b) > 0 {
				b = b[:c.Rng.Intn(len(b))]
			}
		case 3: // header, random filler, a sync extension somewhere
			w := &bitw{}
			w.u(5, uint64(1+c.Rng.Intn(30)))
			w.u(4, uint64(c.Rng.Intn(13)))
			w.u(4, uint64(c.Rng.Intn(16)))
			w.u(c.Rng.Intn(20), c.Rng.U64())
			w.u(11, 0x2b7)
			w.u(5, []uint64{5, 5, 5, 22, 31, 2}[c.Rng.Intn(6)])
			w.u(1, c.Rng.U64())
			w.u(4, uint64(c.Rng.Intn(16)))
			if c.Rng.Chance(50) {
				w.u(11, 0x548)
				w.u(1, c.Rng.U64())
			}
			w.u(c.Rng.Intn(20), c.Rng.U64())
			b = w.b
		}
		add(caseT{line: "c15 ascdec " + Hx(b), kind: "ascdec", class: "malformed"})
	}
	m := c.Budget(4000, 30000)
	for i := 0; i < m; i++ {
		line, class := genAscTree(c.Rng)
		add(caseT{line: line, kind: "ascenc", wf: true, class: class})
	}
}

func evalAsc(c *Ctx, k caseT, out string) {
	var data []byte
	m := KV(out)
	if k.kind == "ascenc" {
		data = Unhx(m["bytes"])
	} else {
		data = Unhx(strings.Fields(k.line)[2])
	}
	gr, ok := guard(c, k, "asc-decode", func() interface{} { return implAsc(data) })
	if !ok {
		return
	}
	r := gr.(implAudio)
	modelOutcome := "ok"
	if e, bad := m["err"]; bad {
		modelOutcome = "err=" + e
	}
	c.Eval(k.line, r.outcome == "ok")
	c.Count("asc:" + k.kind)
	c.Count("asc:outcome-" + r.outcome)
	implS := r.outcome + " dump=" + r.dump
	if r.outcome != modelOutcome {
		c.Find(Finding{Kind: "corr", Class: "asc-outcome", Case: k.line, Impl: implS, Model: out})
	} else if r.outcome == "ok" && r.dump != m["dump"] {
		c.Find(Finding{Kind: "corr", Class: "asc-fields", Case: k.line, Impl: implS, Model: out})
	}
	if r.outcome == "escaped-panic" {
		c.Find(Finding{Kind: "oracle", Class: "asc-panic-escapes", Case: k.line, Impl: r.outcome, Spec: "error or result"})
		return
	}
	// MetadataIsReady against the model (empty config → not ready)
	meta := "none"
	if r.ready {
		meta = fmt.Sprintf("%d,%d", r.channels, r.rate)
	} else if r.channels != 0 || r.rate != 0 {
		meta = fmt.Sprintf("not-ready-but-stored:%d,%d", r.channels, r.rate) // nothing may be stored when Decode fails
	}
	wantMeta := m["meta"]
	if modelOutcome != "ok" {
		wantMeta = "none"
	}
	if meta != wantMeta {
		c.Find(Finding{Kind: "corr", Class: "asc-metadata-ready", Case: k.line, Impl: meta, Model: out})
	}
	sdpCaseOf(c, k, "aac", data, m["spec"], derive)
	if k.kind == "ascenc" && k.wf {
		c.Count("asc:class-" + k.class)
		if meta != m["spec"] {
			c.Find(Finding{Kind: "oracle", Class: k.class, Case: k.line, Impl: meta, Spec: m["spec"],
				Detail: "channels,sample-rate reported for a valid AudioSpecificConfig differ from ISO 14496-3"})
		}
	}
}
