// Correspondence + oracle harness for C19 (port multiplexing).
//
// Real code exercised, in-process:
//   - listener.Listener.Serve / serve over scripted in-memory connections, with the real
//     rtsp.MatchRTSP() and listener.MatchHTTP() registered in service.listen's order
//     (op `mux`);
//   - the sniffing wrapper (newConn / startSniffing / doneSniffing / sniffer.Read /
//     Conn.Read) driven through free-form op sequences (op `ops`);
//   - the patricia tree (newPatriciaTree / newNode / splitPrefix / match) on generated
//     string sets (ops `pt`, `split`).
//
// Everything is compared with the Lean model; the specification oracle (`cls`, byte-stream
// identity) is evaluated on what the implementation did.
package main

import (
	"bytes"
	"errors"
	"fmt"
	"io"
	"net"
	"strings"
	"sync"
	"time"

	. "verifharness/hlib"

	"github.com/cnotch/ipchub/network/socket/listener"
	"github.com/cnotch/ipchub/service/rtsp"
)

func main() { Main("C19", run) }

var sawPanic bool

// ---------------------------------------------------------------- scripted connection

type ev struct {
	kind byte // 'd' deliver, 'f' fail, 'x' deliver+fail, 'w' park the reader until the harness opens the gate (op mux2 only)
	n    int
	e    byte // 'e' eof, 't' timeout, 'o' other
}

func (e ev) String() string {
	switch e.kind {
	case 'd':
		return fmt.Sprintf("d%d", e.n)
	case 'f':
		return fmt.Sprintf("f%c", e.e)
	case 'w':
		return "w"
	}
	return fmt.Sprintf("x%d.%c", e.n, e.e)
}

func evsString(evs []ev) string {
	if len(evs) == 0 {
		return "-"
	}
	s := make([]string, len(evs))
	for i, e := range evs {
		s[i] = e.String()
	}
	return strings.Join(s, ",")
}

type timeoutErr struct{}

func (timeoutErr) Error() string   { return "i/o timeout (scripted)" }
func (timeoutErr) Timeout() bool   { return true }
func (timeoutErr) Temporary() bool { return true }

var errOther = errors.New("scripted read error")
var errHang = errors.New("scripted: read would block for ever (time-out event with no deadline armed)")
var errClosed = errors.New("scripted: use of closed connection")

func mkErr(b byte) error {
	switch b {
	case 'e':
		return io.EOF
	case 't':
		return timeoutErr{}
	}
	return errOther
}

func errName(err error) string {
	switch {
	case err == nil:
		return "-"
	case err == io.EOF:
		return "eof"
	case err == io.ErrUnexpectedEOF:
		return "ueof"
	case err == errHang:
		return "hang"
	case err == errOther || err == errClosed:
		return "other"
	}
	if _, ok := err.(timeoutErr); ok {
		return "timeout"
	}
	return "err(" + err.Error() + ")"
}

// fakeConn is a net.Conn whose reads follow a script (see Model/Sniffer.lean `srcRead`).
type fakeConn struct {
	mu       sync.Mutex
	rem      []byte
	evs      []ev
	deadline bool
	timedOut bool
	closed   bool
	closeCh  chan struct{}
	nClose   int
	// the gate of a 'w' event: the reader parks (holding no lock) until open() is called
	gate     chan struct{}
	atGate   chan struct{}
	parked   bool
	gateOnce sync.Once
	// closed when the read deadline is cleared (Listener.serve does that just before it hands the connection over)
	cleared     chan struct{}
	clearedOnce sync.Once
	// every read of the socket, in order: what the socket itself produced (specification oracle of runMux)
	log []sockRead
}

type sockRead struct {
	n   int
	err string
}

func (c *fakeConn) nlog() int {
	c.mu.Lock()
	defer c.mu.Unlock()
	return len(c.log)
}

func (c *fakeConn) Read(p []byte) (int, error) {
	n, err := c.read(p)
	c.mu.Lock()
	c.log = append(c.log, sockRead{n, errName(err)})
	c.mu.Unlock()
	return n, err
}

func newFake(stream []byte, evs []ev) *fakeConn {
	return &fakeConn{rem: append([]byte(nil), stream...), evs: append([]ev(nil), evs...), closeCh: make(chan struct{}),
		gate: make(chan struct{}), atGate: make(chan struct{}), cleared: make(chan struct{})}
}

func (c *fakeConn) open() { c.gateOnce.Do(func() { close(c.gate) }) }

func (c *fakeConn) read(p []byte) (int, error) {
	for {
		c.mu.Lock()
		if !c.closed && !c.timedOut && len(p) > 0 && len(c.evs) > 0 && c.evs[0].kind == 'w' {
			c.evs = c.evs[1:]
			if !c.parked {
				c.parked = true
				close(c.atGate)
			}
			c.mu.Unlock()
			<-c.gate
			continue
		}
		break
	}
	defer c.mu.Unlock()
	if c.closed {
		return 0, errClosed
	}
	if c.timedOut {
		return 0, timeoutErr{}
	}
	if len(p) == 0 {
		return 0, nil
	}
	take := func(n int) int {
		if n < 1 {
			n = 1
		}
		if n > len(p) {
			n = len(p)
		}
		if n > len(c.rem) {
			n = len(c.rem)
		}
		copy(p, c.rem[:n])
		c.rem = c.rem[n:]
		return n
	}
	if len(c.evs) == 0 {
		if len(c.rem) == 0 {
			return 0, io.EOF
		}
		return take(len(p)), nil
	}
	e := c.evs[0]
	c.evs = c.evs[1:]
	switch e.kind {
	case 'd':
		if len(c.rem) == 0 {
			return 0, io.EOF
		}
		return take(e.n), nil
	case 'f':
		if e.e == 't' {
			if c.deadline {
				c.timedOut = true
				return 0, timeoutErr{}
			}
			return 0, errHang
		}
		return 0, mkErr(e.e)
	default:
		if len(c.rem) == 0 {
			return 0, mkErr(e.e)
		}
		return take(e.n), mkErr(e.e)
	}
}

func (c *fakeConn) Write(p []byte) (int, error) { return len(p), nil }
func (c *fakeConn) Close() error {
	c.mu.Lock()
	defer c.mu.Unlock()
	c.nClose++
	if !c.closed {
		c.closed = true
		close(c.closeCh)
	}
	return nil
}
func (c *fakeConn) LocalAddr() net.Addr  { return fakeAddr{} }
func (c *fakeConn) RemoteAddr() net.Addr { return fakeAddr{} }
func (c *fakeConn) SetDeadline(t time.Time) error {
	return c.SetReadDeadline(t)
}
func (c *fakeConn) SetReadDeadline(t time.Time) error {
	c.mu.Lock()
	defer c.mu.Unlock()
	c.deadline = !t.IsZero()
	c.timedOut = false
	if t.IsZero() {
		c.clearedOnce.Do(func() { close(c.cleared) })
	}
	return nil
}
func (c *fakeConn) SetWriteDeadline(t time.Time) error { return nil }
func (c *fakeConn) state() (deadline, closed bool) {
	c.mu.Lock()
	defer c.mu.Unlock()
	return c.deadline, c.closed
}

type fakeAddr struct{}

func (fakeAddr) Network() string { return "fake" }
func (fakeAddr) String() string  { return "fake:0" }

// fakeRoot is the root net.Listener: Accept hands out the connections the harness queues.
type fakeRoot struct {
	ch     chan net.Conn
	closed chan struct{}
	once   sync.Once
}

type permErr struct{}

func (permErr) Error() string   { return "fake root closed" }
func (permErr) Timeout() bool   { return false }
func (permErr) Temporary() bool { return false }

func (r *fakeRoot) Accept() (net.Conn, error) {
	select {
	case c := <-r.ch:
		return c, nil
	case <-r.closed:
		return nil, permErr{}
	}
}
func (r *fakeRoot) Close() error   { r.once.Do(func() { close(r.closed) }); return nil }
func (r *fakeRoot) Addr() net.Addr { return fakeAddr{} }

// ---------------------------------------------------------------- the multiplexer under test

type muxRig struct {
	root     *fakeRoot
	l        *listener.Listener
	accepted chan acc
}
type acc struct {
	svc  string
	conn net.Conn
}

// newRig mirrors service.listen: SetReadTimeout, then RTSP registered before HTTP
// (both facts are also regenerated by the translator and are obligations of Props/C19).
func newRig() *muxRig {
	r := &muxRig{root: &fakeRoot{ch: make(chan net.Conn), closed: make(chan struct{})}, accepted: make(chan acc, 16)}
	r.l = listener.VerifNewFromListener(r.root)
	r.l.SetReadTimeout(time.Hour) // the scripted conn decides when the deadline "expires"
	rl := r.l.Match(rtsp.MatchRTSP())
	hl := r.l.Match(listener.MatchHTTP())
	for _, p := range []struct {
		n string
		l net.Listener
	}{{"rtsp", rl}, {"http", hl}} {
		p := p
		go func() {
			for {
				c, err := p.l.Accept()
				if err != nil {
					return
				}
				r.accepted <- acc{p.n, c}
			}
		}()
	}
	go r.l.Serve()
	return r
}

type muxObs struct {
	route    string
	reads    string
	all      []byte
	lastErr  string
	direct   bool
	closed   bool
	deadline bool
	extra    string // second delivery / close after delivery
	drained  []byte
	drainErr string
	parked   bool // mux2: the connection really was parked at its gate while the other one was served
	// specification oracle on the service's reads against what the socket itself produced (see svcSpec)
	specClass, specImpl, specSpec string
	specApplies                   bool
}

// watchdog budgets of the scripted run: the scripted connection never blocks, so a wait only
// ends by its event; an expired budget is re-tried alone on a fresh multiplexer with the long one
const (
	muxBudget     = 60 * time.Second
	muxLongBudget = 3 * time.Minute
)

func (r *muxRig) runCase(stream []byte, evs []ev, sizes []int, drain bool, budget time.Duration) (o muxObs, panicked string) {
	defer func() {
		if x := recover(); x != nil {
			panicked = fmt.Sprint(x)
		}
	}()
	fc := newFake(stream, evs)
	select {
	case r.root.ch <- fc:
	case <-time.After(budget):
		// Serve no longer accepts (it stopped after an unmatched connection?)
		o.route = "stuck"
		return
	}
	var got acc
	select {
	case got = <-r.accepted:
		o.route = got.svc
	case <-fc.closeCh:
		o.route = "closed"
	case <-time.After(budget):
		// neither handed to a service nor closed (generous watchdog: the scripted connection never blocks)
		o.route = "stuck"
		return
	}
	if o.route == "closed" {
		o.closed = true
		o.reads = "-"
		o.deadline, _ = fc.state()
		// a closed connection must not be delivered as well
		select {
		case a := <-r.accepted:
			o.extra = "delivered-after-close:" + a.svc
		default:
		}
		return
	}
	if got.conn == nil {
		o.extra = "nil-conn"
		return
	}
	handedAt := fc.nlog()
	var svc []svcRead
	var parts []string
	for _, k := range sizes {
		buf := make([]byte, k)
		lo := fc.nlog()
		n, err := got.conn.Read(buf)
		svc = append(svc, svcRead{n, errName(err), lo, fc.nlog()})
		parts = append(parts, Hx(buf[:n])+":"+errName(err))
		o.all = append(o.all, buf[:n]...)
		o.lastErr = errName(err)
	}
	if len(parts) == 0 {
		o.reads = "-"
	} else {
		o.reads = strings.Join(parts, ";")
	}
	o.deadline, o.closed = fc.state()
	// oracle only (not compared with the model): keep reading until the connection ends
	o.drained = append([]byte(nil), o.all...)
	o.drainErr = o.lastErr
	for i := 0; drain && i < 1<<16 && (o.drainErr == "-" || o.drainErr == "") && len(o.drained) <= len(stream)+64; i++ {
		buf := make([]byte, 8192)
		lo := fc.nlog()
		n, err := got.conn.Read(buf)
		svc = append(svc, svcRead{n, errName(err), lo, fc.nlog()})
		o.drained = append(o.drained, buf[:n]...)
		o.drainErr = errName(err)
	}
	svcSpec(&o, fc, handedAt, svc)
	// did Conn.Read switch to the raw connection?  Observable through the wrapper type only
	// indirectly; the model's flag is compared through the `ops` op.  Here: exactly one delivery.
	select {
	case a := <-r.accepted:
		o.extra = "second-delivery:" + a.svc
	default:
	}
	return
}

// svcRead: one Read of the service on the connection it was handed; lo..hi = the reads of the
// socket made during that call.
type svcRead struct {
	n      int
	err    string
	lo, hi int
}

// svcSpec: the specification of "the service reads the connection's original byte stream" on
// scripts with pauses, time-outs and errors anywhere (no model involved: the service's reads
// are compared with what the scripted socket itself produced, read by read).
//   - an error a service read returns is the error the socket produced in a read made during
//     that very call: an error of an earlier event (one a matcher already consumed while
//     sniffing) must not come back, with or without bytes;
//   - at the first error the service sees (where an ordinary reader stops) it has been given
//     every byte the socket has delivered so far: nothing is left behind in the replay buffer.
// Not applicable when the socket returned bytes together with an error while the connection
// was being sniffed (an io.Reader may, a TCP connection does not; the replay then repeats that
// error with those bytes, Props/C19 excludes the case likewise).
func svcSpec(o *muxObs, fc *fakeConn, handedAt int, svc []svcRead) {
	fc.mu.Lock()
	log := append([]sockRead(nil), fc.log...)
	fc.mu.Unlock()
	for _, r := range log[:handedAt] {
		if r.n > 0 && r.err != "-" {
			return
		}
	}
	o.specApplies = true
	got, first := 0, true
	for i, r := range svc {
		got += r.n
		if r.err == "-" {
			continue
		}
		if r.hi > len(log) {
			r.hi = len(log)
		}
		if first {
			first = false
			delivered := 0
			for _, s := range log[:r.hi] {
				delivered += s.n
			}
			if got != delivered {
				o.specClass = "service-read-fails-before-all-delivered-bytes-are-read"
				o.specImpl = fmt.Sprintf("service read #%d returns error %s after %d bytes in all", i+1, r.err, got)
				o.specSpec = fmt.Sprintf("the socket had delivered %d bytes by then; an error only after all of them", delivered)
				return
			}
		}
		if r.hi == r.lo || log[r.hi-1].err != r.err {
			sock := "no read of the socket during that call"
			if r.hi > r.lo {
				sock = "the socket's read during that call returned " + log[r.hi-1].err
			}
			o.specClass = "service-read-error-not-from-the-socket"
			o.specImpl = fmt.Sprintf("service read #%d returns %d bytes and error %s", i+1, r.n, r.err)
			o.specSpec = sock
			return
		}
	}
}

// ---------------------------------------------------------------- two connections interleaved
//
// The multiplexer serves every accepted connection in its own goroutine; what happens to
// one connection must not depend on the others.  The interleaving is forced: connection A
// parks inside a matcher's read (event 'w' of its script) after some bytes of its first
// line; while it is parked, connection B is accepted, routed and read completely; then A's
// gate is opened.  Each of the two must be routed and read exactly as when it is served alone.

func stripGate(evs []ev) []ev {
	var out []ev
	for _, e := range evs {
		if e.kind != 'w' {
			out = append(out, e)
		}
	}
	return out
}

type pairSide struct {
	fc     *fakeConn
	routed bool
	got    acc
	closed bool
}

// await waits until one of the wanted things has happened to one of the two connections:
// it was handed to a service, it was closed, or (wantGate) A is parked at its gate
func (r *muxRig) awaitPair(a, b *pairSide, target *pairSide, wantGate bool, budget time.Duration) (ok bool) {
	t := time.NewTimer(budget)
	defer t.Stop()
	for {
		if target.routed || target.closed {
			return true
		}
		var gateCh <-chan struct{}
		if wantGate {
			gateCh = target.fc.atGate
		}
		select {
		case g := <-r.accepted:
			var under net.Conn
			if lc, isConn := g.conn.(*listener.Conn); isConn {
				under = lc.Conn
			}
			switch {
			case a != nil && under == net.Conn(a.fc):
				a.routed, a.got = true, g
			case b != nil && under == net.Conn(b.fc):
				b.routed, b.got = true, g
			}
		case <-target.fc.closeCh:
			target.closed = true
		case <-gateCh:
			return true
		case <-t.C:
			return false
		}
	}
}

func (r *muxRig) observe(side *pairSide, stream []byte, sizes []int, drain bool) (o muxObs) {
	fc := side.fc
	if side.closed && !side.routed {
		o.route, o.closed, o.reads = "closed", true, "-"
		o.deadline, _ = fc.state()
		return
	}
	o.route = side.got.svc
	var parts []string
	for _, k := range sizes {
		buf := make([]byte, k)
		n, err := side.got.conn.Read(buf)
		parts = append(parts, Hx(buf[:n])+":"+errName(err))
		o.all = append(o.all, buf[:n]...)
		o.lastErr = errName(err)
	}
	o.reads = "-"
	if len(parts) > 0 {
		o.reads = strings.Join(parts, ";")
	}
	o.deadline, o.closed = fc.state()
	o.drained = append([]byte(nil), o.all...)
	o.drainErr = o.lastErr
	for i := 0; drain && i < 1<<16 && (o.drainErr == "-" || o.drainErr == "") && len(o.drained) <= len(stream)+64; i++ {
		buf := make([]byte, 8192)
		n, err := side.got.conn.Read(buf)
		o.drained = append(o.drained, buf[:n]...)
		o.drainErr = errName(err)
	}
	return
}

func obsLine(o muxObs) string {
	return fmt.Sprintf("route=%s reads=%s closed=%s deadline=%s drained=%d:%s", o.route, o.reads, B01(o.closed), B01(o.deadline), len(o.drained), o.drainErr)
}

// runPair: A (script with a gate) and B interleaved as described above
func (r *muxRig) runPair(ka, kb muxCase, budget time.Duration) (oa, ob muxObs, expired bool, panicked string) {
	defer func() {
		if x := recover(); x != nil {
			panicked = fmt.Sprint(x)
		}
	}()
	a := &pairSide{fc: newFake(ka.stream, ka.evs)}
	b := &pairSide{fc: newFake(kb.stream, stripGate(kb.evs))}
	defer a.fc.open()
	feed := func(fc *fakeConn) bool {
		select {
		case r.root.ch <- fc:
			return true
		case <-time.After(budget):
			return false
		}
	}
	if !feed(a.fc) || !r.awaitPair(a, nil, a, true, budget) {
		return oa, ob, true, ""
	}
	if !feed(b.fc) || !r.awaitPair(a, b, b, false, budget) {
		return oa, ob, true, ""
	}
	ob = r.observe(b, kb.stream, kb.sizes, isCleanEvs(stripGate(kb.evs)))
	parked := !a.routed && !a.closed
	a.fc.open()
	if !r.awaitPair(a, b, a, false, budget) {
		return oa, ob, true, ""
	}
	oa = r.observe(a, ka.stream, ka.sizes, isCleanEvs(stripGate(ka.evs)))
	oa.parked = parked
	return
}

func (r *muxRig) runAlone(k muxCase, budget time.Duration) (o muxObs, expired bool, panicked string) {
	defer func() {
		if x := recover(); x != nil {
			panicked = fmt.Sprint(x)
		}
	}()
	a := &pairSide{fc: newFake(k.stream, stripGate(k.evs))}
	select {
	case r.root.ch <- a.fc:
	case <-time.After(budget):
		return o, true, ""
	}
	if !r.awaitPair(a, nil, a, false, budget) {
		return o, true, ""
	}
	return r.observe(a, k.stream, k.sizes, isCleanEvs(stripGate(k.evs))), false, ""
}

func pairLine(ka, kb muxCase) string {
	return fmt.Sprintf("c19 mux2 %s %s %s %s %s %s", Hx(ka.stream), evsString(ka.evs), intsString(ka.sizes), Hx(kb.stream), evsString(kb.evs), intsString(kb.sizes))
}

func runPairs(c *Ctx) {
	type pair struct{ a, b muxCase }
	var pairs []pair
	for _, l := range c.CorpusLines() {
		f := strings.Fields(l)
		if len(f) == 8 && f[0] == "c19" && f[1] == "mux2" {
			pairs = append(pairs, pair{muxCase{stream: Unhx(f[2]), evs: parseEvs(f[3]), sizes: parseInts(f[4])}, muxCase{stream: Unhx(f[5]), evs: parseEvs(f[6]), sizes: parseInts(f[7])}})
		}
	}
	if c.Replay == "" {
		n := c.Budget(1500, 20000)
		for i := 0; i < n; i++ {
			la, lb := genLine(c), genLine(c)
			sa, sb := la.stream(), lb.stream()
			// A: some bytes of the sniffed region, then the gate, then the rest in any segmentation
			evsA := []ev{{kind: 'd', n: 1 + c.Rng.Intn(17)}}
			if c.Rng.Chance(30) {
				evsA = append([]ev{{kind: 'd', n: 1 + c.Rng.Intn(4)}}, evsA...)
			}
			if c.Rng.Chance(10) {
				evsA = nil // parked before its first byte
			}
			evsA = append(evsA, ev{kind: 'w'})
			evsA = append(evsA, genEvs(c, len(sa), c.Rng.Chance(80))...)
			evsB := genEvs(c, len(sb), c.Rng.Chance(80))
			pairs = append(pairs, pair{muxCase{stream: sa, evs: evsA, sizes: genSizes(c, len(sa))}, muxCase{stream: sb, evs: evsB, sizes: genSizes(c, len(sb))}})
		}
	}
	if len(pairs) == 0 {
		return
	}
	rig := newRig()
	defer func() { rig.root.Close() }()
	fresh := func() {
		rig.root.Close()
		rig = newRig()
	}
	for _, p := range pairs {
		line := pairLine(p.a, p.b)
		c.Eval(line, len(p.a.stream) > 0 && len(p.b.stream) > 0)
		// each one alone (this is what the `mux` cases compare with the model) ...
		aloneA, e1, p1 := rig.runAlone(p.a, muxBudget)
		aloneB, e2, p2 := rig.runAlone(p.b, muxBudget)
		if e1 || e2 || p1 != "" || p2 != "" {
			c.Count("mux2-skipped-alone-run-stuck-or-panicked") // reported by the `mux` cases
			fresh()
			continue
		}
		// ... and the two interleaved
		oa, ob, expired, pan := rig.runPair(p.a, p.b, muxBudget)
		if expired {
			c.Count("mux-rerun-with-long-budget")
			fresh()
			oa, ob, expired, pan = rig.runPair(p.a, p.b, muxLongBudget)
		}
		if expired {
			c.Find(Finding{Kind: "oracle", Class: "connection-neither-delivered-nor-closed", Case: line, Impl: "with a second connection in flight: neither handed to a service nor closed after " + muxLongBudget.String(), Spec: obsLine(aloneA) + " / " + obsLine(aloneB)})
			fresh()
			continue
		}
		if pan != "" {
			c.Find(Finding{Kind: "oracle", Class: "sniffer-panic", Case: line, Impl: "panic: " + pan, Spec: "no panic"})
			fresh()
			continue
		}
		c.Count("mux2-pair-" + oa.route + "+" + ob.route)
		if oa.parked {
			c.Count("mux2-first-connection-parked-inside-a-matcher")
		} else {
			c.Count("mux2-first-connection-routed-before-its-gate")
		}
		if obsLine(oa) != obsLine(aloneA) || !bytes.Equal(oa.drained, aloneA.drained) {
			c.Find(Finding{Kind: "oracle", Class: "concurrent-connections-interfere", Case: line, Impl: trunc([]byte(obsLine(oa)), 300), Spec: trunc([]byte(obsLine(aloneA)), 300),
				Detail: "the connection that was parked inside a matcher's read while another connection was served is treated differently from the same connection served alone"})
		}
		if obsLine(ob) != obsLine(aloneB) || !bytes.Equal(ob.drained, aloneB.drained) {
			c.Find(Finding{Kind: "oracle", Class: "concurrent-connections-interfere", Case: line, Impl: trunc([]byte(obsLine(ob)), 300), Spec: trunc([]byte(obsLine(aloneB)), 300),
				Detail: "the connection served while another one was parked inside a matcher's read is treated differently from the same connection served alone"})
		}
	}
}

// ---------------------------------------------------------------- services that accept late
//
// "Each connection reaches exactly one service": also when the services are slow to call
// Accept.  More connections than the per-service queue holds (1024) are matched before either
// service accepts one; afterwards every matched connection must come out of its service's
// Accept exactly once, open, and every unmatched one must have been closed.  All waits are
// for events (deadline cleared = the multiplexer is about to hand the connection over;
// closed; accepted).

func runSlowAccept(c *Ctx) {
	var ns []int
	for _, l := range c.CorpusLines() {
		f := strings.Fields(l)
		if len(f) == 3 && f[0] == "c19" && f[1] == "slowaccept" {
			var n int
			fmt.Sscanf(f[2], "%d", &n)
			if n > 0 && n <= 20000 {
				ns = append(ns, n)
			}
		}
	}
	if c.Replay == "" {
		ns = append(ns, c.Budget(1300, 2600))
	}
	for _, n := range ns {
		// an expired budget alone says nothing: the scenario is run once more with a long one
		f, expired := slowAccept(c, n, muxLongBudget)
		if expired {
			c.Count("mux-rerun-with-long-budget")
			f, _ = slowAccept(c, n, 4*muxLongBudget)
		}
		if f != nil {
			c.Find(*f)
		}
	}
}

// slowAccept: n connections (the first 1100 for the RTSP service, from 2600 on the next 1100
// for the HTTP service, the rest mixed) are matched before any service accepts
func slowAccept(c *Ctx, n int, budget time.Duration) (found *Finding, expired bool) {
	root := &fakeRoot{ch: make(chan net.Conn), closed: make(chan struct{})}
	l := listener.VerifNewFromListener(root)
	l.SetReadTimeout(time.Hour)
	rl := l.Match(rtsp.MatchRTSP())
	hl := l.Match(listener.MatchHTTP())
	go l.Serve()
	defer root.Close()
	lines := []struct{ line, want string }{
		{"DESCRIBE rtsp://h/p RTSP/1.0\r\nCSeq: 1\r\n\r\n", "rtsp"},
		{"GET /index.html HTTP/1.1\r\nHost: x\r\n\r\n", "http"},
		{"OPTIONS * RTSP/1.0\r\nCSeq: 1\r\n\r\n", "rtsp"},
		{"BREW /pot HTCPCP/1.0\r\n\r\n", "closed"},
		{"POST /api HTTP/1.1\r\nContent-Length: 0\r\n\r\n", "http"},
	}
	type one struct {
		fc   *fakeConn
		want string
		line string
	}
	conns := make([]one, n)
	want := map[string]int{}
	fail := func(class, impl, spec string) {
		found = &Finding{Kind: "oracle", Class: class, Case: fmt.Sprintf("c19 slowaccept %d", n), Impl: impl, Spec: spec,
			Detail: "services that call Accept only after all connections have been matched; the line replays the whole scenario"}
	}
	deadline := time.After(budget)
	for i := range conns {
		// first more RTSP connections than the RTSP service's queue (1024) holds, then a mix;
		// thorough tier: the HTTP queue overflows too
		lc := lines[i%len(lines)]
		switch {
		case i < 1100:
			lc = lines[[]int{0, 2}[i%2]]
		case n >= 2600 && i < 2200:
			lc = lines[[]int{1, 4}[i%2]]
		}
		conns[i] = one{newFake([]byte(lc.line), nil), lc.want, lc.line}
		want[lc.want]++
		select {
		case root.ch <- conns[i].fc:
		case <-deadline:
			expired = true
			fail("connection-neither-delivered-nor-closed", fmt.Sprintf("Serve stopped accepting after %d connections while no service was accepting", i), "every connection is served")
			return
		}
	}
	// every connection is either closed or about to be handed over
	for i := range conns {
		select {
		case <-conns[i].fc.cleared:
		case <-conns[i].fc.closeCh:
		case <-deadline:
			expired = true
			fail("connection-neither-delivered-nor-closed", fmt.Sprintf("connection %d (%q) was neither matched nor closed", i, conns[i].line), conns[i].want)
			return
		}
	}
	// now the services start accepting
	got := map[*fakeConn][]string{}
	type accd struct {
		svc string
		c   net.Conn
	}
	ch := make(chan accd, n)
	for _, p := range []struct {
		n string
		l net.Listener
	}{{"rtsp", rl}, {"http", hl}} {
		p := p
		go func() {
			for {
				cn, err := p.l.Accept()
				if err != nil {
					return
				}
				ch <- accd{p.n, cn}
			}
		}()
	}
	need := want["rtsp"] + want["http"]
	// a matched connection that is closed instead of being handed over is an event too
	stop := make(chan struct{})
	defer close(stop)
	closedMatched := make(chan int, n)
	for i := range conns {
		if conns[i].want != "closed" {
			go func(i int) {
				select {
				case <-conns[i].fc.closeCh:
					closedMatched <- i
				case <-stop:
				}
			}(i)
		}
	}
	for k := 0; k < need; k++ {
		select {
		case i := <-closedMatched:
			fail("route-closed-expected-"+conns[i].want, fmt.Sprintf("connection %d %q was matched and then closed instead of reaching the %s service (services accepting late)", i, conns[i].line, conns[i].want), conns[i].want)
			return
		case a := <-ch:
			if lc, ok := a.c.(*listener.Conn); ok {
				if fc, ok := lc.Conn.(*fakeConn); ok {
					got[fc] = append(got[fc], a.svc)
				}
			}
		case <-deadline:
			expired = true
			fail("not-exactly-one-service", fmt.Sprintf("only %d of %d matched connections came out of Accept", k, need), "every matched connection reaches its service")
			return
		}
	}
	c.Eval(fmt.Sprintf("c19 slowaccept %d", n), true)
	c.CountN("slowaccept-connections", n)
	for i := range conns {
		k := conns[i]
		_, closed := k.fc.state()
		switch {
		case k.want == "closed":
			if !closed || len(got[k.fc]) != 0 {
				fail("route-"+strings.Join(got[k.fc], "+")+"-expected-closed", fmt.Sprintf("connection %d %q: delivered to %v closed=%v", i, k.line, got[k.fc], closed), "closed")
				return
			}
		case len(got[k.fc]) != 1 || got[k.fc][0] != k.want:
			fail("not-exactly-one-service", fmt.Sprintf("connection %d %q: delivered to %v", i, k.line, got[k.fc]), k.want+", once")
			return
		case closed:
			fail("delivered-connection-closed", fmt.Sprintf("connection %d %q: delivered to %s and closed", i, k.line, k.want), "a delivered connection stays open")
			return
		}
	}
	return
}

// ---------------------------------------------------------------- generators

var rtspOnly = []string{"DESCRIBE", "ANNOUNCE", "SETUP", "PLAY", "PAUSE", "TEARDOWN", "GET_PARAMETER", "SET_PARAMETER", "RECORD", "REDIRECT"}
var httpM = []string{"GET", "HEAD", "POST", "PATCH", "PUT", "DELETE", "TRACE", "CONNECT"}
var nearMiss = []string{"describe", "Options", "options", "DESCRIB", "GET_PARAMETE", "SET_PARAMETE", "GE", "G", "OPTION", "PLA", "PAUS", "TEARDOW", "PO", "P", "OPTIONS*", "RECOR", "REDIREC", "ANNOUNC", "SETU", "CONNEC", "TRAC", "HEA", "DELET", "PATC"}
var unknownM = []string{"FOO", "BREW", "PROPFIND", "MKCOL", "X", "SSH-2.0-OpenSSH", "\x16\x03\x01", "HELO", "QUIT", "rtsp", "http"}
var extended = []string{"GETX", "PLAYER", "PLAYLIST", "POSTER", "PUTS", "OPTIONSX", "SETUP2", "DESCRIBES", "GET_PARAMETERS", "HEADER", "RECORDING", "PAUSED"}
var targets = []string{"*", "rtsp://h/p", "rtsp://127.0.0.1:554/live/a", "RTSP://H/", "rtsp://[::1]:554/x", "Rtsp://x/", "rTSP://x", "rtsp:/x", "rtsp:", "rtsp", "/", "/index.html", "/api/v1/streams?x=1", "http://x/", "*x", "**", "", "* ", "rtsps://h/", "RTSP:/", "RTSP://"}
var versions = []string{"RTSP/1.0", "rtsp/1.0", "RTSP/2.0", "HTTP/1.1", "HTTP/1.0", "Rtsp/1.0", "rTSP/1.0", "RTS", "RTSP", "rtsp", "", "HTTP/2", "RTSPX/1.0"}

func pickS(c *Ctx, s []string) string { return s[c.Rng.Intn(len(s))] }

type lineCase struct {
	method, target, version string
	junk                    string // arbitrary prefix before the line
	rest                    []byte
	kind                    string
}

func genLine(c *Ctx) lineCase {
	var lc lineCase
	switch r := c.Rng.Intn(100); {
	case r < 22:
		lc.method, lc.kind = pickS(c, rtspOnly), "rtsp-method"
	case r < 44:
		lc.method, lc.kind = pickS(c, httpM), "http-method"
	case r < 68:
		lc.method, lc.kind = "OPTIONS", "options"
	case r < 80:
		lc.method, lc.kind = pickS(c, nearMiss), "near-miss"
	case r < 88:
		lc.method, lc.kind = pickS(c, unknownM), "unknown"
	case r < 95:
		lc.method, lc.kind = pickS(c, extended), "extended"
	default:
		n := c.Rng.Intn(6)
		b := make([]byte, n)
		for i := range b {
			b[i] = c.Rng.Pick("ABCDEGHILNOPRSTU_ *$\r\n\x00\xff")
		}
		lc.method, lc.kind = string(b), "random"
	}
	lc.target = pickS(c, targets)
	lc.version = pickS(c, versions)
	if lc.kind == "options" || lc.kind == "rtsp-method" {
		// bias to the decisive combinations
		switch c.Rng.Intn(6) {
		case 0:
			lc.target, lc.version = "*", "RTSP/1.0"
		case 1:
			lc.target, lc.version = "*", "HTTP/1.1"
		case 2:
			lc.target = "rtsp://cam/live"
		case 3:
			lc.target, lc.version = "/x", "HTTP/1.1"
		}
	}
	if c.Rng.Chance(12) {
		lc.junk = pickS(c, []string{"\r\n", " ", "\n", "\x00", "$\x00\x00\x04abcd", "\x16\x03\x01\x02\x00", "xx", "\xff\xfe", "o", "  ", "\t"})
		lc.kind = "junk+" + lc.kind
	}
	// payload after the first line
	var rest bytes.Buffer
	rest.WriteString("\r\n")
	if c.Rng.Chance(70) {
		rest.WriteString("CSeq: 1\r\nUser-Agent: verif\r\n")
	}
	rest.WriteString("\r\n")
	switch c.Rng.Intn(6) {
	case 0:
	case 1:
		rest.Write(c.Rng.Bytes(c.Rng.Intn(20)))
	case 2:
		rest.Write(c.Rng.Bytes(c.Rng.Intn(300)))
	case 3:
		rest.Write(c.Rng.Bytes(1000 + c.Rng.Intn(4000)))
	case 4:
		rest.Write(c.Rng.Bytes(c.Rng.Intn(3)))
	case 5:
		if c.Rng.Chance(10) {
			rest.Write(c.Rng.Bytes(20000 + c.Rng.Intn(50000)))
		}
	}
	lc.rest = rest.Bytes()
	if c.Rng.Chance(4) { // bare first line, nothing after (short streams: the matcher sees EOF)
		lc.rest = nil
	}
	return lc
}

func (lc lineCase) stream() []byte {
	var b bytes.Buffer
	b.WriteString(lc.junk)
	b.WriteString(lc.method)
	b.WriteByte(' ')
	b.WriteString(lc.target)
	b.WriteByte(' ')
	b.WriteString(lc.version)
	b.Write(lc.rest)
	return b.Bytes()
}

// genEvs: the peer's segmentation. clean=true → only deliveries (any sizes).
func genEvs(c *Ctx, total int, clean bool) []ev {
	var evs []ev
	switch c.Rng.Intn(8) {
	case 0: // everything at once
		return nil
	case 1: // byte by byte for the first 40 bytes
		for i := 0; i < 40; i++ {
			evs = append(evs, ev{kind: 'd', n: 1})
		}
	case 2: // one small first segment, then the rest
		evs = append(evs, ev{kind: 'd', n: 1 + c.Rng.Intn(20)})
	default:
		n := 1 + c.Rng.Intn(12)
		for i := 0; i < n; i++ {
			var sz int
			switch c.Rng.Intn(4) {
			case 0:
				sz = 1 + c.Rng.Intn(3)
			case 1:
				sz = 1 + c.Rng.Intn(17)
			case 2:
				sz = 1 + c.Rng.Intn(200)
			default:
				sz = 1 + c.Rng.Intn(5000)
			}
			evs = append(evs, ev{kind: 'd', n: sz})
		}
	}
	if clean {
		return evs
	}
	// dirty: insert failures
	k := 1 + c.Rng.Intn(2)
	for i := 0; i < k; i++ {
		pos := 0
		if len(evs) > 0 {
			pos = c.Rng.Intn(len(evs) + 1)
			if c.Rng.Chance(60) && pos > 3 {
				pos = c.Rng.Intn(4)
			}
		}
		var e ev
		switch c.Rng.Intn(10) {
		case 0, 1, 2, 3, 4:
			e = ev{kind: 'f', e: 't'}
		case 5, 6:
			e = ev{kind: 'f', e: 'e'}
		case 7:
			e = ev{kind: 'f', e: 'o'}
		case 8:
			e = ev{kind: 'x', n: 1 + c.Rng.Intn(20), e: 'e'}
		default:
			e = ev{kind: 'x', n: 1 + c.Rng.Intn(20), e: "to"[c.Rng.Intn(2)]}
		}
		evs = append(evs[:pos], append([]ev{e}, evs[pos:]...)...)
	}
	return evs
}

func genSizes(c *Ctx, total int) []int {
	var ks []int
	mode := c.Rng.Intn(6)
	sum := 0
	for sum <= total+2 && len(ks) < 400 {
		var k int
		switch mode {
		case 0:
			k = 1
			if len(ks) > 60 {
				k = 4096
			}
		case 1:
			k = 1 + c.Rng.Intn(8)
			if len(ks) > 60 {
				k = 4096
			}
		case 2:
			k = 4096
		case 3:
			k = 1 + c.Rng.Intn(64)
			if len(ks) > 80 {
				k = 65536
			}
		case 4:
			k = []int{1, 2, 3, 7, 8, 15, 16, 17, 512, 1024, 4096, 65536}[c.Rng.Intn(12)]
		default:
			k = 1 + c.Rng.Intn(4096)
		}
		ks = append(ks, k)
		sum += k
	}
	// a few more reads to observe EOF
	ks = append(ks, 16, 16)
	return ks
}

func intsString(ks []int) string {
	if len(ks) == 0 {
		return "-"
	}
	s := make([]string, len(ks))
	for i, k := range ks {
		s[i] = fmt.Sprint(k)
	}
	return strings.Join(s, ",")
}

// ---------------------------------------------------------------- case plumbing

type muxCase struct {
	stream  []byte
	evs     []ev
	sizes   []int
	lc      *lineCase // nil for corpus / raw cases
	clean   bool
	silent  bool
	evsText string
}

func parseEvs(s string) []ev {
	if s == "-" {
		return nil
	}
	var out []ev
	for _, t := range strings.Split(s, ",") {
		var e ev
		e.kind = t[0]
		switch e.kind {
		case 'd':
			fmt.Sscanf(t[1:], "%d", &e.n)
		case 'f':
			e.e = t[1]
		case 'w':
		case 'x':
			var ec string
			parts := strings.SplitN(t[1:], ".", 2)
			fmt.Sscanf(parts[0], "%d", &e.n)
			ec = parts[1]
			e.e = ec[0]
		}
		out = append(out, e)
	}
	return out
}

func parseInts(s string) []int {
	if s == "-" {
		return nil
	}
	var out []int
	for _, t := range strings.Split(s, ",") {
		var k int
		fmt.Sscanf(t, "%d", &k)
		out = append(out, k)
	}
	return out
}

func isCleanEvs(evs []ev) bool {
	for _, e := range evs {
		if e.kind != 'd' {
			return false
		}
	}
	return true
}

func run(c *Ctx) {
	c.Res.Rule = "mux case = (byte stream, peer segmentation/failure script, service read sizes); ops case = (stream, script, start/done/read sequence); pt case = (string set, mode, input). Distinct by the op line; non-trivial when the stream is non-empty (mux/ops) or the set has ≥ 2 strings (pt)."
	runPatricia(c)
	runOps(c)
	if sawPanic {
		// Listener.serve runs the matchers in its own goroutines: a panic there would take the
		// whole harness down and lose the findings already made
		c.Note("mux and loopback runs skipped: the matcher / sniffer panicked in the direct runs above")
		return
	}
	runMux(c)
	runPairs(c)
	runSlowAccept(c)
	if c.Replay == "" {
		runLoopback(c)
	}
}

// ---------------------------------------------------------------- loopback TCP
//
// A few connections through the real listener.New on a loopback TCP port (covers New /
// net.Listen / the kernel path; segmentation is only sampled here).
//
// No verdict here depends on how fast anything is scheduled:
//   - the stub services report per connection (keyed by the client's address): one event
//     when they accept it and one, with everything they read, BEFORE they close it.  So
//     when the client sees its connection end, a report - if the connection reached a
//     service at all - is already queued; "no report and the connection ended" is the
//     event "closed by the multiplexer", not the expiry of a grace period;
//   - every wait is for one of those events; the budgets only bound a wait for something
//     that never happens (first lbBudget, then the case is run again alone with
//     lbLongBudget; only a connection that is still neither delivered nor closed after
//     that is reported, as a stable wrong state);
//   - the sniff time-out of the main listener is so long that it never fires; the
//     listener with the short time-out is only used for connections that must be closed
//     whenever the time-out fires (silence, or a fragment that is no method name).

const (
	lbBudget     = 60 * time.Second
	lbLongBudget = 5 * time.Minute
	lbNever      = 30 * time.Minute
)

type lbEvent struct {
	svc   string
	data  []byte
	final bool
}

type lbHub struct {
	mu sync.Mutex
	ch map[string]chan lbEvent
}

func (h *lbHub) get(peer string) chan lbEvent {
	h.mu.Lock()
	defer h.mu.Unlock()
	if h.ch == nil {
		h.ch = map[string]chan lbEvent{}
	}
	c, ok := h.ch[peer]
	if !ok {
		c = make(chan lbEvent, 16)
		h.ch[peer] = c
	}
	return c
}

func (h *lbHub) drop(peer string) {
	h.mu.Lock()
	delete(h.ch, peer)
	h.mu.Unlock()
}

// put never blocks the stub: a channel that is full (more than 16 events for one
// connection cannot happen with two stubs) drops the event
func put(ch chan lbEvent, e lbEvent) {
	select {
	case ch <- e:
	default:
	}
}

func (h *lbHub) stub(name string, ln net.Listener) {
	for {
		conn, err := ln.Accept()
		if err != nil {
			return
		}
		ch := h.get(conn.RemoteAddr().String())
		put(ch, lbEvent{svc: name})
		go func() {
			buf := make([]byte, 0, 4096)
			tmp := make([]byte, 1+len(name)) // odd read size
			_ = conn.SetReadDeadline(time.Now().Add(lbNever))
			for {
				n, err := conn.Read(tmp)
				buf = append(buf, tmp[:n]...)
				if err != nil || len(buf) > 1<<20 {
					break
				}
			}
			put(ch, lbEvent{svc: name, data: buf, final: true}) // before Close, see above
			conn.Close()
		}()
	}
}

type lbRig struct {
	l   *listener.Listener
	hub *lbHub
}

func newLbRig(sniff time.Duration) (*lbRig, error) {
	l, err := listener.New("127.0.0.1:0", nil)
	if err != nil {
		return nil, err
	}
	l.SetReadTimeout(sniff)
	r := &lbRig{l: l, hub: &lbHub{}}
	// service.listen's order: RTSP before HTTP
	go r.hub.stub("rtsp", l.Match(rtsp.MatchRTSP()))
	go r.hub.stub("http", l.Match(listener.MatchHTTP()))
	go l.Serve()
	return r, nil
}

type lbCase struct {
	raw     string // first line (+ headers)
	payload []byte
	cut     int  // the client writes payload[:cut], pauses, writes the rest
	hold    bool // the client keeps its write side open and stays silent after the payload
	want    string
}

type lbOutcome struct {
	route   string // rtsp | http | closed | none
	data    []byte
	expired bool   // the budget ran out: nothing can be said
	extra   string // delivered twice / to both
	note    string
}

// run one connection; every wait is for an event (see above)
func (r *lbRig) run(k lbCase, budget time.Duration) (o lbOutcome) {
	conn, err := net.DialTimeout("tcp", r.l.Addr().String(), budget)
	if err != nil {
		return lbOutcome{expired: true, note: "dial: " + err.Error()}
	}
	defer conn.Close()
	local := conn.LocalAddr().String()
	ch := r.hub.get(local)
	defer r.hub.drop(local)
	closeWrite := func() {
		if tc, ok := conn.(*net.TCPConn); ok {
			tc.CloseWrite()
		}
	}
	if k.cut > 0 && k.cut < len(k.payload) {
		conn.Write(k.payload[:k.cut])
		time.Sleep(2 * time.Millisecond) // only makes two segments likely; nothing depends on it
		conn.Write(k.payload[k.cut:])
	} else if len(k.payload) > 0 {
		conn.Write(k.payload)
	}
	if !k.hold {
		closeWrite()
	}
	// the client side: the connection ends (EOF / reset) when the other side closed it
	end := make(chan string, 1)
	go func() {
		b := make([]byte, 64)
		_ = conn.SetReadDeadline(time.Now().Add(budget + 30*time.Second))
		for {
			_, err := conn.Read(b)
			if err == nil {
				continue
			}
			if ne, ok := err.(net.Error); ok && ne.Timeout() {
				end <- "timeout"
			} else {
				end <- "ended"
			}
			return
		}
	}()
	timer := time.NewTimer(budget)
	defer timer.Stop()
	accepted := ""
	take := func(e lbEvent) (done bool) {
		if accepted != "" && e.svc != accepted {
			o.extra = "delivered to " + accepted + " and to " + e.svc
		}
		if accepted != "" && !e.final && e.svc == accepted {
			o.extra = "delivered twice to " + e.svc
		}
		accepted = e.svc
		if e.final {
			o.route, o.data = e.svc, e.data
			return true
		}
		if k.hold {
			closeWrite() // delivered although it should not have been: let the stub finish
		}
		return false
	}
	for {
		select {
		case e := <-ch:
			if take(e) {
				return o
			}
		case kind := <-end:
			end = nil
			// whatever a stub had to say about this connection before closing it is queued by now
			for more := true; more; {
				select {
				case e := <-ch:
					if take(e) {
						return o
					}
				default:
					more = false
				}
			}
			if accepted != "" {
				continue // closed under the service's feet: its report follows
			}
			if kind == "timeout" {
				o.expired, o.route = true, "none"
				return o
			}
			o.route = "closed"
			return o
		case <-timer.C:
			o.expired = true
			o.route = "none"
			if accepted != "" {
				o.note = "accepted by " + accepted + " but its reads did not end"
			}
			return o
		}
	}
}

func runLoopback(c *Ctx) {
	mainRig, err := newLbRig(lbNever)
	if err != nil {
		c.Note("loopback run skipped: " + err.Error())
		return
	}
	defer mainRig.l.Close()
	short, err := newLbRig(150 * time.Millisecond)
	if err != nil {
		c.Note("loopback run skipped: " + err.Error())
		return
	}
	defer short.l.Close()
	lines := []struct{ line, want string }{
		{"OPTIONS * RTSP/1.0\r\nCSeq: 1\r\n\r\n", "rtsp"},
		{"OPTIONS * HTTP/1.1\r\nHost: x\r\n\r\n", "http"},
		{"OPTIONS rtsp://127.0.0.1/live RTSP/1.0\r\nCSeq: 1\r\n\r\n", "rtsp"},
		{"OPTIONS /api HTTP/1.1\r\nHost: x\r\n\r\n", "http"},
		{"DESCRIBE rtsp://127.0.0.1/live RTSP/1.0\r\nCSeq: 2\r\n\r\n", "rtsp"},
		{"GET_PARAMETER rtsp://127.0.0.1/live RTSP/1.0\r\nCSeq: 3\r\n\r\n", "rtsp"},
		{"GET /index.html HTTP/1.1\r\nHost: x\r\n\r\n", "http"},
		{"POST /api/v1/login HTTP/1.1\r\nContent-Length: 2\r\n\r\n{}", "http"},
		{"BREW /pot HTCPCP/1.0\r\n\r\n", "closed"},
		{"\x16\x03\x01\x02\x00\x01\x00\x01\xfc\x03\x03 tls client hello", "closed"},
	}
	type job struct {
		rig  *lbRig
		k    lbCase
		name string
	}
	var seq, conc []job
	for i, lc := range lines {
		payload := append([]byte(lc.line), c.Rng.Bytes(i*37)...)
		seq = append(seq, job{mainRig, lbCase{raw: lc.line, payload: payload, cut: 1 + c.Rng.Intn(len(lc.line)-1), want: lc.want}, fmt.Sprintf("loopback %d", i)})
	}
	// connections that must be closed when the sniff time-out fires: silence, or a fragment
	// that is not the beginning of any request line (no listed method is a prefix of it)
	for i, pre := range []string{"", "DESCR", "G", "OPTION", "xyz", "\r\n"} {
		seq = append(seq, job{short, lbCase{raw: pre, payload: []byte(pre), hold: true, want: "closed"}, fmt.Sprintf("loopback silent %d", i)})
	}
	// many connections at once (the multiplexer serves each in its own goroutine)
	nc := c.Budget(32, 256)
	for i := 0; i < nc; i++ {
		lc := lines[c.Rng.Intn(len(lines))]
		payload := append([]byte(lc.line), c.Rng.Bytes(c.Rng.Intn(3000))...)
		conc = append(conc, job{mainRig, lbCase{raw: lc.line, payload: payload, cut: 1 + c.Rng.Intn(len(lc.line)-1), want: lc.want}, fmt.Sprintf("loopback concurrent %d", i)})
	}
	judge := func(j job, o lbOutcome, mode string) {
		caseLine := "c19 mux " + Hx(j.k.payload) + " - 4096"
		if j.k.hold {
			caseLine = "c19 mux " + Hx(j.k.payload) + " " + evsString(holdEvs(len(j.k.payload))) + " 4,64,16"
		}
		c.Eval(j.name, true)
		c.Count("loopback-" + mode + "-route-" + o.route)
		detail := fmt.Sprintf("loopback TCP through listener.New (%s); client wrote %q", mode, trunc(j.k.payload, 60))
		switch {
		case o.expired:
			c.Find(Finding{Kind: "oracle", Class: "connection-neither-delivered-nor-closed", Case: caseLine, Impl: "after " + lbLongBudget.String() + ": no service finished reading the connection and it was not closed " + o.note, Spec: j.k.want, Detail: detail})
		case o.route != j.k.want:
			c.Find(Finding{Kind: "oracle", Class: fmt.Sprintf("route-%s-expected-%s", o.route, j.k.want), Case: caseLine, Impl: o.route, Spec: j.k.want, Detail: detail})
		case o.route != "closed" && !bytes.Equal(o.data, j.k.payload):
			c.Find(Finding{Kind: "oracle", Class: "service-bytes-lost-or-altered", Case: caseLine, Impl: fmt.Sprintf("%d bytes", len(o.data)), Spec: fmt.Sprintf("%d bytes", len(j.k.payload)), Detail: detail})
		}
		if o.extra != "" {
			c.Find(Finding{Kind: "oracle", Class: "not-exactly-one-service", Case: caseLine, Impl: o.extra, Spec: "each connection reaches exactly one service or is closed", Detail: detail})
		}
	}
	// an expired budget says nothing: the case is run again, alone, with the long budget
	again := func(j job, o lbOutcome) lbOutcome {
		if !o.expired {
			return o
		}
		c.Count("loopback-rerun-with-long-budget")
		return j.rig.run(j.k, lbLongBudget)
	}
	for _, j := range seq {
		judge(j, again(j, j.rig.run(j.k, lbBudget)), "sequential")
	}
	outs := make([]lbOutcome, len(conc))
	var wg sync.WaitGroup
	for i := range conc {
		wg.Add(1)
		go func(i int) {
			defer wg.Done()
			outs[i] = conc[i].rig.run(conc[i].k, lbBudget)
		}(i)
	}
	wg.Wait()
	for i, j := range conc {
		judge(j, again(j, outs[i]), "concurrent")
	}
}

// the scripted equivalent of "the client wrote n bytes and then stayed silent"
func holdEvs(n int) []ev {
	if n == 0 {
		return []ev{{kind: 'f', e: 't'}}
	}
	return []ev{{kind: 'd', n: n}, {kind: 'f', e: 't'}}
}

// ---------------------------------------------------------------- mux

func runMux(c *Ctx) {
	var cases []muxCase
	for _, l := range c.CorpusLines() {
		f := strings.Fields(l)
		if len(f) == 5 && f[0] == "c19" && f[1] == "mux" {
			evs := parseEvs(f[3])
			cases = append(cases, muxCase{stream: Unhx(f[2]), evs: evs, sizes: parseInts(f[4]), clean: isCleanEvs(evs)})
		}
	}
	if c.Replay == "" {
		// every listed method × decisive targets/versions, delivered at once and byte by byte
		all := append(append([]string{"OPTIONS"}, rtspOnly...), httpM...)
		for _, m := range all {
			for _, t := range []string{"*", "rtsp://h/p", "RTSP://h/p", "/", "Rtsp://h"} {
				for _, v := range []string{"RTSP/1.0", "rtsp/1.0", "HTTP/1.1"} {
					lc := lineCase{method: m, target: t, version: v, rest: []byte("\r\nCSeq: 1\r\n\r\n"), kind: "grid"}
					s := lc.stream()
					lcc := lc
					cases = append(cases, muxCase{stream: s, lc: &lcc, clean: true, sizes: []int{5, 4096, 16}})
					var one []ev
					for i := 0; i < 20; i++ {
						one = append(one, ev{kind: 'd', n: 1})
					}
					lcd := lc
					cases = append(cases, muxCase{stream: s, evs: one, lc: &lcd, clean: true, sizes: []int{1, 1, 1, 4096, 16}})
				}
			}
		}
		// all first-segment sizes 1..20 on two decisive lines (every split of the sniffed region)
		for _, line := range []string{"OPTIONS * RTSP/1.0\r\nCSeq: 1\r\n\r\n", "OPTIONS * HTTP/1.1\r\nHost: x\r\n\r\n", "GET_PARAMETER rtsp://h/ RTSP/1.0\r\n\r\n", "GET / HTTP/1.1\r\n\r\n"} {
			for a := 1; a <= 20; a++ {
				for b := 1; b <= 3; b++ {
					f := strings.SplitN(strings.SplitN(line, "\r\n", 2)[0], " ", 3)
					lc := lineCase{method: f[0], target: f[1], version: f[2], rest: []byte(line[len(f[0])+len(f[1])+len(f[2])+2:]), kind: "splits"}
					cases = append(cases, muxCase{stream: []byte(line), evs: []ev{{kind: 'd', n: a}, {kind: 'd', n: b}}, lc: &lc, clean: true, sizes: []int{a, b, 4096, 16}})
				}
			}
		}
		// silence and partial lines followed by silence / EOF
		for _, pre := range []string{"", "G", "GE", "GET", "GET ", "OPTIONS", "OPTIONS * RTS", "OPTIONS * RTSP", "DESCRIB", "DESCRIBE", "PLAY", "GET_PARA", "GET_PARAMETER", "xyz", "OPTIONS rtsp:/", "OPTIONS rtsp://"} {
			for _, end := range []byte{'t', 'e', 'o'} {
				evs := []ev{}
				if pre != "" {
					evs = append(evs, ev{kind: 'd', n: len(pre)})
				}
				evs = append(evs, ev{kind: 'f', e: end})
				cases = append(cases, muxCase{stream: []byte(pre), evs: evs, sizes: []int{4, 64, 16}, silent: pre == "" && end == 't'})
			}
		}
		// a first segment of every length 1..20, then a pause past the sniff time-out / an error /
		// an early EOF inside the matcher's read, then the rest; services with small and large buffers
		for _, line := range []string{"DESCRIBE rtsp://h/live/a RTSP/1.0\r\nCSeq: 1\r\n\r\n", "OPTIONS * RTSP/1.0\r\nCSeq: 1\r\n\r\n", "GET /live/a.flv HTTP/1.1\r\nHost: x\r\n\r\n", "POST /api/v1/login HTTP/1.1\r\nContent-Length: 2\r\n\r\n{}"} {
			for a := 1; a <= 20; a++ {
				for _, end := range []byte{'t', 'o', 'e'} {
					for _, sizes := range [][]int{{1, 1, 1, 4096, 16}, {4096, 16}, {a, 3, 4096, 16}, {7, 64, 16}} {
						cases = append(cases, muxCase{stream: []byte(line), evs: []ev{{kind: 'd', n: a}, {kind: 'f', e: end}}, sizes: sizes})
					}
				}
			}
		}
		n := c.Budget(12000, 150000)
		for i := 0; i < n; i++ {
			lc := genLine(c)
			s := lc.stream()
			clean := c.Rng.Chance(70)
			lcc := lc
			cases = append(cases, muxCase{stream: s, evs: genEvs(c, len(s), clean), sizes: genSizes(c, len(s)), lc: &lcc, clean: clean})
		}
	}

	lines := make([]string, 0, 2*len(cases))
	for i := range cases {
		k := &cases[i]
		k.evsText = evsString(k.evs)
		lines = append(lines, fmt.Sprintf("c19 mux %s %s %s", Hx(k.stream), k.evsText, intsString(k.sizes)))
		if k.lc != nil {
			lines = append(lines, fmt.Sprintf("c19 cls %s %s %s", Hx([]byte(k.lc.junk+k.lc.method)), Hx([]byte(k.lc.target)), Hx([]byte(k.lc.version))))
		} else {
			lines = append(lines, "c19 cls - - -")
		}
	}
	outs := c.Drive(lines)
	rig := newRig()
	stuck := 0
	for i := range cases {
		k := &cases[i]
		line := lines[2*i]
		m := KV(outs[2*i])
		cl := KV(outs[2*i+1])
		o, pan := rig.runCase(k.stream, k.evs, k.sizes, true, muxBudget)
		c.Eval(line, len(k.stream) > 0)
		if o.route == "stuck" {
			// an expired watchdog alone says nothing: once more, alone, on a fresh multiplexer, long budget
			c.Count("mux-rerun-with-long-budget")
			rig.root.Close()
			rig = newRig()
			o, pan = rig.runCase(k.stream, k.evs, k.sizes, true, muxLongBudget)
		}
		if o.route == "stuck" {
			rig.root.Close()
			rig = newRig()
			c.Find(Finding{Kind: "oracle", Class: "connection-neither-delivered-nor-closed", Case: line, Impl: "no service got the connection and it was not closed", Spec: "exactly one service, or closed"})
			stuck++
			if stuck >= 2 {
				c.Note("mux run stopped: connections are left neither delivered nor closed")
				break
			}
			continue
		}
		implLine := fmt.Sprintf("route=%s reads=%s closed=%s deadline=%s", o.route, o.reads, B01(o.closed), B01(o.deadline))
		if pan != "" {
			implLine = "panic"
		}
		modelLine := outs[2*i]
		if outs[2*i] != "panic" {
			modelLine = fmt.Sprintf("route=%s reads=%s closed=%s deadline=%s", m["route"], m["reads"], m["closed"], m["deadline"])
		}
		c.Count("mux-route-" + o.route)
		if k.lc != nil {
			c.Count("mux-kind-" + strings.TrimPrefix(k.lc.kind, "junk+"))
			if k.lc.junk != "" {
				c.Count("mux-junk-prefix")
			}
		}
		if k.clean {
			c.Count("mux-clean-script")
		} else {
			c.Count("mux-script-with-failures")
		}
		switch {
		case len(k.stream) < 16:
			c.Count("mux-stream<16")
		case len(k.stream) < 1024:
			c.Count("mux-stream<1k")
		default:
			c.Count("mux-stream>=1k")
		}
		if i%(len(cases)/6+1) == 0 {
			c.Sample(fmt.Sprintf("mux stream=%q.. evs=%s sizes=%.30s impl=%s", trunc(k.stream, 40), trunc([]byte(k.evsText), 40), intsString(k.sizes), trunc([]byte(implLine), 90)))
		}
		if implLine != modelLine {
			c.Find(Finding{Kind: "corr", Class: "mux", Case: line, Impl: trunc([]byte(implLine), 300), Model: trunc([]byte(modelLine), 300)})
		}
		if o.extra != "" {
			c.Find(Finding{Kind: "oracle", Class: "not-exactly-one-service", Case: line, Impl: o.extra, Spec: "each connection reaches exactly one service or is closed"})
		}
		if o.route != "closed" && o.closed {
			c.Find(Finding{Kind: "oracle", Class: "delivered-connection-closed", Case: line, Impl: "delivered to " + o.route + " and closed", Spec: "a delivered connection stays open"})
		}
		// ---- specification oracle
		if k.silent && o.route != "closed" {
			c.Find(Finding{Kind: "oracle", Class: "silent-connection-not-closed", Case: line, Impl: o.route, Spec: "closed"})
		}
		// whatever the peer's segmentation, pauses and failures: a stream that does not begin with
		// a listed method is not a request line of either protocol, so nobody may get it
		if pan == "" && !startsWithListed(string(k.stream)) {
			c.Count("mux-oracle-no-method-at-start")
			if o.route != "closed" {
				c.Find(Finding{Kind: "oracle", Class: fmt.Sprintf("route-%s-expected-closed", o.route), Case: line, Impl: o.route, Spec: "closed",
					Detail: fmt.Sprintf("the stream %q does not begin with a listed method", trunc(k.stream, 40))})
			}
		}
		if k.lc != nil && k.clean && pan == "" {
			want := cl["spec"]
			applicable := cl["tok"] == "1" && cl["ext"] == "0"
			if k.lc.junk != "" {
				// an arbitrary prefix that is not the start of a listed method: not a request line
				want = "closed"
				applicable = !startsWithListed(k.lc.junk + k.lc.method)
			}
			if !applicable {
				c.Count("mux-oracle-skipped-extension-token")
			} else {
				c.Count("mux-oracle-" + want)
				if o.route != want {
					c.Find(Finding{Kind: "oracle", Class: fmt.Sprintf("route-%s-expected-%s", o.route, want), Case: line, Impl: o.route, Spec: want,
						Detail: fmt.Sprintf("first line %q", k.lc.junk+k.lc.method+" "+k.lc.target+" "+k.lc.version)})
				}
			}
		}
		// the service reads the original stream, from its first byte, in order, nothing lost:
		// with a clean script and enough reads it sees the whole stream and then EOF
		if o.route == "rtsp" || o.route == "http" {
			if !bytes.HasPrefix(k.stream, o.all) {
				c.Find(Finding{Kind: "oracle", Class: "service-bytes-not-a-prefix-of-the-stream", Case: line, Impl: trunc(o.all, 60), Spec: trunc(k.stream, 60)})
			} else if k.clean {
				// reading on until the end: exactly the original stream, then EOF
				if !bytes.Equal(o.drained, k.stream) {
					c.Find(Finding{Kind: "oracle", Class: "service-bytes-lost-or-altered", Case: line, Impl: fmt.Sprintf("%d bytes %s", len(o.drained), trunc(o.drained, 40)), Spec: fmt.Sprintf("%d bytes %s", len(k.stream), trunc(k.stream, 40))})
				} else if o.drainErr != "eof" {
					c.Find(Finding{Kind: "oracle", Class: "service-no-eof", Case: line, Impl: o.drainErr, Spec: "eof"})
				}
			}
			// any script (pauses, time-outs, errors anywhere): read by read against the socket
			if pan == "" && o.specApplies {
				if k.clean {
					c.Count("mux-oracle-socket-errors-clean-script")
				} else {
					c.Count("mux-oracle-socket-errors-script-with-failures")
				}
				if o.specClass != "" {
					c.Find(Finding{Kind: "oracle", Class: o.specClass, Case: line, Impl: o.specImpl, Spec: o.specSpec,
						Detail: fmt.Sprintf("stream %q script %s", trunc(k.stream, 40), trunc([]byte(k.evsText), 60))})
				}
			} else if pan == "" {
				c.Count("mux-oracle-socket-errors-skipped-data-with-error-while-sniffing")
			}
			if o.deadline {
				c.Find(Finding{Kind: "oracle", Class: "sniff-deadline-left-armed", Case: line, Impl: "read deadline still set after hand-over", Spec: "cleared"})
			}
		}
	}
	rig.root.Close()
}

func sum(ks []int) int {
	s := 0
	for _, k := range ks {
		s += k
	}
	return s
}

func startsWithListed(s string) bool {
	for _, m := range append(append([]string{"OPTIONS"}, rtspOnly...), httpM...) {
		if strings.HasPrefix(s, m) {
			return true
		}
	}
	return false
}

func trunc(b []byte, n int) string {
	if len(b) > n {
		return string(b[:n]) + "…"
	}
	return string(b)
}

// ---------------------------------------------------------------- free-form sniffer ops

type opsCase struct {
	stream   []byte
	evs      []ev
	ops      []string
	protocol bool // (start reads*)* done reads*
}

func genOps(c *Ctx) opsCase {
	var k opsCase
	n := []int{0, 1, 2, 5, 16, 17, 40, 300}[c.Rng.Intn(8)] + c.Rng.Intn(4)
	k.stream = c.Rng.Bytes(n)
	k.evs = genEvs(c, n, c.Rng.Chance(75))
	readN := func() string {
		return fmt.Sprintf("r%d", []int{0, 1, 1, 2, 3, 7, 8, 16, 64, 4096}[c.Rng.Intn(10)])
	}
	if c.Rng.Chance(80) {
		k.protocol = true
		passes := c.Rng.Intn(4)
		for p := 0; p < passes; p++ {
			k.ops = append(k.ops, "S")
			for r := c.Rng.Intn(6); r > 0; r-- {
				k.ops = append(k.ops, readN())
			}
		}
		k.ops = append(k.ops, "D")
		for r := 1 + c.Rng.Intn(14); r > 0; r-- {
			k.ops = append(k.ops, readN())
		}
		k.ops = append(k.ops, "r4096", "r8")
	} else {
		for r := 2 + c.Rng.Intn(16); r > 0; r-- {
			switch c.Rng.Intn(6) {
			case 0:
				k.ops = append(k.ops, "S")
			case 1:
				k.ops = append(k.ops, "D")
			default:
				k.ops = append(k.ops, readN())
			}
		}
	}
	return k
}

func runOpsImpl(k opsCase) (out string, views [][]byte, svc []byte, pan string) {
	defer func() {
		if x := recover(); x != nil {
			pan = fmt.Sprint(x)
		}
	}()
	fc := newFake(k.stream, k.evs)
	v := listener.VerifNewConn(fc)
	var rd io.Reader = v.Conn()
	var parts []string
	phase := 0 // 0 before any start, 1 in a pass, 2 after done
	for _, op := range k.ops {
		switch op[0] {
		case 'S':
			rd = v.StartSniffing()
			views = append(views, nil)
			phase = 1
		case 'D':
			v.DoneSniffing()
			rd = v.Conn()
			phase = 2
		default:
			var n int
			fmt.Sscanf(op[1:], "%d", &n)
			buf := make([]byte, n)
			got, err := rd.Read(buf)
			parts = append(parts, Hx(buf[:got])+":"+errName(err))
			if phase == 1 {
				views[len(views)-1] = append(views[len(views)-1], buf[:got]...)
			} else if phase == 2 {
				svc = append(svc, buf[:got]...)
			}
		}
	}
	bl, br, bs, sn, dr := v.State()
	if k.protocol && isCleanEvs(k.evs) {
		// oracle only: read on until the end (state was captured above)
		for i := 0; i < 1<<16 && len(svc) <= len(k.stream)+64; i++ {
			buf := make([]byte, 8192)
			n, err := rd.Read(buf)
			svc = append(svc, buf[:n]...)
			if err != nil {
				break
			}
		}
	}
	o := "-"
	if len(parts) > 0 {
		o = strings.Join(parts, ";")
	}
	return fmt.Sprintf("outs=%s buf=%d br=%d bs=%d sniffing=%s direct=%s", o, bl, br, bs, B01(sn), B01(dr)), views, svc, ""
}

func runOps(c *Ctx) {
	var cases []opsCase
	for _, l := range c.CorpusLines() {
		f := strings.Fields(l)
		if len(f) == 5 && f[0] == "c19" && f[1] == "ops" {
			ops := strings.Split(f[4], ",")
			cases = append(cases, opsCase{stream: Unhx(f[2]), evs: parseEvs(f[3]), ops: ops, protocol: isProtocol(ops)})
		}
	}
	if c.Replay == "" {
		n := c.Budget(15000, 200000)
		for i := 0; i < n; i++ {
			cases = append(cases, genOps(c))
		}
	}
	lines := make([]string, len(cases))
	for i, k := range cases {
		lines[i] = fmt.Sprintf("c19 ops %s %s %s", Hx(k.stream), evsString(k.evs), strings.Join(k.ops, ","))
	}
	outs := c.Drive(lines)
	for i, k := range cases {
		impl, views, svc, pan := runOpsImpl(k)
		if pan != "" {
			impl = "panic"
			sawPanic = true
			c.Find(Finding{Kind: "oracle", Class: "sniffer-panic", Case: lines[i], Impl: "panic: " + pan, Spec: "no panic"})
		}
		c.Eval(lines[i], len(k.stream) > 0)
		if k.protocol {
			c.Count("ops-protocol-order")
		} else {
			c.Count("ops-free-order")
		}
		c.Count(fmt.Sprintf("ops-passes-%d", min(len(views), 3)))
		if strings.Contains(impl, "direct=1") {
			c.Count("ops-reached-direct")
		}
		if i%(len(cases)/3+1) == 0 {
			c.Sample("ops " + trunc([]byte(lines[i]), 100) + " → " + trunc([]byte(impl), 100))
		}
		if impl != outs[i] {
			c.Find(Finding{Kind: "corr", Class: "ops", Case: lines[i], Impl: trunc([]byte(impl), 300), Model: trunc([]byte(outs[i]), 300)})
		}
		// oracle (protocol order, reader that never returns data together with an error):
		// every pass sees the stream from its first byte; the service reads a prefix of it
		noDataErr := true
		for _, e := range k.evs {
			if e.kind == 'x' {
				noDataErr = false
			}
		}
		if k.protocol && noDataErr && pan == "" {
			for _, vw := range views {
				if !bytes.HasPrefix(k.stream, vw) {
					c.Find(Finding{Kind: "oracle", Class: "matcher-view-not-from-first-byte", Case: lines[i], Impl: Hx(vw), Spec: "prefix of " + Hx(k.stream)})
				}
			}
			if !bytes.HasPrefix(k.stream, svc) {
				c.Find(Finding{Kind: "oracle", Class: "service-bytes-not-a-prefix-of-the-stream", Case: lines[i], Impl: Hx(svc), Spec: "prefix of " + Hx(k.stream)})
			} else if isCleanEvs(k.evs) && !bytes.Equal(svc, k.stream) {
				c.Find(Finding{Kind: "oracle", Class: "service-bytes-lost-or-altered", Case: lines[i], Impl: Hx(svc), Spec: Hx(k.stream)})
			}
		}
	}
}

func isProtocol(ops []string) bool {
	done := false
	for _, o := range ops {
		switch o[0] {
		case 'S':
			if done {
				return false
			}
		case 'D':
			if done {
				return false
			}
			done = true
		}
	}
	return done
}

func min(a, b int) int {
	if a < b {
		return a
	}
	return b
}

// ---------------------------------------------------------------- patricia tree

type ptCase struct {
	strs  [][]byte
	input []byte
	exact bool
}

func listString(l [][]byte) string {
	if len(l) == 0 {
		return "-"
	}
	s := make([]string, len(l))
	for i, b := range l {
		if len(b) == 0 {
			s[i] = "~"
		} else {
			s[i] = Hx(b)
		}
	}
	return strings.Join(s, ",")
}

func parseList(s string) [][]byte {
	if s == "-" {
		return nil
	}
	var out [][]byte
	for _, e := range strings.Split(s, ",") {
		if e == "~" {
			out = append(out, []byte{})
		} else {
			out = append(out, Unhx(e))
		}
	}
	return out
}

func genPt(c *Ctx) ptCase {
	var k ptCase
	alpha := "ab"
	if c.Rng.Chance(40) {
		alpha = "abc "
	}
	n := []int{0, 1, 1, 2, 2, 3, 4, 6, 9}[c.Rng.Intn(9)]
	for i := 0; i < n; i++ {
		var s []byte
		if len(k.strs) > 0 && c.Rng.Chance(55) {
			// share a prefix with an earlier string
			base := k.strs[c.Rng.Intn(len(k.strs))]
			s = append(s, base[:c.Rng.Intn(len(base)+1)]...)
		}
		for l := c.Rng.Intn(4); l > 0; l-- {
			s = append(s, c.Rng.Pick(alpha))
		}
		k.strs = append(k.strs, s)
	}
	if c.Rng.Chance(15) { // the real method tables
		k.strs = nil
		for _, m := range append([]string{"OPTIONS * RTSP", "OPTIONS * rtsp", "OPTIONS rtsp://", "OPTIONS RTSP://"}, rtspOnly...) {
			k.strs = append(k.strs, []byte(m))
		}
		if c.Rng.Bool() {
			k.strs = nil
			for _, m := range append([]string{"OPTIONS"}, httpM...) {
				k.strs = append(k.strs, []byte(m))
			}
		}
	}
	k.exact = c.Rng.Chance(35)
	if len(k.strs) > 0 && c.Rng.Chance(75) {
		base := k.strs[c.Rng.Intn(len(k.strs))]
		in := append([]byte(nil), base...)
		switch c.Rng.Intn(6) {
		case 0:
		case 1:
			if len(in) > 0 {
				in = in[:len(in)-1]
			}
		case 2:
			in = append(in, c.Rng.Pick(alpha))
		case 3:
			in = append(in, []byte("xyzw 0123456789 more than the depth of the tree")...)
		case 4:
			if len(in) > 0 {
				in[c.Rng.Intn(len(in))] = c.Rng.Pick(alpha + "x")
			}
		case 5:
			in = in[:c.Rng.Intn(len(in)+1)]
		}
		k.input = in
	} else {
		for l := c.Rng.Intn(6); l > 0; l-- {
			k.input = append(k.input, c.Rng.Pick(alpha))
		}
	}
	return k
}

func runPatricia(c *Ctx) {
	var cases []ptCase
	for _, l := range c.CorpusLines() {
		f := strings.Fields(l)
		if len(f) == 5 && f[0] == "c19" && f[1] == "pt" {
			cases = append(cases, ptCase{strs: parseList(f[3]), input: Unhx(f[4]), exact: f[2] == "e"})
		}
	}
	if c.Replay == "" {
		n := c.Budget(25000, 400000)
		for i := 0; i < n; i++ {
			cases = append(cases, genPt(c))
		}
	}
	lines := make([]string, 0, 2*len(cases))
	for _, k := range cases {
		mode := "p"
		if k.exact {
			mode = "e"
		}
		lines = append(lines, fmt.Sprintf("c19 pt %s %s %s", mode, listString(k.strs), Hx(k.input)))
		lines = append(lines, fmt.Sprintf("c19 split %s", listString(k.strs)))
	}
	outs := c.Drive(lines)
	for i, k := range cases {
		line := lines[2*i]
		m := KV(outs[2*i])
		impl, depth, sp, pan := ptImpl(k)
		c.Eval(line, len(k.strs) >= 2)
		c.Count(fmt.Sprintf("pt-set-size-%d", min(len(k.strs), 5)))
		if k.exact {
			c.Count("pt-exact-mode")
		} else {
			c.Count("pt-prefix-mode")
		}
		if impl == "1" {
			c.Count("pt-matched")
		} else {
			c.Count("pt-not-matched")
		}
		if i%(len(cases)/3+1) == 0 {
			c.Sample(fmt.Sprintf("pt %s → impl=%s %s", trunc([]byte(line), 80), impl, outs[2*i]))
		}
		implLine := fmt.Sprintf("match=%s depth=%d", impl, depth)
		if pan != "" {
			implLine = "panic:" + pan
			sawPanic = true
			c.Find(Finding{Kind: "oracle", Class: "matcher-panic", Case: line, Impl: "panic: " + pan, Spec: m["spec"]})
		}
		if implLine != fmt.Sprintf("match=%s depth=%s", m["match"], m["depth"]) {
			c.Find(Finding{Kind: "corr", Class: "patricia", Case: line, Impl: implLine, Model: outs[2*i]})
		}
		if sp != outs[2*i+1] && pan == "" {
			c.Find(Finding{Kind: "corr", Class: "splitPrefix", Case: lines[2*i+1], Impl: sp, Model: outs[2*i+1]})
		}
		// oracle: a non-empty set matches exactly the inputs that start with (are) one of its strings
		if len(k.strs) > 0 && impl != m["spec"] {
			cls := "prefix-set-membership"
			if k.exact {
				cls = "exact-set-membership"
			}
			c.Find(Finding{Kind: "oracle", Class: cls, Case: line, Impl: impl, Spec: m["spec"]})
		}
	}
}

func ptImpl(k ptCase) (res string, depth int, split string, pan string) {
	defer func() {
		if x := recover(); x != nil {
			pan = fmt.Sprint(x)
			res = "panic"
		}
	}()
	cp := make([][]byte, len(k.strs))
	for i, s := range k.strs {
		cp[i] = append([]byte{}, s...)
	}
	mp, me, d := listener.VerifPatricia(cp...)
	var ok bool
	if k.exact {
		ok = me(bytes.NewReader(k.input))
	} else {
		ok = mp(bytes.NewReader(k.input))
	}
	p, rest := listener.VerifSplitPrefix(cp)
	return B01(ok), d, fmt.Sprintf("prefix=%s rest=%s", Hx(p), listString(rest)), ""
}
