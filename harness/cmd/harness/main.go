// Command harness runs the correspondence checks: the real ipchub packages (linked
// in-process from /repo, built with -tags verif) against the Lean driver.
package main

import (
	"flag"
	"fmt"
	"os"
	"sort"
)

// registry of per-property runners, filled by init() in cXX.go
var runners = map[string]func(*Ctx){}

func main() {
	if len(os.Args) < 2 {
		ids := []string{}
		for k := range runners {
			ids = append(ids, k)
		}
		sort.Strings(ids)
		fmt.Fprintln(os.Stderr, "usage: harness <id> [-tier quick|thorough] [-seed n] [-driver path] [-out file] [-replay file]; ids:", ids)
		os.Exit(2)
	}
	id := os.Args[1]
	fs := flag.NewFlagSet(id, flag.ExitOnError)
	tier := fs.String("tier", "quick", "quick|thorough")
	seed := fs.Uint64("seed", 1, "PRNG seed")
	driver := fs.String("driver", "/verif/lean/.lake/build/bin/driver", "Lean driver executable")
	out := fs.String("out", "", "result JSON file")
	replay := fs.String("replay", "", "replay a case file instead of generating")
	search := fs.Bool("search", false, "enlarged budget: search for a failing input after a broken proof/correspondence")
	corpus := fs.String("corpus", "/verif/corpus", "corpus directory")
	fs.Parse(os.Args[2:])
	run, ok := runners[id]
	if !ok {
		fmt.Fprintln(os.Stderr, "unknown id", id)
		os.Exit(2)
	}
	ctx := newCtx(id, *tier, *seed, *driver, *out, *replay, *search, *corpus)
	run(ctx)
	ctx.finish()
}
