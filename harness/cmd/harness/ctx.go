package main

import (
	"bufio"
	"encoding/hex"
	"encoding/json"
	"fmt"
	"io/ioutil"
	"os"
	"os/exec"
	"path/filepath"
	"sort"
	"strings"
	"time"
)

// Finding is one disagreement: kind "corr" (implementation ≠ model) or "oracle"
// (implementation ≠ specification, i.e. the property fails on the implementation).
type Finding struct {
	Kind   string `json:"kind"`
	Class  string `json:"class"` // signature class, matched against known_findings.json
	Case   string `json:"case"`  // replayable case line(s)
	Impl   string `json:"impl"`
	Model  string `json:"model,omitempty"`
	Spec   string `json:"spec,omitempty"`
	Detail string `json:"detail,omitempty"`
}

// Result is what the harness hands to ./check
type Result struct {
	Property     string         `json:"property"`
	Tier         string         `json:"tier"`
	Seed         uint64         `json:"seed"`
	Evaluations  int            `json:"evaluations"`
	Distinct     int            `json:"distinct_nontrivial"`
	Rule         string         `json:"rule"`
	Samples      []string       `json:"samples"`
	Distribution map[string]int `json:"distribution"`
	Findings     []Finding      `json:"findings"`
	FindingCount map[string]int `json:"finding_count"`
	Exhaustive   bool           `json:"exhaustive"`
	Notes        []string       `json:"notes"`
	WallS        float64        `json:"wall_s"`
}

type Ctx struct {
	ID, Tier   string
	Seed       uint64
	DriverPath string
	Out        string
	Replay     string
	Search     bool
	Corpus     string
	rng        *Rng
	res        Result
	distinct   map[string]bool
	start      time.Time
	maxFind    int
}

func newCtx(id, tier string, seed uint64, driver, out, replay string, search bool, corpus string) *Ctx {
	c := &Ctx{ID: id, Tier: tier, Seed: seed, DriverPath: driver, Out: out, Replay: replay, Search: search, Corpus: corpus}
	c.rng = NewRng(seed)
	c.res = Result{Property: id, Tier: tier, Seed: seed, Distribution: map[string]int{}, FindingCount: map[string]int{}}
	c.distinct = map[string]bool{}
	c.start = time.Now()
	c.maxFind = 40
	return c
}

func (c *Ctx) Thorough() bool { return c.Tier == "thorough" }

// Budget scales a quick-tier count
func (c *Ctx) Budget(quick, thorough int) int {
	n := quick
	if c.Thorough() {
		n = thorough
	}
	if c.Search {
		n *= 4
	}
	return n
}

func (c *Ctx) Count(key string) { c.res.Distribution[key]++ }
func (c *Ctx) CountN(key string, n int) { c.res.Distribution[key] += n }

// Eval records one evaluated case; key identifies it for distinctness; nontrivial by the caller's rule
func (c *Ctx) Eval(key string, nontrivial bool) {
	c.res.Evaluations++
	if nontrivial && !c.distinct[key] {
		c.distinct[key] = true
		c.res.Distinct++
	}
}

func (c *Ctx) Sample(s string) {
	if len(c.res.Samples) < 12 {
		c.res.Samples = append(c.res.Samples, s)
	}
}

func (c *Ctx) Note(s string) { c.res.Notes = append(c.res.Notes, s) }

func (c *Ctx) Find(f Finding) {
	k := f.Kind + ":" + f.Class
	c.res.FindingCount[k]++
	// keep the first few of every class (shortest case preferred)
	n := 0
	for i, g := range c.res.Findings {
		if g.Kind == f.Kind && g.Class == f.Class {
			n++
			if len(f.Case) < len(g.Case) && n >= 3 {
				c.res.Findings[i] = f
				return
			}
		}
	}
	if n < 3 {
		c.res.Findings = append(c.res.Findings, f)
	}
}

func (c *Ctx) finish() {
	c.res.WallS = time.Since(c.start).Seconds()
	sort.Slice(c.res.Findings, func(i, j int) bool { return c.res.Findings[i].Class < c.res.Findings[j].Class })
	b, _ := json.MarshalIndent(&c.res, "", " ")
	if c.Out != "" {
		if err := ioutil.WriteFile(c.Out, b, 0644); err != nil {
			fmt.Fprintln(os.Stderr, "write result:", err)
			os.Exit(3)
		}
	} else {
		os.Stdout.Write(b)
		fmt.Println()
	}
}

// CorpusLines returns the lines of every *.case file of this property (minimised past failures)
func (c *Ctx) CorpusLines() []string {
	var lines []string
	files, _ := filepath.Glob(filepath.Join(c.Corpus, c.ID, "*.case"))
	sort.Strings(files)
	if c.Replay != "" {
		files = []string{c.Replay}
	}
	for _, f := range files {
		b, err := ioutil.ReadFile(f)
		if err != nil {
			continue
		}
		for _, l := range strings.Split(string(b), "\n") {
			l = strings.TrimSpace(l)
			if l == "" || strings.HasPrefix(l, "#") {
				continue
			}
			lines = append(lines, l)
		}
	}
	return lines
}

// ---- driver ----

// Drive pipes the lines to the Lean driver and returns one output line per input line.
func (c *Ctx) Drive(lines []string) []string {
	if len(lines) == 0 {
		return nil
	}
	cmd := exec.Command(c.DriverPath)
	stdin, err := cmd.StdinPipe()
	if err != nil {
		fatal("driver stdin: %v", err)
	}
	stdout, err := cmd.StdoutPipe()
	if err != nil {
		fatal("driver stdout: %v", err)
	}
	cmd.Stderr = os.Stderr
	if err := cmd.Start(); err != nil {
		fatal("driver start: %v", err)
	}
	go func() {
		w := bufio.NewWriterSize(stdin, 1<<20)
		for _, l := range lines {
			w.WriteString(l)
			w.WriteByte('\n')
		}
		w.Flush()
		stdin.Close()
	}()
	outs := make([]string, 0, len(lines))
	sc := bufio.NewReaderSize(stdout, 1<<20)
	for {
		l, err := sc.ReadString('\n')
		if len(l) > 0 {
			outs = append(outs, strings.TrimRight(l, "\r\n"))
		}
		if err != nil {
			break
		}
	}
	cmd.Wait()
	if len(outs) != len(lines) {
		fatal("driver returned %d lines for %d inputs (driver crashed?)", len(outs), len(lines))
	}
	return outs
}

// kv parses "a=1 b=2" into a map
func kv(s string) map[string]string {
	m := map[string]string{}
	for _, f := range strings.Fields(s) {
		i := strings.IndexByte(f, '=')
		if i > 0 {
			m[f[:i]] = f[i+1:]
		} else {
			m[f] = ""
		}
	}
	return m
}

func hx(b []byte) string {
	if len(b) == 0 {
		return "-"
	}
	return hex.EncodeToString(b)
}

func unhx(s string) []byte {
	if s == "-" {
		return nil
	}
	b, err := hex.DecodeString(s)
	if err != nil {
		fatal("bad hex %q", s)
	}
	return b
}

func b01(b bool) string {
	if b {
		return "1"
	}
	return "0"
}

func fatal(f string, a ...interface{}) {
	fmt.Fprintf(os.Stderr, "harness: "+f+"\n", a...)
	os.Exit(3)
}

// ---- PRNG: splitmix64, every random choice derives from VERIF_SEED ----

type Rng struct{ s uint64 }

func NewRng(seed uint64) *Rng { return &Rng{s: seed*0x9E3779B97F4A7C15 + 0x1234567} }
func (r *Rng) U64() uint64 {
	r.s += 0x9E3779B97F4A7C15
	z := r.s
	z = (z ^ (z >> 30)) * 0xBF58476D1CE4E5B9
	z = (z ^ (z >> 27)) * 0x94D049BB133111EB
	return z ^ (z >> 31)
}
func (r *Rng) Intn(n int) int {
	if n <= 0 {
		return 0
	}
	return int(r.U64() % uint64(n))
}
func (r *Rng) Bool() bool         { return r.U64()&1 == 1 }
func (r *Rng) Chance(p int) bool  { return r.Intn(100) < p }
func (r *Rng) Pick(s string) byte { return s[r.Intn(len(s))] }
func (r *Rng) Bytes(n int) []byte {
	b := make([]byte, n)
	for i := range b {
		b[i] = byte(r.U64())
	}
	return b
}
