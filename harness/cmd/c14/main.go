// Correspondence + oracle harness for C14 (RTSP wire codec).
//
// Real code exercised, in-process:
//
//	av/format/rtsp   Request.Write / ReadRequest, Response.Write / ReadResponse, Header.Write / ReadHeader / readLine
//	av/format/rtp    Packet.Write / ReadPacket (+ pion Header.Unmarshal behind it)
//	service/rtsp     receive (io.go), looped as Session.process / PullClient do
//
// over bufio.Readers of several sizes fed by a reader that cuts the stream into generated chunks.
//
// Case families: rt-req / rt-resp / rt-pkt (a generated message is written by the real
// writer, a continuation is appended, the real reader reads it back), stream (several
// items back to back through receive), neg (garbage, mutations of valid messages, long
// lines, absurd or lying Content-Length, truncated streams, malformed RTP extensions).
package main

import (
	"bufio"
	"bytes"
	"fmt"
	"io"
	"net/url"
	"os"
	"runtime"
	"sort"
	"strconv"
	"strings"
	"sync"
	"time"

	. "verifharness/hlib"

	"github.com/cnotch/ipchub/av/format/rtp"
	"github.com/cnotch/ipchub/av/format/rtsp"
	srv "github.com/cnotch/ipchub/service/rtsp"
	"github.com/cnotch/xlog"
	gws "github.com/gorilla/websocket"
)

func main() { Main("C14", run) }

var nopLog = xlog.New(xlog.NewNopCore())

// ---------------------------------------------------------------- chunked delivery

type chunkReader struct {
	data   []byte
	chunks []int
	i      int
	rng    *Rng // random chunks when chunks are exhausted (nil: everything that fits)
}

func (c *chunkReader) Read(p []byte) (int, error) {
	if len(c.data) == 0 {
		return 0, io.EOF
	}
	n := len(p)
	if c.i < len(c.chunks) {
		if c.chunks[c.i] < n {
			n = c.chunks[c.i]
		}
		c.i++
	} else if c.rng != nil {
		k := 1 + c.rng.Intn(97)
		if c.rng.Chance(20) {
			k = 1 + c.rng.Intn(8000)
		}
		if k < n {
			n = k
		}
	}
	if n > len(c.data) {
		n = len(c.data)
	}
	if n < 1 {
		n = 1
	}
	copy(p, c.data[:n])
	c.data = c.data[n:]
	return n, nil
}

// meta: b<bufsize>.<a|1|s<seed>|k<n>_<n>…>
type delivery struct {
	buf  int
	mode string
}

func (d delivery) String() string { return fmt.Sprintf("b%d.%s", d.buf, d.mode) }

func parseDelivery(s string) delivery {
	d := delivery{buf: 4096, mode: "a"}
	if len(s) > 1 && s[0] == 'b' {
		if i := strings.IndexByte(s, '.'); i > 0 {
			d.buf, _ = strconv.Atoi(s[1:i])
			d.mode = s[i+1:]
		}
	}
	return d
}

func (d delivery) reader(stream []byte) *bufio.Reader { return d.readerGated(stream, nil) }

// gateReader parks its caller before the gate-th Read call of the underlying stream until released
type gateReader struct {
	r       io.Reader
	calls   int
	gate    int
	reached chan struct{}
	release chan struct{}
}

func (g *gateReader) Read(p []byte) (int, error) {
	if g.calls == g.gate {
		close(g.reached)
		<-g.release
	}
	g.calls++
	return g.r.Read(p)
}

func (d delivery) readerGated(stream []byte, g *gateReader) *bufio.Reader {
	cr := &chunkReader{data: append([]byte(nil), stream...)}
	switch {
	case d.mode == "a":
	case d.mode == "1":
		cr.chunks = nil
		cr.rng = nil
		one := make([]int, 0, 4096)
		for i := 0; i < 4096; i++ {
			one = append(one, 1)
		}
		cr.chunks = one
	case strings.HasPrefix(d.mode, "s"):
		seed, _ := strconv.ParseUint(d.mode[1:], 10, 64)
		cr.rng = NewRng(seed)
	case strings.HasPrefix(d.mode, "k"):
		for _, t := range strings.Split(d.mode[1:], "_") {
			n, _ := strconv.Atoi(t)
			if n < 1 {
				n = 1
			}
			cr.chunks = append(cr.chunks, n)
		}
	}
	if g != nil {
		g.r = cr
		return bufio.NewReaderSize(g, d.buf)
	}
	return bufio.NewReaderSize(cr, d.buf)
}

func genDelivery(c *Ctx) delivery {
	d := delivery{}
	d.buf = []int{16, 64, 4096, 4096, 4096, 65536, 65536}[c.Rng.Intn(7)]
	switch c.Rng.Intn(6) {
	case 0:
		d.mode = "a"
	case 1:
		d.mode = "1"
	case 2:
		n := 1 + c.Rng.Intn(5)
		parts := make([]string, n)
		for i := range parts {
			parts[i] = strconv.Itoa(1 + c.Rng.Intn(40))
		}
		d.mode = "k" + strings.Join(parts, "_")
	default:
		d.mode = "s" + strconv.FormatUint(c.Rng.U64()%1000000, 10)
	}
	return d
}

// ---------------------------------------------------------------- rendering (same format as the driver)

func renderHeader(h rtsp.Header) string {
	if len(h) == 0 {
		return "-"
	}
	keys := make([]string, 0, len(h))
	for k := range h {
		keys = append(keys, k)
	}
	sort.Strings(keys)
	parts := make([]string, len(keys))
	for i, k := range keys {
		vs := make([]string, len(h[k]))
		for j, v := range h[k] {
			vs[j] = Hx([]byte(v))
		}
		parts[i] = Hx([]byte(k)) + "=" + strings.Join(vs, "|")
	}
	return strings.Join(parts, ";")
}

func renderReq(r *rtsp.Request) string {
	u := ""
	if r.URL != nil {
		u = r.URL.String()
	}
	return fmt.Sprintf("req,%s,%s,%s,%s,%s", Hx([]byte(r.Method)), Hx([]byte(u)), Hx([]byte(r.Proto)), renderHeader(r.Header), Hx([]byte(r.Body)))
}

func renderResp(r *rtsp.Response) string {
	return fmt.Sprintf("resp,%s,%d,%s,%s,%s", Hx([]byte(r.Proto)), r.StatusCode, Hx([]byte(r.Status)), renderHeader(r.Header), Hx([]byte(r.Body)))
}

func renderPkt(p *rtp.Packet) string {
	return fmt.Sprintf("pkt,%d,%d,%s", p.Channel, p.PayloadOffset, Hx(p.Data))
}

// the Request-URI net/url refused in the last call (the model's net/url table must hold it:
// the driver only asks for a URI when the message around it is otherwise accepted)
var lastBadURL string
var lastBadURLMu sync.Mutex // readers also run concurrently (rconc)

func errKind(err error) string {
	if err == nil {
		return "-"
	}
	if err == io.EOF {
		return "eof"
	}
	if err == io.ErrUnexpectedEOF {
		return "ueof"
	}
	if _, ok := err.(*gws.CloseError); ok {
		return "ws-closed" // the end of a stream that travels over the WebSocket transport
	}
	if err == io.ErrClosedPipe {
		// the same end, seen by the server while it answers the client's last ping: the client
		// (the other end of the pipe) has dropped the connection
		return "ws-closed"
	}
	if ue, ok := err.(*url.Error); ok {
		lastBadURLMu.Lock()
		lastBadURL = ue.URL
		lastBadURLMu.Unlock()
		return "url-parse"
	}
	m := err.Error()
	switch {
	case strings.HasPrefix(m, "malformed RTSP request"):
		return "malformed-request"
	case strings.HasPrefix(m, "invalid method"):
		return "invalid-method"
	case strings.HasPrefix(m, "invalid Request-URI"):
		return "invalid-uri"
	case strings.HasPrefix(m, "malformed header line"):
		return "malformed-header"
	case strings.HasPrefix(m, "malformed RTSP response"):
		return "malformed-response"
	case strings.HasPrefix(m, "malformed RTSP status code"):
		return "malformed-status"
	case strings.HasPrefix(m, "RTP Pack must start"):
		return "rtp-prefix"
	case strings.HasPrefix(m, "RTP Packet illegal channel"):
		return "rtp-channel"
	case strings.Contains(m, "line over the maximum"):
		return "line-too-long"
	case strings.Contains(m, "Content-Length over the maximum"):
		return "body-too-large"
	case strings.Contains(m, "RTP header"), strings.Contains(m, "size ") && strings.Contains(m, "<"):
		return "rtp-header"
	}
	return "other(" + m + ")"
}

// ---------------------------------------------------------------- net/url table for the driver

func urlEntry(rurl string) string {
	u, err := url.ParseRequestURI(rurl)
	if err != nil {
		return Hx([]byte(rurl)) + ":0:-:-:-"
	}
	str := u.String()
	u2 := *u
	u2.Host = strings.TrimSuffix(u2.Host, ":")
	return Hx([]byte(rurl)) + ":1:" + Hx([]byte(u.Host)) + ":" + Hx([]byte(str)) + ":" + Hx([]byte(u2.String()))
}

// candidate Request-URIs of a stream (second blank-separated token of every line); anything the
// heuristic misses is asked for by the driver (`need-url=`) and added then
func urlTable(stream []byte, extra map[string]bool) string {
	seen := map[string]bool{}
	var ents []string
	add := func(s string) {
		if !seen[s] && len(ents) < 40 {
			seen[s] = true
			ents = append(ents, urlEntry(s))
		}
	}
	for k := range extra {
		add(k)
	}
	sort.Strings(ents)
	lines := bytes.Split(stream, []byte("\n"))
	if len(lines) > 60 {
		lines = lines[:60]
	}
	for _, l := range lines {
		if len(l) > 4096 {
			continue
		}
		i := bytes.IndexByte(l, ' ')
		if i < 0 {
			continue
		}
		rest := l[i+1:]
		j := bytes.IndexByte(rest, ' ')
		if j < 0 {
			continue
		}
		add(strings.TrimSpace(string(rest[:j])))
	}
	if len(ents) == 0 {
		return "-"
	}
	return strings.Join(ents, ",")
}

// ---------------------------------------------------------------- implementation runners

type readOut struct {
	text  string // ok=<rendering> rest=<n> | err=<kind> | panic
	ok    bool
	rend  string
	rest  int
	alloc uint64
}

func guard(f func() readOut) (o readOut) {
	defer func() {
		if x := recover(); x != nil {
			o = readOut{text: "panic", rend: fmt.Sprint(x)}
		}
	}()
	return f()
}

// watched runs one call into the implementation under a watchdog, so that a reader or writer
// that no longer terminates becomes a finding with the case as replay instead of a hung
// harness.  The calls work on in-memory data and take micro- to milliseconds; the first
// budget is a minute, and when it expires the same call is given four more minutes before
// it is declared hung (a slow, loaded machine must not turn into a finding).
var hungCase string

const (
	callBudget     = 60 * time.Second
	callLongBudget = 4 * time.Minute
)

func watched(what string, f func()) (hung bool) {
	if hungCase != "" {
		return true // a hung call still burns a CPU: nothing more is run
	}
	done := make(chan struct{})
	go func() {
		defer close(done)
		f()
	}()
	t := time.NewTimer(callBudget)
	select {
	case <-done:
		t.Stop()
		return false
	case <-t.C:
	}
	t.Reset(callLongBudget)
	select {
	case <-done:
		t.Stop()
		return false
	case <-t.C:
	}
	hungCase = what
	return true
}

func restLen(br *bufio.Reader) int {
	n, _ := io.Copy(io.Discard, br)
	return int(n)
}

func implReadReq(stream []byte, d delivery) readOut { return implReadReqR(d.reader(stream)) }
func implReadReqR(br *bufio.Reader) readOut {
	return guard(func() readOut {
		r, err := rtsp.ReadRequest(br)
		if err != nil {
			return readOut{text: "err=" + errKind(err)}
		}
		rd := renderReq(r)
		n := restLen(br)
		return readOut{text: fmt.Sprintf("ok=%s rest=%d", rd, n), ok: true, rend: rd, rest: n}
	})
}

func implReadResp(stream []byte, d delivery) readOut { return implReadRespR(d.reader(stream)) }
func implReadRespR(br *bufio.Reader) readOut {
	return guard(func() readOut {
		r, err := rtsp.ReadResponse(br)
		if err != nil {
			return readOut{text: "err=" + errKind(err)}
		}
		rd := renderResp(r)
		n := restLen(br)
		return readOut{text: fmt.Sprintf("ok=%s rest=%d", rd, n), ok: true, rend: rd, rest: n}
	})
}

func implReadPkt(stream []byte, chans []int, d delivery) readOut {
	return implReadPktR(d.reader(stream), chans)
}
func implReadPktR(br *bufio.Reader, chans []int) readOut {
	return guard(func() readOut {
		p, err := rtp.ReadPacket(br, chans)
		if err != nil {
			if p != nil {
				n := restLen(br)
				return readOut{text: fmt.Sprintf("ok=skip rest=%d", n), ok: true, rend: "skip", rest: n}
			}
			return readOut{text: "err=" + errKind(err)}
		}
		rd := renderPkt(p)
		n := restLen(br)
		return readOut{text: fmt.Sprintf("ok=%s rest=%d", rd, n), ok: true, rend: rd, rest: n}
	})
}

// the receive loop: events until the first error
func implRecv(stream []byte, chans []int, d delivery) (events []string, errk string, panicked string) {
	return implRecvR(d.reader(stream), chans)
}
func implRecvR(br *bufio.Reader, chans []int) (events []string, errk string, panicked string) {
	defer func() {
		if x := recover(); x != nil {
			panicked = fmt.Sprint(x)
			errk = "panic"
		}
	}()
	var last string
	h := &srv.VerifReceiver{
		OnRequest:  func(r *rtsp.Request) error { last = renderReq(r); return nil },
		OnResponse: func(r *rtsp.Response) error { last = renderResp(r); return nil },
		OnPack:     func(p *rtp.Packet) error { last = renderPkt(p); return nil },
	}
	for i := 0; i < 1<<20; i++ {
		last = "skip"
		err := srv.VerifReceive(nopLog, br, chans, h)
		if err != nil {
			return events, errKind(err), ""
		}
		events = append(events, last)
	}
	return events, "no-end", ""
}

func intsCSV(ks []int) string {
	if len(ks) == 0 {
		return "-"
	}
	s := make([]string, len(ks))
	for i, k := range ks {
		s[i] = strconv.Itoa(k)
	}
	return strings.Join(s, ",")
}

func parseIntsCSV(s string) []int {
	if s == "-" {
		return nil
	}
	var out []int
	for _, t := range strings.Split(s, ",") {
		n, _ := strconv.Atoi(t)
		out = append(out, n)
	}
	return out
}

// ---------------------------------------------------------------- generators: messages

var methods = []string{"OPTIONS", "DESCRIBE", "ANNOUNCE", "SETUP", "PLAY", "PAUSE", "TEARDOWN", "GET_PARAMETER", "SET_PARAMETER", "RECORD", "REDIRECT"}
var fieldNames = []string{"Accept", "Allow", "Authorization", "Bandwidth", "Blocksize", "Cache-Control", "Connection", "Content-Base", "Content-Type", "Content-Length", "CSeq", "Date", "Public", "Range", "Require", "RTP-Info", "Scale", "Session", "Server", "Speed", "Transport", "User-Agent", "WWW-Authenticate", "Proxy-Require", "If-Modified-Since"}

type hdrKV struct {
	k  string
	vs []string
}

func genURL(c *Ctx, method string) string {
	if method == "OPTIONS" && c.Rng.Chance(35) {
		return "*"
	}
	if c.Rng.Chance(3) {
		return "*"
	}
	host := []string{"cam", "192.168.1.10", "[::1]", "[fe80::1%25eth0]", "[2001:db8::7]", "example.com", "a-b.c", "h"}[c.Rng.Intn(8)]
	switch c.Rng.Intn(10) {
	case 0, 1, 2:
		host += ":554"
	case 3:
		host += ":8554"
	case 4:
		if c.Rng.Chance(40) {
			host += ":" // trailing colon: ReadRequest strips it
		}
	}
	user := ""
	if c.Rng.Chance(15) {
		user = []string{"admin:pw@", "u@", "a%40b:p%3A@", ":@"}[c.Rng.Intn(4)]
	}
	path := ""
	for n := c.Rng.Intn(4); n > 0; n-- {
		path += "/" + []string{"live", "a", "stream1", "track%201", "a b", "trackID=0", "ü", "x;y", "%2F", "+", "é"}[c.Rng.Intn(11)]
	}
	if c.Rng.Chance(20) {
		path += "/"
	}
	q := ""
	if c.Rng.Chance(25) {
		q = "?" + []string{"token=abc", "a=1&b=2", "", "x=%20", "t=a b"}[c.Rng.Intn(5)]
	}
	scheme := "rtsp"
	if c.Rng.Chance(5) {
		scheme = []string{"RTSP", "rtsps", "http"}[c.Rng.Intn(3)]
	}
	return scheme + "://" + user + host + path + q
}

func genValue(c *Ctx) string {
	if c.Rng.Chance(6) {
		// TEXT of RFC 2326 is any octet but controls: bytes above 0x7F (UTF-8, Latin-1, broken
		// UTF-8), also where Go's Unicode-aware TrimSpace looks (the ends of the value)
		return []string{"caf\xc3\xa9", "\xe6\x97\xa5\xe6\x9c\xac", "\xff\xfe\x80", "a\xc2\x85b", "\xc3\xa9", "x\xe2\x80\x83y", "\xa0x\xa0", "\xc2", "q\xe2\x80", "\xf0\x9f\x8e\xa5 cam", "realm=\"\xd0\x9a\xd0\xb0\xd0\xbc\"",
			"end\xc2\x85", "\xc2\xa0start", "\xe1\x9a\x80ogham", "ideographic\xe3\x80\x80"}[c.Rng.Intn(15)]
	}
	switch c.Rng.Intn(12) {
	case 0:
		return strconv.Itoa(c.Rng.Intn(100000))
	case 1:
		return "RTP/AVP/TCP;unicast;interleaved=0-1"
	case 2:
		return "DESCRIBE, SETUP, TEARDOWN, PLAY, PAUSE"
	case 3:
		return "application/sdp"
	case 4:
		return ""
	case 5:
		return `Digest username="a", realm="r", nonce="n", uri="rtsp://h/p", response="0123"`
	case 6:
		return "npt=0.000-"
	case 7:
		return "a:b:c"
	case 8:
		return "x  y"
	case 9:
		return "12345678;timeout=60"
	case 10:
		return "url=rtsp://h/p/trackID=0;seq=1;rtptime=2,url=rtsp://h/p/trackID=1;seq=3;rtptime=4"
	}
	n := 1 + c.Rng.Intn(30)
	b := make([]byte, n)
	for i := range b {
		b[i] = c.Rng.Pick("abcXYZ019-_=;,./ \"")
	}
	return strings.TrimSpace(string(b))
}

// genHeader: mostly emit-able headers (what Set/Add/set produce), sometimes hostile ones
func genHeader(c *Ctx) (h []hdrKV, hostile bool) {
	n := []int{0, 1, 2, 3, 3, 4, 5, 8}[c.Rng.Intn(8)]
	used := map[string]bool{}
	for i := 0; i < n; i++ {
		k := fieldNames[c.Rng.Intn(len(fieldNames))]
		switch c.Rng.Intn(12) {
		case 0:
			k = strings.ToLower(k)
		case 1:
			k = strings.ToUpper(k)
		case 2:
			k = []string{"X-Custom", "x-foo", "Foo_Bar", "Rate-Control", "x", "X-ACCEL"}[c.Rng.Intn(6)]
		case 3:
			if c.Rng.Chance(30) {
				hostile = true
				k = []string{"A:B", " Lead", "Trail ", "a\rb", "a\nb", "", "\u017fession", "\u0131f-modified-since", "Se\xffsion", "K\u212aey", "\u00a0Accept", "cseq\u2003"}[c.Rng.Intn(12)]
			}
		}
		if used[k] {
			continue
		}
		used[k] = true
		var vs []string
		for m := []int{1, 1, 1, 1, 2, 3, 0}[c.Rng.Intn(7)]; m > 0; m-- {
			vs = append(vs, genValue(c))
		}
		if c.Rng.Chance(4) {
			hostile = true
			vs = append(vs, []string{" lead", "trail ", "a\rb", "a\nb: c", "end\r", "\tTab", "x\u00a0", "\u2003wide"}[c.Rng.Intn(8)])
		}
		h = append(h, hdrKV{k, vs})
	}
	return
}

func genBody(c *Ctx) []byte {
	switch c.Rng.Intn(14) {
	case 0, 1, 2, 3, 4:
		return nil
	case 5:
		return []byte("v=0\r\no=- 0 0 IN IP4 127.0.0.1\r\ns=x\r\nm=video 0 RTP/AVP 96\r\na=rtpmap:96 H264/90000\r\na=control:trackID=0\r\n")
	case 6:
		return []byte("x")
	case 7:
		return []byte("\r\n")
	case 8:
		return []byte("$\x00\x00\x02ab")
	case 9:
		return []byte("RTSP/1.0 200 OK\r\n\r\n")
	case 10:
		return c.Rng.Bytes(1 + c.Rng.Intn(300))
	case 11:
		return c.Rng.Bytes(4000 + c.Rng.Intn(200))
	case 12:
		return bytes.Repeat([]byte{0}, 1+c.Rng.Intn(50))
	}
	if c.Rng.Chance(25) {
		return c.Rng.Bytes([]int{16383, 16384, 16385, 65535, 65536}[c.Rng.Intn(5)])
	}
	return c.Rng.Bytes(c.Rng.Intn(2000))
}

func hdrArg(h []hdrKV) string {
	if len(h) == 0 {
		return "-"
	}
	parts := make([]string, len(h))
	for i, kv := range h {
		vs := make([]string, len(kv.vs))
		for j, v := range kv.vs {
			vs[j] = Hx([]byte(v))
		}
		parts[i] = Hx([]byte(kv.k)) + "=" + strings.Join(vs, "|")
	}
	return strings.Join(parts, ";")
}

func mkHeader(h []hdrKV) rtsp.Header {
	out := rtsp.Header{}
	for _, kv := range h {
		out[kv.k] = append([]string(nil), kv.vs...)
	}
	return out
}

// plainWriter hides WriteString, so the stringWriter path of the writers is taken
type plainWriter struct{ b *bytes.Buffer }

func (p plainWriter) Write(x []byte) (int, error) { return p.b.Write(x) }

type item struct {
	msg    *wmsg  // the message, for the concurrent-writers scenario
	kind   string // req resp pkt
	wop    string // driver op line for the writer / spec
	wire   []byte // what the real writer produced
	werr   string
	chans  []int
	urlOK  bool
	rurl   string
	detail string
}

func safeWrite(f func() error) (errs string) {
	if watched("writer", func() { errs = safeWrite1(f) }) {
		return "hang"
	}
	return errs
}

func safeWrite1(f func() error) (errs string) {
	defer func() {
		if x := recover(); x != nil {
			errs = "panic:" + fmt.Sprint(x)
		}
	}()
	if err := f(); err != nil {
		return "error"
	}
	return ""
}

func genReqItem(c *Ctx) item {
	method := methods[c.Rng.Intn(len(methods))]
	if c.Rng.Chance(4) {
		method = []string{"FOO", "options", "PLAY2", "$PLAY", "RTSPX", "GET", ""}[c.Rng.Intn(7)]
	}
	raw := genURL(c, method)
	u, err := url.Parse(raw)
	if err != nil {
		u = &url.URL{Scheme: "rtsp", Host: "h", Path: "/p"}
	}
	h, _ := genHeader(c)
	body := genBody(c)
	req := &rtsp.Request{Method: method, URL: u, Proto: "RTSP/1.0", Header: mkHeader(h), Body: string(body)}
	var buf bytes.Buffer
	var werr string
	if c.Rng.Chance(30) {
		werr = safeWrite(func() error { return req.Write(plainWriter{&buf}) })
	} else {
		werr = safeWrite(func() error { return req.Write(&buf) })
	}
	ustr := u.String()
	// does net/url give the printed URL back unchanged, with no trailing-colon host to strip?
	urlOK := false
	if p, err := url.ParseRequestURI(ustr); err == nil && p.String() == ustr && !strings.ContainsAny(ustr, " \r\n") {
		hst := p.Host
		if !(strings.LastIndex(hst, ":") > strings.LastIndex(hst, "]") && strings.HasSuffix(hst, ":")) {
			urlOK = true
		}
	}
	return item{msg: &wmsg{kind: "req", method: method, ustr: ustr, h: h, body: body}, kind: "req", wire: buf.Bytes(), werr: werr, urlOK: urlOK, rurl: ustr,
		wop:    fmt.Sprintf("c14 wreq %s %s %s %s %s", B01(urlOK), Hx([]byte(method)), Hx([]byte(ustr)), hdrArg(h), Hx(body)),
		detail: fmt.Sprintf("%s %s hdr=%d body=%d", method, ustr, len(h), len(body))}
}

var statusCodes = []int{100, 200, 201, 250, 300, 301, 302, 303, 304, 305, 400, 401, 402, 403, 404, 405, 406, 407, 408, 410, 411, 412, 413, 414, 415, 451, 452, 453, 454, 455, 456, 457, 458, 459, 460, 461, 462, 500, 501, 502, 503, 504, 505, 551}

func genRespItem(c *Ctx) item {
	code := statusCodes[c.Rng.Intn(len(statusCodes))]
	switch c.Rng.Intn(20) {
	case 0:
		code = 100 + c.Rng.Intn(900)
	case 1:
		code = []int{0, 7, 99, 1000, 12345}[c.Rng.Intn(5)]
	}
	status := ""
	switch c.Rng.Intn(8) {
	case 0:
		status = strconv.Itoa(code) + " " + rtsp.StatusText(code)
	case 1:
		status = "Custom Reason"
	case 2:
		status = strconv.Itoa(code) + " "
	case 3:
		if c.Rng.Chance(20) {
			status = []string{"Bad\r\nX: y", "200", " lead", "OK\r", "tab\tbed"}[c.Rng.Intn(5)]
		}
	}
	h, _ := genHeader(c)
	body := genBody(c)
	resp := &rtsp.Response{StatusCode: code, Status: status, Header: mkHeader(h), Body: string(body)}
	var buf bytes.Buffer
	var werr string
	if c.Rng.Chance(30) {
		werr = safeWrite(func() error { return resp.Write(plainWriter{&buf}) })
	} else {
		werr = safeWrite(func() error { return resp.Write(&buf) })
	}
	return item{msg: &wmsg{kind: "resp", code: code, status: status, h: h, body: body}, kind: "resp", wire: buf.Bytes(), werr: werr,
		wop:    fmt.Sprintf("c14 wresp %d %s %s %s", code, Hx([]byte(status)), hdrArg(h), Hx(body)),
		detail: fmt.Sprintf("%d %q hdr=%d body=%d", code, status, len(h), len(body))}
}

// RTP packet bytes; ok: a header pion accepts by construction
func genRTP(c *Ctx) (data []byte, ok bool) {
	switch c.Rng.Intn(12) {
	case 0:
		return c.Rng.Bytes(c.Rng.Intn(16)), false
	case 1:
		return c.Rng.Bytes(12 + c.Rng.Intn(80)), false
	case 2:
		return nil, false
	}
	cc := 0
	if c.Rng.Chance(20) {
		cc = c.Rng.Intn(16)
	}
	ext := c.Rng.Chance(30)
	b0 := byte(0x80 | cc)
	if ext {
		b0 |= 0x10
	}
	if c.Rng.Chance(10) {
		b0 |= 0x20
	}
	data = append(data, b0, byte(c.Rng.Intn(256)))
	data = append(data, c.Rng.Bytes(10+4*cc)...)
	ok = true
	if ext {
		words := c.Rng.Intn(4)
		switch c.Rng.Intn(4) {
		case 0: // generic profile
			data = append(data, 0x12, 0x34, 0, byte(words))
			data = append(data, c.Rng.Bytes(4*words)...)
		case 1: // one-byte, well-formed: elements of length 1..3 padded with zeros
			data = append(data, 0xBE, 0xDE, 0, byte(words))
			body := make([]byte, 4*words)
			for i := 0; i+1 < len(body); {
				l := 1 + c.Rng.Intn(3)
				if i+1+l > len(body) {
					break
				}
				body[i] = byte((1+c.Rng.Intn(14))<<4 | (l - 1))
				for j := 0; j < l; j++ {
					body[i+1+j] = byte(1 + c.Rng.Intn(255))
				}
				i += 1 + l
			}
			data = append(data, body...)
		case 2: // two-byte, well-formed
			data = append(data, 0x10, 0x00, 0, byte(words))
			body := make([]byte, 4*words)
			for i := 0; i+2 < len(body); {
				l := c.Rng.Intn(3)
				if i+2+l > len(body) {
					break
				}
				body[i] = byte(1 + c.Rng.Intn(255))
				body[i+1] = byte(l)
				i += 2 + l
			}
			data = append(data, body...)
		case 3: // hostile extension: element lengths run past the block / the packet
			ok = false
			prof := [][]byte{{0xBE, 0xDE}, {0x10, 0x00}}[c.Rng.Intn(2)]
			data = append(data, prof[0], prof[1], 0, byte(words))
			body := c.Rng.Bytes(4 * words)
			if len(body) > 0 && c.Rng.Chance(70) {
				body[len(body)-1-c.Rng.Intn(min(len(body), 3))] = byte(0x10 | 0x0F)
			}
			data = append(data, body...)
			if c.Rng.Chance(60) {
				return data, false
			}
		}
	}
	data = append(data, c.Rng.Bytes([]int{0, 1, 20, 200, 1400}[c.Rng.Intn(5)])...)
	return
}

var chanTables = [][]int{{0, 1, 2, 3}, {0, 1, 2, 3}, {0, 1, 2, 3}, {2, 3, 0, 1}, {0, 1, -1, -1}, {-1, -1, 4, 5}, {5, 6, 7, 8}, {0, 0, 2, 2}, {254, 255, 256, 257}, {0, 1, 2, 3, 4}, {10, 11}, {}}

func genPktItem(c *Ctx, chans []int) item {
	idx := c.Rng.Intn(4)
	if c.Rng.Chance(3) {
		idx = 4 + c.Rng.Intn(3)
	}
	data, ok := genRTP(c)
	if c.Rng.Chance(3) {
		data = c.Rng.Bytes([]int{65535, 65536, 65537, 70000}[c.Rng.Intn(4)])
		ok = false
		if len(data) > 12 {
			data[0] = 0x80
			ok = true
		}
	}
	p := &rtp.Packet{Channel: byte(idx), Data: data}
	var buf bytes.Buffer
	werr := safeWrite(func() error { return p.Write(&buf, chans) })
	return item{msg: &wmsg{kind: "pkt", code: idx, body: data, chans: chans}, kind: "pkt", wire: buf.Bytes(), werr: werr, chans: chans,
		wop:    fmt.Sprintf("c14 wpkt %s %s %d %s", B01(ok), intsCSV(chans), idx, Hx(data)),
		detail: fmt.Sprintf("ch=%d len=%d rtpok=%v table=%v", idx, len(data), ok, chans)}
}

func min(a, b int) int {
	if a < b {
		return a
	}
	return b
}

// ---------------------------------------------------------------- writers running concurrently
//
// The server serialises messages for many sessions at once.  What a writer emits must depend
// on its own message only: a writer that is suspended inside a socket write while another
// message is serialised must still emit exactly the bytes it emits when it runs alone.
// The interleaving is forced, not slept: writer A runs in its own goroutine into a writer
// that blocks before its n-th Write call; while A is parked there, B is written completely;
// then A is released.  Both outputs are compared with what the same message gives when
// written alone (which the sequential cases compare with the model and the specification).

type wmsg struct {
	kind   string // req resp pkt
	method string
	ustr   string
	code   int // status code, or the channel type of a pkt
	status string
	h      []hdrKV
	body   []byte
	chans  []int
}

func (m *wmsg) token() string {
	switch m.kind {
	case "req":
		return fmt.Sprintf("req/%s/%s/%s/%s", Hx([]byte(m.method)), Hx([]byte(m.ustr)), hdrArg(m.h), Hx(m.body))
	case "resp":
		return fmt.Sprintf("resp/%d/%s/%s/%s", m.code, Hx([]byte(m.status)), hdrArg(m.h), Hx(m.body))
	}
	return fmt.Sprintf("pkt/%d/%s/%s", m.code, intsCSV(m.chans), Hx(m.body))
}

func parseHdrArg(s string) []hdrKV {
	if s == "-" {
		return nil
	}
	var out []hdrKV
	for _, f := range strings.Split(s, ";") {
		i := strings.IndexByte(f, '=')
		if i < 0 {
			continue
		}
		kv := hdrKV{k: string(Unhx(f[:i]))}
		if f[i+1:] != "" {
			for _, v := range strings.Split(f[i+1:], "|") {
				kv.vs = append(kv.vs, string(Unhx(v)))
			}
		}
		out = append(out, kv)
	}
	return out
}

func parseWmsg(tok string) *wmsg {
	f := strings.Split(tok, "/")
	switch {
	case f[0] == "req" && len(f) == 5:
		return &wmsg{kind: "req", method: string(Unhx(f[1])), ustr: string(Unhx(f[2])), h: parseHdrArg(f[3]), body: Unhx(f[4])}
	case f[0] == "resp" && len(f) == 5:
		c, _ := strconv.Atoi(f[1])
		return &wmsg{kind: "resp", code: c, status: string(Unhx(f[2])), h: parseHdrArg(f[3]), body: Unhx(f[4])}
	case f[0] == "pkt" && len(f) == 4:
		c, _ := strconv.Atoi(f[1])
		return &wmsg{kind: "pkt", code: c, chans: parseIntsCSV(f[2]), body: Unhx(f[3])}
	}
	return nil
}

// write serialises a fresh copy of the message (Request.Write / Response.Write update the header map)
func (m *wmsg) write(w io.Writer) error {
	switch m.kind {
	case "req":
		u, err := url.Parse(m.ustr)
		if err != nil {
			u = &url.URL{Scheme: "rtsp", Host: "h", Path: "/p"}
		}
		return (&rtsp.Request{Method: m.method, URL: u, Proto: "RTSP/1.0", Header: mkHeader(m.h), Body: string(m.body)}).Write(w)
	case "resp":
		return (&rtsp.Response{StatusCode: m.code, Status: m.status, Header: mkHeader(m.h), Body: string(m.body)}).Write(w)
	}
	return (&rtp.Packet{Channel: byte(m.code), Data: m.body}).Write(w, m.chans)
}

// gateWriter parks its caller before the gate-th Write call until released
type gateWriter struct {
	buf     bytes.Buffer
	calls   int
	gate    int
	reached chan struct{}
	release chan struct{}
}

func (g *gateWriter) Write(p []byte) (int, error) {
	if g.calls == g.gate {
		close(g.reached)
		<-g.release
	}
	g.calls++
	return g.buf.Write(p)
}

type concOut struct {
	a, b       string // what the two writers emitted: hex | error | panic:… | hang
	aSeq, bSeq string // what they emit alone
	parked     bool   // A really was suspended inside its message while B was written
}

func writeAlone(m *wmsg) string {
	var buf bytes.Buffer
	if e := safeWrite1(func() error { return m.write(plainWriter{&buf}) }); e != "" {
		return e
	}
	return Hx(buf.Bytes())
}

func runConc(a, b *wmsg, gate int) (o concOut) {
	o.aSeq, o.bSeq = writeAlone(a), writeAlone(b)
	g := &gateWriter{gate: gate, reached: make(chan struct{}), release: make(chan struct{})}
	done := make(chan string, 1)
	go func() {
		e := safeWrite1(func() error { return a.write(g) })
		done <- e
	}()
	finish := func(e string) {
		if e != "" {
			o.a = e
		} else {
			o.a = Hx(g.buf.Bytes())
		}
	}
	wait := func(ch <-chan struct{}) (e string, reached, hung bool) {
		t := time.NewTimer(callBudget + callLongBudget)
		defer t.Stop()
		select {
		case <-ch:
			return "", true, false
		case e := <-done:
			return e, false, false
		case <-t.C:
			return "", false, true
		}
	}
	e, reached, hung := wait(g.reached)
	if hung {
		o.a, o.b = "hang", "-"
		return
	}
	if !reached { // A was through before its gate-th write: nothing interleaves
		finish(e)
		o.b = writeAlone(b)
		return
	}
	o.parked = true
	o.b = writeAlone(b)
	close(g.release)
	e, _, hung = wait(nil)
	if hung {
		o.a = "hang"
		return
	}
	finish(e)
	return
}

func concLine(a, b *wmsg, gate int) string {
	return fmt.Sprintf("c14 conc %d %s %s", gate, a.token(), b.token())
}

func judgeConc(c *Ctx, line string, o concOut) {
	c.Eval(line, true)
	if o.parked {
		c.Count("conc-writer-parked-inside-message")
	} else {
		c.Count("conc-writer-finished-before-gate")
	}
	if o.a == "hang" || o.b == "hang" {
		hungCase = line
		c.Find(Finding{Kind: "oracle", Class: "writer-does-not-terminate", Case: line, Impl: "no result after " + (callBudget + callLongBudget).String(), Spec: "the encoding"})
		return
	}
	if o.a != o.aSeq {
		c.Find(Finding{Kind: "oracle", Class: "concurrent-writers-interfere", Case: line, Impl: trunc(o.a, 300), Spec: trunc(o.aSeq, 300),
			Detail: "the writer that was suspended inside a Write call while another message was serialised emitted other bytes than when it runs alone"})
	}
	if o.b != o.bSeq {
		c.Find(Finding{Kind: "oracle", Class: "concurrent-writers-interfere", Case: line, Impl: trunc(o.b, 300), Spec: trunc(o.bSeq, 300),
			Detail: "the message written while another writer was suspended differs from the same message written alone"})
	}
}

// runConcurrent: pairs of generated messages, every suspension point of the first one sampled;
// once on a single P (a sync.Pool hands a just-returned object to the next caller on the same
// P), once on all
func runConcurrent(c *Ctx, items []item) {
	var msgs []*wmsg
	for _, it := range items {
		if it.msg != nil && it.werr == "" && len(it.wire) > 0 && len(it.wire) < 3000 && (it.kind == "pkt" || len(it.msg.h) >= 1) {
			msgs = append(msgs, it.msg)
		}
		if len(msgs) >= 4000 {
			break
		}
	}
	if len(msgs) < 2 {
		return
	}
	n := c.Budget(600, 6000)
	type job struct {
		a, b *wmsg
		gate int
	}
	jobs := make([]job, 0, n)
	for i := 0; i < n; i++ {
		a, b := msgs[c.Rng.Intn(len(msgs))], msgs[c.Rng.Intn(len(msgs))]
		if len(b.h) > len(a.h) && c.Rng.Chance(70) {
			a, b = b, a
		}
		// Write calls of a message: 4 or 5 for the first line, 4 per header line, the blank line, the body
		gate := c.Rng.Intn(6 + 4*len(a.h) + 2)
		if a.kind == "pkt" {
			gate = c.Rng.Intn(3)
		}
		jobs = append(jobs, job{a, b, gate})
	}
	half := len(jobs) / 2
	old := runtime.GOMAXPROCS(1)
	for _, j := range jobs[:half] {
		judgeConc(c, concLine(j.a, j.b, j.gate), runConc(j.a, j.b, j.gate))
		if hungCase != "" {
			break
		}
	}
	runtime.GOMAXPROCS(old)
	for _, j := range jobs[half:] {
		if hungCase != "" {
			break
		}
		judgeConc(c, concLine(j.a, j.b, j.gate), runConc(j.a, j.b, j.gate))
	}
}

// ---------------------------------------------------------------- readers running concurrently
//
// The same for the reading side: the server reads from many connections at once; what a
// reader returns must depend on its own stream only.  Reader A is parked inside a Read call of
// its connection (before the n-th one), reader B reads its whole stream meanwhile, A is
// released; both results must be what the same reader returns for the same stream alone.

type rjob struct {
	kind   string // recv read-req read-resp read-pkt
	stream []byte
	chans  []int
	d      delivery
}

func (j rjob) token() string {
	return fmt.Sprintf("%s/%s/%s/%s", j.kind, j.d, intsCSV(j.chans), Hx(j.stream))
}

func parseRjob(tok string) *rjob {
	f := strings.Split(tok, "/")
	if len(f) != 4 {
		return nil
	}
	return &rjob{kind: f[0], d: parseDelivery(f[1]), chans: parseIntsCSV(f[2]), stream: Unhx(f[3])}
}

func (j rjob) run(g *gateReader) string {
	br := j.d.readerGated(j.stream, g)
	switch j.kind {
	case "recv":
		evs, ek, _ := implRecvR(br, j.chans)
		return fmt.Sprintf("events=%s err=%s", strings.Join(evs, "/"), ek)
	case "read-req":
		return implReadReqR(br).text
	case "read-resp":
		return implReadRespR(br).text
	}
	return implReadPktR(br, j.chans).text
}

func runRconc(a, b rjob, gate int) (oa, ob, aSeq, bSeq string, parked bool) {
	aSeq, bSeq = a.run(nil), b.run(nil)
	g := &gateReader{gate: gate, reached: make(chan struct{}), release: make(chan struct{})}
	done := make(chan string, 1)
	go func() { done <- a.run(g) }()
	t := time.NewTimer(callBudget + callLongBudget)
	defer t.Stop()
	select {
	case <-g.reached:
		parked = true
	case oa = <-done:
		return oa, b.run(nil), aSeq, bSeq, false
	case <-t.C:
		return "hang", "-", aSeq, bSeq, false
	}
	ob = b.run(nil)
	close(g.release)
	select {
	case oa = <-done:
	case <-t.C:
		oa = "hang"
	}
	return
}

func judgeRconc(c *Ctx, line string, oa, ob, aSeq, bSeq string, parked bool) {
	c.Eval(line, true)
	if parked {
		c.Count("rconc-reader-parked-inside-message")
	} else {
		c.Count("rconc-reader-finished-before-gate")
	}
	if oa == "hang" {
		hungCase = line
		c.Find(Finding{Kind: "oracle", Class: "reader-does-not-terminate", Case: line, Impl: "no result after " + (callBudget + callLongBudget).String(), Spec: "a message, a frame or an error"})
		return
	}
	if oa != aSeq {
		c.Find(Finding{Kind: "oracle", Class: "concurrent-readers-interfere", Case: line, Impl: trunc(oa, 300), Spec: trunc(aSeq, 300),
			Detail: "the reader that was suspended inside a Read of its connection while another connection was read returned something else than when it runs alone"})
	}
	if ob != bSeq {
		c.Find(Finding{Kind: "oracle", Class: "concurrent-readers-interfere", Case: line, Impl: trunc(ob, 300), Spec: trunc(bSeq, 300),
			Detail: "the stream read while another reader was suspended gave something else than when it is read alone"})
	}
}

func runConcurrentReaders(c *Ctx, cases []rcase) {
	var jobs []rjob
	for i := range cases {
		k := &cases[i]
		if k.implOnly || len(k.stream) < 8 || len(k.stream) > 6000 {
			continue
		}
		jobs = append(jobs, rjob{kind: k.kind, stream: k.stream, chans: k.chans, d: k.d})
		if len(jobs) >= 6000 {
			break
		}
	}
	if len(jobs) < 2 {
		return
	}
	n := c.Budget(600, 6000)
	old := runtime.GOMAXPROCS(0)
	for i := 0; i < n && hungCase == ""; i++ {
		a, b := jobs[c.Rng.Intn(len(jobs))], jobs[c.Rng.Intn(len(jobs))]
		// the suspended reader sees its stream through a small bufio buffer, so that there are
		// several Read calls to be suspended in
		if c.Rng.Chance(70) {
			a.d.buf = []int{16, 64}[c.Rng.Intn(2)]
		}
		gate := c.Rng.Intn(1 + len(a.stream)/a.d.buf + 3)
		if c.Rng.Chance(30) {
			gate = c.Rng.Intn(4)
		}
		if c.Rng.Chance(25) { // byte-wise delivery: suspended inside a frame prefix / a start line
			a.d.mode = "1"
			gate = 1 + c.Rng.Intn(8)
		}
		if i == n/2 {
			runtime.GOMAXPROCS(1)
		}
		oa, ob, as, bs, parked := runRconc(a, b, gate)
		judgeRconc(c, fmt.Sprintf("c14 rconc %d %s %s", gate, a.token(), b.token()), oa, ob, as, bs, parked)
	}
	runtime.GOMAXPROCS(old)
}

// ---------------------------------------------------------------- negative streams

func longLine(n int, b byte) []byte { return bytes.Repeat([]byte{b}, n) }

var hugeLengths = 8

func genNegative(c *Ctx, valid [][]byte) (stream []byte, tag string) {
	pick := func() []byte {
		if len(valid) == 0 {
			return []byte("OPTIONS * RTSP/1.0\r\nCSeq: 1\r\n\r\n")
		}
		return append([]byte(nil), valid[c.Rng.Intn(len(valid))]...)
	}
	switch r := c.Rng.Intn(100); {
	case r < 10:
		return c.Rng.Bytes(c.Rng.Intn(64)), "random-bytes"
	case r < 16:
		n := c.Rng.Intn(40)
		b := make([]byte, n)
		for i := range b {
			b[i] = c.Rng.Pick("RTSP/1.0 $*\r\n:ab 20OK\x00\xff")
		}
		return b, "random-tokens"
	case r < 40: // mutate a valid message
		s := pick()
		if len(s) > 3000 {
			s = s[:3000]
		}
		for k := 1 + c.Rng.Intn(3); k > 0 && len(s) > 0; k-- {
			i := c.Rng.Intn(len(s))
			switch c.Rng.Intn(5) {
			case 0:
				s[i] = byte(c.Rng.U64())
			case 1:
				s = append(s[:i], s[i+1:]...)
			case 2:
				s = append(s[:i], append([]byte{c.Rng.Pick(" \r\n:$\x00R\xc2\xa0\xe2\x80\x83")}, s[i:]...)...)
			case 3:
				s[i] = c.Rng.Pick(" \r\n:\t")
			case 4:
				s = s[:i]
			}
		}
		return s, "mutated"
	case r < 52: // truncated
		s := pick()
		if len(s) > 0 {
			s = s[:c.Rng.Intn(len(s))]
		}
		return s, "truncated"
	case r < 62: // Content-Length games
		cl := []string{"-1", "+5", "5x", "0x10", "1e3", " 7 ", "", "007", "1048576", "1048577", "65536", "5, 6", "16777217", "70000"}[c.Rng.Intn(14)]
		if hugeLengths > 0 && c.Rng.Chance(12) {
			// values a reader without a limit would try to allocate: only a handful per run
			hugeLengths--
			cl = []string{"2147483648", "4294967295", "99999999999999999999", "9223372036854775807", "9223372036854775808", "-99999999999999999999", "4294967296"}[c.Rng.Intn(7)]
		}
		// (values that the reader would really allocate stay ≤ 1 MiB + 1 here; the 100 MB probe is separate)
		body := c.Rng.Bytes(c.Rng.Intn(12))
		if c.Rng.Bool() {
			return []byte("ANNOUNCE rtsp://h/p RTSP/1.0\r\nCSeq: 2\r\nContent-Length: " + cl + "\r\n\r\n" + string(body)), "content-length-" + cl
		}
		return []byte("RTSP/1.0 200 OK\r\nCSeq: 2\r\ncontent-length: " + cl + "\r\n\r\n" + string(body)), "content-length-" + cl
	case r < 70: // long lines around the interesting sizes
		n := []int{4095, 4096, 4097, 16383, 16384, 16385, 16386, 20000, 65535, 65536, 65537, 100000}[c.Rng.Intn(12)]
		switch c.Rng.Intn(4) {
		case 0:
			return append(append([]byte("DESCRIBE rtsp://h/"), longLine(n-18-9, 'a')...), []byte(" RTSP/1.0\r\nCSeq: 1\r\n\r\n")...), fmt.Sprintf("long-request-line-%d", n)
		case 1:
			return append(append([]byte("OPTIONS * RTSP/1.0\r\nX: "), longLine(n-3, 'v')...), []byte("\r\n\r\n")...), fmt.Sprintf("long-header-line-%d", n)
		case 2:
			return append(append([]byte("RTSP/1.0 200 "), longLine(n-13, 'r')...), []byte("\r\nCSeq: 1\r\n\r\n")...), fmt.Sprintf("long-status-line-%d", n)
		default:
			return append([]byte("OPTIONS * RTSP/1.0\r\n"), longLine(n, 'k')...), fmt.Sprintf("long-unterminated-%d", n)
		}
	case r < 80: // malformed interleaved frames
		chn := byte([]int{0, 2, 1, 9}[c.Rng.Intn(4)])
		data, _ := genRTP(c)
		if c.Rng.Chance(50) && len(data) > 0 {
			data[0] |= 0x10 // force the extension bit on
		}
		n := len(data)
		if c.Rng.Chance(30) {
			n += 1 + c.Rng.Intn(5) // length lies: longer than what follows
		}
		return append([]byte{0x24, chn, byte(n >> 8), byte(n)}, data...), "frame-malformed"
	case r < 86: // blank lines / LF-only / odd separators before a valid message
		pre := []string{"\r\n", "\n", "\r\n\r\n", " ", "\t"}[c.Rng.Intn(5)]
		return append([]byte(pre), pick()...), "leading-" + strconv.Quote(pre)
	case r < 96 && r >= 90: // odd spacing in first lines and header lines
		first := []string{"RTSP/1.0  200 OK", "RTSP/1.0   404  Not Found", "RTSP/1.0 200", "RTSP/1.0 200 ", "RTSP/1.0\t200 OK", "RTSP/1.0 200\tOK", " RTSP/1.0 200 OK",
			"PLAY  rtsp://h/p RTSP/1.0", "PLAY rtsp://h/p  RTSP/1.0", " PLAY rtsp://h/p RTSP/1.0", "PLAY\trtsp://h/p RTSP/1.0", "PLAY rtsp://h/p RTSP/1.0 ", "PLAY rtsp://h/p RTSP/1.0 extra",
			"PLAY rtsp://h/p\tRTSP/1.0", "\tPLAY\t rtsp://h/p \tRTSP/1.0\t", "PLAY \u00a0rtsp://h/p\u2003 RTSP/1.0", "OPTIONS * RTSP/1.0", "DESCRIBE * RTSP/1.0", "OPTIONS  *  RTSP/1.0"}[c.Rng.Intn(19)]
		hdr := []string{"CSeq:1", "CSeq :1", "CSeq:  1  ", " CSeq: 1", ":novalue", "NoColon", "CSeq: 1\r\nCSeq: 2", "cseq: 1\r\nCSEQ: 2", "X-A:\tb\t", "Content-Length:0", "Content-Length:  2", "\u017fession: 7", "K: v: w", "K:", "\u00a0K\u2003:\u00a0v\u3000"}[c.Rng.Intn(15)]
		body := ""
		if strings.Contains(hdr, "Content-Length:  2") {
			body = "hi"
		}
		return []byte(first + "\r\n" + hdr + "\r\n\r\n" + body), "spacing"
	case r < 90: // LF-only line ends and folded case
		s := pick()
		if len(s) > 3000 {
			s = s[:3000]
		}
		return bytes.Replace(s, []byte("\r\n"), []byte("\n"), -1), "lf-only"
	default:
		s := pick()
		return append(s, c.Rng.Bytes(1+c.Rng.Intn(10))...), "valid-then-garbage"
	}
}

// ---------------------------------------------------------------- the run

type rcase struct {
	line     string // driver op
	kind     string // read-req read-resp read-pkt recv
	stream   []byte
	chans    []int
	d        delivery
	expect   []string // oracle: expected event renderings (valid items), nil = no round-trip oracle
	restWant int      // read-*: bytes that must be left (-1: no oracle)
	tag      string
	witems   []int // indices into the w-op list
	implOnly bool  // oracle probe: not sent to the model (the op line is a dummy)
	extraURL map[string]bool
	// filled by the readers loop, used by the WebSocket phase (ws.go)
	want        []string // the specification's expected renderings when every item of the stream is valid
	tcpAgrees   bool     // reader over the chunked TCP-like delivery = model, no oracle finding
	wsPlans     []wsPlan // corpus / replay: deliveries through the WebSocket transport to run
	validReplay bool     // corpus / replay ws case whose stream the model reads as whole items up to a clean end
}

// run: the cases are generated, driven and compared round by round (one round = the quick
// budget), so that memory stays flat in the thorough tier
func run(c *Ctx) {
	rounds := 1
	if c.Thorough() {
		rounds = 5
	}
	if c.Search {
		rounds *= 4
	}
	for r := 0; r < rounds; r++ {
		runRound(c, r)
		if c.Replay != "" || hungCase != "" {
			break
		}
	}
}

func runRound(c *Ctx, round int) {
	c.Res.Rule = "rt case = (generated message, continuation, bufio size, chunking): written by the real writer, read back by the real reader; stream case = 1..7 items back to back through receive; neg case = garbage / mutated / truncated / over-long / lying-length stream. Distinct by the op line; non-trivial when the stream has at least 4 bytes."
	var cases []rcase
	var wops []string
	var items []item

	// ---- corpus / replay
	for _, l := range c.CorpusLines() {
		f := strings.Fields(l)
		if len(f) < 2 || f[0] != "c14" || round > 0 {
			continue
		}
		var plans []wsPlan
		if f[1] == "ws" && len(f) >= 5 { // c14 ws <plan> <an ordinary read / recv op>
			p, ok := parseWsPlan(f[2])
			if !ok {
				continue
			}
			plans = []wsPlan{p}
			f = append([]string{"c14"}, f[3:]...)
		}
		ncases := len(cases)
		switch {
		case f[1] == "conc" && len(f) == 5:
			gate, _ := strconv.Atoi(f[2])
			if a, b := parseWmsg(f[3]), parseWmsg(f[4]); a != nil && b != nil {
				// on one P and on all of them
				old := runtime.GOMAXPROCS(1)
				judgeConc(c, l, runConc(a, b, gate))
				runtime.GOMAXPROCS(old)
				judgeConc(c, l, runConc(a, b, gate))
			}
		case f[1] == "rconc" && len(f) == 5:
			gate, _ := strconv.Atoi(f[2])
			if a, b := parseRjob(f[3]), parseRjob(f[4]); a != nil && b != nil {
				old := runtime.GOMAXPROCS(1)
				oa, ob, as, bs, parked := runRconc(*a, *b, gate)
				judgeRconc(c, l, oa, ob, as, bs, parked)
				runtime.GOMAXPROCS(old)
				oa, ob, as, bs, parked = runRconc(*a, *b, gate)
				judgeRconc(c, l, oa, ob, as, bs, parked)
			}
		case f[1] == "recv" && len(f) == 6:
			cases = append(cases, rcase{kind: "recv", d: parseDelivery(f[2]), chans: parseIntsCSV(f[3]), stream: Unhx(f[5]), restWant: -1, tag: "corpus"})
		case f[1] == "read" && len(f) >= 5:
			switch f[2] {
			case "req":
				cases = append(cases, rcase{kind: "read-req", d: parseDelivery(f[3]), stream: Unhx(f[5]), restWant: -1, tag: "corpus"})
			case "resp":
				cases = append(cases, rcase{kind: "read-resp", d: parseDelivery(f[3]), stream: Unhx(f[4]), restWant: -1, tag: "corpus"})
			case "pkt":
				cases = append(cases, rcase{kind: "read-pkt", d: parseDelivery(f[3]), chans: parseIntsCSV(f[4]), stream: Unhx(f[5]), restWant: -1, tag: "corpus"})
			}
		}
		if plans != nil && len(cases) == ncases+1 {
			cases[ncases].wsPlans = plans
		}
	}

	var validWires [][]byte
	if c.Replay == "" {
		// ---- round trips of single messages through the direct readers
		n := 5000
		for i := 0; i < n; i++ {
			var it item
			chans := chanTables[c.Rng.Intn(len(chanTables))]
			switch c.Rng.Intn(3) {
			case 0:
				it = genReqItem(c)
			case 1:
				it = genRespItem(c)
			default:
				it = genPktItem(c, chans)
			}
			items = append(items, it)
			wops = append(wops, it.wop)
			if it.werr != "" {
				continue
			}
			var rest []byte
			switch c.Rng.Intn(5) {
			case 0:
			case 1:
				rest = []byte("OPTIONS * RTSP/1.0\r\nCSeq: 9\r\n\r\n")
			case 2:
				rest = []byte{0x24, 0, 0, 1, 0xaa}
			case 3:
				rest = c.Rng.Bytes(1 + c.Rng.Intn(20))
			case 4:
				rest = []byte("RTSP/1.0 200 OK\r\n\r\n")
			}
			stream := append(append([]byte(nil), it.wire...), rest...)
			d := genDelivery(c)
			rc := rcase{stream: stream, d: d, restWant: len(rest), witems: []int{len(items) - 1}, tag: "rt-" + it.kind}
			switch it.kind {
			case "req":
				rc.kind = "read-req"
				rc.extraURL = map[string]bool{it.rurl: true}
			case "resp":
				rc.kind = "read-resp"
			default:
				rc.kind = "read-pkt"
				rc.chans = chans
			}
			cases = append(cases, rc)
			if len(it.wire) > 0 && len(it.wire) < 6000 && len(validWires) < 400 {
				validWires = append(validWires, it.wire)
			}
		}
		// ---- streams through receive
		n = 2500
		for i := 0; i < n; i++ {
			chans := chanTables[c.Rng.Intn(4)]
			if c.Rng.Chance(25) {
				chans = chanTables[c.Rng.Intn(len(chanTables))]
			}
			var stream []byte
			var idxs []int
			extra := map[string]bool{}
			for k := 1 + c.Rng.Intn(7); k > 0; k-- {
				var it item
				switch c.Rng.Intn(3) {
				case 0:
					it = genReqItem(c)
					extra[it.rurl] = true
				case 1:
					it = genRespItem(c)
				default:
					it = genPktItem(c, chans)
				}
				if it.werr != "" || len(it.wire) == 0 || len(it.wire) > 20000 {
					continue
				}
				items = append(items, it)
				wops = append(wops, it.wop)
				idxs = append(idxs, len(items)-1)
				stream = append(stream, it.wire...)
			}
			tag := "stream"
			if c.Rng.Chance(15) {
				stream = append(stream, c.Rng.Bytes(1+c.Rng.Intn(6))...)
				tag = "stream+garbage"
			}
			cases = append(cases, rcase{kind: "recv", stream: stream, chans: chans, d: genDelivery(c), restWant: -1, witems: idxs, tag: tag, extraURL: extra})
		}
		// all two-chunk splits of one short stream (every split point of the interesting region)
		short := []byte("PLAY rtsp://h/p RTSP/1.0\r\nCSeq: 3\r\nContent-Length: 2\r\n\r\nhi$\x01\x00\x02xyRTSP/1.0 200 OK\r\nCSeq: 3\r\n\r\n")
		for a := 1; a < len(short) && round == 0; a++ {
			for _, bs := range []int{16, 4096} {
				cases = append(cases, rcase{kind: "recv", stream: short, chans: []int{0, 1, 2, 3}, d: delivery{buf: bs, mode: fmt.Sprintf("k%d", a)}, restWant: -1, tag: "all-splits"})
			}
		}
		// ---- negative streams
		n = 5000
		for i := 0; i < n; i++ {
			s, tag := genNegative(c, validWires)
			d := genDelivery(c)
			chans := chanTables[c.Rng.Intn(4)]
			kind := []string{"recv", "recv", "read-req", "read-resp", "read-pkt"}[c.Rng.Intn(5)]
			cases = append(cases, rcase{kind: kind, stream: s, chans: chans, d: d, restWant: -1, tag: "neg-" + tag})
		}
		// the body limit itself: a body of exactly the limit is read and the stream stays in step,
		// one byte more is refused (model and implementation must agree; the specification
		// guarantees 64 KiB only)
		if round == 0 {
			for _, n := range []int{1 << 20, 1<<20 + 1} {
				body := c.Rng.Bytes(n)
				resp := append(append([]byte(fmt.Sprintf("RTSP/1.0 200 OK\r\nCSeq: 4\r\nContent-Length: %d\r\n\r\n", n)), body...), 0x24, 0, 0, 1, 0x61)
				cases = append(cases, rcase{kind: "read-resp", stream: resp, d: delivery{buf: 4096, mode: "s11"}, restWant: -1, tag: "limit-body"})
				req := append(append([]byte(fmt.Sprintf("ANNOUNCE rtsp://h/p RTSP/1.0\r\nCSeq: 5\r\nContent-Length: %d\r\n\r\n", n)), body...), []byte("OPTIONS * RTSP/1.0\r\n\r\n")...)
				cases = append(cases, rcase{kind: "recv", stream: req, chans: []int{0, 1, 2, 3}, d: delivery{buf: 65536, mode: "a"}, restWant: -1, tag: "limit-body"})
			}
		}
		// the unbounded-buffering probes: one line of 1.5 MiB, one announced body of 100 MB
		big := 3 << 19
		if round == 0 {
			cases = append(cases,
				rcase{kind: "recv", stream: append(append([]byte("OPTIONS * RTSP/1.0\r\nX-Fill: "), longLine(big, 'z')...), []byte("\r\n\r\n")...), chans: []int{0, 1, 2, 3}, d: delivery{buf: 4096, mode: "a"}, restWant: -1, tag: "neg-huge-header-line", implOnly: true},
				rcase{kind: "read-resp", stream: append(append([]byte("RTSP/1.0 200 "), longLine(big, 'z')...), []byte("\r\n\r\n")...), d: delivery{buf: 65536, mode: "s7"}, restWant: -1, tag: "neg-huge-status-line", implOnly: true},
				rcase{kind: "recv", stream: []byte("ANNOUNCE rtsp://h/p RTSP/1.0\r\nCSeq: 2\r\nContent-Length: 100000000\r\n\r\nshort"), chans: []int{0, 1, 2, 3}, d: delivery{buf: 4096, mode: "a"}, restWant: -1, tag: "neg-absurd-content-length", implOnly: true},
				rcase{kind: "read-resp", stream: []byte("RTSP/1.0 200 OK\r\nContent-Length: 100000000\r\n\r\n"), d: delivery{buf: 4096, mode: "1"}, restWant: -1, tag: "neg-absurd-content-length", implOnly: true},
			)
		}
	}

	// ---- writers running concurrently (implementation only: compared with the same writer running alone)
	if c.Replay == "" {
		runConcurrent(c, items)
		if hungCase != "" {
			return
		}
		runConcurrentReaders(c, cases)
		if hungCase != "" {
			return
		}
	}
	// ---- driver: writers/spec first
	wouts := c.Drive(wops)
	// ---- build read ops, resolve URL tables
	for i := range cases {
		k := &cases[i]
		k.line = caseLine(k, nil)
	}
	lines := make([]string, len(cases))
	for i := range cases {
		lines[i] = cases[i].line
	}
	outs := c.Drive(lines)
	for pass := 0; pass < 12; pass++ {
		var redo []int
		for i, o := range outs {
			if strings.HasPrefix(o, "need-url=") {
				if cases[i].extraURL == nil {
					cases[i].extraURL = map[string]bool{}
				}
				cases[i].extraURL[string(Unhx(strings.TrimPrefix(o, "need-url=")))] = true
				cases[i].line = caseLine(&cases[i], nil)
				lines[i] = cases[i].line
				redo = append(redo, i)
			}
		}
		if len(redo) == 0 {
			break
		}
		sub := make([]string, len(redo))
		for j, i := range redo {
			sub[j] = lines[i]
		}
		res := c.Drive(sub)
		for j, i := range redo {
			outs[i] = res[j]
		}
	}

	// ---- writers: implementation vs model vs specification
	for i, it := range items {
		w := KV(wouts[i])
		c.Count("write-" + it.kind)
		implWire := Hx(it.wire)
		if it.werr == "hang" {
			c.Find(Finding{Kind: "oracle", Class: "writer-does-not-terminate", Case: it.wop, Impl: "no result after " + (callBudget + callLongBudget).String(), Spec: "the encoding", Detail: it.detail})
			c.Note("run stopped: a writer of the implementation did not return")
			return
		}
		if it.werr != "" {
			implWire = "error"
			if strings.HasPrefix(it.werr, "panic") {
				implWire = "panic"
			}
		}
		model := w["wire"]
		if model == "error" && implWire == "panic" {
			// Packet.Write indexes the channel table: a table shorter than the channel type panics,
			// the model reports both as "no output"
			implWire = "error"
		}
		if implWire != model {
			c.Find(Finding{Kind: "corr", Class: "write-" + it.kind, Case: it.wop, Impl: trunc(implWire, 200), Model: trunc(model, 200), Detail: it.detail})
		}
		if w["valid"] == "1" && implWire != w["spec"] {
			c.Find(Finding{Kind: "oracle", Class: "encoding-" + it.kind, Case: it.wop, Impl: trunc(implWire, 200), Spec: trunc(w["spec"], 200), Detail: it.detail})
		}
		if w["valid"] == "1" {
			c.Count("write-valid-" + it.kind)
		}
	}

	// ---- readers
	for i := range cases {
		k := &cases[i]
		c.Eval(k.line, len(k.stream) >= 4)
		c.Count("case-" + strings.SplitN(k.tag, "-\"", 2)[0])
		c.Count(fmt.Sprintf("bufio-%d", k.d.buf))
		c.Count("chunking-" + k.d.mode[:1])
		switch {
		case len(k.stream) < 64:
			c.Count("stream<64")
		case len(k.stream) < 4096:
			c.Count("stream<4k")
		case len(k.stream) < 65536:
			c.Count("stream<64k")
		default:
			c.Count("stream>=64k")
		}
		var ms runtime.MemStats
		var before uint64
		if k.implOnly {
			runtime.ReadMemStats(&ms)
			before = ms.TotalAlloc
		}
		var implText string
		var implEvents []string
		var implErr string
		var ro readOut
		lastBadURL = ""
		hung := watched(k.line, func() {
			switch k.kind {
			case "recv":
				evs, ek, pan := implRecv(k.stream, k.chans, k.d)
				implEvents, implErr = evs, ek
				e := "-"
				if len(evs) > 0 {
					e = strings.Join(evs, "/")
				}
				implText = fmt.Sprintf("events=%s err=%s", e, ek)
				if pan != "" {
					ro.rend = pan
				}
			case "read-req":
				ro = implReadReq(k.stream, k.d)
				implText = ro.text
			case "read-resp":
				ro = implReadResp(k.stream, k.d)
				implText = ro.text
			case "read-pkt":
				ro = implReadPkt(k.stream, k.chans, k.d)
				implText = ro.text
			}
		})
		if hung {
			c.Find(Finding{Kind: "oracle", Class: "reader-does-not-terminate", Case: shortCase(k), Impl: "no result after " + (callBudget + callLongBudget).String(), Spec: "a message, a frame or an error", Detail: k.tag})
			c.Note("run stopped: a call into the implementation did not return (" + k.tag + ")")
			return
		}
		var alloc uint64
		if k.implOnly {
			runtime.ReadMemStats(&ms)
			alloc = ms.TotalAlloc - before
		}
		// the implementation stopped at a Request-URI net/url refuses, the model went on with a
		// URI its table does not hold and failed later: tell it net/url's verdict and ask again
		for pass := 0; pass < 12 && !k.implOnly && !hung && strings.HasSuffix(implText, "err=url-parse") && outs[i] != implText && lastBadURL != "" && !k.extraURL[lastBadURL]; pass++ {
			if k.extraURL == nil {
				k.extraURL = map[string]bool{}
			}
			k.extraURL[lastBadURL] = true
			for p2 := 0; p2 < 12; p2++ {
				k.line = caseLine(k, nil)
				outs[i] = c.Drive([]string{k.line})[0]
				if !strings.HasPrefix(outs[i], "need-url=") {
					break
				}
				k.extraURL[string(Unhx(strings.TrimPrefix(outs[i], "need-url=")))] = true
			}
			c.Count("url-table-completed-from-net/url-error")
		}
		model := strings.Replace(outs[i], "err=panic", "panic", 1)
		if strings.HasPrefix(implText, "events=") && strings.HasSuffix(implText, "err=panic") {
			implText = strings.TrimSuffix(implText, "err=panic") + "panic"
		}
		c.Count("outcome-" + outcomeClass(implText))
		if i%(len(cases)/8+1) == 0 {
			c.Sample(fmt.Sprintf("%s %s stream=%q impl=%s", k.tag, k.d, trunc(string(k.stream), 60), trunc(implText, 120)))
		}
		// the bufio quirk: an unterminated last line whose length is a multiple of the buffer
		// size ends in EOF instead of being returned as a line (error kind only, never ok/err)
		cmpImpl, cmpModel := implText, model
		if tailNoLF(k.stream) >= k.d.buf {
			cmpImpl, cmpModel = collapseErr(implText), collapseErr(model)
			c.Count("compare-error-kind-collapsed")
		}
		if k.implOnly {
			c.Count("oracle-probe-impl-only")
		} else if cmpImpl != cmpModel {
			c.Find(Finding{Kind: "corr", Class: k.kind, Case: k.line, Impl: trunc(implText, 400), Model: trunc(model, 400), Detail: k.tag})
		}
		// ---------------- specification oracle
		panicked := strings.Contains(implText, "panic")
		k.tcpAgrees = !k.implOnly && cmpImpl == cmpModel && !panicked
		if len(k.wsPlans) > 0 && k.tcpAgrees {
			k.validReplay = (strings.HasPrefix(model, "events=") && !strings.HasPrefix(model, "events=- ") && strings.HasSuffix(model, "err=eof")) || strings.HasPrefix(model, "ok=")
		}
		if panicked {
			c.Find(Finding{Kind: "oracle", Class: panicClass(k), Case: k.line, Impl: "panic: " + trunc(ro.rend, 120), Spec: "an error, never a panic", Detail: k.tag})
		}
		// round trips
		if len(k.witems) > 0 {
			allValid := true
			var want []string
			for _, wi := range k.witems {
				w := KV(wouts[wi])
				if w["valid"] != "1" {
					allValid = false
					break
				}
				want = append(want, w["expect"])
			}
			if allValid && k.tag != "stream+garbage" {
				c.Count("roundtrip-oracle-" + k.kind)
				k.want = want
				switch k.kind {
				case "recv":
					got := make([]string, len(implEvents))
					for j, e := range implEvents {
						got[j] = stripPktOffset(e)
					}
					if strings.Join(got, "/") != strings.Join(want, "/") || implErr != "eof" {
						k.tcpAgrees = false
						c.Find(Finding{Kind: "oracle", Class: "stream-sequence", Case: k.line, Impl: trunc(implText, 300), Spec: trunc("events="+strings.Join(want, "/")+" err=eof", 300), Detail: k.tag})
					}
				default:
					if !ro.ok || stripPktOffset(ro.rend) != want[0] {
						k.tcpAgrees = false
						c.Find(Finding{Kind: "oracle", Class: "roundtrip-" + k.kind, Case: k.line, Impl: trunc(implText, 300), Spec: trunc(want[0], 300), Detail: k.tag + " " + items[k.witems[0]].detail})
					} else if ro.rest != k.restWant {
						k.tcpAgrees = false
						c.Find(Finding{Kind: "oracle", Class: "position-after-" + k.kind, Case: k.line, Impl: fmt.Sprintf("rest=%d", ro.rest), Spec: fmt.Sprintf("rest=%d", k.restWant), Detail: k.tag})
					}
				}
			}
		}
		// bounded buffering
		if strings.HasPrefix(k.tag, "neg-huge-") && !strings.Contains(implText, "err=") {
			c.Find(Finding{Kind: "oracle", Class: "over-long-line-accepted", Case: shortCase(k), Impl: trunc(implText, 80), Spec: "error (a line of 1.5 MiB is not buffered)", Detail: k.tag})
		}
		if strings.HasPrefix(k.tag, "neg-huge-") && alloc > 64<<20 {
			c.Find(Finding{Kind: "oracle", Class: "over-long-line-buffered", Case: shortCase(k), Impl: fmt.Sprintf("%d MiB allocated", alloc>>20), Spec: "bounded", Detail: k.tag})
		}
		if k.tag == "neg-absurd-content-length" {
			if !strings.HasPrefix(implText, "err=") && !strings.Contains(implText, "events=- err=") {
				c.Find(Finding{Kind: "oracle", Class: "absurd-content-length-accepted", Case: k.line, Impl: trunc(implText, 80), Spec: "error", Detail: "Content-Length: 100000000 on a stream that ends at once"})
			} else if alloc > 50<<20 {
				c.Find(Finding{Kind: "oracle", Class: "absurd-content-length-allocated", Case: k.line, Impl: fmt.Sprintf("%d MiB allocated before the error", alloc>>20), Spec: "rejected before allocating", Detail: k.tag})
			}
		}
		// a message must not be reported when the stream ended inside its announced body
		if lyingBody(k, implText) {
			c.Find(Finding{Kind: "oracle", Class: "truncated-body-accepted", Case: k.line, Impl: trunc(implText, 200), Spec: "error: the stream ends inside the announced body", Detail: k.tag})
		}
	}
	// ---- the same streams through the other kind of connection: the WebSocket transport (ws.go)
	runWsPhase(c, cases, items)
}

func caseLine(k *rcase, _ []string) string {
	if k.implOnly {
		return "c14 limits"
	}
	switch k.kind {
	case "recv":
		return fmt.Sprintf("c14 recv %s %s %s %s", k.d, intsCSV(k.chans), urlTable(k.stream, k.extraURL), Hx(k.stream))
	case "read-req":
		return fmt.Sprintf("c14 read req %s %s %s", k.d, urlTable(k.stream, k.extraURL), Hx(k.stream))
	case "read-resp":
		return fmt.Sprintf("c14 read resp %s %s", k.d, Hx(k.stream))
	}
	return fmt.Sprintf("c14 read pkt %s %s %s", k.d, intsCSV(k.chans), Hx(k.stream))
}

func shortCase(k *rcase) string {
	if len(k.line) > 300 {
		return k.line[:200] + "…(" + strconv.Itoa(len(k.stream)) + " bytes; tag " + k.tag + ")"
	}
	return k.line
}

func outcomeClass(s string) string {
	switch {
	case strings.Contains(s, "panic"):
		return "panic"
	case strings.HasPrefix(s, "ok="):
		return "ok"
	case strings.HasPrefix(s, "err="):
		return s
	case strings.HasPrefix(s, "events=- "):
		return "recv-0-events-" + s[strings.LastIndex(s, "err="):]
	case strings.HasPrefix(s, "events="):
		return "recv-n-events-" + s[strings.LastIndex(s, "err="):]
	}
	return "other"
}

func panicClass(k *rcase) string {
	if k.kind == "read-pkt" || (len(k.stream) > 0 && k.stream[0] == '$') || bytes.Contains(k.stream, []byte{0x24}) {
		return "panic-rtp-header-extension"
	}
	return "panic-on-arbitrary-bytes"
}

func tailNoLF(s []byte) int {
	i := bytes.LastIndexByte(s, '\n')
	return len(s) - 1 - i
}

func collapseErr(s string) string {
	if i := strings.LastIndex(s, "err="); i >= 0 && !strings.Contains(s[i:], "panic") {
		return s[:i] + "err=*"
	}
	return s
}

// pkt,<ch>,<offset>,<data> → pkt,<ch>,<data>  (the oracle does not speak about the RTP header offset)
func stripPktOffset(e string) string {
	if strings.HasPrefix(e, "pkt,") {
		f := strings.SplitN(e, ",", 4)
		if len(f) == 4 {
			return "pkt," + f[1] + "," + f[3]
		}
	}
	return e
}

// lyingBody: the implementation returned a message although the last message's announced
// Content-Length exceeds what the stream still held (detected on the simple generated forms only)
func lyingBody(k *rcase, implText string) bool {
	if !strings.HasPrefix(k.tag, "neg-content-length-") && k.tag != "neg-truncated" {
		return false
	}
	i := bytes.Index(k.stream, []byte("\r\n\r\n"))
	if i < 0 {
		return false
	}
	head := strings.ToLower(string(k.stream[:i]))
	j := strings.Index(head, "content-length: ")
	if j < 0 {
		return false
	}
	v := head[j+16:]
	if e := strings.Index(v, "\r\n"); e >= 0 {
		v = v[:e]
	}
	n, err := strconv.ParseInt(strings.TrimSpace(v), 10, 64)
	if err != nil || n <= 0 {
		return false
	}
	have := int64(len(k.stream) - i - 4)
	if have >= n {
		return false
	}
	if k.stream[0] == '$' {
		return false
	}
	// the first message cannot be complete: any success for it is wrong
	return strings.HasPrefix(implText, "ok=") || (strings.HasPrefix(implText, "events=") && !strings.HasPrefix(implText, "events=- "))
}

func trunc(s string, n int) string {
	if os.Getenv("VERIF_FULL") != "" { // debugging aid: findings carry the whole renderings
		return s
	}
	if len(s) > n {
		return s[:n] + "…"
	}
	return s
}
