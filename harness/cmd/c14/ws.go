// C14 over the second kind of connection the receive loop reads from: RTSP over WebSocket.
//
// The HTTP service hands the upgraded connection (network/websocket.TryUpgrade → websocketTransport)
// to the RTSP server, which wraps it in buffered.NewConn and runs the same receive loop
// (ReadRequest / ReadResponse / ReadPacket) over it as over a TCP connection.  "Delivered in any
// chunking" therefore includes every chunking the WebSocket layer can produce: the cut of the
// byte stream into messages, the cut of a message into continuation frames, control frames
// between fragments, frames of more than the 4 KiB read buffer, frames arriving in several
// segments, empty messages and empty fragments.
//
// Real code exercised: net/http server → websocket.TryUpgrade (gorilla Upgrader) →
// websocketTransport.Read → buffered.Conn.Reader() → rtsp.ReadRequest / ReadResponse /
// rtp.ReadPacket / service/rtsp.receive.  The peer is a real gorilla client (handshake always;
// message writer with a generated write buffer size, or hand-built masked frames written to the
// client's connection where the frame borders are to lie at generated points).
//
// Everything is in-process and synchronous: client and server are the two ends of a net.Pipe
// (no sockets, no ports), every Write of the client is cut into generated segments and the
// server sees exactly these segments as its reads.  No verdict depends on time: the reader ends
// when the client has closed (close frame or connection drop) or when it fails; all waits are
// for events, with the usual watchdog (1 min + 4 min) around the call into the implementation.
package main

import (
	"errors"
	"fmt"
	"io"
	"io/ioutil"
	"net"
	"net/http"
	"regexp"
	"strconv"
	"strings"
	"sync"
	"time"

	. "verifharness/hlib"

	"github.com/cnotch/ipchub/config"
	"github.com/cnotch/ipchub/network/socket/buffered"
	"github.com/cnotch/ipchub/network/websocket"
	gws "github.com/gorilla/websocket"
)

// ---------------------------------------------------------------- the plan (one token of the op line)
//
//	<client>.<seg>.<end>.<buf>.<body>
//	client  g<n>  gorilla message writer, client write buffer n (a message longer than n is fragmented into frames of n)
//	        r     hand-built frames (frame borders exactly as the body says)
//	seg     w     every frame is one write | s<seed> every write cut into random segments | 1 byte-wise (short writes)
//	end     c     close frame | d connection dropped
//	buf     s     buffered.Conn as the RTSP session makes it (config.NetBufferSize) | d package default | m minimum
//	body    messages joined by '_'; a message is 'p' (ping) | 'q' (unsolicited pong) | [t]<part>+<part>…,
//	        a part being a length or p/q (control frame between the fragments); t = text message.
//	        r: every length is one frame; g: every length is one Write call into the message writer.
//	        Lengths consume the stream in order; what the body leaves over travels as one last message.

type wsPart struct {
	ctl byte // 0 data | 'p' | 'q'
	n   int
}

type wsMsg struct {
	text  bool
	parts []wsPart
}

type wsPlan struct {
	gorilla bool
	wbuf    int
	seg     string
	end     byte
	buf     byte
	msgs    []wsMsg
}

func (p wsPlan) String() string {
	cl := "r"
	if p.gorilla {
		cl = "g" + strconv.Itoa(p.wbuf)
	}
	ms := make([]string, len(p.msgs))
	for i, m := range p.msgs {
		ps := make([]string, len(m.parts))
		for j, q := range m.parts {
			if q.ctl != 0 {
				ps[j] = string(q.ctl)
			} else {
				ps[j] = strconv.Itoa(q.n)
			}
		}
		ms[i] = strings.Join(ps, "+")
		if m.text {
			ms[i] = "t" + ms[i]
		}
	}
	body := strings.Join(ms, "_")
	if body == "" {
		body = "-"
	}
	return fmt.Sprintf("%s.%s.%c.%c.%s", cl, p.seg, p.end, p.buf, body)
}

func parseWsPlan(s string) (p wsPlan, ok bool) {
	f := strings.SplitN(s, ".", 5)
	if len(f) != 5 || f[0] == "" || f[1] == "" || len(f[2]) != 1 || len(f[3]) != 1 {
		return p, false
	}
	if f[0][0] == 'g' {
		p.gorilla = true
		p.wbuf, _ = strconv.Atoi(f[0][1:])
		if p.wbuf < 1 {
			p.wbuf = 1
		}
	}
	p.seg, p.end, p.buf = f[1], f[2][0], f[3][0]
	if f[4] == "-" || f[4] == "" {
		return p, true
	}
	for _, ms := range strings.Split(f[4], "_") {
		var m wsMsg
		if strings.HasPrefix(ms, "t") {
			m.text = true
			ms = ms[1:]
		}
		for _, ps := range strings.Split(ms, "+") {
			switch ps {
			case "p", "q":
				m.parts = append(m.parts, wsPart{ctl: ps[0]})
			default:
				n, err := strconv.Atoi(ps)
				if err != nil || n < 0 {
					return p, false
				}
				m.parts = append(m.parts, wsPart{n: n})
			}
		}
		p.msgs = append(p.msgs, m)
	}
	return p, true
}

func (m wsMsg) control() bool { return len(m.parts) == 1 && m.parts[0].ctl != 0 }

func (m wsMsg) dataLen() (n, frames int) {
	for _, q := range m.parts {
		if q.ctl == 0 {
			n += q.n
			frames++
		}
	}
	return
}

// features of a plan over a stream of L bytes: what kind of delivery it is (the class of a finding)
func (p wsPlan) features(L int) (fragmented, over4k, segmented bool, nmsgs int) {
	left := L
	see := func(m wsMsg) {
		n, frames := m.dataLen()
		if n > left {
			n = left
		}
		left -= n
		nmsgs++
		if p.gorilla {
			if n > p.wbuf {
				fragmented = true
			}
			if n > 4096 && p.wbuf > 4096 {
				over4k = true
			}
			return
		}
		if frames > 1 {
			fragmented = true
		}
		for _, q := range m.parts {
			if q.ctl == 0 && q.n > 4096 {
				over4k = true
			}
		}
	}
	for _, m := range p.msgs {
		if !m.control() {
			see(m)
		}
	}
	if left > 0 {
		see(wsMsg{parts: []wsPart{{n: left}}})
	}
	return fragmented, over4k, p.seg != "w", nmsgs
}

func (p wsPlan) class(L int) string {
	fr, big, seg, _ := p.features(L)
	switch {
	case fr:
		return "ws-fragmented-message"
	case big:
		return "ws-message-over-4k"
	case seg:
		return "ws-frame-in-several-segments"
	}
	return "ws-whole-messages"
}

// ---------------------------------------------------------------- plan generator

// cutRandom: k cuts of n at random places (pieces may be empty)
func cutRandom(r *Rng, n, k int) []int {
	if n == 0 {
		return []int{0}
	}
	pts := make([]int, 0, k+2)
	for i := 0; i < k; i++ {
		pts = append(pts, r.Intn(n+1))
	}
	pts = append(pts, 0, n)
	// insertion sort (k is small)
	for i := 1; i < len(pts); i++ {
		for j := i; j > 0 && pts[j] < pts[j-1]; j-- {
			pts[j], pts[j-1] = pts[j-1], pts[j]
		}
	}
	out := make([]int, 0, len(pts)-1)
	for i := 1; i < len(pts); i++ {
		out = append(out, pts[i]-pts[i-1])
	}
	return out
}

// fragment a message of n bytes into frame lengths (hand-built frames)
func genFrames(r *Rng, n int) []wsPart {
	var out []wsPart
	add := func(k int) {
		if k > n {
			k = n
		}
		out = append(out, wsPart{n: k})
		n -= k
	}
	switch r.Intn(9) {
	case 0, 1, 2: // one frame
		add(n)
	case 3: // tiny frames (at most 300 of them, the rest in one)
		for i := 0; i < 300 && n > 0; i++ {
			add(1 + r.Intn(8))
		}
	case 4: // medium frames
		for i := 0; i < 200 && n > 0; i++ {
			add(10 + r.Intn(700))
		}
	case 5: // frames above gorilla's 4 KiB read buffer
		for i := 0; i < 60 && n > 0; i++ {
			add(4097 + r.Intn(5000))
		}
	case 6: // two fragments, the border anywhere
		if n > 0 {
			add(r.Intn(n + 1))
		}
	default: // mixed sizes, empty fragments among them
		for i := 0; i < 120 && n > 0; i++ {
			switch r.Intn(7) {
			case 0:
				add(0)
			case 1:
				add(1 + r.Intn(8))
			case 2:
				add(4096)
			case 3:
				add(4097)
			case 4:
				add(5000 + r.Intn(4000))
			default:
				add(20 + r.Intn(600))
			}
		}
	}
	if n > 0 || len(out) == 0 {
		add(n)
	}
	if r.Chance(6) { // an empty last fragment
		out = append(out, wsPart{n: 0})
	}
	if len(out) > 1 && r.Chance(12) { // a control frame between two fragments (RFC 6455 §5.4)
		i := 1 + r.Intn(len(out)-1)
		ctl := wsPart{ctl: "pq"[r.Intn(2)]}
		out = append(out[:i], append([]wsPart{ctl}, out[i:]...)...)
	}
	return out
}

// genWsPlan: L = length of the stream, units = lengths of the requests / responses / frames it is made of (nil: unknown)
func genWsPlan(r *Rng, L int, units []int) wsPlan {
	var p wsPlan
	// ---- the cut into messages
	var lens []int
	strat := r.Intn(7)
	if len(units) == 0 && (strat == 1 || strat == 2) {
		strat = 3
	}
	switch strat {
	case 0: // the whole stream in one message
		lens = []int{L}
	case 1: // one message per unit
		lens = append(lens, units...)
	case 2: // several units per message
		for i := 0; i < len(units); {
			k, n := 1+r.Intn(3), 0
			for ; k > 0 && i < len(units); k, i = k-1, i+1 {
				n += units[i]
			}
			lens = append(lens, n)
		}
	case 3, 4: // cuts anywhere: units split across messages
		lens = cutRandom(r, L, 1+r.Intn(6))
	case 5: // many small messages (the first 400), the rest in one
		n := L
		for i := 0; i < 400 && n > 0; i++ {
			k := 1 + r.Intn(1+r.Intn(64))
			if k > n {
				k = n
			}
			lens = append(lens, k)
			n -= k
		}
		if n > 0 {
			lens = append(lens, n)
		}
	default: // every unit cut in two, the second half travelling with the first half of the next one
		if len(units) == 0 {
			lens = cutRandom(r, L, 2)
			break
		}
		carry := 0
		for _, u := range units {
			a := r.Intn(u + 1)
			lens = append(lens, carry+a)
			carry = u - a
		}
		lens = append(lens, carry)
	}
	// ---- client and fragmentation
	p.gorilla = r.Chance(40)
	if p.gorilla {
		p.wbuf = []int{1, 2, 5, 16, 64, 256, 300, 1000, 4096, 5000, 16384, 65536}[r.Intn(12)]
		for L/p.wbuf > 1500 { // keep the number of frames of one case moderate
			p.wbuf *= 4
		}
	}
	empties := 0
	for _, n := range lens {
		var m wsMsg
		m.text = r.Chance(10)
		switch {
		case !p.gorilla:
			m.parts = genFrames(r, n)
		case n > 1 && r.Chance(15): // two Write calls into the message writer, sometimes a ping between them
			a := r.Intn(n + 1)
			m.parts = []wsPart{{n: a}, {n: n - a}}
			if r.Chance(50) {
				m.parts = []wsPart{{n: a}, {ctl: 'p'}, {n: n - a}}
			}
		default:
			m.parts = []wsPart{{n: n}}
		}
		p.msgs = append(p.msgs, m)
		if empties < 2 && r.Chance(4) { // an empty message
			empties++
			p.msgs = append(p.msgs, wsMsg{parts: []wsPart{{n: 0}}})
		}
		if r.Chance(5) {
			p.msgs = append(p.msgs, wsMsg{parts: []wsPart{{ctl: "pq"[r.Intn(2)]}}})
		}
	}
	// ---- segmentation, end, buffer
	switch r.Intn(20) {
	case 0, 1, 2, 3, 4, 5, 6, 7, 8, 9:
		p.seg = "w"
	case 10, 11, 12:
		p.seg = "1"
		if L > 3000 {
			p.seg = "s" + strconv.Itoa(r.Intn(100000))
		}
	default:
		p.seg = "s" + strconv.Itoa(r.Intn(100000))
	}
	p.end = "cd"[r.Intn(2)]
	p.buf = "ssdm"[r.Intn(4)]
	return p
}

// ---------------------------------------------------------------- the client's connection: writes cut into segments

type segConn struct {
	net.Conn
	mu     sync.Mutex
	active bool
	mode   string
	rng    *Rng
}

func (s *segConn) Write(p []byte) (int, error) {
	s.mu.Lock() // one Write = one frame: its segments stay together
	defer s.mu.Unlock()
	if !s.active || s.mode == "w" || len(p) < 2 {
		return s.Conn.Write(p)
	}
	var pieces []int
	switch {
	case s.mode == "1" && len(p) <= 700:
		for i := 0; i < len(p); i++ {
			pieces = append(pieces, 1)
		}
	default:
		k := 1 + s.rng.Intn(4)
		pieces = cutRandom(s.rng, len(p), k)
		if s.rng.Chance(30) { // the frame header in a segment of its own, or cut in the middle
			h := 1 + s.rng.Intn(6)
			if h < len(p) {
				pieces = append([]int{h}, cutRandom(s.rng, len(p)-h, k)...)
			}
		}
	}
	done := 0
	for _, n := range pieces {
		if n == 0 {
			continue
		}
		m, err := s.Conn.Write(p[done : done+n])
		done += m
		if err != nil {
			return done, err
		}
	}
	return done, nil
}

// ---------------------------------------------------------------- the server: net/http on a pipe listener, the real upgrade

type pipeAddr struct{}

func (pipeAddr) Network() string { return "pipe" }
func (pipeAddr) String() string  { return "pipe" }

type pipeListener struct {
	ch   chan net.Conn
	done chan struct{}
	once sync.Once
}

func (l *pipeListener) Accept() (net.Conn, error) {
	select {
	case c := <-l.ch:
		return c, nil
	case <-l.done:
		return nil, errors.New("listener closed")
	}
}
func (l *pipeListener) Close() error   { l.once.Do(func() { close(l.done) }); return nil }
func (l *pipeListener) Addr() net.Addr { return pipeAddr{} }

type wsHub struct {
	ln       *pipeListener
	accepted chan websocket.Conn
}

var hub *wsHub

func theHub() *wsHub {
	if hub != nil {
		return hub
	}
	h := &wsHub{ln: &pipeListener{ch: make(chan net.Conn), done: make(chan struct{})}, accepted: make(chan websocket.Conn, 4)}
	srv := &http.Server{Handler: http.HandlerFunc(func(w http.ResponseWriter, r *http.Request) {
		// as service/streamapis.go onWebSocketRequest does
		if ws, ok := websocket.TryUpgrade(w, r, "/live/a", ""); ok {
			h.accepted <- ws
		}
	})}
	go srv.Serve(h.ln)
	hub = h
	return h
}

const wsInfraBudget = 5 * time.Minute

// ---------------------------------------------------------------- one run

type wsOut struct {
	infra  string // not empty: the scaffolding failed (no verdict)
	hung   bool
	text   string
	events []string
	errk   string
	ro     readOut
	sent   string // what the sender reports
}

func rawFrame(op byte, fin bool, payload []byte, key [4]byte) []byte {
	b0 := op
	if fin {
		b0 |= 0x80
	}
	out := make([]byte, 0, len(payload)+14)
	out = append(out, b0)
	n := len(payload)
	switch {
	case n <= 125:
		out = append(out, 0x80|byte(n))
	case n <= 65535:
		out = append(out, 0x80|126, byte(n>>8), byte(n))
	default:
		out = append(out, 0x80|127, 0, 0, 0, 0, byte(n>>24), byte(n>>16), byte(n>>8), byte(n))
	}
	out = append(out, key[:]...)
	h := len(out)
	out = append(out, payload...)
	for i := range payload {
		out[h+i] ^= key[i&3]
	}
	return out
}

// send executes the plan on the client side; returns when everything is written (or a write failed
// because the server has stopped reading and closed)
func wsSend(c *gws.Conn, sc *segConn, p wsPlan, stream []byte, rng *Rng) error {
	long := func() time.Time { return time.Now().Add(24 * time.Hour) }
	key := func() (k [4]byte) {
		copy(k[:], rng.Bytes(4))
		return
	}
	ctlOp := func(b byte) (int, byte) {
		if b == 'p' {
			return gws.PingMessage, 9
		}
		return gws.PongMessage, 10
	}
	take := func(n int) []byte {
		if n > len(stream) {
			n = len(stream)
		}
		b := stream[:n]
		stream = stream[n:]
		return b
	}
	msgs := p.msgs
	doMsg := func(m wsMsg) error {
		if m.control() {
			mt, op := ctlOp(m.parts[0].ctl)
			if p.gorilla {
				return c.WriteControl(mt, []byte("k"), long())
			}
			_, err := sc.Write(rawFrame(op, true, []byte("k"), key()))
			return err
		}
		mt, op := gws.BinaryMessage, byte(2)
		if m.text {
			mt, op = gws.TextMessage, 1
		}
		if p.gorilla {
			w, err := c.NextWriter(mt)
			if err != nil {
				return err
			}
			for _, q := range m.parts {
				if q.ctl != 0 {
					cm, _ := ctlOp(q.ctl)
					if err := c.WriteControl(cm, nil, long()); err != nil {
						return err
					}
					continue
				}
				if _, err := w.Write(take(q.n)); err != nil {
					return err
				}
			}
			return w.Close()
		}
		last := -1
		for i, q := range m.parts {
			if q.ctl == 0 {
				last = i
			}
		}
		first := true
		for i, q := range m.parts {
			if q.ctl != 0 {
				_, cop := ctlOp(q.ctl)
				if _, err := sc.Write(rawFrame(cop, true, nil, key())); err != nil {
					return err
				}
				continue
			}
			o := op
			if !first {
				o = 0 // continuation
			}
			first = false
			if _, err := sc.Write(rawFrame(o, i == last, take(q.n), key())); err != nil {
				return err
			}
		}
		return nil
	}
	for _, m := range msgs {
		if err := doMsg(m); err != nil {
			return err
		}
	}
	if len(stream) > 0 {
		if err := doMsg(wsMsg{parts: []wsPart{{n: len(stream)}}}); err != nil {
			return err
		}
	}
	if p.end == 'c' {
		if p.gorilla {
			return c.WriteControl(gws.CloseMessage, gws.FormatCloseMessage(gws.CloseNormalClosure, ""), long())
		}
		_, err := sc.Write(rawFrame(8, true, []byte{0x03, 0xe8}, key()))
		return err
	}
	return sc.Conn.Close() // the connection drops without a close frame
}

func wsBufOptions(b byte) []buffered.Option {
	switch b {
	case 's': // service/rtsp newSession
		return []buffered.Option{buffered.FlushRate(config.NetFlushRate()), buffered.BufferSize(config.NetBufferSize())}
	case 'm':
		return []buffered.Option{buffered.BufferSize(1)} // the package's minimum
	}
	return nil
}

// runWs: the stream travels as the plan says; the real reader of `kind` reads it on the server side
func runWs(kind string, stream []byte, chans []int, p wsPlan, what string) (o wsOut) {
	h := theHub()
	cli, srvEnd := net.Pipe()
	seed := uint64(len(stream))*2654435761 + 17
	if strings.HasPrefix(p.seg, "s") {
		n, _ := strconv.ParseUint(p.seg[1:], 10, 64)
		seed += n
	}
	rng := NewRng(seed)
	sc := &segConn{Conn: cli, mode: p.seg, rng: NewRng(seed + 1)}
	wb := p.wbuf
	if !p.gorilla {
		wb = 4096
	}
	d := gws.Dialer{
		NetDial: func(_, _ string) (net.Conn, error) {
			select {
			case h.ln.ch <- srvEnd:
				return sc, nil
			case <-time.After(wsInfraBudget):
				return nil, errors.New("server does not accept")
			}
		},
		Subprotocols: []string{"rtsp"}, WriteBufferSize: wb, ReadBufferSize: 1024,
	}
	c, _, err := d.Dial("ws://verif/streams/live/a", nil)
	if err != nil {
		cli.Close()
		srvEnd.Close()
		o.infra = "dial: " + err.Error()
		return
	}
	var ws websocket.Conn
	select {
	case ws = <-h.accepted:
	case <-time.After(wsInfraBudget):
		c.Close()
		o.infra = "upgraded connection not handed over"
		return
	}
	conn := buffered.NewConn(ws, wsBufOptions(p.buf)...)
	sc.mu.Lock()
	sc.active = true
	sc.mu.Unlock()

	// the client takes whatever the server sends (pongs, the close reply) off the pipe and ignores
	// it — read raw, not through gorilla's reader, so that the client never answers anything on
	// its own: every byte the server reads is one the plan wrote
	drained := make(chan struct{})
	go func() {
		defer close(drained)
		io.Copy(ioutil.Discard, cli)
	}()
	sent := make(chan error, 1)
	go func() { sent <- wsSend(c, sc, p, append([]byte(nil), stream...), rng) }()

	br := conn.Reader()
	o.hung = watched(what, func() {
		switch kind {
		case "recv":
			evs, ek, pan := implRecvR(br, chans)
			o.events, o.errk = evs, ek
			e := "-"
			if len(evs) > 0 {
				e = strings.Join(evs, "/")
			}
			o.text = fmt.Sprintf("events=%s err=%s", e, ek)
			if pan != "" {
				o.ro.rend = pan
			}
		case "read-req":
			o.ro = implReadReqR(br)
			o.text = o.ro.text
		case "read-resp":
			o.ro = implReadRespR(br)
			o.text = o.ro.text
		default:
			o.ro = implReadPktR(br, chans)
			o.text = o.ro.text
		}
	})
	// the reader is through (or given up): everything is torn down, which releases the sender
	ws.Close()
	srvEnd.Close()
	cli.Close()
	if !o.hung {
		select {
		case e := <-sent:
			if e != nil {
				o.sent = e.Error()
			}
		case <-time.After(wsInfraBudget):
			o.infra = "sender did not end"
		}
		select {
		case <-drained:
		case <-time.After(wsInfraBudget):
			o.infra = "client reader did not end"
		}
	}
	return
}

// ---------------------------------------------------------------- comparison

var endErr = regexp.MustCompile(`err=(eof|ueof|ws-closed)$`)

// the stream's end is io.EOF on a TCP connection and a close error on a WebSocket: both are "the end"
func normEnd(s string) string { return endErr.ReplaceAllString(s, "err=end") }

func wsBufSize(b byte) int {
	switch b {
	case 's':
		return config.NetBufferSize()
	case 'm':
		return 8 * 1024
	}
	return 64 * 1024
}

type wsCase struct {
	base int // index into cases
	plan wsPlan
	line string
}

func wsLine(p wsPlan, baseLine string) string {
	return "c14 ws " + p.String() + " " + strings.TrimPrefix(baseLine, "c14 ")
}

// runWsPhase: a sample of this round's cases (and every `c14 ws` corpus line) travels through the
// WebSocket transport; what the reader yields must be what the model yields for the same bytes
// and — for streams of valid items — what the specification demands
func runWsPhase(c *Ctx, cases []rcase, items []item) {
	var valid, other, forced []int
	for i := range cases {
		k := &cases[i]
		if k.implOnly || len(k.stream) > 300000 || !k.tcpAgrees {
			continue
		}
		switch {
		case len(k.wsPlans) > 0:
			forced = append(forced, i)
		case k.want != nil || k.tag == "all-splits":
			valid = append(valid, i)
		default:
			other = append(other, i)
		}
	}
	var todo []wsCase
	for _, i := range forced {
		for _, p := range cases[i].wsPlans {
			todo = append(todo, wsCase{base: i, plan: p})
		}
	}
	if c.Replay == "" {
		n := c.Budget(1000, 4000)
		for j := 0; j < n; j++ {
			var i int
			switch {
			case len(valid) > 0 && (len(other) == 0 || c.Rng.Chance(70)):
				i = valid[c.Rng.Intn(len(valid))]
			case len(other) > 0:
				i = other[c.Rng.Intn(len(other))]
			default:
				continue
			}
			k := &cases[i]
			var units []int
			if k.kind == "recv" {
				for _, wi := range k.witems {
					units = append(units, len(items[wi].wire))
				}
			}
			todo = append(todo, wsCase{base: i, plan: genWsPlan(c.Rng, len(k.stream), units)})
		}
	}
	if len(todo) == 0 {
		return
	}
	lines := make([]string, len(todo))
	for j := range todo {
		todo[j].line = wsLine(todo[j].plan, cases[todo[j].base].line)
		lines[j] = todo[j].line
	}
	outs := c.Drive(lines)
	for j, t := range todo {
		k := &cases[t.base]
		L := len(k.stream)
		c.Eval(t.line, L >= 4)
		fr, big, seg, nm := t.plan.features(L)
		c.Count("ws-case-" + strings.SplitN(k.tag, "-\"", 2)[0])
		if t.plan.gorilla {
			c.Count("ws-client-gorilla-writer")
		} else {
			c.Count("ws-client-built-frames")
		}
		if fr {
			c.Count("ws-fragmented-message")
		}
		if big {
			c.Count("ws-frame-over-4k")
		}
		if seg {
			c.Count("ws-frames-in-segments")
		}
		switch {
		case nm <= 1:
			c.Count("ws-messages-1")
		case nm <= 8:
			c.Count("ws-messages-2..8")
		default:
			c.Count("ws-messages>8")
		}
		o := runWs(k.kind, k.stream, k.chans, t.plan, t.line)
		class := t.plan.class(L)
		if o.hung {
			c.Find(Finding{Kind: "oracle", Class: "reader-does-not-terminate", Case: t.line, Impl: "no result after " + (callBudget + callLongBudget).String(), Spec: "a message, a frame or an error", Detail: "over the WebSocket transport; " + k.tag})
			c.Note("run stopped: a call into the implementation did not return (ws " + k.tag + ")")
			return
		}
		if o.infra != "" {
			c.Count("ws-scaffolding-failed")
			c.Note("ws scaffolding: " + o.infra + " (" + trunc(t.line, 120) + ")")
			continue
		}
		impl := o.text
		if strings.HasPrefix(impl, "events=") && strings.HasSuffix(impl, "err=panic") {
			impl = strings.TrimSuffix(impl, "err=panic") + "panic"
		}
		model := strings.Replace(outs[j], "err=panic", "panic", 1)
		c.Count("ws-outcome-" + outcomeClass(normEnd(impl)))
		cmpImpl, cmpModel := normEnd(impl), normEnd(model)
		if tailNoLF(k.stream) >= wsBufSize(t.plan.buf) {
			cmpImpl, cmpModel = collapseErr(cmpImpl), collapseErr(cmpModel)
		}
		if j%(len(todo)/4+1) == 0 {
			c.Sample(fmt.Sprintf("ws %s %s stream=%q impl=%s", k.tag, trunc(t.plan.String(), 60), trunc(string(k.stream), 40), trunc(impl, 100)))
		}
		// ---- specification: a stream of valid items yields exactly these items, whatever the delivery
		reported := false
		if strings.Contains(impl, "panic") {
			reported = true
			c.Find(Finding{Kind: "oracle", Class: panicClass(k), Case: t.line, Impl: "panic: " + trunc(o.ro.rend, 120), Spec: "an error, never a panic", Detail: "over the WebSocket transport; " + k.tag})
		}
		if k.want != nil {
			c.Count("ws-roundtrip-oracle-" + k.kind)
			switch k.kind {
			case "recv":
				got := make([]string, len(o.events))
				for i, e := range o.events {
					got[i] = stripPktOffset(e)
				}
				if strings.Join(got, "/") != strings.Join(k.want, "/") || normEnd("err="+o.errk) != "err=end" {
					reported = true
					c.Find(Finding{Kind: "oracle", Class: class + "-stream-sequence", Case: t.line, Impl: trunc(impl, 300), Spec: trunc("events="+strings.Join(k.want, "/")+" err=end", 300),
						Detail: "the same bytes over a TCP connection give the expected sequence; over the WebSocket transport they do not (" + k.tag + ")"})
				}
			default:
				if !o.ro.ok || stripPktOffset(o.ro.rend) != k.want[0] {
					reported = true
					c.Find(Finding{Kind: "oracle", Class: class + "-roundtrip-" + k.kind, Case: t.line, Impl: trunc(impl, 300), Spec: trunc(k.want[0], 300), Detail: "over the WebSocket transport; " + k.tag})
				} else if o.ro.rest != k.restWant {
					reported = true
					c.Find(Finding{Kind: "oracle", Class: class + "-position-after-" + k.kind, Case: t.line, Impl: fmt.Sprintf("rest=%d", o.ro.rest), Spec: fmt.Sprintf("rest=%d", k.restWant), Detail: "over the WebSocket transport; " + k.tag})
				}
			}
		} else if k.tag == "all-splits" || k.validReplay {
			// a hand-written / replayed stream of valid items: the reader over a TCP connection and the model agree on
			// it (tcpAgrees), and what they yield is what the delivery-independent reader must yield
			if cmpImpl != cmpModel {
				reported = true
				c.Find(Finding{Kind: "oracle", Class: class + "-stream-sequence", Case: t.line, Impl: trunc(impl, 300), Spec: trunc(normEnd(model), 300),
					Detail: "the same bytes over a TCP connection give the expected sequence; over the WebSocket transport they do not (" + k.tag + ")"})
			}
		}
		// ---- correspondence: any stream (garbage included) reads over the transport as the model says
		if cmpImpl != cmpModel && !reported {
			c.Find(Finding{Kind: "corr", Class: "ws-" + k.kind, Case: t.line, Impl: trunc(impl, 400), Model: trunc(model, 400), Detail: k.tag})
		}
	}
}
