package main

import (
	. "verifharness/hlib"
	ml "verifharness/medialib"
)

func main() { Main("C03", run) }

func run(c *Ctx) {
	c.Res.Rule = "case = (a) a sequential script with stops, closes, joins after close, stalled and panicking consumers on a real media.Stream, compared op by op with the Lean model (registration, counters, Consumer.Close calls); (b) a gated interleaving replayed on the real code through the verif schedule points (consumer or converter goroutine parked between its closed-check and Pop while it is stopped / the stream is closed; attach during / after close; overlapping removals); (c) a concurrent stress run with random yields at the schedule points, judged by the trace oracle. Distinct by script text / scenario name / stress seed; a script is non-trivial when it has a join and a publish."
	var scripts []ml.Script
	n := c.Budget(200, 3000)
	for i := 0; i < n; i++ {
		sc := ml.GenScript(c.Rng, "mixed", 30)
		// emphasise release paths: extra stops / close / late joins
		k := len(sc.Ops)
		for j := 0; j < 1+c.Rng.Intn(4); j++ {
			switch c.Rng.Intn(4) {
			case 0:
				sc.Ops = append(sc.Ops, ml.Op{Code: 'X'})
			case 1:
				sc.Ops = append(sc.Ops, ml.Op{Code: 'J', Name: 100 + j, Gop: c.Rng.Bool()})
			case 2:
				sc.Ops = append(sc.Ops, ml.Op{Code: 'S', Name: c.Rng.Intn(4)})
			default:
				sc.Ops = append(sc.Ops, ml.Op{Code: 'P', Kind: ml.KKey})
			}
		}
		_ = k
		scripts = append(scripts, sc)
	}
	ml.RunScripts(c, "c03", scripts)
	for _, hevc := range []bool{false, true} {
		for _, o := range []ml.Outcome{
			ml.ScLostWakeup(false, hevc), ml.ScLostWakeup(true, hevc),
			ml.ScAttachAfterClose(hevc), ml.ScAttachDuringClose(hevc),
			ml.ScAttachAfterEnd("replaced", false, hevc), ml.ScAttachAfterEnd("replaced", true, hevc),
			ml.ScAttachAfterEnd("unregistered", false, hevc), ml.ScAttachAfterEnd("closed", true, hevc),
			ml.ScEndOfReplacedStream("unregist", hevc), ml.ScEndOfReplacedStream("close", hevc),
			ml.ScCounterRace(false, hevc), ml.ScCounterRace(true, hevc),
			ml.ScCloseDuringJoin(false, hevc), ml.ScCloseDuringJoin(true, hevc),
		} {
			ml.RecordOutcome(c, o, "c03")
		}
	}
	ml.RecordOutcome(c, ml.ScWorkerLostWakeup("rtpdemuxer.beforePop", "rtp.(*Demuxer).process"), "c03")
	ml.RecordOutcome(c, ml.ScWorkerLostWakeup("flvmuxer.beforePop", "flv.(*Muxer).process"), "c03")
	ml.RecordOutcome(c, ml.ScWorkerLostWakeup("tsmuxer.beforePop", "mpegts.(*Muxer).process"), "c03")
	ml.RecordOutcome(c, ml.ScCloseAttachStress(c.Budget(120, 1500), false), "c03")
	ml.RecordOutcome(c, ml.ScCloseAttachStress(c.Budget(60, 600), true), "c03")
	ml.FlvWireRuns(c)
	ml.StressRuns(c, "c03", c.Budget(6, 60))
	for _, hevc := range []bool{false, true} {
		ml.RecordOutcome(c, ml.ScStalledAtStreamEnd(false, hevc), "c03")
		ml.RecordOutcome(c, ml.ScStalledAtStreamEnd(true, hevc), "c03")
	}
}
