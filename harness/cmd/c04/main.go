package main

import (
	"fmt"
	"time"

	. "verifharness/hlib"
	ml "verifharness/medialib"
)

func main() { Main("C04", run) }

func run(c *Ctx) {
	c.Res.Rule = "case = a sequential script on a real media.Stream with a stalled consumer, long publish runs (beyond the 1000-packet limit) with arbitrary key-frame spacing, resumes, panicking consumers and a live witness consumer; after every op queue length, discarding flag, delivered uids, counters and Close calls are compared with the Lean model. Distinct by script text; non-trivial when it has a join and a publish."
	var scripts []ml.Script
	// long backlog scripts: consumer 0 stalls, consumer 1 is a live witness
	nb := c.Budget(3, 24)
	for i := 0; i < nb; i++ {
		sc := ml.Script{Hevc: c.Rng.Chance(40), Gop: c.Rng.Chance(50)}
		sc.Ops = append(sc.Ops, ml.Op{Code: 'P', Kind: ml.KSps}, ml.Op{Code: 'P', Kind: ml.KPps}, ml.Op{Code: 'P', Kind: ml.KKey})
		sc.Ops = append(sc.Ops, ml.Op{Code: 'J', Name: 0, Gop: true}, ml.Op{Code: 'J', Name: 1, Gop: true}, ml.Op{Code: 'T', Name: 0})
		gopLen := 2 + c.Rng.Intn(60)
		total := 1150 + c.Rng.Intn(700)
		resumed := false
		for k := 0; k < total; k++ {
			kind := ml.KNonKey
			switch {
			case k%gopLen == 0 && c.Rng.Chance(85):
				kind = ml.KKey
				if c.Rng.Chance(30) {
					kind = ml.KFuKeyS
				}
			case c.Rng.Chance(10):
				kind = ml.KAudio
			case c.Rng.Chance(3):
				kind = ml.KStapKey
			}
			sc.Ops = append(sc.Ops, ml.Op{Code: 'P', Kind: kind, Extra: c.Rng.Intn(3)})
			if !resumed && k > 1010 && c.Rng.Chance(1) {
				sc.Ops = append(sc.Ops, ml.Op{Code: 'R', Name: 0})
				resumed = true
			}
		}
		if !resumed {
			sc.Ops = append(sc.Ops, ml.Op{Code: 'R', Name: 0})
		}
		for k := 0; k < 2*gopLen+3; k++ {
			kind := ml.KNonKey
			if k%gopLen == 0 {
				kind = ml.KKey
			}
			sc.Ops = append(sc.Ops, ml.Op{Code: 'P', Kind: kind})
		}
		scripts = append(scripts, sc)
	}
	// panics, stalls and errors in short scripts
	n := c.Budget(150, 2500)
	for i := 0; i < n; i++ {
		sc := ml.GenScript(c.Rng, "backlog", 50)
		pre := []ml.Op{{Code: 'J', Name: 50, Gop: true, Panic: 1 + c.Rng.Intn(3)}, {Code: 'J', Name: 51, Gop: true}, {Code: 'T', Name: 51}}
		sc.Ops = append(pre, sc.Ops...)
		scripts = append(scripts, sc)
	}
	// every H.265 IRAP type (BLA_W_LP .. CRA_NUT, selected by bits 8.. of Extra), key frames of two
	// FU-fragmented slices sharing one timestamp, a stalled consumer over a small limit and a late
	// joiner after each key frame: the key verdict of every fragment decides both the GOP replay and
	// where dropping may begin and end
	for t := 1; t <= 6; t++ {
		for _, gop := range []bool{true, false} {
			sc := ml.Script{Hevc: true, Gop: gop, MaxQ: 3 + c.Rng.Intn(4)}
			x := t << 8
			sc.Ops = append(sc.Ops, ml.Op{Code: 'P', Kind: ml.KVps}, ml.Op{Code: 'P', Kind: ml.KSps}, ml.Op{Code: 'P', Kind: ml.KPps}, ml.Op{Code: 'P', Kind: ml.KKey, Extra: x})
			sc.Ops = append(sc.Ops, ml.Op{Code: 'J', Name: 0, Gop: true}, ml.Op{Code: 'J', Name: 1, Gop: true}, ml.Op{Code: 'T', Name: 0})
			for g := 0; g < 4; g++ {
				sc.Ops = append(sc.Ops, ml.Op{Code: 'P', Kind: ml.KFuKeyS, Extra: x | c.Rng.Intn(3)})
				for m := 1 + c.Rng.Intn(2); m > 0; m-- {
					sc.Ops = append(sc.Ops, ml.Op{Code: 'P', Kind: ml.KFuKeyM, Extra: x | c.Rng.Intn(3), SameTs: true})
				}
				sc.Ops = append(sc.Ops, ml.Op{Code: 'P', Kind: ml.KFuKeyS, Extra: x | c.Rng.Intn(3), SameTs: true})
				sc.Ops = append(sc.Ops, ml.Op{Code: 'P', Kind: ml.KFuKeyM, Extra: x | c.Rng.Intn(3), SameTs: true})
				sc.Ops = append(sc.Ops, ml.Op{Code: 'J', Name: 10 + g, Gop: true})
				for m := 1 + c.Rng.Intn(3); m > 0; m-- {
					sc.Ops = append(sc.Ops, ml.Op{Code: 'P', Kind: ml.KNonKey})
				}
				if g == 2 {
					sc.Ops = append(sc.Ops, ml.Op{Code: 'R', Name: 0})
				}
			}
			scripts = append(scripts, sc)
		}
	}
	ml.RunScripts(c, "c04", scripts)
	for _, hevc := range []bool{false, true} {
		for _, mode := range []string{"panic", "block"} {
			ml.RecordOutcome(c, ml.ScPanicBadClose(mode, false, hevc), "c04")
			ml.RecordOutcome(c, ml.ScPanicBadClose(mode, true, hevc), "c04")
		}
	}
	ml.RecordOutcome(c, ml.ScBacklogStap(false), "c04")
	ml.RecordOutcome(c, ml.ScBacklogStap(true), "c04")

	// supporting measurement only (never a verdict): publisher latency with a blocked consumer
	w := ml.NewWorld(false, true)
	r := w.NewRec()
	w.Join(r, true)
	r.Stall()
	t0 := time.Now()
	for i := 0; i < 3000; i++ {
		k := ml.KNonKey
		if i%30 == 0 {
			k = ml.KKey
		}
		w.Publish(k, 0)
	}
	c.Note(fmt.Sprintf("supporting measurement: 3000 publishes with one consumer blocked inside Consume took %v (publisher never waits for a consumer)", time.Since(t0)))
	r.Resume()
	w.S.Close()
	for _, hevc := range []bool{false, true} {
		ml.RecordOutcome(c, ml.ScSelfStop(false, hevc), "c04")
		ml.RecordOutcome(c, ml.ScSelfStop(true, hevc), "c04")
	}
}
