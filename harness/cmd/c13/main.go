package main

import (
	"bytes"
	"fmt"
	"io"
	"net"
	"strconv"
	"strings"
	"sync"
	"sync/atomic"
	"time"

	. "verifharness/hlib"
	sl "verifharness/sesslib"

	"github.com/cnotch/ipchub/av/format/rtp"
	"github.com/cnotch/ipchub/config"
	"github.com/cnotch/ipchub/network/socket/buffered"
	"github.com/cnotch/ipchub/utils/verifhook"
)

// C13: concurrent writers never tear messages.
//
//	tear:   a REAL playing RTSP/TCP session; the media goroutine is parked at the verif schedule
//	        point between frame prefix and frame body (holding lockW) while the client issues
//	        requests; the received byte stream is judged by the Lean stream specification and
//	        compared with the Lean writer LTS run on the same schedule.
//	wsmsg:  REAL ws-rtsp and WSP sessions (gorilla client ⇄ websocketTransport): every message
//	        must be exactly one response or one frame.
//	bconn:  buffered.Conn against the Lean model under every limiter answer.
//	pw:     rtp.Packet.Write against the Lean model / frame encoding.
func main() { Main("C13", runC13) }

// runCtl holds the schedule points of ONE tear run.  The hook handlers read the current run
// through an atomic pointer, and a goroutine parked at a point waits on ITS run's channel, which is
// closed when the run ends: a goroutine left behind by an aborted run can never take a release
// that was meant for a later one.
type runCtl struct {
	armed    int32         // park the media goroutine between frame prefix and frame body
	sockArm  int32         // park the next socket write of the session (one shot)
	parked   chan uint32   // the media goroutine has reached the mid-frame point
	release  chan struct{} // let it write the body
	sockPark chan int      // a socket write (that many bytes) is parked
	sockRel  chan struct{} // let it go on
	done     chan struct{} // closed at the end of the run
	mu       sync.Mutex
	pops     map[uint32]int // consume.beforePop events per consumer id: that media goroutine is back at its queue
}

func (r *runCtl) popsOf(cid uint32) int {
	r.mu.Lock()
	defer r.mu.Unlock()
	return r.pops[cid]
}

var curRun atomic.Value // *runCtl

func newRunCtl() *runCtl {
	return &runCtl{parked: make(chan uint32, 64), release: make(chan struct{}, 64), sockPark: make(chan int, 64),
		sockRel: make(chan struct{}, 64), done: make(chan struct{}), pops: map[uint32]int{}}
}

func hook(point string, id uint32) {
	r, _ := curRun.Load().(*runCtl)
	if r == nil {
		return
	}
	switch point {
	case "consume.beforePop":
		r.mu.Lock()
		r.pops[id]++
		r.mu.Unlock()
	case "rtp.packet.write.mid":
		if atomic.LoadInt32(&r.armed) == 1 {
			r.parked <- id
			select {
			case <-r.release:
			case <-r.done:
			}
		}
	}
}

// sockHook is the server-side socket-write schedule point of a run's connection
func (r *runCtl) sockHook(p []byte) {
	if atomic.CompareAndSwapInt32(&r.sockArm, 1, 0) {
		r.sockPark <- len(p)
		select {
		case <-r.sockRel:
		case <-r.done:
		}
	}
}

const base = "rtsp://h.example"

// grace: how long a goroutine that the unchanged code keeps BLOCKED on lockW is given to show
// that it is not blocked (only a changed tree ever uses it up to an effect; on the unchanged tree
// it is simply waited out, and no verdict depends on it).
var grace = 25 * time.Millisecond
var parkBudget = sl.Watchdog

type pktStep struct {
	k       int // channel type 0..3
	size    int
	inject  []string // requests sent while the media goroutine is parked mid-frame
	between []string // requests sent (and answered) after the frame is complete
	// reverse pre-emption: the response of this request is parked inside its socket write
	// (buffered.Conn Flush / direct write, i.e. between resp.Write and the end of Flush) while the
	// packet is handed to the media goroutine
	rev string
	// (reverse) keep the media goroutine at the mid-frame point, should it get there, until the
	// parked response has been released and answered
	hold bool
	// queued (step kind Q): before the packet is delivered the tokens of the connection's rate limiter are
	// used up, all but `keep` of them (the flush interval has not elapsed: the frame — with keep = 1 its
	// body only, the prefix goes out directly — stays in the write queue); before each `between` request
	// the limiter gets one token back (the flush interval has elapsed): the response is written with
	// media still queued and a token at hand.  The limiter is moved through the verif accessors of
	// network/socket/buffered instead of sleeping.
	queued bool
	keep   int
}

type tearCase struct {
	vch, ach int // interleaved channel of video / audio (-1: audio not set up); control = +1
	vctl     bool
	pkts     []pktStep
}

func (t tearCase) line() string {
	var b strings.Builder
	fmt.Fprintf(&b, "c13 tear %d %d %s", t.vch, t.ach, B01(t.vctl))
	j := func(x []string) string {
		if len(x) == 0 {
			return "-"
		}
		return strings.Join(x, "+")
	}
	for _, p := range t.pkts {
		if p.queued {
			fmt.Fprintf(&b, " Q %d %d %d %s", p.k, p.size, p.keep, j(p.between))
		} else if p.rev != "" {
			fmt.Fprintf(&b, " V %d %d %s %s %s", p.k, p.size, p.rev, B01(p.hold), j(p.between))
		} else {
			fmt.Fprintf(&b, " P %d %d %s %s", p.k, p.size, j(p.inject), j(p.between))
		}
	}
	return b.String()
}

func parseTear(f []string) (t tearCase, ok bool) {
	if len(f) < 5 {
		return t, false
	}
	t.vch, _ = strconv.Atoi(f[2])
	t.ach, _ = strconv.Atoi(f[3])
	t.vctl = f[4] == "1"
	sp := func(s string) []string {
		if s == "-" {
			return nil
		}
		return strings.Split(s, "+")
	}
	for i := 5; i < len(f); {
		switch {
		case f[i] == "P" && i+4 < len(f):
			k, _ := strconv.Atoi(f[i+1])
			n, _ := strconv.Atoi(f[i+2])
			t.pkts = append(t.pkts, pktStep{k: k, size: n, inject: sp(f[i+3]), between: sp(f[i+4])})
			i += 5
		case f[i] == "Q" && i+4 < len(f):
			k, _ := strconv.Atoi(f[i+1])
			n, _ := strconv.Atoi(f[i+2])
			kp, _ := strconv.Atoi(f[i+3])
			t.pkts = append(t.pkts, pktStep{k: k, size: n, queued: true, keep: kp, between: sp(f[i+4])})
			i += 5
		case f[i] == "V" && i+5 < len(f):
			k, _ := strconv.Atoi(f[i+1])
			n, _ := strconv.Atoi(f[i+2])
			t.pkts = append(t.pkts, pktStep{k: k, size: n, rev: f[i+3], hold: f[i+4] == "1", between: sp(f[i+5])})
			i += 6
		default:
			return t, len(t.pkts) > 0
		}
	}
	return t, true
}

func payload(k, i, size int) []byte {
	p := make([]byte, size)
	for j := range p {
		p[j] = byte(j*7 + i*13 + k)
	}
	// make payloads that could be mistaken for protocol bytes part of the test
	if size >= 16 {
		copy(p, []byte("$\x00\x00\x04RTSP/1.0 200"))
	}
	return p
}

type tearResult struct {
	raw     []byte
	frames  [][2]interface{} // (channel, payload)
	cseqs   []int
	labels  []string // expected chunk labels in order
	sched   string
	l0, l1  []string
	err     string
	torn    string // the client saw a unit that cannot be: the run was cut there
	timeout bool   // a watchdog expired during the run
	where   string // what was going on when the run was cut: mid-frame | socket-write | queued | -
	qAsked  int    // Q steps of the case
	qHit    int    // … after which media really was in the write queue when the request was made
}

func transportFor(ch int, ctl bool) string {
	if ctl {
		return fmt.Sprintf("RTP/AVP/TCP;unicast;interleaved=%d-%d", ch, ch+1)
	}
	return fmt.Sprintf("RTP/AVP/TCP;unicast;interleaved=%d", ch)
}

func runTear(fx *sl.Fixture, t tearCase) (res tearResult) {
	var cl *sl.Conn
	start := -1
	exp0 := sl.Expiries
	ctl := newRunCtl()
	curRun.Store(ctl)
	defer func() {
		if r := recover(); r != nil {
			res.err = fmt.Sprint("harness panic: ", r)
		}
		atomic.StoreInt32(&ctl.armed, 0)
		atomic.StoreInt32(&ctl.sockArm, 0)
		close(ctl.done) // frees every goroutine still parked at a point of this run
		if res.err != "" && cl != nil && start >= 0 {
			// the run was cut: keep what did arrive, the partial-stream verdict judges it
			time.Sleep(grace)
			if raw := cl.RawLog(); len(raw) >= start {
				res.raw = raw[start:]
			}
		}
		if sl.Expiries != exp0 {
			res.timeout = true
		}
		if cl != nil {
			cl.Close()
		}
	}()
	fx.Ensure()
	sl.WaitUntil(func() bool { return fx.Stream.ConsumerCount() == 0 })
	c, bc := sl.DialTCPBuffered(0) // bc: the session's buffered.Conn (write queue, rate limiter)
	cl = c
	c.SetServerWrite(ctl.sockHook)
	cseq := 0
	fi := 0 // frames [0,fi) of res.frames have been seen on the wire (or skipped)
	track := func(it sl.Item) {
		switch it.Kind {
		case sl.KFrame:
			for j := fi; j < len(res.frames); j++ {
				if res.frames[j][0].(int) == it.Chan && bytes.Equal(res.frames[j][1].([]byte), it.Payload) {
					fi = j + 1
					return
				}
			}
			res.torn = fmt.Sprintf("a complete frame on the wire (channel %d, %d bytes) is not a packet that was delivered", it.Chan, len(it.Payload))
		case sl.KAnomaly:
			res.torn = "bytes that are neither a response nor a frame: " + it.What
		}
	}
	// wait for the response with this CSeq; frames and other responses pass by
	await := func(cs int) bool {
		for {
			it, ok := c.Next()
			if !ok || it.Kind == sl.KEOF {
				return false
			}
			track(it)
			if res.torn != "" {
				return false
			}
			if it.Kind == sl.KResp && it.Header["CSeq"] == strconv.Itoa(cs) {
				return true
			}
		}
	}
	req := func(m, url, tr string) int {
		cseq++
		c.Send(sl.Req{Method: m, URL: url, CSeq: strconv.Itoa(cseq), Transport: tr}.Wire())
		return cseq
	}
	// reqSync returns when the server has read the request from its socket
	reqSync := func(m, url, tr string) int {
		cseq++
		c.SendSync(sl.Req{Method: m, URL: url, CSeq: strconv.Itoa(cseq), Transport: tr}.Wire())
		return cseq
	}
	fail := func(what string) {
		if res.torn != "" {
			what = res.torn
		}
		res.err = what
	}
	if !await(req("DESCRIBE", base+fx.Path, "")) || !await(req("SETUP", base+fx.Path+"/streamid=0", transportFor(t.vch, t.vctl))) {
		fail("setup failed")
		return
	}
	if t.ach >= 0 && !await(req("SETUP", base+fx.Path+"/streamid=1", transportFor(t.ach, true))) {
		fail("setup audio failed")
		return
	}
	if !await(req("PLAY", base+fx.Path, "")) || !await(req("OPTIONS", "*", "")) {
		fail("play failed")
		return
	}
	if !sl.WaitUntil(func() bool { return fx.Stream.ConsumerCount() == 1 }) {
		fail("not consuming")
		return
	}
	rt0, _, _, _ := fx.Stream.VerifTables()
	if len(rt0) != 1 {
		fail("not consuming")
		return
	}
	myCid := uint32(rt0[0].CID)
	start = len(c.RawLog())
	chans := [4]int{t.vch, -1, t.ach, -1}
	if t.vctl {
		chans[1] = t.vch + 1
	}
	if t.ach >= 0 {
		chans[3] = t.ach + 1
	}
	var sched strings.Builder
	atomic.StoreInt32(&ctl.armed, 1)
	// the media goroutine is back at its queue after `n` packets when it has announced n+1 pops
	consumed := 0
	idle := func() bool {
		n := consumed
		return sl.WaitUntil(func() bool { return ctl.popsOf(myCid) > n })
	}
	deliver := func(k int, data []byte) bool {
		done, _ := sl.Guard(sl.Watchdog, func() { fx.Stream.WriteRtpPacket(&rtp.Packet{Channel: byte(k), Data: data}) })
		consumed++
		return done
	}
	waitParked := func() bool {
		select {
		case <-ctl.parked:
			return true
		case <-time.After(parkBudget):
			sl.Expiries++
			parkBudget = 3 * time.Second // reported below; later cases need not wait the full watchdog again
			return false
		}
	}
	answered := func(m string, cs int) bool {
		lr := fmt.Sprintf("R%d", cs)
		res.l1 = append(res.l1, lr)
		res.cseqs = append(res.cseqs, cs)
		res.labels = append(res.labels, lr)
		sched.WriteString("1111") // lock, write, flush, unlock
		if !await(cs) {
			fail(m + " request never answered")
			return false
		}
		return true
	}
	for i, p := range t.pkts {
		data := payload(p.k, i, p.size)
		ch := chans[p.k]
		sub := ch >= 0 && ch <= 255
		if !idle() {
			fail("media goroutine did not come back to its queue")
			return
		}
		lab := fmt.Sprintf("F%d", i)
		if p.queued {
			// the session is quiet (the media goroutine is at its queue, no request is in flight): use up the
			// limiter's tokens as a burst of writes would
			buffered.VerifUseUpTokens(bc)
			for k := 0; k < p.keep; k++ {
				buffered.VerifGrantToken(bc)
			}
			res.qAsked++
		}
		if p.rev != "" && sub {
			// ---- reverse pre-emption: park the request goroutine inside the socket write of its response
			res.where = "socket-write"
			atomic.StoreInt32(&ctl.sockArm, 1)
			cs := req(p.rev, base+fx.Path, "")
			select {
			case <-ctl.sockPark:
			case <-time.After(parkBudget):
				sl.Expiries++
				parkBudget = 3 * time.Second
				fail("the response never reached the socket")
				return
			}
			lr := fmt.Sprintf("R%d", cs)
			res.l1 = append(res.l1, lr)
			res.cseqs = append(res.cseqs, cs)
			res.l0 = append(res.l0, lab)
			res.frames = append(res.frames, [2]interface{}{ch, data})
			res.labels = append(res.labels, lr, lab+".p", lab+".d")
			// lock, write, flush (parked inside); the media goroutine tries the lock: blocked; unlock; the frame
			sched.WriteString("111" + "0" + "1" + "0000")
			if !deliver(p.k, data) {
				fail("WriteRtpPacket blocked")
				return
			}
			// unchanged code: the media goroutine now blocks on lockW.  Give a changed tree time to get past it.
			mid := false
			select {
			case <-ctl.parked:
				mid = true
			case <-time.After(grace):
			}
			if mid && !p.hold {
				ctl.release <- struct{}{} // the whole frame is written while the response is in its socket write
				idle()
			}
			ctl.sockRel <- struct{}{}
			if !await(cs) {
				fail(p.rev + " request (parked in its socket write while a frame was delivered) never answered")
				return
			}
			if !mid {
				if !waitParked() {
					fail("media goroutine never reached the schedule point")
					return
				}
			}
			if !mid || p.hold {
				ctl.release <- struct{}{}
			}
			res.where = "-"
		} else {
			if sub {
				res.frames = append(res.frames, [2]interface{}{ch, data})
			}
			if !deliver(p.k, data) {
				fail("WriteRtpPacket blocked")
				return
			}
			if sub {
				// ---- forward pre-emption: the media goroutine is parked between prefix and body
				if !waitParked() {
					fail("media goroutine never reached the schedule point")
					return
				}
				res.where = "mid-frame"
				res.l0 = append(res.l0, lab)
				sched.WriteString("00") // lock, write prefix
				var injected []int
				for j, m := range p.inject {
					if j == 0 {
						// the server has read the request: its goroutine goes on to lockW.Lock and blocks there
						injected = append(injected, reqSync(m, base+fx.Path, ""))
					} else {
						injected = append(injected, req(m, base+fx.Path, "")) // read only after the first is answered
					}
					sched.WriteString("1")
				}
				if len(injected) > 0 {
					// unchanged code: blocked until the frame is complete.  A changed tree that answers now puts
					// its response into the middle of the frame: stop waiting as soon as that is on the wire.
					marks := make([][]byte, len(injected))
					for j, cs := range injected {
						marks[j] = []byte(fmt.Sprintf("CSeq: %d\r\n", cs))
					}
					deadline := time.Now().Add(grace)
					for time.Now().Before(deadline) {
						raw := c.RawLog()[start:]
						hit := false
						for _, mk := range marks {
							hit = hit || bytes.Contains(raw, mk)
						}
						if hit {
							break
						}
						time.Sleep(200 * time.Microsecond)
					}
				}
				ctl.release <- struct{}{}
				sched.WriteString("00") // write body, unlock
				res.labels = append(res.labels, lab+".p", lab+".d")
				for j, cs := range injected {
					if !answered(p.inject[j], cs) {
						return
					}
				}
				res.where = "-"
			}
			// an unsubscribed channel: Packet.Write returns before the schedule point, nothing is sent
		}
		for j, m := range p.between {
			if !idle() {
				fail("media goroutine did not come back to its queue")
				return
			}
			if p.queued {
				if j == 0 && bc.Buffered() > 0 {
					res.qHit++ // (on a very busy machine real time may have refilled the limiter before the frame was written: then nothing is queued and the step is an ordinary one)
				}
				res.where = "queued"
				buffered.VerifGrantToken(bc) // the flush interval has elapsed
			}
			if !answered(m, req(m, base+fx.Path, "")) {
				return
			}
			res.where = "-"
		}
	}
	if !idle() {
		fail("media goroutine did not come back to its queue")
		return
	}
	atomic.StoreInt32(&ctl.armed, 0)
	// final barrier: its response flushes whatever the rate limiter kept in the buffer
	if !answered("OPTIONS", req("OPTIONS", "*", "")) {
		return
	}
	res.raw = c.RawLog()[start:]
	res.sched = sched.String()
	return
}

// ---------------------------------------------------------------- ws messages

type wsCase struct {
	flav  string // ws | wsp
	vch   int
	vctl  bool
	ach   int
	pkts  [][2]int // channel type, size
	reqAt map[int]string
}

func (w wsCase) line() string {
	var b strings.Builder
	fmt.Fprintf(&b, "c13 wsmsg %s %d %s %d", w.flav, w.vch, B01(w.vctl), w.ach)
	for i, p := range w.pkts {
		r := "-"
		if m, ok := w.reqAt[i]; ok {
			r = m
		}
		fmt.Fprintf(&b, " %d %d %s", p[0], p[1], r)
	}
	return b.String()
}

func parseWs(f []string) (w wsCase, ok bool) {
	if len(f) < 6 {
		return w, false
	}
	w.flav = f[2]
	w.vch, _ = strconv.Atoi(f[3])
	w.vctl = f[4] == "1"
	w.ach, _ = strconv.Atoi(f[5])
	w.reqAt = map[int]string{}
	for i := 6; i+2 < len(f)+0; i += 3 {
		k, _ := strconv.Atoi(f[i])
		n, _ := strconv.Atoi(f[i+1])
		if f[i+2] != "-" {
			w.reqAt[len(w.pkts)] = f[i+2]
		}
		w.pkts = append(w.pkts, [2]int{k, n})
	}
	return w, true
}

// payload of the packets sent until the WSP data channel is attached; a straggler may arrive at any
// later moment and is left out of every count and comparison
const wsProbe = "probe-packet"

// set when a tree turns out not to answer requests while a WebSocket frame is being composed
var wsRespWaitsForFrame bool

type wsResult struct {
	msgs     [][]byte // media side: ws-rtsp all messages; wsp data channel messages
	expect   [][2]interface{}
	nresp    int
	err      string
	anomaly  []string
	ctlItems []sl.Item
	short    bool // fewer frame messages than delivered packets arrived within the budget
	badMsg   bool // a message that is neither a response nor a frame was seen: the run was cut there
}

func runWs(fx *sl.Fixture, w wsCase) (res wsResult) {
	var c *sl.Conn
	start := -1
	defer func() {
		if r := recover(); r != nil {
			res.err = fmt.Sprint("harness panic: ", r)
		}
		if res.msgs == nil && c != nil && start >= 0 {
			// the run was cut: what did arrive is still judged message by message
			if m := c.Messages(); len(m) >= start {
				res.msgs = m[start:]
			}
		}
	}()
	fx.Ensure()
	sl.WaitUntil(func() bool { return fx.Stream.ConsumerCount() == 0 })
	var err error
	if w.flav == "ws" {
		c, err = sl.DialWS(fx.Path)
	} else {
		c, err = sl.DialWSP(fx.Path, true)
	}
	if err != nil {
		res.err = "dial: " + err.Error()
		return
	}
	defer c.Close()
	cseq := 0
	frames := 0
	await := func(cs int) bool {
		for {
			it, ok := c.Next()
			if !ok || it.Kind == sl.KEOF {
				return false
			}
			switch it.Kind {
			case sl.KFrame:
				if string(it.Payload) != wsProbe {
					frames++
				}
			case sl.KAnomaly:
				res.anomaly = append(res.anomaly, it.What)
				if it.What == "empty message" {
					frames++ // counted so that the harness does not wait for it twice
				} else if it.Data || w.flav == "ws" {
					// a message on the media side that is neither a response nor a frame: nothing more to wait
					// for, the messages received so far are judged
					res.badMsg = true
					return false
				}
			case sl.KResp:
				if !it.Data {
					res.ctlItems = append(res.ctlItems, it)
				}
				if it.Header["CSeq"] == strconv.Itoa(cs) {
					return true
				}
			}
		}
	}
	req := func(m, url, tr string) int {
		cseq++
		c.Send(sl.Req{Method: m, URL: url, CSeq: strconv.Itoa(cseq), Transport: tr}.Wire())
		return cseq
	}
	if !await(req("DESCRIBE", base+fx.Path, "")) || !await(req("SETUP", base+fx.Path+"/streamid=0", transportFor(w.vch, w.vctl))) {
		res.err = "setup failed"
		return
	}
	if w.ach >= 0 && !await(req("SETUP", base+fx.Path+"/streamid=1", transportFor(w.ach, true))) {
		res.err = "setup audio failed"
		return
	}
	if !await(req("PLAY", base+fx.Path, "")) || !await(req("OPTIONS", "*", "")) {
		res.err = "play failed"
		return
	}
	if fx.Stream.ConsumerCount() != 1 {
		res.err = "not consuming"
		return
	}
	if w.flav == "wsp" {
		// the server answers JOIN before it attaches the data channel to the session: send probe
		// packets until one comes through, so that the case proper starts with the channel attached
		probe := []byte(wsProbe)
		got := false
		deadline := time.Now().Add(parkBudget)
		for !got && time.Now().Before(deadline) {
			fx.Stream.WriteRtpPacket(&rtp.Packet{Channel: 0, Data: probe})
			for {
				it, ok := c.TryNext(3 * time.Millisecond)
				if !ok {
					break
				}
				if it.Kind == sl.KFrame && string(it.Payload) == string(probe) {
					got = true
				}
			}
		}
		if !got {
			parkBudget = 3 * time.Second
			res.short = true
		}
		// let stragglers of the probing arrive
		sl.WaitUntil(func() bool {
			rt, _, _, _ := fx.Stream.VerifTables()
			for _, x := range rt {
				if x.QueueLen > 0 {
					return false
				}
			}
			return true
		})
		if !await(req("OPTIONS", "*", "")) {
			res.err = "probe barrier failed"
			return
		}
		for {
			if _, ok := c.TryNext(2 * time.Millisecond); !ok {
				break
			}
		}
	}
	start = len(c.Messages())
	frames = 0
	res.anomaly = nil
	chans := [4]int{w.vch, -1, w.ach, -1}
	if w.vctl {
		chans[1] = w.vch + 1
	}
	if w.ach >= 0 {
		chans[3] = w.ach + 1
	}
	// The media goroutine is parked between frame prefix and frame body — on the WebSocket
	// transports that is inside the composition of the message in its pooled buffer, outside lockW —
	// while the request goroutine answers the request of this position.  The unchanged code answers
	// at once (the response is awaited while the media goroutine is still parked).
	ctl := newRunCtl()
	curRun.Store(ctl)
	defer close(ctl.done)
	atomic.StoreInt32(&ctl.armed, 1)
	defer atomic.StoreInt32(&ctl.armed, 0)
	for i, p := range w.pkts {
		data := payload(p[0], i, p[1])
		ch := chans[p[0]]
		sub := ch >= 0 && ch <= 255
		if sub {
			res.expect = append(res.expect, [2]interface{}{ch, data})
		}
		if done, _ := sl.Guard(sl.Watchdog, func() { fx.Stream.WriteRtpPacket(&rtp.Packet{Channel: byte(p[0]), Data: data}) }); !done {
			res.err = "WriteRtpPacket blocked"
			return
		}
		parked := false
		if sub {
			select {
			case <-ctl.parked:
				parked = true
			case <-time.After(parkBudget):
				sl.Expiries++
				parkBudget = 3 * time.Second
				res.err = "media goroutine never reached the schedule point"
				return
			}
		}
		if m, ok := w.reqAt[i]; ok {
			cs := req(m, base+fx.Path, "")
			res.nresp++
			if parked && !wsRespWaitsForFrame {
				// answered while the frame is half composed
				got := make(chan bool, 1)
				go func() { got <- await(cs) }()
				select {
				case ok := <-got:
					if !ok {
						res.err = "request never answered"
						return
					}
				case <-time.After(2 * time.Second):
					// this tree does not answer while a frame is being composed (the composition is under the
					// lock): nothing wrong with that; release the frame, then wait; do not wait like this again
					wsRespWaitsForFrame = true
					ctl.release <- struct{}{}
					parked = false
					if !<-got {
						res.err = "request never answered"
						return
					}
				}
			} else {
				if parked {
					time.Sleep(grace)
					ctl.release <- struct{}{}
					parked = false
				}
				if !await(cs) {
					res.err = "request never answered"
					return
				}
			}
		}
		if parked {
			ctl.release <- struct{}{}
		}
	}
	atomic.StoreInt32(&ctl.armed, 0)
	// drain: all packets consumed, then one more round trip
	sl.WaitUntil(func() bool {
		rt, _, _, _ := fx.Stream.VerifTables()
		for _, x := range rt {
			if x.QueueLen > 0 {
				return false
			}
		}
		return true
	})
	res.nresp++
	if !await(req("OPTIONS", "*", "")) {
		res.err = "barrier never answered"
		return
	}
	// the consumption goroutine may still be inside its last Consume: wait for the expected frames
	deadline := time.Now().Add(parkBudget)
	for frames < len(res.expect) {
		if !time.Now().Before(deadline) {
			parkBudget = 3 * time.Second // the missing frames are reported below; do not wait as long again
			res.short = true
			break
		}
		it, ok := c.TryNext(50 * time.Millisecond)
		if ok && (it.Kind == sl.KFrame) {
			frames++
		} else if ok && it.Kind == sl.KAnomaly {
			res.anomaly = append(res.anomaly, it.What)
		} else if ok && it.Kind == sl.KEOF {
			break
		}
	}
	res.msgs = c.Messages()[start:]
	return
}

// ---------------------------------------------------------------- buffered.Conn

type recConn struct {
	mu  sync.Mutex
	buf bytes.Buffer
	nw  int
}

func (r *recConn) Write(p []byte) (int, error) {
	r.mu.Lock()
	defer r.mu.Unlock()
	r.nw++
	return r.buf.Write(p)
}
func (r *recConn) Read(p []byte) (int, error)         { select {} }
func (r *recConn) Close() error                       { return nil }
func (r *recConn) LocalAddr() net.Addr                { return &net.TCPAddr{} }
func (r *recConn) RemoteAddr() net.Addr               { return &net.TCPAddr{} }
func (r *recConn) SetDeadline(t time.Time) error      { return nil }
func (r *recConn) SetReadDeadline(t time.Time) error  { return nil }
func (r *recConn) SetWriteDeadline(t time.Time) error { return nil }

// ---------------------------------------------------------------- run

func runC13(c *Ctx) {
	sl.Silence()
	config.VerifSetAuth(false)
	verifhook.Set(hook)
	c.Res.Rule = "tear: case = (interleaved channel set-up, packets with sizes, requests injected while the media goroutine is parked between frame prefix and body, or a response parked inside its socket write while a packet is delivered, requests between frames); " +
		"wsmsg: case = (ws-rtsp|wsp, set-up, packets, keep-alive requests); tear step Q: a packet delivered with the rate limiter's tokens used up (the frame stays queued), requests answered after the limiter got a token back; bconn: case = (flush rate, operations: a hand-over of n bytes through Write or through a caller's WriteString / ReadFrom / WriteByte probe, Flush, limiter tokens used up, limiter token granted); pw: (channel table, packet). " +
		"Distinct by case text; non-trivial when at least one frame is written (tear: with an injected request; bconn: with a write that does not fit the free buffer space or a limited write)"
	fx := &sl.Fixture{Path: "/live/a", Doc: sl.NewSdpDoc(sl.VideoAudioSdp("streamid=0", "streamid=1"))}

	var tears []tearCase
	var wss []wsCase
	for _, l := range c.CorpusLines() {
		f := strings.Fields(l)
		if len(f) > 2 && f[0] == "c13" && f[1] == "tear" {
			if t, ok := parseTear(f); ok {
				tears = append(tears, t)
			}
		}
		if len(f) > 2 && f[0] == "c13" && f[1] == "wsmsg" {
			if w, ok := parseWs(f); ok {
				wss = append(wss, w)
			}
		}
	}
	r := c.Rng
	reqs := []string{"OPTIONS", "PLAY", "GET_PARAMETER", "PAUSE", "SETUP", "DESCRIBE"}
	sizes := []int{0, 1, 4, 12, 13, 100, 200, 1400, 1500, 4096, 8191, 8192, 8193, 20000, 65535}
	if c.Replay == "" {
		n := c.Budget(70, 700)
		for i := 0; i < n; i++ {
			t := tearCase{vch: []int{0, 0, 0, 2, 10, 100, 254}[r.Intn(7)], ach: -1, vctl: r.Chance(80)}
			if r.Chance(60) {
				t.ach = t.vch + 2
				if t.ach > 254 {
					t.ach = 0
				}
			}
			for k := 1 + r.Intn(6); k > 0; k-- {
				p := pktStep{k: []int{0, 0, 0, 1, 2, 2, 3}[r.Intn(7)], size: sizes[r.Intn(len(sizes))]}
				if r.Chance(15) {
					p.size = r.Intn(3000)
				}
				if r.Chance(20) {
					// media queued inside a flush interval, a request answered once the limiter has a token again
					p.queued, p.keep = true, r.Intn(2)
					for m := 1 + r.Intn(2); m > 0; m-- {
						p.between = append(p.between, reqs[r.Intn(3+r.Intn(4))%len(reqs)])
					}
					if p.size > 60000 {
						p.size = 1400
					}
					t.pkts = append(t.pkts, p)
					continue
				}
				if r.Chance(30) {
					// the other direction: the response is in its socket write when the packet is delivered
					p.rev = reqs[r.Intn(3+r.Intn(4))%len(reqs)]
					p.hold = r.Chance(60)
				} else if r.Chance(75) {
					for m := 1 + r.Intn(2); m > 0; m-- {
						p.inject = append(p.inject, reqs[r.Intn(3+r.Intn(4))%len(reqs)])
					}
				}
				if r.Chance(25) {
					p.between = append(p.between, reqs[r.Intn(len(reqs))])
				}
				t.pkts = append(t.pkts, p)
			}
			tears = append(tears, t)
		}
		n = c.Budget(120, 1500)
		for i := 0; i < n; i++ {
			w := wsCase{flav: []string{"ws", "wsp"}[r.Intn(2)], vch: []int{0, 0, 2, 10, 254}[r.Intn(5)], vctl: r.Chance(60), ach: -1, reqAt: map[int]string{}}
			if r.Chance(50) {
				w.ach = (w.vch + 2) % 250
			}
			for k := 1 + r.Intn(8); k > 0; k-- {
				w.pkts = append(w.pkts, [2]int{r.Intn(4), sizes[r.Intn(len(sizes))]})
				if r.Chance(30) {
					m := []string{"OPTIONS", "PLAY", "GET_PARAMETER"}[r.Intn(3)]
					if w.flav == "wsp" && r.Chance(20) {
						m = "OPTIONS"
					}
					w.reqAt[len(w.pkts)-1] = m
				}
			}
			wss = append(wss, w)
		}
	}

	// ---- tear
	fullReruns := 0 // confirming re-runs made with the full watchdog so far
	var lines []string
	var tres []tearResult
	for _, t := range tears {
		res := runTear(fx, t)
		if res.err != "" && res.torn == "" {
			// the run did not complete and nothing wrong was seen on the wire (a watchdog expired, the
			// session went away, …): a busy machine must not become a finding.  Run the case once more,
			// alone, with the full budgets, and report what that run shows.
			c.Count("tear-rerun")
			if fullReruns < 3 {
				sl.FullBudgets()
				parkBudget = sl.Watchdog
			}
			fullReruns++
			res = runTear(fx, t)
		}
		tres = append(tres, res)
		var b strings.Builder
		fmt.Fprintf(&b, "c13 stream %s F %d", Hx(res.raw), len(res.frames))
		for _, f := range res.frames {
			fmt.Fprintf(&b, " %d %s", f[0].(int), Hx(f[1].([]byte)))
		}
		fmt.Fprintf(&b, " C %d", len(res.cseqs))
		for _, x := range res.cseqs {
			fmt.Fprintf(&b, " %d", x)
		}
		lines = append(lines, b.String())
		sch := res.sched
		if sch == "" {
			sch = "-"
		}
		lines = append(lines, fmt.Sprintf("c13 lts %s %d %s %d %s", sch, len(res.l0), strings.Join(res.l0, " "), len(res.l1), strings.Join(res.l1, " ")))
	}
	outs := c.Drive(lines)
	for i, t := range tears {
		res := tres[i]
		inj, rev := 0, 0
		for _, p := range t.pkts {
			inj += len(p.inject)
			if p.rev != "" {
				rev++
			}
		}
		c.Eval(t.line(), inj+rev+res.qHit > 0 && len(res.frames) > 0)
		c.CountN("tear-requests-with-media-queued-asked", res.qAsked)
		c.CountN("tear-requests-with-media-queued", res.qHit)
		c.Count("tear-cases")
		c.CountN("tear-frames", len(res.frames))
		c.CountN("tear-injected-requests", inj)
		c.CountN("tear-responses-parked-in-socket-write", rev)
		c.CountN("tear-stream-bytes", len(res.raw))
		kv := KV(outs[2*i])
		// what the two goroutines were doing when it went wrong
		ctxOf := func() string {
			switch {
			case res.where == "mid-frame":
				return ":request-while-mid-frame"
			case res.where == "socket-write":
				return ":frame-while-response-in-socket-write"
			case res.where == "queued" || (inj == 0 && rev == 0 && res.qAsked > 0):
				return ":request-with-media-queued"
			case inj > 0 && rev > 0:
				return ":requests-during-delivery"
			case inj > 0:
				return ":request-while-mid-frame"
			case rev > 0:
				return ":frame-while-response-in-socket-write"
			}
			return ""
		}
		if res.err != "" {
			if pv := kv["partial"]; pv == "torn-frame" || pv == "torn-stream" {
				// the run was cut AND what is on the wire is not a sequence of complete responses and
				// delivered frames (followed by the beginning of one)
				c.Find(Finding{Kind: "oracle", Class: pv + ctxOf(), Case: t.line(),
					Impl: fmt.Sprintf("%s; %d bytes received, %d frames delivered", res.err, len(res.raw), len(res.frames)), Spec: pv,
					Detail: "stream=" + trunc(Hx(res.raw), 600)})
				continue
			}
			if strings.HasPrefix(res.torn, "bytes that are neither a response nor a frame: bad ") { // not "truncated …": a connection that ended
				// the client's own reader (status line `RTSP/1.0 ddd text`, `name: value` header lines, CRLF
				// endings) met bytes that are neither; the Lean recogniser of an UNFINISHED stream is more
				// lenient about what a started response may contain (any bytes up to the empty line), so the
				// cut stream can still pass as "the beginning of a response": foreign bytes inside a response
				// are exactly what the property forbids
				c.Find(Finding{Kind: "oracle", Class: "torn-stream" + ctxOf(), Case: t.line(),
					Impl: fmt.Sprintf("%s; %d bytes received, %d frames delivered", trunc(res.err, 300), len(res.raw), len(res.frames)),
					Spec: "every unit on the wire is a complete response (status line, header lines) or a complete frame",
					Detail: "stream=" + trunc(Hx(res.raw), 600)})
				continue
			}
			// twice (the second time alone, with the full watchdog): the session hangs or dies, but
			// nothing torn is on the wire
			c.Find(Finding{Kind: "corr", Class: "tear-run-incomplete", Case: t.line(), Impl: res.err, Model: "every request is answered, every frame written"})
			continue
		}
		verdict := kv["verdict"]
		if verdict != "ok" {
			c.Find(Finding{Kind: "oracle", Class: verdict + ctxOf(), Case: t.line(), Impl: fmt.Sprintf("%d bytes, %d frames, %d responses expected", len(res.raw), len(res.frames), len(res.cseqs)), Spec: verdict,
				Detail: "stream=" + trunc(Hx(res.raw), 600)})
		} else if ex := kv["exact"]; ex != "ok" {
			// every unit on the wire is complete and every frame is a delivered packet, but a frame or a
			// response is missing / repeated: not tearing (the property holds on this stream); the model
			// (everything written arrives once) no longer describes the code
			c.Find(Finding{Kind: "corr", Class: "stream-" + ex, Case: t.line(), Impl: fmt.Sprintf("%d bytes", len(res.raw)), Model: fmt.Sprintf("%d frames, responses %v", len(res.frames), res.cseqs),
				Detail: "stream=" + trunc(Hx(res.raw), 600)})
		}
		c.Count("tear-verdict-" + verdict)
		// the LTS on the same schedule must put the chunks in the same order
		m := KV(outs[2*i+1])
		if m["out"] != strings.Join(res.labels, ",") || m["left"] != "0" {
			c.Find(Finding{Kind: "corr", Class: "lts-order", Case: t.line(), Impl: strings.Join(res.labels, ","), Model: outs[2*i+1], Detail: "schedule " + res.sched})
		}
		if i%(len(tears)/4+1) == 0 {
			c.Sample(fmt.Sprintf("%s → %d stream bytes, verdict %s, order %s", t.line(), len(res.raw), verdict, trunc(strings.Join(res.labels, ","), 120)))
		}
	}

	// ---- ws messages
	lines = nil
	type span struct{ from, to int }
	var spans []span
	var wres []wsResult
	wsIncomplete := func(res wsResult) bool {
		// a run that ended with an error, or in which fewer messages than delivered packets arrived
		// within the budget, is repeated once alone (the first few times with the full budgets) before
		// anything is said; not when a bad message was seen: that is judged as it is
		return (res.err != "" || res.short) && !res.badMsg
	}
	for _, w := range wss {
		res := runWs(fx, w)
		if wsIncomplete(res) {
			c.Count("wsmsg-rerun")
			if fullReruns < 3 {
				sl.FullBudgets()
				parkBudget = sl.Watchdog
			}
			fullReruns++
			res = runWs(fx, w)
		}
		wres = append(wres, res)
		s := span{len(lines), 0}
		for _, m := range res.msgs {
			lines = append(lines, "c13 msg "+Hx(m))
		}
		s.to = len(lines)
		spans = append(spans, s)
	}
	outs = c.Drive(lines)
	for i, w := range wss {
		res := wres[i]
		c.Eval(w.line(), len(res.expect) > 0)
		c.Count("wsmsg-" + w.flav)
		c.CountN("wsmsg-messages", len(res.msgs))
		var gotFrames []string
		nresp := 0
		bad := ""
		for k := spans[i].from; k < spans[i].to; k++ {
			m := KV(outs[k])
			if m["ok"] != "1" {
				if bad == "" {
					bad = m["kind"]
				}
				c.Count("wsmsg-bad-" + m["kind"])
				continue
			}
			if strings.HasPrefix(m["kind"], "frame:") {
				if strings.HasSuffix(m["kind"], ":"+Hx([]byte(wsProbe))) {
					continue // a straggler of the attach probing
				}
				gotFrames = append(gotFrames, strings.TrimPrefix(m["kind"], "frame:"))
			} else {
				nresp++
			}
		}
		var want []string
		for _, f := range res.expect {
			want = append(want, fmt.Sprintf("%d:%s", f[0].(int), Hx(f[1].([]byte))))
		}
		// every frame message must carry a packet that was delivered, in order (gaps allowed)
		foreign := ""
		k := 0
		for _, g := range gotFrames {
			for k < len(want) && want[k] != g {
				k++
			}
			if k == len(want) {
				foreign = g
				break
			}
			k++
		}
		if bad == "" && res.err != "" {
			c.Find(Finding{Kind: "corr", Class: "ws-run-incomplete", Case: w.line(), Impl: res.err, Model: "every request is answered"})
			continue
		}
		if bad != "" {
			c.Find(Finding{Kind: "oracle", Class: "ws-message-" + bad, Case: w.line(), Impl: fmt.Sprintf("%d messages, first bad one: %s", len(res.msgs), bad), Spec: "every message is one complete response or frame"})
		} else if foreign != "" {
			c.Find(Finding{Kind: "oracle", Class: "ws-message-foreign-frame", Case: w.line(), Impl: trunc(foreign, 300), Spec: "every frame message is a delivered packet: " + trunc(strings.Join(want, " "), 300)})
		} else if len(gotFrames) != len(want) {
			// complete messages only, but a packet never arrived: not what C13 forbids; the model (one message per packet) is off
			c.Find(Finding{Kind: "corr", Class: "ws-frames-lost", Case: w.line(), Impl: trunc(strings.Join(gotFrames, " "), 300), Model: trunc(strings.Join(want, " "), 300)})
		} else if w.flav == "ws" && nresp != res.nresp {
			c.Find(Finding{Kind: "corr", Class: "ws-responses-differ", Case: w.line(), Impl: fmt.Sprint(nresp), Model: fmt.Sprint(res.nresp)})
		}
		for _, it := range res.ctlItems {
			if w.flav == "wsp" && !it.WspOK {
				// the WSP envelope of a control-channel reply is not what C13 speaks about
				c.Find(Finding{Kind: "corr", Class: "wsp-reply-envelope", Case: w.line(), Impl: string(it.Raw), Model: "WSP/1.1 200 OK, seq echoed, channel id"})
			}
		}
		if i%(len(wss)/4+1) == 0 {
			c.Sample(fmt.Sprintf("%s → %d messages, %d frames", w.line(), len(res.msgs), len(gotFrames)))
		}
	}

	runBConn(c)
	runPW(c)
}

func trunc(s string, n int) string {
	if len(s) > n {
		return s[:n] + "…"
	}
	return s
}

// one operation on a buffered.Conn.  kind: 'W' Write; 'S' / 'C' / 'B' the bytes are handed over by a
// caller that PROBES the connection for a faster method, as the callers of an io.Writer do — 'S'
// io.WriteString (WriteString, else Write: the probe of av/format/rtsp Response.Write / Header.Write /
// Request.Write), 'C' io.Copy from a plain reader (ReadFrom, else Write), 'B' one byte through an
// io.ByteWriter probe (WriteByte, else Write); 'F' Flush; 'D' the limiter's tokens are used up (a burst
// of writes has just gone out); 'T' the limiter gets a token back (a flush interval has elapsed).
type bop struct {
	kind byte
	n    int
}

type bcase struct {
	rate int
	ops  []bop
}

func (k bcase) line() string {
	var b strings.Builder
	fmt.Fprintf(&b, "c13 bconnx %d", k.rate)
	for _, o := range k.ops {
		switch o.kind {
		case 'F', 'D', 'T':
			fmt.Fprintf(&b, " %c", o.kind)
		default:
			fmt.Fprintf(&b, " %c%d", o.kind, o.n)
		}
	}
	return b.String()
}

// plainReader hides every method of the reader but Read (io.Copy must not find a WriterTo)
type plainReader struct{ r io.Reader }

func (p plainReader) Read(b []byte) (int, error) { return p.r.Read(b) }

// handOver gives p to the connection the way a caller of kind `kind` does
func handOver(bcn *buffered.Conn, kind byte, p []byte) {
	var w io.Writer = bcn
	switch kind {
	case 'S':
		io.WriteString(w, string(p))
	case 'C':
		io.Copy(w, plainReader{bytes.NewReader(p)})
	case 'B':
		if bw, ok := w.(io.ByteWriter); ok {
			for _, x := range p {
				bw.WriteByte(x)
			}
		} else {
			w.Write(p)
		}
	default:
		w.Write(p)
	}
}

func runBConn(c *Ctx) {
	r := c.Rng
	var cases []bcase
	var lines []string
	for _, l := range c.CorpusLines() {
		f := strings.Fields(l)
		if len(f) > 3 && f[0] == "c13" && f[1] == "bconnops" { // the older form: sizes, 0 = flush
			k := bcase{}
			k.rate, _ = strconv.Atoi(f[2])
			for _, x := range f[3:] {
				v, _ := strconv.Atoi(x)
				if v == 0 {
					k.ops = append(k.ops, bop{'F', 0})
				} else {
					k.ops = append(k.ops, bop{'W', v})
				}
			}
			cases = append(cases, k)
		}
		if len(f) > 3 && f[0] == "c13" && f[1] == "bconnx" {
			k := bcase{}
			k.rate, _ = strconv.Atoi(f[2])
			for _, x := range f[3:] {
				o := bop{kind: x[0]}
				if len(x) > 1 {
					o.n, _ = strconv.Atoi(x[1:])
				}
				if strings.IndexByte("WSCBFDT", o.kind) < 0 || (strings.IndexByte("WSC", o.kind) >= 0 && o.n <= 0) {
					continue
				}
				if o.kind == 'B' {
					o.n = 1
				}
				k.ops = append(k.ops, o)
			}
			cases = append(cases, k)
		}
	}
	if c.Replay == "" {
		n := c.Budget(1500, 20000)
		szs := []int{1, 2, 4, 100, 1000, 4095, 4096, 4097, 8000, 8187, 8188, 8191, 8192, 8193, 8196, 12000, 16384, 16385, 30000}
		for i := 0; i < n; i++ {
			k := bcase{rate: []int{1, 1, 2, 3, 1000000}[r.Intn(5)]}
			// half of the cases move the limiter's clock, so that a write meets every combination of
			// (queue empty | not empty) × (token | no token) — without it a token never comes back while bytes are queued
			clock := k.rate < 1000 && r.Chance(50)
			for m := 1 + r.Intn(12); m > 0; m-- {
				switch {
				case clock && r.Chance(15):
					k.ops = append(k.ops, bop{'D', 0})
				case clock && r.Chance(25):
					k.ops = append(k.ops, bop{'T', 0})
				case r.Chance(15):
					k.ops = append(k.ops, bop{'F', 0})
				default:
					o := bop{kind: "WWWSSCB"[r.Intn(7)]}
					switch {
					case o.kind == 'B':
						o.n = 1
					case clock && r.Chance(50):
						o.n = []int{1, 2, 4, 9, 100, 1000}[r.Intn(6)] // small: stays in the queue
					case r.Chance(80):
						o.n = szs[r.Intn(len(szs))]
					default:
						o.n = 1 + r.Intn(20000)
					}
					k.ops = append(k.ops, o)
				}
			}
			cases = append(cases, k)
		}
	}
	type obsT struct {
		sock   []byte
		all    []byte
		qt     int // writes that met a non-empty queue right after the limiter got a token back
		badAt  int // first operation after which the socket is not a prefix of what was handed over (-1: none)
		badVia byte
	}
	var obs []obsT
	for _, k := range cases {
		rc := &recConn{}
		bcn := buffered.NewConn(rc, buffered.FlushRate(k.rate), buffered.BufferSize(8192))
		var b strings.Builder
		b.WriteString("c13 bconn 8192")
		var all []byte
		seq := byte(1)
		caseLine := k.line()
		o := obsT{badAt: -1}
		ticked := false
		returned, pnc := sl.Guard(sl.Watchdog, func() {
			for i, op := range k.ops {
				switch op.kind {
				case 'F':
					bcn.Flush()
					fmt.Fprintf(&b, " F %d %d", rc.buf.Len(), bcn.Buffered())
					continue
				case 'D':
					buffered.VerifUseUpTokens(bcn)
					ticked = false
					continue
				case 'T':
					buffered.VerifGrantToken(bcn)
					ticked = true
					continue
				}
				p := make([]byte, op.n)
				for j := range p {
					p[j] = seq
					seq++
				}
				all = append(all, p...)
				if ticked && bcn.Buffered() > 0 {
					o.qt++
				}
				ticked = false
				handOver(bcn, op.kind, p)
				fmt.Fprintf(&b, " %c %d %d %d", op.kind, op.n, rc.buf.Len(), bcn.Buffered())
				if o.badAt < 0 && !bytes.HasPrefix(all, rc.buf.Bytes()) {
					o.badAt, o.badVia = i, op.kind
				}
			}
		})
		if !returned {
			// Write / Flush does not come back: reported with the case; the run of this part ends here
			// (the goroutine cannot be stopped)
			c.Find(Finding{Kind: "oracle", Class: "buffered-conn-hang", Case: caseLine, Impl: "Write/Flush did not return within " + sl.Watchdog.String(), Spec: "Write/Flush return"})
			cases = cases[:len(obs)]
			break
		}
		if pnc != nil { // a panic of the implementation is an outcome, not a harness crash
			b.WriteString(" W 1 -1 -1")
			c.Find(Finding{Kind: "oracle", Class: "buffered-conn-panic", Case: caseLine, Impl: fmt.Sprint("panic: ", pnc), Spec: "Write/Flush never panic"})
		}
		lines = append(lines, b.String())
		o.sock, o.all = append([]byte(nil), rc.buf.Bytes()...), all
		obs = append(obs, o)
	}
	outs := c.Drive(lines)
	viaName := map[byte]string{'W': "Write", 'S': "WriteString-probe", 'C': "ReadFrom-probe", 'B': "WriteByte-probe"}
	for i, k := range cases {
		cl := k.line()
		m := KV(outs[i])
		nontriv := strings.Contains(m["decisions"], "1")
		for _, op := range k.ops {
			if op.n > 8192/2 {
				nontriv = true
			}
			if v, ok := viaName[op.kind]; ok {
				c.Count("bconn-via-" + v)
			}
		}
		c.Eval(cl, nontriv)
		c.Count("bconn-cases")
		c.CountN("bconn-writes-with-bytes-queued-and-a-fresh-token", obs[i].qt)
		if strings.Contains(m["decisions"], "1") {
			c.Count("bconn-with-limited-write")
		}
		if strings.Contains(m["decisions"], "0") {
			c.Count("bconn-with-unlimited-write")
		}
		// the property itself on the implementation, whatever method the bytes went through: the socket
		// has received a prefix of what was handed over, in order (and socket ++ queue is all of it)
		if obs[i].badAt >= 0 || !bytes.HasPrefix(obs[i].all, obs[i].sock) {
			via := viaName[obs[i].badVia]
			if via == "" {
				via = "Flush"
			}
			c.Find(Finding{Kind: "oracle", Class: "buffered-conn-order:" + via, Case: cl, Impl: trunc(Hx(obs[i].sock), 200), Spec: "socket bytes ++ queue = concatenation of what was handed over",
				Detail: fmt.Sprintf("out of order after operation %d", obs[i].badAt)})
			continue
		}
		if strings.HasPrefix(outs[i], "unmodelled ") {
			// a probe found a method the model does not describe (Gen.bconnMethods): the obligation
			// c13_source_conn_methods is broken as well; the bytes were in order on this case
			c.Find(Finding{Kind: "corr", Class: "buffered-conn-unmodelled-method", Case: cl, Impl: "the probe found " + m["method"], Model: outs[i]})
			continue
		}
		if !strings.HasPrefix(outs[i], "ok ") {
			c.Find(Finding{Kind: "corr", Class: "buffered-conn", Case: cl, Impl: "observed lengths", Model: outs[i]})
			continue
		}
		if m["sock"] != fmt.Sprintf("%d:%d", len(obs[i].sock), checksum(obs[i].sock)) {
			c.Find(Finding{Kind: "corr", Class: "buffered-conn-bytes", Case: cl, Impl: trunc(Hx(obs[i].sock), 200), Model: trunc(m["sock"], 200)})
		}
		if m["spec"] != "1" {
			c.Find(Finding{Kind: "oracle", Class: "buffered-conn-order:model", Case: cl, Impl: trunc(Hx(obs[i].sock), 200), Spec: "socket bytes ++ buffer = concatenation of the writes"})
		}
	}
}

func checksum(b []byte) uint64 {
	h := uint64(7)
	for _, x := range b {
		h = (h*31 + uint64(x)) % 4294967296
	}
	return h
}

type chunkRec struct{ chunks [][]byte }

func (r *chunkRec) Write(p []byte) (int, error) {
	r.chunks = append(r.chunks, append([]byte(nil), p...))
	return len(p), nil
}

func runPW(c *Ctx) {
	r := c.Rng
	n := c.Budget(3000, 30000)
	if c.Replay != "" {
		n = 0
	}
	var lines []string
	var impl []string
	var specOK []bool
	chv := []int{-1, 0, 1, 2, 3, 10, 100, 254, 255, 256, 300, -5, 1 << 20}
	szs := []int{0, 1, 2, 12, 255, 256, 257, 1400, 65534, 65535}
	for i := 0; i < n; i++ {
		cfgs := []int{chv[r.Intn(len(chv))], chv[r.Intn(len(chv))], chv[r.Intn(len(chv))], chv[r.Intn(len(chv))]}
		k := r.Intn(4)
		size := szs[r.Intn(8)]
		if r.Chance(30) {
			size = r.Intn(600)
		}
		if i%150 == 7 {
			size = []int{65534, 65535, 40000}[r.Intn(3)]
		}
		data := r.Bytes(size)
		rec := &chunkRec{}
		var err error
		returned, pnc := sl.Guard(sl.Watchdog, func() { err = (&rtp.Packet{Channel: byte(k), Data: data}).Write(rec, cfgs) })
		if !returned || pnc != nil {
			c.Find(Finding{Kind: "oracle", Class: "packet-write-hang-or-panic", Case: fmt.Sprintf("c13 pw %d %s", cfgs[k], trunc(Hx(data), 200)), Impl: fmt.Sprint("returned=", returned, " panic=", pnc), Spec: "Packet.Write returns"})
			break
		}
		var hs []string
		for _, ch := range rec.chunks {
			hs = append(hs, Hx(ch))
		}
		s := "none"
		if len(hs) > 0 {
			s = strings.Join(hs, ",")
		}
		if err != nil {
			s = "error"
		}
		impl = append(impl, "chunks="+s)
		lines = append(lines, fmt.Sprintf("c13 pw %d %s", cfgs[k], Hx(data)))
		// specification: nothing for an unsubscribed channel, else exactly the RFC 2326 §10.12 frame
		var flat []byte
		for _, ch := range rec.chunks {
			flat = append(flat, ch...)
		}
		ok := true
		if cfgs[k] < 0 || cfgs[k] > 255 {
			ok = len(flat) == 0
		} else {
			want := append([]byte{'$', byte(cfgs[k]), byte(size >> 8), byte(size)}, data...)
			ok = bytes.Equal(flat, want)
		}
		specOK = append(specOK, ok)
	}
	outs := c.Drive(lines)
	for i := range lines {
		c.Eval(lines[i], true)
		c.Count("pw-cases")
		if impl[i] == "chunks=none" {
			c.Count("pw-unsubscribed")
		}
		if impl[i] != outs[i] {
			c.Find(Finding{Kind: "corr", Class: "packet-write", Case: trunc(lines[i], 300), Impl: trunc(impl[i], 200), Model: trunc(outs[i], 200)})
		}
		if !specOK[i] {
			c.Find(Finding{Kind: "oracle", Class: "frame-encoding", Case: trunc(lines[i], 300), Impl: trunc(impl[i], 200), Spec: "RFC 2326 10.12 frame"})
		}
	}
}
