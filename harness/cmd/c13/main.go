package main

import (
	"bytes"
	"fmt"
	"net"
	"strconv"
	"strings"
	"sync"
	"sync/atomic"
	"time"

	. "verifharness/hlib"
	sl "verifharness/sesslib"

	"github.com/cnotch/ipchub/av/format/rtp"
	"github.com/cnotch/ipchub/config"
	"github.com/cnotch/ipchub/network/socket/buffered"
	"github.com/cnotch/ipchub/utils/verifhook"
)

// C13: concurrent writers never tear messages.
//
//	tear:   a REAL playing RTSP/TCP session; the media goroutine is parked at the verif schedule
//	        point between frame prefix and frame body (holding lockW) while the client issues
//	        requests; the received byte stream is judged by the Lean stream specification and
//	        compared with the Lean writer LTS run on the same schedule.
//	wsmsg:  REAL ws-rtsp and WSP sessions (gorilla client ⇄ websocketTransport): every message
//	        must be exactly one response or one frame.
//	bconn:  buffered.Conn against the Lean model under every limiter answer.
//	pw:     rtp.Packet.Write against the Lean model / frame encoding.
func main() { Main("C13", runC13) }

var (
	armed    int32
	parkedCh = make(chan uint32, 16)
	release  = make(chan struct{}, 16)
)

func hook(point string, id uint32) {
	if point == "rtp.packet.write.mid" && atomic.LoadInt32(&armed) == 1 {
		parkedCh <- id
		<-release
	}
}

const base = "rtsp://h.example"

var grace = 12 * time.Millisecond
var parkBudget = sl.Watchdog

type pktStep struct {
	k       int // channel type 0..3
	size    int
	inject  []string // requests sent while the media goroutine is parked mid-frame
	between []string // requests sent (and answered) after the frame is complete
}

type tearCase struct {
	vch, ach int // interleaved channel of video / audio (-1: audio not set up); control = +1
	vctl     bool
	pkts     []pktStep
}

func (t tearCase) line() string {
	var b strings.Builder
	fmt.Fprintf(&b, "c13 tear %d %d %s", t.vch, t.ach, B01(t.vctl))
	j := func(x []string) string {
		if len(x) == 0 {
			return "-"
		}
		return strings.Join(x, "+")
	}
	for _, p := range t.pkts {
		fmt.Fprintf(&b, " P %d %d %s %s", p.k, p.size, j(p.inject), j(p.between))
	}
	return b.String()
}

func parseTear(f []string) (t tearCase, ok bool) {
	if len(f) < 5 {
		return t, false
	}
	t.vch, _ = strconv.Atoi(f[2])
	t.ach, _ = strconv.Atoi(f[3])
	t.vctl = f[4] == "1"
	sp := func(s string) []string {
		if s == "-" {
			return nil
		}
		return strings.Split(s, "+")
	}
	for i := 5; i+4 < len(f)+0 && f[i] == "P"; i += 5 {
		k, _ := strconv.Atoi(f[i+1])
		n, _ := strconv.Atoi(f[i+2])
		t.pkts = append(t.pkts, pktStep{k, n, sp(f[i+3]), sp(f[i+4])})
	}
	return t, true
}

func payload(k, i, size int) []byte {
	p := make([]byte, size)
	for j := range p {
		p[j] = byte(j*7 + i*13 + k)
	}
	// make payloads that could be mistaken for protocol bytes part of the test
	if size >= 16 {
		copy(p, []byte("$\x00\x00\x04RTSP/1.0 200"))
	}
	return p
}

type tearResult struct {
	raw    []byte
	frames [][2]interface{} // (channel, payload)
	cseqs  []int
	labels []string // expected chunk labels in order
	sched  string
	l0, l1 []string
	err    string
}

func transportFor(ch int, ctl bool) string {
	if ctl {
		return fmt.Sprintf("RTP/AVP/TCP;unicast;interleaved=%d-%d", ch, ch+1)
	}
	return fmt.Sprintf("RTP/AVP/TCP;unicast;interleaved=%d", ch)
}

func runTear(fx *sl.Fixture, t tearCase) (res tearResult) {
	var cl *sl.Conn
	start := -1
	defer func() {
		if r := recover(); r != nil {
			res.err = fmt.Sprint("harness panic: ", r)
		}
		if res.err != "" && cl != nil && start >= 0 {
			// an unanswered request: keep what did arrive, the partial-stream verdict judges it
			time.Sleep(grace)
			if raw := cl.RawLog(); len(raw) >= start {
				res.raw = raw[start:]
			}
		}
	}()
	fx.Ensure()
	sl.WaitUntil(func() bool { return fx.Stream.ConsumerCount() == 0 })
	c := sl.DialTCP(0)
	defer c.Close()
	cl = c
	cseq := 0
	// wait for the response with this CSeq; frames and other responses pass by
	await := func(cs int) bool {
		for {
			it, ok := c.Next()
			if !ok || it.Kind == sl.KEOF {
				return false
			}
			if it.Kind == sl.KResp && it.Header["CSeq"] == strconv.Itoa(cs) {
				return true
			}
		}
	}
	req := func(m, url, tr string) int {
		cseq++
		c.Send(sl.Req{Method: m, URL: url, CSeq: strconv.Itoa(cseq), Transport: tr}.Wire())
		return cseq
	}
	if !await(req("DESCRIBE", base+fx.Path, "")) || !await(req("SETUP", base+fx.Path+"/streamid=0", transportFor(t.vch, t.vctl))) {
		res.err = "setup failed"
		return
	}
	if t.ach >= 0 && !await(req("SETUP", base+fx.Path+"/streamid=1", transportFor(t.ach, true))) {
		res.err = "setup audio failed"
		return
	}
	if !await(req("PLAY", base+fx.Path, "")) || !await(req("OPTIONS", "*", "")) {
		res.err = "play failed"
		return
	}
	if fx.Stream.ConsumerCount() != 1 {
		res.err = "not consuming"
		return
	}
	start = len(c.RawLog())
	chans := [4]int{t.vch, -1, t.ach, -1}
	if t.vctl {
		chans[1] = t.vch + 1
	}
	if t.ach >= 0 {
		chans[3] = t.ach + 1
	}
	var sched strings.Builder
	atomic.StoreInt32(&armed, 1)
	defer atomic.StoreInt32(&armed, 0)
	for i, p := range t.pkts {
		data := payload(p.k, i, p.size)
		ch := chans[p.k]
		fx.Stream.WriteRtpPacket(&rtp.Packet{Channel: byte(p.k), Data: data})
		if ch < 0 || ch > 255 {
			continue // unsubscribed: Packet.Write returns before the schedule point, nothing is sent
		}
		select {
		case <-parkedCh:
		case <-time.After(parkBudget):
			parkBudget = 200 * time.Millisecond // reported below; later cases need not wait the full watchdog again
			res.err = "media goroutine never reached the schedule point"
			return
		}
		lab := fmt.Sprintf("F%d", i)
		res.l0 = append(res.l0, lab)
		res.frames = append(res.frames, [2]interface{}{ch, data})
		sched.WriteString("00") // lock, write prefix
		var injected []int
		for _, m := range p.inject {
			injected = append(injected, req(m, base+fx.Path, ""))
			sched.WriteString("1") // the request goroutine reaches lockW.Lock and blocks
		}
		if len(p.inject) > 0 {
			// give the request goroutine time to reach lockW (or, without the lock, to write its
			// response into the middle of the frame); the stream verdict below decides
			time.Sleep(grace)
		}
		release <- struct{}{}
		sched.WriteString("00") // write body, unlock
		res.labels = append(res.labels, lab+".p", lab+".d")
		for _, cs := range injected {
			lr := fmt.Sprintf("R%d", cs)
			res.l1 = append(res.l1, lr)
			res.cseqs = append(res.cseqs, cs)
			res.labels = append(res.labels, lr)
			sched.WriteString("1111") // lock, write, flush, unlock
			if !await(cs) {
				res.err = "injected request never answered"
				return
			}
		}
		for _, m := range p.between {
			cs := req(m, base+fx.Path, "")
			lr := fmt.Sprintf("R%d", cs)
			res.l1 = append(res.l1, lr)
			res.cseqs = append(res.cseqs, cs)
			res.labels = append(res.labels, lr)
			sched.WriteString("1111")
			if !await(cs) {
				res.err = "request never answered"
				return
			}
		}
	}
	atomic.StoreInt32(&armed, 0)
	// final barrier: its response flushes whatever the rate limiter kept in the buffer
	cs := req("OPTIONS", "*", "")
	res.l1 = append(res.l1, fmt.Sprintf("R%d", cs))
	res.cseqs = append(res.cseqs, cs)
	res.labels = append(res.labels, fmt.Sprintf("R%d", cs))
	sched.WriteString("1111")
	if !await(cs) {
		res.err = "barrier never answered"
		return
	}
	res.raw = c.RawLog()[start:]
	res.sched = sched.String()
	return
}

// ---------------------------------------------------------------- ws messages

type wsCase struct {
	flav  string // ws | wsp
	vch   int
	vctl  bool
	ach   int
	pkts  [][2]int // channel type, size
	reqAt map[int]string
}

func (w wsCase) line() string {
	var b strings.Builder
	fmt.Fprintf(&b, "c13 wsmsg %s %d %s %d", w.flav, w.vch, B01(w.vctl), w.ach)
	for i, p := range w.pkts {
		r := "-"
		if m, ok := w.reqAt[i]; ok {
			r = m
		}
		fmt.Fprintf(&b, " %d %d %s", p[0], p[1], r)
	}
	return b.String()
}

func parseWs(f []string) (w wsCase, ok bool) {
	if len(f) < 6 {
		return w, false
	}
	w.flav = f[2]
	w.vch, _ = strconv.Atoi(f[3])
	w.vctl = f[4] == "1"
	w.ach, _ = strconv.Atoi(f[5])
	w.reqAt = map[int]string{}
	for i := 6; i+2 < len(f)+0; i += 3 {
		k, _ := strconv.Atoi(f[i])
		n, _ := strconv.Atoi(f[i+1])
		if f[i+2] != "-" {
			w.reqAt[len(w.pkts)] = f[i+2]
		}
		w.pkts = append(w.pkts, [2]int{k, n})
	}
	return w, true
}

type wsResult struct {
	msgs     [][]byte // media side: ws-rtsp all messages; wsp data channel messages
	expect   [][2]interface{}
	nresp    int
	err      string
	anomaly  []string
	ctlItems []sl.Item
}

func runWs(fx *sl.Fixture, w wsCase) (res wsResult) {
	defer func() {
		if r := recover(); r != nil {
			res.err = fmt.Sprint("harness panic: ", r)
		}
	}()
	fx.Ensure()
	sl.WaitUntil(func() bool { return fx.Stream.ConsumerCount() == 0 })
	var c *sl.Conn
	var err error
	if w.flav == "ws" {
		c, err = sl.DialWS(fx.Path)
	} else {
		c, err = sl.DialWSP(fx.Path, true)
	}
	if err != nil {
		res.err = "dial: " + err.Error()
		return
	}
	defer c.Close()
	cseq := 0
	frames := 0
	await := func(cs int) bool {
		for {
			it, ok := c.Next()
			if !ok || it.Kind == sl.KEOF {
				return false
			}
			switch it.Kind {
			case sl.KFrame:
				frames++
			case sl.KAnomaly:
				res.anomaly = append(res.anomaly, it.What)
				if it.What == "empty message" {
					frames++ // counted so that the harness does not wait for it twice
				}
			case sl.KResp:
				if !it.Data {
					res.ctlItems = append(res.ctlItems, it)
				}
				if it.Header["CSeq"] == strconv.Itoa(cs) {
					return true
				}
			}
		}
	}
	req := func(m, url, tr string) int {
		cseq++
		c.Send(sl.Req{Method: m, URL: url, CSeq: strconv.Itoa(cseq), Transport: tr}.Wire())
		return cseq
	}
	if !await(req("DESCRIBE", base+fx.Path, "")) || !await(req("SETUP", base+fx.Path+"/streamid=0", transportFor(w.vch, w.vctl))) {
		res.err = "setup failed"
		return
	}
	if w.ach >= 0 && !await(req("SETUP", base+fx.Path+"/streamid=1", transportFor(w.ach, true))) {
		res.err = "setup audio failed"
		return
	}
	if !await(req("PLAY", base+fx.Path, "")) || !await(req("OPTIONS", "*", "")) {
		res.err = "play failed"
		return
	}
	if fx.Stream.ConsumerCount() != 1 {
		res.err = "not consuming"
		return
	}
	if w.flav == "wsp" {
		// the server answers JOIN before it attaches the data channel to the session: send probe
		// packets until one comes through, so that the case proper starts with the channel attached
		probe := []byte("probe-packet")
		got := false
		deadline := time.Now().Add(parkBudget)
		for !got && time.Now().Before(deadline) {
			fx.Stream.WriteRtpPacket(&rtp.Packet{Channel: 0, Data: probe})
			for {
				it, ok := c.TryNext(3 * time.Millisecond)
				if !ok {
					break
				}
				if it.Kind == sl.KFrame && string(it.Payload) == string(probe) {
					got = true
				}
			}
		}
		if !got {
			parkBudget = 200 * time.Millisecond
		}
		// let stragglers of the probing arrive
		sl.WaitUntil(func() bool {
			rt, _, _, _ := fx.Stream.VerifTables()
			for _, x := range rt {
				if x.QueueLen > 0 {
					return false
				}
			}
			return true
		})
		if !await(req("OPTIONS", "*", "")) {
			res.err = "probe barrier failed"
			return
		}
		for {
			if _, ok := c.TryNext(2 * time.Millisecond); !ok {
				break
			}
		}
	}
	start := len(c.Messages())
	frames = 0
	res.anomaly = nil
	chans := [4]int{w.vch, -1, w.ach, -1}
	if w.vctl {
		chans[1] = w.vch + 1
	}
	if w.ach >= 0 {
		chans[3] = w.ach + 1
	}
	var pending []int
	for i, p := range w.pkts {
		data := payload(p[0], i, p[1])
		fx.Stream.WriteRtpPacket(&rtp.Packet{Channel: byte(p[0]), Data: data})
		if ch := chans[p[0]]; ch >= 0 && ch <= 255 {
			res.expect = append(res.expect, [2]interface{}{ch, data})
		}
		if m, ok := w.reqAt[i]; ok {
			pending = append(pending, req(m, base+fx.Path, ""))
			res.nresp++
		}
	}
	for _, cs := range pending {
		if !await(cs) {
			res.err = "request never answered"
			return
		}
	}
	// drain: all packets consumed, then one more round trip
	sl.WaitUntil(func() bool {
		rt, _, _, _ := fx.Stream.VerifTables()
		for _, x := range rt {
			if x.QueueLen > 0 {
				return false
			}
		}
		return true
	})
	res.nresp++
	if !await(req("OPTIONS", "*", "")) {
		res.err = "barrier never answered"
		return
	}
	// the consumption goroutine may still be inside its last Consume: wait for the expected frames
	deadline := time.Now().Add(parkBudget)
	for frames < len(res.expect) {
		if !time.Now().Before(deadline) {
			parkBudget = 200 * time.Millisecond // the missing frames are reported below; do not wait as long again
			break
		}
		it, ok := c.TryNext(50 * time.Millisecond)
		if ok && (it.Kind == sl.KFrame) {
			frames++
		} else if ok && it.Kind == sl.KAnomaly {
			res.anomaly = append(res.anomaly, it.What)
		} else if ok && it.Kind == sl.KEOF {
			break
		}
	}
	res.msgs = c.Messages()[start:]
	return
}

// ---------------------------------------------------------------- buffered.Conn

type recConn struct {
	mu  sync.Mutex
	buf bytes.Buffer
	nw  int
}

func (r *recConn) Write(p []byte) (int, error) {
	r.mu.Lock()
	defer r.mu.Unlock()
	r.nw++
	return r.buf.Write(p)
}
func (r *recConn) Read(p []byte) (int, error)         { select {} }
func (r *recConn) Close() error                       { return nil }
func (r *recConn) LocalAddr() net.Addr                { return &net.TCPAddr{} }
func (r *recConn) RemoteAddr() net.Addr               { return &net.TCPAddr{} }
func (r *recConn) SetDeadline(t time.Time) error      { return nil }
func (r *recConn) SetReadDeadline(t time.Time) error  { return nil }
func (r *recConn) SetWriteDeadline(t time.Time) error { return nil }

// ---------------------------------------------------------------- run

func runC13(c *Ctx) {
	sl.Silence()
	config.VerifSetAuth(false)
	verifhook.Set(hook)
	c.Res.Rule = "tear: case = (interleaved channel set-up, packets with sizes, requests injected while the media goroutine is parked between frame prefix and body, requests between frames); " +
		"wsmsg: case = (ws-rtsp|wsp, set-up, packets, keep-alive requests); bconn: case = (buffer size, flush rate, write sizes / flushes); pw: (channel table, packet). " +
		"Distinct by case text; non-trivial when at least one frame is written (tear: with an injected request; bconn: with a write that does not fit the free buffer space or a limited write)"
	fx := &sl.Fixture{Path: "/live/a", Doc: sl.NewSdpDoc(sl.VideoAudioSdp("streamid=0", "streamid=1"))}

	var tears []tearCase
	var wss []wsCase
	for _, l := range c.CorpusLines() {
		f := strings.Fields(l)
		if len(f) > 2 && f[0] == "c13" && f[1] == "tear" {
			if t, ok := parseTear(f); ok {
				tears = append(tears, t)
			}
		}
		if len(f) > 2 && f[0] == "c13" && f[1] == "wsmsg" {
			if w, ok := parseWs(f); ok {
				wss = append(wss, w)
			}
		}
	}
	r := c.Rng
	reqs := []string{"OPTIONS", "PLAY", "GET_PARAMETER", "PAUSE", "SETUP", "DESCRIBE"}
	sizes := []int{0, 1, 4, 12, 13, 100, 200, 1400, 1500, 4096, 8191, 8192, 8193, 20000, 65535}
	if c.Replay == "" {
		n := c.Budget(70, 700)
		for i := 0; i < n; i++ {
			t := tearCase{vch: []int{0, 0, 0, 2, 10, 100, 254}[r.Intn(7)], ach: -1, vctl: r.Chance(80)}
			if r.Chance(60) {
				t.ach = t.vch + 2
				if t.ach > 254 {
					t.ach = 0
				}
			}
			for k := 1 + r.Intn(6); k > 0; k-- {
				p := pktStep{k: []int{0, 0, 0, 1, 2, 2, 3}[r.Intn(7)], size: sizes[r.Intn(len(sizes))]}
				if r.Chance(15) {
					p.size = r.Intn(3000)
				}
				if r.Chance(60) {
					for m := 1 + r.Intn(2); m > 0; m-- {
						p.inject = append(p.inject, reqs[r.Intn(3+r.Intn(4))%len(reqs)])
					}
				}
				if r.Chance(25) {
					p.between = append(p.between, reqs[r.Intn(len(reqs))])
				}
				t.pkts = append(t.pkts, p)
			}
			tears = append(tears, t)
		}
		n = c.Budget(120, 1500)
		for i := 0; i < n; i++ {
			w := wsCase{flav: []string{"ws", "wsp"}[r.Intn(2)], vch: []int{0, 0, 2, 10, 254}[r.Intn(5)], vctl: r.Chance(60), ach: -1, reqAt: map[int]string{}}
			if r.Chance(50) {
				w.ach = (w.vch + 2) % 250
			}
			for k := 1 + r.Intn(8); k > 0; k-- {
				w.pkts = append(w.pkts, [2]int{r.Intn(4), sizes[r.Intn(len(sizes))]})
				if r.Chance(30) {
					m := []string{"OPTIONS", "PLAY", "GET_PARAMETER"}[r.Intn(3)]
					if w.flav == "wsp" && r.Chance(20) {
						m = "OPTIONS"
					}
					w.reqAt[len(w.pkts)-1] = m
				}
			}
			wss = append(wss, w)
		}
	}

	// ---- tear
	var lines []string
	var tres []tearResult
	for _, t := range tears {
		res := runTear(fx, t)
		tres = append(tres, res)
		var b strings.Builder
		fmt.Fprintf(&b, "c13 stream %s F %d", Hx(res.raw), len(res.frames))
		for _, f := range res.frames {
			fmt.Fprintf(&b, " %d %s", f[0].(int), Hx(f[1].([]byte)))
		}
		fmt.Fprintf(&b, " C %d", len(res.cseqs))
		for _, x := range res.cseqs {
			fmt.Fprintf(&b, " %d", x)
		}
		lines = append(lines, b.String())
		sch := res.sched
		if sch == "" {
			sch = "-"
		}
		lines = append(lines, fmt.Sprintf("c13 lts %s %d %s %d %s", sch, len(res.l0), strings.Join(res.l0, " "), len(res.l1), strings.Join(res.l1, " ")))
	}
	outs := c.Drive(lines)
	for i, t := range tears {
		res := tres[i]
		inj := 0
		for _, p := range t.pkts {
			inj += len(p.inject)
		}
		c.Eval(t.line(), inj > 0 && len(res.frames) > 0)
		c.Count("tear-cases")
		c.CountN("tear-frames", len(res.frames))
		c.CountN("tear-injected-requests", inj)
		c.CountN("tear-stream-bytes", len(res.raw))
		if res.err != "" {
			if KV(outs[2*i])["partial"] == "torn-frame" {
				// the run did not complete AND a complete frame on the wire is not a delivered packet
				c.Find(Finding{Kind: "oracle", Class: "torn-frame:request-while-mid-frame", Case: t.line(),
					Impl: fmt.Sprintf("%s; %d bytes received, %d frames delivered", res.err, len(res.raw), len(res.frames)), Spec: "torn-frame",
					Detail: "stream=" + trunc(Hx(res.raw), 600)})
				continue
			}
			c.Find(Finding{Kind: "corr", Class: "tear-harness", Case: t.line(), Impl: res.err})
			continue
		}
		verdict := KV(outs[2*i])["verdict"]
		if verdict != "ok" {
			cl := verdict
			if inj > 0 {
				cl += ":request-while-mid-frame"
			}
			c.Find(Finding{Kind: "oracle", Class: cl, Case: t.line(), Impl: fmt.Sprintf("%d bytes, %d frames, %d responses expected", len(res.raw), len(res.frames), len(res.cseqs)), Spec: verdict,
				Detail: "stream=" + trunc(Hx(res.raw), 600)})
		}
		c.Count("tear-verdict-" + verdict)
		// the LTS on the same schedule must put the chunks in the same order
		m := KV(outs[2*i+1])
		if m["out"] != strings.Join(res.labels, ",") || m["left"] != "0" {
			c.Find(Finding{Kind: "corr", Class: "lts-order", Case: t.line(), Impl: strings.Join(res.labels, ","), Model: outs[2*i+1], Detail: "schedule " + res.sched})
		}
		if i%(len(tears)/4+1) == 0 {
			c.Sample(fmt.Sprintf("%s → %d stream bytes, verdict %s, order %s", t.line(), len(res.raw), verdict, trunc(strings.Join(res.labels, ","), 120)))
		}
	}

	// ---- ws messages
	lines = nil
	type span struct{ from, to int }
	var spans []span
	var wres []wsResult
	for _, w := range wss {
		res := runWs(fx, w)
		wres = append(wres, res)
		s := span{len(lines), 0}
		for _, m := range res.msgs {
			lines = append(lines, "c13 msg "+Hx(m))
		}
		s.to = len(lines)
		spans = append(spans, s)
	}
	outs = c.Drive(lines)
	for i, w := range wss {
		res := wres[i]
		c.Eval(w.line(), len(res.expect) > 0)
		c.Count("wsmsg-" + w.flav)
		c.CountN("wsmsg-messages", len(res.msgs))
		if res.err != "" {
			c.Find(Finding{Kind: "corr", Class: "ws-harness", Case: w.line(), Impl: res.err})
			continue
		}
		var gotFrames []string
		nresp := 0
		bad := ""
		for k := spans[i].from; k < spans[i].to; k++ {
			m := KV(outs[k])
			if m["ok"] != "1" {
				if bad == "" {
					bad = m["kind"]
				}
				c.Count("wsmsg-bad-" + m["kind"])
				continue
			}
			if strings.HasPrefix(m["kind"], "frame:") {
				gotFrames = append(gotFrames, strings.TrimPrefix(m["kind"], "frame:"))
			} else {
				nresp++
			}
		}
		var want []string
		for _, f := range res.expect {
			want = append(want, fmt.Sprintf("%d:%s", f[0].(int), Hx(f[1].([]byte))))
		}
		if bad != "" {
			c.Find(Finding{Kind: "oracle", Class: "ws-message-" + bad, Case: w.line(), Impl: fmt.Sprintf("%d messages, first bad one: %s", len(res.msgs), bad), Spec: "every message is one complete response or frame"})
		} else if strings.Join(gotFrames, " ") != strings.Join(want, " ") {
			c.Find(Finding{Kind: "oracle", Class: "ws-frames-differ", Case: w.line(), Impl: trunc(strings.Join(gotFrames, " "), 300), Spec: trunc(strings.Join(want, " "), 300)})
		} else if w.flav == "ws" && nresp != res.nresp {
			c.Find(Finding{Kind: "oracle", Class: "ws-responses-differ", Case: w.line(), Impl: fmt.Sprint(nresp), Spec: fmt.Sprint(res.nresp)})
		}
		for _, it := range res.ctlItems {
			if w.flav == "wsp" && !it.WspOK {
				c.Find(Finding{Kind: "oracle", Class: "wsp-reply-envelope", Case: w.line(), Impl: string(it.Raw)})
			}
		}
		if i%(len(wss)/4+1) == 0 {
			c.Sample(fmt.Sprintf("%s → %d messages, %d frames", w.line(), len(res.msgs), len(gotFrames)))
		}
	}

	runBConn(c)
	runPW(c)
}

func trunc(s string, n int) string {
	if len(s) > n {
		return s[:n] + "…"
	}
	return s
}

func runBConn(c *Ctx) {
	r := c.Rng
	type bc struct {
		rate int
		ops  []int // >0: write of that size; 0: flush
	}
	var cases []bc
	var lines []string
	for _, l := range c.CorpusLines() {
		f := strings.Fields(l)
		if len(f) > 3 && f[0] == "c13" && f[1] == "bconnops" {
			k := bc{}
			k.rate, _ = strconv.Atoi(f[2])
			for _, x := range f[3:] {
				v, _ := strconv.Atoi(x)
				k.ops = append(k.ops, v)
			}
			cases = append(cases, k)
		}
	}
	if c.Replay == "" {
		n := c.Budget(1500, 20000)
		szs := []int{1, 2, 4, 100, 1000, 4095, 4096, 4097, 8000, 8187, 8188, 8191, 8192, 8193, 8196, 12000, 16384, 16385, 30000}
		for i := 0; i < n; i++ {
			k := bc{rate: []int{1, 1, 2, 3, 1000000}[r.Intn(5)]}
			for m := 1 + r.Intn(12); m > 0; m-- {
				if r.Chance(15) {
					k.ops = append(k.ops, 0)
				} else if r.Chance(80) {
					k.ops = append(k.ops, szs[r.Intn(len(szs))])
				} else {
					k.ops = append(k.ops, 1+r.Intn(20000))
				}
			}
			cases = append(cases, k)
		}
	}
	type obsT struct {
		sock []byte
		all  []byte
	}
	var obs []obsT
	for _, k := range cases {
		rc := &recConn{}
		bcn := buffered.NewConn(rc, buffered.FlushRate(k.rate), buffered.BufferSize(8192))
		var b strings.Builder
		b.WriteString("c13 bconn 8192")
		var all []byte
		seq := byte(1)
		func() {
			defer func() {
				if r := recover(); r != nil { // a panic of the implementation is an outcome, not a harness crash
					b.WriteString(" W 1 -1 -1")
					c.Find(Finding{Kind: "oracle", Class: "buffered-conn-panic", Case: fmt.Sprintf("c13 bconnops %d %s", k.rate, strings.Trim(fmt.Sprint(k.ops), "[]")), Impl: fmt.Sprint("panic: ", r), Spec: "Write/Flush never panic"})
				}
			}()
			for _, op := range k.ops {
				if op == 0 {
					bcn.Flush()
					fmt.Fprintf(&b, " F %d %d", rc.buf.Len(), bcn.Buffered())
					continue
				}
				p := make([]byte, op)
				for j := range p {
					p[j] = seq
					seq++
				}
				all = append(all, p...)
				bcn.Write(p)
				fmt.Fprintf(&b, " W %d %d %d", op, rc.buf.Len(), bcn.Buffered())
			}
		}()
		lines = append(lines, b.String())
		obs = append(obs, obsT{append([]byte(nil), rc.buf.Bytes()...), all})
	}
	outs := c.Drive(lines)
	for i, k := range cases {
		cl := fmt.Sprintf("c13 bconnops %d %s", k.rate, strings.Trim(fmt.Sprint(k.ops), "[]"))
		m := KV(outs[i])
		nontriv := strings.Contains(m["decisions"], "1")
		for _, op := range k.ops {
			if op > 8192/2 {
				nontriv = true
			}
		}
		c.Eval(cl, nontriv)
		c.Count("bconn-cases")
		if strings.Contains(m["decisions"], "1") {
			c.Count("bconn-with-limited-write")
		}
		if strings.Contains(m["decisions"], "0") {
			c.Count("bconn-with-unlimited-write")
		}
		if !strings.HasPrefix(outs[i], "ok ") {
			c.Find(Finding{Kind: "corr", Class: "buffered-conn", Case: cl, Impl: "observed lengths", Model: outs[i]})
			continue
		}
		if m["sock"] != fmt.Sprintf("%d:%d", len(obs[i].sock), checksum(obs[i].sock)) {
			c.Find(Finding{Kind: "corr", Class: "buffered-conn-bytes", Case: cl, Impl: trunc(Hx(obs[i].sock), 200), Model: trunc(m["sock"], 200)})
		}
		// the property itself on the implementation: the socket has received a prefix of what was written, in order
		if !bytes.HasPrefix(obs[i].all, obs[i].sock) || m["spec"] != "1" {
			c.Find(Finding{Kind: "oracle", Class: "buffered-conn-order", Case: cl, Impl: trunc(Hx(obs[i].sock), 200), Spec: "socket bytes ++ buffer = concatenation of the writes"})
		}
	}
}

func checksum(b []byte) uint64 {
	h := uint64(7)
	for _, x := range b {
		h = (h*31 + uint64(x)) % 4294967296
	}
	return h
}

type chunkRec struct{ chunks [][]byte }

func (r *chunkRec) Write(p []byte) (int, error) {
	r.chunks = append(r.chunks, append([]byte(nil), p...))
	return len(p), nil
}

func runPW(c *Ctx) {
	r := c.Rng
	n := c.Budget(3000, 30000)
	if c.Replay != "" {
		n = 0
	}
	var lines []string
	var impl []string
	var specOK []bool
	chv := []int{-1, 0, 1, 2, 3, 10, 100, 254, 255, 256, 300, -5, 1 << 20}
	szs := []int{0, 1, 2, 12, 255, 256, 257, 1400, 65534, 65535}
	for i := 0; i < n; i++ {
		cfgs := []int{chv[r.Intn(len(chv))], chv[r.Intn(len(chv))], chv[r.Intn(len(chv))], chv[r.Intn(len(chv))]}
		k := r.Intn(4)
		size := szs[r.Intn(8)]
		if r.Chance(30) {
			size = r.Intn(600)
		}
		if i%150 == 7 {
			size = []int{65534, 65535, 40000}[r.Intn(3)]
		}
		data := r.Bytes(size)
		rec := &chunkRec{}
		err := (&rtp.Packet{Channel: byte(k), Data: data}).Write(rec, cfgs)
		var hs []string
		for _, ch := range rec.chunks {
			hs = append(hs, Hx(ch))
		}
		s := "none"
		if len(hs) > 0 {
			s = strings.Join(hs, ",")
		}
		if err != nil {
			s = "error"
		}
		impl = append(impl, "chunks="+s)
		lines = append(lines, fmt.Sprintf("c13 pw %d %s", cfgs[k], Hx(data)))
		// specification: nothing for an unsubscribed channel, else exactly the RFC 2326 §10.12 frame
		var flat []byte
		for _, ch := range rec.chunks {
			flat = append(flat, ch...)
		}
		ok := true
		if cfgs[k] < 0 || cfgs[k] > 255 {
			ok = len(flat) == 0
		} else {
			want := append([]byte{'$', byte(cfgs[k]), byte(size >> 8), byte(size)}, data...)
			ok = bytes.Equal(flat, want)
		}
		specOK = append(specOK, ok)
	}
	outs := c.Drive(lines)
	for i := range lines {
		c.Eval(lines[i], true)
		c.Count("pw-cases")
		if impl[i] == "chunks=none" {
			c.Count("pw-unsubscribed")
		}
		if impl[i] != outs[i] {
			c.Find(Finding{Kind: "corr", Class: "packet-write", Case: trunc(lines[i], 300), Impl: trunc(impl[i], 200), Model: trunc(outs[i], 200)})
		}
		if !specOK[i] {
			c.Find(Finding{Kind: "oracle", Class: "frame-encoding", Case: trunc(lines[i], 300), Impl: trunc(impl[i], 200), Spec: "RFC 2326 10.12 frame"})
		}
	}
}
