package main

import (
	"context"
	"encoding/json"
	"fmt"
	"net/http"
	"net/http/httptest"
	"net/url"
	"path"
	"sort"
	"strconv"
	"strings"
	"sync"
	"sync/atomic"
	"time"

	. "verifharness/hlib"

	"github.com/cnotch/ipchub/media"
	"github.com/cnotch/ipchub/service"
	"github.com/cnotch/xlog"
	"github.com/cnotch/ipchub/utils"
	"github.com/cnotch/ipchub/utils/verifhook"
)

// C05: the stream registry.  Implementation: the real media package (NewStream, Regist,
// Unregist, Get, Count, Infos, Stream.Close, StartConsume/StopConsume, the idle-close task
// through the verif tick helper) and utils.CanonicalPath, driven by generated histories;
// two-thread races through the verif schedule points of Regist / Unregist.
func main() { Main("C05", runC05) }

const sdpHls = "v=0\r\no=- 0 0 IN IP4 127.0.0.1\r\ns=No Name\r\nc=IN IP4 127.0.0.1\r\nt=0 0\r\nm=video 0 RTP/AVP 96\r\na=rtpmap:96 H264/90000\r\na=fmtp:96 packetization-mode=1; sprop-parameter-sets=Z2QAH6zZQFAFuhAAAAMAEAAAAwPI8YMZYA==,aO+8sA==; profile-level-id=64001F\r\na=control:streamid=0\r\nm=audio 0 RTP/AVP 97\r\na=rtpmap:97 MPEG4-GENERIC/44100/2\r\na=fmtp:97 profile-level-id=1;mode=AAC-hbr;sizelength=13;indexlength=3;indexdeltalength=3; config=121056E500\r\na=control:streamid=1\r\n"
const sdpNoHls = "v=0\r\no=- 0 0 IN IP4 127.0.0.1\r\ns=No Name\r\nc=IN IP4 127.0.0.1\r\nt=0 0\r\nm=video 0 RTP/AVP 96\r\na=rtpmap:96 H264/90000\r\na=fmtp:96 packetization-mode=1; sprop-parameter-sets=Z2QAH6zZQFAFuhAAAAMAEAAAAwPI8YMZYA==,aO+8sA==; profile-level-id=64001F\r\na=control:streamid=0\r\n"

type nopConsumer struct{}

func (nopConsumer) Consume(p media.Pack) {}
func (nopConsumer) Close() error         { return nil }

// ---- the service's real HTTP API (mux, interceptors, handlers) driven in-process ----

var (
	apiHandler http.Handler
	apiToken   string
)

func apiInit() {
	svc, err := service.NewService(context.Background(), xlog.L())
	if err != nil {
		Fatal("NewService: %v", err)
	}
	apiHandler = svc.VerifHandler()
	apiToken = svc.VerifTokens().NewToken("admin").AToken // the built-in administrator
}

func apiCall(method, path string, q url.Values) (int, []byte) {
	q.Set("token", apiToken)
	req := httptest.NewRequest(method, "/", nil)
	req.URL = &url.URL{Path: path, RawQuery: q.Encode()}
	req.RequestURI = req.URL.RequestURI()
	rec := httptest.NewRecorder()
	apiHandler.ServeHTTP(rec, req)
	if rec.Code == http.StatusMovedPermanently { // ServeMux cleans "//", "/./", "/../": follow it as a client would
		if u, err := url.Parse(rec.Header().Get("Location")); err == nil {
			req2 := httptest.NewRequest(method, "/", nil)
			req2.URL = u
			req2.RequestURI = u.RequestURI()
			rec = httptest.NewRecorder()
			apiHandler.ServeHTTP(rec, req2)
		}
	}
	return rec.Code, rec.Body.Bytes()
}

// ---- the implementation side of one history ----

type world struct {
	streams []*media.Stream
	hasHls  []bool
	age     []int          // seconds (of history time) since the last HLS access, for the input distribution only
	dist    map[string]int // input distribution counters of this history
	lastWhy string         // which clause decided the last run of an idle task (for the class of a finding)
}

func newWorld() *world {
	media.VerifClearRegistry()
	media.VerifResetIdleTasks()
	return &world{dist: map[string]int{}}
}

func (w *world) done() {
	for _, s := range w.streams {
		s.Close()
	}
	media.VerifClearRegistry()
	media.VerifResetIdleTasks()
}

func (w *world) idx(s *media.Stream) string {
	if s == nil {
		return "nil"
	}
	for i, x := range w.streams {
		if x == s {
			return strconv.Itoa(i)
		}
	}
	return "foreign"
}

func (w *world) get(i string) *media.Stream {
	n, err := strconv.Atoi(i)
	if err != nil || n < 0 || n >= len(w.streams) {
		return nil
	}
	return w.streams[n]
}

// exec runs one op token on the real code and returns the observation in the driver's format
func (w *world) exec(tok string) (obs string) {
	defer func() {
		if r := recover(); r != nil {
			obs = "panic"
		}
	}()
	f := strings.Split(tok, ":")
	switch f[0] {
	case "new":
		sdp := sdpNoHls
		if f[2] == "1" {
			sdp = sdpHls
		}
		s := media.NewStream(string(Unhx(f[1])), sdp)
		w.streams = append(w.streams, s)
		hp := s.Hlsable()
		has := hp != nil && fmt.Sprint(hp) != "<nil>"
		w.hasHls = append(w.hasHls, has)
		w.age = append(w.age, 0)
		if has != (f[2] == "1") {
			return "hls-mismatch"
		}
		return "s" + strconv.Itoa(len(w.streams)-1)
	case "reg":
		if s := w.get(f[1]); s != nil {
			media.Regist(s)
		}
		return "-"
	case "unreg":
		if s := w.get(f[1]); s != nil {
			media.Unregist(s)
		}
		return "-"
	case "close":
		if s := w.get(f[1]); s != nil {
			s.Close()
		}
		return "-"
	case "stop": // DELETE /api/v1/streams/{path}: service/apis.go onStopStream through the real mux
		p := string(Unhx(f[1]))
		code, _ := apiCall("DELETE", "/api/v1/streams/"+strings.TrimPrefix(p, "/"), url.Values{})
		if code != 200 {
			return fmt.Sprintf("http%d", code)
		}
		return "-"
	case "join":
		s := w.get(f[1])
		if s == nil || s.VerifStatus() != media.StreamOK {
			return "cnil" // joining a closed stream is C03's business, not exercised here
		}
		pt := media.RTPPacket
		if f[2] == "1" {
			pt = media.FLVPacket
		}
		cid := s.StartConsume(nopConsumer{}, pt, "c05")
		if cid.Type() != pt {
			return "c-wrong-type"
		}
		return "c" + strconv.Itoa(int(cid.Sequence()))
	case "leave":
		s := w.get(f[1])
		if s == nil {
			return "-"
		}
		n, _ := strconv.Atoi(f[3])
		var pt uint32
		if f[2] == "1" {
			pt = 1
		}
		s.StopConsume(media.CID(pt<<30 | uint32(n)))
		return "-"
	case "tick":
		ts := media.VerifIdleTasks()
		n, _ := strconv.Atoi(f[1])
		if n >= len(ts) {
			return "tbad"
		}
		d := time.Duration(0)
		if f[2] != "0" {
			dn, _ := strconv.Atoi(f[2])
			d = time.Duration(dn) * time.Second
		}
		for i, st := range w.streams { // which clause decides this run of the task (distribution only)
			if st == ts[n].Stream && st.VerifStatus() == media.StreamOK {
				switch {
				case st.ConsumerCount() > 0:
					w.lastWhy = "tick-decided-by-attached-consumer"
				case !w.hasHls[i]:
					w.lastWhy = "tick-no-consumer-no-playlist"
				case d == 0:
					w.lastWhy = "tick-no-consumer-period-0"
				case time.Duration(w.age[i])*time.Second >= d:
					w.lastWhy = "tick-decided-by-old-hls-access"
				default:
					w.lastWhy = "tick-decided-by-recent-hls-access"
				}
				w.dist[w.lastWhy]++
			}
		}
		return tickOnce(ts[n], d)
	case "adv": // n seconds pass: every HLS playlist's last access lies n seconds further back
		n, _ := strconv.Atoi(f[1])
		for i, st := range w.streams {
			w.age[i] += n
			if w.hasHls[i] {
				if _, pl := st.VerifHls(); pl != nil {
					pl.VerifAgeLastAccess(time.Duration(n) * time.Second)
				}
			}
		}
		return "-"
	case "info": // GET /api/v1/streams/{path}: service/apis.go onGetStreamInfo → media.Get, Stream.Info
		p := string(Unhx(f[1]))
		code, body := apiCall("GET", "/api/v1/streams/"+strings.TrimPrefix(p, "/"), url.Values{})
		if code == 404 {
			return "inil"
		}
		if code != 200 {
			return fmt.Sprintf("http%d", code)
		}
		var si struct {
			Path string `json:"path"`
			CC   int    `json:"cc"`
		}
		if err := json.Unmarshal(body, &si); err != nil {
			return "badjson"
		}
		return fmt.Sprintf("i%s/%d", Hx([]byte(si.Path)), si.CC)
	case "touch":
		n, _ := strconv.Atoi(f[1])
		if s := w.get(f[1]); s != nil && w.hasHls[n] {
			s.Hlsable().M3u8("")
			w.age[n] = 0
		}
		return "-"
	case "get":
		return "s" + w.idx(media.Get(string(Unhx(f[1]))))
	case "goc": // media.GetOrCreate: the lookup of every consumer path (RTSP, WSP, HTTP-FLV, HLS); no route matches these paths
		p := string(Unhx(f[1]))
		cp := utils.CanonicalPath(p)
		for _, st := range w.streams {
			if st.Path() == cp && st.VerifStatus() != media.StreamOK {
				w.dist["goc-on-path-of-a-closed-stream"]++
				break
			}
		}
		return "s" + w.idx(media.GetOrCreate(p))
	case "count":
		sc, cc := media.Count()
		return fmt.Sprintf("n%d/%d", sc, cc)
	case "infos": // GET /api/v1/streams?page_size=&page_token= : service/apis.go onListStreams → media.Infos
		q := url.Values{}
		q.Set("page_size", f[2])
		q.Set("page_token", string(Unhx(f[1])))
		code, body := apiCall("GET", "/api/v1/streams", q)
		if code != 200 {
			return fmt.Sprintf("http%d", code)
		}
		var list struct {
			Total   int `json:"total"`
			Streams []struct {
				Path string `json:"path"`
			} `json:"streams"`
		}
		if err := json.Unmarshal(body, &list); err != nil {
			return "badjson"
		}
		ps := make([]string, len(list.Streams))
		for i, si := range list.Streams {
			ps[i] = Hx([]byte(si.Path))
		}
		return fmt.Sprintf("p%d[%s]", list.Total, strings.Join(ps, ","))
	case "idle":
		if s := w.get(f[1]); s != nil {
			media.VerifPostIdleTask(s)
		}
		return "-"
	case "probe":
		s := w.get(f[1])
		if s == nil {
			return "q0/0"
		}
		pend := 0
		for _, t := range media.VerifIdleTasks() {
			if t.Stream == s && !t.Finished() {
				pend++
			}
		}
		return fmt.Sprintf("q%s/%d", B01(s.VerifStatus() == media.StreamOK), pend)
	}
	return "bad-op"
}

func tickOnce(t *media.VerifIdleTask, d time.Duration) (res string) {
	defer func() {
		if r := recover(); r != nil {
			res = "tpanic"
		}
	}()
	closed, _ := t.Tick(d)
	return "t" + B01(closed)
}

// ---- generators ----

var basePaths = []string{"/a", "/b/c", "/cam/1"}

// spellings of base path p that the property calls "the same path"
func spelling(r *Rng, p string) string {
	switch r.Intn(12) {
	case 0:
		return strings.ToUpper(p)
	case 1:
		return strings.TrimPrefix(p, "/")
	case 2:
		return " " + p + " "
	case 3:
		return strings.Replace(p, "/", "//", -1)
	case 4:
		return p + "/."
	case 5:
		return "/x/.." + p
	case 6:
		return "/./" + strings.ToUpper(p[1:2]) + p[2:]
	case 7:
		return "\t" + p + "\n"
	case 8:
		return p + "/" // a different canonical path (trailing slash is kept)
	case 9:
		return p + "/sub/.."
	default:
		return p
	}
}

type gen struct {
	r       *Rng
	nStream int
	nTask   int
	cids    map[int][][2]int // stream → attached (flv, cid) as the harness believes
	seeds   map[int]int
	closed  map[int]bool
}

func (g *gen) stream() int { return g.r.Intn(g.nStream) }

func (g *gen) op() string {
	r := g.r
	if g.nStream == 0 || (g.nStream < 6 && r.Chance(18)) {
		p := spelling(r, basePaths[r.Intn(len(basePaths))])
		g.nStream++
		return fmt.Sprintf("new:%s:%s", Hx([]byte(p)), B01(r.Chance(50)))
	}
	switch k := r.Intn(100); {
	case k < 20:
		return fmt.Sprintf("reg:%d", g.stream())
	case k < 28:
		return fmt.Sprintf("unreg:%d", g.stream())
	case k < 34:
		i := g.stream()
		g.closed[i] = true
		return fmt.Sprintf("close:%d", i)
	case k < 38:
		return "stop:" + Hx([]byte(spelling(r, basePaths[r.Intn(len(basePaths))])))
	case k < 52:
		// join only streams the harness has not closed itself (joining a closed stream is C03's
		// business); a stream closed behind the harness's back (replaced, idle) can still be hit
		for try := 0; try < 4; try++ {
			i := g.stream()
			if !g.closed[i] {
				flv := r.Chance(45)
				g.seeds[i]++
				g.cids[i] = append(g.cids[i], [2]int{b2i(flv), g.seeds[i]})
				return fmt.Sprintf("join:%d:%s", i, B01(flv))
			}
		}
		return "count"
	case k < 60:
		i := g.stream()
		if len(g.cids[i]) > 0 && r.Chance(85) {
			j := r.Intn(len(g.cids[i]))
			c := g.cids[i][j]
			g.cids[i] = append(g.cids[i][:j], g.cids[i][j+1:]...)
			return fmt.Sprintf("leave:%d:%d:%d", i, c[0], c[1])
		}
		return fmt.Sprintf("leave:%d:%d:%d", i, r.Intn(2), 1+r.Intn(3)) // stale / unknown cid
	case k < 69:
		// the period of this decision: 0 (any access is old enough), 10 min, 1 h; time only passes through
		// adv (1000 s / 5000 s), so "now - last access" is a multiple of 1000 s: at least 400 s away from
		// either period, whatever the real time the history takes
		d := []int{0, 0, 600, 3600, 3600}[r.Intn(5)]
		return fmt.Sprintf("tick:%d:%d", r.Intn(g.nTask+2), d)
	case k < 71:
		return fmt.Sprintf("adv:%d", []int{1000, 1000, 5000}[r.Intn(3)])
	case k < 73:
		return fmt.Sprintf("touch:%d", g.stream())
	case k < 77:
		g.nTask++
		return fmt.Sprintf("idle:%d", g.stream())
	case k < 83:
		return "get:" + Hx([]byte(spelling(r, basePaths[r.Intn(len(basePaths))])))
	case k < 86:
		return "goc:" + Hx([]byte(spelling(r, basePaths[r.Intn(len(basePaths))])))
	case k < 89:
		return "info:" + Hx([]byte(spelling(r, basePaths[r.Intn(len(basePaths))])))
	case k < 93:
		return "count"
	case k < 97:
		// page tokens: none, the path of a stream (live or not), or something that is no stream's path
		tok := ""
		switch r.Intn(5) {
		case 0, 1:
			tok = basePaths[r.Intn(len(basePaths))]
		case 2:
			tok = []string{"/", "/a/", "/b", "/b/", "/cam", "/cam/0", "/zzz", "/B", "a"}[r.Intn(9)]
		}
		return fmt.Sprintf("infos:%s:%d", Hx([]byte(tok)), r.Intn(4))
	default:
		return fmt.Sprintf("probe:%d", g.stream())
	}
}

func b2i(b bool) int {
	if b {
		return 1
	}
	return 0
}

func genHistory(r *Rng, n int) []string {
	g := &gen{r: r, cids: map[int][][2]int{}, seeds: map[int]int{}, closed: map[int]bool{}}
	ops := make([]string, 0, n+8)
	for i := 0; i < n; i++ {
		o := g.op()
		if strings.HasPrefix(o, "reg:") {
			g.nTask++ // may post a task
		}
		ops = append(ops, o)
	}
	// closing observations: every path, the counts, every stream
	for _, p := range basePaths {
		ops = append(ops, "get:"+Hx([]byte(p)))
	}
	for _, p := range basePaths {
		ops = append(ops, "goc:"+Hx([]byte(p)))
	}
	for _, p := range basePaths {
		ops = append(ops, "info:"+Hx([]byte(p)))
	}
	ops = append(ops, "count", "infos:-:10")
	for i := 0; i < g.nStream; i++ {
		ops = append(ops, fmt.Sprintf("probe:%d", i))
	}
	return ops
}

// genIdleHistory: a history about the idle-close decision: one or two streams on a path (with / without HLS
// playlist), an idle task (posted as GetOrCreate does, or the replaced-task of a displaced stream with
// consumers), consumers of either kind coming and going, HLS accesses, time passing, and runs of the task
// with the three periods; lookups and listings in between
func genIdleHistory(r *Rng) []string {
	p := basePaths[r.Intn(len(basePaths))]
	ops := []string{fmt.Sprintf("new:%s:%s", Hx([]byte(spelling(r, p))), B01(r.Chance(70))), "reg:0"}
	nTask := 0
	nStream := 1
	var joined [][3]int // stream, flv, cid
	seeds := map[int]int{}
	if r.Chance(35) { // a consumer, then a second stream displaces the first: replaced-task
		flv := b2i(r.Chance(50))
		seeds[0]++
		joined = append(joined, [3]int{0, flv, seeds[0]})
		ops = append(ops, fmt.Sprintf("join:0:%d", flv), fmt.Sprintf("new:%s:%s", Hx([]byte(spelling(r, p))), B01(r.Chance(70))), "reg:1")
		nStream, nTask = 2, 1
	}
	if nTask == 0 || r.Chance(50) {
		ops = append(ops, fmt.Sprintf("idle:%d", r.Intn(nStream)))
		nTask++
	}
	for i, n := 0, 4+r.Intn(10); i < n; i++ {
		switch k := r.Intn(100); {
		case k < 30:
			ops = append(ops, fmt.Sprintf("tick:%d:%d", r.Intn(nTask), []int{0, 600, 600, 3600, 3600}[r.Intn(5)]))
		case k < 50:
			ops = append(ops, fmt.Sprintf("adv:%d", []int{1000, 1000, 5000}[r.Intn(3)]))
		case k < 60:
			ops = append(ops, fmt.Sprintf("touch:%d", r.Intn(nStream)))
		case k < 72:
			st, flv := r.Intn(nStream), b2i(r.Chance(50))
			seeds[st]++
			joined = append(joined, [3]int{st, flv, seeds[st]})
			ops = append(ops, fmt.Sprintf("join:%d:%d", st, flv))
		case k < 84:
			if len(joined) > 0 {
				j := r.Intn(len(joined))
				c := joined[j]
				joined = append(joined[:j], joined[j+1:]...)
				ops = append(ops, fmt.Sprintf("leave:%d:%d:%d", c[0], c[1], c[2]))
			}
		case k < 92:
			ops = append(ops, "get:"+Hx([]byte(spelling(r, p))))
		case k < 96:
			ops = append(ops, "info:"+Hx([]byte(spelling(r, p))))
		default:
			ops = append(ops, "count")
		}
	}
	ops = append(ops, "get:"+Hx([]byte(p)), "info:"+Hx([]byte(p)), "count", "infos:-:10")
	for i := 0; i < nStream; i++ {
		ops = append(ops, fmt.Sprintf("probe:%d", i))
	}
	return ops
}

// genLookupHistory: a history about what the lookups answer in every state a stream goes through, in
// particular "closed but still registered" (closed by its owner, by the management API or by the idle task
// before its publisher has unregistered it): after EVERY operation every lookup entry point is observed for
// the path (GetOrCreate and Get under two spellings, the info API, Count, the listing) and for a path that
// never had a stream.  One or two paths; a successor may be registered over the closed predecessor.
func genLookupHistory(r *Rng) []string {
	p := basePaths[r.Intn(len(basePaths))]
	other := basePaths[r.Intn(len(basePaths))]
	var ops []string
	observe := func() {
		ops = append(ops, "goc:"+Hx([]byte(spelling(r, p))), "get:"+Hx([]byte(spelling(r, p))), "goc:"+Hx([]byte(p)),
			"info:"+Hx([]byte(spelling(r, p))), "count", "infos:-:10")
		if other != p {
			ops = append(ops, "goc:"+Hx([]byte(spelling(r, other))), "get:"+Hx([]byte(other)))
		}
		ops = append(ops, "goc:"+Hx([]byte("/never/registered")))
	}
	do := func(o ...string) {
		for _, x := range o {
			ops = append(ops, x)
			observe()
		}
	}
	nStream, nTask := 0, 0
	newStream := func(path string) int {
		do(fmt.Sprintf("new:%s:%s", Hx([]byte(spelling(r, path))), B01(r.Chance(50))))
		nStream++
		return nStream - 1
	}
	seeds := map[int]int{}
	var joined [][3]int
	join := func(i int) {
		flv := b2i(r.Chance(50))
		seeds[i]++
		joined = append(joined, [3]int{i, flv, seeds[i]})
		do(fmt.Sprintf("join:%d:%d", i, flv))
	}
	closed := map[int]bool{}
	attached := func(i int) (n int) {
		for _, j := range joined {
			if j[0] == i {
				n++
			}
		}
		return n
	}
	// close stream i (registered under path q) without unregistering it
	closeIt := func(i int, q string) {
		defer func() {
			closed[i] = true
			for j := 0; j < len(joined); { // a close detaches everything
				if joined[j][0] == i {
					joined = append(joined[:j], joined[j+1:]...)
				} else {
					j++
				}
			}
		}()
		switch r.Intn(4) {
		case 0:
			do(fmt.Sprintf("close:%d", i))
		case 1:
			do("stop:" + Hx([]byte(spelling(r, q)))) // the management API: Get(path).Close()
		case 2: // the idle task of an on-demand pull: consumers (if any) leave, time passes, the task runs
			do(fmt.Sprintf("idle:%d", i))
			t := nTask
			nTask++
			for j := 0; j < len(joined); {
				if joined[j][0] == i {
					do(fmt.Sprintf("leave:%d:%d:%d", i, joined[j][1], joined[j][2]))
					joined = append(joined[:j], joined[j+1:]...)
				} else {
					j++
				}
			}
			do("adv:5000", fmt.Sprintf("tick:%d:%d", t, []int{0, 600, 3600}[r.Intn(3)]))
		default:
			do(fmt.Sprintf("close:%d", i), fmt.Sprintf("close:%d", i)) // closed twice
		}
	}
	a := newStream(p)
	if r.Chance(30) {
		do("goc:" + Hx([]byte(spelling(r, p)))) // created, not yet registered
	}
	do(fmt.Sprintf("reg:%d", a))
	if other != p && r.Chance(60) {
		b := newStream(other)
		do(fmt.Sprintf("reg:%d", b))
	}
	if r.Chance(50) {
		join(a)
	}
	closeIt(a, p) // a: closed, still registered
	cur := a
	for round, n := 0, 1+r.Intn(3); round < n; round++ {
		switch r.Intn(5) {
		case 0: // the publisher leaves at last
			do(fmt.Sprintf("unreg:%d", cur))
			closed[cur] = true
		case 1, 2: // a successor over the closed predecessor; then the predecessor's late unregister
			nx := newStream(p)
			do(fmt.Sprintf("reg:%d", nx))
			if !closed[cur] && attached(cur) > 0 {
				nTask++ // Regist posts a replaced-task for a live predecessor that still has consumers
			}
			if r.Chance(60) {
				do(fmt.Sprintf("unreg:%d", cur))
				closed[cur] = true
			}
			if r.Chance(40) {
				join(nx)
			}
			cur = nx
			if r.Chance(60) {
				closeIt(cur, p)
			}
		case 3: // the closed stream is registered again (Regist of the entry itself: no-op; of an unregistered closed stream: a dead entry)
			do(fmt.Sprintf("reg:%d", cur))
		default:
			do(fmt.Sprintf("unreg:%d", cur), fmt.Sprintf("reg:%d", cur)) // unregistered, then registered although closed
			closed[cur] = true
		}
	}
	for i := 0; i < nStream; i++ {
		ops = append(ops, fmt.Sprintf("probe:%d", i))
	}
	return ops
}

// ---- classification of a property failure (implementation ≠ specification) ----

func classify(ops []string, impl, spec, why []string) (int, string) {
	for i := range ops {
		if i >= len(impl) || i >= len(spec) || impl[i] == spec[i] {
			continue
		}
		kind := strings.SplitN(ops[i], ":", 2)[0]
		switch {
		case impl[i] == "tpanic":
			return i, "idle-task-panics-without-playlist"
		case kind == "tick" && impl[i] == "t1" && spec[i] == "t0" && i < len(why) && why[i] == "tick-decided-by-recent-hls-access":
			return i, "idle-close-despite-recent-hls-access"
		case kind == "tick" && impl[i] == "t1" && spec[i] == "t0":
			return i, "idle-close-with-consumers-attached"
		case kind == "tick":
			return i, "idle-decision"
		case (kind == "get" || kind == "goc") && spec[i] == "snil":
			return i, "closed-stream-still-resolved"
		case kind == "get" || kind == "goc":
			return i, "lookup-wrong-stream"
		case kind == "count" || kind == "infos":
			return i, "listing-differs-from-live-set"
		case kind == "info":
			return i, "stream-info-differs-from-live-stream"
		case impl[i] == "hang":
			return i, "registry-operation-hangs"
		case kind == "probe":
			return i, "stream-liveness"
		default:
			return i, "other-" + kind
		}
	}
	return -1, ""
}

// firstDiff between two observation lists
func firstDiff(a, b []string) int {
	for i := range a {
		if i >= len(b) || a[i] != b[i] {
			return i
		}
	}
	if len(b) > len(a) {
		return len(a)
	}
	return -1
}

func splitObs(s string) []string {
	if s == "-" || s == "" {
		return nil
	}
	return strings.Split(s, ";")
}

// ---- canonical path ----

func canonClass(kind, p string) string {
	if kind == "idem" {
		// the known way to lose idempotence: path.Clean removes the tail and exposes a blank
		q := strings.ToLower(strings.TrimSpace(p))
		if q != "" {
			if q[0] != '/' {
				q = "/" + q
			}
			c := path.Clean(q)
			if c != strings.TrimSpace(c) {
				return "canon-not-idempotent-clean-exposes-blank"
			}
		}
	}
	return "canon-" + kind
}

func runC05(c *Ctx) {
	apiInit()
	c.Res.Rule = "case = one history of registry operations (new/regist/unregist/close/stop/join/leave/idle-tick/get/getorcreate/count/infos/info/probe over 3 paths in 11 spellings) run on the real media package (stop and listing through the service's HTTP API), or one two-thread race of Regist/Unregist through the verif points, or one string for CanonicalPath; distinct by the op line; non-trivial when the history registers at least one stream and observes at least one lookup"
	var lines []string
	type kase struct {
		kind string // hist | race | canon
		ops  []string
		pre  []string
		mid  []string
		post []string
		str  string
	}
	var cases []kase
	addHist := func(ops []string) {
		cases = append(cases, kase{kind: "hist", ops: ops})
		lines = append(lines, "c05 hist "+strings.Join(ops, " "))
	}
	addRace := func(pre, mid, post []string) {
		cases = append(cases, kase{kind: "race", pre: pre, mid: mid, post: post})
		lines = append(lines, "c05 race "+strings.Join(pre, " ")+" / "+strings.Join(mid, " ")+" / "+strings.Join(post, " "))
	}
	addCanon := func(s string) {
		cases = append(cases, kase{kind: "canon", str: s})
		lines = append(lines, "c05 canon "+Hx([]byte(s)))
	}
	// corpus first
	for _, l := range c.CorpusLines() {
		f := strings.Fields(l)
		if len(f) < 2 || f[0] != "c05" {
			continue
		}
		switch f[1] {
		case "hist":
			addHist(f[2:])
		case "canon":
			if len(f) == 3 {
				addCanon(string(Unhx(f[2])))
			}
		case "race":
			var parts [3][]string
			k := 0
			for _, t := range f[2:] {
				if t == "/" {
					k++
					continue
				}
				if k < 3 {
					parts[k] = append(parts[k], t)
				}
			}
			addRace(parts[0], parts[1], parts[2])
		}
	}
	// canonical path: exhaustive short strings + structured random
	alpha := "aA/. "
	var all func(n int, pre string)
	all = func(n int, pre string) {
		addCanon(pre)
		if n == 0 {
			return
		}
		for i := 0; i < len(alpha); i++ {
			all(n-1, pre+string(alpha[i]))
		}
	}
	maxLen := 5
	if c.Thorough() {
		maxLen = 7
	}
	all(maxLen, "")
	segs := []string{"a", "A", "b", ".", "..", "", " ", "a ", " a", ". ", " .", "..a", "a.b", "\t", "B c"}
	for i, n := 0, c.Budget(6000, 60000); i < n; i++ {
		k := c.Rng.Intn(6)
		var ss []string
		for j := 0; j < k; j++ {
			ss = append(ss, segs[c.Rng.Intn(len(segs))])
		}
		p := strings.Join(ss, "/")
		if c.Rng.Chance(60) {
			p = "/" + p
		}
		if c.Rng.Chance(25) {
			p += "/"
		}
		if c.Rng.Chance(15) {
			p = " " + p + "  "
		}
		addCanon(p)
	}
	// non-ASCII and ill-formed input: letters with Unicode case mappings, Unicode blanks (TrimSpace), broken UTF-8
	usegs := []string{"É", "é", "ſ", "İ", "\u212a", "ǅ", "ß", "\u00a0", "\u0085", "\u2003", "\u3000", "\xff", "\xc3", "\xe2\x80", "a", "A", ".", "..", "", " ", "a\u00a0", "\u0085.", ".\u2003"}
	for i, n := 0, c.Budget(1500, 15000); i < n; i++ {
		k := 1 + c.Rng.Intn(5)
		var ss []string
		for j := 0; j < k; j++ {
			seg := usegs[c.Rng.Intn(len(usegs))]
			if c.Rng.Chance(30) {
				seg += usegs[c.Rng.Intn(len(usegs))]
			}
			ss = append(ss, seg)
		}
		p := strings.Join(ss, "/")
		if c.Rng.Chance(60) {
			p = "/" + p
		}
		if c.Rng.Chance(20) {
			p += "/"
		}
		if !isASCII(p) {
			addCanon(p)
		}
	}
	// histories
	for i, n := 0, c.Budget(2500, 25000); i < n; i++ {
		if i%6 == 5 {
			addHist(genIdleHistory(c.Rng))
		} else {
			addHist(genHistory(c.Rng, 4+c.Rng.Intn(30)))
		}
	}
	// races: two threads on one path
	for i, n := 0, c.Budget(120, 600); i < n; i++ {
		r := c.Rng
		p := basePaths[r.Intn(len(basePaths))]
		pre := []string{}
		ns := 3
		for j := 0; j < ns; j++ {
			pre = append(pre, fmt.Sprintf("new:%s:%s", Hx([]byte(spelling(r, p))), B01(r.Chance(50))))
		}
		if r.Chance(70) {
			pre = append(pre, "reg:0")
			if r.Chance(40) {
				pre = append(pre, fmt.Sprintf("join:0:%s", B01(r.Chance(50))))
			}
		}
		var mid []string
		switch r.Intn(4) {
		case 0, 1:
			mid = []string{"reg:1", "reg:2"}
		case 2:
			mid = []string{"unreg:0", "reg:1"}
		default:
			mid = []string{"reg:1", "unreg:0"}
		}
		post := []string{"get:" + Hx([]byte(p)), "count", "probe:0", "probe:1", "probe:2"}
		addRace(pre, mid, post)
	}
	// lookups in every state of a stream's life (generated after the races: the cases above are what they were)
	for i, n := 0, c.Budget(300, 3000); i < n; i++ {
		addHist(genLookupHistory(c.Rng))
	}

	outs := c.Drive(lines)
	hung := false // an operation of the implementation never returned: the registry may be locked for good
	for i, k := range cases {
		m := KV(outs[i])
		switch k.kind {
		case "canon":
			evalCanon(c, k.str, lines[i], m)
		case "hist":
			if hung {
				c.Count("not-run-after-a-hanging-operation")
				continue
			}
			impl, stuckAt, dist, why := runHistory(k.ops)
			for dk, dv := range dist {
				c.CountN(dk, dv)
			}
			if stuckAt >= 0 {
				hung = true
				c.Find(Finding{Kind: "oracle", Class: "registry-operation-hangs", Case: lines[i], Impl: strings.Join(impl, ";"), Spec: "every registry operation returns",
					Detail: fmt.Sprintf("op %d (%s) did not return within %v; the histories after this one are not run", stuckAt, k.ops[stuckAt], opTimeout)})
				continue
			}
			model, spec := splitObs(m["model"]), splitObs(m["spec"])
			nontrivial := false
			seenReg, seenGet := false, false
			for _, o := range k.ops {
				if strings.HasPrefix(o, "reg:") {
					seenReg = true
				}
				if (strings.HasPrefix(o, "get:") || strings.HasPrefix(o, "goc:")) && seenReg {
					seenGet = true
				}
				c.Count("op-" + strings.SplitN(o, ":", 2)[0])
			}
			nontrivial = seenReg && seenGet
			c.Eval(lines[i], nontrivial)
			for j, o := range impl {
				switch {
				case strings.HasPrefix(k.ops[j], "get:") && o != "snil":
					c.Count("get-hit")
				case strings.HasPrefix(k.ops[j], "get:"):
					c.Count("get-miss")
				case strings.HasPrefix(k.ops[j], "goc:") && o != "snil":
					c.Count("goc-hit")
				case strings.HasPrefix(k.ops[j], "goc:"):
					c.Count("goc-miss")
				case o == "t1":
					c.Count("tick-closed")
				case o == "t0":
					c.Count("tick-kept")
				case o == "tpanic":
					c.Count("tick-panic")
				case strings.HasPrefix(o, "q0/"):
					c.Count("probe-closed")
				case strings.HasPrefix(o, "q1/") && o != "q1/0":
					c.Count("probe-live-with-pending-task")
				}
			}
			c.Count(fmt.Sprintf("hist-len-%02d-", len(k.ops)/10*10))
			if i%(len(cases)/6+1) == 0 {
				c.Sample(fmt.Sprintf("%s => impl=%s", lines[i], strings.Join(impl, ";")))
			}
			if d := firstDiff(impl, model); d >= 0 {
				c.Find(Finding{Kind: "corr", Class: "registry-history", Case: lines[i], Impl: strings.Join(impl, ";"), Model: m["model"], Spec: m["spec"],
					Detail: fmt.Sprintf("first difference at op %d (%s)", d, opAt(k.ops, d))})
			}
			if d, class := classify(k.ops, impl, spec, why); d >= 0 {
				c.Find(Finding{Kind: "oracle", Class: class, Case: lines[i], Impl: strings.Join(impl, ";"), Model: m["model"], Spec: m["spec"],
					Detail: fmt.Sprintf("first difference at op %d (%s): impl=%s spec=%s", d, k.ops[d], impl[d], spec[d])})
			}
		case "race":
			if hung {
				c.Count("not-run-after-a-hanging-operation")
				continue
			}
			impl, blocked, stuck := runRace(k.pre, k.mid, k.post)
			if stuck {
				hung = true
				c.Find(Finding{Kind: "oracle", Class: "regist-race-never-finishes", Case: lines[i], Impl: "a racing Regist / Unregist did not return", Spec: "one of " + KV(outs[i])["ab"] + " | " + KV(outs[i])["ba"],
					Detail: fmt.Sprintf("not finished %v after the paused thread was released", opTimeout)})
				continue
			}
			c.Eval(lines[i], true)
			c.Count("race-" + strings.SplitN(k.mid[0], ":", 2)[0] + "-" + strings.SplitN(k.mid[1], ":", 2)[0])
			if blocked {
				c.Count("race-second-thread-waited-for-first")
			} else {
				c.Count("race-second-thread-ran-inside-first")
			}
			is := strings.Join(impl, ";")
			if is != m["model"] {
				c.Find(Finding{Kind: "corr", Class: "registry-race", Case: lines[i], Impl: is, Model: m["model"], Detail: "schedule: first thread paused after Load, second thread run, first resumed"})
			}
			if is != m["ab"] && is != m["ba"] {
				c.Find(Finding{Kind: "oracle", Class: "regist-race-not-serialisable", Case: lines[i], Impl: is, Model: m["model"], Spec: "one of " + m["ab"] + " | " + m["ba"],
					Detail: "the outcome of two racing registry operations equals neither serial order"})
			}
			if i%(len(cases)/6+1) == 0 {
				c.Sample(fmt.Sprintf("%s => impl=%s", lines[i], is))
			}
		}
	}
}

// a registry operation is a handful of map operations under a mutex: one that has not returned after
// opTimeout never will (the bound is only reached on a broken tree)
const opTimeout = 90 * time.Second

// runHistory runs the ops on the real code in one goroutine; stuckAt >= 0: that op never returned
// (the goroutine is abandoned, the observations so far are returned)
func runHistory(ops []string) (impl []string, stuckAt int, dist map[string]int, why []string) {
	var mu sync.Mutex
	obs := make([]string, 0, len(ops))
	done := make(chan struct{})
	go func() {
		defer close(done)
		w := newWorld()
		var ws []string
		for _, o := range ops {
			w.lastWhy = ""
			r := w.exec(o)
			ws = append(ws, w.lastWhy)
			mu.Lock()
			obs = append(obs, r)
			mu.Unlock()
		}
		w.done()
		mu.Lock()
		dist, why = w.dist, ws
		mu.Unlock()
	}()
	last, lastChange := -1, time.Now()
	for {
		select {
		case <-done:
			return obs, -1, dist, why
		case <-time.After(200 * time.Millisecond):
		}
		mu.Lock()
		n := len(obs)
		mu.Unlock()
		if n != last {
			last, lastChange = n, time.Now()
		} else if time.Since(lastChange) > opTimeout {
			mu.Lock()
			defer mu.Unlock()
			out := append([]string(nil), obs...)
			at := len(out)
			for len(out) < len(ops) {
				out = append(out, "hang")
			}
			if at >= len(ops) {
				at = len(ops) - 1 // the clean-up after the last op hangs
			}
			return out, at, nil, nil
		}
	}
}

func opAt(ops []string, i int) string {
	if i < len(ops) {
		return ops[i]
	}
	return "<end>"
}

func isASCII(s string) bool {
	for i := 0; i < len(s); i++ {
		if s[i] >= 0x80 {
			return false
		}
	}
	return true
}

func evalCanon(c *Ctx, s, line string, m map[string]string) {
	got := utils.CanonicalPath(s)
	ascii := isASCII(s)
	if !ascii {
		c.Count("canon-non-ascii")
	}
	c.Eval(line, strings.Trim(s, " /.") != "")
	c.Count(fmt.Sprintf("canon-len-%d", len(s)))
	if got != s {
		c.Count("canon-changed")
	}
	if strings.HasSuffix(got, "/") && got != "/" {
		c.Count("canon-trailing-slash-kept")
	}
	// (the executable model is the ASCII instance of the generic one: compared on ASCII inputs only; Go lower-cases
	// and trims by Unicode rules, for which the property's "same path" relations are checked below on the
	// implementation's own outputs)
	if ascii && Hx([]byte(got)) != m["model"] {
		c.Find(Finding{Kind: "corr", Class: "canon", Case: line, Impl: Hx([]byte(got)), Model: m["model"], Detail: fmt.Sprintf("CanonicalPath(%q)=%q", s, got)})
	}
	// the property's reading of "the same path", checked on the implementation's own outputs
	check := func(kind, other string) {
		if o := utils.CanonicalPath(other); o != got {
			c.Find(Finding{Kind: "oracle", Class: canonClass(kind, s), Case: line, Impl: fmt.Sprintf("%q", o), Spec: fmt.Sprintf("%q", got),
				Detail: fmt.Sprintf("CanonicalPath(%q)=%q but CanonicalPath(%q)=%q", s, got, other, o)})
		}
	}
	check("idem", got)
	if ascii { // (not every letter is the lower case of its own upper case: 'ſ' → 'S' → 's')
		check("case", strings.ToUpper(s))
	}
	check("blanks", " \t"+s+"\n ")
	check("doubled-slash", strings.Replace(s, "/", "//", -1))
	if t := strings.TrimSpace(s); !strings.HasPrefix(t, "/") {
		check("leading-slash", "/"+t)
	}
}

// runRace: pre ops, then thread A paused at its verif point (after Load, before Store/Delete),
// thread B run (it either completes, or waits for A's lock: bounded grace), A resumed, post ops.
func runRace(pre, mid, post []string) (obs []string, bBlocked bool, stuck bool) {
	w := newWorld()
	defer func() {
		if !stuck {
			w.done()
		}
	}()
	for _, o := range pre {
		w.exec(o)
	}
	paused := make(chan struct{})
	release := make(chan struct{})
	var armed int32 = 1
	verifhook.Set(func(point string, id uint32) {
		if (point == "regist.loaded" || point == "unregist.loaded") && atomic.CompareAndSwapInt32(&armed, 1, 0) {
			close(paused)
			<-release
		}
	})
	defer verifhook.Set(nil)
	doneA, doneB := make(chan struct{}), make(chan struct{})
	go func() { w.exec(mid[0]); close(doneA) }()
	aPaused := false
	select {
	case <-paused:
		aPaused = true
	case <-doneA:
		atomic.StoreInt32(&armed, 0)
	case <-time.After(opTimeout):
		close(release)
		return nil, false, true
	}
	go func() { w.exec(mid[1]); close(doneB) }()
	if aPaused {
		select {
		case <-doneB:
		case <-time.After(60 * time.Millisecond):
			bBlocked = true // B waits for the lock A holds (or is just slow: then the race window is simply not exercised)
		}
		close(release)
	}
	for _, ch := range []chan struct{}{doneA, doneB} {
		select {
		case <-ch:
		case <-time.After(opTimeout):
			return nil, bBlocked, true
		}
	}
	for _, o := range post {
		obs = append(obs, w.exec(o))
	}
	return obs, bBlocked, false
}

var _ = sort.Strings
