package main

import (
	"go/ast"
	"strconv"
)

// AuthFacts: provider/auth/path_matcher.go, utils/scan/scanner.go
func init() {
	register("AuthFacts", func(e *Emitter) {
		pm := parse("provider/auth/path_matcher.go")
		// var pathScanner = scan.NewScanner('/', unicode.IsSpace | nil)
		trims, delim, ok := true, "", false
		if call, isCall := topValue(pm, "pathScanner").(*ast.CallExpr); isCall && src(call.Fun) == "scan.NewScanner" && len(call.Args) == 2 {
			if lit, isLit := call.Args[0].(*ast.BasicLit); isLit {
				if r, err := strconv.Unquote(lit.Value); err == nil {
					delim = r
					switch src(call.Args[1]) {
					case "nil":
						trims, ok = false, true
					case "unicode.IsSpace":
						trims, ok = true, true
					}
				}
			}
		}
		if !ok {
			e.Unknown("pathScanner")
		}
		e.P("/-- provider/auth/path_matcher.go: does `pathScanner` trim blanks off every path token? -/")
		e.P("def pathScannerTrims : Bool := %s", leanBool(trims))
		e.P("def pathScannerDelim : String := %s", leanStr(delim))
		for _, c := range []string{"sectionWildcard", "endWildcard"} {
			v := ""
			if lit, isLit := topValue(pm, c).(*ast.BasicLit); isLit {
				v, _ = strconv.Unquote(lit.Value)
			} else {
				e.Unknown(c)
			}
			e.P("def %s : String := %s", c, leanStr(v))
		}
		// scan.Semicolon = NewScanner(';', unicode.IsSpace)
		sc := parse("utils/scan/scanner.go")
		semi := ""
		if call, isCall := topValue(sc, "Semicolon").(*ast.CallExpr); isCall && len(call.Args) == 2 {
			semi = src(call.Args[0]) + "," + src(call.Args[1])
		} else {
			e.Unknown("scan.Semicolon")
		}
		e.P("def semicolonScanner : String := %s", leanStr(semi))
	})
}
