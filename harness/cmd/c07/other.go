package main

import (
	"encoding/base64"
	"fmt"
	"strings"
	"sync"
	"time"

	d "verifharness/depack"
	. "verifharness/hlib"

	"github.com/cnotch/ipchub/av/format/flv"
	"github.com/cnotch/ipchub/av/format/rtp"
	"github.com/cnotch/ipchub/config"
	"github.com/cnotch/ipchub/media"
	"github.com/cnotch/ipchub/media/cache"
	"github.com/cnotch/queue"
	"github.com/cnotch/xlog"
)

// ---------------------------------------------------------------- cache classifiers

type ccase struct {
	codec   string
	payload []byte
	corpus  bool
}

var classQ []ccase

func classifyOne(c *Ctx, codec string, payload []byte, corpus bool) {
	classQ = append(classQ, ccase{codec, payload, corpus})
}

func stapa(nals ...[]byte) []byte {
	b := []byte{0x78}
	for _, n := range nals {
		b = append(b, byte(len(n)>>8), byte(len(n)))
		b = append(b, n...)
	}
	return b
}

func ap(nals ...[]byte) []byte {
	b := []byte{0x60, 0x01}
	for _, n := range nals {
		b = append(b, byte(len(n)>>8), byte(len(n)))
		b = append(b, n...)
	}
	return b
}

func genClassify(c *Ctx) {
	r := c.Rng
	for _, p := range shortPayloads() {
		classifyOne(c, "h264", p, false)
		classifyOne(c, "h265", p, false)
	}
	valid264 := [][]byte{
		stapa([]byte{0x67, 1, 2, 3}, []byte{0x68, 1}, []byte{0x65, 9, 9, 9}),
		stapa([]byte{0x06, 5}, []byte{0x41, 1, 2}),
		stapa([]byte{0x65, 1, 2, 3, 4, 5}),
		{0x7c, 0x85, 1, 2, 3}, {0x7c, 0x05, 1, 2, 3}, {0x7c, 0x87, 1}, {0x65, 1, 2, 3}, {0x67, 1, 2, 3}, {0x68, 1, 2}, {0x41, 1, 2},
		append([]byte{0x79, 0, 0}, stapa([]byte{0x65, 1, 2})[1:]...), {0x7d, 0x85, 0, 0, 1},
	}
	valid265 := [][]byte{
		ap([]byte{0x40, 1, 1}, []byte{0x42, 1, 2}, []byte{0x44, 1, 3}, []byte{0x26, 1, 9, 9}),
		ap([]byte{0x4e, 1, 5}, []byte{0x02, 1, 7, 7}),
		{0x62, 0x01, 0x93, 1, 2}, {0x62, 0x01, 0x13, 1, 2}, {0x62, 0x01, 0xa0, 1}, {0x26, 1, 2, 3}, {0x40, 1, 2}, {0x42, 1, 2}, {0x44, 1, 2}, {0x02, 1, 2},
		{0x2a, 1, 2, 3}, {0x28, 1, 2, 3},
	}
	for _, v := range valid264 {
		classifyOne(c, "h264", v, false)
		for k := 0; k < len(v); k++ {
			classifyOne(c, "h264", v[:k], false)
		}
		for i := 0; i < len(v) && i < 8; i++ {
			for _, x := range []byte{0, 0xff, v[i] ^ 1, v[i] + 1} {
				b := append([]byte(nil), v...)
				b[i] = x
				classifyOne(c, "h264", b, false)
			}
		}
	}
	for _, v := range valid265 {
		classifyOne(c, "h265", v, false)
		for k := 0; k < len(v); k++ {
			classifyOne(c, "h265", v[:k], false)
		}
		for i := 0; i < len(v) && i < 8; i++ {
			for _, x := range []byte{0, 0xff, v[i] ^ 1, v[i] + 1} {
				b := append([]byte(nil), v...)
				b[i] = x
				classifyOne(c, "h265", b, false)
			}
		}
	}
	n := c.Budget(3000, 40000)
	for i := 0; i < n; i++ {
		l := r.Intn(24)
		p := r.Bytes(l)
		if l > 0 {
			switch r.Intn(4) {
			case 0:
				p[0] = []byte{0x18, 0x78, 0x19, 0x1a, 0x1b, 0x7c, 0x1d}[r.Intn(7)]
			case 1:
				p[0] = []byte{0x60, 0x61, 0x62, 0x63}[r.Intn(4)]
			}
			for j := 1; j < l; j++ {
				if r.Chance(50) {
					p[j] = []byte{0, 0, 1, 2, 3, 5}[r.Intn(6)]
				}
			}
		}
		if r.Bool() {
			classifyOne(c, "h264", p, false)
		} else {
			classifyOne(c, "h265", p, false)
		}
	}
}

func mkPacket(payload []byte, seq uint16) *rtp.Packet {
	p, _ := d.MakePacket(d.WPkt{Ch: 0, Seq: seq, TS: 5, Payload: payload}, 0)
	return p
}

func implClassify(codec string, payload []byte) string {
	var pc interface {
		CachePack(cache.Pack) bool
		PushTo(*queue.SyncQueue) int
	}
	var seeds []*rtp.Packet
	if codec == "h265" {
		pc = cache.NewHevcCache(true)
		seeds = []*rtp.Packet{mkPacket([]byte{0x40, 1, 1}, 1), mkPacket([]byte{0x42, 1, 1}, 2), mkPacket([]byte{0x44, 1, 1}, 3)}
	} else {
		pc = cache.NewH264Cache(true)
		seeds = []*rtp.Packet{mkPacket([]byte{0x67, 1, 2, 3}, 1), mkPacket([]byte{0x68, 1, 2}, 2)}
	}
	for _, s := range seeds {
		pc.CachePack(s)
	}
	p := mkPacket(payload, 9)
	if p == nil {
		return "out=unbuildable"
	}
	key, pan := false, ""
	if !d.Guard(func() {
		defer func() {
			if r := recover(); r != nil {
				pan = fmt.Sprint(r)
			}
		}()
		key = pc.CachePack(p)
	}) {
		return "out=hang"
	}
	if pan != "" {
		return "out=panic"
	}
	q := queue.NewSyncQueue()
	pc.PushTo(q)
	el := q.Queue().Elems()
	names := []string{"sps", "pps"}
	if codec == "h265" {
		names = []string{"vps", "sps", "pps"}
	}
	for i, n := range names {
		if i < len(el) && el[i] == interface{}(p) {
			if key {
				return "out=inconsistent-key-and-" + n
			}
			return "out=" + n
		}
	}
	if len(el) == len(names)+1 && el[len(names)] == interface{}(p) {
		if !key {
			return "out=inconsistent-gop-without-key"
		}
		return "out=key"
	}
	if key {
		return "out=inconsistent-key-not-cached"
	}
	return "out=other"
}

func flushClassify(c *Ctx) {
	if len(classQ) == 0 {
		return
	}
	lines := make([]string, len(classQ))
	for i, q := range classQ {
		lines[i] = fmt.Sprintf("c07 classify codec=%s pcfg=gen p=%s", q.codec, Hx(q.payload))
	}
	outs := c.Drive(lines)
	for i, q := range classQ {
		if d.Stopped {
			break
		}
		got := implClassify(q.codec, q.payload)
		c.Eval(lines[i], len(q.payload) >= 3)
		c.Count("classify-" + q.codec + "-" + got[4:])
		if got != outs[i] {
			c.Find(Finding{Kind: "corr", Class: "classify", Case: lines[i], Impl: got, Model: outs[i]})
		}
		if got == "out=hang" {
			c.Find(Finding{Kind: "oracle", Class: q.codec + ":cache-classifier-hang", Case: lines[i], Impl: fmt.Sprintf("CachePack did not return within %v on the publisher's goroutine", d.HangBudget), Spec: "every payload is classified"})
		}
		if got == "out=panic" {
			c.Find(Finding{Kind: "oracle", Class: q.codec + ":cache-classifier-panic", Case: lines[i], Impl: "CachePack panicked on the publisher's goroutine (the publishing session ends)", Spec: "every payload is classified without a panic"})
		}
	}
	classQ = nil
}

// ---------------------------------------------------------------- SDP

var sdpGood = "v=0\r\no=- 0 0 IN IP4 127.0.0.1\r\ns=x\r\nc=IN IP4 127.0.0.1\r\nt=0 0\r\n" +
	"m=video 0 RTP/AVP 96\r\nb=AS:500\r\na=rtpmap:96 H264/90000\r\na=fmtp:96 packetization-mode=1; sprop-parameter-sets=" +
	base64.StdEncoding.EncodeToString(d.H264Sps[0]) + "," + base64.StdEncoding.EncodeToString(d.H264Pps[0]) + "; profile-level-id=4D401F\r\na=control:streamid=0\r\n" +
	"m=audio 0 RTP/AVP 97\r\nb=AS:64\r\na=rtpmap:97 MPEG4-GENERIC/44100/2\r\na=fmtp:97 profile-level-id=1;mode=AAC-hbr;sizelength=13;indexlength=3;indexdeltalength=3; config=1210\r\na=control:streamid=1\r\n"

var sdpNoSprop = "v=0\r\no=- 0 0 IN IP4 127.0.0.1\r\ns=x\r\nc=IN IP4 127.0.0.1\r\nt=0 0\r\n" +
	"m=video 0 RTP/AVP 96\r\na=rtpmap:96 H264/90000\r\na=fmtp:96 packetization-mode=1\r\na=control:streamid=0\r\n" +
	"m=audio 0 RTP/AVP 97\r\na=rtpmap:97 MPEG4-GENERIC/44100/2\r\na=fmtp:97 mode=AAC-hbr;sizelength=13;indexlength=3;indexdeltalength=3; config=1210\r\na=control:streamid=1\r\n"

var sdpCorpus = []string{
	"", "v=0", "m=video", "m=video 0 RTP/AVP\r\n", "v=0\r\nm=video 0 RTP/AVP\r\n", "v=0\r\nm=audio 0 RTP/AVP\r\n",
	"v=0\r\nm=video 0 RTP/AVP 96\r\n", "v=0\r\nm=video 0 RTP/AVP 96\r\na=rtpmap:96\r\n", "v=0\r\nm=video 0 RTP/AVP 96\r\na=rtpmap:96 H264\r\n",
	"v=0\r\nm=video 0 RTP/AVP 96\r\na=rtpmap:96 H264/0\r\na=fmtp:96 sprop-parameter-sets=\r\n",
	"v=0\r\nm=video 0 RTP/AVP 96\r\na=rtpmap:96 H264/90000\r\na=fmtp:96 sprop-parameter-sets=,\r\n",
	"v=0\r\nm=video 0 RTP/AVP 96\r\na=rtpmap:96 H264/90000\r\na=fmtp:96 sprop-parameter-sets=Zw==,aA==\r\n",
	"v=0\r\nm=video 0 RTP/AVP 96\r\na=rtpmap:96 H264/90000\r\na=fmtp:96 sprop-parameter-sets=Z00=,\r\n",
	"v=0\r\nm=video 0 RTP/AVP 96\r\na=rtpmap:96 H264/90000\r\na=fmtp:96 sprop-parameter-sets=!!!!,####\r\n",
	"v=0\r\nm=video 0 RTP/AVP 96\r\na=rtpmap:96 H265/90000\r\na=fmtp:96 sprop-vps=;sprop-sps=;sprop-pps=\r\n",
	"v=0\r\nm=video 0 RTP/AVP 96\r\na=rtpmap:96 H265/90000\r\na=fmtp:96 sprop-vps=QAE=;sprop-sps=QgE=;sprop-pps=RAE=\r\n",
	"v=0\r\nm=video 0 RTP/AVP 96\r\na=rtpmap:96 HEVC/90000\r\na=fmtp:96 sprop-sps\r\n",
	"v=0\r\nm=audio 0 RTP/AVP 97\r\na=rtpmap:97 MPEG4-GENERIC/0/0\r\na=fmtp:97 config=\r\n",
	"v=0\r\nm=audio 0 RTP/AVP 97\r\na=rtpmap:97 MPEG4-GENERIC/44100/2\r\na=fmtp:97 config=zz\r\n",
	"v=0\r\nm=audio 0 RTP/AVP 97\r\na=rtpmap:97 MPEG4-GENERIC/7/99\r\na=fmtp:97 config=zz\r\n",
	"v=0\r\nm=audio 0 RTP/AVP 97\r\na=rtpmap:97 MPEG4-GENERIC/44100/2\r\na=fmtp:97 config=f8\r\n",
	"v=0\r\nm=audio 0 RTP/AVP 97\r\na=rtpmap:97 MPEG4-GENERIC/44100/2\r\na=fmtp:97 config=ffffffffffffffffffffffffffffffff\r\n",
	"v=0\r\nm=video 0 RTP/AVP 96 97 98\r\na=rtpmap:98 H264/90000\r\n", "v=0\r\nm=application 0 RTP/AVP 96\r\n",
	"v=0\r\nm=video 99999999999999999999 RTP/AVP 96\r\n", "v=0\r\nb=AS:xx\r\nm=video 0 RTP/AVP 96\r\nb=AS:99999999999999999999\r\na=rtpmap:96 H264/90000\r\n",
	"\x00\x01\x02", strings.Repeat("a=", 5000), "v=0\r\nm=video 0 RTP/AVP 96\r\na=rtpmap:96 H264/90000/\r\na=fmtp:96\r\n", "v=0\r\nm=video 0 RTP/AVP 96\r\na=fmtp:96 sprop-parameter-sets=Z00=,aM4=\r\n",
}

var streamSeq int

// sdpOne builds a stream from the SDP the way onAnnounce / PullClient.Open do, on a goroutine
// with a deferred recover (as Session.process / playStream / Open have — c07_source_facts).
func sdpOne(c *Ctx, sdp string, corpus bool) string {
	if d.Stopped {
		return "skipped"
	}
	streamSeq++
	path := fmt.Sprintf("/verif/sdp/%d", streamSeq)
	done := make(chan string, 1)
	var st *media.Stream
	go func() {
		defer func() {
			if r := recover(); r != nil {
				done <- "panic:" + fmt.Sprint(r)
			}
		}()
		st = media.NewStream(path, sdp)
		done <- "ok"
	}()
	res := ""
	select {
	case res = <-done:
	case <-time.After(d.HangBudget):
		select {
		case res = <-done:
		default:
			res = "hang"
			d.Stopped = true
		}
	}
	line := "c07 sdp " + Hx([]byte(sdp))
	c.Eval(line, len(sdp) > 3)
	switch {
	case res == "ok":
		c.Count("sdp-newstream-ok")
		if st.Video.Codec != "" {
			c.Count("sdp-video-codec-" + st.Video.Codec)
			res = "ok:" + st.Video.Codec
		}
		st.Close()
	case res == "hang":
		c.Find(Finding{Kind: "oracle", Class: "sdp-hang", Case: line, Impl: fmt.Sprintf("media.NewStream did not return within %v", d.HangBudget), Spec: "returns"})
	default:
		// contained by the deferred recover of the goroutine that parses the SDP: the session
		// (or the pull) ends, nothing else is disturbed; reported in the distribution
		c.Count("sdp-newstream-panic-recovered-by-session")
		c.Note("SDP makes media.NewStream panic (recovered by the session goroutine): " + clip(fmt.Sprintf("%q: %s", sdp, res)))
	}
	return res
}

func genSdp(c *Ctx) {
	r := c.Rng
	for _, s := range sdpCorpus {
		sdpOne(c, s, false)
	}
	if res := sdpOne(c, sdpGood, false); res != "ok:H264" && res != "skipped" {
		c.Find(Finding{Kind: "oracle", Class: "sdp-good-stream-fails", Case: "c07 sdp " + Hx([]byte(sdpGood)), Impl: "media.NewStream on a well-formed SDP: " + res, Spec: "the stream is created with its H264 video description"})
	}
	sdpOne(c, sdpNoSprop, false)
	n := c.Budget(150, 3000)
	for i := 0; i < n; i++ {
		b := []byte(sdpGood)
		switch r.Intn(4) {
		case 0: // truncate
			b = b[:r.Intn(len(b))]
		case 1: // delete a line
			ls := strings.Split(sdpGood, "\r\n")
			k := r.Intn(len(ls))
			b = []byte(strings.Join(append(append([]string{}, ls[:k]...), ls[k+1:]...), "\r\n"))
		case 2: // corrupt bytes
			for k := 0; k < 1+r.Intn(4); k++ {
				b[r.Intn(len(b))] = []byte{0, ' ', '=', ';', ',', '/', ':', '\r', '\n', 0xff, '9', 'm'}[r.Intn(12)]
			}
		default: // cut a span
			a := r.Intn(len(b))
			e := a + r.Intn(len(b)-a)
			b = append(b[:a:a], b[e:]...)
		}
		sdpOne(c, string(b), false)
	}
	// after all of that a well-formed stream still comes up: same result as before the malformed bodies
	if res := sdpOne(c, sdpGood, false); res != "ok:H264" && res != "skipped" {
		c.Find(Finding{Kind: "oracle", Class: "sdp-good-stream-fails-after-malformed", Case: "c07 sdp " + Hx([]byte(sdpGood)),
			Impl: "media.NewStream on a well-formed SDP after the malformed ones: " + res, Spec: "the stream is created with its H264 video description"})
	}
}

// ---------------------------------------------------------------- a real media.Stream

type recConsumer struct {
	mu    sync.Mutex
	packs []media.Pack
}

func (r *recConsumer) Consume(p media.Pack) {
	r.mu.Lock()
	r.packs = append(r.packs, p)
	r.mu.Unlock()
}
func (r *recConsumer) Close() error { return nil }
func (r *recConsumer) Len() int {
	r.mu.Lock()
	defer r.mu.Unlock()
	return len(r.packs)
}
func (r *recConsumer) videoTags() int {
	r.mu.Lock()
	defer r.mu.Unlock()
	n := 0
	for _, p := range r.packs {
		if t, ok := p.(*flv.Tag); ok && t.TagType == flv.TagTypeVideo && len(t.Data) > 1 && t.Data[1] == flv.H2645PacketTypeNALU {
			n++
		}
	}
	return n
}

var waitTimedOut bool

// streamLog captures the global logger while the stream-level cases run: the converter goroutines
// of a media.Stream report their panic there
var streamLog *d.LogCapture

// waitUntil waits for the event f; progress() is the observed quantity f depends on.  It gives up
// only when the quantity has been WRONG AND STABLE: the budget (HangBudget, 5 min — free when the
// event arrives) has passed and the quantity did not move during a further 5 s; while it still
// moves (a very slow machine) the budget is renewed.
func waitUntil(f func() bool, progress func() int) bool {
	if waitTimedOut { // one expiry is enough to report; do not wait again for every later case
		return f()
	}
	deadline := time.Now().Add(d.HangBudget)
	for i := 0; !f(); i++ {
		if streamLog != nil && streamLog.Panicked() != "" {
			// the event that makes the state stable: a goroutine of the stream logged its panic and is
			// gone.  Let what is already queued drain (short, only on this path), then judge.
			for k := 0; k < 200 && !f(); k++ {
				time.Sleep(5 * time.Millisecond)
			}
			return f()
		}
		if time.Now().After(deadline) {
			v := progress()
			time.Sleep(5 * time.Second)
			if f() {
				return true
			}
			if progress() != v {
				deadline = time.Now().Add(d.HangBudget)
				continue
			}
			waitTimedOut = true
			return false
		}
		if i < 100 {
			time.Sleep(50 * time.Microsecond)
		} else {
			time.Sleep(2 * time.Millisecond)
		}
	}
	return true
}

func streamLevel(c *Ctx) {
	config.VerifSetCacheGop(true)
	r := c.Rng
	n := c.Budget(40, 600)
	bads := [][]byte{
		{0x18, 0x00, 0x01, 0x65, 0x00}, {0x78, 0x00, 0x05, 0x65}, {0x18, 0x00, 0x01}, {0x18, 0x00}, {0x7c, 0x85}, {0x7c}, {}, {0x00},
		{0x18, 0x00, 0x02, 0x67, 0x42, 0x00}, {0x19, 0x00, 0x01, 0x00}, {0x1a, 0xff, 0xff, 0x01}, {0x1b, 0x00, 0x03, 0x01},
	}
	for i := 0; i < n && !waitTimedOut && !d.Stopped; i++ {
		sdp := sdpGood
		if i%3 == 2 {
			sdp = sdpNoSprop
		}
		streamSeq++
		streamLog = d.NewLogCapture()
		xlog.ReplaceGlobal(streamLog.Logger())
		sA := media.NewStream(fmt.Sprintf("/verif/a/%d", streamSeq), sdp)
		sB := media.NewStream(fmt.Sprintf("/verif/b/%d", streamSeq), sdpGood)
		rA, fA, rB := &recConsumer{}, &recConsumer{}, &recConsumer{}
		sA.StartConsume(rA, media.RTPPacket, "verif")
		sA.StartConsume(fA, media.FLVPacket, "verif")
		sB.StartConsume(rB, media.RTPPacket, "verif")
		var bad d.WPkt
		tag := ""
		switch x := r.Intn(100); {
		case x < 50:
			bad, tag = d.WPkt{Ch: 0, Seq: 50, TS: 9000, Payload: bads[r.Intn(len(bads))]}, "truncated-aggregation"
		case x < 65:
			bad, tag = d.WPkt{Ch: 2, Seq: 50, TS: 9000, Payload: [][]byte{{}, {0}, {0, 0x20, 0, 8}, {0, 0x10, 0xff, 0xf8, 1}, {0xff, 0xff}}[r.Intn(5)]}, "bad-au-headers"
		case x < 80:
			p := r.Bytes(r.Intn(19))
			if len(p) > 1 {
				p[1] = 200
			}
			bad, tag = d.WPkt{Ch: 1 + 2*r.Intn(2), Payload: p}, "short-rtcp"
		default:
			bad, tag = d.WPkt{Ch: 2 * r.Intn(2), Seq: 50, TS: 9000, Payload: r.Bytes(r.Intn(12))}, "random-bytes"
		}
		c.Count("stream-bad-" + tag)
		line := fmt.Sprintf("c07 stream sdp=%d bad=%d:%s", i%3, bad.Ch, Hx(bad.Payload))
		seq := uint16(1)
		sentA, sentB, good2 := 0, 0, 0
		died := ""
		hung := false
		write := func(s *media.Stream, w d.WPkt) bool {
			p, why := d.MakePacket(w, 0)
			if p == nil {
				c.Count("stream-skipped-" + why)
				return true
			}
			pan := ""
			if !d.Guard(func() {
				defer func() {
					if r := recover(); r != nil {
						pan = fmt.Sprint(r)
					}
				}()
				s.WriteRtpPacket(p)
			}) {
				hung = true
				return false
			}
			if pan != "" {
				died = pan
				return false
			}
			return true
		}
		vid := func(ts uint32, nal ...byte) d.WPkt {
			seq++
			return d.WPkt{Ch: 0, Seq: seq, TS: ts, M: true, Payload: nal}
		}
		good1 := []d.WPkt{vid(3000, d.H264Sps[0]...), vid(3000, d.H264Pps[0]...), vid(3000, 0x65, 1, 2, 3, 4), vid(6000, 0x41, 5, 6, 7)}
		alive := true
		for _, w := range good1 {
			if alive = write(sA, w); !alive {
				break
			}
			sentA++
			write(sB, vid(3000, 0x41, 9, 9, byte(sentB)))
			sentB++
		}
		if alive {
			if alive = write(sA, bad); alive {
				sentA++
			}
		}
		if alive {
			for k := 0; k < 3; k++ {
				if alive = write(sA, vid(9000+uint32(k)*3000, 0x41, 7, 7, byte(k))); !alive {
					break
				}
				sentA++
				good2++
				write(sB, vid(9000, 0x41, 8, 8, byte(k)))
				sentB++
			}
		}
		c.Eval(line, true)
		if hung {
			c.Find(Finding{Kind: "oracle", Class: "stream:publisher-goroutine-hung-on-" + tag, Case: line, Impl: fmt.Sprintf("Stream.WriteRtpPacket did not return within %v", d.HangBudget), Spec: "the packet is relayed / ignored; the publishing session goes on"})
			break
		}
		if died != "" {
			c.Find(Finding{Kind: "oracle", Class: "stream:publisher-goroutine-panic-on-" + tag, Case: line, Impl: "Stream.WriteRtpPacket panicked: " + died, Spec: "the packet is relayed / ignored; the publishing session goes on"})
		} else {
			if !waitUntil(func() bool { return rA.Len() >= sentA }, rA.Len) || rA.Len() != sentA {
				c.Find(Finding{Kind: "oracle", Class: "stream:rtp-relay-stopped-after-" + tag, Case: line, Impl: fmt.Sprintf("RTP consumer got %d of %d packets", rA.Len(), sentA), Spec: "every packet is relayed"})
			}
			wantTags := len(good1) - 1 + good2 // PPS (the SPS is consumed while not ready without sprop; with sprop all four) — lower bound: IDR, P + good2
			_ = wantTags
			if !waitUntil(func() bool { return fA.videoTags() >= 2+good2 }, fA.Len) {
				c.Find(Finding{Kind: "oracle", Class: "stream:flv-output-stopped-after-" + tag, Case: line, Impl: fmt.Sprintf("FLV consumer got %d video NALU tags, at least %d expected", fA.videoTags(), 2+good2), Spec: "FLV output continues for the well-formed packets after the malformed one"})
			}
		}
		if !waitUntil(func() bool { return rB.Len() >= sentB }, rB.Len) || rB.Len() != sentB {
			c.Find(Finding{Kind: "oracle", Class: "stream:other-stream-disturbed-by-" + tag, Case: line, Impl: fmt.Sprintf("the other stream's consumer got %d of %d packets", rB.Len(), sentB), Spec: "other streams are not affected"})
		}
		if m := streamLog.Panicked(); m != "" {
			c.Find(Finding{Kind: "oracle", Class: "stream:goroutine-panic-after-" + tag, Case: line, Impl: "a goroutine of the stream logged: " + clip(m), Spec: "no goroutine of the stream dies"})
		}
		sA.Close()
		sB.Close()
	}
	streamLog = nil
	xlog.ReplaceGlobal(xlog.New(xlog.NewNopCore()))
}
