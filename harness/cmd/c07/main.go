// C07 — Malformed media input is contained and never stops conversion of later good data.
//
// Four correspondences against the real code, each with the Lean model (Model/Depack,
// Model/Pipeline, Model/CacheClassify, Model/RtpPacket) and the containment judge:
//
//	pipe      valid streams from the Lean packetiser with malformed packets (every truncation,
//	          header-byte corruptions, exhaustive short payloads, RTCP garbage, bad AU headers)
//	          at every position, through real rtp.Demuxer → flv.Muxer / mpegts.Muxer goroutines
//	          stepped through their schedule points
//	classify  the cache classifiers (run on the publisher's goroutine) on the same payloads
//	recv      service/rtsp receive + rtp.ReadPacket on interleaved frames with unknown channels
//	          and corrupted RTP headers
//	stream    a real media.Stream with RTP and FLV consumers and a second stream
//	sdp       malformed SDP bodies through media.NewStream (the path of ANNOUNCE / DESCRIBE)
package main

import (
	"bufio"
	"bytes"
	"fmt"
	"strings"

	d "verifharness/depack"
	. "verifharness/hlib"

	"github.com/cnotch/ipchub/service/rtsp"
)

func main() { Main("C07", run) }

func run(c *Ctx) {
	c.Res.Rule = "case = one (valid stream, malformed packet, position, AAC config) pipeline run, one payload for the cache classifiers, one interleaved frame sequence for receive, one SDP body; distinct by the op line; non-trivial when the malformed element is non-empty and at least one well-formed packet follows it"
	tbl := d.NewSpsTable()
	var pipes []*pcase
	for _, l := range c.CorpusLines() {
		f := strings.Fields(l)
		if len(f) < 2 || !strings.EqualFold(f[0], "c07") {
			continue
		}
		rest := strings.Join(f[2:], " ")
		switch f[1] {
		case "pipe":
			cs := d.CaseFromLine(rest)
			m := KV(rest)
			pc := &pcase{c: cs, asc: nil, corpus: true}
			if v, ok := m["ascb"]; ok {
				pc.asc = Unhx(v)
			}
			pipes = append(pipes, pc)
		case "classify":
			m := KV(rest)
			classifyOne(c, m["codec"], Unhx(m["p"]), true)
		case "recv":
			m := KV(rest)
			recvOne(c, m["seq"], true)
		case "sdp":
			sdpOne(c, string(Unhx(f[2])), true)
		}
	}
	runPipes(c, tbl, pipes)
	flushClassify(c)
	flushRecv(c)
	if c.Replay != "" {
		return
	}
	genPipes(c, tbl)
	genClassify(c)
	flushClassify(c)
	genRecv(c)
	flushRecv(c)
	genSdp(c)
	streamLevel(c)
	if d.Stopped {
		c.Note("stopped after a hang of the implementation: the remaining cases were not run")
	}
}

// ---------------------------------------------------------------- pipeline

type pcase struct {
	c      *d.Case
	asc    []byte
	corpus bool
	badTag string
	line   string
	m      d.ModelOut
	mtags  string
	mtsf   string
	mf, mt bool // model: flv / ts worker alive
	impl   d.PipeOut
	ran    bool
}

func (p *pcase) extra() string {
	hasTs := p.c.Codec == "h264" && p.c.Aac
	return fmt.Sprintf("asc=%s hasts=%s ascb=%s", B01(d.AscOk(p.asc)), B01(hasTs), Hx(p.asc))
}

// badPayloads derives malformed payloads from a valid one
func badPayloads(r *Rng, valid []byte, all bool) (out [][]byte, tags []string) {
	add := func(b []byte, t string) { out = append(out, append([]byte(nil), b...)); tags = append(tags, t) }
	// truncations
	if all || len(valid) <= 12 {
		for k := 0; k < len(valid); k++ {
			add(valid[:k], "truncation")
		}
	} else {
		for i := 0; i < 6; i++ {
			add(valid[:r.Intn(len(valid))], "truncation")
		}
		add(valid[:1], "truncation")
		add(valid[:2], "truncation")
		add(valid[:len(valid)-1], "truncation")
	}
	// single-byte corruptions of the first 6 bytes
	for i := 0; i < 6 && i < len(valid); i++ {
		vals := []byte{0x00, 0xff, valid[i] ^ 0x80, valid[i] ^ 0x01, valid[i] + 1, byte(r.U64())}
		if !all {
			vals = []byte{vals[r.Intn(len(vals))], byte(r.U64())}
		}
		for _, v := range vals {
			b := append([]byte(nil), valid...)
			b[i] = v
			add(b, "corruption")
		}
	}
	// 16-bit big-endian fields (sizes, lengths) set to boundary values
	for i := 0; i+1 < len(valid) && i < 6; i++ {
		vals := []uint16{0x0000, 0x0001, 0x000f, 0x0010, 0x7fff, 0x8000, 0xfff8, 0xfff9, 0xffff}
		if !all {
			vals = []uint16{vals[r.Intn(len(vals))]}
		}
		for _, v := range vals {
			b := append([]byte(nil), valid...)
			b[i], b[i+1] = byte(v>>8), byte(v)
			add(b, "corruption-16bit-field")
		}
	}
	return
}

var shortAlphabet = []byte{0x00, 0x01, 0x18, 0x1c, 0x7c, 0x9c, 0x60, 0x62, 0x67, 0x80, 0xff, 0x40}

func shortPayloads() [][]byte {
	out := [][]byte{{}}
	for _, a := range shortAlphabet {
		out = append(out, []byte{a})
		for _, b := range shortAlphabet {
			out = append(out, []byte{a, b})
			for _, x := range shortAlphabet {
				out = append(out, []byte{a, b, x})
			}
		}
	}
	return out
}

func baseCase(g *d.Gen, c *Ctx, i int) *d.Case {
	r := c.Rng
	cs := &d.Case{Codec: "h264", Rate: 90000, ARate: 44100, Mode: "contain"}
	if i%2 == 1 {
		cs.Codec = "h265"
	}
	ts := uint32(r.Intn(1 << 30))
	cs.Seq0 = uint16(r.U64())
	if r.Chance(20) {
		cs.Seq0 = uint16(65536 - r.Intn(8))
	}
	inband := r.Chance(40)
	var pre []d.Elem
	if cs.Codec == "h264" {
		sps, pps := d.H264Sps[r.Intn(len(d.H264Sps))], d.H264Pps[r.Intn(len(d.H264Pps))]
		if inband {
			pre = []d.Elem{{Kind: 'S', TS: ts, Nals: [][]byte{sps}}, {Kind: 'S', TS: ts, Nals: [][]byte{pps}}}
			if r.Bool() {
				pre = []d.Elem{{Kind: 'A', TS: ts, Nals: [][]byte{sps, pps}}}
			}
		} else {
			cs.Sps, cs.Pps, cs.WK = sps, pps, true
		}
	} else {
		vps, sps, pps := d.H265Vps[0], d.H265Sps[r.Intn(len(d.H265Sps))], d.H265Pps[0]
		if inband {
			pre = []d.Elem{{Kind: 'A', TS: ts, Nals: [][]byte{vps, sps, pps}}}
			if r.Bool() {
				pre = []d.Elem{{Kind: 'S', TS: ts, Nals: [][]byte{vps}}, {Kind: 'S', TS: ts, Nals: [][]byte{sps}}, {Kind: 'S', TS: ts, Nals: [][]byte{pps}}}
			}
		} else {
			cs.Vps, cs.Sps, cs.Pps, cs.WK = vps, sps, pps, true
		}
	}
	cs.Skip = len(pre)
	if r.Chance(35) {
		cs.Hdr = 1 + r.Intn(6) // CSRC list / header extensions / padding: all legal RTP
	}
	c.Count(fmt.Sprintf("pipe-rtp-header-variant-%d", cs.Hdr))
	if inband {
		cs.Tags = append(cs.Tags, "inband-ps")
		c.Count("pipe-setup-inband-parameter-sets")
	} else {
		c.Count("pipe-setup-sdp-parameter-sets")
	}
	elems := append(pre, g.VideoElems(cs.Codec, 2+r.Intn(3), ts, 3000, false)...)
	if i%4 != 3 {
		cs.Aac = true
		cs.ASeq0 = uint16(r.U64())
		ats := uint32(r.Intn(1 << 30))
		for k := 0; k < 1+r.Intn(3); k++ {
			e := g.AacElem(ats)
			for j := range e.Nals {
				if len(e.Nals[j]) > 200 {
					e.Nals[j] = e.Nals[j][:200]
				}
			}
			ats += uint32(1024 * len(e.Nals))
			pos := len(pre) + r.Intn(len(elems)-len(pre)+1)
			elems = append(elems[:pos], append([]d.Elem{e}, elems[pos:]...)...)
		}
	}
	cs.Elems = elems
	return cs
}

// variant inserts the bad elements at position pos of the base stream
func variant(base *d.Case, bad []d.Elem, pos int) *d.Case {
	v := *base
	v.Elems = append(append(append([]d.Elem{}, base.Elems[:pos]...), bad...), base.Elems[pos:]...)
	v.Tags = append([]string{}, base.Tags...)
	if pos < base.Skip && base.Skip > 0 {
		// malformed packet inside the parameter-set prefix: the sender repeats the parameter sets
		// (as encoders do at every key frame); everything after the repetition must be handed on
		n := len(v.Elems)
		v.Elems = append(v.Elems, base.Elems[:base.Skip]...)
		ts := base.Elems[len(base.Elems)-1].TS + 3000
		v.Elems = append(v.Elems, d.Elem{Kind: 'S', TS: ts, M: true, Nals: [][]byte{tail(base.Codec, byte(n))}})
		skip := 0
		for _, e := range v.Elems[:n+base.Skip] {
			if e.Kind == 'S' || e.Kind == 'A' || e.Kind == 'F' {
				skip++
			}
		}
		v.Skip = skip
		v.Tags = append(v.Tags, "bad-inside-ps-prefix")
	}
	return &v
}

func tail(codec string, x byte) []byte {
	if codec == "h265" {
		return []byte{0x02, 0x01, 0xee, x, 0x77}
	}
	return []byte{0x41, 0xee, x, 0x77}
}

var ascPool = [][]byte{{0x12, 0x10}, {0x11, 0x90}, nil, {0x00, 0x00}, {0xf8}, {0x12}}

func genPipes(c *Ctx, tbl *d.SpsTable) {
	g := &d.Gen{R: c.Rng, Count: c.Count, Small: true}
	r := c.Rng
	nBase := c.Budget(40, 180)
	perBase := c.Budget(12, 30)
	var bases []*pcase
	for i := 0; i < nBase; i++ {
		bases = append(bases, &pcase{c: baseCase(g, c, i), asc: ascPool[0]})
	}
	// phase 1: the valid streams themselves (also gives the packets to derive malformed ones from)
	runPipes(c, tbl, bases)
	var vs []*pcase
	for _, b := range bases {
		pk := b.m.Pkts
		if len(pk) == 0 {
			continue
		}
		for k := 0; k < perBase; k++ {
			var bad []d.Elem
			tag := ""
			w := pk[r.Intn(len(pk))]
			mk := func(payload []byte, audio bool) d.Elem {
				if audio {
					return d.Elem{Kind: 'Q', TS: w.TS, Data: payload}
				}
				return d.Elem{Kind: 'R', TS: w.TS, Data: payload}
			}
			switch x := r.Intn(100); {
			case x < 45:
				bp, tg := badPayloads(r, w.Payload, false)
				j := r.Intn(len(bp))
				bad, tag = []d.Elem{mk(bp[j], w.Ch == 2)}, tg[j]
			case x < 52:
				// garbage that carries a parameter-set NAL type (must not displace validated sets, must be displaced by real ones)
				var first []byte
				if b.c.Codec == "h265" {
					first = []byte{0x40, 0x42, 0x44, 0xc0, 0xc2}
				} else {
					first = []byte{0x67, 0x68, 0xc7, 0x27, 0x28, 0xe8}
				}
				p := append([]byte{first[r.Intn(len(first))]}, r.Bytes(r.Intn(6))...)
				bad, tag = []d.Elem{mk(p, false)}, "ps-typed-garbage"
				if r.Bool() {
					q := append([]byte{first[r.Intn(len(first))]}, r.Bytes(r.Intn(6))...)
					bad = append(bad, mk(q, false))
				}
			case x < 60:
				n := r.Intn(4)
				p := make([]byte, n)
				for i := range p {
					p[i] = shortAlphabet[r.Intn(len(shortAlphabet))]
				}
				bad, tag = []d.Elem{mk(p, b.c.Aac && r.Chance(30))}, "short-alphabet"
			case x < 68:
				p := r.Bytes(r.Intn(40))
				bad, tag = []d.Elem{mk(p, b.c.Aac && r.Chance(30))}, "random-bytes"
			case x < 76:
				// length fields at their boundaries: AU-headers-length / AU sizes (RFC 3640), NAL sizes of
				// an aggregation packet (16-bit, big-endian)
				f16 := func(vals ...uint16) []byte {
					v := vals[r.Intn(len(vals))]
					return []byte{byte(v >> 8), byte(v)}
				}
				if b.c.Aac && r.Chance(60) {
					p := f16(0, 1, 8, 15, 16, 17, 31, 32, 48, 0x7fff, 0x8000, 0xfff0, 0xfff8, 0xfff9, 0xfffc, 0xffff)
					for j := r.Intn(4); j > 0; j-- {
						p = append(p, f16(0, 8, 0x0040, 0xfff8, 0xffff, uint16(r.U64()))...)
					}
					p = append(p, r.Bytes(r.Intn(12))...)
					bad, tag = []d.Elem{mk(p, true)}, "aac-length-fields-boundary"
				} else {
					p := []byte{0x78}
					if b.c.Codec == "h265" {
						p = []byte{0x60, 0x01}
					}
					for j := 1 + r.Intn(3); j > 0; j-- {
						body := r.Bytes(r.Intn(6))
						p = append(p, f16(0, 1, 2, uint16(len(body)), uint16(len(body)+1), 0x00ff, 0x0100, 0x7fff, 0x8000, 0xffff)...)
						p = append(p, body...)
					}
					bad, tag = []d.Elem{mk(p, false)}, "aggregation-size-fields-boundary"
				}
			case x < 88:
				p := r.Bytes(r.Intn(36))
				if len(p) >= 2 && r.Chance(70) {
					p[1] = 200
				}
				k := byte('C')
				if b.c.Aac && r.Bool() {
					k = 'X'
				}
				bad, tag = []d.Elem{{Kind: k, Data: p}}, "rtcp-garbage"
			default:
				// several malformed packets in a row
				for q := 0; q < 2+r.Intn(3); q++ {
					bad = append(bad, mk(r.Bytes(r.Intn(8)), false))
				}
				tag = "burst"
			}
			if b.c.Skip > 0 && k%5 == 1 {
				// the start-up phase of a stream without SDP parameter sets: damaged parameter sets
				// (truncated real ones, parameter-set-typed garbage of plausible length) before / between
				// / right after the sender's first SPS / PPS
				var sps, first []byte
				if b.c.Codec == "h265" {
					sps, first = d.H265Sps[r.Intn(len(d.H265Sps))], []byte{0x40, 0x42, 0x44}
				} else {
					sps, first = d.H264Sps[r.Intn(len(d.H264Sps))], []byte{0x67, 0x68, 0x27, 0x28}
				}
				bad = nil
				for q := 1 + r.Intn(2); q > 0; q-- {
					var pl []byte
					switch x := r.Intn(10); {
					case x < 5:
						pl = append([]byte{}, sps[:4+r.Intn(len(sps)-4)]...)
					case x < 8:
						pl = append([]byte{first[r.Intn(len(first))]}, r.Bytes(3+r.Intn(10))...)
					default:
						pl = append([]byte{}, sps...)
						pl[2+r.Intn(len(pl)-2)] ^= byte(1 + r.Intn(255))
					}
					bad = append(bad, mk(pl, false))
				}
				pos := r.Intn(b.c.Skip + 1)
				if b.c.Skip > 1 && r.Bool() {
					pos = 1 // right after the sender's first parameter set: the damaged one displaces it or fills a free slot
				}
				vs = append(vs, &pcase{c: variant(b.c, bad, pos), asc: ascPool[0], badTag: "damaged-parameter-set-at-start-up"})
				continue
			}
			if k%3 == 2 {
				// corruption IN PLACE: a packet of the stream itself (same sequence number, timestamp,
				// marker — e.g. the middle fragment of a fragmented unit, one packet of an aggregation)
				// arrives truncated / with a damaged header byte / as garbage
				if sv := substituted(r, b); sv != nil {
					vs = append(vs, sv)
					continue
				}
			}
			pos := r.Intn(len(b.c.Elems) + 1)
			v := &pcase{c: variant(b.c, bad, pos), asc: ascPool[r.Intn(len(ascPool))], badTag: tag}
			if r.Chance(70) {
				v.asc = ascPool[0]
			}
			vs = append(vs, v)
		}
	}
	// exhaustive short payloads in a fixed tiny stream (thorough: all; quick: a sample)
	sp := shortPayloads()
	for ci, codec := range []string{"h264", "h265"} {
		base := baseCase(g, c, ci)
		base.Codec = codec
		for i, p := range sp {
			if !c.Thorough() && !c.Search && i%23 != int(c.Seed%23) {
				continue
			}
			pos := 0
			if len(base.Elems) > 1 {
				pos = base.Skip + (i % (len(base.Elems) - base.Skip))
			}
			vs = append(vs, &pcase{c: variant(base, []d.Elem{{Kind: 'R', TS: 5, Data: p}}, pos), asc: ascPool[0], badTag: "short-exhaustive"})
		}
	}
	if c.Thorough() {
		// every truncation of every packet of a few streams at every position
		for bi := 0; bi < 6 && bi < len(bases); bi++ {
			b := bases[bi]
			for _, w := range b.m.Pkts {
				if w.Ch != 0 && w.Ch != 2 {
					continue
				}
				bp, tg := badPayloads(r, w.Payload, true)
				for j := range bp {
					for pos := b.c.Skip; pos <= len(b.c.Elems); pos += 1 + r.Intn(3) {
						k := byte('R')
						if w.Ch == 2 {
							k = 'Q'
						}
						vs = append(vs, &pcase{c: variant(b.c, []d.Elem{{Kind: k, TS: w.TS, Data: bp[j]}}, pos), asc: ascPool[0], badTag: tg[j] + "-all-offsets"})
					}
				}
			}
		}
	}
	runPipes(c, tbl, vs)
}

// substituted derives a case in which one or two media packets of the base stream arrive damaged
func substituted(r *Rng, b *pcase) *pcase {
	// positions of the media packets after the parameter-set prefix
	first := 0
	for _, e := range b.c.Elems[:b.c.Skip] {
		first += e.NPkts()
	}
	var cand []int
	for i, w := range b.m.Pkts {
		if i >= first && (w.Ch == 0 || w.Ch == 2) && len(w.Payload) > 0 {
			cand = append(cand, i)
		}
	}
	if len(cand) == 0 {
		return nil
	}
	v := *b.c
	v.Tags = append([]string{}, b.c.Tags...)
	v.Subs = nil
	n := 1
	if r.Chance(25) {
		n = 2
	}
	used := map[int]bool{}
	for i := 0; i < n; i++ {
		pos := cand[r.Intn(len(cand))]
		if used[pos] {
			continue
		}
		used[pos] = true
		w := b.m.Pkts[pos]
		var data []byte
		switch x := r.Intn(100); {
		case x < 70:
			bp, _ := badPayloads(r, w.Payload, false)
			data = bp[r.Intn(len(bp))]
		case x < 85:
			data = r.Bytes(r.Intn(20))
		default:
			data = append(append([]byte{}, w.Payload...), r.Bytes(1+r.Intn(6))...) // grown
		}
		v.Subs = append(v.Subs, d.Sub{Pos: pos, Data: data})
	}
	return &pcase{c: &v, asc: ascPool[0], badTag: "substituted-in-place"}
}

func candsOf(cs *d.Case) [][]byte {
	var cd [][]byte
	if len(cs.Sps) > 0 {
		cd = append(cd, cs.Sps)
	}
	for _, e := range cs.Elems {
		for _, n := range e.Nals {
			if len(n) > 0 && ((cs.Codec == "h264" && n[0]&0x1f == 7) || (cs.Codec == "h265" && (n[0]>>1)&0x3f == 33)) {
				cd = append(cd, n)
			}
		}
	}
	return cd
}

func obsFromTags(tags []string) string {
	var fs []d.MFrame
	for _, t := range tags {
		f := strings.Split(t, ".")
		switch f[0] {
		case "v":
			fs = append(fs, d.MFrame{Dig: f[len(f)-1]})
		case "a":
			fs = append(fs, d.MFrame{Audio: true, Dig: f[len(f)-1]})
		}
	}
	return d.ObsString(fs)
}

func runPipes(c *Ctx, tbl *d.SpsTable, ps []*pcase) {
	const batch = 300
	for lo := 0; lo < len(ps); lo += batch {
		hi := lo + batch
		if hi > len(ps) {
			hi = len(ps)
		}
		if d.Stopped {
			return
		}
		runPipeBatch(c, tbl, ps[lo:hi])
	}
}

func runPipeBatch(c *Ctx, tbl *d.SpsTable, ps []*pcase) {
	cands := make([][][]byte, len(ps))
	todo := make([]int, len(ps))
	for i, p := range ps {
		cands[i] = candsOf(p.c)
		todo[i] = i
		p.c.Sync = false
	}
	for round := 0; len(todo) > 0 && round < 5; round++ {
		var ls []string
		for _, i := range todo {
			ok, ko := tbl.Split(ps[i].c.Codec, cands[i])
			ps[i].line = "c07 " + ps[i].c.Line("pipe", ok, ko, ps[i].extra())
			ls = append(ls, ps[i].line)
		}
		outs := c.Drive(ls)
		var next []int
		for k, i := range todo {
			ps[i].m = d.ParseRun(outs[k])
			kv := KV(outs[k])
			ps[i].mtags, ps[i].mtsf = kv["tags"], kv["tsf"]
			ps[i].mf, ps[i].mt = kv["falive"] == "1", kv["talive"] == "1"
			if len(ps[i].m.Unk) > 0 {
				cands[i] = append(cands[i], ps[i].m.Unk...)
				next = append(next, i)
			}
		}
		todo = next
	}
	var jl []string
	type jref struct {
		i    int
		what string
	}
	var jr []jref
	for i, p := range ps {
		order := p.c.Order
		if order == nil {
			order = make([]int, len(p.m.Pkts))
			for k := range order {
				order[k] = k
			}
		}
		if d.Stopped {
			break
		}
		p.impl = d.RunPipeline(p.c, p.m.Pkts, order, p.asc)
		p.ran = true
		nBad, after := 0, false
		for _, e := range p.c.Elems {
			switch e.Kind {
			case 'R', 'Q', 'C', 'X':
				if len(e.Data) > 0 {
					nBad++
				}
			default:
				if nBad > 0 {
					after = true
				}
			}
		}
		if len(p.c.Subs) > 0 {
			nBad, after = nBad+1, true
		}
		c.Eval(p.line, nBad > 0 && after)
		if p.badTag != "" {
			c.Count("pipe-bad-" + p.badTag)
		} else if !p.corpus {
			c.Count("pipe-valid-stream")
		}
		if p.impl.Skipped != "" {
			c.Count("pipe-skipped-" + strings.SplitN(p.impl.Skipped, ":", 2)[0])
			continue
		}
		comparePipe(c, p)
		checkSeqHeader(c, p)
		ok, ko := tbl.Split(p.c.Codec, cands[i])
		na := ""
		if p.c.HasTag("inband-ps") || !p.c.WK {
			// the FLV muxer drops audio frames that arrive before the video parameter sets are known
			na = " noaudio=1"
		}
		// bytes only: RTCP garbage that happens to look like a sender report legitimately re-bases the clock
		jl = append(jl, "c07 "+p.c.Line("judge", ok, ko, "nots=1 obs="+d.ObsString(p.impl.Frames)))
		jr = append(jr, jref{i, "frames"})
		jl = append(jl, "c07 "+p.c.Line("judge", ok, ko, "nots=1"+na+" obs="+obsFromTags(p.impl.Tags)))
		jr = append(jr, jref{i, "flv"})
		if p.impl.HasTs {
			na := ""
			if !d.AscOk(p.asc) {
				na = " noaudio=1"
			}
			jl = append(jl, "c07 "+p.c.Line("judge", ok, ko, "nots=1"+na+" obs="+obsFromTags(p.impl.Tsf)))
			jr = append(jr, jref{i, "ts"})
		}
	}
	outs := c.Drive(jl)
	for k, ref := range jr {
		p := ps[ref.i]
		v := KV(outs[k])
		if _, ok := v["video"]; !ok {
			Fatal("judge: %s", outs[k])
		}
		for _, key := range []string{"video", "audio"} {
			if v[key] != "ok" {
				cl := fmt.Sprintf("%s:%s-%s-after-%s", p.c.Codec, ref.what, v[key], badName(p))
				c.Find(Finding{Kind: "oracle", Class: cl, Case: p.line, Impl: implSummary(p), Spec: ref.what + " " + key + " " + v[key], Model: modelSummary(p), Detail: v["detail"]})
			}
		}
	}
	for _, p := range ps {
		if !p.ran {
			continue
		}
		if len(c.Res.Samples) < 8 && (p.corpus || p.badTag != "") {
			l := p.line
			if len(l) > 260 {
				l = l[:260] + "…"
			}
			c.Sample(fmt.Sprintf("%s → impl %d frames %d tags %d ts-frames alive=%v/%v/%v", l, len(p.impl.Frames), len(p.impl.Tags), len(p.impl.Tsf), p.impl.Alive, p.impl.FAlive, p.impl.TAlive))
		}
	}
}

// checkSeqHeader: FLV output a player can decode needs, in front of the first video tag, a
// sequence header, and (H.264: the harness parses the AVCDecoderConfigurationRecord) the SPS and
// PPS in it must be parameter sets the SENDER sent — the SDP's, or a type-7 / type-8 unit of a
// well-formed packet — not the bytes of a malformed packet: a header built from a damaged
// parameter set makes every later tag of the stream useless.
func checkSeqHeader(c *Ctx, p *pcase) {
	first := -1
	for i, t := range p.impl.Tags {
		if strings.HasPrefix(t, "v.") {
			first = i
			break
		}
	}
	if first < 0 {
		return
	}
	var hdr *d.SeqHdr
	seen := false
	for i, t := range p.impl.Tags[:first] {
		if strings.HasPrefix(t, "V") {
			seen = true
			for k := range p.impl.Seq {
				if p.impl.Seq[k].At == i {
					hdr = &p.impl.Seq[k]
				}
			}
		}
	}
	if !seen {
		c.Find(Finding{Kind: "oracle", Class: p.c.Codec + ":flv-video-tag-before-sequence-header-after-" + badName(p), Case: p.line, Impl: clip(strings.Join(p.impl.Tags, ",")), Spec: "a sequence header precedes the first video tag"})
		return
	}
	if p.c.Codec != "h264" || hdr == nil {
		if p.c.Codec == "h264" && hdr != nil && hdr.Sps == nil {
			c.Find(Finding{Kind: "oracle", Class: "h264:flv-sequence-header-unparsable-after-" + badName(p), Case: p.line, Impl: clip(strings.Join(p.impl.Tags, ",")), Spec: "the AVC sequence header carries a parsable AVCDecoderConfigurationRecord"})
		}
		return
	}
	sent := func(typ byte, sdp []byte) map[string]bool {
		m := map[string]bool{}
		if len(sdp) > 0 {
			m[string(sdp)] = true
		}
		for _, e := range p.c.Elems {
			if e.Kind == 'S' || e.Kind == 'A' || e.Kind == 'F' {
				for _, n := range e.Nals {
					if len(n) > 0 && n[0]&0x1f == typ {
						m[string(n)] = true
					}
				}
			}
		}
		return m
	}
	// an SPS the real decoder accepts is, for any receiver, a parameter set like the sender's: only an
	// UNDECODABLE one in the header is a containment failure
	if !sent(7, p.c.Sps)[string(hdr.Sps)] && !d.SpsDecodes("h264", hdr.Sps) {
		c.Find(Finding{Kind: "oracle", Class: "h264:flv-sequence-header-sps-from-malformed-packet", Case: p.line, Impl: clip(strings.Join(p.impl.Tags, ",")), Spec: "the SPS of the AVC sequence header in front of the video tags is a parameter set the sender sent (SDP or a well-formed packet) or at least one the decoder accepts", Model: clip(p.mtags), Detail: "after-" + badName(p)})
	}
	if !sent(8, p.c.Pps)[string(hdr.Pps)] {
		c.Find(Finding{Kind: "oracle", Class: "h264:flv-sequence-header-pps-from-malformed-packet", Case: p.line, Impl: clip(strings.Join(p.impl.Tags, ",")), Spec: "the PPS of the AVC sequence header in front of the video tags is a parameter set the sender sent (SDP or a well-formed packet)", Model: clip(p.mtags), Detail: "after-" + badName(p)})
	}
}

func badName(p *pcase) string {
	if p.badTag != "" {
		return p.badTag
	}
	if p.corpus {
		return "corpus"
	}
	return "valid-stream"
}

func implSummary(p *pcase) string {
	return fmt.Sprintf("frames=%d tags=%d tsf=%d alive demux=%v flv=%v ts=%v %s%s%s", len(p.impl.Frames), len(p.impl.Tags), len(p.impl.Tsf),
		p.impl.Alive, p.impl.FAlive, p.impl.TAlive, p.impl.Panic, p.impl.FPanic, p.impl.TPanic)
}

func modelSummary(p *pcase) string {
	return fmt.Sprintf("frames=%d alive demux=%v flv=%v ts=%v", len(p.m.Frames), p.m.Alive, p.mf, p.mt)
}

func comparePipe(c *Ctx, p *pcase) {
	im, m := p.impl, p.m
	corr := func(class, impl, model string) {
		c.Find(Finding{Kind: "corr", Class: "pipe-" + class, Case: p.line, Impl: impl, Model: model})
	}
	if im.Hung {
		// stable: the goroutine did not reach its next schedule point within HangBudget (5 min), nor did it log a panic
		c.Find(Finding{Kind: "oracle", Class: p.c.Codec + ":goroutine-hung-after-" + badName(p), Case: p.line, Impl: fmt.Sprintf("the %s goroutine made no progress for %v (arrival index %d)", im.HungAt, d.HangBudget, im.Stopped), Spec: "every packet is consumed"})
		return
	}
	if im.Alive != m.Alive || im.FAlive != p.mf || (im.HasTs && im.TAlive != p.mt) {
		corr("alive", implSummary(p), modelSummary(p))
	}
	for _, x := range []struct {
		alive bool
		name  string
		msg   string
	}{{im.Alive, "demuxer", im.Panic}, {im.FAlive, "flv-muxer", im.FPanic}, {im.TAlive, "ts-muxer", im.TPanic}} {
		if !x.alive {
			c.Count("pipe-impl-" + x.name + "-goroutine-died")
			c.Find(Finding{Kind: "oracle", Class: fmt.Sprintf("%s:%s-goroutine-died-after-%s", p.c.Codec, x.name, badName(p)), Case: p.line, Impl: x.msg, Spec: "the goroutine survives every input", Model: modelSummary(p)})
		}
	}
	c.CountN("pipe-frames", len(im.Frames))
	c.CountN("pipe-flv-tags", len(im.Tags))
	c.CountN("pipe-ts-frames", len(im.Tsf))
	if len(im.Frames) != len(m.Frames) {
		corr("frame-count", fmt.Sprint(len(im.Frames)), fmt.Sprint(len(m.Frames)))
	} else {
		for i := range im.Frames {
			a, b := im.Frames[i], m.Frames[i]
			df := a.Pts - b.Pts
			if a.Audio != b.Audio || a.Dig != b.Dig || df > 1 || df < -1 {
				corr("frame", fmt.Sprintf("#%d %v %s pts=%d", i, a.Audio, a.Dig, a.Pts), fmt.Sprintf("%v %s pts=%d", b.Audio, b.Dig, b.Pts))
				break
			}
		}
	}
	mt := ""
	if len(im.Tags) > 0 {
		mt = strings.Join(im.Tags, ",")
	} else {
		mt = "-"
	}
	if mt != p.mtags {
		corr("flv-tags", clip(mt), clip(p.mtags))
	}
	if im.HasTs {
		ms := "-"
		if len(im.Tsf) > 0 {
			ms = strings.Join(im.Tsf, ",")
		}
		if ms != p.mtsf {
			corr("ts-frames", clip(ms), clip(p.mtsf))
		}
	}
	if d.Digest(im.Sps) != m.Sps || d.Digest(im.Pps) != m.Pps || d.Digest(im.Vps) != m.Vps {
		corr("parameter-sets", d.Digest(im.Vps)+"/"+d.Digest(im.Sps)+"/"+d.Digest(im.Pps), m.Vps+"/"+m.Sps+"/"+m.Pps)
	}
}

func clip(s string) string {
	if len(s) > 400 {
		return s[:400] + "…"
	}
	return s
}

// ---------------------------------------------------------------- receive / ReadPacket

type rcase struct {
	frames []rframe
	corpus bool
	line   string
}
type rframe struct {
	ch   byte
	data []byte
}

var recvQ []*rcase

func encRecv(fs []rframe) string {
	s := make([]string, len(fs))
	for i, f := range fs {
		s[i] = fmt.Sprintf("%d:%s", f.ch, Hx(f.data))
	}
	return strings.Join(s, ",")
}

func recvOne(c *Ctx, seq string, corpus bool) {
	rc := &rcase{corpus: corpus}
	for _, t := range strings.Split(seq, ",") {
		f := strings.SplitN(t, ":", 2)
		if len(f) != 2 {
			continue
		}
		var ch int
		fmt.Sscanf(f[0], "%d", &ch)
		rc.frames = append(rc.frames, rframe{byte(ch), Unhx(f[1])})
	}
	recvQ = append(recvQ, rc)
}

func genRecv(c *Ctx) {
	r := c.Rng
	n := c.Budget(400, 8000)
	good := func(ch byte, seq uint16) rframe {
		if ch == 0 || ch == 2 {
			return rframe{ch, d.RtpBytes(d.WPkt{Ch: int(ch), Seq: seq, TS: 1000 * uint32(seq), Payload: []byte{0x41, byte(seq), 0x01}}, int(seq)%3, 7)}
		}
		return rframe{ch, d.SenderReport(99)}
	}
	for i := 0; i < n; i++ {
		var fs []rframe
		fs = append(fs, good(0, uint16(i)))
		k := 1 + r.Intn(2)
		for j := 0; j < k; j++ {
			var f rframe
			switch x := r.Intn(100); {
			case x < 30: // unknown channel
				f = rframe{byte(4 + r.Intn(252)), r.Bytes(r.Intn(30))}
			case x < 55: // truncated RTP header on a media channel
				g := good(byte(2*r.Intn(2)), uint16(i+1))
				f = rframe{g.ch, g.data[:r.Intn(12)]}
			case x < 80: // corrupted first byte: CSRC count / extension bit / padding
				g := good(byte(2*r.Intn(2)), uint16(i+1))
				b := append([]byte(nil), g.data...)
				b[0] = byte(r.U64())
				if r.Chance(40) && len(b) >= 16 { // RFC 8285 extension with a hostile element length
					b[0] = 0x90
					b = append(b[:12], append([]byte{0xBE, 0xDE, 0x00, 0x01, byte(r.U64()), 0, 0, 0}, b[12:]...)...)
					if r.Bool() {
						b[12], b[13] = 0x10, 0x00
					}
					b = b[:16+r.Intn(len(b)-15)]
				}
				f = rframe{g.ch, b}
			default: // random bytes on a media channel
				f = rframe{byte(2 * r.Intn(2)), r.Bytes(r.Intn(24))}
			}
			fs = append(fs, f)
		}
		fs = append(fs, good(byte(r.Intn(4)), uint16(i+7)), good(0, uint16(i+8)))
		recvQ = append(recvQ, &rcase{frames: fs})
	}
}

func flushRecv(c *Ctx) {
	if len(recvQ) == 0 {
		return
	}
	var lines []string
	var idx [][2]int
	for ci, rc := range recvQ {
		rc.line = "c07 recv seq=" + encRecv(rc.frames)
		for fi, f := range rc.frames {
			lines = append(lines, fmt.Sprintf("c07 recv rcfg=gen chans=0+1+2+3 ch=%d d=%s", f.ch, Hx(f.data)))
			idx = append(idx, [2]int{ci, fi})
		}
	}
	outs := c.Drive(lines)
	model := make([][]string, len(recvQ))
	for k, ix := range idx {
		model[ix[0]] = append(model[ix[0]], outs[k])
	}
	lg := d.NewLogCapture()
	for ci, rc := range recvQ {
		if d.Stopped {
			break
		}
		var wire []byte
		for _, f := range rc.frames {
			wire = append(wire, d.Interleaved(f.ch, f.data)...)
		}
		rd := bufio.NewReader(bytes.NewReader(wire))
		nBad, goodAfter, closedAt := 0, 0, -1
		for fi := range rc.frames {
			got := "skip"
			var perr error
			pan := ""
			func() {
				defer func() {
					if r := recover(); r != nil {
						pan = fmt.Sprint(r)
					}
				}()
				perr = rtsp.VerifReceive(lg.Logger(), rd, []int{0, 1, 2, 3}, &rtsp.VerifReceiver{
					OnRequest: func(*rtsp.Request) error { return nil }, OnResponse: func(*rtsp.Response) error { return nil },
					OnPack: func(p *rtsp.RTPPack) error {
						if p.Channel == 0 || p.Channel == 2 {
							got = fmt.Sprintf("out=media ch=%d seq=%d ts=%d m=%s off=%d payload=%s", p.Channel, p.SequenceNumber, p.Timestamp, B01(p.Marker), p.PayloadOffset, Hx(p.Payload()))
						} else {
							got = fmt.Sprintf("out=control ch=%d", p.Channel)
						}
						return nil
					}})
			}()
			switch {
			case pan != "":
				got = "out=panic"
			case perr != nil:
				got = "out=close"
			case got == "skip":
				got = "out=skip"
			}
			want := model[ci][fi]
			c.Count("recv-" + strings.Fields(got)[0][4:])
			if got != want {
				c.Find(Finding{Kind: "corr", Class: "recv", Case: rc.line, Impl: fmt.Sprintf("frame %d: %s", fi, clip(got)), Model: clip(want)})
			}
			isGood := fi == 0 || fi >= len(rc.frames)-2
			if !isGood {
				nBad++
			}
			if got == "out=close" || got == "out=panic" {
				closedAt = fi
				if !isGood || true {
					cl := "session-closed-by-unknown-channel"
					f := rc.frames[fi]
					if f.ch < 4 {
						cl = "session-closed-by-bad-rtp-header"
						if got == "out=panic" {
							cl = "session-panic-in-rtp-header-parser"
						}
					}
					c.Find(Finding{Kind: "oracle", Class: cl, Case: rc.line, Impl: fmt.Sprintf("frame %d (channel %d, %d bytes): %s", fi, f.ch, len(f.data), got), Spec: "the frame is skipped and the session goes on: later well-formed packets are relayed"})
				}
				break
			}
			if isGood && fi > 0 {
				goodAfter++
			}
		}
		_ = closedAt
		c.Eval(rc.line, nBad > 0)
	}
	recvQ = nil
}
