package main

import (
	"fmt"
	"io/ioutil"
	"os"
	"path/filepath"
	"time"

	. "verifharness/hlib"
)

// The harness's own file handling.  Nothing here is an observation of the implementation: a
// failure (disk full, too many open files, a directory that vanished) is retried and then
// raised as envErr, which makes the case "not run" (counted and noted in the evidence) — it
// never becomes a finding and never kills the run.
type envErr struct{ what string }

func retry(what string, f func() error) {
	var err error
	for i := 0; i < 6; i++ {
		if err = f(); err == nil {
			return
		}
		time.Sleep(time.Duration(50<<uint(i)) * time.Millisecond)
	}
	panic(envErr{fmt.Sprintf("%s: %v", what, err)})
}

func writeFile(path string, data []byte) {
	retry("write "+path, func() error { return ioutil.WriteFile(path, data, 0644) })
}

// readFile returns the content and whether the file exists
func readFile(path string) (b []byte, exists bool) {
	retry("read "+path, func() error {
		var err error
		b, err = ioutil.ReadFile(path)
		if err == nil {
			exists = true
			return nil
		}
		if os.IsNotExist(err) {
			b, exists = nil, false
			return nil
		}
		return err
	})
	return b, exists
}

func removeFile(path string) {
	retry("remove "+path, func() error {
		if err := os.Remove(path); err != nil && !os.IsNotExist(err) {
			return err
		}
		return nil
	})
}

// the table file and any sibling a crash or the harness may have left behind (<file>.tmp, …)
func removeAll(file string) {
	ms, _ := filepath.Glob(file + "*")
	for _, m := range ms {
		os.RemoveAll(m)
	}
}

// siblings: the table file and its siblings with their contents, to put the directory back
// before a child process is run a second time
type sibling struct {
	path string
	data []byte
}

func snapshotSiblings(file string) []sibling {
	var out []sibling
	ms, _ := filepath.Glob(file + "*")
	for _, m := range ms {
		if st, err := os.Stat(m); err == nil && st.Mode().IsRegular() {
			b, _ := readFile(m)
			out = append(out, sibling{m, b})
		}
	}
	return out
}

func restoreSiblings(file string, snap []sibling) {
	removeAll(file)
	for _, s := range snap {
		writeFile(s.path, s.data)
	}
}

// scratchDir: a private directory for the table files.  Several places are tried, each several
// times; only when none of them works does the harness give up.
func scratchDir() string {
	var last error
	for round := 0; round < 5; round++ {
		for _, base := range []string{"", "/verif/.build", "/tmp", "."} {
			if base != "" {
				if st, err := os.Stat(base); err != nil || !st.IsDir() {
					continue
				}
			}
			d, err := ioutil.TempDir(base, "verif-c18-")
			if err == nil {
				return d
			}
			last = err
		}
		time.Sleep(time.Duration(200<<uint(round)) * time.Millisecond)
	}
	Fatal("no scratch directory can be created (tried $TMPDIR, /verif/.build, /tmp, .): %v", last)
	return ""
}
