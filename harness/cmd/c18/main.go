package main

import (
	"bytes"
	"encoding/json"
	"fmt"
	"io/ioutil"
	"net/url"
	"os"
	"os/exec"
	"path/filepath"
	"strconv"
	"strings"
	"syscall"

	. "verifharness/hlib"

	"github.com/cnotch/ipchub/provider/auth"
	"github.com/cnotch/ipchub/provider/route"
	"github.com/cnotch/ipchub/utils"
	"github.com/cnotch/xlog"
)

// C18: users and routes survive edits, reloads and crashes.
// Implementation: the real global tables (auth.Reset/Save/Del/Get/All/Flush, route.…) on the real
// JSON providers (auth.JSON / route.JSON configured with a file in a scratch directory; a
// spying wrapper records what Flush hands to the provider), restarts = Reset from the file,
// crashes = a child process (this binary re-executed) that kills itself with SIGKILL at a
// verif crash point inside utils.EncodeJSONFile.
func main() {
	if job := os.Getenv("VERIF_C18_CHILD"); job != "" {
		childMain(job)
		return
	}
	Main("C18", runC18)
}

// ---------------------------------------------------------------- ops
type op struct {
	kind           byte // s d g a f r x
	key            string
	pw, push, pull string // users
	admin, upd     bool
	url            string // routes
	ka             bool
	disk           string // x
}

func hx(s string) string { return Hx([]byte(s)) }

func (o op) token(users bool) string {
	switch o.kind {
	case 's':
		if users {
			return fmt.Sprintf("s,%s,%s,%s,%s,%s,%s", hx(o.key), hx(o.pw), B01(o.admin), hx(o.push), hx(o.pull), B01(o.upd))
		}
		_, err := url.Parse(o.url)
		return fmt.Sprintf("s,%s,%s,%s,%s", hx(o.key), hx(o.url), B01(o.ka), B01(err == nil))
	case 'd', 'g':
		return fmt.Sprintf("%c,%s", o.kind, hx(o.key))
	case 'x':
		return "x," + o.disk
	default:
		return string(o.kind)
	}
}

func line(users bool, ops []op) string {
	t := make([]string, len(ops))
	for i, o := range ops {
		t[i] = o.token(users)
	}
	k := "routes"
	if users {
		k = "users"
	}
	return "c18 " + k + " " + strings.Join(t, " ")
}

func parseLine(l string) (users bool, ops []op, ok bool) {
	f := strings.Fields(l)
	if len(f) < 2 || f[0] != "c18" || (f[1] != "users" && f[1] != "routes") {
		return false, nil, false
	}
	users = f[1] == "users"
	for _, t := range f[2:] {
		p := strings.Split(t, ",")
		u := func(i int) string { return string(Unhx(p[i])) }
		switch {
		case p[0] == "s" && users && len(p) == 7:
			ops = append(ops, op{kind: 's', key: u(1), pw: u(2), admin: p[3] == "1", push: u(4), pull: u(5), upd: p[6] == "1"})
		case p[0] == "s" && !users && len(p) == 5:
			ops = append(ops, op{kind: 's', key: u(1), url: u(2), ka: p[3] == "1"})
		case (p[0] == "d" || p[0] == "g") && len(p) == 2:
			ops = append(ops, op{kind: p[0][0], key: u(1)})
		case p[0] == "x" && len(p) == 2:
			ops = append(ops, op{kind: 'x', disk: p[1]})
		case len(p) == 1 && len(p[0]) == 1 && strings.Contains("afr", p[0]):
			ops = append(ops, op{kind: p[0][0]})
		default:
			return false, nil, false
		}
	}
	return users, ops, true
}

// ---------------------------------------------------------------- the real tables behind one interface
type flushRec struct {
	called               bool
	full, saves, removes string
}

type userSpy struct {
	inner auth.UserProvider
	rec   *flushRec
}

func fmtUser(u *auth.User) string {
	return fmt.Sprintf("%s,%s,%s,%s,%s", hx(u.Name), hx(u.Password), B01(u.Admin), hx(u.PushAccess), hx(u.PullAccess))
}
func fmtUsers(us []*auth.User) string {
	if len(us) == 0 {
		return "[]"
	}
	s := make([]string, len(us))
	for i, u := range us {
		s[i] = fmtUser(u)
	}
	return strings.Join(s, "+")
}
func userKeys(us []*auth.User) string {
	if len(us) == 0 {
		return "[]"
	}
	s := make([]string, len(us))
	for i, u := range us {
		s[i] = hx(u.Name)
	}
	return strings.Join(s, "+")
}
func (p userSpy) LoadAll() ([]*auth.User, error) { return p.inner.LoadAll() }
func (p userSpy) Flush(full, saves, removes []*auth.User) error {
	*p.rec = flushRec{true, fmtUsers(full), userKeys(saves), userKeys(removes)}
	return p.inner.Flush(full, saves, removes)
}

type routeSpy struct {
	inner route.Provider
	rec   *flushRec
}

func fmtRoute(r *route.Route) string {
	return fmt.Sprintf("%s,%s,%s", hx(r.Pattern), hx(r.URL), B01(r.KeepAlive))
}
func fmtRoutes(rs []*route.Route) string {
	if len(rs) == 0 {
		return "[]"
	}
	s := make([]string, len(rs))
	for i, r := range rs {
		s[i] = fmtRoute(r)
	}
	return strings.Join(s, "+")
}
func routeKeys(rs []*route.Route) string {
	if len(rs) == 0 {
		return "[]"
	}
	s := make([]string, len(rs))
	for i, r := range rs {
		s[i] = hx(r.Pattern)
	}
	return strings.Join(s, "+")
}
func (p routeSpy) LoadAll() ([]*route.Route, error) { return p.inner.LoadAll() }
func (p routeSpy) Flush(full, saves, removes []*route.Route) error {
	*p.rec = flushRec{true, fmtRoutes(full), routeKeys(saves), routeKeys(removes)}
	return p.inner.Flush(full, saves, removes)
}

type table struct {
	users bool
	file  string
	rec   flushRec
}

// restart: a server start — configure the JSON provider with the file and Reset the table from it
func (t *table) restart() (res string) {
	defer func() {
		if x := recover(); x != nil {
			res = "panic"
		}
	}()
	cfg := map[string]interface{}{"file": t.file}
	if t.users {
		if err := auth.JSON.Configure(cfg); err != nil {
			return "cfgerr"
		}
		auth.Reset(userSpy{auth.JSON, &t.rec})
	} else {
		if err := route.JSON.Configure(cfg); err != nil {
			return "cfgerr"
		}
		route.Reset(routeSpy{route.JSON, &t.rec})
	}
	return "ok"
}

func (t *table) apply(o op) (res string) {
	defer func() {
		if x := recover(); x != nil {
			res = "panic"
		}
	}()
	ok := func(err error) string {
		if err != nil {
			return "err"
		}
		return "ok"
	}
	switch o.kind {
	case 's':
		if t.users {
			return ok(auth.Save(&auth.User{Name: o.key, Password: o.pw, Admin: o.admin, PushAccess: o.push, PullAccess: o.pull}, o.upd))
		}
		return ok(route.Save(&route.Route{Pattern: o.key, URL: o.url, KeepAlive: o.ka}))
	case 'd':
		if t.users {
			return ok(auth.Del(o.key))
		}
		return ok(route.Del(o.key))
	case 'g':
		if t.users {
			if u := auth.Get(o.key); u != nil {
				return "F:" + fmtUser(u)
			}
			return "none"
		}
		if r := route.Get(o.key); r != nil {
			return "F:" + fmtRoute(r)
		}
		return "none"
	case 'a':
		if t.users {
			return fmtUsers(auth.All())
		}
		return fmtRoutes(route.All())
	case 'f':
		t.rec = flushRec{}
		var err error
		if t.users {
			err = auth.Flush()
		} else {
			err = route.Flush()
		}
		if err != nil {
			return "err"
		}
		if !t.rec.called {
			return "skip"
		}
		return fmt.Sprintf("W:%s;S:%s;R:%s", t.rec.full, t.rec.saves, t.rec.removes)
	case 'r':
		return t.restart()
	case 'x':
		switch o.disk {
		case "missing":
			os.Remove(t.file)
		case "emptylist":
			ioutil.WriteFile(t.file, []byte("[]"), 0644)
		case "corrupt-empty":
			ioutil.WriteFile(t.file, nil, 0644)
		default:
			if strings.HasPrefix(o.disk, "T:") {
				ioutil.WriteFile(t.file, handWritten(t.users, o.disk[2:]), 0644)
				return "ok"
			}
			ioutil.WriteFile(t.file, []byte("[\n\t{\n\t\t\"name\": \"adm"), 0644)
		}
		return "ok"
	}
	return "?"
}

// a table file written by hand (not by Flush): entries "+"-separated, fields "."-separated, hex
func handWritten(users bool, body string) []byte {
	var list []map[string]interface{}
	if body != "" {
		for _, e := range strings.Split(body, "+") {
			f := strings.Split(e, ".")
			u := func(i int) string { return string(Unhx(f[i])) }
			if users {
				list = append(list, map[string]interface{}{"name": u(0), "password": u(1), "admin": f[2] == "1", "push": u(3), "pull": u(4)})
			} else {
				list = append(list, map[string]interface{}{"pattern": u(0), "url": u(1), "keepalive": f[2] == "1"})
			}
		}
	}
	b, _ := json.MarshalIndent(list, "", "  ")
	if list == nil {
		b = []byte("[]")
	}
	return b
}

func genHandWritten(c *Ctx, users bool) (string, []string) {
	r := c.Rng
	n := 1 + r.Intn(4)
	var es, keys []string
	seen := map[string]bool{}
	for i := 0; i < n; i++ {
		if users {
			k := userNames[r.Intn(len(userNames))]
			if seen[strings.ToLower(k)] && !r.Chance(10) {
				continue
			}
			seen[strings.ToLower(k)] = true
			keys = append(keys, k)
			es = append(es, strings.Join([]string{hx(k), hx(passwords[r.Intn(len(passwords))]), B01(r.Chance(40)), hx(rights[r.Intn(len(rights))]), hx(rights[r.Intn(len(rights))])}, "."))
		} else {
			k := routePatterns[r.Intn(len(routePatterns))]
			ck := utils.CanonicalPath(k)
			if seen[ck] && !r.Chance(10) {
				continue
			}
			seen[ck] = true
			keys = append(keys, k)
			u := routeURLs[r.Intn(len(routeURLs))]
			_, err := url.Parse(u)
			es = append(es, strings.Join([]string{hx(k), hx(u), B01(r.Chance(30)), B01(err == nil)}, "."))
		}
	}
	return "T:" + strings.Join(es, "+"), keys
}

// ---------------------------------------------------------------- crash child
type childJob struct {
	Users   bool   `json:"users"`
	File    string `json:"file"`
	Line    string `json:"line"`
	Hook    string `json:"hook"`
	Partial int    `json:"partial"` // -1: none
	Raw     string `json:"raw"`     // replay of a recorded crash line: hex of the JSON text to write with utils.EncodeJSONFile
}

func childMain(job string) {
	var j childJob
	if err := json.Unmarshal([]byte(job), &j); err != nil {
		os.Exit(4)
	}
	xlog.ReplaceGlobal(xlog.New(xlog.NewNopCore()))
	t := &table{users: j.Users, file: j.File}
	if j.Raw == "" {
		_, ops, ok := parseLine(j.Line)
		if !ok {
			os.Exit(4)
		}
		if t.restart() != "ok" {
			os.Exit(5)
		}
		for _, o := range ops {
			t.apply(o)
		}
	}
	utils.VerifIOHook = func(point string, f *os.File, pending []byte) {
		if point != j.Hook {
			return
		}
		if j.Partial >= 0 && pending != nil && f != nil {
			n := j.Partial
			if n > len(pending) {
				n = len(pending)
			}
			f.Write(pending[:n]) // the write in progress got n bytes out
		}
		syscall.Kill(os.Getpid(), syscall.SIGKILL)
		select {}
	}
	if j.Raw != "" {
		// Marshal + Indent of a RawMessage reproduces the recorded text
		utils.EncodeJSONFile(j.File, json.RawMessage(Unhx(j.Raw)))
	} else {
		t.apply(op{kind: 'f'})
	}
	os.Exit(0) // the crash point was never reached
}

func runChild(j childJob) (killed bool, err error) {
	b, _ := json.Marshal(j)
	cmd := exec.Command(os.Args[0])
	cmd.Env = append(os.Environ(), "VERIF_C18_CHILD="+string(b))
	e := cmd.Run()
	if e == nil {
		return false, nil
	}
	if ee, ok := e.(*exec.ExitError); ok {
		if ws, ok := ee.Sys().(syscall.WaitStatus); ok && ws.Signaled() && ws.Signal() == syscall.SIGKILL {
			return true, nil
		}
	}
	return false, e
}

// ---------------------------------------------------------------- generators
var userNames = []string{"bob", "Bob", "BOB", "alice", "Alice", "admin", "ADMIN", "carol", "", "bob ", " bob", "a\"b", "a\\b", "<&>", "x\ty"}
var passwords = []string{"", "pw", "secret", "0123456789abcdef0123456789abcdef", "p\"q", "line1\nline2", "pw2"}
var rights = []string{"", "", "*", "/a/+", "/a;/b", "/live/*", "/cam/+/hd"}
var routePatterns = []string{"/a", "/a/", "/A/", "/a/b", "/a/b/", "/", "a", "a/", " /a/ ", "/a//b", "/a/./b/", "/a/../b", "/a /.", "/x/. /.", "/b /a/.. /.", "", "/c/d/"}
var routeURLs = []string{"rtsp://h/x", "rtsp://h/x/", "rtsp://h", "rtsp://h:554/live/", "http://u:p@h/q?x=1&y=<2>", "", "rtsp://h/%zz", ":bad", "rtsp://h/\x7f"}

func genOps(c *Ctx, users bool, n int, withReload bool) []op {
	r := c.Rng
	var ops []op
	var known []string
	mut := func() op {
		if len(known) > 0 && r.Chance(25) {
			k := known[r.Intn(len(known))]
			if r.Chance(30) {
				k = strings.ToUpper(k)
			}
			return op{kind: 'd', key: k}
		}
		var k string
		if users {
			k = userNames[r.Intn(len(userNames))]
			if r.Chance(60) {
				k = userNames[r.Intn(8)]
			}
		} else {
			k = routePatterns[r.Intn(len(routePatterns))]
		}
		if len(known) > 0 && r.Chance(30) {
			k = known[r.Intn(len(known))] // update (possibly in another spelling)
			if r.Chance(30) {
				k = strings.ToUpper(k)
			}
		}
		known = append(known, k)
		if users {
			return op{kind: 's', key: k, pw: passwords[r.Intn(len(passwords))], admin: r.Chance(30), push: rights[r.Intn(len(rights))],
				pull: rights[r.Intn(len(rights))], upd: r.Chance(40)}
		}
		u := routeURLs[r.Intn(len(routeURLs))]
		if r.Chance(70) {
			u = routeURLs[r.Intn(5)]
		}
		return op{kind: 's', key: k, url: u, ka: r.Chance(30)}
	}
	for i := 0; i < n; i++ {
		ops = append(ops, mut())
		switch {
		case r.Chance(15):
			ops = append(ops, op{kind: 'a'})
		case r.Chance(15) && len(known) > 0:
			k := known[r.Intn(len(known))]
			if r.Chance(30) {
				k = strings.ToUpper(k)
			}
			ops = append(ops, op{kind: 'g', key: k})
		}
		if withReload {
			switch {
			case r.Chance(22):
				ops = append(ops, op{kind: 'f'})
				if r.Chance(60) {
					ops = append(ops, op{kind: 'r'}, op{kind: 'a'})
				}
				if r.Chance(25) {
					ops = append(ops, op{kind: 'f'}) // nothing pending: must be skipped
				}
			case r.Chance(6):
				ops = append(ops, op{kind: 'r'}, op{kind: 'a'}) // restart without flush: back to the persisted table
			}
		}
	}
	if withReload {
		ops = append(ops, op{kind: 'a'}, op{kind: 'f'}, op{kind: 'r'}, op{kind: 'a'})
		for _, k := range known {
			if r.Chance(30) {
				ops = append(ops, op{kind: 'g', key: k})
			}
		}
		if r.Chance(12) {
			ops = append(ops, op{kind: 'x', disk: []string{"missing", "emptylist", "corrupt-empty", "corrupt-trunc"}[r.Intn(4)]}, op{kind: 'r'}, op{kind: 'a'})
		} else if r.Chance(15) {
			// a table file written by hand (upper-case names, non-canonical patterns, administrators without rights)
			d, keys := genHandWritten(c, users)
			ops = append(ops, op{kind: 'x', disk: d}, op{kind: 'r'}, op{kind: 'a'})
			for _, k := range keys {
				ops = append(ops, op{kind: 'g', key: k})
			}
		}
	} else {
		ops = append(ops, op{kind: 'a'})
	}
	return ops
}

// ---------------------------------------------------------------- classification
func classify(users bool, ops []op, i int) string {
	k := "routes"
	if users {
		k = "users"
	}
	reloaded := false
	for _, o := range ops[:i] {
		if o.kind == 'r' {
			reloaded = true
		}
	}
	name := map[byte]string{'s': "save", 'd': "del", 'g': "get", 'a': "all", 'f': "flush", 'r': "restart", 'x': "setdisk"}[ops[i].kind]
	if reloaded {
		return k + "-" + name + "-after-restart"
	}
	return k + "-" + name
}

func crashClass(outcome string, hadOld bool) string {
	switch {
	case outcome == "missing":
		return "flush-crash-file-missing"
	case outcome == "other:-":
		return "flush-crash-empty-file"
	case strings.HasPrefix(outcome, "other:"):
		return "flush-crash-partial-file"
	}
	return "flush-crash-" + outcome
}

func partStr(n int) string {
	if n < 0 {
		return "-"
	}
	return strconv.Itoa(n)
}

func oldStr(had bool, old []byte) string {
	if !had {
		return "none"
	}
	return Hx(old)
}

// what a restart finds in the table file after the child died
func crashOutcome(file string, killed, hadOld bool, old, new []byte) string {
	got, rerr := ioutil.ReadFile(file)
	switch {
	case !killed:
		return "no-such-hook"
	case rerr != nil:
		return "missing"
	case hadOld && bytes.Equal(got, old):
		return "old"
	case bytes.Equal(got, new):
		return "new"
	}
	return "other:" + Hx(got)
}

// the table file and any temporary sibling a crash may have left behind
func removeAll(file string) {
	ms, _ := filepath.Glob(file + "*")
	for _, m := range ms {
		os.Remove(m)
	}
}

// ---------------------------------------------------------------- run
func runC18(c *Ctx) {
	xlog.ReplaceGlobal(xlog.New(xlog.NewNopCore()))
	dir, err := ioutil.TempDir("", "verif-c18-")
	if err != nil {
		Fatal("tempdir: %v", err)
	}
	defer os.RemoveAll(dir)

	type tcase struct {
		users bool
		ops   []op
	}
	var cases []tcase
	var rawCrash [][]string
	for _, l := range c.CorpusLines() {
		if u, ops, ok := parseLine(l); ok {
			cases = append(cases, tcase{u, ops})
		} else if f := strings.Fields(l); len(f) == 6 && f[0] == "c18" && f[1] == "crash" {
			rawCrash = append(rawCrash, f)
		}
	}
	if c.Replay == "" {
		n := c.Budget(2500, 40000)
		for i := 0; i < n; i++ {
			users := i%2 == 0
			cases = append(cases, tcase{users, genOps(c, users, 1+c.Rng.Intn(9), true)})
		}
	}
	lines := make([]string, len(cases))
	for i, k := range cases {
		lines[i] = line(k.users, k.ops)
	}

	// ---- crash cases: (setup history, flushed) then (second history, flush killed at a crash point)
	type ccase struct {
		users    bool
		h1, h2   []op
		hook     string
		partial  int
		old, new []byte
		hadOld   bool
		outcome  string
		line     string
		raw      bool
	}
	var crashes []*ccase
	hooks := []string{"opened", "before-write", "written", "synced", "renamed"}
	ncr := c.Budget(160, 1500)
	if c.Replay != "" {
		ncr = 0
	}
	for i := 0; i < ncr; i++ {
		users := i%2 == 0
		cc := &ccase{users: users, partial: -1}
		if c.Rng.Chance(85) {
			cc.h1 = genOps(c, users, 1+c.Rng.Intn(5), false)
		}
		cc.h2 = genOps(c, users, 1+c.Rng.Intn(4), false)
		// make sure something is pending for the second flush
		if users {
			cc.h2 = append(cc.h2, op{kind: 's', key: fmt.Sprintf("u%d", i), pw: "pw", upd: true})
		} else {
			cc.h2 = append(cc.h2, op{kind: 's', key: fmt.Sprintf("/r%d/", i), url: "rtsp://h/x"})
		}
		cc.hook = hooks[i%len(hooks)]
		crashes = append(crashes, cc)
	}
	for _, f := range rawCrash {
		cc := &ccase{raw: true, hook: f[2], partial: -1, new: Unhx(f[5])}
		if n, err := strconv.Atoi(f[3]); err == nil {
			cc.partial = n
		}
		if f[4] != "none" {
			cc.old, cc.hadOld = Unhx(f[4]), true
		}
		crashes = append(crashes, cc)
	}
	for i, cc := range crashes {
		file := filepath.Join(dir, fmt.Sprintf("crash-%d.json", i))
		if cc.raw {
			if cc.hadOld {
				ioutil.WriteFile(file, cc.old, 0644)
			}
			killed, err := runChild(childJob{File: file, Hook: cc.hook, Partial: cc.partial, Raw: Hx(cc.new)})
			if err != nil {
				Fatal("crash child: %v", err)
			}
			cc.outcome = crashOutcome(file, killed, cc.hadOld, cc.old, cc.new)
			cc.line = strings.Join([]string{"c18", "crash", cc.hook, partStr(cc.partial), oldStr(cc.hadOld, cc.old), Hx(cc.new)}, " ")
			removeAll(file)
			continue
		}
		t := &table{users: cc.users, file: file}
		t.restart()
		for _, o := range cc.h1 {
			t.apply(o)
		}
		if len(cc.h1) > 0 {
			t.apply(op{kind: 'f'})
		}
		cc.old, err = ioutil.ReadFile(file)
		cc.hadOld = err == nil
		// the new content: the same second history, flushed without a crash, on a copy
		file2 := file + ".expected"
		if cc.hadOld {
			ioutil.WriteFile(file2, cc.old, 0644)
		}
		t2 := &table{users: cc.users, file: file2}
		t2.restart()
		for _, o := range cc.h2 {
			t2.apply(o)
		}
		t2.apply(op{kind: 'f'})
		cc.new, _ = ioutil.ReadFile(file2)
		os.Remove(file2)
		if cc.hook == "before-write" {
			// a write in progress: every length class
			switch (i / len(hooks)) % 5 {
			case 0:
				cc.partial = 0
			case 1:
				cc.partial = 1
			case 2:
				cc.partial = len(cc.new) / 2
			case 3:
				cc.partial = len(cc.new) - 1
			case 4:
				cc.partial = c.Rng.Intn(len(cc.new) + 1)
			}
		}
		killed, err := runChild(childJob{Users: cc.users, File: file, Line: line(cc.users, cc.h2), Hook: cc.hook, Partial: cc.partial})
		if err != nil {
			Fatal("crash child: %v", err)
		}
		cc.outcome = crashOutcome(file, killed, cc.hadOld, cc.old, cc.new)
		// a restart after the crash must come up (no panic) with the old or the new table
		if killed {
			t3 := &table{users: cc.users, file: file}
			if r := t3.restart(); r != "ok" {
				c.Count("restart-after-crash-" + r)
			} else {
				c.Count("restart-after-crash-ok")
			}
			if cc.users && cc.hadOld && cc.outcome == "missing" {
				c.Count("restart-fell-back-to-default-admin")
			}
			// the server comes back, the same edits are made again and flushed — with the dead
			// process's temporary file possibly still lying around: the file must now be the new table
			if (cc.hadOld && cc.outcome == "old") || (!cc.hadOld && cc.outcome == "missing") {
				if _, err := os.Stat(file + ".tmp"); err == nil {
					c.Count("stale-temp-present")
				}
				// either the same edits again, or edits that leave a much shorter table (the stale
				// temporary file is then longer than what is written now)
				again := cc.h2
				if i%2 == 1 {
					again = nil
					for _, o := range append(append([]op{}, cc.h1...), cc.h2...) {
						if o.kind == 's' {
							again = append(again, op{kind: 'd', key: o.key})
						}
					}
					if cc.users {
						again = append(again, op{kind: 'd', key: "admin"}, op{kind: 's', key: "z", pw: "p", upd: true})
					} else {
						again = append(again, op{kind: 's', key: "/z", url: "rtsp://h/z"})
					}
				}
				// expected: the same edits on a clean copy of the surviving file
				file4 := file + ".clean"
				if cc.hadOld {
					ioutil.WriteFile(file4, cc.old, 0644)
				}
				t4 := &table{users: cc.users, file: file4}
				t4.restart()
				for _, o := range again {
					t4.apply(o)
				}
				t4.apply(op{kind: 'f'})
				want, _ := ioutil.ReadFile(file4)
				removeAll(file4)
				t3.restart()
				for _, o := range again {
					t3.apply(o)
				}
				t3.apply(op{kind: 'f'})
				got, _ := ioutil.ReadFile(file)
				if bytes.Equal(got, want) {
					c.Count("reflush-after-crash-ok")
					if len(want) < len(cc.new) {
						c.Count("reflush-shorter-than-stale-temp")
					}
				} else {
					c.Find(Finding{Kind: "oracle", Class: "flush-after-crash-wrong", Case: line(cc.users, again), Impl: Hx(got), Spec: Hx(want),
						Detail: fmt.Sprintf("after a crash at %q (partial=%d) the same history was replayed and flushed", cc.hook, cc.partial)})
				}
			}
		}
		cc.line = fmt.Sprintf("c18 crash %s %s %s %s", cc.hook, partStr(cc.partial), oldStr(cc.hadOld, cc.old), Hx(cc.new))
		removeAll(file)
	}
	for _, cc := range crashes {
		lines = append(lines, cc.line)
	}

	outs := c.Drive(lines)
	c.Res.Rule = "table case = one history of Save/Del/Get/All/Flush/restart on the real users or routes table with the real JSON provider " +
		"(distinct by the op line; non-trivial when it contains a flush that writes and a restart); crash case = (flushed history, second history, " +
		"crash point inside EncodeJSONFile, bytes of a write in progress), run in a child process that SIGKILLs itself"

	for i, k := range cases {
		file := filepath.Join(dir, fmt.Sprintf("t-%d.json", i))
		t := &table{users: k.users, file: file}
		impl := make([]string, len(k.ops))
		t.restart() // first start: no file
		for j, o := range k.ops {
			impl[j] = t.apply(o)
		}
		os.Remove(file)
		kv := KV(outs[i])
		model := strings.Split(kv["model"], "|")
		spec := strings.Split(kv["spec"], "|")
		if len(model) != len(k.ops) || len(spec) != len(k.ops) {
			c.Find(Finding{Kind: "corr", Class: "driver-output", Case: lines[i], Impl: strings.Join(impl, "|"), Model: outs[i]})
			continue
		}
		wrote, restarted := false, false
		kind := "routes"
		if k.users {
			kind = "users"
		}
		for j, o := range k.ops {
			c.Count(kind + "-op-" + string(o.kind))
			if o.kind == 'f' {
				if strings.HasPrefix(impl[j], "W:") {
					wrote = true
					c.Count("flush-writes")
				} else {
					c.Count("flush-" + impl[j])
				}
			}
			if o.kind == 'x' {
				if strings.HasPrefix(o.disk, "T:") {
					c.Count("file-hand-written")
				} else {
					c.Count("file-" + o.disk)
				}
			}
			if o.kind == 'r' {
				restarted = true
				c.Count("restart-" + impl[j])
			}
			if o.kind == 's' && impl[j] == "err" {
				c.Count("save-rejected")
			}
			if impl[j] != model[j] {
				c.Find(Finding{Kind: "corr", Class: kind + "-op-" + string(o.kind), Case: lines[i], Impl: impl[j], Model: model[j], Spec: spec[j],
					Detail: fmt.Sprintf("op #%d %s", j, o.token(k.users))})
			}
			if spec[j] != "-" && impl[j] != spec[j] {
				c.Find(Finding{Kind: "oracle", Class: classify(k.users, k.ops, j), Case: lines[i], Impl: impl[j], Model: model[j], Spec: spec[j],
					Detail: fmt.Sprintf("op #%d %s", j, o.token(k.users))})
			}
		}
		c.Eval(lines[i], wrote && restarted)
		if i%(len(cases)/6+1) == 0 {
			c.Sample(fmt.Sprintf("%s → impl=%s", lines[i], strings.Join(impl, "|")))
		}
	}
	for i, cc := range crashes {
		out := outs[len(cases)+i]
		c.Count("crash-at-" + cc.hook)
		if cc.partial >= 0 {
			switch {
			case cc.partial == 0:
				c.Count("partial-write-0")
			case cc.partial == len(cc.new):
				c.Count("partial-write-all")
			default:
				c.Count("partial-write-some")
			}
		}
		if !cc.hadOld {
			c.Count("crash-on-first-flush")
		}
		short := cc.outcome
		if strings.HasPrefix(short, "other:") {
			short = "other"
		}
		c.Count("crash-outcome-" + short)
		c.Eval(cc.line+fmt.Sprint(i), cc.outcome != "no-such-hook")
		if i%(len(crashes)/4+1) == 0 {
			c.Sample(fmt.Sprintf("crash at %s partial=%d |old|=%d |new|=%d → file is %s", cc.hook, cc.partial, len(cc.old), len(cc.new), short))
		}
		if out != cc.outcome {
			c.Find(Finding{Kind: "corr", Class: "crash-" + cc.hook, Case: cc.line, Impl: cc.outcome, Model: out,
				Detail: fmt.Sprintf("second history: %s", line(cc.users, cc.h2))})
		}
		if cc.outcome == "no-such-hook" {
			continue
		}
		okOutcome := cc.outcome == "new" || (cc.hadOld && cc.outcome == "old") || (!cc.hadOld && cc.outcome == "missing")
		if !okOutcome {
			c.Find(Finding{Kind: "oracle", Class: crashClass(cc.outcome, cc.hadOld), Case: cc.line, Impl: cc.outcome, Model: out,
				Spec: "old|new", Detail: fmt.Sprintf("crash point %q partial=%d; second history: %s", cc.hook, cc.partial, line(cc.users, cc.h2))})
		}
	}
}
