package main

import (
	"bytes"
	"encoding/json"
	"errors"
	"fmt"
	"net/url"
	"os"
	"path/filepath"
	"strconv"
	"strings"
	"time"

	. "verifharness/hlib"

	"github.com/cnotch/ipchub/provider/auth"
	"github.com/cnotch/ipchub/provider/route"
	"github.com/cnotch/ipchub/utils"
	"github.com/cnotch/xlog"
)

// C18: users and routes survive edits, reloads and crashes.
// Implementation: the real global tables (auth.Reset/Save/Del/Get/All/Flush, route.…) on the real
// JSON providers (auth.JSON / route.JSON configured with a file in a scratch directory; a
// spying wrapper records what Flush hands to the provider and can make the provider fail),
// restarts = Reset from the file, crashes = a child process (this binary re-executed) that
// brings its tables into the parent's state and kills itself with SIGKILL at a verif crash
// point inside utils.EncodeJSONFile.  (child.go: processes and watchdogs; env.go: the harness's
// own file handling.)
func main() {
	if job := os.Getenv("VERIF_C18_CHILD"); job != "" {
		childMain(job)
		return
	}
	Main("C18", runC18)
}

// watchdog budgets: generous, they cost nothing when the answer arrives.  VERIF_C18_WATCHDOG_SCALE
// (a divisor) exists only so that the mutation self-test of the watchdogs does not take an hour.
var wdCase, wdChild, wdLong = 90 * time.Second, 120 * time.Second, 600 * time.Second

func init() {
	if n, err := strconv.Atoi(os.Getenv("VERIF_C18_WATCHDOG_SCALE")); err == nil && n > 1 {
		wdCase, wdChild, wdLong = wdCase/time.Duration(n), wdChild/time.Duration(n), wdLong/time.Duration(n)
	}
}

// ---------------------------------------------------------------- ops
type op struct {
	kind           byte // s d g a f r x  e E R (flush while the provider fails / the table file cannot be opened / cannot be renamed into place)  k (flush that dies, then restart)  c (flush during which an edit arrives)
	key            string
	pw, push, pull string // users
	admin, upd     bool
	url            string // routes
	ka             bool
	disk           string // x
	hook, part     string // k: crash point; bytes of the write in progress: - 0 1 h m a
	edit           *op    // c: the Save / Del issued from another goroutine when the flush has reached `hook`
}

func hx(s string) string { return Hx([]byte(s)) }

func (o op) token(users bool) string {
	switch o.kind {
	case 's':
		if users {
			return fmt.Sprintf("s,%s,%s,%s,%s,%s,%s", hx(o.key), hx(o.pw), B01(o.admin), hx(o.push), hx(o.pull), B01(o.upd))
		}
		_, err := url.Parse(o.url)
		return fmt.Sprintf("s,%s,%s,%s,%s", hx(o.key), hx(o.url), B01(o.ka), B01(err == nil))
	case 'd', 'g':
		return fmt.Sprintf("%c,%s", o.kind, hx(o.key))
	case 'x':
		return "x," + o.disk
	case 'k':
		return "k," + o.hook + "," + o.part
	case 'c':
		return "c," + o.hook + "," + o.edit.token(users)
	default:
		return string(o.kind)
	}
}

func kindName(users bool) string {
	if users {
		return "users"
	}
	return "routes"
}

func line(users bool, ops []op) string {
	t := make([]string, len(ops))
	for i, o := range ops {
		t[i] = o.token(users)
	}
	return "c18 " + kindName(users) + " " + strings.Join(t, " ")
}

var partClasses = "-01hma"

func parseLine(l string) (users bool, ops []op, ok bool) {
	f := strings.Fields(l)
	if len(f) < 2 || f[0] != "c18" || (f[1] != "users" && f[1] != "routes") {
		return false, nil, false
	}
	users = f[1] == "users"
	for _, t := range f[2:] {
		if t == "@" { // what follows are observations handed to the driver, not input
			break
		}
		p := strings.Split(t, ",")
		var during string
		if p[0] == "c" && len(p) >= 4 && (p[2] == "s" || p[2] == "d") {
			during, p = p[1], p[2:]
		}
		u := func(i int) string { return string(Unhx(p[i])) }
		if during != "" {
			n := len(ops)
			switch {
			case p[0] == "s" && users && len(p) == 7:
				ops = append(ops, op{kind: 'c', hook: during, edit: &op{kind: 's', key: u(1), pw: u(2), admin: p[3] == "1", push: u(4), pull: u(5), upd: p[6] == "1"}})
			case p[0] == "s" && !users && len(p) == 5:
				ops = append(ops, op{kind: 'c', hook: during, edit: &op{kind: 's', key: u(1), url: u(2), ka: p[3] == "1"}})
			case p[0] == "d" && len(p) == 2:
				ops = append(ops, op{kind: 'c', hook: during, edit: &op{kind: 'd', key: u(1)}})
			}
			if len(ops) == n {
				return false, nil, false
			}
			continue
		}
		switch {
		case p[0] == "s" && users && len(p) == 7:
			ops = append(ops, op{kind: 's', key: u(1), pw: u(2), admin: p[3] == "1", push: u(4), pull: u(5), upd: p[6] == "1"})
		case p[0] == "s" && !users && len(p) == 5:
			ops = append(ops, op{kind: 's', key: u(1), url: u(2), ka: p[3] == "1"})
		case (p[0] == "d" || p[0] == "g") && len(p) == 2:
			ops = append(ops, op{kind: p[0][0], key: u(1)})
		case p[0] == "x" && len(p) == 2:
			ops = append(ops, op{kind: 'x', disk: p[1]})
		case p[0] == "k" && len(p) == 3 && len(p[2]) == 1 && strings.Contains(partClasses, p[2]):
			ops = append(ops, op{kind: 'k', hook: p[1], part: p[2]})
		case len(p) == 1 && len(p[0]) == 1 && strings.Contains("afreER", p[0]):
			ops = append(ops, op{kind: p[0][0]})
		default:
			return false, nil, false
		}
	}
	return users, ops, true
}

// ---------------------------------------------------------------- the real tables behind one interface
type flushRec struct {
	called               bool
	fail                 bool // the provider refuses (returns an error without writing)
	full, saves, removes string
}

var errProviderDown = errors.New("verif: provider refuses to flush")

type userSpy struct {
	inner auth.UserProvider
	rec   *flushRec
}

func fmtUser(u *auth.User) string {
	return fmt.Sprintf("%s,%s,%s,%s,%s", hx(u.Name), hx(u.Password), B01(u.Admin), hx(u.PushAccess), hx(u.PullAccess))
}
func fmtUsers(us []*auth.User) string {
	if len(us) == 0 {
		return "[]"
	}
	s := make([]string, len(us))
	for i, u := range us {
		s[i] = fmtUser(u)
	}
	return strings.Join(s, "+")
}
func userKeys(us []*auth.User) string {
	if len(us) == 0 {
		return "[]"
	}
	s := make([]string, len(us))
	for i, u := range us {
		s[i] = hx(u.Name)
	}
	return strings.Join(s, "+")
}
func (p userSpy) LoadAll() ([]*auth.User, error) { return p.inner.LoadAll() }
func (p userSpy) Flush(full, saves, removes []*auth.User) error {
	p.rec.called, p.rec.full, p.rec.saves, p.rec.removes = true, fmtUsers(full), userKeys(saves), userKeys(removes)
	if p.rec.fail {
		return errProviderDown
	}
	return p.inner.Flush(full, saves, removes)
}

type routeSpy struct {
	inner route.Provider
	rec   *flushRec
}

func fmtRoute(r *route.Route) string {
	return fmt.Sprintf("%s,%s,%s", hx(r.Pattern), hx(r.URL), B01(r.KeepAlive))
}
func fmtRoutes(rs []*route.Route) string {
	if len(rs) == 0 {
		return "[]"
	}
	s := make([]string, len(rs))
	for i, r := range rs {
		s[i] = fmtRoute(r)
	}
	return strings.Join(s, "+")
}
func routeKeys(rs []*route.Route) string {
	if len(rs) == 0 {
		return "[]"
	}
	s := make([]string, len(rs))
	for i, r := range rs {
		s[i] = hx(r.Pattern)
	}
	return strings.Join(s, "+")
}
func (p routeSpy) LoadAll() ([]*route.Route, error) { return p.inner.LoadAll() }
func (p routeSpy) Flush(full, saves, removes []*route.Route) error {
	p.rec.called, p.rec.full, p.rec.saves, p.rec.removes = true, fmtRoutes(full), routeKeys(saves), routeKeys(removes)
	if p.rec.fail {
		return errProviderDown
	}
	return p.inner.Flush(full, saves, removes)
}

// one server: the table kind, its file, and what is needed to bring a child process into the
// same state (the file as it was at the last start, and the operations since)
type table struct {
	users   bool
	file    string
	rec     flushRec
	snap    []byte
	hadSnap bool
	life    []op
	raws    []rawCrash // byte-level record of every crash of this history
	ann     []string   // observations for the specification, one per k / c op in order: outcome of a crash op ("o" old, "n" new, "x" neither); whether the edit of a c op took effect after the flush had returned ("b") or while it ran ("d")
}

func (t *table) configure(file string) string {
	cfg := map[string]interface{}{"file": file}
	var err error
	if t.users {
		err = auth.JSON.Configure(cfg)
	} else {
		err = route.JSON.Configure(cfg)
	}
	if err != nil {
		return "cfgerr"
	}
	return "ok"
}

// restart: a server start — configure the JSON provider with the file and Reset the table from it
func (t *table) restart() (res string) {
	t.snap, t.hadSnap = readFile(t.file)
	t.life = nil
	defer func() {
		if x := recover(); x != nil {
			if _, env := x.(envErr); env {
				panic(x)
			}
			res = "panic"
		}
	}()
	if t.configure(t.file) != "ok" {
		return "cfgerr"
	}
	if t.users {
		auth.Reset(userSpy{auth.JSON, &t.rec})
	} else {
		route.Reset(routeSpy{route.JSON, &t.rec})
	}
	return "ok"
}

func (t *table) flush() (res string) {
	t.rec.called = false
	var err error
	if t.users {
		err = auth.Flush()
	} else {
		err = route.Flush()
	}
	switch {
	case err != nil && t.rec.fail && err != errProviderDown:
		return "err-other"
	case err != nil:
		return "err"
	case !t.rec.called:
		return "skip"
	case t.rec.fail:
		return "ok-though-the-provider-failed"
	}
	return fmt.Sprintf("W:%s;S:%s;R:%s", t.rec.full, t.rec.saves, t.rec.removes)
}

func (t *table) apply(o op) (res string) {
	if o.kind != 'r' && o.kind != 'k' {
		t.life = append(t.life, o)
	}
	defer func() {
		if x := recover(); x != nil {
			if _, env := x.(envErr); env {
				panic(x)
			}
			res = "panic"
		}
	}()
	switch o.kind {
	case 's', 'd':
		return t.edit(o)
	case 'c':
		return t.flushDuring(o)
	case 'g':
		if t.users {
			if u := auth.Get(o.key); u != nil {
				return "F:" + fmtUser(u)
			}
			return "none"
		}
		if r := route.Get(o.key); r != nil {
			return "F:" + fmtRoute(r)
		}
		return "none"
	case 'a':
		if t.users {
			return fmtUsers(auth.All())
		}
		return fmtRoutes(route.All())
	case 'f':
		return t.flush()
	case 'e':
		// the provider is down: Flush must report it and keep the pending changes for the next Flush
		t.rec.fail = true
		defer func() { t.rec.fail = false }()
		return t.flush()
	case 'E':
		// the file system refuses: the table file lives in a directory that does not exist
		// (EncodeJSONFile fails at its first step); afterwards the configuration is put back
		before, had := readFile(t.file)
		if t.configure(filepath.Join(t.file+".nodir", "table.json")) != "ok" {
			return "cfgerr"
		}
		r := t.flush()
		t.configure(t.file)
		if after, has := readFile(t.file); has != had || !bytes.Equal(before, after) {
			return r + "+file-changed"
		}
		return r
	case 'R':
		// the file system refuses late: the table file's name is taken by a directory, so the temporary
		// file is written and synced but cannot be renamed into place (the last step of EncodeJSONFile fails)
		before, had := readFile(t.file)
		d := t.file + ".isdir"
		retry("mkdir "+d, func() error { return os.MkdirAll(filepath.Join(d, "occupied"), 0755) })
		if t.configure(d) != "ok" {
			return "cfgerr"
		}
		r := t.flush()
		t.configure(t.file)
		os.RemoveAll(d)
		os.Remove(d + ".tmp")
		if after, has := readFile(t.file); has != had || !bytes.Equal(before, after) {
			return r + "+file-changed"
		}
		return r
	case 'r':
		return t.restart()
	case 'x':
		switch o.disk {
		case "missing":
			removeFile(t.file)
		case "emptylist":
			writeFile(t.file, []byte("[]"))
		case "corrupt-empty":
			writeFile(t.file, nil)
		default:
			if strings.HasPrefix(o.disk, "T:") {
				writeFile(t.file, handWritten(t.users, o.disk[2:]))
				return "ok"
			}
			writeFile(t.file, []byte("[\n\t{\n\t\t\"name\": \"adm"))
		}
		return "ok"
	}
	return "?"
}

// edit: Save / Del on the real table
func (t *table) edit(o op) (res string) {
	defer func() {
		if x := recover(); x != nil {
			res = "panic"
		}
	}()
	ok := func(err error) string {
		if err != nil {
			return "err"
		}
		return "ok"
	}
	switch {
	case o.kind == 's' && t.users:
		return ok(auth.Save(&auth.User{Name: o.key, Password: o.pw, Admin: o.admin, PushAccess: o.push, PullAccess: o.pull}, o.upd))
	case o.kind == 's':
		return ok(route.Save(&route.Route{Pattern: o.key, URL: o.url, KeepAlive: o.ka}))
	case t.users:
		return ok(auth.Del(o.key))
	}
	return ok(route.Del(o.key))
}

// parkWait: how long a flush is held at a file-system step of EncodeJSONFile for the edit issued from
// another goroutine to complete.  Nothing is wrong when it does not: a table that keeps its lock
// over the flush makes the edit wait for the flush's return, and "the edit did not complete while
// the flush was parked" is then the answer — the time is spent, not judged.  (A table that lets the
// edit in needs microseconds; a machine too busy to schedule the goroutine within the wait only makes
// the edit land later, which no verdict depends on.)
var parkWait = 120 * time.Millisecond

// flushDuring: Flush is called; when it has reached the file-system step `hook` of EncodeJSONFile
// the edit is issued from another goroutine and the flush is parked there until the edit has
// completed or parkWait is over; then the flush goes on.  The edit is waited for in any case
// (without a budget of its own: the history's watchdog covers it).
//   C:blocked;<flush>;<edit>   the edit did not complete while the flush was parked (it waited for the table)
//   C:during;<flush>;<edit>    the edit completed while the flush was inside the provider
//   C:nohook;<flush>;<edit>    the flush never reached that step (nothing pending / no such step): the edit ran after it
func (t *table) flushDuring(o op) string {
	done := make(chan string, 1)
	issued, during, er := false, false, ""
	prev := utils.VerifIOHook
	utils.VerifIOHook = func(point string, f *os.File, pending []byte) {
		if point != o.hook || issued {
			return
		}
		issued = true
		go func() { done <- t.edit(*o.edit) }()
		select {
		case er = <-done:
			during = true
		case <-time.After(parkWait):
		}
	}
	fr := t.flush()
	utils.VerifIOHook = prev
	switch {
	case !issued:
		t.ann = append(t.ann, "b")
		return "C:nohook;" + fr + ";" + t.edit(*o.edit)
	case during:
		t.ann = append(t.ann, "d")
		return "C:during;" + fr + ";" + er
	}
	er = <-done
	t.ann = append(t.ann, "b")
	return "C:blocked;" + fr + ";" + er
}

// a table file written by hand (not by Flush): entries "+"-separated, fields "."-separated, hex
func handWritten(users bool, body string) []byte {
	var list []map[string]interface{}
	if body != "" {
		for _, e := range strings.Split(body, "+") {
			f := strings.Split(e, ".")
			u := func(i int) string { return string(Unhx(f[i])) }
			if users {
				list = append(list, map[string]interface{}{"name": u(0), "password": u(1), "admin": f[2] == "1", "push": u(3), "pull": u(4)})
			} else {
				list = append(list, map[string]interface{}{"pattern": u(0), "url": u(1), "keepalive": f[2] == "1"})
			}
		}
	}
	b, _ := json.MarshalIndent(list, "", "  ")
	if list == nil {
		b = []byte("[]")
	}
	return b
}

func genHandWritten(c *Ctx, users bool) (string, []string) {
	r := c.Rng
	n := 1 + r.Intn(4)
	var es, keys []string
	seen := map[string]bool{}
	for i := 0; i < n; i++ {
		if users {
			k := userNames[r.Intn(len(userNames))]
			if seen[strings.ToLower(k)] && !r.Chance(10) {
				continue
			}
			seen[strings.ToLower(k)] = true
			keys = append(keys, k)
			es = append(es, strings.Join([]string{hx(k), hx(passwords[r.Intn(len(passwords))]), B01(r.Chance(40)), hx(rights[r.Intn(len(rights))]), hx(rights[r.Intn(len(rights))])}, "."))
		} else {
			k := routePatterns[r.Intn(len(routePatterns))]
			ck := utils.CanonicalPath(k)
			if seen[ck] && !r.Chance(10) {
				continue
			}
			seen[ck] = true
			keys = append(keys, k)
			u := routeURLs[r.Intn(len(routeURLs))]
			_, err := url.Parse(u)
			es = append(es, strings.Join([]string{hx(k), hx(u), B01(r.Chance(30)), B01(err == nil)}, "."))
		}
	}
	return "T:" + strings.Join(es, "+"), keys
}

// ---------------------------------------------------------------- a flush that dies
type rawCrash struct {
	hook     string
	partial  int // -1: none
	old, new []byte
	hadOld   bool
	outcome  string
	derived  bool // recorded from a dying flush inside a history (which is the replay of any violation)
}

func (r rawCrash) line() string {
	return strings.Join([]string{"c18", "crash", r.hook, partStr(r.partial), oldStr(r.hadOld, r.old), Hx(r.new)}, " ")
}

func partBytes(class string, n int) int {
	switch class {
	case "0":
		return 0
	case "1":
		return 1
	case "h":
		return n / 2
	case "m":
		return n - 1
	case "a":
		return n
	}
	return -1
}

// crash: Flush is called and the process dies at the crash point; then the server is started again.
// The dying process is a child that starts from the file as it was at this server's start,
// repeats this server's operations on a private copy, and then flushes to the real file.
func (t *table) crash(o op) string {
	old, hadOld := readFile(t.file)
	before := snapshotSiblings(t.file)
	st := runChild(childJob{Kind: "crash", Users: t.users, File: t.file, Snap: Hx(t.snap), HadSnap: t.hadSnap,
		Line: line(t.users, t.life), Hook: o.hook, Part: o.part}, wdChild, func() { restoreSiblings(t.file, before) })
	// what the flush would have written: the same flush, completed, to a file of its own
	exp := t.file + ".expected"
	removeAll(exp)
	var res string
	if t.configure(exp) != "ok" {
		res = "cfgerr"
	} else {
		res = t.flush()
	}
	t.configure(t.file)
	new, _ := readFile(exp)
	removeAll(exp)
	outcome := ""
	switch {
	case st == "hung":
		outcome = "hung"
	case res == "skip" && st == "S":
		// nothing was pending: Flush returned without touching the file
		if got, has := readFile(t.file); has != hadOld || !bytes.Equal(got, old) {
			outcome = "other:" + Hx(got)
		} else {
			outcome = "skip"
		}
	case st == "K" && strings.HasPrefix(res, "W:"):
		n := partBytes(o.part, len(new))
		if o.hook != "before-write" {
			n = -1
		}
		rc := rawCrash{hook: o.hook, partial: n, old: old, new: new, hadOld: hadOld, derived: true}
		rc.outcome = crashOutcome(t.file, hadOld, old, new)
		t.raws = append(t.raws, rc)
		switch {
		case rc.outcome == "missing" && !hadOld:
			outcome = "old"
		case hadOld && bytes.Equal(old, new) && rc.outcome == "old":
			outcome = "same"
		default:
			outcome = rc.outcome
		}
	case st == "N":
		outcome = "no-such-hook"
	default:
		// the child and this process disagree on what the flush does (or it failed): reported as it is
		outcome = "child-" + st + "/flush-" + strings.SplitN(res, ":", 2)[0]
	}
	switch {
	case outcome == "old" || outcome == "skip":
		t.ann = append(t.ann, "o")
	case outcome == "new" || outcome == "same":
		t.ann = append(t.ann, "n")
	default:
		t.ann = append(t.ann, "x")
	}
	return "K:" + outcome + ";" + t.restart()
}

// one history on the real tables, from a first start without a file
func runHistory(t *table, ops []op) []string {
	impl := make([]string, len(ops))
	removeAll(t.file)
	t.restart()
	for j, o := range ops {
		if o.kind == 'k' {
			impl[j] = t.crash(o)
		} else {
			impl[j] = t.apply(o)
		}
	}
	removeAll(t.file)
	return impl
}

// ---------------------------------------------------------------- generators
var userNames = []string{"bob", "Bob", "BOB", "alice", "Alice", "admin", "ADMIN", "carol", "", "bob ", " bob", "a\"b", "a\\b", "<&>", "x\ty"}
var passwords = []string{"", "pw", "secret", "0123456789abcdef0123456789abcdef", "p\"q", "line1\nline2", "pw2"}
var rights = []string{"", "", "*", "/a/+", "/a;/b", "/live/*", "/cam/+/hd"}
var routePatterns = []string{"/a", "/a/", "/A/", "/a/b", "/a/b/", "/", "a", "a/", " /a/ ", "/a//b", "/a/./b/", "/a/../b", "/a /.", "/x/. /.", "/b /a/.. /.", "", "/c/d/"}
var routeURLs = []string{"rtsp://h/x", "rtsp://h/x/", "rtsp://h", "rtsp://h:554/live/", "http://u:p@h/q?x=1&y=<2>", "", "rtsp://h/%zz", ":bad", "rtsp://h/\x7f"}
var hooks = []string{"opened", "before-write", "written", "synced", "renamed"}

func genOps(c *Ctx, users bool, n int, withReload bool) []op {
	r := c.Rng
	var ops []op
	var known []string
	mut := func() op {
		if len(known) > 0 && r.Chance(25) {
			k := known[r.Intn(len(known))]
			if r.Chance(30) {
				k = strings.ToUpper(k)
			}
			return op{kind: 'd', key: k}
		}
		var k string
		if users {
			k = userNames[r.Intn(len(userNames))]
			if r.Chance(60) {
				k = userNames[r.Intn(8)]
			}
		} else {
			k = routePatterns[r.Intn(len(routePatterns))]
		}
		if len(known) > 0 && r.Chance(30) {
			k = known[r.Intn(len(known))] // update (possibly in another spelling)
			if r.Chance(30) {
				k = strings.ToUpper(k)
			}
		}
		known = append(known, k)
		if users {
			return op{kind: 's', key: k, pw: passwords[r.Intn(len(passwords))], admin: r.Chance(30), push: rights[r.Intn(len(rights))],
				pull: rights[r.Intn(len(rights))], upd: r.Chance(40)}
		}
		u := routeURLs[r.Intn(len(routeURLs))]
		if r.Chance(70) {
			u = routeURLs[r.Intn(5)]
		}
		return op{kind: 's', key: k, url: u, ka: r.Chance(30)}
	}
	for i := 0; i < n; i++ {
		ops = append(ops, mut())
		switch {
		case r.Chance(15):
			ops = append(ops, op{kind: 'a'})
		case r.Chance(15) && len(known) > 0:
			k := known[r.Intn(len(known))]
			if r.Chance(30) {
				k = strings.ToUpper(k)
			}
			ops = append(ops, op{kind: 'g', key: k})
		}
		if withReload {
			switch {
			case r.Chance(22):
				if r.Chance(25) {
					// a flush that fails first (provider down / file system refuses), then one that works
					ops = append(ops, op{kind: "eER"[r.Intn(3)]})
					if r.Chance(30) {
						ops = append(ops, op{kind: 'a'})
					}
				}
				ops = append(ops, op{kind: 'f'})
				if r.Chance(60) {
					ops = append(ops, op{kind: 'r'}, op{kind: 'a'})
				}
				if r.Chance(25) {
					ops = append(ops, op{kind: 'f'}) // nothing pending: must be skipped
				}
			case r.Chance(6):
				ops = append(ops, op{kind: 'r'}, op{kind: 'a'}) // restart without flush: back to the persisted table
			case r.Chance(4):
				ops = append(ops, op{kind: "eER"[r.Intn(3)]}, op{kind: 'r'}, op{kind: 'a'}) // a failed flush persists nothing
			}
		}
	}
	if withReload {
		ops = append(ops, op{kind: 'a'}, op{kind: 'f'}, op{kind: 'r'}, op{kind: 'a'})
		for _, k := range known {
			if r.Chance(30) {
				ops = append(ops, op{kind: 'g', key: k})
			}
		}
		if r.Chance(12) {
			ops = append(ops, op{kind: 'x', disk: []string{"missing", "emptylist", "corrupt-empty", "corrupt-trunc"}[r.Intn(4)]}, op{kind: 'r'}, op{kind: 'a'})
		} else if r.Chance(15) {
			// a table file written by hand (upper-case names, non-canonical patterns, administrators without rights)
			d, keys := genHandWritten(c, users)
			ops = append(ops, op{kind: 'x', disk: d}, op{kind: 'r'}, op{kind: 'a'})
			for _, k := range keys {
				ops = append(ops, op{kind: 'g', key: k})
			}
		}
	} else {
		ops = append(ops, op{kind: 'a'})
	}
	return ops
}

// a history with flushes that die: edits, flush, more edits, a flush killed at a crash point
// (+ restart), then — with the dead process's temporary file possibly still lying around —
// either the same edits again or edits that leave a much shorter table, flush, restart; sometimes a
// second dying flush.
func genCrashHistory(c *Ctx, users bool, i int) []op {
	r := c.Rng
	var ops []op
	if r.Chance(85) {
		ops = append(ops, genOps(c, users, 1+r.Intn(5), false)...)
		ops = append(ops, op{kind: 'f'})
	}
	rounds := 1
	if r.Chance(25) {
		rounds = 2
	}
	for k := 0; k < rounds; k++ {
		h2 := genOps(c, users, 1+r.Intn(4), false)
		// make sure something is pending for the flush that dies (and that it differs from the file)
		if r.Chance(85) {
			if users {
				h2 = append(h2, op{kind: 's', key: fmt.Sprintf("u%d-%d", i, k), pw: "pw", upd: true})
			} else {
				h2 = append(h2, op{kind: 's', key: fmt.Sprintf("/r%d-%d/", i, k), url: "rtsp://h/x"})
			}
		}
		ops = append(ops, h2...)
		ko := op{kind: 'k', hook: hooks[(i+k)%len(hooks)], part: "-"}
		if ko.hook == "before-write" {
			ko.part = string("01hma"[(i/len(hooks)+k)%5]) // a write in progress: every length class
		}
		ops = append(ops, ko, op{kind: 'a'})
		again := h2
		if (i+k)%2 == 1 {
			again = nil
			for _, o := range ops {
				if o.kind == 's' {
					again = append(again, op{kind: 'd', key: o.key})
				}
			}
			if users {
				again = append(again, op{kind: 'd', key: "admin"}, op{kind: 's', key: "z", pw: "p", upd: true})
			} else {
				again = append(again, op{kind: 's', key: "/z", url: "rtsp://h/z"})
			}
		}
		ops = append(ops, again...)
		if k+1 < rounds && r.Chance(50) {
			continue // the next flush is again one that dies
		}
		ops = append(ops, op{kind: 'f'}, op{kind: 'r'}, op{kind: 'a'})
	}
	return ops
}

// a history with an edit that arrives WHILE a flush is running: edits (mostly flushed once, so that a
// table file exists), something pending, then Flush with a Save (new entry / update of an existing
// one, also in another spelling) or a Del (of a flushed entry / of the entry whose save is pending)
// issued from another goroutine when the flush has reached one of the file-system steps of
// EncodeJSONFile; then — after nothing, a look at the table, or further edits, sometimes a second
// overlap — a further flush, a restart, and the table and the entries concerned are read back.
// Sometimes the restart comes without a further flush.
func genOverlapHistory(c *Ctx, users bool, i int) []op {
	r := c.Rng
	var ops []op
	var flushed []string
	if r.Chance(80) {
		h := genOps(c, users, 1+r.Intn(4), false)
		for _, o := range h {
			if o.kind == 's' {
				flushed = append(flushed, o.key)
			}
		}
		ops = append(ops, h...)
		ops = append(ops, op{kind: 'f'})
	}
	newEntry := func(tag string) op {
		if users {
			return op{kind: 's', key: fmt.Sprintf("%s%d", tag, i), pw: passwords[1+r.Intn(len(passwords)-1)], admin: r.Chance(20), pull: rights[r.Intn(len(rights))], upd: true}
		}
		return op{kind: 's', key: fmt.Sprintf("/%s%d/", tag, i), url: routeURLs[r.Intn(4)], ka: r.Chance(30)}
	}
	rounds := 1
	if r.Chance(20) {
		rounds = 2
	}
	var touched []string
	for k := 0; k < rounds; k++ {
		var h2 []op
		if n := r.Intn(3); n > 0 {
			h2 = genOps(c, users, n, false)
			h2 = h2[:len(h2)-1] // without the trailing look at the table
		}
		pend := newEntry(fmt.Sprintf("p%d-", k))
		if r.Chance(90) {
			h2 = append(h2, pend) // something is pending: the flush reaches the provider
		}
		ops = append(ops, h2...)
		var ed op
		switch (i/len(hooks) + k) % 5 {
		case 0:
			ed = newEntry(fmt.Sprintf("n%d-", k)) // create
		case 1:
			ed = newEntry(fmt.Sprintf("p%d-", k)) // update of the entry whose save is being flushed
			if r.Chance(50) {
				ed.key = strings.ToUpper(ed.key)
			}
			ed.upd = r.Chance(70)
		case 2:
			ed = op{kind: 'd', key: pend.key} // delete of the entry whose save is being flushed
		case 3:
			ed = op{kind: 'd', key: "admin"}
			if !users || r.Chance(50) {
				if len(flushed) > 0 {
					ed.key = flushed[r.Intn(len(flushed))] // delete of an entry that is in the file
				} else {
					ed.key = pend.key
				}
			}
		default:
			ed = newEntry("x") // update of an entry that is in the file (or create)
			if len(flushed) > 0 {
				ed.key = flushed[r.Intn(len(flushed))]
			} else if users {
				ed.key = "Admin"
			}
			ed.upd = r.Chance(70)
		}
		touched = append(touched, ed.key, pend.key)
		ops = append(ops, op{kind: 'c', hook: hooks[(i+k)%len(hooks)], edit: &ed})
		switch {
		case r.Chance(30):
			ops = append(ops, op{kind: 'a'})
		case r.Chance(25):
			more := genOps(c, users, 1+r.Intn(2), false)
			ops = append(ops, more...)
		}
	}
	if i%8 != 7 {
		ops = append(ops, op{kind: 'f'})
		if r.Chance(15) {
			ops = append(ops, op{kind: 'f'}) // nothing pending any more
		}
	}
	ops = append(ops, op{kind: 'r'}, op{kind: 'a'})
	for _, k := range touched {
		if r.Chance(50) {
			ops = append(ops, op{kind: 'g', key: k})
		}
	}
	return ops
}

// the stated quantifier, literally: every history up to a bounded length over a small set of names /
// patterns (thorough tier), and every crash point after every such history of length ≤ 2
func enumerate(users bool, emit func([]op)) {
	var alpha []op
	if users {
		alpha = []op{{kind: 's', key: "bob", pw: "pw1", pull: "/a/+", upd: true}, {kind: 's', key: "BOB", pw: "pw2", admin: true, upd: false},
			{kind: 's', key: "alice", pw: "x", upd: true}, {kind: 'd', key: "Bob"}, {kind: 'd', key: "admin"}, {kind: 'f'}, {kind: 'r'}, {kind: 'e'}}
	} else {
		alpha = []op{{kind: 's', key: "/a/", url: "rtsp://h/x"}, {kind: 's', key: " /A//", url: "rtsp://h/y/", ka: true},
			{kind: 's', key: "/a/b", url: "rtsp://h/z"}, {kind: 'd', key: "/A/"}, {kind: 'd', key: "/a/b/."}, {kind: 'f'}, {kind: 'r'}, {kind: 'E'}}
	}
	tail := []op{{kind: 'a'}, {kind: 'f'}, {kind: 'r'}, {kind: 'a'}}
	novl := 0
	var rec func(h []op, depth int)
	rec = func(h []op, depth int) {
		if len(h) > 0 {
			emit(append(append([]op{}, h...), tail...))
			if len(h) <= 2 {
				// an edit that arrives while the flush of this history is at a file-system step: every
				// (step, edit) pair in turn over the histories
				for n := 0; n < 2; n++ {
					ed := alpha[(novl/len(hooks)+n*2)%5] // the three saves and the two deletes
					ops := append(append([]op{}, h...), op{kind: 'c', hook: hooks[novl%len(hooks)], edit: &ed}, op{kind: 'a'})
					emit(append(ops, tail...))
					novl++
				}
				for _, hk := range hooks {
					parts := []string{"-"}
					if hk == "before-write" {
						parts = []string{"0", "1", "h", "m", "a"}
					}
					for _, pt := range parts {
						emit(append(append(append([]op{}, h...), op{kind: 'k', hook: hk, part: pt}, op{kind: 'a'}), append(append([]op{}, h...), tail...)...))
					}
				}
			}
		}
		if depth == 0 {
			return
		}
		for _, o := range alpha {
			rec(append(append([]op{}, h...), o), depth-1)
		}
	}
	rec(nil, 4)
}

// ---------------------------------------------------------------- classification
func classify(users bool, ops []op, i int) string {
	k := kindName(users)
	reloaded, crashed, overlapped, reloadedSince := false, false, false, false
	for _, o := range ops[:i] {
		switch o.kind {
		case 'r':
			reloaded, reloadedSince = true, overlapped
		case 'k':
			crashed, reloadedSince = true, overlapped
		case 'c':
			overlapped = true
		}
	}
	name := map[byte]string{'s': "save", 'd': "del", 'g': "get", 'a': "all", 'f': "flush", 'r': "restart", 'x': "setdisk",
		'e': "flush-provider-down", 'E': "flush-fs-refuses", 'R': "flush-fs-refuses", 'k': "crash", 'c': "edit"}[ops[i].kind]
	switch {
	case ops[i].kind == 'c':
		return k + "-edit-during-flush"
	case overlapped && reloadedSince:
		return k + "-" + name + "-after-edit-during-flush-and-restart" // what an edit that overlapped a flush left is not what a restart loads
	case overlapped:
		return k + "-" + name + "-after-edit-during-flush"
	case crashed:
		return k + "-" + name + "-after-crash"
	case reloaded:
		return k + "-" + name + "-after-restart"
	}
	return k + "-" + name
}

func crashClass(outcome string) string {
	switch {
	case outcome == "missing":
		return "flush-crash-file-missing"
	case outcome == "other:-":
		return "flush-crash-empty-file"
	case strings.HasPrefix(outcome, "other:"):
		return "flush-crash-partial-file"
	}
	return "flush-crash-" + outcome
}

func partStr(n int) string {
	if n < 0 {
		return "-"
	}
	return strconv.Itoa(n)
}

func oldStr(had bool, old []byte) string {
	if !had {
		return "none"
	}
	return Hx(old)
}

// what a restart finds in the table file after the child died
func crashOutcome(file string, hadOld bool, old, new []byte) string {
	got, has := readFile(file)
	switch {
	case !has:
		return "missing"
	case hadOld && bytes.Equal(got, old):
		return "old"
	case bytes.Equal(got, new):
		return "new"
	}
	return "other:" + Hx(got)
}

// ---------------------------------------------------------------- run
type tcase struct {
	users bool
	ops   []op
	crash bool
}

type tresult struct {
	impl []string
	ann  []string
	raws []rawCrash
	env  string // not "" : the case could not be run for a reason outside the implementation
}

func runCase(dir string, i int, k tcase) (res tresult) {
	defer func() {
		if x := recover(); x != nil {
			e, ok := x.(envErr)
			if !ok {
				panic(x)
			}
			res = tresult{env: e.what}
		}
	}()
	t := &table{users: k.users, file: filepath.Join(dir, fmt.Sprintf("t-%d.json", i))}
	impl := runHistory(t, k.ops)
	return tresult{impl: impl, ann: t.ann, raws: t.raws}
}

func runC18(c *Ctx) {
	xlog.ReplaceGlobal(xlog.New(xlog.NewNopCore()))
	dir := scratchDir()
	defer os.RemoveAll(dir)

	var cases []tcase
	var raws []rawCrash
	for _, l := range c.CorpusLines() {
		if u, ops, ok := parseLine(l); ok {
			cases = append(cases, tcase{users: u, ops: ops})
		} else if f := strings.Fields(l); len(f) == 6 && f[0] == "c18" && f[1] == "crash" {
			rc := rawCrash{hook: f[2], partial: -1, new: Unhx(f[5])}
			if n, err := strconv.Atoi(f[3]); err == nil {
				rc.partial = n
			}
			if f[4] != "none" {
				rc.old, rc.hadOld = Unhx(f[4]), true
			}
			raws = append(raws, rc)
		}
	}
	if c.Replay == "" {
		n := c.Budget(2500, 40000)
		for i := 0; i < n; i++ {
			users := i%2 == 0
			cases = append(cases, tcase{users: users, ops: genOps(c, users, 1+c.Rng.Intn(9), true)})
		}
		if c.Thorough() {
			for _, users := range []bool{true, false} {
				u := users
				enumerate(u, func(ops []op) { cases = append(cases, tcase{users: u, ops: ops}) })
			}
			c.Note("every history of ≤ 4 operations over an alphabet of 8 (3 saves incl. an update in another spelling, 2 deletes, flush, restart, failing flush), " +
				"for users and for routes, each followed by all/flush/restart/all: enumerated completely; after every such history of ≤ 2 operations, " +
				"a flush that dies at each of the 5 crash points (each length class of the write in progress), then the same edits again")
		}
		ncr := c.Budget(130, 1000)
		for i := 0; i < ncr; i++ {
			users := i%2 == 0
			cases = append(cases, tcase{users: users, ops: genCrashHistory(c, users, i)})
		}
		// each overlap costs parkWait on a tree whose Flush keeps the lock
		novl := c.Budget(50, 400)
		for i := 0; i < novl; i++ {
			users := i%2 == 0
			cases = append(cases, tcase{users: users, ops: genOverlapHistory(c, users, i/2)})
		}
	}
	for i := range cases {
		for _, o := range cases[i].ops {
			if o.kind == 'k' {
				cases[i].crash = true
			}
		}
	}

	// ---- the implementation first: every history on the real tables (the crash outcomes the
	// specification is told about are observations)
	results := make([]tresult, len(cases))
	poisoned := map[bool]string{} // table kind → the case that never returned
	envSkips := 0
	for i, k := range cases {
		if why, bad := poisoned[k.users]; bad {
			results[i] = tresult{env: "not run: the " + kindName(k.users) + " table is blocked by " + why}
			continue
		}
		done := make(chan tresult, 1)
		go func(i int, k tcase) { done <- runCase(dir, i, k) }(i, k)
		// a dying flush has a watchdog of its own (wdChild, then wdLong): leave it the time to bark first
		extra := time.Duration(0)
		for _, o := range k.ops {
			if o.kind == 'k' {
				extra += wdChild + wdLong + wdCase/3
			}
		}
		select {
		case results[i] = <-done:
		case <-time.After(wdCase + extra):
			// no answer: slow machine or a call that never returns?  The history is run again, alone, in a
			// process of its own with a long budget; whichever answers first decides.
			l := line(k.users, k.ops)
			confirm := make(chan string, 1)
			go func() {
				confirm <- runChild(childJob{Kind: "hist", Users: k.users, File: filepath.Join(dir, fmt.Sprintf("alone-%d", i), "t.json"), Line: l}, wdLong+extra, nil)
			}()
			st := ""
			select {
			case results[i] = <-done:
			case st = <-confirm:
				if st != "hung" {
					// the history does return when run alone: keep waiting for this process's run
					select {
					case results[i] = <-done:
					case <-time.After(wdLong + extra):
						st = "hung"
					}
				}
			}
			if st == "hung" {
				c.Find(Finding{Kind: "oracle", Class: kindName(k.users) + "-history-never-returns", Case: l, Impl: "no answer", Spec: "every operation returns",
					Detail: fmt.Sprintf("the history did not return within %v in this process nor within %v alone in a process of its own", wdCase, wdLong)})
				poisoned[k.users] = l
				results[i] = tresult{env: "never returned"}
			} else {
				c.Count("slow-history-waited-for")
			}
		}
		if results[i].env != "" {
			envSkips++
			c.Count("case-not-run")
			if envSkips <= 5 {
				c.Note(fmt.Sprintf("case %d not evaluated: %s", i, results[i].env))
			}
		}
	}
	for _, rc := range raws {
		file := filepath.Join(dir, "raw.json")
		func() {
			defer func() {
				if x := recover(); x != nil {
					if e, ok := x.(envErr); ok {
						rc.outcome = "env:" + e.what
						return
					}
					panic(x)
				}
			}()
			removeAll(file)
			if rc.hadOld {
				writeFile(file, rc.old)
			}
			before := snapshotSiblings(file)
			st := runChild(childJob{Kind: "raw", File: file, Hook: rc.hook, Partial: rc.partial, Raw: Hx(rc.new)}, wdChild,
				func() { restoreSiblings(file, before) })
			switch st {
			case "K":
				rc.outcome = crashOutcome(file, rc.hadOld, rc.old, rc.new)
			case "N":
				rc.outcome = "no-such-hook"
			default:
				rc.outcome = "child-" + st
			}
			removeAll(file)
		}()
		results = append(results, tresult{raws: []rawCrash{rc}})
	}

	// ---- the model and the specification
	var lines []string
	type rawRef struct{ res, idx int }
	var rawRefs []rawRef
	for i, k := range cases {
		l := line(k.users, k.ops)
		if len(results[i].ann) > 0 {
			l += " @ " + strings.Join(results[i].ann, " ")
		}
		lines = append(lines, l)
	}
	for i := range results {
		for j, rc := range results[i].raws {
			lines = append(lines, rc.line())
			rawRefs = append(rawRefs, rawRef{i, j})
		}
	}
	outs := c.Drive(lines)
	c.Res.Rule = "table case = one history of Save/Del/Get/All/Flush (working, provider down, file system refusing)/restart/" +
		"Flush-that-dies-at-a-crash-point/Flush-during-which-a-Save-or-Del-is-issued-from-another-goroutine-at-a-file-system-step on the real users or routes table with the real JSON provider (distinct by the op line; " +
		"non-trivial when it contains a flush that writes and a restart); every dying flush runs in a child process that SIGKILLs itself " +
		"inside EncodeJSONFile and is also compared byte by byte with the file-system model (crash point, bytes of a write in progress)"

	for i, k := range cases {
		r := results[i]
		if r.env != "" {
			continue
		}
		impl := r.impl
		caseLine := line(k.users, k.ops)
		kv := KV(outs[i])
		model := strings.Split(kv["model"], "|")
		spec := strings.Split(kv["spec"], "|")
		if len(model) != len(k.ops) || len(spec) != len(k.ops) {
			c.Find(Finding{Kind: "corr", Class: "driver-output", Case: caseLine, Impl: strings.Join(impl, "|"), Model: outs[i]})
			continue
		}
		wrote, restarted := false, false
		kind := kindName(k.users)
		for j, o := range k.ops {
			c.Count(kind + "-op-" + string(o.kind))
			switch o.kind {
			case 'f':
				if strings.HasPrefix(impl[j], "W:") {
					wrote = true
					c.Count("flush-writes")
				} else {
					c.Count("flush-" + impl[j])
				}
			case 'e', 'E', 'R':
				c.Count("failing-flush-" + string(o.kind) + "-" + impl[j])
			case 'x':
				if strings.HasPrefix(o.disk, "T:") {
					c.Count("file-hand-written")
				} else {
					c.Count("file-" + o.disk)
				}
			case 'r':
				restarted = true
				c.Count("restart-" + impl[j])
			case 's':
				if impl[j] == "err" {
					c.Count("save-rejected")
				}
			}
			if o.kind == 'c' {
				// C:<how>;<flush answer, itself with ';'>;<edit answer>
				f := []string{impl[j], "", ""}
				if a, b := strings.Index(impl[j], ";"), strings.LastIndex(impl[j], ";"); a >= 0 && b > a {
					f = []string{impl[j][:a], impl[j][a+1 : b], impl[j][b+1:]}
				}
				c.Count("edit-during-flush-at-" + o.hook)
				c.Count("edit-during-flush-" + string(o.edit.kind) + "-" + strings.TrimPrefix(f[0], "C:"))
				if strings.HasPrefix(f[1], "W:") {
					wrote = true
				}
				if impl[j] != model[j] {
					cl := kind + "-op-c"
					if f[0] == "C:nohook" && strings.HasPrefix(f[1], "W:") {
						cl = "crash-point-missing" // the flush wrote without passing that point: overlaps there are no longer exercised
					}
					c.Find(Finding{Kind: "corr", Class: cl, Case: caseLine, Impl: impl[j], Model: model[j], Spec: spec[j],
						Detail: fmt.Sprintf("op #%d %s", j, o.token(k.users))})
				}
				if spec[j] != "-" && f[2] != spec[j] {
					c.Find(Finding{Kind: "oracle", Class: classify(k.users, k.ops, j), Case: caseLine, Impl: impl[j], Model: model[j], Spec: spec[j],
						Detail: fmt.Sprintf("op #%d %s: the answer of the edit", j, o.token(k.users))})
				}
				continue
			}
			if o.kind == 'k' {
				restarted = true
				out := strings.TrimPrefix(strings.SplitN(impl[j], ";", 2)[0], "K:")
				short := out
				if strings.HasPrefix(short, "other:") {
					short = "other"
				}
				c.Count("crash-at-" + o.hook)
				c.Count("crash-outcome-" + short)
				if o.part != "-" {
					c.Count("partial-write-" + o.part)
				}
				if out != "skip" {
					wrote = true
				}
				// a dying flush whose old and new file are the same bytes cannot tell "old" from "new"
				mj := model[j]
				if out == "same" {
					mj = strings.Replace(strings.Replace(mj, "K:old;", "K:same;", 1), "K:new;", "K:same;", 1)
				}
				if out == "no-such-hook" {
					// the running code has no such crash point: the harness cannot place this crash
					c.Find(Finding{Kind: "corr", Class: "crash-point-missing", Case: caseLine, Impl: impl[j], Model: model[j],
						Detail: "crash point " + o.hook + " was never reached inside the provider's Flush: crashes there are no longer exercised"})
				} else if impl[j] != mj {
					cl := kind + "-op-k"
					c.Find(Finding{Kind: "corr", Class: cl, Case: caseLine, Impl: impl[j], Model: model[j], Spec: spec[j],
						Detail: fmt.Sprintf("op #%d %s", j, o.token(k.users))})
				}
				if spec[j] != "-" {
					rs := strings.SplitN(impl[j], ";", 2)[1]
					switch {
					case out == "hung":
						c.Find(Finding{Kind: "oracle", Class: "flush-never-returns", Case: caseLine, Impl: impl[j], Spec: spec[j],
							Detail: fmt.Sprintf("op #%d %s: the flushing process neither reached the crash point nor returned within %v and, run again, within %v", j, o.token(k.users), wdChild, wdLong)})
					case out == "old" || out == "new" || out == "same" || out == "skip":
						if rs != "ok" {
							c.Find(Finding{Kind: "oracle", Class: "restart-after-crash-" + rs, Case: caseLine, Impl: impl[j], Model: model[j], Spec: spec[j],
								Detail: fmt.Sprintf("op #%d %s", j, o.token(k.users))})
						}
					case strings.HasPrefix(out, "other:") || out == "missing":
						c.Find(Finding{Kind: "oracle", Class: crashClass(out), Case: caseLine, Impl: impl[j], Model: model[j], Spec: spec[j],
							Detail: fmt.Sprintf("op #%d %s: the table file after the process died is neither the complete previous nor the complete new table", j, o.token(k.users))})
					}
					// anything else (crash point not in the source, child and parent disagree) is a broken correspondence, reported above
				}
				continue
			}
			if impl[j] != model[j] {
				c.Find(Finding{Kind: "corr", Class: kind + "-op-" + string(o.kind), Case: caseLine, Impl: impl[j], Model: model[j], Spec: spec[j],
					Detail: fmt.Sprintf("op #%d %s", j, o.token(k.users))})
			}
			if spec[j] != "-" && impl[j] != spec[j] {
				c.Find(Finding{Kind: "oracle", Class: classify(k.users, k.ops, j), Case: caseLine, Impl: impl[j], Model: model[j], Spec: spec[j],
					Detail: fmt.Sprintf("op #%d %s", j, o.token(k.users))})
			}
		}
		c.Eval(caseLine, wrote && restarted)
		if i%(len(cases)/6+1) == 0 || (k.crash && i%40 == 0) {
			c.Sample(fmt.Sprintf("%s → impl=%s", caseLine, strings.Join(impl, "|")))
		}
	}
	for n, ref := range rawRefs {
		rc := results[ref.res].raws[ref.idx]
		out := outs[len(cases)+n]
		if strings.HasPrefix(rc.outcome, "env:") {
			c.Count("case-not-run")
			c.Note("byte-level crash case not evaluated: " + rc.outcome)
			continue
		}
		c.Count("bytes-crash-at-" + rc.hook)
		if rc.partial >= 0 {
			switch {
			case rc.partial == 0:
				c.Count("bytes-partial-write-0")
			case rc.partial >= len(rc.new):
				c.Count("bytes-partial-write-all")
			default:
				c.Count("bytes-partial-write-some")
			}
		}
		if !rc.hadOld {
			c.Count("bytes-crash-on-first-flush")
		}
		short := rc.outcome
		if strings.HasPrefix(short, "other:") {
			short = "other"
		}
		c.Count("bytes-crash-outcome-" + short)
		l := rc.line()
		c.Eval(l, true)
		if n%(len(rawRefs)/3+1) == 0 {
			c.Sample(fmt.Sprintf("crash at %s partial=%d |old|=%d |new|=%d → file is %s", rc.hook, rc.partial, len(rc.old), len(rc.new), short))
		}
		if out != rc.outcome {
			cl := "crash-" + rc.hook
			if rc.outcome == "no-such-hook" {
				cl = "crash-point-missing"
			}
			c.Find(Finding{Kind: "corr", Class: cl, Case: l, Impl: rc.outcome, Model: out})
		}
		if rc.outcome == "no-such-hook" && out == "no-such-hook" {
			// neither the source nor the running code has this crash point: the harness cannot place the crash
			c.Find(Finding{Kind: "corr", Class: "crash-point-missing", Case: l, Impl: rc.outcome, Model: out,
				Detail: "crash point " + rc.hook + " is gone from utils.EncodeJSONFile: crashes there are no longer exercised"})
			continue
		}
		okOutcome := rc.outcome == "new" || (rc.hadOld && rc.outcome == "old") || (!rc.hadOld && rc.outcome == "missing")
		if !okOutcome && !rc.derived && (strings.HasPrefix(rc.outcome, "other:") || rc.outcome == "missing" || rc.outcome == "old") {
			c.Find(Finding{Kind: "oracle", Class: crashClass(rc.outcome), Case: l, Impl: rc.outcome, Model: out,
				Spec: "old|new", Detail: fmt.Sprintf("crash point %q partial=%d", rc.hook, rc.partial)})
		}
	}
}
