package main

import (
	"bytes"
	"encoding/json"
	"fmt"
	"io/ioutil"
	"os"
	"os/exec"
	"path/filepath"
	"strings"
	"syscall"
	"time"

	. "verifharness/hlib"

	"github.com/cnotch/ipchub/utils"
	"github.com/cnotch/xlog"
)

// Child processes.  A child tells its parent what happened through a status pipe (fd 3) with one
// letter, written immediately before it acts on it:
//   K  the crash point was reached (the child then SIGKILLs itself)
//   S  Flush returned without calling the provider (nothing pending)
//   N  the provider was called and Flush returned, the crash point was never reached
//   E  Flush returned an error      P  Flush panicked      D  history done (kind "hist")
// A child that dies by SIGKILL *without* having written K was killed from outside (OOM killer,
// an operator): that is the machine, not the implementation — the child is run again.
type childJob struct {
	Kind    string `json:"kind"` // crash | raw | hist
	Users   bool   `json:"users"`
	File    string `json:"file"`
	Snap    string `json:"snap"` // crash: hex of the table file at the start of the server that dies
	HadSnap bool   `json:"hadsnap"`
	Line    string `json:"line"`    // crash: the operations of that server so far; hist: the whole history
	Hook    string `json:"hook"`    // crash, raw: the crash point
	Part    string `json:"part"`    // crash: length class of the write in progress
	Partial int    `json:"partial"` // raw: bytes of the write in progress, -1: none
	Raw     string `json:"raw"`     // raw: hex of the JSON text to write with utils.EncodeJSONFile
}

func childMain(job string) {
	var j childJob
	if err := json.Unmarshal([]byte(job), &j); err != nil {
		os.Exit(4)
	}
	xlog.ReplaceGlobal(xlog.New(xlog.NewNopCore()))
	status := os.NewFile(3, "status")
	say := func(s string) {
		if status != nil {
			status.Write([]byte(s))
		}
	}
	defer func() {
		if x := recover(); x != nil {
			if e, ok := x.(envErr); ok {
				fmt.Fprintln(os.Stderr, "child:", e.what)
				os.Exit(6)
			}
			panic(x)
		}
	}()
	die := func(n int) func(string, *os.File, []byte) {
		return func(point string, f *os.File, pending []byte) {
			if point != j.Hook {
				return
			}
			if pending != nil && f != nil {
				k := n
				if j.Kind == "crash" {
					k = partBytes(j.Part, len(pending))
				}
				if k > len(pending) {
					k = len(pending)
				}
				if k >= 0 {
					f.Write(pending[:k]) // the write in progress got k bytes out
				}
			}
			say("K")
			syscall.Kill(os.Getpid(), syscall.SIGKILL)
			for {
				time.Sleep(time.Hour)
			}
		}
	}
	switch j.Kind {
	case "hist":
		_, ops, ok := parseLine(j.Line)
		if !ok {
			os.Exit(4)
		}
		retry("mkdir", func() error { return os.MkdirAll(filepath.Dir(j.File), 0755) })
		runHistory(&table{users: j.Users, file: j.File}, ops)
		say("D")
	case "raw":
		utils.VerifIOHook = die(j.Partial)
		// Marshal + Indent of a RawMessage reproduces the recorded text
		if err := utils.EncodeJSONFile(j.File, json.RawMessage(Unhx(j.Raw))); err != nil {
			say("E")
		} else {
			say("N")
		}
	case "crash":
		_, ops, ok := parseLine(j.Line)
		if !ok {
			os.Exit(4)
		}
		priv := j.File + ".replay"
		removeAll(priv)
		if j.HadSnap {
			writeFile(priv, Unhx(j.Snap))
		}
		t := &table{users: j.Users, file: priv}
		t.restart()
		for _, o := range ops {
			t.apply(o)
		}
		removeAll(priv)
		t.configure(j.File)
		utils.VerifIOHook = die(-1)
		r := t.apply(op{kind: 'f'})
		switch {
		case r == "skip":
			say("S")
		case strings.HasPrefix(r, "W:"):
			say("N")
		case r == "panic":
			say("P")
		default:
			say("E")
		}
	default:
		os.Exit(4)
	}
	os.Exit(0)
}

func selfExe() string {
	if _, err := os.Stat("/proc/self/exe"); err == nil {
		return "/proc/self/exe" // the running binary, even if the file at os.Args[0] is being rebuilt
	}
	return os.Args[0]
}

// runChildOnce: (status, "") or ("", why the machine — not the implementation — got in the way)
func runChildOnce(job []byte, budget time.Duration) (status, env string) {
	pr, pw, err := os.Pipe()
	if err != nil {
		return "", "pipe: " + err.Error()
	}
	defer pr.Close()
	cmd := exec.Command(selfExe())
	cmd.Env = append(os.Environ(), "VERIF_C18_CHILD="+string(job))
	cmd.ExtraFiles = []*os.File{pw}
	var stderr bytes.Buffer
	cmd.Stderr = &stderr
	err = cmd.Start()
	pw.Close()
	if err != nil {
		return "", "start: " + err.Error()
	}
	waitc := make(chan error, 1)
	go func() { waitc <- cmd.Wait() }()
	var werr error
	select {
	case werr = <-waitc:
	case <-time.After(budget):
		cmd.Process.Kill()
		<-waitc
		return "hung", ""
	}
	mark := make(chan string, 1)
	go func() { b, _ := ioutil.ReadAll(pr); mark <- string(b) }()
	var m string
	select {
	case m = <-mark:
	case <-time.After(30 * time.Second): // somebody else still holds the write end
	}
	tail := strings.TrimSpace(stderr.String())
	if len(tail) > 300 {
		tail = tail[len(tail)-300:]
	}
	if werr == nil {
		if len(m) == 1 && strings.Contains("SNEPD", m) {
			return m, ""
		}
		return "", fmt.Sprintf("child exited 0 with status %q", m)
	}
	if ee, ok := werr.(*exec.ExitError); ok {
		if ws, ok := ee.Sys().(syscall.WaitStatus); ok {
			switch {
			case ws.Signaled() && ws.Signal() == syscall.SIGKILL && m == "K":
				return "K", ""
			case ws.Signaled():
				return "", fmt.Sprintf("child killed by %v from outside (status %q)", ws.Signal(), m)
			case ws.ExitStatus() == 2:
				return "C", "" // the Go runtime gave up (fatal error, unrecovered panic): the implementation's doing
			}
			return "", fmt.Sprintf("child exit %d: %s", ws.ExitStatus(), tail)
		}
	}
	return "", "wait: " + werr.Error()
}

// runChild runs the job in a child process.  The machine getting in the way (no process to be had,
// killed from outside) is retried, with reset() putting the files back first; a child that gives no
// sign of life within the budget is run once more with ten minutes before it is called "hung".
func runChild(j childJob, budget time.Duration, reset func()) string {
	b, _ := json.Marshal(j)
	again := func() {
		if reset != nil {
			reset()
		}
	}
	var env string
	for attempt := 0; attempt < 6; attempt++ {
		if attempt > 0 {
			time.Sleep(time.Duration(250<<uint(attempt)) * time.Millisecond)
			again()
		}
		var st string
		st, env = runChildOnce(b, budget)
		if env != "" {
			continue
		}
		if st == "hung" && budget < wdLong {
			again()
			st, env = runChildOnce(b, wdLong)
			if env != "" {
				continue
			}
		}
		return st
	}
	panic(envErr{"child process: " + env})
}
