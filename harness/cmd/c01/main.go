package main

import (
	. "verifharness/hlib"
	ml "verifharness/medialib"
)

func main() { Main("C01", run) }

func run(c *Ctx) {
	c.Res.Rule = "case = a sequential script of publish/join/stop/close/stall/resume ops on a real media.Stream (H.264 or H.265 SDP, cache_gop on/off) with recording consumers; after every op the canonical observation (status, counters, per consumer: registered, queue length, discarding, delivered uids, Close calls, byte identity) must equal the Lean model's; plus gated interleavings of a join with a concurrent publish. Distinct by script text; non-trivial when the script has at least one join and one publish."
	var scripts []ml.Script
	n := c.Budget(250, 4000)
	for i := 0; i < n; i++ {
		scripts = append(scripts, ml.GenScript(c.Rng, "mixed", 40))
	}
	ml.RunScripts(c, "c01", scripts)
	var fl []ml.FlvScript
	for i := 0; i < c.Budget(120, 2500); i++ {
		fl = append(fl, ml.GenFlvScript(c.Rng))
	}
	ml.RunFlvScripts(c, "c01", fl)
	wireRuns(c)
	ml.StressRuns(c, "c01", c.Budget(4, 40))
	ml.FlvWireRuns(c)
	for _, hevc := range []bool{false, true} {
		ml.RecordOutcome(c, ml.ScJoinRace(false, hevc), "c01")
		ml.RecordOutcome(c, ml.ScJoinRace(true, hevc), "c01")
	}
}
