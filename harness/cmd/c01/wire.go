package main

import (
	"bytes"
	"fmt"
	"net"
	"strconv"
	"time"
	"unsafe"

	"github.com/cnotch/ipchub/av/format/rtp"
	. "verifharness/hlib"
	ml "verifharness/medialib"
	sl "verifharness/sesslib"
)

// Wire run: real RTSP sessions (TCP on a pipe, ws-rtsp, WSP, RTSP with UDP transport) play a
// registered stream; what arrives on the wire must be exactly the published packets, in order,
// once, byte-identical, on the channels / ports negotiated in SETUP.

const wireBase = "rtsp://h.example"

type wireCase struct {
	flavour string // tcp | ws | wsp | udp
	vch     int    // interleaved channel of video (control = +1)
	ach     int    // interleaved channel of audio, -1 = audio not set up
	n       int
	seed    uint64
}

func (w wireCase) String() string {
	return fmt.Sprintf("wire %s vch=%d ach=%d n=%d seed=%d", w.flavour, w.vch, w.ach, w.n, w.seed)
}

func runWire(c *Ctx, w wireCase) {
	c.Count("wire-" + w.flavour)
	key := w.String()
	fail := func(class, impl, spec string) {
		c.Find(Finding{Kind: "oracle", Class: class, Case: key, Impl: impl, Spec: spec,
			Detail: "bytes received by a real " + w.flavour + " client of a playing session vs packets published"})
	}
	fx := &sl.Fixture{Path: fmt.Sprintf("/wire/%s%d", w.flavour, w.seed%7), Doc: sl.NewSdpDoc(sl.VideoAudioSdp("streamid=0", "streamid=1"))}
	fx.Ensure()
	defer fx.Stream.Close()
	var conn *sl.Conn
	var err error
	switch w.flavour {
	case "tcp", "udp":
		conn = sl.DialTCP(0)
	case "ws":
		conn, err = sl.DialWS(fx.Path)
	case "wsp":
		conn, err = sl.DialWSP(fx.Path, true)
	}
	if err != nil || conn == nil {
		c.Find(Finding{Kind: "corr", Class: "wire-dial", Case: key, Impl: fmt.Sprint(err)})
		return
	}
	defer conn.Close()
	// UDP sockets of the client
	var udp [4]*net.UDPConn
	var ports [4]int
	if w.flavour == "udp" {
		for i := range udp {
			u, e := net.ListenUDP("udp4", &net.UDPAddr{IP: net.IPv4(127, 0, 0, 1)})
			if e != nil {
				c.Note("wire: cannot open a loopback UDP socket: " + e.Error())
				return
			}
			u.SetReadBuffer(1 << 20)
			defer u.Close()
			udp[i] = u
			ports[i] = u.LocalAddr().(*net.UDPAddr).Port
		}
	}
	cseq := 0
	var early []sl.Item
	await := func(cs int) bool {
		for {
			it, ok := conn.Next()
			if !ok || it.Kind == sl.KEOF {
				return false
			}
			if it.Kind == sl.KResp && it.Header["CSeq"] == strconv.Itoa(cs) {
				return it.Code == 200
			}
			if it.Kind == sl.KFrame {
				early = append(early, it)
			}
		}
	}
	req := func(m, url, tr string) int {
		cseq++
		conn.Send(sl.Req{Method: m, URL: url, CSeq: strconv.Itoa(cseq), Transport: tr}.Wire())
		return cseq
	}
	tr := func(track int) string {
		if w.flavour == "udp" {
			// the kernel picked the ports: use each socket for one port of a "pair"
			return fmt.Sprintf("RTP/AVP;unicast;client_port=%d-%d", ports[2*track], ports[2*track+1])
		}
		ch := w.vch
		if track == 1 {
			ch = w.ach
		}
		return fmt.Sprintf("RTP/AVP/TCP;unicast;interleaved=%d-%d", ch, ch+1)
	}
	if !await(req("DESCRIBE", wireBase+fx.Path, "")) || !await(req("SETUP", wireBase+fx.Path+"/streamid=0", tr(0))) {
		c.Find(Finding{Kind: "corr", Class: "wire-setup", Case: key, Impl: "DESCRIBE/SETUP refused"})
		return
	}
	if w.ach >= 0 && !await(req("SETUP", wireBase+fx.Path+"/streamid=1", tr(1))) {
		c.Find(Finding{Kind: "corr", Class: "wire-setup", Case: key, Impl: "SETUP audio refused"})
		return
	}
	if !await(req("PLAY", wireBase+fx.Path, "")) {
		c.Find(Finding{Kind: "corr", Class: "wire-setup", Case: key, Impl: "PLAY refused"})
		return
	}
	if !ml.Eventually(60*time.Second, func() bool { return fx.Stream.ConsumerCount() == 1 }) {
		fail("wire-not-attached", "no consumer attached after a successful PLAY", "one consumer")
		return
	}
	// publish
	rng := NewRng(w.seed)
	type sent struct {
		k    int
		data []byte
	}
	var want []sent
	// the published objects and a raw snapshot of each (every field, exported or not): the
	// delivery side must treat the shared packet as immutable
	var objs []*rtp.Packet
	var snaps [][]byte
	for i := 0; i < w.n; i++ {
		k := []int{0, 0, 0, 2, 2, 1, 3}[rng.Intn(7)]
		size := 12 + rng.Intn(40)
		if rng.Chance(5) {
			size = 1400 + rng.Intn(200)
		}
		data := rng.Bytes(size)
		data[0] = 0x80
		data[1] = 96
		data[2], data[3] = byte(i>>8), byte(i)
		p := &rtp.Packet{Channel: byte(k), Data: data}
		if k == 0 || k == 2 {
			if e := p.Header.Unmarshal(p.Data); e != nil {
				continue
			}
		}
		objs = append(objs, p)
		snaps = append(snaps, rawBytes(p))
		fx.Stream.WriteRtpPacket(p)
		subscribed := w.ach >= 0 || k < 2
		if subscribed {
			want = append(want, sent{k, append([]byte(nil), data...)}) // a private copy: the expectation must not alias the published buffer
		}
		if w.flavour == "udp" && subscribed {
			// pace: read this datagram before publishing the next (no socket-buffer overflow)
			buf := make([]byte, 4096)
			udp[k].SetReadDeadline(time.Now().Add(60 * time.Second))
			n, _, e := udp[k].ReadFromUDP(buf)
			if e != nil {
				fail("wire-udp-missing", fmt.Sprintf("datagram %d for channel kind %d never arrived on the negotiated port", i, k), "one datagram = p.Data to the port negotiated for p.Channel")
				return
			}
			if !bytes.Equal(buf[:n], data) {
				fail("wire-udp-bytes", fmt.Sprintf("datagram %d differs from the published packet (%d vs %d bytes)", i, n, len(data)), "byte-identical payload")
				return
			}
		}
	}
	c.Eval(key, len(want) > 3)
	defer func() {
		for i, p := range objs {
			if !bytes.Equal(rawBytes(p), snaps[i]) {
				fail("wire-shared-packet-mutated", fmt.Sprintf("the published packet object %d was modified while it was being delivered (it is shared by all consumers)", i), "consumers copy the packet to the wire and never write to it")
				return
			}
		}
	}()
	if w.flavour == "udp" {
		// nothing else may arrive
		for k := 0; k < 4; k++ {
			udp[k].SetReadDeadline(time.Now().Add(20 * time.Millisecond))
			buf := make([]byte, 4096)
			if n, _, e := udp[k].ReadFromUDP(buf); e == nil {
				fail("wire-udp-extra", fmt.Sprintf("an extra datagram of %d bytes arrived on port kind %d", n, k), "each packet at most once")
			}
		}
		return
	}
	// interleaved transports: frames in order
	chanOf := func(k int) int {
		switch k {
		case 0:
			return w.vch
		case 1:
			return w.vch + 1
		case 2:
			return w.ach
		}
		return w.ach + 1
	}
	// The media goroutine drains its queue asynchronously and the rate-limited buffered
	// connection keeps a tail until the next flush: a keep-alive OPTIONS flushes it.  Repeat
	// (generously) until everything published has arrived; frames always precede the response
	// that flushed them.
	got := early
	deadline := time.Now().Add(90 * time.Second)
	for len(got) < len(want) && time.Now().Before(deadline) {
		flushCS := req("OPTIONS", "*", "")
		answered := false
		for !answered {
			it, ok := conn.TryNext(60 * time.Second)
			if !ok || it.Kind == sl.KEOF {
				deadline = time.Now()
				break
			}
			switch {
			case it.Kind == sl.KFrame:
				got = append(got, it)
			case it.Kind == sl.KAnomaly:
				fail("wire-garbage", "bytes that are neither a response nor a frame: "+it.What, "complete interleaved frames")
				return
			case it.Kind == sl.KResp && it.Header["CSeq"] == strconv.Itoa(flushCS):
				answered = true
			}
		}
		if len(got) < len(want) {
			// message transports deliver media on an independent path: give it a moment
			for {
				it, ok := conn.TryNext(5 * time.Millisecond)
				if !ok {
					break
				}
				if it.Kind == sl.KFrame {
					got = append(got, it)
				}
			}
		}
	}
	if len(got) < len(want) {
		fail("wire-missing", fmt.Sprintf("received %d frames of %d published (raw bytes received: %d, consumers now %d)", len(got), len(want), len(conn.RawLog()), fx.Stream.ConsumerCount()), "all packets published after the attach")
		return
	}
	for i, s := range want {
		if got[i].Chan != chanOf(s.k) {
			fail("wire-channel", fmt.Sprintf("frame %d on channel %d, negotiated %d", i, got[i].Chan, chanOf(s.k)), "channel negotiated in SETUP")
			return
		}
		if !bytes.Equal(got[i].Payload, s.data) {
			fail("wire-bytes", fmt.Sprintf("frame %d payload differs (%d vs %d bytes) or out of order", i, len(got[i].Payload), len(s.data)), "published order, byte-identical")
			return
		}
	}
	if it, ok := conn.TryNext(20 * time.Millisecond); ok && it.Kind == sl.KFrame {
		fail("wire-extra", "an extra frame arrived after all published packets", "each packet at most once")
	}
}

func wireRuns(c *Ctx) {
	sl.Silence()
	n := c.Budget(3, 25)
	for i := 0; i < n; i++ {
		for _, fl := range []string{"tcp", "ws", "wsp", "udp"} {
			w := wireCase{flavour: fl, vch: 2 * c.Rng.Intn(3), n: 20 + c.Rng.Intn(60), seed: c.Rng.U64() % 100000}
			w.ach = w.vch + 2
			if c.Rng.Chance(25) {
				w.ach = -1
			}
			if i == 0 {
				c.Sample(w.String())
			}
			runWire(c, w)
		}
	}
}

// rawBytes copies the in-memory representation of the packet struct (slice headers and all
// scalar fields, exported or not)
func rawBytes(p *rtp.Packet) []byte {
	n := int(unsafe.Sizeof(*p))
	b := make([]byte, n)
	copy(b, (*[1 << 12]byte)(unsafe.Pointer(p))[:n:n])
	return append(b, p.Data...) // the struct (every field, slice headers included) and the bytes it points to
}
