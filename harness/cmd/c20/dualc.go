package main

import (
	"fmt"
	"strings"
	"sync"
	"sync/atomic"
	"time"

	. "verifharness/hlib"

	"github.com/cnotch/ipchub/media"
	"github.com/cnotch/ipchub/provider/route"
	"github.com/cnotch/ipchub/stats"
)

// Two simultaneous first requests for one routed path that BOTH pull, with consumers attached, and then
// every way the two pulls can end — the clean-up clauses judged for BOTH streams.
//
// No hook is needed: the fake camera withholds the answer to PLAY on every connection (gatePlay), so
// both requests have missed the registry and completed their handshakes up to PLAY before either of
// them registers.  The harness then lets the first connection go (stream L registers, its requester
// gets it and — lc — attaches a consumer), and only then the second one (stream W registers and
// replaces L: L is closed at once when it has no consumer, otherwise it is served on).  Stage 0 is
// observed; one pull is ended (how1), stage 1 is observed; the other pull is ended (how2), stage 2.
// At every stage, of either stream: status, ConsumerCount, camera connection open, consumer closed,
// consumer still served; and what the registry holds under the path.

var dualHows = []string{"eof", "rst", "sil", "gar", "trunc", "stop", "idle"}

type dualScn struct {
	lc, wc, keep, loserFirst bool
	how1, how2               string
}

func (d *dualScn) line() string {
	first := "w"
	if d.loserFirst {
		first = "l"
	}
	return fmt.Sprintf("lc=%s wc=%s keep=%s first=%s how1=%s how2=%s", B01(d.lc), B01(d.wc), B01(d.keep), first, d.how1, d.how2)
}

func (d *dualScn) silent() bool { return d.how1 == "sil" || d.how2 == "sil" }

func parseDualScn(kv map[string]string) *dualScn {
	return &dualScn{lc: kv["lc"] == "1", wc: kv["wc"] == "1", keep: kv["keep"] == "1", loserFirst: kv["first"] == "l", how1: kv["how1"], how2: kv["how2"]}
}

func validHow(h string) bool {
	for _, x := range dualHows {
		if x == h {
			return true
		}
	}
	return false
}

type pullSide struct {
	stream   *media.Stream
	cc       *camConn
	cons     *testConsumer // nil: no consumer attached
	cid      media.CID
	stopOnce sync.Once
	stopSend func()
}

func (p *pullSide) quiet() {
	p.stopOnce.Do(func() {
		if p.stopSend != nil {
			p.stopSend()
		}
	})
}

type dualObs struct {
	infra  string // not exercised / not judged: why
	hang   string // a call into the implementation did not return
	tokens [3]string
	key    [3]string
	leak   bool
	notes  []string
}

func (o *dualObs) keyString() string { return strings.Join(o.key[:], "/") }

// dbound: the bound of one "eventually"; the NetTimeout in force is added only where the awaited event is its expiry
func dbound(withNT bool) time.Duration {
	b := bound()
	if !withNT {
		b -= time.Duration(atomic.LoadInt64(&netTimeoutNs))
	}
	return b
}

func dwait(withNT bool, cond func() bool) bool {
	deadline := time.Now().Add(dbound(withNT))
	for {
		if cond() {
			return true
		}
		if time.Now().After(deadline) {
			atomic.AddInt32(&timeouts, 1)
			return false
		}
		time.Sleep(2 * time.Millisecond)
	}
}

func registeredUnder(path string) *media.Stream { return media.VerifRegistry()[path] }

// ended: everything the clean-up clauses demand of a stream whose pull has ended
func (p *pullSide) endedState(path string) bool {
	return p.stream.VerifStatus() != media.StreamOK && waitChNow(p.cc.peerGone) &&
		(p.cons == nil || atomic.LoadInt32(&p.cons.closed) == 1) && p.stream.ConsumerCount() == 0 && registeredUnder(path) != p.stream
}

func (p *pullSide) observe(who, n string) (tokens, key string) {
	ok := p.stream.VerifStatus() == media.StreamOK
	cc := p.stream.ConsumerCount()
	up := !waitChNow(p.cc.peerGone)
	cl := p.cons != nil && atomic.LoadInt32(&p.cons.closed) == 1
	sv := false
	if p.cons != nil && ok && up && !cl {
		// still served: another packet reaches the consumer (the camera keeps sending)
		n0 := atomic.LoadInt32(&p.cons.n)
		dwait(false, func() bool {
			return atomic.LoadInt32(&p.cons.n) > n0 || atomic.LoadInt32(&p.cons.closed) == 1 || waitChNow(p.cc.peerGone)
		})
		sv = atomic.LoadInt32(&p.cons.n) > n0
		// (sample the rest again: the wait may have taken a moment)
		ok = p.stream.VerifStatus() == media.StreamOK
		cc = p.stream.ConsumerCount()
		up = !waitChNow(p.cc.peerGone)
		cl = atomic.LoadInt32(&p.cons.closed) == 1
	}
	tokens = fmt.Sprintf("%sok%s=%s %scc%s=%d %sup%s=%s %scl%s=%s %ssv%s=%s", who, n, B01(ok), who, n, cc, who, n, B01(up), who, n, B01(cl), who, n, B01(sv))
	key = fmt.Sprintf("%s%s%d%s%s%s", who, B01(ok), cc, B01(up), B01(cl), B01(sv))
	return
}

func observeStage(path string, l, w *pullSide, n int) (tokens, key string) {
	r := "-"
	switch s := registeredUnder(path); {
	case s == nil:
	case s == l.stream:
		r = "l"
	case s == w.stream:
		r = "w"
	default:
		r = "x"
	}
	ns := fmt.Sprint(n)
	lt, lk := l.observe("l", ns)
	wt, wk := w.observe("w", ns)
	// the registry once more, after the waits of the two sides
	switch s := registeredUnder(path); {
	case s == nil:
		r = "-"
	case s == l.stream:
		r = "l"
	case s == w.stream:
		r = "w"
	default:
		r = "x"
	}
	return fmt.Sprintf("reg%s=%s %s %s", ns, r, lt, wt), fmt.Sprintf("r%s.%s.%s", r, lk, wk)
}

// endPull: one of the ways a pull ends; false: a call into the implementation did not return
func endPull(p *pullSide, how string) bool {
	if waitChNow(p.cc.peerGone) {
		return true // this pull has ended already (the replaced stream without a consumer): nothing to end
	}
	switch how {
	case "eof":
		p.quiet()
		p.cc.kill(false)
	case "rst":
		p.quiet()
		p.cc.kill(true)
	case "sil": // the camera goes silent: the read deadline must end the pull
		p.quiet()
	case "gar":
		p.quiet()
		p.cc.write([]byte("\x01\x02garbage that is neither RTP nor RTSP\r\n\r\n"))
	case "trunc":
		p.quiet()
		p.cc.write([]byte{'$', 0, 0x10, 0x00, 1, 2, 3})
		p.cc.kill(false)
	case "stop": // the stream is closed on the server side; the camera keeps sending
		return guarded(func() { p.stream.Close() })
	case "idle": // the consumer leaves and a zero-consumers task of the stream fires (none posted: Close)
		return guarded(func() {
			if p.cons != nil {
				p.stream.StopConsume(p.cid)
			}
			for _, t := range media.VerifIdleTasks() {
				if t.Stream == p.stream && !t.Finished() {
					t.Tick(0)
					return
				}
			}
			p.stream.Close()
		})
	}
	return true
}

// quiesce: wait until the goroutines of whatever ran before have wound down, and return how many are left.  On
// a tree that leaks goroutines they never do: after the first such wait has run into its bound, later ones
// do not wait again (the leak checks compare with this base line instead of zero).
var goroutinesStuck int32

func quiesce() int {
	if atomic.LoadInt32(&goroutinesStuck) == 0 && !waitSlow(func() bool { n, _ := pullGoroutines(); return n == 0 }) {
		atomic.StoreInt32(&goroutinesStuck, 1)
	}
	n, _ := pullGoroutines()
	return n
}

// runDualC: one scenario.  alone: nothing else runs, so the connection counter and the goroutines are judged too.
func runDualC(d *dualScn, path string, alone bool) *dualObs {
	ch := make(chan *dualObs, 1)
	go func() { ch <- runDualC1(d, path, alone) }()
	select {
	case o := <-ch:
		return o
	case <-time.After(2*hangAfter() + 10*bound() + time.Minute):
		return &dualObs{hang: "harness watchdog: the scenario did not come to an end"}
	}
}

func runDualC1(d *dualScn, path string, alone bool) *dualObs {
	o := &dualObs{}
	cam, err := newCamera(nil, "")
	if err != nil {
		o.infra = "listen: " + err.Error()
		return o
	}
	cam.gatePlay = true
	defer cam.close()
	cam.sdp = sdpBody("va", "rtsp://"+cam.addr()+"/live")
	if err := route.Save(&route.Route{Pattern: path, URL: "rtsp://" + cam.addr() + "/live", KeepAlive: d.keep}); err != nil {
		o.infra = "route.Save: " + err.Error()
		return o
	}
	defer route.Del(path)
	var base int64
	var g0 int
	if alone {
		g0 = quiesce()
		base = int64(stats.RtspConns.GetSample().Active)
	}
	type res struct {
		s   *media.Stream
		out string
	}
	results := make(chan res, 2)
	for i := 0; i < 2; i++ {
		go func() {
			s, out, _ := getOrCreate(path)
			results <- res{s, out}
		}()
	}
	var sides [2]*pullSide
	defer func() {
		for _, p := range sides {
			if p != nil {
				p.quiet()
			}
		}
	}()
	fail := func(why string) *dualObs {
		// let whatever is pending go, so that the harness itself leaves nothing behind
		cam.mu.Lock()
		conns := append([]*camConn(nil), cam.conns...)
		cam.mu.Unlock()
		for _, cc := range conns {
			cc.releasePlay()
			cc.kill(false)
		}
		o.infra = why
		return o
	}
	var conns [2]*camConn
	for i := range conns {
		select {
		case conns[i] = <-cam.accepts:
		case <-time.After(dbound(true)):
			return fail("the two requests did not both dial the camera (one was served by the other's pull?)")
		}
	}
	for _, cc := range conns {
		select {
		case <-cc.playAsked:
		case <-cc.peerGone:
			return fail("a handshake ended before PLAY")
		case <-time.After(dbound(true)):
			return fail("a handshake did not reach PLAY")
		}
	}
	take := func(cc *camConn) *pullSide {
		cc.releasePlay()
		select {
		case r := <-results:
			if r.s == nil {
				return nil
			}
			return &pullSide{stream: r.s, cc: cc}
		case <-time.After(hangAfter() + dbound(true)):
			return nil
		}
	}
	attach := func(p *pullSide) bool {
		p.cons = &testConsumer{}
		if !guarded(func() { p.cid = p.stream.StartConsume(p.cons, media.RTPPacket, "c20") }) {
			o.hang = "StartConsume"
			return false
		}
		dwait(false, func() bool { return atomic.LoadInt32(&p.cons.n) >= 1 || atomic.LoadInt32(&p.cons.closed) == 1 })
		return true
	}
	// the first pull: PLAY answered, registered, (lc) consumer attached and served
	l := take(conns[0])
	if l == nil {
		return fail("the first request for a cooperative camera got no stream")
	}
	sides[0] = l
	if !dwait(false, func() bool { return media.Get(path) == l.stream }) {
		return fail("the first stream did not appear under the path")
	}
	l.stopSend = keepSending(l.cc, 1)
	if d.lc && !attach(l) {
		return o
	}
	// the second pull
	w := take(conns[1])
	if w == nil {
		return fail("the second request for a cooperative camera got no stream")
	}
	sides[1] = w
	if w.stream == l.stream {
		return fail("both requests got the same stream")
	}
	w.stopSend = keepSending(w.cc, 1)
	dwait(false, func() bool {
		return media.Get(path) == w.stream && (d.lc || l.endedState(path))
	})
	if d.wc && w.stream.VerifStatus() == media.StreamOK && !attach(w) {
		return o
	}
	o.tokens[0], o.key[0] = observeStage(path, l, w, 0)
	x, y := w, l
	if d.loserFirst {
		x, y = l, w
	}
	if !endPull(x, d.how1) {
		o.hang = "ending the first pull (" + d.how1 + ")"
		return o
	}
	// (a pull that did not come to its proper end within the bound is not waited for a second time)
	xEnded := dwait(d.how1 == "sil", func() bool { return x.endedState(path) })
	o.tokens[1], o.key[1] = observeStage(path, l, w, 1)
	if !endPull(y, d.how2) {
		o.hang = "ending the second pull (" + d.how2 + ")"
		return o
	}
	yEnded := dwait(d.how2 == "sil", func() bool { return (!xEnded || x.endedState(path)) && y.endedState(path) })
	o.tokens[2], o.key[2] = observeStage(path, l, w, 2)
	if alone && !(xEnded && yEnded) {
		o.notes = append(o.notes, "a pull did not come to its proper end: counter and goroutines not looked at")
	} else if alone {
		c1 := dwait(false, func() bool { return int64(stats.RtspConns.GetSample().Active) <= base })
		var sample string
		deadline := time.Now().Add(dbound(false))
		g1 := false
		for {
			n, sm := pullGoroutines()
			sample = sm
			if n <= g0 {
				g1 = true
				break
			}
			if time.Now().After(deadline) {
				break
			}
			time.Sleep(40 * time.Millisecond)
		}
		if !c1 {
			o.leak = true
			o.notes = append(o.notes, "leak:conncount")
		}
		if !g1 {
			o.leak = true
			o.notes = append(o.notes, "leak:goroutine "+firstLines(sample, 6))
		}
	}
	return o
}

func dualLine(d *dualScn, o *dualObs) string {
	return fmt.Sprintf("c20 dualc %s | %s %s %s leak=%s", d.line(), o.tokens[0], o.tokens[1], o.tokens[2], B01(o.leak))
}

// dualFail: "" if judged and fine, else what is wrong (picks the cases of the confirmation pass)
func dualFail(o *dualObs, m map[string]string) string {
	switch {
	case o.infra != "":
		return "not-exercised"
	case o.hang != "":
		return "hang"
	case m["verdict"] != "ok":
		return m["verdict"]
	case o.keyString() != m["model"]:
		return "corr"
	}
	return ""
}

func dualSystematic() []*dualScn {
	var out []*dualScn
	k := 0
	// a consumer on the replaced stream: either pull ends first, in every way; the other one's way rotates
	for _, lf := range []bool{true, false} {
		for _, h1 := range dualHows {
			for _, wc := range []bool{true, false} {
				out = append(out, &dualScn{lc: true, wc: wc, keep: k%2 == 0, loserFirst: lf, how1: h1, how2: dualHows[(k*3+1)%len(dualHows)]})
				k++
			}
		}
	}
	// no consumer on the replaced stream: it ends by itself; the winner ends in every way
	for _, h1 := range dualHows {
		out = append(out, &dualScn{lc: false, wc: k%2 == 0, keep: k%3 == 0, loserFirst: false, how1: h1, how2: dualHows[k%len(dualHows)]})
		k++
	}
	return out
}

func genDualScn(r *Rng) *dualScn {
	d := &dualScn{lc: !r.Chance(20), wc: r.Chance(60), keep: r.Chance(50), loserFirst: r.Chance(50)}
	d.how1 = dualHows[r.Intn(len(dualHows))]
	d.how2 = dualHows[r.Intn(len(dualHows))]
	if !d.lc {
		d.loserFirst = false
	}
	return d
}

// runDualCs: all scenarios in parallel batches (every scenario has its own path, camera and consumers), with a
// batch-level leak check; whatever is not as it should be — and, after a leaking batch, the scenarios of that
// batch — is run again ALONE with the long bounds, and only what is wrong again is reported.
func runDualCs(c *Ctx, ds []*dualScn) {
	if len(ds) == 0 {
		return
	}
	obs := make([]*dualObs, len(ds))
	suspect := map[int]bool{}
	runPhase := func(idx []int, nt time.Duration, tag string) {
		if len(idx) == 0 {
			return
		}
		setPhase(nt)
		const batch = 24
		for lo := 0; lo < len(idx); lo += batch {
			hi := lo + batch
			if hi > len(idx) {
				hi = len(idx)
			}
			g0 := quiesce()
			base := stats.RtspConns.GetSample().Active
			var wg sync.WaitGroup
			for _, i := range idx[lo:hi] {
				wg.Add(1)
				go func(i int) {
					defer wg.Done()
					obs[i] = runDualC(ds[i], fmt.Sprintf("/c20/dc%s%d", tag, i), false)
				}(i)
			}
			wg.Wait()
			okc := waitFor(func() bool { return stats.RtspConns.GetSample().Active <= base })
			okg := waitSlow(func() bool { n, _ := pullGoroutines(); return n <= g0 })
			if !okc || !okg {
				for _, i := range idx[lo:hi] {
					suspect[i] = true
				}
			}
		}
	}
	var quiet, silent []int
	for i, d := range ds {
		if d.silent() {
			silent = append(silent, i)
		} else {
			quiet = append(quiet, i)
		}
	}
	runPhase(quiet, 12*time.Second, "q")
	runPhase(silent, 2500*time.Millisecond, "s")
	lines := make([]string, len(ds))
	for i := range ds {
		lines[i] = dualLine(ds[i], obs[i])
	}
	outs := c.Drive(lines)
	// confirmation
	byClass := map[string][]int{}
	var classes []string
	for i := range ds {
		cl := dualFail(obs[i], KV(outs[i]))
		if cl == "" && suspect[i] {
			cl = "leak-in-batch"
		}
		if cl != "" {
			if _, ok := byClass[cl]; !ok {
				classes = append(classes, cl)
			}
			byClass[cl] = append(byClass[cl], i)
		}
	}
	unconfirmed := map[int]bool{}
	if len(classes) > 0 {
		const maxAgain = 4
		var again []int
		for round := 0; len(again) < maxAgain; round++ {
			added := false
			for _, cl := range classes {
				if l := byClass[cl]; round < len(l) && len(again) < maxAgain {
					again = append(again, l[round])
					added = true
				}
			}
			if !added {
				break
			}
		}
		picked := map[int]bool{}
		for _, i := range again {
			picked[i] = true
		}
		n := 0
		for _, l := range byClass {
			for _, i := range l {
				n++
				if !picked[i] {
					unconfirmed[i] = true
				}
			}
		}
		c.CountN("dualc-first-run-disagreements", n)
		atomic.StoreInt32(&patient, 1)
		setPhase(6 * time.Second)
		var l2 []string
		var done []int
		started := time.Now()
		for _, i := range again {
			if time.Since(started) > 3*time.Minute { // a broken tree: enough has been confirmed
				unconfirmed[i] = true
				continue
			}
			done = append(done, i)
			first := dualFail(obs[i], KV(outs[i]))
			firstObs := obs[i].keyString() + " " + obs[i].infra + obs[i].hang
			obs[i] = runDualC(ds[i], fmt.Sprintf("/c20/dcc%d", i), true)
			if obs[i].infra != "" { // once more
				obs[i] = runDualC(ds[i], fmt.Sprintf("/c20/dcd%d", i), true)
			}
			l2 = append(l2, dualLine(ds[i], obs[i]))
			c.Note(fmt.Sprintf("dualc: first run (%s: %s) of `%s` repeated alone", first, firstObs, ds[i].line()))
		}
		o2 := c.Drive(l2)
		for k, i := range done {
			lines[i], outs[i] = l2[k], o2[k]
			if dualFail(obs[i], KV(outs[i])) == "" {
				c.Count("dualc-first-run-disagreement-not-reproduced-alone")
			} else {
				c.Count("dualc-first-run-disagreement-confirmed-alone")
			}
		}
		c.CountN("dualc-first-run-disagreements-not-rerun-not-reported", len(unconfirmed))
		atomic.StoreInt32(&patient, 0)
	}
	for i, d := range ds {
		o := obs[i]
		m := KV(outs[i])
		caseLine := "c20 dualc " + d.line()
		if unconfirmed[i] {
			continue
		}
		if o.infra != "" {
			c.Count("dualc-not-exercised")
			c.Note("not judged: " + caseLine + ": " + o.infra)
			continue
		}
		c.Eval(caseLine, true)
		c.Count(fmt.Sprintf("dualc-lc%s-wc%s-first-%s", B01(d.lc), B01(d.wc), map[bool]string{true: "loser", false: "winner"}[d.loserFirst]))
		c.Count("dualc-how1-" + d.how1)
		c.Count("dualc-how2-" + d.how2)
		if o.hang != "" {
			c.Find(Finding{Kind: "oracle", Class: "requester-hangs", Case: caseLine, Impl: "a call into the implementation did not return: " + o.hang, Spec: "returns"})
			continue
		}
		c.Count("dualc-stage0-" + o.key[0])
		if i%(len(ds)/4+1) == 0 {
			c.Sample(lines[i] + " => " + outs[i])
		}
		if got := o.keyString(); got != m["model"] {
			c.Find(Finding{Kind: "corr", Class: "dual-pulls-with-consumers", Case: caseLine, Impl: got, Model: m["model"], Detail: strings.Join(o.notes, "; ")})
		}
		if v := m["verdict"]; v != "ok" {
			c.Find(Finding{Kind: "oracle", Class: "dual-" + v, Case: caseLine, Impl: o.keyString(), Spec: v + " (per stage: r<registered>.l<ok,cc,up,closed,served>.w<…>; model " + m["model"] + ")", Detail: strings.Join(o.notes, "; ")})
		}
	}
}
