package main

import (
	"bufio"
	"crypto/md5"
	"encoding/base64"
	"encoding/binary"
	"encoding/hex"
	"fmt"
	"net"
	"strings"
	"sync"
	"syscall"
	"time"
)

// A scripted fake camera on a loopback listener.  The i-th request received on a connection is
// answered with the i-th response token of the script; after a successful PLAY the play events
// are executed when the harness says so.

const (
	camUser  = "admin"
	camPass  = "pa55"
	camRealm = "cam-realm"
	camNonce = "0a1b2c3d"
)

type seenReq struct {
	Method    string
	URL       string
	CSeq      string
	Auth      string // none | basic | digest | other
	Cred      string // plain | md5 | wrong | -   (which password the credentials were computed from)
	Session   string
	Transport string
}

// target classifies what the request is addressed to: b = the route URL itself (no Transport),
// v / a = the video / audio track's control URL resolved against the route URL, with the TCP
// interleaved transport on the track's channel pair, x = anything else
func (r seenReq) target(base string) string {
	switch r.Method {
	case "SETUP":
		switch {
		case (r.URL == base+"/trackID=0" || r.URL == base+"/abs0") && r.Transport == "RTP/AVP/TCP;unicast;interleaved=0-1":
			return "v"
		case (r.URL == base+"/trackID=1" || r.URL == base+"/abs1") && r.Transport == "RTP/AVP/TCP;unicast;interleaved=2-3":
			return "a"
		}
		return "x"
	default:
		if r.URL == base && r.Transport == "" {
			return "b"
		}
		return "x"
	}
}

// tok: the request as compared with the model: method, auth scheme, which password, Session echo, target
func (r seenReq) tok(base string) string { return r.String() + ":" + r.target(base) }

func (r seenReq) String() string {
	s := "x"
	switch r.Session {
	case "":
		s = "-"
	case "77":
		s = "s"
	case "77;timeout=60":
		s = "st"
	}
	return fmt.Sprintf("%s:%s:%s:%s", r.Method, r.Auth, r.Cred, s)
}

type camConn struct {
	c        net.Conn
	br       *bufio.Reader
	mu       sync.Mutex
	reqs     []seenReq
	cseqs    []string
	playedAt int           // number of requests received when PLAY was answered with success
	peerGone chan struct{} // closed when the client's side of the connection is seen closed (EOF / error on read)
	played   chan struct{} // closed when a PLAY was answered with success
	dead     chan struct{} // closed when the camera itself closed the connection
	deadOnce sync.Once
	wmu      sync.Mutex
	// a camera with gatePlay withholds the answer to PLAY on every connection until the harness lets it
	// go (this is how the order of the registrations of simultaneous pulls is forced without hooks)
	playAsked chan struct{} // closed when the PLAY request has been received
	playGate  chan struct{} // closed by the harness: answer PLAY now
	gateOnce  sync.Once
	// a strict camera (RFC 2326): the session id it handed out with a SETUP answer must come back on every
	// later request (454 Session Not Found otherwise); every Digest challenge carries a fresh nonce
	sessGiven bool
	resps     []string        // the response token actually used for each request up to the successful PLAY
	nonces    map[string]bool // the nonces this connection was challenged with
	nonceN    int
}

func (cc *camConn) freshNonce() string {
	cc.mu.Lock()
	defer cc.mu.Unlock()
	cc.nonceN++
	n := fmt.Sprintf("%s%02d", camNonce, cc.nonceN)
	if cc.nonces == nil {
		cc.nonces = map[string]bool{}
	}
	cc.nonces[n] = true
	return n
}

// nonceOK: a nonce this camera has handed out on this connection
func (cc *camConn) nonceOK(n string) bool {
	if n == camNonce {
		return true
	}
	cc.mu.Lock()
	defer cc.mu.Unlock()
	return cc.nonces[n]
}

func (cc *camConn) responses() []string {
	cc.mu.Lock()
	defer cc.mu.Unlock()
	return append([]string(nil), cc.resps...)
}

func (cc *camConn) releasePlay() { cc.gateOnce.Do(func() { close(cc.playGate) }) }

type camera struct {
	ln       net.Listener
	script   []string
	sdp      string
	mu       sync.Mutex
	conns    []*camConn
	accepts  chan *camConn
	gatePlay bool // set before the first connection arrives
	strict   bool // RFC 2326 camera: insists on its session id after SETUP, fresh nonce per Digest challenge (set before the first connection)
}

func newCamera(script []string, sdp string) (*camera, error) {
	var ln net.Listener
	var err error
	for try := 0; try < 100; try++ { // a loaded machine may be short of ports / descriptors for a moment
		if ln, err = net.Listen("tcp", "127.0.0.1:0"); err == nil {
			break
		}
		time.Sleep(100 * time.Millisecond)
	}
	if err != nil {
		return nil, err
	}
	cam := &camera{ln: ln, script: script, sdp: sdp, accepts: make(chan *camConn, 64)}
	go cam.acceptLoop()
	return cam, nil
}

func (cam *camera) addr() string { return cam.ln.Addr().String() }

func (cam *camera) close() {
	cam.ln.Close()
	cam.mu.Lock()
	for _, c := range cam.conns {
		c.kill(false)
	}
	cam.mu.Unlock()
}

func (cam *camera) acceptLoop() {
	for {
		c, err := cam.ln.Accept()
		if err != nil {
			return
		}
		cc := &camConn{c: c, br: bufio.NewReader(c), peerGone: make(chan struct{}), played: make(chan struct{}), dead: make(chan struct{}),
			playAsked: make(chan struct{}), playGate: make(chan struct{})}
		cam.mu.Lock()
		cam.conns = append(cam.conns, cc)
		cam.mu.Unlock()
		cam.accepts <- cc
		go cam.serve(cc)
	}
}

func (cc *camConn) kill(reset bool) {
	cc.deadOnce.Do(func() {
		if reset {
			if t, ok := cc.c.(*net.TCPConn); ok {
				t.SetLinger(0)
			}
		}
		cc.c.Close()
		close(cc.dead)
	})
}

func (cc *camConn) write(b []byte) error {
	cc.wmu.Lock()
	defer cc.wmu.Unlock()
	cc.c.SetWriteDeadline(time.Now().Add(5 * time.Second))
	_, err := cc.c.Write(b)
	return err
}

func (cc *camConn) requests() []seenReq {
	cc.mu.Lock()
	defer cc.mu.Unlock()
	return append([]seenReq(nil), cc.reqs...)
}

// readRequest reads one RTSP request (no body expected from the pull client).  Interleaved
// frames or responses sent by the client are skipped.
func (cc *camConn) readRequest() (*seenReq, map[string]string, error) {
	for {
		line, err := cc.br.ReadString('\n')
		if err != nil {
			return nil, nil, err
		}
		line = strings.TrimRight(line, "\r\n")
		if line == "" {
			continue
		}
		hdr := map[string]string{}
		for {
			h, err := cc.br.ReadString('\n')
			if err != nil {
				return nil, nil, err
			}
			h = strings.TrimRight(h, "\r\n")
			if h == "" {
				break
			}
			if i := strings.Index(h, ":"); i > 0 {
				hdr[strings.ToLower(strings.TrimSpace(h[:i]))] = strings.TrimSpace(h[i+1:])
			}
		}
		if strings.HasPrefix(line, "RTSP/") { // a response of the client to a camera request
			continue
		}
		f := strings.Fields(line)
		if len(f) != 3 {
			return &seenReq{Method: "MALFORMED"}, hdr, nil
		}
		r := &seenReq{Method: f[0], URL: f[1], CSeq: hdr["cseq"], Session: hdr["session"], Transport: hdr["transport"], Auth: "none", Cred: "-"}
		if a, ok := hdr["authorization"]; ok {
			r.Auth, r.Cred = classifyAuth(a, f[0], f[1], cc.nonceOK)
		}
		return r, hdr, nil
	}
}

func md5hex(s string) string {
	d := md5.Sum([]byte(s))
	return hex.EncodeToString(d[:])
}

func digestResponse(user, realm, pass, nonce, method, uri string) string {
	return md5hex(md5hex(user+":"+realm+":"+pass) + ":" + nonce + ":" + md5hex(method+":"+uri))
}

// classifyAuth: which scheme, and from which password the credentials were derived
// (independent re-computation per RFC 2617; not the client's own code)
func classifyAuth(a, method, uri string, nonceOK func(string) bool) (scheme, cred string) {
	switch {
	case strings.HasPrefix(a, "Basic "):
		raw, err := base64.StdEncoding.DecodeString(a[6:])
		if err != nil {
			return "basic", "wrong"
		}
		switch string(raw) {
		case camUser + ":" + camPass:
			return "basic", "plain"
		case camUser + ":" + md5hex(camPass):
			return "basic", "md5"
		}
		return "basic", "wrong"
	case strings.HasPrefix(a, "Digest "):
		kv := map[string]string{}
		for _, part := range strings.Split(a[7:], ",") {
			if i := strings.Index(part, "="); i > 0 {
				kv[strings.TrimSpace(part[:i])] = strings.Trim(strings.TrimSpace(part[i+1:]), `"`)
			}
		}
		if kv["username"] != camUser || kv["realm"] != camRealm || !nonceOK(kv["nonce"]) || kv["uri"] != uri {
			return "digest", "wrong"
		}
		switch kv["response"] {
		case digestResponse(camUser, camRealm, camPass, kv["nonce"], method, uri):
			return "digest", "plain"
		case digestResponse(camUser, camRealm, md5hex(camPass), kv["nonce"], method, uri):
			return "digest", "md5"
		}
		return "digest", "wrong"
	}
	return "other", "wrong"
}

// respond writes the response for token tok to request r; returns false when the connection
// is finished from the camera's side (closed / reset / silent)
func (cam *camera) respond(cc *camConn, r *seenReq, tok string) (cont bool, success bool) {
	status := func(code int, extra string, body string) {
		text := map[int]string{200: "OK", 401: "Unauthorized", 404: "Not Found", 500: "Internal Server Error", 300: "Multiple Choices", 301: "Moved Permanently", 199: "Odd", 454: "Session Not Found", 461: "Unsupported Transport", 201: "Created"}[code]
		if text == "" {
			text = "X"
		}
		s := fmt.Sprintf("RTSP/1.0 %03d %s\r\nCSeq: %s\r\n%s", code, text, r.CSeq, extra)
		if body != "" {
			s += fmt.Sprintf("Content-Type: application/sdp\r\nContent-Length: %d\r\n", len(body))
		}
		s += "\r\n" + body
		cc.write([]byte(s))
	}
	body := ""
	if r.Method == "DESCRIBE" {
		body = cam.sdp
	}
	switch {
	case tok == "ok":
		status(200, "", body)
		return true, true
	case tok == "ok+s":
		status(200, "Session: 77\r\n", body)
		return true, true
	case tok == "ok+st":
		status(200, "Session: 77;timeout=60\r\n", body)
		return true, true
	case tok == "u-dg":
		nonce := camNonce
		if cam.strict {
			nonce = cc.freshNonce()
		}
		status(401, fmt.Sprintf("WWW-Authenticate: Digest realm=\"%s\", nonce=\"%s\"\r\n", camRealm, nonce), "")
	case tok == "u-db":
		status(401, fmt.Sprintf("WWW-Authenticate: Digest realm=\"%s\"\r\n", camRealm), "")
	case tok == "u-bg":
		status(401, fmt.Sprintf("WWW-Authenticate: Basic realm=\"%s\"\r\n", camRealm), "")
	case tok == "u-bb":
		status(401, "WWW-Authenticate: Basic charset=\"x\"\r\n", "")
	case tok == "u-no":
		status(401, "", "")
	case tok == "u-ot":
		status(401, "WWW-Authenticate: Bearer realm=\"x\"\r\n", "")
	case strings.HasPrefix(tok, "s") && len(tok) == 4:
		var code int
		fmt.Sscanf(tok[1:], "%d", &code)
		status(code, "", body)
		return true, code >= 200 && code <= 300
	case tok == "mal":
		cc.write([]byte("HELLO THERE\r\n\r\n"))
	case tok == "mal2":
		cc.write([]byte("RTSP/1.0 2000 OK\r\nCSeq: " + r.CSeq + "\r\n\r\n"))
	case tok == "mal3":
		cc.write([]byte("RTSP/1.0 200 OK\r\nCSeq " + r.CSeq + " no colon here\r\n\r\n"))
	case tok == "eof":
		cc.kill(false)
		return false, false
	case tok == "rst":
		cc.kill(true)
		return false, false
	case tok == "eofb": // headers promise a body, the connection ends in the middle of it
		cc.write([]byte(fmt.Sprintf("RTSP/1.0 200 OK\r\nCSeq: %s\r\nContent-Length: 400\r\n\r\nv=0\r\no=- 0 0 IN", r.CSeq)))
		cc.kill(false)
		return false, false
	case tok == "sil":
		return false, false // say nothing, keep the connection
	default:
		status(500, "", "")
	}
	return true, false
}

// serve: the handshake part of the script, then answer whatever the client sends (keep-alive
// OPTIONS) until the connection ends
func (cam *camera) serve(cc *camConn) {
	defer close(cc.peerGone)
	i := 0
	playedSignalled := false
	for {
		r, _, err := cc.readRequest()
		if err != nil {
			return
		}
		cc.mu.Lock()
		cc.reqs = append(cc.reqs, *r)
		cc.mu.Unlock()
		tok := "ok"
		if playedSignalled {
			tok = "ok" // keep-alive and anything else after PLAY
		} else if i < len(cam.script) {
			tok = cam.script[i]
		}
		i++
		if cam.strict && !playedSignalled && cc.sessGiven && r.Session != "77" && !strings.HasPrefix(r.Session, "77;") {
			tok = "s454" // RFC 2326: a request of a session that does not name it — Session Not Found
		}
		if !playedSignalled {
			cc.mu.Lock()
			cc.resps = append(cc.resps, tok)
			cc.mu.Unlock()
		}
		if cam.gatePlay && r.Method == "PLAY" && !playedSignalled {
			close(cc.playAsked)
			select {
			case <-cc.playGate:
			case <-cc.dead:
				return
			}
		}
		cont, success := cam.respond(cc, r, tok)
		if cam.strict && success && r.Method == "SETUP" && (tok == "ok+s" || tok == "ok+st") {
			cc.sessGiven = true
		}
		if r.Method == "PLAY" && success && !playedSignalled {
			playedSignalled = true
			cc.mu.Lock()
			cc.playedAt = len(cc.reqs)
			cc.mu.Unlock()
			close(cc.played)
		}
		if !cont {
			// silent or closed: just watch for the client closing its side
			buf := make([]byte, 256)
			for {
				if _, err := cc.c.Read(buf); err != nil {
					return
				}
			}
		}
	}
}

// rtpPacket: an interleaved frame on channel ch carrying a minimal RTP packet (single NAL, type 1)
func rtpPacket(ch byte, seq uint16, marker byte) []byte {
	payload := []byte{0x41, 0x9a, byte(seq), byte(seq >> 8), 0x55, marker}
	rtp := make([]byte, 12+len(payload))
	rtp[0] = 0x80
	rtp[1] = 96
	binary.BigEndian.PutUint16(rtp[2:], seq)
	binary.BigEndian.PutUint32(rtp[4:], uint32(seq)*3000)
	binary.BigEndian.PutUint32(rtp[8:], 0x11223344)
	copy(rtp[12:], payload)
	out := make([]byte, 4+len(rtp))
	out[0] = '$'
	out[1] = ch
	binary.BigEndian.PutUint16(out[2:], uint16(len(rtp)))
	copy(out[4:], rtp)
	return out
}

// afterPlay: number of requests received after the successful PLAY (keep-alives)
func (cc *camConn) afterPlay() int {
	cc.mu.Lock()
	defer cc.mu.Unlock()
	if cc.playedAt == 0 {
		return 0
	}
	return len(cc.reqs) - cc.playedAt
}

// reservePort binds a loopback TCP port WITHOUT listening on it: a connection attempt is refused,
// and — unlike a listener that was closed — nobody else (another scenario of this run, another
// process on the machine) can be handed the port while the scenario runs.
func reservePort() (addr string, release func(), err error) {
	for try := 0; try < 100; try++ {
		var fd int
		fd, err = syscall.Socket(syscall.AF_INET, syscall.SOCK_STREAM, 0)
		if err == nil {
			if err = syscall.Bind(fd, &syscall.SockaddrInet4{Port: 0, Addr: [4]byte{127, 0, 0, 1}}); err == nil {
				var sa syscall.Sockaddr
				if sa, err = syscall.Getsockname(fd); err == nil {
					if in4, ok := sa.(*syscall.SockaddrInet4); ok && in4.Port != 0 {
						return fmt.Sprintf("127.0.0.1:%d", in4.Port), func() { syscall.Close(fd) }, nil
					}
					err = fmt.Errorf("no port")
				}
			}
			syscall.Close(fd)
		}
		time.Sleep(100 * time.Millisecond)
	}
	return "", nil, err
}
