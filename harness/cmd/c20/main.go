package main

import (
	"bufio"
	"fmt"
	"net"
	"os"
	"runtime"
	"strings"
	"sync"
	"sync/atomic"
	"time"

	. "verifharness/hlib"

	"github.com/cnotch/ipchub/config"
	"github.com/cnotch/ipchub/media"
	"github.com/cnotch/ipchub/provider/route"
	"github.com/cnotch/ipchub/service/rtsp" // its init registers the RTSP pull stream factory
	"github.com/cnotch/ipchub/stats"
	"github.com/cnotch/ipchub/utils/verifhook"
)

// C20: on-demand pull.  Implementation: media.GetOrCreate → route.Match → pullStreamFactory.Create →
// PullClient.Open / playStream against a scripted fake camera on a loopback listener.
func main() { Main("C20", runC20) }

const (
	heartbeat = 150 * time.Millisecond
	settle    = 15 * time.Second // generous bound for "eventually" conditions; never reached on a healthy run
)

// ---- scenario ----

type scenario struct {
	id      int
	user    bool     // the route URL carries user:password
	listen  bool     // the camera listens (false: connection refused)
	urlPath bool     // the route URL has a path ("/live"); false: "rtsp://host:port"
	script  []string // response tokens of the handshake, one per received request
	sdp     string   // SDP kind of the DESCRIBE body
	play    []string // play events after a successful PLAY; the last one is terminal
	keep    bool     // route.KeepAlive
	rtsp    bool     // the requester is a real RTSP session (DESCRIBE over a net.Pipe) instead of a direct media.GetOrCreate call
}

func (s *scenario) line() string {
	j := func(x []string) string {
		if len(x) == 0 {
			return "-"
		}
		return strings.Join(x, ",")
	}
	return fmt.Sprintf("user=%s listen=%s urlpath=%s keep=%s rtsp=%s sdp=%s script=%s play=%s", B01(s.user), B01(s.listen), B01(s.urlPath), B01(s.keep), B01(s.rtsp), s.sdp, j(s.script), j(s.play))
}

func parseScenario(kv map[string]string) *scenario {
	sp := func(x string) []string {
		if x == "-" || x == "" {
			return nil
		}
		return strings.Split(x, ",")
	}
	return &scenario{user: kv["user"] == "1", listen: kv["listen"] == "1", urlPath: kv["urlpath"] == "1", keep: kv["keep"] == "1", rtsp: kv["rtsp"] == "1", sdp: kv["sdp"], script: sp(kv["script"]), play: sp(kv["play"])}
}

const sdpHead = "v=0\r\no=- 0 0 IN IP4 127.0.0.1\r\ns=cam\r\nc=IN IP4 127.0.0.1\r\nt=0 0\r\n"
const sdpVideo = "m=video 0 RTP/AVP 96\r\na=rtpmap:96 H264/90000\r\na=fmtp:96 packetization-mode=1; sprop-parameter-sets=Z2QAH6zZQFAFuhAAAAMAEAAAAwPI8YMZYA==,aO+8sA==; profile-level-id=64001F\r\n"
const sdpAudio = "m=audio 0 RTP/AVP 97\r\na=rtpmap:97 MPEG4-GENERIC/44100/2\r\na=fmtp:97 profile-level-id=1;mode=AAC-hbr;sizelength=13;indexlength=3;indexdeltalength=3; config=121056E500\r\n"

func sdpBody(kind, base string) string {
	switch kind {
	case "va":
		return sdpHead + sdpVideo + "a=control:trackID=0\r\n" + sdpAudio + "a=control:trackID=1\r\n"
	case "v":
		return sdpHead + sdpVideo + "a=control:trackID=0\r\n"
	case "a":
		return sdpHead + sdpAudio + "a=control:trackID=1\r\n"
	case "none":
		return sdpHead
	case "vnoctl": // a video section without a control attribute: no SETUP is sent for it
		return sdpHead + sdpVideo
	case "absctl": // absolute control URLs
		return sdpHead + sdpVideo + "a=control:" + base + "/abs0\r\n" + sdpAudio + "a=control:" + base + "/abs1\r\n"
	case "bad":
		return "this is not sdp\r\n"
	case "nofmt": // an m= line with a non-RTP protocol has no Format entries
		return sdpHead + "m=video 0 udp wb\r\na=control:trackID=0\r\n"
	}
	return sdpHead
}

// ---- observation ----

type observation struct {
	out       string // stream | nil | hang | panic
	reqs      []string
	dialled   bool
	closed    bool // the client closed its connection (after a failed Open, or after the play phase ended)
	reg       bool // the stream appeared in the registry under the requested path
	delivered int  // packets that reached the attached consumer
	sent      int
	clean     bool // after the end: path not registered, consumer closed, connection closed
	cclosed   bool
	regAfter  bool // something is registered under the path at the very end
	cseqOK    bool // CSeq strictly increasing from 1
	extra     int  // requests after the successful PLAY (keep-alive)
	extraBad  bool
	panicked  bool
	secondBad bool // a second request while the pull is live did not get the same stream
	idleTask  int  // idle-close tasks posted for the pulled stream (expected: 1 unless the route says keepalive)
	notes     []string
}

func (o *observation) String() string {
	r := "-"
	if len(o.reqs) > 0 {
		r = strings.Join(o.reqs, ",")
	}
	return fmt.Sprintf("out=%s dialled=%s reqs=%s closed=%s reg=%s sent=%d delivered=%d clean=%s cclosed=%s regafter=%s cseq=%s",
		o.out, B01(o.dialled), r, B01(o.closed), B01(o.reg), o.sent, o.delivered, B01(o.clean), B01(o.cclosed), B01(o.regAfter), B01(o.cseqOK))
}

type testConsumer struct {
	n      int32
	closed int32
}

func (c *testConsumer) Consume(p media.Pack) { atomic.AddInt32(&c.n, 1) }
func (c *testConsumer) Close() error         { atomic.StoreInt32(&c.closed, 1); return nil }

// the "eventually" bound shrinks once several waits have run into it: on a healthy tree it is never
// reached, on a broken one the run must still end in reasonable time
var timeouts int32

func settleNow() time.Duration {
	if atomic.LoadInt32(&timeouts) >= 3 {
		return 2500 * time.Millisecond
	}
	return settle
}

func waitFor(d time.Duration, cond func() bool) bool {
	if d == settle {
		d = settleNow()
	}
	deadline := time.Now().Add(d)
	for {
		if cond() {
			return true
		}
		if time.Now().After(deadline) {
			atomic.AddInt32(&timeouts, 1)
			return false
		}
		time.Sleep(2 * time.Millisecond)
	}
}

func waitCh(ch <-chan struct{}, d time.Duration) bool {
	select {
	case <-ch:
		return true
	case <-time.After(d):
		return false
	}
}

// runScenario executes one scenario against the real code
func runScenario(s *scenario, path string) *observation {
	o := &observation{cseqOK: true}
	cam, err := newCamera(s.script, "")
	if err != nil {
		Fatal("listen: %v", err)
	}
	host := cam.addr()
	if !s.listen {
		cam.ln.Close() // nobody listens on that port any more: connection refused
	}
	defer cam.close()
	up := ""
	if s.urlPath {
		up = "/live"
	}
	cam.sdp = sdpBody(s.sdp, "rtsp://"+host+up)
	cred := ""
	if s.user {
		cred = camUser + ":" + camPass + "@"
	}
	if err := route.Save(&route.Route{Pattern: path, URL: "rtsp://" + cred + host + up, KeepAlive: s.keep}); err != nil {
		Fatal("route.Save: %v", err)
	}
	defer route.Del(path)

	type res struct {
		s     *media.Stream
		panic interface{}
		code  string
	}
	done := make(chan res, 1)
	go func() {
		var r res
		defer func() {
			if p := recover(); p != nil {
				r.panic = p
			}
			done <- r
		}()
		if s.rtsp {
			r.s, r.code = describeViaRtsp(strings.ToUpper(path), path)
			return
		}
		r.s = media.GetOrCreate(strings.ToUpper(path) + "/.") // a non-canonical spelling of the routed path
	}()
	var stream *media.Stream
	select {
	case r := <-done:
		switch {
		case r.panic != nil:
			o.out = "panic"
			o.panicked = true
			o.notes = append(o.notes, fmt.Sprint(r.panic))
		case r.s != nil:
			o.out = "stream"
			stream = r.s
		case s.rtsp && r.code != "404":
			o.out = "status-" + r.code // a failed pull must be answered with 404 Not Found
		default:
			o.out = "nil"
		}
	case <-time.After(hangAfter):
		o.out = "hang"
	}
	var cc *camConn
	select {
	case cc = <-cam.accepts:
		o.dialled = true
	default:
	}
	if o.out == "hang" {
		// let the stuck requester go, so that the harness itself does not leak
		if cc != nil {
			cc.kill(false)
		}
		select {
		case <-done:
		case <-time.After(settle):
		}
	}
	collect := func() {
		if cc == nil {
			return
		}
		last := 0
		cc.mu.Lock()
		playedAt := cc.playedAt
		cc.mu.Unlock()
		for i, r := range cc.requests() {
			if playedAt > 0 && i >= playedAt { // after PLAY: only keep-alive OPTIONS are expected
				o.extra++
				if r.Method != "OPTIONS" || r.Cred == "wrong" {
					o.notes = append(o.notes, "after-play:"+r.String())
					o.extraBad = true
				}
				continue
			}
			o.reqs = append(o.reqs, r.String())
			var n int
			fmt.Sscanf(r.CSeq, "%d", &n)
			if n <= last {
				o.cseqOK = false
			}
			last = n
		}
	}
	if stream == nil {
		if cc != nil && o.out != "hang" {
			o.closed = waitCh(cc.peerGone, 3*time.Second)
		}
		_, o.regAfter = media.VerifRegistry()[path]
		o.clean = !o.regAfter && (cc == nil || o.closed)
		if o.panicked {
			// whether the abandoned connection is closed depends on the garbage collector (finalizer): not compared
			o.closed, o.clean = false, false
		}
		collect()
		return o
	}
	// success: the stream must appear under the requested path
	o.reg = waitFor(settle, func() bool { return media.Get(path) == stream })
	// a second request for the path while the pull is live is served by the same stream, without a second pull
	if o.reg {
		again := media.GetOrCreate(" " + path + " ")
		select {
		case extra := <-cam.accepts:
			o.notes = append(o.notes, "second request dialled the camera again")
			o.secondBad = true
			extra.kill(false)
		default:
		}
		if again != stream {
			o.notes = append(o.notes, "second request got another stream")
			o.secondBad = true
		}
	}
	var task *media.VerifIdleTask
	for _, t := range media.VerifIdleTasks() {
		if t.Stream == stream {
			o.idleTask++
			task = t
			if t.ClosedStatus != media.StreamNoConsumer || t.D != 5*time.Minute {
				o.notes = append(o.notes, fmt.Sprintf("idle task with status %d period %v", t.ClosedStatus, t.D))
				o.idleTask += 10
			}
		}
	}
	cons := &testConsumer{}
	cid := stream.StartConsume(cons, media.RTPPacket, "c20")
	_ = cid
	seq := uint16(1)
	terminal := "eof"
	for i, ev := range s.play {
		if i == len(s.play)-1 {
			terminal = ev
			break
		}
		switch {
		case len(ev) == 2 && ev[0] == 'p':
			cc.write(rtpPacket(ev[1]-'0', seq, 0))
			seq++
			o.sent++
		case ev == "opt": // a request from the camera: the client must answer it and go on
			cc.write([]byte("OPTIONS * RTSP/1.0\r\nCSeq: 900\r\n\r\n"))
		case ev == "resp": // a stray response: ignored by the client
			cc.write([]byte("RTSP/1.0 200 OK\r\nCSeq: 901\r\n\r\n"))
		case ev == "ka": // let the heart-beat interval pass: the next packet makes the client send OPTIONS
			time.Sleep(heartbeat + 60*time.Millisecond)
		}
	}
	want := int32(o.sent)
	waitFor(settle, func() bool { return atomic.LoadInt32(&cons.n) >= want })
	o.delivered = int(atomic.LoadInt32(&cons.n))
	switch terminal {
	case "eof":
		cc.kill(false)
	case "rst":
		cc.kill(true)
	case "sil": // the camera goes silent: the read deadline must end the pull
	case "gar":
		cc.write([]byte("\x01\x02garbage that is neither RTP nor RTSP\r\n\r\n"))
	case "trunc": // an interleaved frame header promising more bytes than ever arrive, then EOF
		cc.write([]byte{'$', 0, 0x10, 0x00, 1, 2, 3})
		cc.kill(false)
	case "idle": // nobody consumes any more and the idle task fires: the stream is closed, the pull must end
		stream.StopConsume(cid)
		if task != nil {
			func() {
				defer func() { recover() }()
				task.Tick(0)
			}()
		} else {
			stream.Close() // (keepalive route: no task; same effect for the pull as an API stop)
		}
		cc.write(rtpPacket(0, seq, 0))
	case "stop": // the stream is closed on the server side (API stop): the pull must notice with the next packet
		stream.Close()
		cc.write(rtpPacket(0, seq, 0))
	case "replace": // another publisher registers on the path: the pulled stream is retired
		stream.StopConsume(cid)
		other := media.NewStream(path, cam.sdp)
		media.Regist(other)
		cc.write(rtpPacket(0, seq, 0))
		defer media.Unregist(other)
		ok := waitFor(settle, func() bool { return atomic.LoadInt32(&cons.closed) == 1 && waitChNow(cc.peerGone) })
		o.cclosed = atomic.LoadInt32(&cons.closed) == 1
		o.closed = waitChNow(cc.peerGone)
		o.regAfter = media.VerifRegistry()[path] == stream
		o.clean = ok && !o.regAfter && media.Get(path) == other
		collect()
		return o
	}
	ok := waitFor(settle, func() bool {
		_, still := media.VerifRegistry()[path]
		return !still && atomic.LoadInt32(&cons.closed) == 1 && waitChNow(cc.peerGone)
	})
	_, o.regAfter = media.VerifRegistry()[path]
	o.cclosed = atomic.LoadInt32(&cons.closed) == 1
	o.closed = waitChNow(cc.peerGone)
	o.clean = ok
	collect()
	return o
}

// describeViaRtsp: a real RTSP session of the server (rtsp.CreateAcceptHandler on a net.Pipe) receives
// DESCRIBE for the routed path; returns the stream the session found (on 200) and the status code.
func describeViaRtsp(reqPath, canon string) (*media.Stream, string) {
	cli, srv := net.Pipe()
	rtsp.CreateAcceptHandler()(srv)
	defer cli.Close()
	cli.SetDeadline(time.Now().Add(hangAfter + 2*time.Second))
	go fmt.Fprintf(cli, "DESCRIBE rtsp://localhost%s RTSP/1.0\r\nCSeq: 1\r\nAccept: application/sdp\r\n\r\n", reqPath)
	br := bufio.NewReader(cli)
	line, err := br.ReadString('\n')
	if err != nil {
		return nil, "noanswer"
	}
	f := strings.Fields(line)
	if len(f) < 2 {
		return nil, "malformed"
	}
	if f[1] != "200" {
		return nil, f[1]
	}
	var st *media.Stream
	waitFor(settle, func() bool { st = media.Get(canon); return st != nil })
	if st == nil {
		return nil, "200-but-no-stream"
	}
	return st, "200"
}

func waitChNow(ch <-chan struct{}) bool {
	select {
	case <-ch:
		return true
	default:
		return false
	}
}

// runDual: two simultaneous first requests for one routed path.  Both miss in Get (held together at
// the getorcreate.miss point), both pull from the camera, both register; the registry must end with
// one live stream, the other client must be told (stream closed) and release its connection, and
// its Unregist must not remove the winner.
func runDual(id int, pauseRegist bool) (obs string, notes []string) {
	path := fmt.Sprintf("/c20/dual%d", id)
	cam, err := newCamera(nil, "")
	if err != nil {
		Fatal("listen: %v", err)
	}
	defer cam.close()
	cam.sdp = sdpBody("va", "rtsp://"+cam.addr()+"/live")
	route.Save(&route.Route{Pattern: path, URL: "rtsp://" + cam.addr() + "/live", KeepAlive: true})
	defer route.Del(path)
	base := stats.RtspConns.GetSample().Active
	var arrived int32
	both := make(chan struct{})
	var registArmed int32
	if pauseRegist {
		registArmed = 1
	}
	registPaused, registRelease := make(chan struct{}), make(chan struct{})
	verifhook.Set(func(point string, _ uint32) {
		switch point {
		case "getorcreate.miss":
			if atomic.AddInt32(&arrived, 1) == 2 {
				close(both)
			}
			waitCh(both, 3*time.Second)
		case "regist.loaded":
			if atomic.CompareAndSwapInt32(&registArmed, 1, 0) {
				close(registPaused)
				waitCh(registRelease, 2*time.Second)
			}
		}
	})
	defer verifhook.Set(nil)
	res := make([]*media.Stream, 2)
	var wg sync.WaitGroup
	for i := 0; i < 2; i++ {
		wg.Add(1)
		go func(i int) {
			defer wg.Done()
			defer func() { recover() }()
			res[i] = media.GetOrCreate(path)
		}(i)
	}
	wg.Wait()
	if pauseRegist {
		// the first Regist is held after its Load; give the second one the chance to run inside it
		if waitCh(registPaused, 3*time.Second) {
			time.Sleep(30 * time.Millisecond)
		}
		close(registRelease)
	}
	if res[0] == nil || res[1] == nil || res[0] == res[1] {
		return "live=? registered=0 loserconn=0 winnerkept=0 clean=0 leak=0 both=0", []string{"GetOrCreate did not return two distinct streams"}
	}
	var conns []*camConn
	for len(conns) < 2 {
		select {
		case cc := <-cam.accepts:
			conns = append(conns, cc)
		case <-time.After(settle):
			return "live=? registered=0 loserconn=0 winnerkept=0 clean=0 leak=0 both=0", []string{"fewer than two camera connections"}
		}
	}
	// both Regist calls done: one of the two is the registered one and the other is not OK any more,
	// or (the defect) both stay OK
	waitFor(3*time.Second, func() bool {
		w := media.Get(path)
		return (w == res[0] && res[1].VerifStatus() != media.StreamOK) || (w == res[1] && res[0].VerifStatus() != media.StreamOK)
	})
	live := 0
	for _, s := range res {
		if s.VerifStatus() == media.StreamOK {
			live++
		}
	}
	winner := media.Get(path)
	registered := winner == res[0] || winner == res[1]
	// every camera connection gets a packet: the retired client's next packet must end its pull
	for _, cc := range conns {
		cc.write(rtpPacket(0, 1, 0))
	}
	loserConn := waitFor(settle/3, func() bool { return waitChNow(conns[0].peerGone) != waitChNow(conns[1].peerGone) || live != 1 })
	loserConn = loserConn && live == 1 && (waitChNow(conns[0].peerGone) != waitChNow(conns[1].peerGone))
	oneConn := waitFor(3*time.Second, func() bool { return stats.RtspConns.GetSample().Active == base+1 })
	winnerKept := media.Get(path) == winner && winner != nil
	// the end: the camera goes away
	for _, cc := range conns {
		cc.kill(false)
	}
	clean := waitFor(settle, func() bool {
		_, still := media.VerifRegistry()[path]
		n, _ := pullGoroutines()
		return !still && stats.RtspConns.GetSample().Active == base && n == 0
	})
	if !oneConn {
		notes = append(notes, "connection counter is not base+1 after the loser left")
	}
	return fmt.Sprintf("live=%d registered=%s loserconn=%s winnerkept=%s clean=%s leak=%s both=1", live, B01(registered), B01(loserConn), B01(winnerKept), B01(clean), B01(!oneConn)), notes
}

// pullGoroutines counts goroutines that are inside the pull client, a consumption loop or a stream's conversion workers
func pullGoroutines() (n int, sample string) {
	buf := make([]byte, 1<<22)
	buf = buf[:runtime.Stack(buf, true)]
	for _, g := range strings.Split(string(buf), "\n\n") {
		if strings.Contains(g, "rtsp.(*PullClient)") || strings.Contains(g, "media.(*consumption).consume") ||
			// the conversion workers of a pulled stream (a stream built for a pull that then fails must not stay alive)
			strings.Contains(g, "rtp.(*Demuxer).process") || strings.Contains(g, "flv.(*Muxer).process") || strings.Contains(g, "mpegts.(*Muxer).process") {
			n++
			if sample == "" {
				sample = g
			}
		}
	}
	return
}

// ---- generators ----

var faultTokens = []string{"s404", "s500", "s301", "s199", "s454", "mal", "mal2", "mal3", "eof", "rst", "sil", "u-no", "u-db", "u-bb", "u-ot", "u-dg", "u-bg"}
var okTokens = []string{"ok", "ok+s", "ok+st", "s200", "s201", "s300"}

func tracksOf(sdp string) int {
	switch sdp {
	case "va", "absctl":
		return 2
	case "v", "a":
		return 1
	}
	return 0
}

// a cooperative script: every request answered with success, optionally after challenges
func coopScript(r *Rng, nreq int, user bool) []string {
	var sc []string
	challenged := false
	for i := 0; i < nreq; i++ {
		if user && !challenged && r.Chance(45) {
			challenged = true
			switch r.Intn(5) {
			case 0:
				sc = append(sc, "u-bg")
			case 1:
				sc = append(sc, "u-dg", "u-dg") // the camera wants the MD5 of the password: second challenge
			case 2:
				sc = append(sc, "u-bg", "u-bg")
			case 3:
				sc = append(sc, "u-bg", "u-dg") // scheme changes between the challenges
			default:
				sc = append(sc, "u-dg")
			}
		}
		sc = append(sc, okTokens[r.Intn(len(okTokens))])
	}
	return sc
}

func genPlay(r *Rng) []string {
	var ev []string
	for i, n := 0, r.Intn(7); i < n; i++ {
		switch k := r.Intn(10); {
		case k < 6:
			ev = append(ev, fmt.Sprintf("p%d", r.Intn(4)))
		case k < 7:
			ev = append(ev, "opt")
		case k < 8:
			ev = append(ev, "resp")
		default:
			ev = append(ev, "ka", fmt.Sprintf("p%d", r.Intn(4)))
		}
	}
	terms := []string{"eof", "rst", "sil", "gar", "trunc", "stop", "replace", "idle", "eof", "rst"}
	return append(ev, terms[r.Intn(len(terms))])
}

func genScenario(r *Rng) *scenario {
	s := &scenario{user: r.Chance(65), listen: !r.Chance(4), urlPath: !r.Chance(6), keep: r.Chance(50)}
	kinds := []string{"va", "va", "v", "v", "a", "none", "vnoctl", "absctl", "bad", "nofmt"}
	s.sdp = kinds[r.Intn(len(kinds))]
	nreq := 3 + tracksOf(s.sdp)
	s.script = coopScript(r, nreq, s.user)
	if r.Chance(55) { // one fault somewhere
		k := r.Intn(len(s.script) + 1)
		f := faultTokens[r.Intn(len(faultTokens))]
		if k >= len(s.script) {
			s.script = append(s.script, f)
		} else {
			s.script[k] = f
		}
	}
	if r.Chance(8) { // repeated challenges
		s.script = append([]string{"u-dg", "u-dg", "u-dg"}, s.script...)
	}
	s.play = genPlay(r)
	s.rtsp = r.Chance(12)
	return s
}

// the systematic part of the quantifier: every step of the handshake × every response kind
func systematic() []*scenario {
	var out []*scenario
	all := append([]string{}, faultTokens...)
	for _, user := range []bool{true, false} {
		for step := 0; step < 5; step++ { // OPTIONS, DESCRIBE, SETUP v, SETUP a, PLAY
			for _, f := range all {
				sc := []string{"ok", "ok", "ok+s", "ok+s", "ok+s"}
				sc[step] = f
				out = append(out, &scenario{user: user, listen: true, urlPath: true, sdp: "va", script: sc, play: []string{"p0", "p2", "eof"}})
			}
			// the same fault after a challenge was answered
			if user {
				for _, f := range all {
					sc := []string{"u-dg", "ok", "ok", "ok+s", "ok+s", "ok+s"}
					sc[step+1] = f
					out = append(out, &scenario{user: true, listen: true, urlPath: true, sdp: "va", script: sc, play: []string{"p0", "eof"}})
				}
			}
		}
	}
	for _, term := range []string{"eof", "rst", "sil", "gar", "trunc", "stop", "replace", "idle"} {
		for _, keep := range []bool{true, false} {
			out = append(out, &scenario{user: true, listen: true, urlPath: true, keep: keep, sdp: "va", script: []string{"u-dg", "ok", "ok", "ok+s", "ok+s", "ok+s"}, play: []string{"p0", "p1", "p2", "p3", "opt", "ka", "p0", term}})
			out = append(out, &scenario{user: false, listen: true, urlPath: true, keep: keep, sdp: "v", script: nil, play: []string{term}})
		}
	}
	for _, sdp := range []string{"va", "v", "a", "none", "vnoctl", "absctl", "bad", "nofmt"} {
		for _, up := range []bool{true, false} {
			out = append(out, &scenario{user: false, listen: true, urlPath: up, sdp: sdp, play: []string{"p0", "eof"}})
		}
	}
	out = append(out, &scenario{user: true, listen: false, urlPath: true, sdp: "va"})
	out = append(out, &scenario{user: true, listen: false, urlPath: true, sdp: "va", rtsp: true})
	for _, f := range []string{"ok", "s404", "eof", "rst", "sil", "mal", "u-no"} {
		out = append(out, &scenario{user: true, listen: true, urlPath: true, sdp: "va", rtsp: true, script: []string{"u-dg", "ok", f}, play: []string{"p0", "p2", "eof"}})
	}
	// a DESCRIBE answer whose body ends early
	out = append(out, &scenario{user: false, listen: true, urlPath: true, sdp: "va", script: []string{"ok", "eofb"}})
	out = append(out, &scenario{user: true, listen: true, urlPath: true, sdp: "va", script: []string{"u-bg", "ok", "eofb"}})
	return out
}

func classOf(verdict string) string {
	if i := strings.Index(verdict, ":"); i >= 0 {
		return verdict[i+1:]
	}
	return verdict
}

// timing of one phase: the NetTimeout override and the derived hang watchdog
var hangAfter = 12 * time.Second

func setPhase(nt time.Duration) {
	config.VerifSetNetTimeouts(nt, heartbeat)
	hangAfter = 4*nt + 2*time.Second // the requester not back after 4 × NetTimeout: reported as a hang
}

func hasSilence(s *scenario) bool {
	for _, t := range s.script {
		if t == "sil" {
			return true
		}
	}
	return len(s.play) > 0 && s.play[len(s.play)-1] == "sil"
}

func obsLine(s *scenario, o *observation) string {
	leak := "0"
	for _, n := range o.notes {
		if strings.HasPrefix(n, "leak:") {
			leak = "1"
		}
	}
	ob := o.String()
	if strings.HasPrefix(o.out, "status-") { // judged by the harness: a failed pull must be answered 404
		ob = strings.Replace(ob, "out="+o.out, "out=nil", 1)
	}
	return "c20 pull " + s.line() + " | " + ob + " leak=" + leak
}

func implKeyOf(o *observation) string {
	out := o.out
	if strings.HasPrefix(out, "status-") {
		out = "nil"
	}
	return fmt.Sprintf("out=%s;reqs=%s;closed=%s;reg=%s;delivered=%d;clean=%s", out, strings.Join(o.reqs, ","), B01(o.closed), B01(o.reg), o.delivered, B01(o.clean))
}

// failing: does the driver's answer disagree with the observation, or does the spec reject it?
func failing(o *observation, m map[string]string) bool {
	return o.idleTask > 1 || o.secondBad || implKeyOf(o) != m["model"] || m["verdict"] != "ok" || o.extraBad || strings.HasPrefix(o.out, "status-")
}

// runBatches runs the scenarios idx (indices into scs) in parallel batches; batch-level leak check
func runBatches(scs []*scenario, idx []int, obs []*observation, tag string) {
	base := stats.RtspConns.GetSample().Active
	const batch = 32
	leakPinned := false
	for lo := 0; lo < len(idx); lo += batch {
		hi := lo + batch
		if hi > len(idx) {
			hi = len(idx)
		}
		var wg sync.WaitGroup
		for _, i := range idx[lo:hi] {
			wg.Add(1)
			go func(i int) {
				defer wg.Done()
				obs[i] = runScenario(scs[i], fmt.Sprintf("/c20/%s%d", tag, i))
			}(i)
		}
		wg.Wait()
		if leakPinned {
			continue // a leak is already pinned on concrete scenarios; later batches cannot be judged any more
		}
		okc := waitFor(6*time.Second, func() bool { return stats.RtspConns.GetSample().Active == base })
		okg := waitFor(6*time.Second, func() bool { n, _ := pullGoroutines(); return n == 0 })
		if !okc || !okg {
			// pin the leak on single scenarios: re-run the batch one by one (stop at the third culprit)
			culprits := 0
			for _, i := range idx[lo:hi] {
				if culprits >= 3 {
					break
				}
				if runAlone(scs[i], fmt.Sprintf("/c20/%sr%d", tag, i), obs, i) {
					culprits++
				}
			}
			if culprits == 0 {
				obs[idx[lo]].notes = append(obs[idx[lo]].notes, "leak:batch")
			}
			leakPinned = true
			base = stats.RtspConns.GetSample().Active
		}
	}
}

// runAlone: one scenario with nothing else going on, with its own leak check; true if it leaks
func runAlone(s *scenario, path string, obs []*observation, i int) bool {
	b0 := stats.RtspConns.GetSample().Active
	g0, _ := pullGoroutines()
	o := runScenario(s, path)
	c1 := waitFor(3*time.Second, func() bool { return stats.RtspConns.GetSample().Active == b0 })
	g1 := waitFor(3*time.Second, func() bool { n, _ := pullGoroutines(); return n <= g0 })
	if !c1 {
		o.notes = append(o.notes, "leak:conncount")
	}
	if !g1 {
		o.notes = append(o.notes, "leak:goroutine")
	}
	obs[i] = o
	return !c1 || !g1
}

func runC20(c *Ctx) {
	c.Res.Rule = "case = one pull scenario (route URL with/without credentials, camera script: one response kind per received request, SDP kind, play events + terminal event; requester = media.GetOrCreate or a real RTSP session) against a fake camera on a loopback listener, or one pair of simultaneous first requests; distinct by the scenario line; non-trivial when the camera was dialled and answered at least one request.  A disagreement is reported only if it reproduces when the scenario is re-run alone with a generous timeout"
	var scs []*scenario
	for _, l := range c.CorpusLines() {
		f := strings.Fields(l)
		if len(f) > 2 && f[0] == "c20" && f[1] == "pull" {
			scs = append(scs, parseScenario(KV(strings.Join(f[2:], " "))))
		}
	}
	scs = append(scs, systematic()...)
	for i, n := 0, c.Budget(600, 6000); i < n; i++ {
		scs = append(scs, genScenario(c.Rng))
	}
	var quiet, silent []int
	for i, s := range scs {
		s.id = i
		if hasSilence(s) {
			silent = append(silent, i)
		} else {
			quiet = append(quiet, i)
		}
	}
	obs := make([]*observation, len(scs))
	// phase A: no scenario waits for a timeout, so the timeout can be long (no false alarm on a slow machine)
	setPhase(12 * time.Second)
	runBatches(scs, quiet, obs, "a")
	// phase B: the scenarios in which the camera goes silent: the client's own timeout has to expire
	setPhase(2500 * time.Millisecond)
	runBatches(scs, silent, obs, "b")
	lines := make([]string, len(scs))
	for i, s := range scs {
		lines[i] = obsLine(s, obs[i])
	}
	// simultaneous first requests (one at a time: they use the global verif hook)
	setPhase(12 * time.Second)
	nDual := c.Budget(6, 30)
	dualObs := make([]string, nDual)
	dualNotes := make([][]string, nDual)
	for i := 0; i < nDual; i++ {
		dualObs[i], dualNotes[i] = runDual(i, i%2 == 1)
		lines = append(lines, "c20 dual")
	}
	outs := c.Drive(lines)
	// confirmation: whatever failed is run again, alone, with a generous timeout; only what fails again is reported
	var again []int
	for i := range scs {
		if failing(obs[i], KV(outs[i])) {
			again = append(again, i)
		}
	}
	if len(again) > 0 {
		c.CountN("first-run-disagreements-rechecked", len(again))
		if len(again) > 12 {
			again = again[:12]
		}
		setPhase(6 * time.Second)
		var l2 []string
		for _, i := range again {
			runAlone(scs[i], fmt.Sprintf("/c20/c%d", i), obs, i)
			l2 = append(l2, obsLine(scs[i], obs[i]))
		}
		o2 := c.Drive(l2)
		for k, i := range again {
			lines[i], outs[i] = l2[k], o2[k]
		}
		// the ones beyond the first 12 keep their first observation (they are reported if they failed)
	}
	for i := 0; i < nDual; i++ {
		m := KV(outs[len(scs)+i])
		caseLine := fmt.Sprintf("c20 dual # run %d, first Regist paused=%v", i, i%2 == 1)
		c.Eval(fmt.Sprintf("dual-%d", i%2), true)
		c.Count("dual-" + dualObs[i])
		k := KV(dualObs[i])
		if got := fmt.Sprintf("live=%s;registered=%s", k["live"], k["registered"]); got != m["model"] {
			c.Find(Finding{Kind: "corr", Class: "dual-first-requests", Case: caseLine, Impl: got, Model: m["model"], Detail: strings.Join(dualNotes[i], "; ")})
		}
		if dualObs[i] != "live=1 registered=1 loserconn=1 winnerkept=1 clean=1 leak=0 both=1" {
			c.Find(Finding{Kind: "oracle", Class: "concurrent-first-requests-not-one-stream", Case: caseLine, Impl: dualObs[i], Spec: "live=1 registered=1 loserconn=1 winnerkept=1 clean=1 leak=0 both=1", Detail: strings.Join(dualNotes[i], "; ")})
		}
	}
	for i, s := range scs {
		o := obs[i]
		m := KV(outs[i])
		caseLine := "c20 pull " + s.line()
		if strings.HasPrefix(o.out, "status-") {
			c.Find(Finding{Kind: "oracle", Class: "failed-pull-not-answered-404", Case: caseLine, Impl: o.String(), Spec: "RTSP 404 Not Found"})
		}
		c.Eval(caseLine, o.dialled && len(o.reqs) > 0)
		c.Count("out-" + o.out)
		c.Count(fmt.Sprintf("requests-%02d", len(o.reqs)))
		if o.out == "stream" {
			c.Count("terminal-" + s.play[len(s.play)-1])
			c.Count(fmt.Sprintf("delivered-%d", o.delivered))
		}
		for _, t := range s.script {
			c.Count("resp-" + t)
		}
		c.Count("sdp-" + s.sdp)
		if s.rtsp {
			c.Count("requester-rtsp-session")
		}
		if !o.dialled {
			c.Count("not-dialled")
		}
		for _, r := range o.reqs {
			f := strings.Split(r, ":")
			c.Count("req-" + f[0] + "-" + f[1] + "-" + f[2])
		}
		if i%(len(scs)/8+1) == 0 {
			c.Sample(lines[i] + " => " + outs[i])
		}
		if implKey := implKeyOf(o); implKey != m["model"] {
			c.Find(Finding{Kind: "corr", Class: "pull-scenario", Case: caseLine, Impl: implKey, Model: m["model"], Detail: strings.Join(o.notes, "; ")})
		}
		if o.extraBad {
			c.Find(Finding{Kind: "oracle", Class: "request-after-play-not-keepalive", Case: caseLine, Impl: o.String(), Detail: strings.Join(o.notes, "; ")})
		}
		if o.extra > 0 {
			c.Count("keepalive-seen")
		}
		if o.secondBad {
			c.Find(Finding{Kind: "oracle", Class: "second-request-not-served-by-live-pull", Case: caseLine, Impl: o.String(), Spec: "the stream already pulled for the path", Detail: strings.Join(o.notes, "; ")})
		}
		if o.out == "stream" {
			want := 1
			if s.keep {
				want = 0
			}
			c.Count(fmt.Sprintf("idle-task-posted-%d", o.idleTask))
			if o.idleTask != want {
				c.Find(Finding{Kind: "oracle", Class: "idle-close-task-not-as-route-says", Case: caseLine, Impl: fmt.Sprintf("tasks=%d keepalive=%v", o.idleTask, s.keep), Spec: fmt.Sprintf("tasks=%d", want), Detail: strings.Join(o.notes, "; ")})
			}
		}
		if kaExpected(s) && o.out == "stream" && o.extra == 0 {
			c.Find(Finding{Kind: "oracle", Class: "keepalive-missing", Case: caseLine, Impl: o.String(), Spec: "an OPTIONS keep-alive after the heart-beat interval", Detail: strings.Join(o.notes, "; ")})
		}
		if v := m["verdict"]; v != "ok" {
			c.Find(Finding{Kind: "oracle", Class: classOf(v), Case: caseLine, Impl: o.String(), Spec: v, Detail: strings.Join(o.notes, "; ")})
		}
	}
}

// kaExpected: the play events let the heart-beat interval pass and then deliver something, twice
// (the first keep-alive may race with the terminal event)
func kaExpected(s *scenario) bool {
	n := 0
	for i, ev := range s.play {
		if ev == "ka" && i+2 < len(s.play) {
			n++
		}
	}
	return n >= 2
}

var _ = os.Getenv
var _ = verifhook.Enabled
