package main

import (
	"bufio"
	"fmt"
	"net"
	"os"
	"runtime"
	"sort"
	"strings"
	"sync"
	"sync/atomic"
	"time"

	. "verifharness/hlib"

	"github.com/cnotch/ipchub/config"
	"github.com/cnotch/ipchub/media"
	"github.com/cnotch/ipchub/provider/route"
	"github.com/cnotch/ipchub/service/rtsp" // its init registers the RTSP pull stream factory
	"github.com/cnotch/ipchub/stats"
	"github.com/cnotch/ipchub/utils/verifhook"
)

// C20: on-demand pull.  Implementation: media.GetOrCreate → route.Match → pullStreamFactory.Create →
// PullClient.Open / playStream against a scripted fake camera on a loopback listener.
func main() { Main("C20", runC20) }

const (
	heartbeat = 150 * time.Millisecond
	settle    = 20 * time.Second // bound for "eventually" conditions in the first pass; never reached on a healthy run
	patience  = 45 * time.Second // the same in the confirmation pass (a case re-run alone): only a stable wrong state is reported
)

// ---- scenario ----

type scenario struct {
	id      int
	user    bool     // the route URL carries user:password
	listen  bool     // the camera listens (false: connection refused)
	urlPath bool     // the route URL has a path ("/live"); false: "rtsp://host:port"
	script  []string // response tokens of the handshake, one per received request
	sdp     string   // SDP kind of the DESCRIBE body
	play    []string // play events after a successful PLAY; the last one is terminal
	keep    bool     // route.KeepAlive
	rtsp    bool     // the requester is a real RTSP session (DESCRIBE over a net.Pipe) instead of a direct media.GetOrCreate call
	builtin bool     // run under the built-in NetTimeout instead of the shortened one (thorough tier / search / replay)
	strict  bool     // the camera behaves per RFC 2326: it insists on the session id of its SETUP answer on every later request (454 otherwise) and challenges with a fresh nonce
}

func (s *scenario) line() string {
	j := func(x []string) string {
		if len(x) == 0 {
			return "-"
		}
		return strings.Join(x, ",")
	}
	l := fmt.Sprintf("user=%s listen=%s urlpath=%s keep=%s rtsp=%s sdp=%s script=%s play=%s", B01(s.user), B01(s.listen), B01(s.urlPath), B01(s.keep), B01(s.rtsp), s.sdp, j(s.script), j(s.play))
	if s.builtin {
		l += " builtin=1"
	}
	if s.strict {
		l += " strict=1"
	}
	return l
}

func parseScenario(kv map[string]string) *scenario {
	sp := func(x string) []string {
		if x == "-" || x == "" {
			return nil
		}
		return strings.Split(x, ",")
	}
	return &scenario{user: kv["user"] == "1", listen: kv["listen"] == "1", urlPath: kv["urlpath"] == "1", keep: kv["keep"] == "1", rtsp: kv["rtsp"] == "1", sdp: kv["sdp"], script: sp(kv["script"]), play: sp(kv["play"]), builtin: kv["builtin"] == "1", strict: kv["strict"] == "1"}
}

const sdpHead = "v=0\r\no=- 0 0 IN IP4 127.0.0.1\r\ns=cam\r\nc=IN IP4 127.0.0.1\r\nt=0 0\r\n"
const sdpVideo = "m=video 0 RTP/AVP 96\r\na=rtpmap:96 H264/90000\r\na=fmtp:96 packetization-mode=1; sprop-parameter-sets=Z2QAH6zZQFAFuhAAAAMAEAAAAwPI8YMZYA==,aO+8sA==; profile-level-id=64001F\r\n"
const sdpAudio = "m=audio 0 RTP/AVP 97\r\na=rtpmap:97 MPEG4-GENERIC/44100/2\r\na=fmtp:97 profile-level-id=1;mode=AAC-hbr;sizelength=13;indexlength=3;indexdeltalength=3; config=121056E500\r\n"

func sdpBody(kind, base string) string {
	switch kind {
	case "va":
		return sdpHead + sdpVideo + "a=control:trackID=0\r\n" + sdpAudio + "a=control:trackID=1\r\n"
	case "av": // the audio section first: the SETUPs still go out video first, each to its own track
		return sdpHead + sdpAudio + "a=control:trackID=1\r\n" + sdpVideo + "a=control:trackID=0\r\n"
	case "v":
		return sdpHead + sdpVideo + "a=control:trackID=0\r\n"
	case "a":
		return sdpHead + sdpAudio + "a=control:trackID=1\r\n"
	case "none":
		return sdpHead
	case "vnoctl": // a video section without a control attribute: no SETUP is sent for it
		return sdpHead + sdpVideo
	case "absctl": // absolute control URLs
		return sdpHead + sdpVideo + "a=control:" + base + "/abs0\r\n" + sdpAudio + "a=control:" + base + "/abs1\r\n"
	case "bad":
		return "this is not sdp\r\n"
	case "nofmt": // an m= line with a non-RTP protocol has no Format entries
		return sdpHead + "m=video 0 udp wb\r\na=control:trackID=0\r\n"
	}
	return sdpHead
}

// ---- observation ----

type observation struct {
	out       string // stream | nil | hang | panic | infra
	reqs      []string
	resps     []string // strict camera only: the answers it actually gave to reqs (454 where the session id was missing)
	dialled   bool
	closed    bool // the client closed its connection (after a failed Open, or after the play phase ended)
	reg       bool // the stream appeared in the registry under the requested path
	delivered int  // packets that reached the attached consumer
	sent      int
	clean     bool // after the end: path not registered, consumer closed, connection closed
	cclosed   bool
	regAfter  bool // something is registered under the path at the very end
	cseqOK    bool // CSeq strictly increasing from 1
	extra     int  // requests after the successful PLAY (keep-alive)
	wantKA    int  // keep-alives the play events call for (heart-beat interval passed, then a message arrived)
	extraBad  bool
	panicked  bool
	secondBad bool // a second request while the pull is live did not get the same stream
	idleTask  int  // idle-close tasks posted for the pulled stream (expected: 1 unless the route says keepalive)
	afresh    bool // a later request for the path, after everything ended, pulled from the camera again
	notes     []string
}

// ka: the keep-alives as compared with the model (more than called for — the machine was slow and the
// interval passed by itself — is not a difference)
func (o *observation) ka() int {
	if o.extra >= o.wantKA {
		return o.wantKA
	}
	return o.extra
}

func (o *observation) String() string {
	r := "-"
	if len(o.reqs) > 0 {
		r = strings.Join(o.reqs, ",")
	}
	return fmt.Sprintf("out=%s dialled=%s reqs=%s closed=%s reg=%s sent=%d delivered=%d clean=%s cclosed=%s regafter=%s cseq=%s afresh=%s",
		o.out, B01(o.dialled), r, B01(o.closed), B01(o.reg), o.sent, o.delivered, B01(o.clean), B01(o.cclosed), B01(o.regAfter), B01(o.cseqOK), B01(o.afresh))
}

type testConsumer struct {
	n      int32
	closed int32
}

func (c *testConsumer) Consume(p media.Pack) { atomic.AddInt32(&c.n, 1) }
func (c *testConsumer) Close() error         { atomic.StoreInt32(&c.closed, 1); return nil }

// In the first pass the "eventually" bound shrinks once several waits have run into it: on a healthy tree
// it is never reached, on a broken one the run must still end in reasonable time.  In the confirmation
// pass (patient) every wait gets the long bound.
var (
	timeouts int32
	patient  int32
)

// (the NetTimeout in force is added: where the camera goes silent the awaited event IS the expiry of that timeout)
func bound() time.Duration {
	nt := time.Duration(atomic.LoadInt64(&netTimeoutNs))
	if atomic.LoadInt32(&patient) == 1 {
		return patience + nt
	}
	if atomic.LoadInt32(&timeouts) >= 3 {
		return 3*time.Second + nt
	}
	return settle + nt
}

// waitFor: poll cond until it holds; the budget costs nothing when the event arrives
func waitFor(cond func() bool) bool { return waitEvery(2*time.Millisecond, cond) }

// waitSlow: for conditions that are expensive to evaluate (a dump of all goroutine stacks)
func waitSlow(cond func() bool) bool { return waitEvery(40*time.Millisecond, cond) }

func waitEvery(step time.Duration, cond func() bool) bool {
	deadline := time.Now().Add(bound())
	for {
		if cond() {
			return true
		}
		if time.Now().After(deadline) {
			atomic.AddInt32(&timeouts, 1)
			return false
		}
		time.Sleep(step)
	}
}

func waitCh(ch <-chan struct{}, d time.Duration) bool {
	select {
	case <-ch:
		return true
	case <-time.After(d):
		return false
	}
}

// getOrCreate: media.GetOrCreate under a watchdog; a panic and a hang are outcomes, not harness failures
func getOrCreate(p string) (st *media.Stream, out string, note string) {
	type res struct {
		s     *media.Stream
		panic interface{}
	}
	done := make(chan res, 1)
	go func() {
		var r res
		defer func() {
			if p := recover(); p != nil {
				r.panic = p
			}
			done <- r
		}()
		r.s = media.GetOrCreate(p)
	}()
	select {
	case r := <-done:
		switch {
		case r.panic != nil:
			return nil, "panic", fmt.Sprint(r.panic)
		case r.s != nil:
			return r.s, "stream", ""
		}
		return nil, "nil", ""
	case <-time.After(hangAfter()):
		return nil, "hang", ""
	}
}

// guarded: a call into the implementation that must return at once (Close, StopConsume, Regist …);
// false if it does not return within the bound (the caller reports the scenario as hanging)
func guarded(f func()) bool {
	done := make(chan struct{})
	go func() {
		defer close(done)
		defer func() { recover() }()
		f()
	}()
	return waitCh(done, bound()+10*time.Second)
}

// runScenarioGuarded: the scenario under a watchdog of its own, so that the harness never hangs
func runScenarioGuarded(s *scenario, path string) *observation {
	ch := make(chan *observation, 1)
	go func() { ch <- runScenario(s, path) }()
	select {
	case o := <-ch:
		return o
	case <-time.After(2*hangAfter() + 8*bound() + time.Minute):
		return &observation{out: "hang", cseqOK: true, notes: []string{"harness watchdog: the scenario did not come to an end"}}
	}
}

// runScenario executes one scenario against the real code
func runScenario(s *scenario, path string) *observation {
	o := &observation{cseqOK: true}
	var cam *camera
	var host string
	if s.listen {
		var err error
		if cam, err = newCamera(s.script, ""); err != nil {
			o.out = "infra"
			o.notes = append(o.notes, "listen: "+err.Error())
			return o
		}
		cam.strict = s.strict
		host = cam.addr()
		defer cam.close()
	} else {
		// nobody listens: the port is bound but not listening, so the connection is refused and the port
		// cannot be handed to anybody else meanwhile
		addr, release, err := reservePort()
		if err != nil {
			o.out = "infra"
			o.notes = append(o.notes, "reserve port: "+err.Error())
			return o
		}
		defer release()
		host = addr
		cam = &camera{accepts: make(chan *camConn)}
	}
	up := ""
	if s.urlPath {
		up = "/live"
	}
	base := "rtsp://" + host + up
	cam.sdp = sdpBody(s.sdp, base)
	cred := ""
	if s.user {
		cred = camUser + ":" + camPass + "@"
	}
	if err := route.Save(&route.Route{Pattern: path, URL: "rtsp://" + cred + host + up, KeepAlive: s.keep}); err != nil {
		o.out = "infra"
		o.notes = append(o.notes, "route.Save: "+err.Error())
		return o
	}
	defer route.Del(path)

	type res struct {
		s     *media.Stream
		panic interface{}
		code  string
	}
	done := make(chan res, 1)
	go func() {
		var r res
		defer func() {
			if p := recover(); p != nil {
				r.panic = p
			}
			done <- r
		}()
		if s.rtsp {
			r.s, r.code = describeViaRtsp(strings.ToUpper(path), path)
			return
		}
		r.s = media.GetOrCreate(strings.ToUpper(path) + "/.") // a non-canonical spelling of the routed path
	}()
	var stream *media.Stream
	select {
	case r := <-done:
		switch {
		case r.panic != nil:
			o.out = "panic"
			o.panicked = true
			o.notes = append(o.notes, fmt.Sprint(r.panic))
		case r.s != nil:
			o.out = "stream"
			stream = r.s
		case s.rtsp && r.code != "404":
			o.out = "status-" + r.code // a failed pull must be answered with 404 Not Found
		default:
			o.out = "nil"
		}
	case <-time.After(hangAfter()):
		o.out = "hang"
	}
	var cc *camConn
	if s.listen {
		// somebody listens, so a dial succeeds; the camera's accept loop hands the connection over, possibly a moment later
		select {
		case cc = <-cam.accepts:
		case <-time.After(bound()):
		}
	}
	o.dialled = cc != nil
	if o.out == "hang" {
		// let the stuck requester go, so that the harness itself does not leak
		if cc != nil {
			cc.kill(false)
		}
		select {
		case <-done:
		case <-time.After(settle):
		}
	}
	collect := func() {
		if cc == nil {
			return
		}
		last := 0
		cc.mu.Lock()
		playedAt := cc.playedAt
		cc.mu.Unlock()
		o.extra = 0
		o.reqs = nil
		defer func() {
			if s.strict {
				if rs := cc.responses(); len(rs) >= len(o.reqs) {
					o.resps = rs[:len(o.reqs)]
				}
			}
		}()
		for i, r := range cc.requests() {
			if playedAt > 0 && i >= playedAt { // after PLAY: only keep-alive OPTIONS are expected
				o.extra++
				if r.Method != "OPTIONS" || r.Cred == "wrong" || r.target(base) != "b" {
					o.notes = append(o.notes, "after-play:"+r.tok(base)+" "+r.URL)
					o.extraBad = true
				}
				continue
			}
			o.reqs = append(o.reqs, r.tok(base))
			if r.target(base) == "x" {
				o.notes = append(o.notes, fmt.Sprintf("%s addressed to %q transport %q (route URL %q)", r.Method, r.URL, r.Transport, base))
			}
			var n int
			fmt.Sscanf(r.CSeq, "%d", &n)
			if n <= last {
				o.cseqOK = false
			}
			last = n
		}
	}
	if stream == nil {
		if cc != nil && o.out != "hang" {
			o.closed = waitCh(cc.peerGone, bound())
		}
		_, o.regAfter = media.VerifRegistry()[path]
		o.clean = !o.regAfter && (cc == nil || o.closed)
		if o.panicked {
			// whether the abandoned connection is closed depends on the garbage collector (finalizer): not compared
			o.closed, o.clean = false, false
		}
		collect()
		if o.out == "nil" && o.clean {
			o.afresh = pullAgain(s, cam, path, nil, o)
		}
		return o
	}
	// success: the stream must appear under the requested path
	o.reg = waitFor(func() bool { return media.Get(path) == stream })
	// a second request for the path while the pull is live is served by the same stream, without a second pull
	if o.reg {
		again, _, _ := getOrCreate(" " + path + " ")
		select {
		case extra := <-cam.accepts:
			o.notes = append(o.notes, "second request dialled the camera again")
			o.secondBad = true
			extra.kill(false)
		default:
		}
		if again != stream {
			o.notes = append(o.notes, "second request got another stream")
			o.secondBad = true
		}
	}
	var task *media.VerifIdleTask
	for _, t := range media.VerifIdleTasks() {
		if t.Stream == stream {
			o.idleTask++
			task = t
			if t.ClosedStatus != media.StreamNoConsumer || t.D != 5*time.Minute {
				o.notes = append(o.notes, fmt.Sprintf("idle task with status %d period %v", t.ClosedStatus, t.D))
				o.idleTask += 10
			}
		}
	}
	cons := &testConsumer{}
	var cid media.CID
	stuck := func(what string) *observation {
		o.out = "hang"
		o.notes = append(o.notes, "a call into the implementation did not return: "+what)
		collect()
		return o
	}
	if !guarded(func() { cid = stream.StartConsume(cons, media.RTPPacket, "c20") }) {
		return stuck("StartConsume")
	}
	seq := uint16(1)
	terminal := "eof"
	due := false // the heart-beat interval has passed since the last keep-alive: the next message makes the client send OPTIONS
	arrived := func() {
		if due {
			due = false
			o.wantKA++
			want := o.wantKA
			waitFor(func() bool { return cc.afterPlay() >= want })
		}
	}
	for i, ev := range s.play {
		if i == len(s.play)-1 {
			terminal = ev
			break
		}
		switch {
		case len(ev) == 2 && ev[0] == 'p':
			cc.write(rtpPacket(ev[1]-'0', seq, 0))
			seq++
			o.sent++
			arrived()
		case ev == "opt": // a request from the camera: the client must answer it and go on
			cc.write([]byte("OPTIONS * RTSP/1.0\r\nCSeq: 900\r\n\r\n"))
			arrived()
		case ev == "resp": // a stray response: ignored by the client
			cc.write([]byte("RTSP/1.0 200 OK\r\nCSeq: 901\r\n\r\n"))
			arrived()
		case ev == "ka": // let the heart-beat interval pass: the next message makes the client send OPTIONS
			time.Sleep(2 * heartbeat)
			due = true
		}
	}
	want := int32(o.sent)
	waitFor(func() bool { return atomic.LoadInt32(&cons.n) >= want })
	o.delivered = int(atomic.LoadInt32(&cons.n))
	var other *media.Stream
	switch terminal {
	case "eof":
		cc.kill(false)
	case "rst":
		cc.kill(true)
	case "sil": // the camera goes silent: the read deadline must end the pull
	case "gar":
		cc.write([]byte("\x01\x02garbage that is neither RTP nor RTSP\r\n\r\n"))
	case "trunc": // an interleaved frame header promising more bytes than ever arrive, then EOF
		cc.write([]byte{'$', 0, 0x10, 0x00, 1, 2, 3})
		cc.kill(false)
	case "idle": // nobody consumes any more and the idle task fires: the stream is closed, the pull must end
		if !guarded(func() {
			stream.StopConsume(cid)
			if task != nil {
				task.Tick(0)
			} else {
				stream.Close() // (keepalive route: no task; same effect for the pull as an API stop)
			}
		}) {
			return stuck("StopConsume / idle task / Close")
		}
		defer keepSending(cc, seq)()
	case "stop": // the stream is closed on the server side (API stop): the pull must notice with the next packet
		if !guarded(func() { stream.Close() }) {
			return stuck("Stream.Close")
		}
		defer keepSending(cc, seq)()
	case "replace": // another publisher registers on the path: the pulled stream is retired
		if !guarded(func() {
			stream.StopConsume(cid)
			other = media.NewStream(path, cam.sdp)
			media.Regist(other)
		}) {
			return stuck("StopConsume / Regist")
		}
		stopSending := keepSending(cc, seq)
		defer stopSending()
		ok := waitFor(func() bool { return atomic.LoadInt32(&cons.closed) == 1 && waitChNow(cc.peerGone) })
		o.cclosed = atomic.LoadInt32(&cons.closed) == 1
		o.closed = waitChNow(cc.peerGone)
		o.regAfter = media.VerifRegistry()[path] == stream
		o.clean = ok && !o.regAfter && media.Get(path) == other
		collect()
		if !guarded(func() { media.Unregist(other) }) {
			return stuck("Unregist")
		}
		if o.clean {
			o.afresh = pullAgain(s, cam, path, stream, o)
		}
		return o
	}
	ok := waitFor(func() bool {
		_, still := media.VerifRegistry()[path]
		return !still && atomic.LoadInt32(&cons.closed) == 1 && waitChNow(cc.peerGone)
	})
	_, o.regAfter = media.VerifRegistry()[path]
	o.cclosed = atomic.LoadInt32(&cons.closed) == 1
	o.closed = waitChNow(cc.peerGone)
	o.clean = ok
	collect()
	if o.clean {
		o.afresh = pullAgain(s, cam, path, stream, o)
	}
	return o
}

// keepSending: the camera keeps sending packets on cc (one every 25 ms) until stop is called or the
// connection is gone: a pull whose stream was closed on the server side must end although — and
// because — packets keep arriving, not only when the camera falls silent
func keepSending(cc *camConn, seq uint16) (stop func()) {
	quit := make(chan struct{})
	done := make(chan struct{})
	go func() {
		defer close(done)
		for {
			select {
			case <-quit:
				return
			case <-cc.peerGone:
				return
			case <-time.After(25 * time.Millisecond):
			}
			if cc.write(rtpPacket(0, seq, 0)) != nil {
				return
			}
			seq++
		}
	}()
	return func() { close(quit); <-done }
}

// pullAgain: everything of the first pull has ended; a later request for the path must pull afresh:
// the camera is dialled again (if it listens), the requester gets the same kind of result as the first
// one (the camera answers every connection by the same script), a new stream is a new object and is
// registered.  The second pull is then ended by the camera going away.
func pullAgain(s *scenario, cam *camera, path string, first *media.Stream, o *observation) bool {
	st, out, note := getOrCreate(path)
	var cc *camConn
	if s.listen {
		select {
		case cc = <-cam.accepts:
		case <-time.After(bound()):
		}
	}
	bad := func(f string, a ...interface{}) bool {
		o.notes = append(o.notes, "later request: "+fmt.Sprintf(f, a...))
		if cc != nil {
			cc.kill(false)
		}
		return false
	}
	if s.listen && cc == nil {
		return bad("the camera was not dialled again (requester got %s)", out)
	}
	wantOut := "nil"
	if first != nil {
		wantOut = "stream"
	}
	if out != wantOut {
		return bad("requester got %s %s, the first request got %s", out, note, wantOut)
	}
	if st == nil {
		if cc != nil && !waitCh(cc.peerGone, bound()) {
			return bad("the connection of the failed second pull was not closed")
		}
		return true
	}
	if st == first {
		return bad("got the stream of the pull that had ended")
	}
	if !waitFor(func() bool { return media.Get(path) == st }) {
		return bad("the new stream did not appear under the path")
	}
	cc.kill(false)
	if !waitFor(func() bool {
		_, still := media.VerifRegistry()[path]
		return !still && waitChNow(cc.peerGone)
	}) {
		return bad("the second pull was not cleaned up after the camera went away")
	}
	return true
}

// describeViaRtsp: a real RTSP session of the server (rtsp.CreateAcceptHandler on a net.Pipe) receives
// DESCRIBE for the routed path; returns the stream the session found (on 200) and the status code.
func describeViaRtsp(reqPath, canon string) (*media.Stream, string) {
	cli, srv := net.Pipe()
	rtsp.CreateAcceptHandler()(srv)
	defer cli.Close()
	cli.SetDeadline(time.Now().Add(hangAfter() + 2*time.Second))
	go fmt.Fprintf(cli, "DESCRIBE rtsp://localhost%s RTSP/1.0\r\nCSeq: 1\r\nAccept: application/sdp\r\n\r\n", reqPath)
	br := bufio.NewReader(cli)
	line, err := br.ReadString('\n')
	if err != nil {
		return nil, "noanswer"
	}
	f := strings.Fields(line)
	if len(f) < 2 {
		return nil, "malformed"
	}
	if f[1] != "200" {
		return nil, f[1]
	}
	var st *media.Stream
	waitFor(func() bool { st = media.Get(canon); return st != nil })
	if st == nil {
		return nil, "200-but-no-stream"
	}
	return st, "200"
}

func waitChNow(ch <-chan struct{}) bool {
	select {
	case <-ch:
		return true
	default:
		return false
	}
}

// runDual: two simultaneous first requests for one routed path.  Both miss in Get (held together at
// the getorcreate.miss point), both pull from the camera, both register; the registry must end with
// one live stream, the other client must be told (stream closed) and release its connection, and
// its Unregist must not remove the winner.  `long` bounds every wait (it costs nothing when the event
// arrives).  exercised=false: the two requests did not both pull (one was served by the other's
// stream, or the machine was too slow to hold them together): nothing to judge.
func runDual(id int, pauseRegist bool, long time.Duration, n int) (obs string, notes []string, exercised bool) {
	path := fmt.Sprintf("/c20/dual%d", id)
	cam, err := newCamera(nil, "")
	if err != nil {
		return "", []string{"listen: " + err.Error()}, false
	}
	defer cam.close()
	cam.sdp = sdpBody("va", "rtsp://"+cam.addr()+"/live")
	route.Save(&route.Route{Pattern: path, URL: "rtsp://" + cam.addr() + "/live", KeepAlive: true})
	defer route.Del(path)
	until := func(cond func() bool) bool {
		deadline := time.Now().Add(long)
		for !cond() {
			if time.Now().After(deadline) {
				return false
			}
			time.Sleep(10 * time.Millisecond)
		}
		return true
	}
	until(func() bool { n, _ := pullGoroutines(); return n == 0 }) // whatever ran before has wound down
	base := stats.RtspConns.GetSample().Active
	var arrived int32
	both := make(chan struct{})
	var registArmed int32
	if pauseRegist {
		registArmed = 1
	}
	registPaused, registRelease := make(chan struct{}), make(chan struct{})
	verifhook.Set(func(point string, _ uint32) {
		switch point {
		case "getorcreate.miss":
			if atomic.AddInt32(&arrived, 1) == int32(n) {
				close(both)
			}
			waitCh(both, long)
		case "regist.loaded":
			if atomic.CompareAndSwapInt32(&registArmed, 1, 0) {
				close(registPaused)
				waitCh(registRelease, long)
			}
		}
	})
	defer verifhook.Set(nil)
	res := make([]*media.Stream, n)
	outs := make([]string, n)
	var wg sync.WaitGroup
	for i := 0; i < n; i++ {
		wg.Add(1)
		go func(i int) {
			defer wg.Done()
			res[i], outs[i], _ = getOrCreate(path)
		}(i)
	}
	wg.Wait() // (getOrCreate has its own watchdog)
	if pauseRegist {
		// the first Regist is held after its Load; give the second one the chance to run inside it
		// (with the lock in place it cannot; without it, it usually does — if not, the window is not exercised)
		if waitCh(registPaused, long) {
			time.Sleep(30 * time.Millisecond)
		}
		close(registRelease)
	}
	fail := "live=? registered=0 loserconn=0 winnerkept=0 clean=0 leak=0 both=0"
	distinct := map[*media.Stream]bool{}
	for i := range res {
		if outs[i] == "hang" || outs[i] == "panic" {
			return fail, []string{"GetOrCreate: " + strings.Join(outs, " / ")}, true
		}
		if res[i] == nil {
			return fail, []string{"a request for a cooperative camera got no stream: " + strings.Join(outs, " / ")}, true
		}
		distinct[res[i]] = true
	}
	if len(distinct) < n {
		return "", nil, false // a request was served by another one's pull: nothing (or not everything) raced
	}
	var conns []*camConn
	for len(conns) < n {
		select {
		case cc := <-cam.accepts:
			conns = append(conns, cc)
		case <-time.After(long):
			return fail, []string{fmt.Sprintf("%d streams but fewer camera connections", n)}, true
		}
	}
	// both Regist calls done: one of the two is the registered one and the other is not OK any more,
	// or (the defect) both stay OK
	countLive := func() (live int) {
		for _, s := range res {
			if s.VerifStatus() == media.StreamOK {
				live++
			}
		}
		return
	}
	until(func() bool { w := media.Get(path); return w != nil && distinct[w] && countLive() == 1 })
	live := countLive()
	winner := media.Get(path)
	registered := winner != nil && distinct[winner]
	// both cameras keep sending: the retired client's next packet must end its pull, the winner's goes on
	for _, cc := range conns {
		defer keepSending(cc, 1)()
	}
	gone := func() (k int) {
		for _, cc := range conns {
			if waitChNow(cc.peerGone) {
				k++
			}
		}
		return
	}
	loserConn := live == 1 && until(func() bool { return gone() == n-1 })
	oneConn := live == 1 && until(func() bool { return stats.RtspConns.GetSample().Active == base+1 })
	winnerKept := media.Get(path) == winner && winner != nil
	// the end: the camera goes away
	for _, cc := range conns {
		cc.kill(false)
	}
	clean := until(func() bool {
		_, still := media.VerifRegistry()[path]
		n, _ := pullGoroutines()
		return !still && stats.RtspConns.GetSample().Active == base && n == 0
	})
	if !oneConn {
		notes = append(notes, "connection counter is not base+1 after the loser left")
	}
	return fmt.Sprintf("live=%d registered=%s loserconn=%s winnerkept=%s clean=%s leak=%s both=1", live, B01(registered), B01(loserConn), B01(winnerKept), B01(clean), B01(!oneConn)), notes, true
}

const dualGood = "live=1 registered=1 loserconn=1 winnerkept=1 clean=1 leak=0 both=1"

// pullGoroutines counts goroutines that are inside the pull client, a consumption loop or a stream's conversion workers
func pullGoroutines() (n int, sample string) {
	buf := make([]byte, 1<<22)
	buf = buf[:runtime.Stack(buf, true)]
	for _, g := range strings.Split(string(buf), "\n\n") {
		if strings.Contains(g, "rtsp.(*PullClient)") || strings.Contains(g, "media.(*consumption).consume") ||
			// the requester's RTSP session (it holds a stats.RtspConns count of its own until it has wound down)
			strings.Contains(g, "rtsp.(*Session).process") ||
			// the conversion workers of a pulled stream (a stream built for a pull that then fails must not stay alive)
			strings.Contains(g, "rtp.(*Demuxer).process") || strings.Contains(g, "flv.(*Muxer).process") || strings.Contains(g, "mpegts.(*Muxer).process") {
			n++
			if sample == "" {
				sample = g
			}
		}
	}
	return
}

// ---- generators ----

var faultTokens = []string{"s404", "s500", "s301", "s199", "s454", "mal", "mal2", "mal3", "eof", "rst", "sil", "u-no", "u-db", "u-bb", "u-ot", "u-dg", "u-bg"}
var okTokens = []string{"ok", "ok+s", "ok+st", "s200", "s201", "s300"}

func tracksOf(sdp string) int {
	switch sdp {
	case "va", "av", "absctl":
		return 2
	case "v", "a":
		return 1
	}
	return 0
}

// a cooperative script: every request answered with success, optionally after challenges
func coopScript(r *Rng, nreq int, user bool) []string {
	var sc []string
	challenged := false
	for i := 0; i < nreq; i++ {
		if user && !challenged && r.Chance(45) {
			challenged = true
			switch r.Intn(5) {
			case 0:
				sc = append(sc, "u-bg")
			case 1:
				sc = append(sc, "u-dg", "u-dg") // the camera wants the MD5 of the password: second challenge
			case 2:
				sc = append(sc, "u-bg", "u-bg")
			case 3:
				sc = append(sc, "u-bg", "u-dg") // scheme changes between the challenges
			default:
				sc = append(sc, "u-dg")
			}
		}
		sc = append(sc, okTokens[r.Intn(len(okTokens))])
	}
	return sc
}

func genPlay(r *Rng) []string {
	var ev []string
	for i, n := 0, r.Intn(7); i < n; i++ {
		switch k := r.Intn(10); {
		case k < 6:
			ev = append(ev, fmt.Sprintf("p%d", r.Intn(4)))
		case k < 7:
			ev = append(ev, "opt")
		case k < 8:
			ev = append(ev, "resp")
		default:
			ev = append(ev, "ka", fmt.Sprintf("p%d", r.Intn(4)))
		}
	}
	terms := []string{"eof", "rst", "sil", "gar", "trunc", "stop", "replace", "idle", "eof", "rst"}
	return append(ev, terms[r.Intn(len(terms))])
}

func genScenario(r *Rng) *scenario {
	s := &scenario{user: r.Chance(65), listen: !r.Chance(4), urlPath: !r.Chance(6), keep: r.Chance(50)}
	kinds := []string{"va", "va", "v", "v", "a", "none", "vnoctl", "absctl", "bad", "nofmt", "av"}
	s.sdp = kinds[r.Intn(len(kinds))]
	nreq := 3 + tracksOf(s.sdp)
	s.script = coopScript(r, nreq, s.user)
	if r.Chance(55) { // one fault somewhere
		k := r.Intn(len(s.script) + 1)
		f := faultTokens[r.Intn(len(faultTokens))]
		if k >= len(s.script) {
			s.script = append(s.script, f)
		} else {
			s.script[k] = f
		}
	}
	if r.Chance(8) { // repeated challenges
		s.script = append([]string{"u-dg", "u-dg", "u-dg"}, s.script...)
	}
	s.play = genPlay(r)
	s.rtsp = r.Chance(12)
	return s
}

// the systematic part of the quantifier: every step of the handshake × every response kind
func systematic() []*scenario {
	var out []*scenario
	all := append([]string{}, faultTokens...)
	for _, user := range []bool{true, false} {
		for step := 0; step < 5; step++ { // OPTIONS, DESCRIBE, SETUP v, SETUP a, PLAY
			for _, f := range all {
				sc := []string{"ok", "ok", "ok+s", "ok+s", "ok+s"}
				sc[step] = f
				out = append(out, &scenario{user: user, listen: true, urlPath: true, sdp: "va", script: sc, play: []string{"p0", "p2", "eof"}})
			}
			// the same fault after a challenge was answered
			if user {
				for _, f := range all {
					sc := []string{"u-dg", "ok", "ok", "ok+s", "ok+s", "ok+s"}
					sc[step+1] = f
					out = append(out, &scenario{user: true, listen: true, urlPath: true, sdp: "va", script: sc, play: []string{"p0", "eof"}})
				}
			}
		}
	}
	for _, term := range []string{"eof", "rst", "sil", "gar", "trunc", "stop", "replace", "idle"} {
		for _, keep := range []bool{true, false} {
			out = append(out, &scenario{user: true, listen: true, urlPath: true, keep: keep, sdp: "va", script: []string{"u-dg", "ok", "ok", "ok+s", "ok+s", "ok+s"}, play: []string{"p0", "p1", "p2", "p3", "opt", "ka", "p0", term}})
			out = append(out, &scenario{user: false, listen: true, urlPath: true, keep: keep, sdp: "v", script: nil, play: []string{term}})
		}
	}
	for _, sdp := range []string{"va", "av", "v", "a", "none", "vnoctl", "absctl", "bad", "nofmt"} {
		for _, up := range []bool{true, false} {
			out = append(out, &scenario{user: false, listen: true, urlPath: up, sdp: sdp, play: []string{"p0", "eof"}})
		}
	}
	out = append(out, &scenario{user: true, listen: false, urlPath: true, sdp: "va"})
	out = append(out, &scenario{user: true, listen: false, urlPath: true, sdp: "va", rtsp: true})
	for _, f := range []string{"ok", "s404", "eof", "rst", "sil", "mal", "u-no"} {
		out = append(out, &scenario{user: true, listen: true, urlPath: true, sdp: "va", rtsp: true, script: []string{"u-dg", "ok", f}, play: []string{"p0", "p2", "eof"}})
	}
	// a DESCRIBE answer whose body ends early
	out = append(out, &scenario{user: false, listen: true, urlPath: true, sdp: "va", script: []string{"ok", "eofb"}})
	out = append(out, &scenario{user: true, listen: true, urlPath: true, sdp: "va", script: []string{"u-bg", "ok", "eofb"}})
	return out
}

// rfcScript: a camera that accepts the route's credentials and behaves per RFC 2326 — every step answered with
// success, the session id handed out from the first SETUP on — with the challenge chal in front of the steps
// that at names (step: 0 OPTIONS, 1 DESCRIBE, 2.. SETUP per track, last PLAY)
func rfcScript(nsteps int, chal string, at func(step int) bool) []string {
	var sc []string
	for i := 0; i < nsteps; i++ {
		if at(i) {
			sc = append(sc, chal)
		}
		if i >= 2 {
			sc = append(sc, "ok+s")
		} else {
			sc = append(sc, "ok")
		}
	}
	return sc
}

// strictSystematic: the challenge (Digest with a fresh nonce, Basic) at every step of the handshake — one step at
// a time, and at all of them — against a camera that insists on its session id (454 otherwise), for one and two tracks
func strictSystematic() []*scenario {
	var out []*scenario
	for _, chal := range []string{"u-dg", "u-bg"} {
		for _, sdp := range []string{"v", "va", "a", "absctl"} {
			n := 3 + tracksOf(sdp)
			for step := 0; step <= n; step++ { // step == n: at every step
				st := step
				sc := rfcScript(n, chal, func(i int) bool { return st == n || i == st })
				play := []string{"p0", "eof"}
				if step == n {
					play = []string{"p0", "ka", "p1", "stop"}
				}
				out = append(out, &scenario{user: true, listen: true, urlPath: true, sdp: sdp, script: sc, play: play, strict: true, keep: step%2 == 0})
			}
		}
	}
	return out
}

// genStrict: the same class at random: challenges of either scheme in front of any subset of the steps
func genStrict(r *Rng) *scenario {
	kinds := []string{"v", "v", "va", "a", "av", "absctl"}
	s := &scenario{user: true, listen: true, urlPath: !r.Chance(10), keep: r.Chance(50), strict: true, sdp: kinds[r.Intn(len(kinds))]}
	n := 3 + tracksOf(s.sdp)
	for i := 0; i < n; i++ {
		if r.Chance(40) {
			if r.Chance(50) {
				s.script = append(s.script, "u-dg")
			} else {
				s.script = append(s.script, "u-bg")
			}
		}
		if i >= 2 {
			s.script = append(s.script, "ok+s")
		} else {
			s.script = append(s.script, "ok")
		}
	}
	s.play = genPlay(r)
	s.rtsp = r.Chance(12)
	return s
}

func classOf(verdict string) string {
	if i := strings.Index(verdict, ":"); i >= 0 {
		return verdict[i+1:]
	}
	return verdict
}

// timing of one phase: the NetTimeout override and the derived hang watchdog
var hangNs int64 = int64(50 * time.Second)
var netTimeoutNs int64 = int64(12 * time.Second)

func hangAfter() time.Duration { return time.Duration(atomic.LoadInt64(&hangNs)) }

func setPhase(nt time.Duration) {
	config.VerifSetNetTimeouts(nt, heartbeat)
	if nt == 0 { // no override: the built-in NetTimeout (45 s, a regenerated fact)
		nt = 45 * time.Second
	}
	atomic.StoreInt64(&netTimeoutNs, int64(nt))
	h := 4*nt + 2*time.Second // the requester not back after 4 × NetTimeout: reported as a hang
	if atomic.LoadInt32(&patient) == 1 {
		h += 20 * time.Second
	}
	atomic.StoreInt64(&hangNs, int64(h))
}

func hasSilence(s *scenario) bool {
	for _, t := range s.script {
		if t == "sil" {
			return true
		}
	}
	return len(s.play) > 0 && s.play[len(s.play)-1] == "sil"
}

func obsLine(s *scenario, o *observation) string {
	leak := "0"
	for _, n := range o.notes {
		if strings.HasPrefix(n, "leak:") {
			leak = "1"
		}
	}
	ob := o.String()
	if strings.HasPrefix(o.out, "status-") { // judged by the harness: a failed pull must be answered 404
		ob = strings.Replace(ob, "out="+o.out, "out=nil", 1)
	}
	if s.strict && len(o.resps) > 0 {
		ob += " resps=" + strings.Join(o.resps, ",")
	}
	return "c20 pull " + s.line() + " | " + ob + " leak=" + leak
}

func implKeyOf(o *observation) string {
	out := o.out
	if strings.HasPrefix(out, "status-") {
		out = "nil"
	}
	return fmt.Sprintf("out=%s;reqs=%s;closed=%s;reg=%s;delivered=%d;clean=%s;ka=%d", out, strings.Join(o.reqs, ","), B01(o.closed), B01(o.reg), o.delivered, B01(o.clean), o.ka())
}

// failClass: "" if the driver's answer agrees with the observation and the specification accepts it,
// else a short name of what is wrong (used to pick the cases of the confirmation pass)
func failClass(s *scenario, o *observation, m map[string]string) string {
	wantTask := 1
	if s.keep {
		wantTask = 0
	}
	switch {
	case o.out == "infra":
		return ""
	case m["verdict"] != "ok":
		return m["verdict"]
	case strings.HasPrefix(o.out, "status-"):
		return "status"
	case o.secondBad:
		return "second"
	case o.extraBad:
		return "extra"
	case o.out == "stream" && o.idleTask != wantTask:
		return "idletask"
	case implKeyOf(o) != m["model"]:
		return "corr"
	}
	return ""
}

// runBatches runs the scenarios idx (indices into scs) in parallel batches; batch-level leak check
func runBatches(scs []*scenario, idx []int, obs []*observation, tag string) {
	base := stats.RtspConns.GetSample().Active
	const batch = 32
	leakPinned := false
	for lo := 0; lo < len(idx); lo += batch {
		hi := lo + batch
		if hi > len(idx) {
			hi = len(idx)
		}
		var wg sync.WaitGroup
		for _, i := range idx[lo:hi] {
			wg.Add(1)
			go func(i int) {
				defer wg.Done()
				obs[i] = runScenarioGuarded(scs[i], fmt.Sprintf("/c20/%s%d", tag, i))
			}(i)
		}
		wg.Wait()
		if leakPinned {
			continue // a leak is already pinned on concrete scenarios; later batches cannot be judged any more
		}
		okc := waitFor(func() bool { return stats.RtspConns.GetSample().Active <= base })
		okg := waitSlow(func() bool { n, _ := pullGoroutines(); return n == 0 })
		if !okc || !okg {
			// pin the leak on single scenarios: re-run the batch one by one (stop at the third culprit)
			culprits := 0
			for _, i := range idx[lo:hi] {
				if culprits >= 3 {
					break
				}
				if runAlone(scs[i], fmt.Sprintf("/c20/%sr%d", tag, i), obs, i) {
					culprits++
				}
			}
			if culprits == 0 {
				obs[idx[lo]].notes = append(obs[idx[lo]].notes, "leak:batch")
			}
			leakPinned = true
			base = stats.RtspConns.GetSample().Active
		}
	}
}

// runAlone: one scenario with nothing else going on, with its own leak check; true if it leaks
func runAlone(s *scenario, path string, obs []*observation, i int) bool {
	waitSlow(func() bool { n, _ := pullGoroutines(); return n == 0 }) // whatever ran before has wound down (if it ever does)
	b0 := stats.RtspConns.GetSample().Active
	g0, _ := pullGoroutines()
	o := runScenarioGuarded(s, path)
	c1 := waitFor(func() bool { return stats.RtspConns.GetSample().Active <= b0 })
	var sample string
	g1 := waitSlow(func() bool { n, sm := pullGoroutines(); sample = sm; return n <= g0 })
	if !c1 {
		o.notes = append(o.notes, "leak:conncount")
	}
	if !g1 {
		o.notes = append(o.notes, "leak:goroutine "+firstLines(sample, 6))
	}
	obs[i] = o
	return !c1 || !g1
}

func firstLines(s string, n int) string {
	l := strings.Split(s, "\n")
	if len(l) > n {
		l = l[:n]
	}
	return strings.Join(l, " | ")
}

func runC20(c *Ctx) {
	c.Res.Rule = "case = one pull scenario (route URL with/without credentials, camera script: one response kind per received request, SDP kind, play events + terminal event; requester = media.GetOrCreate or a real RTSP session; afterwards a later request for the same path) against a fake camera on a loopback listener, or one pair of simultaneous first requests (held together at the GetOrCreate miss point; or both pulling, ordered by the camera's withheld PLAY answers, with consumers attached to either stream and then each pull ended in one of seven ways); distinct by the scenario line; non-trivial when the camera was dialled and answered at least one request.  A disagreement is reported only if it reproduces when the scenario is re-run alone with generous time bounds"
	var scs []*scenario
	for _, l := range c.CorpusLines() {
		f := strings.Fields(l)
		if len(f) > 2 && f[0] == "c20" && f[1] == "pull" {
			scs = append(scs, parseScenario(KV(strings.Join(f[2:], " "))))
		}
	}
	if c.Replay == "" {
		scs = append(scs, systematic()...)
		for i, n := 0, c.Budget(600, 6000); i < n; i++ {
			scs = append(scs, genScenario(c.Rng))
		}
		// cameras that behave per RFC 2326 (session id required after SETUP, fresh nonces), challenged at every step
		scs = append(scs, strictSystematic()...)
		for i, n := 0, c.Budget(24, 600); i < n; i++ {
			scs = append(scs, genStrict(c.Rng))
		}
	}
	if (c.Thorough() || c.Search) && c.Replay == "" {
		// silence under the BUILT-IN timeout (no override): the handshake read and the play loop really run under
		// a deadline when nothing shortens it (45 s each: thorough tier and search only)
		scs = append(scs,
			&scenario{listen: true, urlPath: true, sdp: "v", script: []string{"ok", "sil"}, play: []string{"eof"}, builtin: true},
			&scenario{listen: true, urlPath: true, sdp: "v", play: []string{"p0", "sil"}, builtin: true})
	}
	var quiet, silent, builtin []int
	for i, s := range scs {
		s.id = i
		switch {
		case s.builtin:
			builtin = append(builtin, i)
		case hasSilence(s):
			silent = append(silent, i)
		default:
			quiet = append(quiet, i)
		}
	}
	obs := make([]*observation, len(scs))
	// phase A: no scenario waits for a timeout, so the timeout can be long (no false alarm on a slow machine)
	setPhase(12 * time.Second)
	runBatches(scs, quiet, obs, "a")
	// phase B: the scenarios in which the camera goes silent: the client's own timeout has to expire
	setPhase(2500 * time.Millisecond)
	runBatches(scs, silent, obs, "b")
	if len(builtin) > 0 { // phase C: the built-in timeout
		setPhase(0)
		runBatches(scs, builtin, obs, "c")
		c.CountN("silence-under-the-built-in-timeout", len(builtin))
	}
	lines := make([]string, len(scs))
	for i, s := range scs {
		lines[i] = obsLine(s, obs[i])
	}
	outs := c.Drive(lines)
	// confirmation: whatever failed is run again, alone, with generous time bounds; only what fails again is
	// reported.  When many cases fail, a few of every kind of failure are re-run (quiet ones first); the
	// others are not reported at all — never on the strength of the first, parallel run.
	byClass := map[string][]int{}
	var classes []string
	nFail := 0
	for i := range scs {
		if cl := failClass(scs[i], obs[i], KV(outs[i])); cl != "" {
			if _, ok := byClass[cl]; !ok {
				classes = append(classes, cl)
			}
			byClass[cl] = append(byClass[cl], i)
			nFail++
		}
	}
	unconfirmed := map[int]bool{}
	if nFail > 0 {
		c.CountN("first-run-disagreements", nFail)
		sort.Strings(classes)
		var again []int
		for round := 0; len(again) < 24; round++ {
			added := false
			for _, cl := range classes {
				l := byClass[cl]
				sort.SliceStable(l, func(a, b int) bool { return !hasSilence(scs[l[a]]) && hasSilence(scs[l[b]]) })
				if round < len(l) && len(again) < 24 {
					again = append(again, l[round])
					added = true
				}
			}
			if !added {
				break
			}
		}
		picked := map[int]bool{}
		for _, i := range again {
			picked[i] = true
		}
		for _, l := range byClass {
			for _, i := range l {
				if !picked[i] {
					unconfirmed[i] = true
				}
			}
		}
		atomic.StoreInt32(&patient, 1)
		setPhase(6 * time.Second)
		started := time.Now()
		var l2 []string
		var done []int
		firstClass := map[int]string{}
		firstObs := map[int]string{}
		for _, i := range again {
			firstClass[i] = failClass(scs[i], obs[i], KV(outs[i]))
			firstObs[i] = obs[i].String() + " " + strings.Join(obs[i].notes, "; ")
		}
		for _, i := range again {
			if time.Since(started) > 6*time.Minute { // a broken tree: enough has been confirmed
				unconfirmed[i] = true
				continue
			}
			if scs[i].builtin {
				setPhase(0)
			} else {
				setPhase(6 * time.Second)
			}
			runAlone(scs[i], fmt.Sprintf("/c20/c%d", i), obs, i)
			l2 = append(l2, obsLine(scs[i], obs[i]))
			done = append(done, i)
		}
		o2 := c.Drive(l2)
		for k, i := range done {
			lines[i], outs[i] = l2[k], o2[k]
			if failClass(scs[i], obs[i], KV(outs[i])) == "" {
				c.Count("first-run-disagreement-not-reproduced-alone")
				c.Note(fmt.Sprintf("parallel first run only (%s), not reproduced alone: c20 pull %s | first run: %s", firstClass[i], scs[i].line(), firstObs[i]))
			} else {
				c.Count("first-run-disagreement-confirmed-alone")
			}
		}
		c.CountN("first-run-disagreements-not-rerun-not-reported", len(unconfirmed))
		atomic.StoreInt32(&patient, 0)
	}
	// simultaneous first requests (one at a time: they use the global verif hook).  A run that is not as it
	// should be is repeated twice with long bounds; only a result that stays wrong is reported.
	setPhase(12 * time.Second)
	nDual := c.Budget(6, 30)
	if c.Replay != "" {
		nDual = 0
		for _, l := range c.CorpusLines() {
			if l == "c20 dual" || strings.HasPrefix(l, "c20 dual ") {
				nDual = 2
			}
		}
	}
	dualOut := c.Drive([]string{"c20 dual"})
	dualConfirmedBad := false
	for i := 0; i < nDual && !dualConfirmedBad; i++ {
		pause := i%2 == 1
		n := 2
		if i%3 == 2 {
			n = 3
		}
		ob, notes, ex := runDual(i, pause, 8*time.Second, n)
		for try := 0; try < 2 && (!ex || ob != dualGood); try++ {
			c.Count("dual-first-run-repeated")
			ob, notes, ex = runDual(i, pause, patience, n)
		}
		caseLine := fmt.Sprintf("c20 dual # run %d, %d simultaneous first requests, first Regist paused=%v", i, n, pause)
		if !ex {
			c.Count("dual-not-exercised")
			continue
		}
		m := KV(dualOut[0])
		c.Eval(fmt.Sprintf("dual-%d-%d", n, i%2), true)
		c.Count("dual-" + ob)
		k := KV(ob)
		if got := fmt.Sprintf("live=%s;registered=%s", k["live"], k["registered"]); got != m["model"] {
			c.Find(Finding{Kind: "corr", Class: "dual-first-requests", Case: caseLine, Impl: got, Model: m["model"], Detail: strings.Join(notes, "; ")})
		}
		if ob != dualGood {
			dualConfirmedBad = true
			c.Find(Finding{Kind: "oracle", Class: "concurrent-first-requests-not-one-stream", Case: caseLine, Impl: ob, Spec: dualGood, Detail: strings.Join(notes, "; ")})
		}
	}
	// two simultaneous first requests that both pull, consumers attached, then every way the two pulls end
	// (order forced by the fake camera withholding its PLAY answers: no hook, so these run in parallel)
	var dcs []*dualScn
	for _, l := range c.CorpusLines() {
		f := strings.Fields(l)
		if len(f) > 2 && f[0] == "c20" && f[1] == "dualc" {
			if d := parseDualScn(KV(strings.Join(f[2:], " "))); validHow(d.how1) && validHow(d.how2) {
				dcs = append(dcs, d)
			}
		}
	}
	if c.Replay == "" {
		dcs = append(dcs, dualSystematic()...)
		for i, n := 0, c.Budget(10, 250); i < n; i++ {
			dcs = append(dcs, genDualScn(c.Rng))
		}
	}
	runDualCs(c, dcs)
	for i, s := range scs {
		o := obs[i]
		m := KV(outs[i])
		caseLine := "c20 pull " + s.line()
		if o.out == "infra" {
			c.Count("infrastructure-failure-not-judged")
			c.Note("not judged: " + caseLine + ": " + strings.Join(o.notes, "; "))
			continue
		}
		c.Eval(caseLine, o.dialled && len(o.reqs) > 0)
		c.Count("out-" + o.out)
		c.Count(fmt.Sprintf("requests-%02d", len(o.reqs)))
		if o.out == "stream" {
			c.Count("terminal-" + s.play[len(s.play)-1])
			c.Count(fmt.Sprintf("delivered-%d", o.delivered))
			c.Count(fmt.Sprintf("keepalives-called-for-%d", o.wantKA))
		}
		for _, t := range s.script {
			c.Count("resp-" + t)
		}
		c.Count("sdp-" + s.sdp)
		if s.rtsp {
			c.Count("requester-rtsp-session")
		}
		if s.strict {
			c.Count("camera-insists-on-session-id")
			for k, t := range s.script {
				if strings.HasPrefix(t, "u-") && k+1 < len(s.script) {
					c.Count("strict-challenge-then-" + s.script[k+1])
				}
			}
		}
		if !o.dialled {
			c.Count("not-dialled")
		}
		if o.afresh {
			c.Count("later-request-pulled-afresh")
		}
		for _, r := range o.reqs {
			f := strings.Split(r, ":")
			c.Count("req-" + f[0] + "-" + f[1] + "-" + f[2] + "-" + f[4])
		}
		if i%(len(scs)/8+1) == 0 {
			c.Sample(lines[i] + " => " + outs[i])
		}
		if unconfirmed[i] {
			continue // failed in the parallel first run and was not re-run alone: no verdict
		}
		if strings.HasPrefix(o.out, "status-") {
			c.Find(Finding{Kind: "oracle", Class: "failed-pull-not-answered-404", Case: caseLine, Impl: o.String(), Spec: "RTSP 404 Not Found"})
		}
		if implKey := implKeyOf(o); implKey != m["model"] {
			c.Find(Finding{Kind: "corr", Class: "pull-scenario", Case: caseLine, Impl: implKey, Model: m["model"], Detail: strings.Join(o.notes, "; ")})
		}
		if o.extraBad {
			// the property does not speak of what the client sends while playing; the model does (keep-alive OPTIONS to the route URL)
			c.Find(Finding{Kind: "corr", Class: "request-after-play-not-keepalive", Case: caseLine, Impl: o.String(), Model: "only OPTIONS to the route URL after PLAY", Detail: strings.Join(o.notes, "; ")})
		}
		if o.extra > 0 {
			c.Count("keepalive-seen")
		}
		if o.secondBad {
			c.Find(Finding{Kind: "oracle", Class: "second-request-not-served-by-live-pull", Case: caseLine, Impl: o.String(), Spec: "the stream already pulled for the path", Detail: strings.Join(o.notes, "; ")})
		}
		if o.out == "stream" {
			want := 1
			if s.keep {
				want = 0
			}
			c.Count(fmt.Sprintf("idle-task-posted-%d", o.idleTask))
			if o.idleTask != want {
				// the property does not speak of the task; the model (GetOrCreate's guard, a regenerated fact) does
				c.Find(Finding{Kind: "corr", Class: "idle-close-task-not-as-route-says", Case: caseLine, Impl: fmt.Sprintf("tasks=%d keepalive=%v", o.idleTask, s.keep), Model: fmt.Sprintf("tasks=%d", want), Detail: strings.Join(o.notes, "; ")})
			}
		}
		if v := m["verdict"]; v != "ok" {
			c.Find(Finding{Kind: "oracle", Class: classOf(v), Case: caseLine, Impl: o.String(), Spec: v, Detail: strings.Join(o.notes, "; ")})
		}
	}
}

var _ = os.Getenv
var _ = verifhook.Enabled
var _ = runtime.NumGoroutine
