package main

// Wire run of C10: the same kind of session, but through the real media.Stream (NewStream →
// prepareOtherStream → hls.NewSegmentGenerator with config.HlsFragment()/HlsPath(), the
// mpegts.Muxer goroutine fed by Stream.WriteFrame) and the real HTTP handlers of service/hls
// (GetM3u8 / GetTS through media.GetOrCreate), observed like an HLS client does.

import (
	"bytes"
	"encoding/base64"
	"fmt"
	"io/ioutil"
	"net/http"
	"net/http/httptest"
	"os"
	"path/filepath"
	"runtime"
	"sort"
	"strconv"
	"strings"
	"sync"
	"sync/atomic"
	"time"

	. "verifharness/hlib"

	"github.com/cnotch/ipchub/av/codec"
	"github.com/cnotch/ipchub/av/codec/aac"
	"github.com/cnotch/ipchub/av/format/hls"
	"github.com/cnotch/ipchub/config"
	"github.com/cnotch/ipchub/media"
	hlssvc "github.com/cnotch/ipchub/service/hls"
	"github.com/cnotch/ipchub/utils/verifhook"
	"github.com/cnotch/xlog"
)

var wireMu sync.Mutex // config and the stream registry are process-wide
var wireSeq int

// tsPops counts how often a TS muxer goroutine came back to its queue for the next frame
// (schedule point "tsmuxer.beforePop" of mpegts.Muxer.process): the n-th frame pushed to a muxer
// has been processed completely — packetised, written to the segment, segment reaped — when the
// muxer has come back n+1 times.  Only wire sessions create TS muxers and they run one at a time.
var tsPops, flvPops int64

func init() {
	verifhook.Set(func(point string, id uint32) {
		switch point {
		case "tsmuxer.beforePop":
			atomic.AddInt64(&tsPops, 1)
		case "flvmuxer.beforePop":
			atomic.AddInt64(&flvPops, 1)
		}
	})
}

func wireSdp(k *hcase) string {
	ch := 1
	sprop := ";sprop-parameter-sets=" + base64.StdEncoding.EncodeToString(k.sps) + "," + base64.StdEncoding.EncodeToString(k.pps)
	if k.inband {
		sprop = "" // the camera announces no parameter sets: they come in-band
	}
	return "v=0\r\no=- 0 0 IN IP4 127.0.0.1\r\ns=verif\r\nc=IN IP4 0.0.0.0\r\nt=0 0\r\n" +
		"m=video 0 RTP/AVP 96\r\na=rtpmap:96 H264/90000\r\n" +
		"a=fmtp:96 packetization-mode=1" + sprop + "\r\n" +
		"a=control:streamid=0\r\n" +
		fmt.Sprintf("m=audio 0 RTP/AVP 97\r\na=rtpmap:97 MPEG4-GENERIC/%d/%d\r\n", k.rate, ch) +
		"a=fmtp:97 streamtype=5;profile-level-id=1;mode=AAC-hbr;sizelength=13;indexlength=3;indexdeltalength=3;config=" + Hx(k.ascraw) + "\r\n" +
		"a=control:streamid=1\r\n"
}

// genWireCase: fragment 5 s (the configuration's minimum), low frame rates, ~25..40 s of media
func genWireCase(c *Ctx) *hcase {
	k := &hcase{frag: 5, rate: []int{8000, 16000}[c.Rng.Intn(2)], disk: c.Rng.Chance(40), tag: "wire"}
	k.path = []string{"/wire/cam", "/w"}[c.Rng.Intn(2)]
	if c.Rng.Chance(60) {
		k.token = genToken(c)
	}
	// real-looking parameter sets (640x480 baseline) so that the SDP parser accepts them
	k.sps, _ = base64.StdEncoding.DecodeString("Z0IAKeKQFAe2AtwEBAaQeJEV")
	k.pps, _ = base64.StdEncoding.DecodeString("aM48gA==")
	k.ascraw = aac.Encode2BytesASC(2, byte(rateIdx[k.rate]), 1)
	k.inband = c.Rng.Chance(40)
	if c.Rng.Chance(35) {
		k.conc = 1
	}
	frameDur := int64([]int{18000, 30000, 45000}[c.Rng.Intn(3)])
	gopFrames := int64(2 + c.Rng.Intn(20))
	if c.Rng.Chance(25) {
		gopFrames = 12*90000/frameDur + int64(c.Rng.Intn(5)) // longer than 2 × fragment
		k.tag = "wire-gop>2frag"
	}
	total := int64(26+c.Rng.Intn(14)) * 90000
	aDur := int64(1024) * 90000 / int64(k.rate)
	t0 := int64(c.Rng.Intn(200000))
	vt, at, vi := int64(0), int64(500), int64(0)
	for vt < total {
		if vt <= at {
			typ := byte(1)
			if vi%gopFrames == 0 {
				typ = 5
			}
			if vi == 0 && k.inband {
				k.evs = append(k.evs, event{kind: 'v', dts: nsOfTicks(t0 + vt), pts: nsOfTicks(t0 + vt), payload: k.sps})
				k.evs = append(k.evs, event{kind: 'v', dts: nsOfTicks(t0 + vt), pts: nsOfTicks(t0 + vt), payload: k.pps})
			}
			k.evs = append(k.evs, event{kind: 'v', dts: nsOfTicks(t0 + vt), pts: nsOfTicks(t0 + vt), payload: genNal(c, typ, 3+c.Rng.Intn(30))})
			vt += frameDur
			vi++
			if c.Rng.Chance(8) {
				k.evs = append(k.evs, event{kind: 'Q'})
			}
		} else {
			k.evs = append(k.evs, event{kind: 'a', dts: nsOfTicks(t0 + at), pts: nsOfTicks(t0 + at), payload: c.Rng.Bytes(1 + c.Rng.Intn(16))})
			at += aDur
		}
	}
	// end with a video frame: when the muxer goroutine has processed it, everything before is done
	last := vt
	if at > last {
		last = at
	}
	k.evs = append(k.evs, event{kind: 'v', dts: nsOfTicks(t0 + last), pts: nsOfTicks(t0 + last), payload: genNal(c, 1, 5)})
	return k
}

type httpObs struct {
	status int
	hdr    http.Header
	body   []byte
}

func httpM3u8(path, token string) httpObs {
	rec := httptest.NewRecorder()
	hlssvc.GetM3u8(xlog.New(xlog.NewNopCore()), path, token, "127.0.0.1:1", rec)
	return httpObs{rec.Code, rec.Header(), rec.Body.Bytes()}
}

func httpTS(path string, seq int) httpObs {
	rec := httptest.NewRecorder()
	hlssvc.GetTS(xlog.New(xlog.NewNopCore()), path+"/"+strconv.Itoa(seq), "127.0.0.1:1", rec)
	return httpObs{rec.Code, rec.Header(), rec.Body.Bytes()}
}

func runWire(k *hcase, in string) (res result) {
	wireMu.Lock()
	defer wireMu.Unlock()
	res.notes = map[string]int{}
	wireSeq++
	segPath := ""
	if k.disk {
		segPath = filepath.Join(os.TempDir(), fmt.Sprintf("verif-c10w-%d-%d", os.Getpid(), wireSeq))
		os.MkdirAll(segPath, 0755)
		defer os.RemoveAll(segPath)
	}
	config.VerifSetHls(k.frag, segPath)
	xlog.ReplaceGlobal(xlog.New(xlog.NewNopCore()))
	path := k.path
	pops0 := atomic.LoadInt64(&tsPops) // before the muxer goroutine of this stream exists
	flv0 := atomic.LoadInt64(&flvPops)
	s := media.NewStream(path, wireSdp(k))
	media.Regist(s)
	defer func() {
		defer func() { recover() }() // a panic in Close was already reported by the handler below
		media.Unregist(s)
		s.Close()
	}()
	sg, pl := s.VerifHls()
	if sg == nil || pl == nil {
		res.goFinds = append(res.goFinds, Finding{Kind: "corr", Class: "wire-no-hls", Case: in, Impl: "stream has no HLS generator"})
		return
	}
	goFind := func(class, impl, spec string) {
		res.goFinds = append(res.goFinds, Finding{Kind: "oracle", Class: class, Case: in, Impl: impl, Spec: spec})
	}
	// HLS clients inside the roll-overs (rollover.go), through the HTTP handlers; the one at the schedule
	// points runs on the muxer goroutine
	rc := newRolloverClients(k, in, &res,
		func() ([]byte, bool) {
			if len(pl.VerifSegments()) < 3 { // GetM3u8 polls for seconds while the playlist is not ready
				return nil, false
			}
			o := httpM3u8(path, k.token)
			return o.body, o.status == 200
		},
		func(seq int) ([]byte, int, bool) {
			o := httpTS(path, seq)
			n, _ := strconv.Atoi(o.hdr.Get("Content-Length"))
			return o.body, n, o.status == 200
		})
	sg.VerifOnRollover(rc.atPoint)
	rc.start()
	defer func() { rc.finish(); sg.VerifOnRollover(nil) }()
	captured := map[int][]byte{}
	// wait until the muxer goroutine has processed every frame handed in so far (it is back at its
	// queue): an event, not a delay; the budget only bounds a goroutine that is gone or stuck
	pushed := int64(0)
	settle := func() bool {
		deadline := time.Now().Add(wireSettleBudget)
		for n := 0; ; n++ {
			if atomic.LoadInt64(&tsPops)-pops0 >= pushed+1 {
				return true
			}
			if time.Now().After(deadline) {
				return false
			}
			if n < 200 {
				runtime.Gosched()
			} else {
				time.Sleep(200 * time.Microsecond)
			}
		}
	}
	capture := func() {
		for _, sv := range pl.VerifSegments() {
			if _, ok := captured[sv.SequenceNo]; ok {
				continue
			}
			o := httpTS(path, sv.SequenceNo)
			if o.status != 200 {
				goFind("http-listed-segment-not-served", fmt.Sprintf("GET %s/%d.ts → %d", path, sv.SequenceNo, o.status), "200")
			}
			if cl := o.hdr.Get("Content-Length"); cl != strconv.Itoa(len(o.body)) {
				goFind("http-segment-content-length", "Content-Length "+cl+" for "+strconv.Itoa(len(o.body))+" bytes", "equal")
			}
			if ct := o.hdr.Get("Content-Type"); ct != "video/mp2ts" {
				goFind("http-segment-content-type", ct, "video/mp2ts")
			}
			captured[sv.SequenceNo] = o.body
			res.tokens = append(res.tokens, fmt.Sprintf("S:%d:%d:%s", sv.SequenceNo, ticksOf(sv.Duration), Hx(o.body)))
			res.segsDone++
		}
	}
	query := func() {
		segs := pl.VerifSegments()
		var seqs, durs, hdrs []string
		stable := true
		for _, sv := range segs {
			seqs = append(seqs, strconv.Itoa(sv.SequenceNo))
			durs = append(durs, strconv.FormatInt(ticksOf(sv.Duration), 10))
			hdrs = append(hdrs, B01(sv.IsSequenceHeader))
			if o := httpTS(path, sv.SequenceNo); o.status != 200 || !bytes.Equal(o.body, captured[sv.SequenceNo]) {
				stable = false
			}
		}
		m3 := "ERR"
		if len(segs) >= 3 { // GetM3u8 polls for seconds while the playlist is not ready
			o := httpM3u8(path, k.token)
			if o.status == 200 {
				m3 = Hx(o.body)
				if cl := o.hdr.Get("Content-Length"); cl != strconv.Itoa(len(o.body)) {
					goFind("http-playlist-content-length", cl, strconv.Itoa(len(o.body)))
				}
				if ct := o.hdr.Get("Content-Type"); ct != "application/x-mpegURL" {
					goFind("http-playlist-content-type", ct, "application/x-mpegURL")
				}
			} else {
				goFind("http-playlist-not-served", fmt.Sprintf("status %d with %d segments listed", o.status, len(segs)), "200")
			}
			// a number that is not listed must not resolve
			if o := httpTS(path, segs[len(segs)-1].SequenceNo+7); o.status == 200 {
				goFind("http-unlisted-segment-served", "200", "404")
			}
		}
		cur, ok, _, _ := sg.VerifCurrent()
		cs, cd, cst := "-", "0", "0"
		if ok {
			cs, cd, cst = strconv.Itoa(cur.SequenceNo), strconv.FormatInt(ticksOf(cur.Duration), 10), strconv.FormatInt(cur.StartPts, 10)
		}
		files := "x"
		if k.disk {
			var fs []int
			des, _ := ioutil.ReadDir(segPath)
			for _, de := range des {
				n := strings.TrimSuffix(de.Name(), ".ts")
				if i := strings.LastIndex(n, "_"); i >= 0 {
					if v, err := strconv.Atoi(n[i+1:]); err == nil {
						fs = append(fs, v)
					}
				}
			}
			sort.Ints(fs)
			ss := make([]string, len(fs))
			for i, v := range fs {
				ss[i] = strconv.Itoa(v)
			}
			files = strings.Join(ss, ";")
			if files == "" {
				files = "-"
			}
		}
		j := func(s []string) string {
			if len(s) == 0 {
				return "-"
			}
			return strings.Join(s, ";")
		}
		res.tokens = append(res.tokens, fmt.Sprintf("Q:%s:%s:%s:%s:%s:%s:%s:%s:%s", m3, j(seqs), j(durs), j(hdrs), cs, cd, cst, B01(stable), files))
	}
	defer func() {
		if r := recover(); r != nil {
			res.panicked = true
			res.goFinds = append(res.goFinds, Finding{Kind: "oracle", Class: "panic-outside-frame-path", Case: in,
				Impl: fmt.Sprintf("panic in a client call or in Close: %v", r), Spec: "no panic"})
		}
	}()
	// Once the muxer goroutine has stopped taking frames (it is gone after a panic, or stuck) the
	// session goes on without waiting: what the client is then served — frames missing from the
	// segments, a playlist that no longer advances — is judged like everything else, so the verdict
	// rests on the state and not on the clock.
	stalled := false
	for _, e := range k.evs {
		switch e.kind {
		case 'v':
			res.tokens = append(res.tokens, fmt.Sprintf("v:%d:%d:%s", e.dts, e.pts, Hx(e.payload)))
			if k.inband && len(e.payload) > 0 && (e.payload[0]&0x1f == 7 || e.payload[0]&0x1f == 8) {
				// the TS muxer goroutine is idle here (settled) and the FLV muxer goroutine, which shares
				// the stream's metadata too, is given the time to get there (no verdict: it may have ended)
				for w := time.Now().Add(30 * time.Second); atomic.LoadInt64(&flvPops)-flv0 < pushed+1 && time.Now().Before(w); {
					time.Sleep(100 * time.Microsecond)
				}
				learnParamSet(&s.Video, e.payload)
			}
			s.WriteFrame(&codec.Frame{MediaType: codec.MediaTypeVideo, Dts: e.dts, Pts: e.pts, Payload: e.payload})
			pushed++
			if !stalled && !settle() {
				stalled = true
			}
			capture()
		case 'a':
			res.tokens = append(res.tokens, fmt.Sprintf("a:%d:%s", e.pts, Hx(e.payload)))
			s.WriteFrame(&codec.Frame{MediaType: codec.MediaTypeAudio, Dts: e.pts, Pts: e.pts, Payload: e.payload})
			pushed++
			if !stalled && !settle() {
				stalled = true
			}
			capture()
		case 'Q':
			query()
		}
	}
	if stalled {
		res.notes["wire-stalled"] = 1
		res.goFinds = append(res.goFinds, Finding{Kind: "corr", Class: "wire-muxer-stopped", Case: in,
			Impl: fmt.Sprintf("the TS muxer goroutine did not come back for the next frame within %v", wireSettleBudget)})
	}
	rc.finish()
	query()
	if cur, ok, _, _ := sg.VerifCurrent(); ok {
		res.tokens = append(res.tokens, fmt.Sprintf("C:%d:%s", cur.SequenceNo, Hx(sg.VerifCurrentBytes())))
	}
	// Stream.Close closes the muxer, the generator and the playlist: nothing may be left behind
	s.Close()
	if n := len(pl.VerifSegments()); n != 0 {
		goFind("storage-not-cleaned-on-close", fmt.Sprintf("%d segments still listed after Stream.Close", n), "0")
	}
	if k.disk {
		if des, _ := ioutil.ReadDir(segPath); len(des) != 0 {
			goFind("storage-not-cleaned-on-close", fmt.Sprintf("%d files left after Stream.Close", len(des)), "0")
		}
	}
	return
}

// probeNoHls: an HLS request for a stream that has no HLS output (an H.265 stream) must be
// answered like any other missing resource; a URI of a playlist "resolves to a segment" or to a
// proper not-found, never to a crashed handler.
func probeNoHls(c *Ctx) {
	wireMu.Lock()
	defer wireMu.Unlock()
	xlog.ReplaceGlobal(xlog.New(xlog.NewNopCore()))
	s := media.NewStream("/wire/nohls", "v=0\r\no=- 0 0 IN IP4 127.0.0.1\r\ns=x\r\nc=IN IP4 0.0.0.0\r\nt=0 0\r\nm=video 0 RTP/AVP 96\r\na=rtpmap:96 H265/90000\r\na=control:streamid=0\r\n")
	media.Regist(s)
	defer func() { media.Unregist(s); s.Close() }()
	for _, req := range []string{"m3u8", "ts"} {
		code, pan := 0, ""
		func() {
			defer func() {
				if r := recover(); r != nil {
					pan = fmt.Sprint(r)
				}
			}()
			if req == "m3u8" {
				code = httpM3u8("/wire/nohls", "").status
			} else {
				code = httpTS("/wire/nohls", 1).status
			}
		}()
		c.Eval("nohls-"+req, true)
		c.Count("probe-stream-without-hls")
		if pan != "" || code != 404 {
			c.Find(Finding{Kind: "oracle", Class: "hls-request-on-stream-without-hls", Case: "probe nohls " + req,
				Impl: fmt.Sprintf("status=%d panic=%q", code, pan), Spec: "404 not found",
				Detail: "HLS request for a registered stream that has no HLS output (H.265)"})
		}
	}
}

// stressPlaylist: playlists are requested while segments roll over (a long token only stretches
// the rendering so that roll-overs fall inside it).  Every served playlist must be consistent:
// three entries, consecutive numbers, MEDIA-SEQUENCE = first, TARGETDURATION ≥ every duration,
// every entry's duration and URI those of its own sequence number.
func stressPlaylist(c *Ctx) {
	const sp = "/live/stress"
	uriOf := func(seq int) string { return "/streams" + sp + "/" + strconv.Itoa(seq) + ".ts" }
	durOf := func(seq int) float64 { return 2.0 + float64(seq%5) + 0.25 }
	pl := hls.NewPlaylist()
	seq := 0
	add := func() {
		seq++
		pl.VerifAddSegment(seq, durOf(seq), uriOf(seq), []byte{0x47, byte(seq)})
	}
	for seq < 3 {
		add()
	}
	token := strings.Repeat("k", 1<<19)
	var stop int32
	var adds int64 // roll-overs started so far
	var wg sync.WaitGroup
	wg.Add(1)
	go func() {
		defer wg.Done()
		for atomic.LoadInt32(&stop) == 0 {
			atomic.AddInt64(&adds, 1)
			add()
			runtime.Gosched()
		}
	}()
	// A round counts when a roll-over was started while the playlist was being rendered (it either
	// waited for the read lock or ran inside the rendering): the run goes on until enough rounds
	// counted; the wall-clock cap only ends the stress early, it is never a verdict.
	want := c.Budget(40, 400)
	overlapped, rounds := 0, 0
	capAt := time.Now().Add(time.Duration(c.Budget(20, 120)) * time.Second)
	bad := ""
	for overlapped < want && bad == "" && time.Now().Before(capAt) {
		rounds++
		a0 := atomic.LoadInt64(&adds)
		func() {
			defer func() {
				if r := recover(); r != nil {
					bad = fmt.Sprintf("Playlist.M3u8 panicked: %v", r)
				}
			}()
			b, err := pl.M3u8(token)
			if atomic.LoadInt64(&adds) != a0 {
				overlapped++
			}
			if err != nil {
				bad = "M3u8 failed although three segments are listed: " + err.Error()
				return
			}
			target, mediaSeq := -1, -1
			var seqs []int
			var durs []float64
			lines := strings.Split(string(b), "\n")
			for j := 0; j < len(lines); j++ {
				ln := lines[j]
				switch {
				case strings.HasPrefix(ln, "#EXT-X-TARGETDURATION:"):
					target, _ = strconv.Atoi(strings.TrimPrefix(ln, "#EXT-X-TARGETDURATION:"))
				case strings.HasPrefix(ln, "#EXT-X-MEDIA-SEQUENCE:"):
					mediaSeq, _ = strconv.Atoi(strings.TrimPrefix(ln, "#EXT-X-MEDIA-SEQUENCE:"))
				case strings.HasPrefix(ln, "#EXTINF:") && j+1 < len(lines):
					d, _ := strconv.ParseFloat(strings.TrimSuffix(strings.TrimPrefix(ln, "#EXTINF:"), ","), 64)
					durs = append(durs, d)
					j++
					u := strings.TrimSuffix(lines[j], "?token="+token)
					n, _ := strconv.Atoi(strings.TrimSuffix(strings.TrimPrefix(u, "/streams"+sp+"/"), ".ts"))
					seqs = append(seqs, n)
				}
			}
			switch {
			case len(seqs) != 3:
				bad = fmt.Sprintf("%d entries listed, want 3", len(seqs))
			case mediaSeq != seqs[0]:
				bad = fmt.Sprintf("EXT-X-MEDIA-SEQUENCE %d but the first listed segment is %d", mediaSeq, seqs[0])
			case seqs[1] != seqs[0]+1 || seqs[2] != seqs[1]+1:
				bad = fmt.Sprintf("listed sequence numbers %v are not consecutive", seqs)
			default:
				for k, d := range durs {
					if float64(target) < d {
						bad = fmt.Sprintf("EXT-X-TARGETDURATION %d below listed duration %.3f", target, d)
					} else if d != durOf(seqs[k]) {
						bad = fmt.Sprintf("segment %d listed with duration %.3f, produced with %.3f", seqs[k], d, durOf(seqs[k]))
					}
				}
			}
		}()
		c.Eval(fmt.Sprintf("stress-m3u8-%d", rounds), true)
	}
	atomic.StoreInt32(&stop, 1)
	wg.Wait()
	c.CountN("stress-playlists-served", rounds)
	c.CountN("stress-playlists-with-a-rollover-started-meanwhile", overlapped)
	if bad != "" {
		c.Find(Finding{Kind: "oracle", Class: "playlist-torn-by-concurrent-rollover", Case: "stress m3u8 during rollover", Impl: bad,
			Spec: "every served playlist lists three consecutive complete segments consistently", Detail: "Playlist.M3u8 concurrent with addSegment"})
	}
}
