package main

// HLS clients inside the roll-overs.  The property quantifies over "all interleavings of segment
// fetches with segment rollover", in both storage modes: a client that asks for the playlist and
// then for the newest segment listed in it may be scheduled between any two steps of the
// generator's roll-over (segment finished → listed → next segment opened).  Two kinds of client:
//
//   * one that runs ON the generator's goroutine at its schedule points (hls.VerifOnRollover:
//     "rollover.listed", "rollover.opened") — the interleaving is forced, the run deterministic;
//   * k.conc goroutines of their own that do playlist → newest URI → segment all the time; at the
//     point "listed" the generator waits (bounded; never a verdict) until one of them has run a whole
//     cycle inside the roll-over, so the fetch really happens there, under the real locks.
//
// Every fetch becomes an F event for the driver, which judges the served playlist like any other
// and compares the fetched bytes with what the same sequence number delivers once the frame is
// through (and that with the model).  Nothing here depends on the clock: a fetch is right or wrong
// by its bytes.

import (
	"crypto/sha1"
	"fmt"
	"runtime"
	"strconv"
	"strings"
	"sync"
	"sync/atomic"
	"time"

	. "verifharness/hlib"

	"github.com/cnotch/ipchub/av/codec/aac"
)

type rolloverClients struct {
	k       *hcase
	in      string
	res     *result
	m3u8    func() ([]byte, bool)         // GET playlist with the case's token
	segment func(int) ([]byte, int, bool) // GET segment: body, announced size, served

	mu    sync.Mutex
	toks  []string
	seen  map[string]bool
	finds []Finding
	notes map[string]int

	stop      int32
	wg        sync.WaitGroup
	gen, done int64 // roll-over windows opened / the newest window inside which a client goroutine ran a whole cycle
	finished  bool
}

func newRolloverClients(k *hcase, in string, res *result, m3u8 func() ([]byte, bool), segment func(int) ([]byte, int, bool)) *rolloverClients {
	return &rolloverClients{k: k, in: in, res: res, m3u8: m3u8, segment: segment, seen: map[string]bool{}, notes: map[string]int{}}
}

// newestSeq: the client's reading of the playlist — the last URI line, the number in front of ".ts"
// (the driver's independent parser checks the playlist itself and that this is its newest entry)
func newestSeq(txt []byte) (int, bool) {
	lines := strings.Split(string(txt), "\n")
	for i := len(lines) - 1; i >= 0; i-- {
		l := strings.TrimSpace(lines[i])
		if l == "" || strings.HasPrefix(l, "#") {
			continue
		}
		if q := strings.IndexByte(l, '?'); q >= 0 {
			l = l[:q]
		}
		if !strings.HasSuffix(l, ".ts") {
			return 0, false
		}
		l = strings.TrimSuffix(l, ".ts")
		n, err := strconv.Atoi(l[strings.LastIndexByte(l, '/')+1:])
		return n, err == nil && n >= 0
	}
	return 0, false
}

// cycle: one client run, playlist → newest URI → segment
func (rc *rolloverClients) cycle(point string, own bool) {
	defer func() {
		if r := recover(); r != nil {
			rc.mu.Lock()
			rc.finds = append(rc.finds, Finding{Kind: "oracle", Class: "panic-outside-frame-path", Case: rc.in,
				Impl: fmt.Sprintf("panic in a client request made during a roll-over (%s): %v", point, r), Spec: "no panic"})
			rc.mu.Unlock()
		}
	}()
	txt, ok := rc.m3u8()
	if !ok {
		if !own {
			rc.note("rollover-client-before-playlist-is-served")
		}
		return
	}
	seq, ok := newestSeq(txt)
	if !ok {
		rc.tok(fmt.Sprintf("F:%s:%s:-:-", point, Hx(txt)), "")
		return
	}
	b, n, ok := rc.segment(seq)
	if !ok {
		if own {
			// further roll-overs may have pushed the segment out between the two requests
			rc.note("rollover-conc-segment-gone-meanwhile")
			return
		}
		rc.tok(fmt.Sprintf("F:%s:%s:%d:ERR", point, Hx(txt), seq), "")
		return
	}
	if n != len(b) {
		rc.mu.Lock()
		rc.finds = append(rc.finds, Finding{Kind: "oracle", Class: "segment-fetched-in-rollover-size-announced-differs", Case: rc.in,
			Impl: fmt.Sprintf("segment %d fetched during a roll-over (%s): size announced %d, bytes delivered %d", seq, point, n, len(b)), Spec: "equal"})
		rc.mu.Unlock()
	}
	key := ""
	if own {
		h := sha1.Sum(b)
		key = fmt.Sprintf("%d:%x", seq, h[:8]) // the same answer again adds nothing
		rc.note("rollover-conc-fetches")
	} else {
		rc.note("rollover-client-at-" + point)
	}
	rc.tok(fmt.Sprintf("F:%s:%s:%d:%s", point, Hx(txt), seq, Hx(b)), key)
}

func (rc *rolloverClients) note(n string) {
	rc.mu.Lock()
	rc.notes[n]++
	rc.mu.Unlock()
}

func (rc *rolloverClients) tok(t, key string) {
	rc.mu.Lock()
	defer rc.mu.Unlock()
	if key != "" {
		if rc.seen[key] {
			return
		}
		rc.seen[key] = true
	}
	rc.toks = append(rc.toks, t)
}

// atPoint: the generator's goroutine is at a schedule point of a roll-over
func (rc *rolloverClients) atPoint(point string, seq int) {
	p := strings.TrimPrefix(point, "rollover.")
	rc.cycle(p, false)
	if p == "listed" && rc.k.conc > 0 && atomic.LoadInt32(&rc.stop) == 0 {
		g := atomic.AddInt64(&rc.gen, 1)
		deadline := time.Now().Add(2 * time.Second)
		for n := 0; atomic.LoadInt64(&rc.done) < g; n++ {
			if time.Now().After(deadline) {
				rc.note("rollover-window-without-conc-fetch") // slow machine: nothing is concluded from it
				return
			}
			if n < 100 {
				runtime.Gosched()
			} else {
				time.Sleep(20 * time.Microsecond)
			}
		}
		rc.note("rollover-window-with-a-conc-cycle-inside")
	}
}

func (rc *rolloverClients) start() {
	for i := 0; i < rc.k.conc; i++ {
		rc.wg.Add(1)
		go func() {
			defer rc.wg.Done()
			for n := 0; atomic.LoadInt32(&rc.stop) == 0; n++ {
				g0 := atomic.LoadInt64(&rc.gen)
				rc.cycle("conc", true)
				for {
					d := atomic.LoadInt64(&rc.done)
					if d >= g0 || atomic.CompareAndSwapInt64(&rc.done, d, g0) {
						break
					}
				}
				if n%4 == 3 {
					time.Sleep(50 * time.Microsecond) // leave the cores to the other sessions
				} else {
					runtime.Gosched()
				}
			}
		}()
	}
}

// finish: stop the client goroutines and hand the observations to the session's result (once)
func (rc *rolloverClients) finish() {
	if rc.finished {
		return
	}
	rc.finished = true
	atomic.StoreInt32(&rc.stop, 1)
	rc.wg.Wait()
	rc.mu.Lock()
	defer rc.mu.Unlock()
	rc.res.tokens = append(rc.res.tokens, rc.toks...)
	rc.res.goFinds = append(rc.res.goFinds, rc.finds...)
	for n, v := range rc.notes {
		rc.res.notes[n] += v
	}
}

// bigCase: frames of several KB, so that a segment is larger than the 64 KiB write buffer of a
// persistent segment file (part of it reaches the file while the segment is still open, the rest
// when it is closed), with client goroutines of their own.  One-second GOPs, fragment 1 s.
func bigCase(c *Ctx, disk bool, conc int) *hcase {
	k := &hcase{frag: 1, rate: 8000, disk: disk, conc: conc, path: "/big", tag: "big-frames", token: "t"}
	k.sps, k.pps = []byte{0x67, 0x42, 0x00, 0x1e}, []byte{0x68, 0xce, 0x3c, 0x80}
	k.ascraw = aac.Encode2BytesASC(2, 11, 1)
	per := 5 + c.Rng.Intn(3) // frames per GOP
	t := int64(c.Rng.Intn(100000))
	at := t + 500
	for g := 0; g < 6; g++ {
		for i := 0; i < per; i++ {
			typ := byte(1)
			if i == 0 {
				typ = 5
			}
			k.evs = append(k.evs, event{kind: 'v', dts: nsOfTicks(t), pts: nsOfTicks(t), payload: genNal(c, typ, 9000+c.Rng.Intn(6000))})
			t += 90000 / int64(per)
			for at < t {
				k.evs = append(k.evs, event{kind: 'a', dts: nsOfTicks(at), pts: nsOfTicks(at), payload: c.Rng.Bytes(20 + c.Rng.Intn(20))})
				at += 11520
			}
		}
		if g == 3 {
			k.evs = append(k.evs, event{kind: 'H', k: 2}, event{kind: 'Q'})
		}
	}
	k.evs = append(k.evs, event{kind: 'v', dts: nsOfTicks(t), pts: nsOfTicks(t), payload: genNal(c, 5, 4000)}, event{kind: 'R'})
	return k
}
