package main

// C10: HLS segment generator, playlist and segment files.  Implementation under test (real code,
// in-process): hls.NewPlaylist, hls.NewSegmentGenerator (memory and disk segment files) fed by the
// real mpegts packetizers; Playlist.M3u8 / Playlist.Segment as an HLS client sees them; readers
// held across roll-over; files on disk.  The events of a run (frames, what was served when) are
// sent to the Lean driver, which replays the model (correspondence) and evaluates the
// specification on the served playlists / segment bytes (oracle).

import (
	"bytes"
	"fmt"
	"io"
	"io/ioutil"
	"math"
	"os"
	"path/filepath"
	"sort"
	"strconv"
	"strings"
	"sync"
	"time"

	. "verifharness/hlib"

	"github.com/cnotch/ipchub/av/codec"
	"github.com/cnotch/ipchub/av/codec/aac"
	"github.com/cnotch/ipchub/av/format/hls"
	"github.com/cnotch/ipchub/av/format/mpegts"
	"github.com/cnotch/xlog"
)

func main() { Main("C10", run) }

type event struct {
	kind     byte // 'v' 'a' 'Q' 'H' 'R'
	dts, pts int64
	payload  []byte
	k        int // H: index into the listing
}

type hcase struct {
	frag, rate  int
	disk        bool
	conc        int  // client goroutines of their own that poll playlist → newest listed segment during the whole session
	inband      bool // SPS/PPS are not in the SDP (the packetizer is built without them): they arrive as NAL units in front of the first IDR
	path, token string
	sps, pps    []byte
	ascraw      []byte
	evs         []event
	tag         string // generator shape, for the distribution
}

func (k *hcase) line() string {
	var b strings.Builder
	fmt.Fprintf(&b, "c10 run frag=%d rate=%d disk=%s conc=%d wire=%s inband=%s path=%s token=%s sps=%s pps=%s ascraw=%s", k.frag, k.rate, B01(k.disk), k.conc,
		B01(strings.HasPrefix(k.tag, "wire")), B01(k.inband), Hx([]byte(k.path)), Hx([]byte(k.token)), Hx(k.sps), Hx(k.pps), Hx(k.ascraw))
	for _, e := range k.evs {
		switch e.kind {
		case 'v':
			fmt.Fprintf(&b, " v:%d:%d:%s", e.dts, e.pts, Hx(e.payload))
		case 'a':
			fmt.Fprintf(&b, " a:%d:%s", e.pts, Hx(e.payload))
		case 'Q':
			b.WriteString(" Q")
		case 'H':
			fmt.Fprintf(&b, " H:%d", e.k)
		case 'R':
			b.WriteString(" R")
		}
	}
	return b.String()
}

func parseCase(l string) *hcase {
	f := strings.Fields(l)
	if len(f) < 2 || f[0] != "c10" || f[1] != "run" {
		return nil
	}
	k := &hcase{tag: "corpus"}
	for _, t := range f[2:] {
		kv := strings.SplitN(t, "=", 2)
		if len(kv) == 2 {
			switch kv[0] {
			case "frag":
				k.frag, _ = strconv.Atoi(kv[1])
			case "rate":
				k.rate, _ = strconv.Atoi(kv[1])
			case "disk":
				k.disk = kv[1] == "1"
			case "inband":
				k.inband = kv[1] == "1"
			case "conc":
				k.conc, _ = strconv.Atoi(kv[1])
			case "wire":
				if kv[1] == "1" {
					k.tag = "wire-corpus"
				}
			case "path":
				k.path = string(Unhx(kv[1]))
			case "token":
				k.token = string(Unhx(kv[1]))
			case "sps":
				k.sps = Unhx(kv[1])
			case "pps":
				k.pps = Unhx(kv[1])
			case "ascraw":
				k.ascraw = Unhx(kv[1])
			}
			continue
		}
		p := strings.Split(t, ":")
		switch {
		case p[0] == "v" && len(p) == 4:
			d, _ := strconv.ParseInt(p[1], 10, 64)
			q, _ := strconv.ParseInt(p[2], 10, 64)
			k.evs = append(k.evs, event{kind: 'v', dts: d, pts: q, payload: Unhx(p[3])})
		case p[0] == "a" && len(p) == 3:
			q, _ := strconv.ParseInt(p[1], 10, 64)
			k.evs = append(k.evs, event{kind: 'a', dts: q, pts: q, payload: Unhx(p[2])})
		case t == "Q":
			k.evs = append(k.evs, event{kind: 'Q'})
		case t == "R":
			k.evs = append(k.evs, event{kind: 'R'})
		case p[0] == "H" && len(p) == 2:
			n, _ := strconv.Atoi(p[1])
			k.evs = append(k.evs, event{kind: 'H', k: n})
		}
	}
	return k
}

func ascFields(raw []byte) string {
	var asc aac.AudioSpecificConfig
	if err := asc.Decode(raw); err != nil {
		return "none"
	}
	if asc.ObjectType == aac.AOT_NULL || asc.ObjectType == aac.AOT_ESCAPE {
		return "none"
	}
	return fmt.Sprintf("%d,%d,%d,%d,%d", asc.ObjectType, asc.SamplingIndex, asc.ExtSampleRate, asc.ExtSamplingIndex, asc.ChannelConfig)
}

func ticksOf(d float64) int64 { return int64(math.Round(d * 90000)) }

type heldReader struct {
	seq int
	r   io.Reader
}

type result struct {
	tokens   []string // what the driver gets after the inputs
	panicked bool
	goFinds  []Finding // Go-level oracle findings (buffer aliasing, clean-up)
	segsDone int
	notes    map[string]int
	skipped  bool // not run (after a hang of an earlier wire session)
}

// Watchdog budgets.  They cost nothing when the call returns; expiry of the first one is never a
// verdict by itself (the case is run again alone with the long one).
const (
	firstBudget      = 3 * time.Minute
	confirmBudget    = 10 * time.Minute
	wireSettleBudget = 5 * time.Minute
)

// guarded runs one session under a watchdog; hung = it did not return within the budget (its
// goroutine is abandoned)
func guarded(budget time.Duration, f func() result) (res result, hung bool) {
	done := make(chan result, 1)
	go func() { done <- f() }()
	t := time.NewTimer(budget)
	defer t.Stop()
	select {
	case res = <-done:
		return res, false
	case <-t.C:
		return result{notes: map[string]int{}}, true
	}
}

var dirMu sync.Mutex
var dirSeq int

func runImpl(k *hcase, in string) (res result) {
	res.notes = map[string]int{}
	segPath := ""
	if k.disk {
		dirMu.Lock()
		dirSeq++
		segPath = filepath.Join(os.TempDir(), fmt.Sprintf("verif-c10-%d-%d", os.Getpid(), dirSeq))
		dirMu.Unlock()
		os.MkdirAll(segPath, 0755)
		defer os.RemoveAll(segPath)
	}
	logger := xlog.New(xlog.NewNopCore())
	pl := hls.NewPlaylist()
	sg, err := hls.NewSegmentGenerator(pl, k.path, k.frag, segPath, k.rate, logger)
	if err != nil {
		res.tokens = append(res.tokens, "OPENERR")
		return
	}
	vm := &codec.VideoMeta{Codec: "H264", Sps: k.sps, Pps: k.pps}
	if k.inband {
		vm.Sps, vm.Pps = nil, nil
	}
	am := &codec.AudioMeta{Codec: "AAC", Sps: k.ascraw}
	vp := mpegts.NewH264Packetizer(vm, sg)
	ap := mpegts.NewAacPacketizer(am, sg)
	captured := map[int][]byte{}
	var held []heldReader

	// HLS clients inside the roll-overs (see rollover.go): one on the generator's goroutine at its
	// schedule points, k.conc goroutines of their own
	rc := newRolloverClients(k, in, &res,
		func() ([]byte, bool) { b, err := pl.M3u8(k.token); return b, err == nil },
		func(seq int) ([]byte, int, bool) {
			r, n, err := pl.Segment(seq)
			if err != nil {
				return nil, 0, false
			}
			b, _ := ioutil.ReadAll(r)
			if c, ok := r.(io.Closer); ok {
				c.Close()
			}
			return b, n, true
		})
	sg.VerifOnRollover(rc.atPoint)
	rc.start()
	defer func() { rc.finish(); sg.VerifOnRollover(nil) }()

	fetch := func(seq int) ([]byte, bool) {
		r, _, err := pl.Segment(seq)
		if err != nil {
			return nil, false
		}
		b, _ := ioutil.ReadAll(r)
		if c, ok := r.(io.Closer); ok {
			c.Close()
		}
		return b, true
	}
	capture := func() {
		for _, s := range pl.VerifSegments() {
			if _, ok := captured[s.SequenceNo]; !ok {
				b, ok := fetch(s.SequenceNo)
				if !ok {
					b = nil
				}
				captured[s.SequenceNo] = b
				res.tokens = append(res.tokens, fmt.Sprintf("S:%d:%d:%s", s.SequenceNo, ticksOf(s.Duration), Hx(b)))
				res.segsDone++
			}
		}
	}
	query := func() {
		segs := pl.VerifSegments()
		var seqs, durs, hdrs []string
		stable := true
		for _, s := range segs {
			seqs = append(seqs, strconv.Itoa(s.SequenceNo))
			durs = append(durs, strconv.FormatInt(ticksOf(s.Duration), 10))
			hdrs = append(hdrs, B01(s.IsSequenceHeader))
			if b, ok := fetch(s.SequenceNo); !ok || !bytes.Equal(b, captured[s.SequenceNo]) {
				stable = false
			}
			// the float comparisons the model replaces by integer ones
			if s.Duration*1000 < 100 {
				res.goFinds = append(res.goFinds, Finding{Kind: "corr", Class: "float-short-segment-listed", Case: in, Impl: fmt.Sprint(s.Duration)})
			}
		}
		// M3u8: the slice handed to one caller must not be changed by the next call
		m3 := "ERR"
		a, err := pl.M3u8("first-caller-token")
		if err == nil {
			ca := append([]byte(nil), a...)
			pl.M3u8("second-caller")
			if !bytes.Equal(a, ca) {
				res.goFinds = append(res.goFinds, Finding{Kind: "oracle", Class: "m3u8-buffer-aliased", Case: in,
					Impl: "the playlist bytes returned to the first caller were overwritten by the next M3u8 call", Spec: "returned bytes never change"})
			}
		}
		if txt, err := pl.M3u8(k.token); err == nil {
			m3 = Hx(append([]byte(nil), txt...))
		}
		cur, ok, _, _ := sg.VerifCurrent()
		cs, cd, cst := "-", "0", "0"
		if ok {
			cs, cd, cst = strconv.Itoa(cur.SequenceNo), strconv.FormatInt(ticksOf(cur.Duration), 10), strconv.FormatInt(cur.StartPts, 10)
		}
		files := "x"
		if k.disk {
			var fs []int
			des, _ := ioutil.ReadDir(segPath)
			for _, de := range des {
				n := strings.TrimSuffix(de.Name(), ".ts")
				if i := strings.LastIndex(n, "_"); i >= 0 {
					if v, err := strconv.Atoi(n[i+1:]); err == nil {
						fs = append(fs, v)
					}
				}
			}
			sort.Ints(fs)
			ss := make([]string, len(fs))
			for i, v := range fs {
				ss[i] = strconv.Itoa(v)
			}
			files = strings.Join(ss, ";")
			if files == "" {
				files = "-"
			}
		}
		j := func(s []string) string {
			if len(s) == 0 {
				return "-"
			}
			return strings.Join(s, ";")
		}
		res.tokens = append(res.tokens, fmt.Sprintf("Q:%s:%s:%s:%s:%s:%s:%s:%s:%s", m3, j(seqs), j(durs), j(hdrs), cs, cd, cst, B01(stable), files))
	}
	readHeld := func() {
		for _, h := range held {
			b, err := ioutil.ReadAll(h.r)
			if c, ok := h.r.(io.Closer); ok {
				c.Close()
			}
			if err != nil {
				res.tokens = append(res.tokens, fmt.Sprintf("R:%d:ERR", h.seq))
			} else {
				res.tokens = append(res.tokens, fmt.Sprintf("R:%d:%s", h.seq, Hx(b)))
			}
		}
		held = nil
	}

	func() {
		defer func() {
			if r := recover(); r != nil {
				res.panicked = true
			}
		}()
		for _, e := range k.evs {
			switch e.kind {
			case 'v':
				res.tokens = append(res.tokens, fmt.Sprintf("v:%d:%d:%s", e.dts, e.pts, Hx(e.payload)))
				if k.inband {
					learnParamSet(vm, e.payload)
				}
				vp.Packetize(&codec.Frame{MediaType: codec.MediaTypeVideo, Dts: e.dts, Pts: e.pts, Payload: e.payload})
				capture()
			case 'a':
				res.tokens = append(res.tokens, fmt.Sprintf("a:%d:%s", e.pts, Hx(e.payload)))
				ap.Packetize(&codec.Frame{MediaType: codec.MediaTypeAudio, Dts: e.pts, Pts: e.pts, Payload: e.payload})
				capture()
			case 'Q':
				query()
			case 'H':
				segs := pl.VerifSegments()
				if e.k < len(segs) {
					seq := segs[e.k].SequenceNo
					r, _, err := pl.Segment(seq)
					if err == nil {
						held = append(held, heldReader{seq, r})
					}
					res.tokens = append(res.tokens, fmt.Sprintf("H:%d:%s", seq, B01(err == nil)))
				}
			case 'R':
				readHeld()
			}
		}
	}()
	defer func() {
		if r := recover(); r != nil {
			res.panicked = true
			res.goFinds = append(res.goFinds, Finding{Kind: "oracle", Class: "panic-outside-frame-path", Case: in,
				Impl: fmt.Sprintf("panic in a client call or in Close: %v", r), Spec: "no panic"})
		}
	}()
	rc.finish()
	if !res.panicked {
		query()
		readHeld()
		if cur, ok, _, _ := sg.VerifCurrent(); ok {
			// (for a persistent segment the accessor flushes the buffered writer and reads the file)
			res.tokens = append(res.tokens, fmt.Sprintf("C:%d:%s", cur.SequenceNo, Hx(sg.VerifCurrentBytes())))
		}
	}
	sg.Close()
	pl.Close()
	if k.disk {
		des, _ := ioutil.ReadDir(segPath)
		if len(des) != 0 {
			res.goFinds = append(res.goFinds, Finding{Kind: "oracle", Class: "storage-not-cleaned-on-close", Case: in,
				Impl: fmt.Sprintf("%d files left after Close", len(des)), Spec: "0"})
		}
	}
	return
}

// learnParamSet: what rtp's h264Depacketizer does with an in-band SPS / PPS while the stream's
// metadata (shared with the TS packetizer) has none
func learnParamSet(vm *codec.VideoMeta, nal []byte) {
	if len(nal) == 0 {
		return
	}
	switch nal[0] & 0x1f {
	case 7:
		if len(vm.Sps) == 0 {
			vm.Sps = nal
		}
	case 8:
		if len(vm.Pps) == 0 {
			vm.Pps = nal
		}
	}
}

// ---------- generators ----------

func nsOfTicks(t int64) int64 {
	ns := t * 1000000000 / 90000
	for ns*90000/1000000000 < t {
		ns++
	}
	return ns
}

func genNal(c *Ctx, typ byte, size int) []byte {
	b := c.Rng.Bytes(size)
	b[0] = byte(1+c.Rng.Intn(3))<<5 | typ
	for i := 2; i < len(b); i++ {
		if b[i-2] == 0 && b[i-1] == 0 && b[i] <= 3 {
			b[i] = 4 + b[i]
		}
	}
	if size > 1 && b[size-1] == 0 {
		b[size-1] = 0x80
	}
	return b
}

var rates = []int{8000, 16000, 22050, 44100, 48000}
var rateIdx = map[int]int{8000: 11, 16000: 8, 22050: 7, 44100: 4, 48000: 3}

// genCase: a stream with a chosen relation between GOP length and fragment length
func genCase(c *Ctx) *hcase {
	k := &hcase{}
	k.frag = []int{1, 1, 2, 2, 3, 5}[c.Rng.Intn(6)]
	k.rate = rates[c.Rng.Intn(len(rates))]
	k.disk = c.Rng.Chance(35)
	k.path = []string{"/live/cam1", "/a", "/x/y/z", "/s-1_2"}[c.Rng.Intn(4)]
	if c.Rng.Chance(60) {
		k.token = genToken(c)
	}
	k.sps = sanitizeNal(append([]byte{0x67}, c.Rng.Bytes(2+c.Rng.Intn(10))...))
	k.pps = sanitizeNal(append([]byte{0x68}, c.Rng.Bytes(1+c.Rng.Intn(4))...))
	if c.Rng.Chance(5) {
		k.sps = nil
	} else {
		k.inband = c.Rng.Chance(25)
	}
	ch := 1 + c.Rng.Intn(2)
	k.ascraw = aac.Encode2BytesASC(2, byte(rateIdx[k.rate]), byte(ch))
	if c.Rng.Chance(12) {
		k.conc = 1 + c.Rng.Intn(2)
	}
	fragT := int64(k.frag) * 90000
	// shape of the stream
	shape := c.Rng.Intn(8)
	frameDur := int64([]int{3000, 3600, 9000, 18000, 30000}[c.Rng.Intn(5)]) // 30..3 fps
	var gopT int64
	switch shape {
	case 0, 1: // GOP shorter than the fragment
		gopT = fragT/4 + int64(c.Rng.Intn(int(fragT/2)))
		k.tag = "gop<frag"
	case 2: // GOP equal to the fragment, exactly on the boundary (± one tick handled below)
		gopT = fragT
		k.tag = "gop=frag"
	case 3, 4: // GOP between 1× and 2× fragment
		gopT = fragT + int64(c.Rng.Intn(int(fragT)))
		k.tag = "frag<gop<2frag"
	case 5: // GOP longer than 2× fragment: the audio side reaps
		gopT = 2*fragT + int64(c.Rng.Intn(int(2*fragT)))
		k.tag = "gop>2frag"
	case 6: // video stops for a while: audio-only gap
		gopT = fragT/2 + int64(c.Rng.Intn(int(fragT)))
		k.tag = "audio-only-gap"
	default: // no audio at all
		gopT = fragT/3 + int64(c.Rng.Intn(int(fragT*2)))
		k.tag = "video-only"
	}
	hasAudio := shape != 7
	if shape == 5 && c.Rng.Chance(30) {
		hasAudio = false // long GOP without audio: no audio-side reap
		k.tag = "gop>2frag-video-only"
	}
	frameDur = min64(frameDur, gopT)
	nGop := gopT / frameDur
	if nGop < 1 {
		nGop = 1
	}
	frameDur = gopT / nGop // make the GOP length exact
	total := int64(5+c.Rng.Intn(4)) * maxI64(fragT, gopT)
	if total > 40*90000 {
		total = 40 * 90000
	}
	t0 := int64(c.Rng.Intn(3)) * int64(c.Rng.Intn(1000000))
	if c.Rng.Chance(5) {
		t0 = (int64(1) << 33) - 90000*int64(10+c.Rng.Intn(30)) // runs across the 33-bit wrap
		k.tag += "+pts-wrap"
	}
	bframes := c.Rng.Chance(30)
	aDur := int64(1024) * 90000 / int64(k.rate)
	gapFrom, gapTo := int64(-1), int64(-1)
	if shape == 6 {
		gapFrom = total / 3
		gapTo = gapFrom + fragT*int64(2+c.Rng.Intn(3))
		total += gapTo - gapFrom
	}
	// merge video and audio by time
	vt, at := int64(0), int64(c.Rng.Intn(2000))
	vi := int64(0)
	jitter := c.Rng.Chance(40)
	sentPS := false
	for vt < total || (hasAudio && at < total) {
		if !hasAudio || (vt <= at && vt < total) {
			if vt >= total {
				break
			}
			if gapFrom >= 0 && vt >= gapFrom && vt < gapTo {
				vt += frameDur
				vi++
				continue
			}
			typ := byte(1)
			if vi%nGop == 0 {
				typ = 5
			}
			if gapFrom >= 0 && vt >= gapTo && vt < gapTo+frameDur && c.Rng.Chance(50) {
				typ = 1 // resume after the gap with a non-key frame
			}
			dts := t0 + vt
			pts := dts
			if bframes && typ == 1 && c.Rng.Chance(60) {
				pts = dts + frameDur*int64(1+c.Rng.Intn(2))
			}
			if bframes && typ == 5 {
				pts = dts + frameDur // with reordering every frame, key frames included, is presented later than decoded
			}
			if typ == 5 && (c.Rng.Chance(20) || (k.inband && !sentPS)) {
				sentPS = true
				// parameter sets travel as frames of their own in front of the IDR
				k.evs = append(k.evs, event{kind: 'v', dts: nsOfTicks(dts), pts: nsOfTicks(pts), payload: k.spsOr()})
				k.evs = append(k.evs, event{kind: 'v', dts: nsOfTicks(dts), pts: nsOfTicks(pts), payload: k.pps})
			}
			k.evs = append(k.evs, event{kind: 'v', dts: nsOfTicks(dts), pts: nsOfTicks(pts), payload: genNal(c, typ, 2+c.Rng.Intn(40))})
			vt += frameDur
			vi++
		} else {
			p := t0 + at
			if jitter {
				p += int64(c.Rng.Intn(181)) - 90 // ±1 ms jitter against the sample clock
			}
			if c.Rng.Chance(1) {
				p += 20000 // a jump: resync of the jitter correction
				at += 20000
			}
			k.evs = append(k.evs, event{kind: 'a', dts: nsOfTicks(p), pts: nsOfTicks(p), payload: c.Rng.Bytes(1 + c.Rng.Intn(24))})
			at += aDur
		}
		if c.Rng.Chance(3) {
			k.evs = append(k.evs, event{kind: 'Q'})
		}
		if c.Rng.Chance(2) {
			k.evs = append(k.evs, event{kind: 'H', k: c.Rng.Intn(3)})
		}
		if c.Rng.Chance(1) {
			k.evs = append(k.evs, event{kind: 'R'})
		}
	}
	return k
}

// genToken: what a caller may send as ?token=…: the server's own hex tokens, other unreserved text,
// and text with characters that mean something inside a URI or a playlist line
func genToken(c *Ctx) string {
	switch c.Rng.Intn(8) {
	case 0:
		return "tok123"
	case 1:
		return Hx(c.Rng.Bytes(16)) // security.NewSecret
	case 2:
		return []string{"a", "t-_.~", "ABCDEF0123456789abcdef"}[c.Rng.Intn(3)]
	case 3, 4:
		// one reserved character in the middle
		const special = "&=+#%?/ ;:@!$'()*,\"<>[]{}|^`\\"
		return "a" + string(special[c.Rng.Intn(len(special))]) + "b"
	case 5:
		return []string{"x&token=y", "a b", "50%", "a%41", "k=v&k2=v2", "#frag", "a+b", "\u00e9t\u00e9"}[c.Rng.Intn(8)]
	case 6:
		return []string{"a\n#EXT-X-ENDLIST", "a\r\nb", "tab\there"}[c.Rng.Intn(3)]
	default:
		b := c.Rng.Bytes(1 + c.Rng.Intn(12))
		for i := range b {
			b[i] = 0x20 + b[i]%0x5f // printable ASCII
		}
		return string(b)
	}
}

func (k *hcase) spsOr() []byte {
	if len(k.sps) == 0 {
		return []byte{0x67, 0x42}
	}
	return k.sps
}

func min64(a, b int64) int64 {
	if a < b {
		return a
	}
	return b
}
func maxI64(a, b int64) int64 {
	if a > b {
		return a
	}
	return b
}

// boundaryCase: key frames exactly at, one tick before and one tick after the fragment length,
// and the audio-side limit 2×fragment likewise (float comparison boundaries)
func boundaryCase(c *Ctx, frag int, delta int64, audioSide bool, disk bool) *hcase {
	k := &hcase{frag: frag, rate: 8000, disk: disk, path: "/b", tag: "boundary", token: "t"}
	k.sps, k.pps = []byte{0x67, 0x42, 0x00, 0x1e}, []byte{0x68, 0xce, 0x3c, 0x80}
	k.ascraw = aac.Encode2BytesASC(2, 11, 1)
	fragT := int64(frag) * 90000
	t := int64(1000)
	add := func(typ byte, pts int64) {
		k.evs = append(k.evs, event{kind: 'v', dts: nsOfTicks(pts), pts: nsOfTicks(pts), payload: genNal(c, typ, 8)})
	}
	// first segment starts at pts 0: its duration is the absolute pts
	add(5, t)
	for seg := 0; seg < 6; seg++ {
		if audioSide {
			// only audio until 2×frag + delta after the segment start, then a key frame
			start := t
			for a := start + 9000; a <= start+2*fragT+delta+20000; a += 11520 {
				k.evs = append(k.evs, event{kind: 'a', dts: nsOfTicks(a), pts: nsOfTicks(a), payload: c.Rng.Bytes(6)})
			}
			t = start + 2*fragT + delta + 30000
			add(1, t-1000)
			add(5, t)
		} else {
			add(1, t+fragT/2)
			add(1, t+fragT+delta) // the duration the next key frame sees
			t = t + fragT + delta + 10
			add(5, t)
		}
		k.evs = append(k.evs, event{kind: 'Q'})
	}
	return k
}

// shortCase: segments closed below 100 ms (only possible with hlsFragment 0; the configuration
// clamps it to >= 5): the duration*1000 < 100 boundary
func shortCase(c *Ctx, durTicks int64) *hcase {
	k := &hcase{frag: 0, rate: 8000, path: "/s", tag: "frag0-short-segment"}
	k.sps, k.pps = []byte{0x67, 0x42}, []byte{0x68, 0xce}
	k.ascraw = aac.Encode2BytesASC(2, 11, 1)
	t := int64(0)
	for i := 0; i < 8; i++ {
		k.evs = append(k.evs, event{kind: 'v', dts: nsOfTicks(t), pts: nsOfTicks(t), payload: genNal(c, 5, 6)})
		k.evs = append(k.evs, event{kind: 'v', dts: nsOfTicks(t + durTicks), pts: nsOfTicks(t + durTicks), payload: genNal(c, 1, 6)})
		t += durTicks + 5
		k.evs = append(k.evs, event{kind: 'Q'})
	}
	return k
}

// mixedShortCase: fragment length 0 with GOPs of mixed length — some below 100 ms (their segment
// is dropped and its number reused), most around a second — with a playlist query after every
// GOP: the numbering of the kept segments must stay consecutive across a dropped one.
func mixedShortCase(c *Ctx) *hcase {
	k := &hcase{frag: 0, rate: 8000, path: "/s", tag: "frag0-mixed-short-segments"}
	k.sps, k.pps = []byte{0x67, 0x42}, []byte{0x68, 0xce}
	k.ascraw = aac.Encode2BytesASC(2, 11, 1)
	t := int64(0)
	n := 8 + c.Rng.Intn(8)
	for i := 0; i < n; i++ {
		dur := int64(60000 + c.Rng.Intn(90000))
		if i >= 2 && c.Rng.Chance(30) {
			dur = int64(900 + c.Rng.Intn(7000)) // 10 … 88 ms
		}
		k.evs = append(k.evs, event{kind: 'v', dts: nsOfTicks(t), pts: nsOfTicks(t), payload: genNal(c, 5, 6)})
		k.evs = append(k.evs, event{kind: 'v', dts: nsOfTicks(t + dur/2), pts: nsOfTicks(t + dur/2), payload: genNal(c, 1, 6)})
		t += dur
		k.evs = append(k.evs, event{kind: 'Q'})
	}
	k.evs = append(k.evs, event{kind: 'v', dts: nsOfTicks(t), pts: nsOfTicks(t), payload: genNal(c, 5, 6)})
	k.evs = append(k.evs, event{kind: 'Q'})
	return k
}

// ---------- run ----------

func run(c *Ctx) {
	probeNoHls(c)
	stressPlaylist(c)
	var cases []*hcase
	for _, l := range c.CorpusLines() {
		if k := parseCase(l); k != nil {
			cases = append(cases, k)
		}
	}
	if c.Replay == "" {
		for _, frag := range []int{1, 2, 5} {
			for _, d := range []int64{-2, -1, 0, 1, 2} {
				cases = append(cases, boundaryCase(c, frag, d, false, d == 0), boundaryCase(c, frag, d, true, d == 1))
			}
		}
		for _, d := range []int64{8998, 8999, 9000, 9001, 4500, 1} {
			cases = append(cases, shortCase(c, d))
		}
		for i := 0; i < c.Budget(12, 120); i++ {
			cases = append(cases, mixedShortCase(c))
		}
		n := c.Budget(300, 6000)
		for i := 0; i < n; i++ {
			cases = append(cases, genCase(c))
		}
		for i := 0; i < c.Budget(3, 16); i++ {
			cases = append(cases, bigCase(c, i%3 != 2, []int{2, 1, 2, 0, 3}[i%5]))
		}
		nw := c.Budget(8, 50)
		for i := 0; i < nw; i++ {
			cases = append(cases, genWireCase(c))
		}
	}
	c.Res.Rule = "case = one HLS session: fragment length, audio rate, storage mode (memory/disk), path, token, SPS/PPS/ASC and a time-ordered list of video NAL units " +
		"and AAC frames with interleaved client actions (playlist+segment query, take a reader for a listed segment, read the held readers), " +
		"an HLS client (playlist → newest URI → segment) run at every schedule point of every roll-over and, in part of the sessions, client goroutines of their own doing the same all the time; " +
		"distinct by the full input; non-trivial when at least three segments were completed (a playlist was served)"

	lines := make([]string, len(cases))
	results := make([]result, len(cases))
	hung := make([]bool, len(cases))
	var wg sync.WaitGroup
	sem := make(chan struct{}, 8)
	for i, k := range cases {
		i, k := i, k
		// driver line: inputs (without client actions: they are in the observation tokens), then observations in order
		lines[i] = fmt.Sprintf("c10 run frag=%d rate=%d path=%s token=%s sps=%s pps=%s asc=%s", k.frag, k.rate,
			Hx([]byte(k.path)), Hx([]byte(k.token)), Hx(k.sps), Hx(k.pps), ascFields(k.ascraw))
		if strings.HasPrefix(k.tag, "wire") {
			continue // the wire sessions share process-wide state: one after the other, below
		}
		wg.Add(1)
		sem <- struct{}{}
		go func() {
			defer func() { <-sem; wg.Done() }()
			in := k.line()
			results[i], hung[i] = guarded(firstBudget, func() result { return runImpl(k, in) })
		}()
	}
	wg.Wait()
	// A session that did not come back is run once more, alone and with a long budget: only a call into
	// the implementation that still does not return then is reported (never a slow machine).
	confirmHang := func(i int, again func() result) {
		c.Count("watchdog-expired-rerun-alone")
		var h bool
		results[i], h = guarded(confirmBudget, again)
		if h {
			results[i] = result{notes: map[string]int{}, panicked: true}
			results[i].goFinds = append(results[i].goFinds, Finding{Kind: "oracle", Class: "hls-call-never-returns", Case: cases[i].line(),
				Impl: fmt.Sprintf("the session did not finish within %v, run alone (a call into the generator, the playlist or the HTTP handler does not return)", confirmBudget),
				Spec: "every frame is accepted and every playlist / segment request answered"})
		}
	}
	for i, k := range cases {
		if hung[i] {
			i, k := i, k
			confirmHang(i, func() result { return runImpl(k, k.line()) })
		}
	}
	wireBroken := false
	for i, k := range cases {
		if !strings.HasPrefix(k.tag, "wire") {
			continue
		}
		if wireBroken {
			// a wire session that hangs keeps the process-wide configuration and registry: no further one can be judged
			c.Count("wire-skipped-after-hang")
			results[i] = result{notes: map[string]int{}, skipped: true}
			continue
		}
		i, k := i, k
		in := k.line()
		var h bool
		results[i], h = guarded(firstBudget+wireSettleBudget, func() result { return runWire(k, in) })
		if h {
			wireBroken = true
			results[i] = result{notes: map[string]int{}, panicked: true}
			results[i].goFinds = append(results[i].goFinds, Finding{Kind: "oracle", Class: "hls-call-never-returns", Case: in,
				Impl: fmt.Sprintf("the wire session did not finish within %v (a call into media.Stream or the HLS HTTP handlers does not return)", firstBudget+wireSettleBudget),
				Spec: "every frame is accepted and every playlist / segment request answered"})
		}
		if results[i].notes["wire-stalled"] > 0 {
			wireBroken = true // its muxer goroutine may still be about: later sessions could not rely on the schedule point
		}
	}
	for i := range cases {
		lines[i] += " " + strings.Join(results[i].tokens, " ")
	}
	if p := os.Getenv("C10_DUMP"); p != "" {
		ioutil.WriteFile(p, []byte(strings.Join(lines, "\n")+"\n"), 0644)
	}
	outs := driveParallel(c, lines)
	for i, k := range cases {
		in := k.line()
		r := results[i]
		if r.skipped {
			continue
		}
		m := KV(outs[i])
		c.Eval(in, r.segsDone >= 3)
		c.Count("shape:" + k.tag)
		if k.inband {
			c.Count("parameter-sets-in-band-only")
		}
		if k.disk {
			c.Count("storage:disk")
		} else {
			c.Count("storage:memory")
		}
		if k.conc > 0 {
			c.Count("with-concurrent-client-goroutines" + map[bool]string{true: ":disk", false: ":memory"}[k.disk])
		}
		for n, v := range r.notes {
			if strings.HasPrefix(n, "rollover-") {
				c.CountN(n+map[bool]string{true: ":disk", false: ":memory"}[k.disk], v)
			}
		}
		c.Count(fmt.Sprintf("segments-completed:%s", bucket(r.segsDone)))
		if k.token != "" {
			c.Count("with-token")
			if strings.Trim(k.token, "ABCDEFGHIJKLMNOPQRSTUVWXYZabcdefghijklmnopqrstuvwxyz0123456789-._~") != "" {
				c.Count("with-token-needing-escape")
			}
		}
		for _, t := range r.tokens {
			switch t[0] {
			case 'H':
				c.Count("reader-held-across-frames")
			case 'Q':
				if !strings.HasPrefix(t, "Q:ERR") {
					c.Count("playlist-served")
				} else {
					c.Count("playlist-not-ready")
				}
			}
		}
		if i%(len(cases)/5+1) == 0 && len(in) < 3000 {
			c.Sample(fmt.Sprintf("%s  →  %d segments completed; driver: %s", in, r.segsDone, outs[i]))
		}
		implDesc := fmt.Sprintf("segments=%d panic=%s", r.segsDone, B01(r.panicked))
		if m["model"] != "ok" || m["panic"] != B01(r.panicked) {
			c.Find(Finding{Kind: "corr", Class: "hls-run", Case: in, Impl: implDesc, Model: outs[i]})
		}
		for _, f := range r.goFinds {
			c.Find(f)
		}
		if r.panicked {
			c.Count("impl-panic")
		}
		spec := m["spec"]
		if spec == "ok" || spec == "skip" || spec == "" {
			continue
		}
		for _, cls := range strings.Split(strings.TrimPrefix(spec, "fail:"), ",") {
			if k.frag < 1 && !(strings.HasPrefix(cls, "playlist-") || strings.HasPrefix(cls, "segment-")) {
				// fragment length 0 is below what the configuration allows: frames may be lost there
				// (c10_short_segment_dropped_when_frag_zero), so the frame-accounting clauses are out of
				// domain — but the playlist and segment-format clauses of the property hold for every
				// fragment length (sub-100 ms fragments are in the property's quantifier)
				c.Count("oracle-frame-accounting-out-of-domain(frag<1)")
				continue
			}
			c.Count("oracle-fail:" + cls + " shape:" + k.tag)
			c.Find(Finding{Kind: "oracle", Class: cls, Case: in, Impl: implDesc, Spec: spec, Model: m["model"]})
		}
	}
}

func bucket(n int) string {
	switch {
	case n < 3:
		return "0-2"
	case n < 6:
		return "3-5"
	case n < 12:
		return "6-11"
	}
	return "12+"
}

// driveParallel: several driver processes side by side
func driveParallel(c *Ctx, lines []string) []string {
	const workers = 8
	total := 0
	for _, l := range lines {
		total += len(l) + 200
	}
	outs := make([]string, len(lines))
	var wg sync.WaitGroup
	start, acc := 0, 0
	for i, l := range lines {
		acc += len(l) + 200
		if acc >= total/workers+1 || i == len(lines)-1 {
			lo, hi := start, i+1
			wg.Add(1)
			go func() {
				defer wg.Done()
				copy(outs[lo:hi], c.Drive(lines[lo:hi]))
			}()
			start, acc = i+1, 0
		}
	}
	wg.Wait()
	return outs
}

// sanitizeNal: a NAL unit never contains 00 00 0x (x <= 3) and never ends in a zero byte
// (emulation prevention and rbsp trailing bits are the encoder's job)
func sanitizeNal(b []byte) []byte {
	for i := 2; i < len(b); i++ {
		if b[i-2] == 0 && b[i-1] == 0 && b[i] <= 3 {
			b[i] = 4 + b[i]
		}
	}
	if n := len(b); n > 0 && b[n-1] == 0 {
		b[n-1] = 0x80
	}
	return b
}
