package main

import (
	"fmt"
	"sort"
	"strconv"
	"strings"
	"time"

	. "verifharness/hlib"
	sl "verifharness/sesslib"

	"github.com/cnotch/ipchub/av/format/rtp"
	"github.com/cnotch/ipchub/config"
	"github.com/cnotch/ipchub/media"
	irtsp "github.com/cnotch/ipchub/service/rtsp"
	iwsp "github.com/cnotch/ipchub/service/wsp"
)

// C12: RTSP session automaton.  Real sessions (rtsp.CreateAcceptHandler on net.Pipe,
// the same behind websocket.TryUpgrade, wsp.CreateAcceptHandler) are scripted with request
// sequences; responses and held resources are compared with the Lean model (`run`) and
// judged by the Lean reference automaton (`judge`).  RTPTransport.ParseTransport is also
// compared directly (`pt`).
func main() { Main("C12", runC12) }

// ---------------------------------------------------------------- world

type world struct {
	docs     []*sl.SdpDoc // id = index+1
	docID    map[string]int
	fixtures []*sl.Fixture
	norms    map[string]string // control → normalised ("!" = url.Parse error)
}

const (
	ctlAbsV = "rtsp://cam.example/live/abs/trackID=1"
	ctlAbsA = "RTSP://cam.example:8554/live/abs/trackID=2"
	ctlBad  = "rtsp://[bad/x"
)

func newWorld() *world {
	w := &world{docID: map[string]int{}, norms: map[string]string{}}
	add := func(text string) *sl.SdpDoc {
		w.docIDFor(text)
		return w.docs[w.docID[text]-1]
	}
	av := add(sl.VideoAudioSdp("streamid=0", "streamid=1"))
	vo := add(sl.VideoOnlySdp("trackID=1"))
	abs := add(sl.VideoAudioSdp(ctlAbsV, ctlAbsA))
	bad := add("garbage")
	ao := add(sl.AudioOnlySdp("track2"))
	badv := add(sl.VideoAudioSdp(ctlBad, "streamid=1"))
	bada := add(sl.VideoAudioSdp("streamid=0", ctlBad))
	add("v=0\r\nbroken")
	add(strings.Replace(sl.VideoOnlySdp("x"), "a=control:x\r\n", "", 1)) // a video section without control
	w.fixtures = []*sl.Fixture{
		// the two multicast-capable sources are PUBLISHED ones (a real pusher session each): multicast
		// goes through the real proxy of service/rtsp
		{Path: "/live/a", Doc: av, Pushed: true},
		{Path: "/live/b", Doc: vo},
		{Path: "/live/abs", Doc: abs, Pushed: true},
		{Path: "/live/empty", Doc: nil},
		{Path: "/live/bad", Doc: bad},
		{Path: "/live/audio", Doc: ao},
		{Path: "/live/badv", Doc: badv},
		{Path: "/live/bada", Doc: bada},
	}
	return w
}

func (w *world) docIDFor(text string) int {
	if text == "" {
		return 0
	}
	if id, ok := w.docID[text]; ok {
		return id
	}
	d := sl.NewSdpDoc(text)
	w.docs = append(w.docs, d)
	w.docID[text] = len(w.docs)
	for _, m := range d.Medias {
		c := m[1]
		if len(c) >= 7 && strings.EqualFold(c[:7], "rtsp://") {
			if n, ok := sl.ControlNorm(c); ok {
				w.norms[c] = n
			} else {
				w.norms[c] = "!"
			}
		}
	}
	return len(w.docs)
}

func (w *world) ensure() {
	for _, f := range w.fixtures {
		f.Ensure()
	}
}

// settle: what a session left behind on a plain (not published) fixture must not be counted against
// the sessions after it: the stream is taken out of the registry and Ensure registers a fresh one.
// (Published fixtures do the same in Ensure.)  Never needed on the unchanged tree.
func (w *world) settle() {
	for _, f := range w.fixtures {
		if !f.Pushed && f.Stream != nil && f.Held() > 0 {
			st := f.Stream
			sl.Guard(sl.Watchdog, func() { media.Unregist(st) })
			f.Stream = nil
		}
	}
	w.ensure()
}

func (w *world) consumers() int {
	n := 0
	for _, f := range w.fixtures {
		n += f.Held()
	}
	return n
}

// normTransport: the multicast parameters of a published fixture in a SETUP answer, as the model's constants
func (w *world) normTransport(h string) string {
	for _, f := range w.fixtures {
		h = f.NormTransport(h)
	}
	return h
}

func (w *world) isFixtureStream(s *media.Stream) bool {
	for _, f := range w.fixtures {
		if f.Stream == s {
			return true
		}
	}
	return false
}

// published: some path holds a stream that is not one of the fixtures'
func (w *world) published(paths []string) bool {
	for _, p := range paths {
		if s := media.Get(p); s != nil && !w.isFixtureStream(s) {
			return true
		}
	}
	return false
}

// tables renders the environment tables of a `run` line
func (w *world) tables() string {
	var b strings.Builder
	fmt.Fprintf(&b, "sdp %d", len(w.docs))
	for _, d := range w.docs {
		fmt.Fprintf(&b, " %s %d", B01(d.OK), len(d.Medias))
		for _, m := range d.Medias {
			fmt.Fprintf(&b, " %s %s", m[0], Hx([]byte(m[1])))
		}
	}
	fmt.Fprintf(&b, " st %d", len(w.fixtures))
	for _, f := range w.fixtures {
		id := 0
		if f.Doc != nil {
			id = w.docID[f.Doc.Text]
		}
		if f.Multicast() {
			fmt.Fprintf(&b, " %s %d 1 %s %d %s %d", Hx([]byte(f.Path)), id, Hx([]byte(sl.McIP)), sl.McPortBase, Hx([]byte(sl.McSrc)), sl.McTTL)
		} else {
			fmt.Fprintf(&b, " %s %d 0", Hx([]byte(f.Path)), id)
		}
	}
	keys := make([]string, 0, len(w.norms))
	for k := range w.norms {
		keys = append(keys, k)
	}
	sort.Strings(keys)
	fmt.Fprintf(&b, " un %d", len(keys))
	for _, k := range keys {
		v := w.norms[k]
		if v != "!" {
			v = Hx([]byte(v))
		}
		fmt.Fprintf(&b, " %s %s", Hx([]byte(k)), v)
	}
	return b.String()
}

// ---------------------------------------------------------------- scripts

type script struct {
	flav   string // tcp | ws | wsp
	wsPath string
	steps  []string // request wire text, or "H"
	label  string
}

func (s script) caseLine() string {
	p := "-"
	if s.wsPath != "" {
		p = Hx([]byte(s.wsPath))
	}
	parts := []string{"c12", "seq", s.flav, p}
	for _, st := range s.steps {
		if st == "H" {
			parts = append(parts, "H")
		} else {
			parts = append(parts, Hx([]byte(st)))
		}
	}
	return strings.Join(parts, " ")
}

// a step that starts with '$' is an interleaved frame sent by the client: `$`, channel, 16-bit length, payload
func isFrame(st string) bool { return len(st) >= 4 && st[0] == '$' }

func frameWire(ch int, payload []byte) string {
	return string(append([]byte{'$', byte(ch), byte(len(payload) >> 8), byte(len(payload))}, payload...))
}

// frameHdrOk: does the payload start with an RTP header that pion parses (12 bytes, no CSRC, no extension)?
func frameHdrOk(st string) bool {
	p := st[4:]
	return len(p) >= 12 && p[0] == 0x80
}

var rtcpRR = []byte{0x80, 0xc9, 0x00, 0x01, 0x00, 0x00, 0x00, 0x01}                                 // an (empty) receiver report
var rtpPkt = []byte{0x80, 96, 0, 1, 0, 0, 0, 1, 0, 0, 0, 7, 0xde, 0xad}                             // a parsable RTP packet
var rtpShort = []byte{0x80, 96}                                                                      // too short for an RTP header

type preq struct {
	method, url, cseq, transport, ctype, rng, body string
	hasRange                                       bool
}

// parseWire reads back a request written by Req.Wire (or a corpus case)
func parseWire(w string) (q preq, ok bool) {
	i := strings.Index(w, "\r\n\r\n")
	if i < 0 {
		return q, false
	}
	head, body := w[:i], w[i+4:]
	lines := strings.Split(head, "\r\n")
	f := strings.SplitN(lines[0], " ", 3)
	if len(f) != 3 {
		return q, false
	}
	q.method, q.url, q.body = f[0], f[1], body
	for _, l := range lines[1:] {
		j := strings.Index(l, ":")
		if j < 0 {
			return q, false
		}
		k, v := strings.ToLower(strings.TrimSpace(l[:j])), strings.TrimSpace(l[j+1:])
		switch k {
		case "cseq":
			q.cseq = v
		case "transport":
			q.transport = v
		case "content-type":
			q.ctype = v
		case "range":
			q.rng, q.hasRange = v, true
		}
	}
	return q, true
}

func hx(s string) string { return Hx([]byte(s)) }

// modelLine builds the `run` op of a script; every script ends with an implicit hang-up
func (w *world) modelLine(s script) (string, bool) {
	for _, st := range s.steps {
		if st != "H" && !isFrame(st) {
			if q, ok := parseWire(st); ok {
				w.docIDFor(q.body)
			}
		}
	}
	var b strings.Builder
	fmt.Fprintf(&b, "c12 run %s %s %s in %d", s.flav, hx(s.wsPath), w.tables(), len(s.steps)+1)
	for _, st := range s.steps {
		if st == "H" {
			b.WriteString(" H")
			continue
		}
		if isFrame(st) {
			fmt.Fprintf(&b, " F %d %s", int(st[1]), B01(frameHdrOk(st)))
			continue
		}
		q, ok := parseWire(st)
		if !ok {
			return "", false
		}
		canon, setup, ok := sl.URLParts(q.url)
		if !ok {
			return "", false
		}
		fmt.Fprintf(&b, " R %s %s %s %s %s %s %s %d 1", q.method, hx(q.cseq), hx(canon), hx(setup), hx(q.transport),
			B01(q.ctype == "application/sdp"), hx(q.rng), w.docIDFor(q.body))
	}
	b.WriteString(" H")
	return b.String(), true
}

// ---------------------------------------------------------------- executing on the real code

type obs struct {
	frame     bool // the step was an interleaved frame sent by the client, not a request
	hangup    bool
	method    string
	transport string
	resps     []sl.Item
	nresp     int
	cseqOK    bool
	sidOK     bool
	cons      int
	pub       bool
	closed    bool
	hung      bool // neither an answer nor a close within the watchdog
	anomalies []string
	frames    int  // media frames received during this step
	media     bool // media was received BEFORE the response to this request (wsp: at any time during it)
	timedOut  bool // a watchdog expired while this step was observed
	mcMember  bool // afterwards some published source's multicast proxy has a member
	panicked  string
}

var publicRtsp = "DESCRIBE, SETUP, TEARDOWN, PLAY, OPTIONS, ANNOUNCE, RECORD"
var publicWsp = "DESCRIBE, SETUP, TEARDOWN, PLAY, OPTIONS, ANNOUNCE"

var reasonTexts = map[string]string{
	"Invalid VControl":                            "vctl",
	"Invalid AControl":                            "actl",
	"malformed trannsport":                        "malformed",
	"Current state can't setup as record":         "asrecord",
	"Current state can't setup as play":           "asplay",
	"can't setup as record":                       "asrecord",
	"when mode = record，only support tcp unicast": "recordtcp",
	"websocket only support tcp unicast":          "wstcp",
}

func (w *world) respStr(it sl.Item, flav, setupPath string) string {
	reason := "?" + it.Text
	if it.Text == irtsp.StatusText(it.Code) {
		reason = "-"
	} else if r, ok := reasonTexts[it.Text]; ok {
		reason = r
	} else if strings.HasPrefix(it.Text, "SETUP Unkown control:") {
		if strings.TrimPrefix(it.Text, "SETUP Unkown control:") == setupPath {
			reason = "unkctl"
		}
	}
	tr, rg := "~", "~"
	if v, ok := it.Header["Transport"]; ok {
		tr = hx(v)
	}
	if v, ok := it.Header["Range"]; ok {
		rg = hx(v)
	}
	sdp := "~"
	if it.Header["Content-Type"] == "application/sdp" || it.Body != "" {
		sdp = "?"
		if id, ok := w.docID[it.Body]; ok && it.Header["Content-Type"] == "application/sdp" {
			sdp = strconv.Itoa(id)
		}
	}
	pub := "0"
	if v, ok := it.Header["Public"]; ok {
		pub = "?"
		if (flav == "wsp" && v == publicWsp) || (flav != "wsp" && v == publicRtsp) {
			pub = "1"
		}
	}
	return fmt.Sprintf("%d:%s:%s:%s:%s:%s:%s", it.Code, reason, hx(it.Header["CSeq"]), tr, sdp, rg, pub)
}

func dial(s script) (*sl.Conn, error) {
	switch s.flav {
	case "tcp":
		return sl.DialTCP(0), nil
	case "ws":
		return sl.DialWS(s.wsPath)
	default:
		return sl.DialWSP(s.wsPath, true)
	}
}

type execResult struct {
	obs       []obs
	finalCh   [4]int // frames seen in the final pulse: channel of the k-th pulse packet, -1 = none
	pulseDone bool
	pulseBad  string
	err       string
	timedOut  bool // some watchdog expired during the run: the run is repeated alone before anything is reported
}

// payload of the packets written to every stream after each step, so that a session that sends
// media it should not send has media to send
var stepPayload = []byte{0x80, 96, 0, 9, 0, 0, 0, 2, 0, 0, 0, 7, 'c', '1', '2', '-', 's', 't', 'e', 'p'}

var pulseBudget = sl.Watchdog

// exec runs the script against a fresh real session
func (w *world) exec(s script, fin map[string]string) (res execResult) {
	defer func() {
		if r := recover(); r != nil {
			res.err = fmt.Sprint("harness-side panic: ", r)
		}
	}()
	w.ensure()
	paths := []string{}
	for _, f := range w.fixtures {
		paths = append(paths, f.Path)
	}
	for _, st := range s.steps {
		if st != "H" && !isFrame(st) {
			if q, ok := parseWire(st); ok {
				if canon, _, ok := sl.URLParts(q.url); ok {
					paths = append(paths, canon)
				}
			}
		}
	}
	c, err := dial(s)
	if err != nil {
		res.err = "dial: " + err.Error()
		return
	}
	sid := ""
	closed := false
	exp0 := sl.Expiries
	defer func() {
		if sl.Expiries != exp0 {
			res.timedOut = true
		}
	}()
	// media is pumped after every step, except while the session may hold a UDP consumer (some SETUP
	// so far asked for UDP unicast and a consumer is attached): it would send datagrams to a port
	// nobody listens on
	sawUDP := false
	pumpAll := func() {
		if sawUDP && w.consumers() > 0 {
			return
		}
		for _, f := range w.fixtures {
			st := f.Stream
			sl.Guard(sl.Watchdog, func() { st.WriteRtpPacket(&rtp.Packet{Channel: 0, Data: stepPayload}) })
		}
	}
	collect := func(o *obs, reqCSeq, barrier string) {
		// gather until the barrier's response (or EOF / watchdog)
		answered := false
		for {
			it, ok := c.Next()
			if !ok {
				o.hung = true
				o.timedOut = true
				return
			}
			switch it.Kind {
			case sl.KEOF:
				o.closed = true
				closed = true
				return
			case sl.KFrame:
				o.frames++
				if !answered || s.flav == "wsp" {
					o.media = true
				}
			case sl.KAnomaly:
				o.anomalies = append(o.anomalies, it.What)
			case sl.KResp:
				if barrier != "" && it.Header["CSeq"] == barrier {
					if it.Code != 200 {
						o.anomalies = append(o.anomalies, "barrier answered "+strconv.Itoa(it.Code))
					}
					return
				}
				answered = true
				if v, ok := it.Header["Transport"]; ok {
					it.Header["Transport"] = w.normTransport(v)
				}
				o.resps = append(o.resps, it)
				if s.flav == "wsp" && !it.WspOK {
					o.anomalies = append(o.anomalies, "wsp envelope")
				}
			}
		}
	}
	finish := func(o *obs) {
		o.nresp = len(o.resps)
		if o.nresp > 0 {
			o.cseqOK = true
			o.sidOK = true
			for _, r := range o.resps {
				if r.Header["Session"] == "" {
					o.sidOK = false
				} else if sid == "" {
					sid = r.Header["Session"]
				} else if sid != r.Header["Session"] {
					o.sidOK = false
				}
			}
		}
	}
	for i, st := range s.steps {
		if closed {
			break
		}
		if st == "H" {
			o := obs{hangup: true, method: "-"}
			c.Close()
			closed = true
			sl.WaitUntil(func() bool { return w.consumers() == 0 && !w.published(paths) })
			o.cons, o.pub, o.closed = w.consumers(), w.published(paths), true
			res.obs = append(res.obs, o)
			break
		}
		q, _ := parseWire(st)
		o := obs{method: q.method, transport: q.transport}
		if isFrame(st) {
			o = obs{method: "-", frame: true}
		}
		if q.method == "SETUP" && strings.Contains(q.transport, "client_port") {
			sawUDP = true
		}
		if err := c.Send(st); err != nil {
			o.closed, closed = true, true
			o.anomalies = append(o.anomalies, "send failed: "+err.Error())
		} else if q.method == "TEARDOWN" {
			collect(&o, q.cseq, "")
			sl.WaitUntil(func() bool { return w.consumers() == 0 && !w.published(paths) })
		} else {
			barrier := "b" + strconv.Itoa(i)
			if err := c.Send(sl.Req{Method: "OPTIONS", URL: "*", CSeq: barrier}.Wire()); err != nil {
				// the server is gone: whatever was answered is still in the pipe
				collect(&o, q.cseq, "")
			} else {
				collect(&o, q.cseq, barrier)
			}
		}
		finish(&o)
		if o.nresp > 0 && !o.frame {
			o.cseqOK = o.resps[0].Header["CSeq"] == q.cseq
		}
		o.cons, o.pub = w.consumers(), w.published(paths)
		for _, f := range w.fixtures {
			if f.Pushed && f.Stream != nil {
				if m, _, _, ok := irtsp.VerifMulticastState(f.Stream.Multicastable()); ok && m > 0 {
					o.mcMember = true
				}
			}
		}
		res.obs = append(res.obs, o)
		if !closed {
			pumpAll() // whatever this makes the session send is seen in front of the next response
		}
	}
	// final pulse: if the session consumes over its own connection, packets of all four
	// channel types must come out on the negotiated interleaved channels (the model's table)
	if !closed && len(s.steps) > 0 && fin["role"] == "tcp" {
		res.pulseDone = true
		res.finalCh = [4]int{-1, -1, -1, -1}
		var src *media.Stream
		for _, f := range w.fixtures {
			if f.Stream.ConsumerCount() > 0 {
				src = f.Stream
			}
		}
		want := 0
		for _, x := range strings.Split(fin["ch"], ",") {
			if v, err := strconv.Atoi(x); err == nil && v >= 0 && v <= 255 && fin["paused"] != "1" {
				want++
			}
		}
		if src != nil {
			got := 0
			probe := []byte("c12-probe")
			if s.flav == "wsp" && want > 0 {
				// the WSP server answers JOIN before it attaches the data channel to the session; packets
				// consumed before that are dropped silently.  Probe on a subscribed channel type until one
				// packet comes through, so that the pulse proper starts with the channel attached.
				k0 := 0
				for k, x := range strings.Split(fin["ch"], ",") {
					if v, err := strconv.Atoi(x); err == nil && v >= 0 && v <= 255 {
						k0 = k
						break
					}
				}
				deadline := time.Now().Add(sl.Watchdog)
				through := false
				for !through && time.Now().Before(deadline) {
					src.WriteRtpPacket(&rtp.Packet{Channel: byte(k0), Data: probe})
					for {
						it, ok := c.TryNext(2 * time.Millisecond)
						if !ok {
							break
						}
						if it.Kind == sl.KFrame && string(it.Payload) == string(probe) {
							through = true
						}
					}
				}
			}
			for k := 0; k < 4; k++ {
				src.WriteRtpPacket(&rtp.Packet{Channel: byte(k), Data: pulsePayload(k)})
			}
			take := func(it sl.Item) {
				if it.Kind == sl.KFrame && (string(it.Payload) == string(probe) || string(it.Payload) == string(stepPayload)) {
					return
				}
				if it.Kind == sl.KFrame {
					got++
					k := pulseIndex(it.Payload)
					if k < 0 || res.finalCh[k] != -1 {
						res.pulseBad = "unexpected frame"
					} else {
						res.finalCh[k] = it.Chan
					}
				}
			}
			// On TCP a frame may stay in the connection's write buffer (rate limiter) until the next
			// response flushes it, and the consumption goroutine may still be inside its last Consume
			// when the queue is already empty: repeat drain + barrier until everything expected has
			// arrived (a few rounds at most on the unchanged code), then one more barrier for extras.
			pulseDeadline := time.Now().Add(pulseBudget)
			for round := 0; !closed; round++ {
				sl.WaitUntil(func() bool {
					rt, _, _, _ := src.VerifTables()
					for _, x := range rt {
						if x.QueueLen > 0 {
							return false
						}
					}
					return true
				})
				cs := "pb" + strconv.Itoa(round)
				if c.Send(sl.Req{Method: "OPTIONS", URL: "*", CSeq: cs}.Wire()) != nil {
					closed = true
					break
				}
				for {
					it, ok := c.Next()
					if !ok || it.Kind == sl.KEOF {
						closed = true
						break
					}
					if it.Kind == sl.KResp && it.Header["CSeq"] == cs {
						break
					}
					take(it)
				}
				if got >= want && round > 0 {
					break
				}
				if got < want {
					// not there yet (the consumption goroutine is still inside Consume, or the frame sits in the
					// write buffer): go round again; give up only when the watchdog expires
					if time.Now().After(pulseDeadline) {
						sl.Expiries++
						pulseBudget = 3 * time.Second
						break
					}
					d := time.Duration(round) * 200 * time.Microsecond
					if d > 20*time.Millisecond {
						d = 20 * time.Millisecond
					}
					time.Sleep(d)
				}
			}
		} else {
			res.pulseBad = "no consuming stream"
		}
	}
	// implicit hang-up
	if !closed {
		o := obs{hangup: true, method: "-"}
		c.Close()
		sl.WaitUntil(func() bool { return w.consumers() == 0 && !w.published(paths) })
		o.cons, o.pub, o.closed = w.consumers(), w.published(paths), true
		res.obs = append(res.obs, o)
	} else {
		c.Close()
	}
	return
}

// consumersOverConn: true when some consumer is a StartConsume'd one (tcp / udp / wsp), i.e. not multicast only
func (w *world) consumersOverConn() bool {
	for _, f := range w.fixtures {
		if f.Stream.ConsumerCount() > 0 {
			return true
		}
	}
	return false
}

func pulsePayload(k int) []byte {
	return []byte{0x80, 96, 0, byte(k + 1), 0, 0, 0, 1, 0, 0, 0, 7, 0xA0 + byte(k), 1, 2, 3, byte(k)}
}

func pulseIndex(p []byte) int {
	for k := 0; k < 4; k++ {
		if string(p) == string(pulsePayload(k)) {
			return k
		}
	}
	return -1
}

// ---------------------------------------------------------------- generators

const base = "rtsp://h.example"

type gen struct {
	c *Ctx
	w *world
}

var transportsValid = []string{
	"RTP/AVP/TCP;unicast;interleaved=0-1",
	"RTP/AVP/TCP;unicast;interleaved=2-3",
	"RTP/AVP/TCP;interleaved=4-5;mode=play",
	"RTP/AVP/TCP;unicast;interleaved=6",
	"RTP/AVP/TCP;unicast",
	"RTP/AVP;unicast;client_port=40000-40001",
	"RTP/AVP/UDP;unicast;client_port=40002-40003",
	"RTP/AVP;multicast",
	"RTP/AVP;multicast;destination=232.1.1.1;port=5000-5001;ttl=16",
	"RTP/AVP/TCP;unicast;interleaved=0-1;mode=record",
	"RTP/AVP/TCP;unicast;interleaved=2-3;mode=\"record\"",
	"RTP/AVP;unicast;client_port=40004-40005;mode=record",
	"RTP/AVP/TCP;unicast;interleaved=0-1;mode=RECORD",
	"RTP/AVP/TCP;unicast;interleaved=0-1;mode=record;mode=play",
	"RTP/AVP/TCP;unicast;interleaved=0-1;mode=play;mode=record",
	" RTP/AVP/TCP ; unicast ; interleaved = 8 - 9 ",
	"RTP/AVP/TCP;unicast;interleaved=255-256",
	"RTP/AVP/TCP;append;interleaved=10-11",
}

var transportsBad = []string{
	"",
	"RTP/AVP/TCP",
	"RTP/SAVP;unicast;interleaved=0-1",
	"RTP/AVP/TCP;multicast",
	"RTP/AVP/TCP;unicast;interleaved=x-1",
	"RTP/AVP/TCP;unicast;interleaved=-1",
	"RTP/AVP;unicast;client_port=abc",
	"RTP/AVP;unicast;client_port=",
	"RTP/AVP;multicast;port=z",
	"RTP/AVP/TCP;unicast;interleaved=99999999999999999999-1",
	"rtp/avp/tcp;unicast;interleaved=0-1",
	";RTP/AVP/TCP",
	"RTP/AVP;unicast;server_port=-",
}

// randTransport: structure-aware random Transport header (ASCII)
func (g *gen) randTransport() string {
	r := g.c.Rng
	if r.Chance(55) {
		return transportsValid[r.Intn(len(transportsValid))]
	}
	if r.Chance(40) {
		return transportsBad[r.Intn(len(transportsBad))]
	}
	specs := []string{"RTP/AVP/TCP", "RTP/AVP", "RTP/AVP/UDP", "RTP/AVP/TCP ", " RTP/AVP", "RTP/AVP/tcp", "RAW/RAW/UDP", ""}
	toks := []string{"unicast", "multicast", "append", "mode=record", "mode=play", "mode=\"PLAY\"", "mode", "interleaved=0-1", "interleaved=2-3",
		"interleaved=5", "interleaved=-", "interleaved=7-", "interleaved=+3-+4", "interleaved= 1 - 2 ", "interleaved=1-x", "interleaved=300-301",
		"client_port=5000-5001", "client_port=5000", "client_port=-5", "client_port=x", "server_port=6000-6001", "server_port=q",
		"port=7000-7001", "port=", "destination=224.2.2.2", "source=1.2.3.4", "ttl=5", "ttl=x", "ttl=99999999999999999999", "ssrc=1234", "", " ", "=", "a=b=c", "\"mode\"=record"}
	s := specs[r.Intn(len(specs))]
	for n := r.Intn(5); n > 0; n-- {
		s += ";" + toks[r.Intn(len(toks))]
	}
	return s
}

type sym struct {
	name string
	mk   func(g *gen, path string, cseq int) string
}

func wire(method, url string, cseq int, tr, ctype, body string) string {
	return sl.Req{Method: method, URL: url, CSeq: strconv.Itoa(cseq), Transport: tr, CType: ctype, Body: body}.Wire()
}

// controlURL: the SETUP url of a track of the stream at path
func (g *gen) controlURL(path string, audio bool) string {
	for _, f := range g.w.fixtures {
		if f.Path == path && f.Doc != nil {
			for _, m := range f.Doc.Medias {
				if (m[0] == "a") == audio && (m[0] == "a" || m[0] == "v") {
					if len(m[1]) >= 7 && strings.EqualFold(m[1][:7], "rtsp://") {
						return m[1]
					}
					return base + path + "/" + m[1]
				}
			}
		}
	}
	if audio {
		return base + path + "/streamid=1"
	}
	return base + path + "/streamid=0"
}

func (g *gen) alphabet() []sym {
	av := g.w.fixtures[0].Doc.Text
	return []sym{
		{"OPTIONS", func(g *gen, p string, n int) string { return wire("OPTIONS", base+p, n, "", "", "") }},
		{"DESCRIBE", func(g *gen, p string, n int) string { return wire("DESCRIBE", base+p, n, "", "", "") }},
		{"DESCRIBE-missing", func(g *gen, p string, n int) string { return wire("DESCRIBE", base+"/live/none", n, "", "", "") }},
		{"ANNOUNCE", func(g *gen, p string, n int) string {
			return wire("ANNOUNCE", base+"/pub/x", n, "", "application/sdp", av)
		}},
		{"ANNOUNCE-badsdp", func(g *gen, p string, n int) string {
			return wire("ANNOUNCE", base+"/pub/x", n, "", "application/sdp", "v=0\r\nbroken")
		}},
		{"SETUP-v-tcp", func(g *gen, p string, n int) string {
			return wire("SETUP", g.controlURL(p, false), n, "RTP/AVP/TCP;unicast;interleaved=0-1", "", "")
		}},
		{"SETUP-a-tcp", func(g *gen, p string, n int) string {
			return wire("SETUP", g.controlURL(p, true), n, "RTP/AVP/TCP;unicast;interleaved=2-3", "", "")
		}},
		{"SETUP-v-udp", func(g *gen, p string, n int) string {
			return wire("SETUP", g.controlURL(p, false), n, "RTP/AVP;unicast;client_port=40000-40001", "", "")
		}},
		{"SETUP-v-mc", func(g *gen, p string, n int) string {
			return wire("SETUP", g.controlURL(p, false), n, "RTP/AVP;multicast", "", "")
		}},
		{"SETUP-v-tcp-record", func(g *gen, p string, n int) string {
			return wire("SETUP", base+"/pub/x/streamid=0", n, "RTP/AVP/TCP;unicast;interleaved=0-1;mode=record", "", "")
		}},
		{"SETUP-a-udp-record", func(g *gen, p string, n int) string {
			return wire("SETUP", base+"/pub/x/streamid=1", n, "RTP/AVP;unicast;client_port=40002-40003;mode=record", "", "")
		}},
		{"SETUP-badtransport", func(g *gen, p string, n int) string {
			return wire("SETUP", g.controlURL(p, false), n, "RTP/AVP/TCP;unicast;interleaved=x", "", "")
		}},
		{"SETUP-badcontrol", func(g *gen, p string, n int) string {
			return wire("SETUP", base+p+"/nosuchtrack", n, "RTP/AVP/TCP;unicast;interleaved=0-1", "", "")
		}},
		{"PLAY", func(g *gen, p string, n int) string { return wire("PLAY", base+p, n, "", "", "") }},
		{"RECORD", func(g *gen, p string, n int) string { return wire("RECORD", base+"/pub/x", n, "", "", "") }},
		{"PAUSE", func(g *gen, p string, n int) string { return wire("PAUSE", base+p, n, "", "", "") }},
		{"GET_PARAMETER", func(g *gen, p string, n int) string { return wire("GET_PARAMETER", base+p, n, "", "", "") }},
		{"TEARDOWN", func(g *gen, p string, n int) string { return wire("TEARDOWN", base+p, n, "", "", "") }},
		{"FOO", func(g *gen, p string, n int) string { return wire("FOO", base+p, n, "", "", "") }},
		// not requests: interleaved frames sent by the client (a player's receiver report on the control
		// channel SETUP-v-tcp negotiates; an RTP packet on its media channel)
		{"FRAME-rtcp", func(g *gen, p string, n int) string { return frameWire(1, rtcpRR) }},
		{"FRAME-rtp", func(g *gen, p string, n int) string { return frameWire(0, rtpPkt) }},
	}
}

// randomStep: a request with randomised parameters (paths, controls, transports, bodies, Range)
func (g *gen) randomStep(path string, cseq int, progress *int) string {
	r := g.c.Rng
	paths := []string{"/live/a", "/live/b", "/live/abs", "/live/empty", "/live/bad", "/live/audio", "/live/badv", "/live/bada", "/live/none", "/LIVE/A", "/live//a/", "/pub/x"}
	pick := func() string {
		if r.Chance(75) {
			return path
		}
		return paths[r.Intn(len(paths))]
	}
	bodies := []string{g.w.docs[0].Text, g.w.docs[1].Text, g.w.docs[2].Text, "v=0\r\nbroken", "", g.w.docs[5].Text, g.w.docs[4].Text}
	setupURL := func() string {
		switch r.Intn(10) {
		case 0:
			return base + pick() + "/nosuchtrack"
		case 1:
			return base + pick()
		case 2:
			return "rtsp://h.example:8554" + pick() + "/streamid=0"
		case 3:
			return base + "/pub/x/streamid=" + strconv.Itoa(r.Intn(2))
		case 4:
			u := g.controlURL(pick(), r.Bool())
			if len(u) > 1 {
				return u[:len(u)-1] // one character short of the control
			}
			return u
		default:
			return g.controlURL(pick(), r.Chance(35))
		}
	}
	if r.Chance(7) {
		// a frame from the client: negotiated or unknown channel, RTCP, parsable or truncated RTP
		return frameWire([]int{0, 1, 1, 2, 3, 4, 5, 6, 77, 255}[r.Intn(10)], [][]byte{rtcpRR, rtpPkt, rtpShort, {}}[r.Intn(4)])
	}
	// bias towards the legal order so that deep states are reached
	var m string
	ordered := false
	if r.Chance(60) {
		ordered = true
		playOrder := []string{"DESCRIBE", "SETUP", "SETUP", "PLAY", "PLAY", "OPTIONS", "PLAY", "TEARDOWN"}
		recOrder := []string{"ANNOUNCE", "SETUP", "SETUP", "RECORD", "RECORD", "OPTIONS", "RECORD", "TEARDOWN"}
		ord := playOrder
		if *progress >= 100 {
			ord = recOrder
		}
		i := *progress % 100
		if i >= len(ord) {
			i = len(ord) - 1
		}
		m = ord[i]
		*progress++
	} else {
		ms := []string{"OPTIONS", "DESCRIBE", "ANNOUNCE", "SETUP", "SETUP", "PLAY", "RECORD", "PAUSE", "GET_PARAMETER", "SET_PARAMETER", "TEARDOWN", "REDIRECT", "FOO", "options", "Play"}
		m = ms[r.Intn(len(ms))]
	}
	q := sl.Req{Method: m, URL: base + pick(), CSeq: strconv.Itoa(cseq)}
	if r.Chance(3) {
		q.CSeq = "x" + strconv.Itoa(cseq) + "y"
	}
	switch m {
	case "SETUP":
		q.URL = setupURL()
		q.Transport = g.randTransport()
		if ordered && r.Chance(85) {
			q.URL = g.controlURL(path, r.Chance(35))
			q.Transport = transportsValid[r.Intn(len(transportsValid))]
			if r.Chance(50) {
				q.Transport = transportsValid[r.Intn(4)]
			}
		}
		if *progress >= 100 && r.Chance(75) {
			q.URL = base + "/pub/x/streamid=" + strconv.Itoa(r.Intn(2))
			if ordered && r.Chance(75) {
				q.Transport = []string{"RTP/AVP/TCP;unicast;interleaved=0-1;mode=record", "RTP/AVP/TCP;unicast;interleaved=2-3;mode=record",
					"RTP/AVP/TCP;interleaved=0-1;mode=\"record\"", "RTP/AVP/TCP;unicast;interleaved=4-5"}[r.Intn(4)]
			} else if !strings.Contains(q.Transport, "mode=") && r.Chance(80) {
				q.Transport += ";mode=record"
			}
		}
	case "ANNOUNCE":
		q.URL = base + "/pub/x"
		if r.Chance(10) {
			q.URL = base + pick()
		}
		q.Body = bodies[r.Intn(len(bodies))]
		if r.Chance(85) {
			q.CType = "application/sdp"
		} else if r.Bool() {
			q.CType = "text/plain"
		}
	case "RECORD":
		q.URL = base + "/pub/x"
	case "PLAY", "PAUSE":
		if r.Chance(40) {
			q.HasRange = true
			q.Range = []string{"npt=0.000-", "npt=now-", "", "clock=19961108T142300Z-"}[r.Intn(4)]
		}
	case "OPTIONS":
		if r.Chance(30) {
			q.URL = "*"
		}
	}
	return q.Wire()
}

// ---------------------------------------------------------------- run

func runC12(c *Ctx) {
	sl.Silence()
	config.VerifSetAuth(false)
	w := newWorld()
	g := &gen{c, w}
	c.Res.Rule = "case = (flavour tcp|ws-rtsp|wsp, request script); the script is run against a fresh real session with an OPTIONS barrier after every request; " +
		"distinct by script text; non-trivial when at least one request passes the OPTIONS/TEARDOWN pre-handling. ParseTransport cases: (initial value, track, header strings), distinct by text, non-trivial when the header contains ';'"

	runPT(c, g)
	runWspDecode(c)

	var scripts []script
	for _, l := range c.CorpusLines() {
		f := strings.Fields(l)
		if len(f) >= 4 && f[0] == "c12" && f[1] == "seq" {
			s := script{flav: f[2], label: "corpus"}
			if f[3] != "-" {
				s.wsPath = string(Unhx(f[3]))
			}
			for _, t := range f[4:] {
				if t == "H" {
					s.steps = append(s.steps, "H")
				} else {
					s.steps = append(s.steps, string(Unhx(t)))
				}
			}
			scripts = append(scripts, s)
		}
	}
	if c.Replay == "" {
		scripts = append(scripts, g.generate()...)
	}
	runScripts(c, w, scripts)
	for _, f := range w.fixtures {
		if f.FellBack {
			// a source could not be published by a pusher session (ANNOUNCE / SETUP record / RECORD refused)
			c.Find(Finding{Kind: "corr", Class: "fixture-not-published", Case: "c12 fixture " + hx(f.Path), Impl: "plain registered stream with a stand-in multicast", Model: "published by a pusher session"})
		}
	}
}

func (g *gen) generate() []script {
	c := g.c
	var out []script
	alpha := g.alphabet()
	// exhaustive over the alphabet
	depth := map[string]int{"tcp": 3, "ws": 2, "wsp": 2}
	if c.Thorough() {
		depth = map[string]int{"tcp": 4, "ws": 3, "wsp": 3}
	}
	for _, flav := range []string{"tcp", "ws", "wsp"} {
		var rec func(pre []int)
		rec = func(pre []int) {
			if len(pre) > 0 {
				s := script{flav: flav, label: "exhaustive"}
				if flav != "tcp" {
					s.wsPath = "/live/a"
				}
				for i, k := range pre {
					s.steps = append(s.steps, alpha[k].mk(g, "/live/a", 2*i+1))
				}
				out = append(out, s)
			}
			if len(pre) == depth[flav] {
				return
			}
			if len(pre) > 0 && alpha[pre[len(pre)-1]].name == "TEARDOWN" {
				return // nothing can follow a TEARDOWN
			}
			for k := range alpha {
				if flav == "wsp" && strings.HasPrefix(alpha[k].name, "FRAME") {
					continue // the WSP control channel carries text messages only
				}
				rec(append(append([]int{}, pre...), k))
			}
		}
		rec(nil)
	}
	c.Note(fmt.Sprintf("all request sequences over the %d-symbol alphabet up to length tcp=%d ws-rtsp=%d wsp=%d enumerated completely (sequences are cut after TEARDOWN)",
		len(alpha), depth["tcp"], depth["ws"], depth["wsp"]))
	// "TEARDOWN or disconnect releases whatever the session held", for every kind of holder: a player of
	// each transport class (interleaved TCP, UDP unicast, multicast) on a published multicast-capable
	// source, on one with absolute controls and on a plain one, with one or two tracks, and a recorder;
	// each leaves by TEARDOWN, by hanging up, or is dropped at the end of the script; with and without a
	// keep-alive in between
	nrel := 0
	for _, flav := range []string{"tcp", "ws", "wsp"} {
		for _, path := range []string{"/live/a", "/live/abs", "/live/b"} {
			for _, tr := range []string{"RTP/AVP/TCP;unicast;interleaved=%d-%d", "RTP/AVP;unicast;client_port=%d-%d", "RTP/AVP;multicast"} {
				for tracks := 1; tracks <= 2; tracks++ {
					for _, leave := range []string{"TEARDOWN", "H", ""} {
						for _, keep := range []bool{false, true} {
							s := script{flav: flav, label: "release"}
							if flav != "tcp" {
								s.wsPath = path
							}
							n := 1
							add := func(st string) { s.steps = append(s.steps, st); n += 2 }
							tp := func(k int) string {
								if strings.Contains(tr, "%d") {
									if strings.Contains(tr, "client_port") {
										return fmt.Sprintf(tr, 40000+2*k, 40001+2*k)
									}
									return fmt.Sprintf(tr, 2*k, 2*k+1)
								}
								return tr
							}
							add(wire("DESCRIBE", base+path, n, "", "", ""))
							add(wire("SETUP", g.controlURL(path, false), n, tp(0), "", ""))
							if tracks == 2 {
								add(wire("SETUP", g.controlURL(path, true), n, tp(1), "", ""))
							}
							add(wire("PLAY", base+path, n, "", "", ""))
							if keep {
								add(wire("OPTIONS", base+path, n, "", "", ""))
							}
							switch leave {
							case "TEARDOWN":
								add(wire("TEARDOWN", base+path, n, "", "", ""))
							case "H":
								add("H")
							}
							out = append(out, s)
							nrel++
						}
					}
				}
			}
		}
		if flav == "wsp" {
			continue // play only
		}
		for tracks := 1; tracks <= 2; tracks++ {
			for _, leave := range []string{"TEARDOWN", "H", ""} {
				s := script{flav: flav, label: "release"}
				if flav != "tcp" {
					s.wsPath = "/pub/x"
				}
				s.steps = append(s.steps, wire("ANNOUNCE", base+"/pub/x", 1, "", "application/sdp", g.w.fixtures[0].Doc.Text),
					wire("SETUP", base+"/pub/x/streamid=0", 3, "RTP/AVP/TCP;unicast;interleaved=0-1;mode=record", "", ""))
				if tracks == 2 {
					s.steps = append(s.steps, wire("SETUP", base+"/pub/x/streamid=1", 5, "RTP/AVP/TCP;unicast;interleaved=2-3;mode=record", "", ""))
				}
				s.steps = append(s.steps, wire("RECORD", base+"/pub/x", 7, "", "", ""))
				switch leave {
				case "TEARDOWN":
					s.steps = append(s.steps, wire("TEARDOWN", base+"/pub/x", 9, "", "", ""))
				case "H":
					s.steps = append(s.steps, "H")
				}
				out = append(out, s)
				nrel++
			}
		}
	}
	c.Note(fmt.Sprintf("%d release scripts: every transport class of a player (tcp, udp, multicast; published and plain sources; one and two tracks) and a recorder, leaving by TEARDOWN, hang-up or drop", nrel))
	// "a method that is not legal in the current state is refused with 455 and changes nothing" / the
	// playing state is the same state whatever transport class carried the session there: after a
	// successful PLAY on EVERY transport class the state-dependent requests — a second PLAY (keep-alive:
	// 200, nothing changes), a SETUP (455, nothing changes), PAUSE, all of them — and then TEARDOWN /
	// hang-up / drop, which must release everything.  Judged by the reference automaton (order, 455)
	// and its release clause; the consumer counts after every step are compared with the model's.
	nst := 0
	for _, flav := range []string{"tcp", "ws", "wsp"} {
		for _, path := range []string{"/live/a", "/live/b"} {
			for _, tr := range []string{"RTP/AVP/TCP;unicast;interleaved=%d-%d", "RTP/AVP;unicast;client_port=%d-%d", "RTP/AVP;multicast"} {
				for _, follow := range []string{"PLAY", "SETUP", "PAUSE", "PLAY SETUP PAUSE PLAY"} {
					for _, leave := range []string{"TEARDOWN", "H", ""} {
						s := script{flav: flav, label: "playing-state"}
						if flav != "tcp" {
							s.wsPath = path
						}
						n := 1
						add := func(st string) { s.steps = append(s.steps, st); n += 2 }
						tp := func(k int) string {
							if strings.Contains(tr, "client_port") {
								return fmt.Sprintf(tr, 40000+2*k, 40001+2*k)
							}
							if strings.Contains(tr, "%d") {
								return fmt.Sprintf(tr, 2*k, 2*k+1)
							}
							return tr
						}
						add(wire("DESCRIBE", base+path, n, "", "", ""))
						add(wire("SETUP", g.controlURL(path, false), n, tp(0), "", ""))
						add(wire("PLAY", base+path, n, "", "", ""))
						for _, m := range strings.Fields(follow) {
							switch m {
							case "SETUP":
								add(wire("SETUP", g.controlURL(path, path == "/live/a"), n, tp(1), "", ""))
							default:
								add(wire(m, base+path, n, "", "", ""))
							}
						}
						switch leave {
						case "TEARDOWN":
							add(wire("TEARDOWN", base+path, n, "", "", ""))
						case "H":
							add("H")
						}
						out = append(out, s)
						nst++
					}
				}
			}
		}
	}
	c.Note(fmt.Sprintf("%d playing-state scripts: after a successful PLAY on every transport class (tcp, udp, multicast) a second PLAY, a SETUP, PAUSE, and all of them, then TEARDOWN, hang-up or drop", nst))
	// random structured scripts
	n := c.Budget(2500, 40000)
	paths := []string{"/live/a", "/live/a", "/live/b", "/live/abs", "/live/audio", "/live/badv", "/live/bada", "/live/empty", "/live/bad", "/live/none"}
	for i := 0; i < n; i++ {
		s := script{label: "random"}
		switch c.Rng.Intn(10) {
		case 0, 1, 2, 3, 4:
			s.flav = "tcp"
		case 5, 6, 7:
			s.flav = "ws"
		default:
			s.flav = "wsp"
		}
		path := paths[c.Rng.Intn(len(paths))]
		if s.flav != "tcp" {
			s.wsPath = path
		}
		progress := 0
		if s.flav == "tcp" && c.Rng.Chance(30) || s.flav == "ws" && c.Rng.Chance(20) {
			progress = 100 // record-oriented
		}
		l := 1 + c.Rng.Intn(10)
		for k := 0; k < l; k++ {
			if c.Rng.Chance(2) {
				s.steps = append(s.steps, "H")
				break
			}
			st := g.randomStep(path, 2*k+1, &progress)
			for s.flav == "wsp" && isFrame(st) {
				st = g.randomStep(path, 2*k+1, &progress)
			}
			s.steps = append(s.steps, st)
		}
		out = append(out, s)
	}
	return out
}

func classOf(verdict string, s script, idx int, obs []obs) string {
	m := "-"
	if idx >= 0 && idx < len(obs) {
		m = obs[idx].method
	}
	k := "rtsp"
	if s.flav == "wsp" {
		k = "wsp"
	}
	return verdict + ":" + m + ":" + k
}

func runScripts(c *Ctx, w *world, scripts []script) {
	type pending struct {
		s      script
		res    execResult
		mi, ji int
	}
	var mlines []string
	var ok1 []script
	for _, s := range scripts {
		ml, ok := w.modelLine(s)
		if !ok {
			c.Count("script-unparsable")
			continue
		}
		mlines = append(mlines, ml)
		ok1 = append(ok1, s)
	}
	mouts := c.Drive(mlines)
	var lines []string
	var pend []pending
	reruns := 0
	// confirmed: scripts whose wait expired again when they were run alone.  On the unchanged tree no wait
	// ever expires, so none of what follows changes anything there.  On a wrong tree the first confirming
	// re-run has the full watchdog; once a failure has been confirmed the later confirmations have short
	// budgets, and after maxConfirmed confirmed scripts the rest of the GENERATED scripts is not run
	// (counted as not-run): the report is there in minutes, not after the harness time-out.
	confirmed := 0
	const maxConfirmed = 6
	for i, s := range ok1 {
		if confirmed >= maxConfirmed && s.label != "corpus" {
			c.Count("script-not-run")
			continue
		}
		fin := map[string]string{}
		if parts := strings.SplitN(mouts[i], " || ", 2); len(parts) == 2 {
			fin = KV(parts[1])
		}
		res := w.exec(s, fin)
		if res.timedOut || res.err != "" {
			// a watchdog expired (or the session could not be set up): a busy machine must not become a
			// finding.  The script is run once more, alone; with the full budgets until a failure has been
			// confirmed that way (at most three times if the re-runs come out clean).
			c.Count("script-rerun")
			w.settle()
			if reruns < 3 && confirmed == 0 {
				sl.FullBudgets()
				pulseBudget = sl.Watchdog
			}
			reruns++
			res = w.exec(s, fin)
			if !res.timedOut && res.err == "" {
				c.Count("script-rerun-clean")
			} else {
				confirmed++
				c.Count("script-rerun-confirmed")
			}
			w.settle()
		}
		if res.err != "" {
			c.Find(Finding{Kind: "corr", Class: "harness-error", Case: s.caseLine(), Impl: res.err})
			continue
		}
		flav := "rtsp"
		if s.flav == "wsp" {
			flav = "wsp"
		}
		var jb strings.Builder
		fmt.Fprintf(&jb, "c12 judge %s", flav)
		for _, o := range res.obs {
			code := 0
			if o.nresp > 0 {
				code = o.resps[0].Code
			}
			m := o.method
			if o.hangup || o.frame {
				m = "-"
			}
			fmt.Fprintf(&jb, " %s %s %s %d %d %s %s %d %s %s %s %s", B01(o.hangup), m, hx(o.transport), o.nresp, code, B01(o.cseqOK), B01(o.sidOK), o.cons, B01(o.pub), B01(o.closed), B01(o.media), B01(o.frame))
		}
		pend = append(pend, pending{s, res, i, len(lines)})
		lines = append(lines, jb.String())
	}
	jouts := c.Drive(lines)
	for _, p := range pend {
		s, res := p.s, p.res
		mout := mouts[p.mi]
		jkv := KV(jouts[p.ji])
		verdict := jkv["verdict"]
		badAt, _ := strconv.Atoi(jkv["at"])
		nontrivial := false
		for _, o := range res.obs {
			if !o.hangup && o.method != "OPTIONS" && o.method != "TEARDOWN" {
				nontrivial = true
			}
		}
		c.Eval(s.caseLine(), nontrivial)
		c.Count("flavour-" + s.flav)
		c.Count("gen-" + s.label)
		c.Count(fmt.Sprintf("script-len-%02d", len(s.steps)))
		// model comparison
		parts := strings.SplitN(mout, " || ", 2)
		if len(parts) != 2 {
			c.Find(Finding{Kind: "corr", Class: "model-bad-op", Case: s.caseLine(), Impl: "-", Model: mout})
			continue
		}
		segs := strings.Split(parts[0], " | ")
		fin := KV(parts[1])
		var implSegs []string
		maxState := ""
		for _, o := range res.obs {
			var rs []string
			for _, r := range o.resps {
				setup := ""
				if q, ok := findReq(s, r.Header["CSeq"]); ok {
					_, setup, _ = sl.URLParts(q.url)
				}
				rs = append(rs, w.respStr(r, s.flav, setup))
			}
			rj := strings.Join(rs, ",")
			if rj == "" {
				rj = "none"
			}
			implSegs = append(implSegs, fmt.Sprintf("%s;%d %s %s", rj, o.cons, B01(o.pub), B01(o.closed)))
			if o.frame {
				c.Count("client-frames")
			} else if o.nresp > 0 {
				c.Count(fmt.Sprintf("resp-%s-%d", o.method, o.resps[0].Code))
			} else if !o.hangup {
				c.Count("resp-" + o.method + "-none")
			}
			if o.cons > 0 {
				maxState = "playing"
			}
			if o.pub {
				maxState = "recording"
			}
			if o.hung {
				c.Count("hung")
			}
			if o.mcMember {
				c.Count("member-of-a-real-multicast-proxy-" + s.flav)
			}
			if o.media {
				c.Count("media-before-response-" + s.flav)
			}
			for _, a := range o.anomalies {
				if a != "empty message" {
					c.Find(Finding{Kind: "oracle", Class: "stream-anomaly", Case: s.caseLine(), Impl: a, Spec: "responses and frames only"})
				}
			}
		}
		if maxState != "" {
			c.Count("reached-" + maxState + "-" + s.flav)
		}
		// the model line has one more segment per step the implementation never got to (after a close)
		msegs := segs
		if len(msegs) > len(implSegs) {
			// the remaining model segments must be silent ("none;0 0 1")
			for _, x := range msegs[len(implSegs):] {
				if !strings.HasPrefix(x, "none;") {
					c.Find(Finding{Kind: "corr", Class: "script-length", Case: s.caseLine(), Impl: strings.Join(implSegs, " | "), Model: parts[0]})
				}
			}
			msegs = msegs[:len(implSegs)]
		}
		if strings.Join(msegs, " | ") != strings.Join(implSegs, " | ") {
			k := 0
			for k < len(msegs) && k < len(implSegs) && msegs[k] == implSegs[k] {
				k++
			}
			c.Find(Finding{Kind: "corr", Class: "session-step", Case: s.caseLine(), Impl: strings.Join(implSegs, " | "), Model: strings.Join(msegs, " | "),
				Detail: fmt.Sprintf("first difference at step %d (%s)", k, stepName(s, k))})
		}
		// final pulse against the model's channel table
		if res.pulseDone {
			ch := strings.Split(fin["ch"], ",")
			for k := 0; k < 4 && k < len(ch); k++ {
				want, _ := strconv.Atoi(ch[k])
				if want < 0 || want > 255 {
					want = -1
				}
				if fin["paused"] == "1" {
					want = -1
				}
				if res.finalCh[k] != want {
					c.Find(Finding{Kind: "corr", Class: "pulse-channel", Case: s.caseLine(), Impl: fmt.Sprint(res.finalCh), Model: fin["ch"],
						Detail: fmt.Sprintf("packet of channel type %d came out on interleaved channel %d, model says %d %s", k, res.finalCh[k], want, res.pulseBad)})
					break
				}
			}
			c.Count("pulse-checked")
		}
		// specification verdict on the observed dialogue
		if verdict != "ok" {
			c.Find(Finding{Kind: "oracle", Class: classOf(verdict, s, badAt, res.obs), Case: s.caseLine(), Impl: strings.Join(implSegs, " | "), Spec: verdict,
				Detail: describe(s)})
		}
		c.Count("verdict-" + verdict)
		if c.Res.Evaluations%(1+len(pend)/10) == 0 {
			c.Sample(fmt.Sprintf("%s %s → %s [%s]", s.flav, describe(s), strings.Join(implSegs, " | "), verdict))
		}
	}
}

func findReq(s script, cseq string) (preq, bool) {
	for _, st := range s.steps {
		if st == "H" || isFrame(st) {
			continue
		}
		if q, ok := parseWire(st); ok && q.cseq == cseq {
			return q, true
		}
	}
	return preq{}, false
}

func stepName(s script, k int) string {
	if k < len(s.steps) {
		if s.steps[k] == "H" {
			return "hang-up"
		}
		if isFrame(s.steps[k]) {
			return fmt.Sprintf("client frame on channel %d (%d bytes)", int(s.steps[k][1]), len(s.steps[k])-4)
		}
		if q, ok := parseWire(s.steps[k]); ok {
			return q.method + " " + q.url + " " + q.transport
		}
	}
	return "implicit hang-up"
}

func describe(s script) string {
	var p []string
	for k := range s.steps {
		p = append(p, stepName(s, k))
	}
	return strings.Join(p, "; ")
}

// ---------------------------------------------------------------- ParseTransport, directly

func runPT(c *Ctx, g *gen) {
	type ptCase struct {
		init  string
		calls [][2]string // track, header
	}
	var cases []ptCase
	for _, l := range c.CorpusLines() {
		f := strings.Fields(l)
		if len(f) >= 5 && f[0] == "c12" && f[1] == "pt" && (len(f)-3)%2 == 0 {
			k := ptCase{init: f[2]}
			for i := 3; i+1 < len(f); i += 2 {
				k.calls = append(k.calls, [2]string{f[i], string(Unhx(f[i+1]))})
			}
			cases = append(cases, k)
		}
	}
	if c.Replay == "" {
		for _, t := range append(append([]string{}, transportsValid...), transportsBad...) {
			for _, init := range []string{"z", "n"} {
				for _, tr := range []string{"0", "2"} {
					cases = append(cases, ptCase{init, [][2]string{{tr, t}}})
				}
			}
		}
		n := c.Budget(30000, 300000)
		for i := 0; i < n; i++ {
			k := ptCase{init: []string{"z", "n"}[c.Rng.Intn(2)]}
			for m := 1 + c.Rng.Intn(3); m > 0; m-- {
				k.calls = append(k.calls, [2]string{[]string{"0", "2"}[c.Rng.Intn(2)], g.ptHeader()})
			}
			cases = append(cases, k)
		}
	}
	lines := make([]string, len(cases))
	for i, k := range cases {
		var b strings.Builder
		fmt.Fprintf(&b, "c12 pt %s", k.init)
		for _, cl := range k.calls {
			fmt.Fprintf(&b, " %s %s", cl[0], hx(cl[1]))
		}
		lines[i] = b.String()
	}
	outs := c.Drive(lines)
	for i, k := range cases {
		impl := "hang"
		if returned, _ := sl.Guard(sl.Watchdog, func() { impl = implPT(k.init, k.calls) }); !returned {
			c.Find(Finding{Kind: "oracle", Class: "parse-transport-hang", Case: lines[i], Impl: "ParseTransport did not return within " + sl.Watchdog.String(), Spec: "ParseTransport returns", Detail: fmt.Sprintf("%q", k.calls)})
			break
		}
		nontriv := false
		for _, cl := range k.calls {
			if strings.Contains(cl[1], ";") {
				nontriv = true
			}
		}
		c.Eval(lines[i], nontriv)
		c.Count("pt-cases")
		kv := KV(impl)
		c.Count("pt-type-" + kv["type"])
		if strings.Contains(kv["err"], "1") {
			c.Count("pt-err")
		} else {
			c.Count("pt-ok")
		}
		if impl != outs[i] {
			c.Find(Finding{Kind: "corr", Class: "parse-transport", Case: lines[i], Impl: impl, Model: outs[i], Detail: fmt.Sprintf("%q", k.calls)})
		}
		if i%(len(cases)/4+1) == 0 {
			c.Sample(fmt.Sprintf("ParseTransport %q → %s", k.calls, impl))
		}
	}
}

func (g *gen) ptHeader() string {
	r := g.c.Rng
	if r.Chance(50) {
		return g.randTransport()
	}
	// byte-level noise over the interesting alphabet
	alpha := "RTP/AVCUDmodeinterlavdcli_ptsrc=;-+\" \t0123456789x"
	n := r.Intn(40)
	b := make([]byte, n)
	for i := range b {
		b[i] = r.Pick(alpha)
	}
	s := string(b)
	if r.Chance(60) {
		s = []string{"RTP/AVP/TCP;", "RTP/AVP;", "RTP/AVP/UDP;", " RTP/AVP ;"}[r.Intn(4)] + s
	}
	return s
}

func implPT(init string, calls [][2]string) (out string) {
	defer func() {
		if r := recover(); r != nil {
			out = "panic"
		}
	}()
	var t irtsp.RTPTransport
	if init == "n" {
		t = irtsp.RTPTransport{Mode: irtsp.PlaySession, Type: irtsp.RTPUnknownTrans}
		for i := 0; i < 4; i++ {
			t.Channels[i] = -1
			t.ClientPorts[i] = -1
		}
	}
	errs := ""
	for _, cl := range calls {
		tr, _ := strconv.Atoi(cl[0])
		errs += B01(t.ParseTransport(tr, cl[1]) != nil)
	}
	q := func(a [4]int) string { return fmt.Sprintf("%d,%d,%d,%d", a[0], a[1], a[2], a[3]) }
	return fmt.Sprintf("err=%s mode=%d append=%s type=%d ch=%s cp=%s sp=%s ports=%s ip=%s ttl=%d src=%s", errs, int(t.Mode), B01(t.Append), int(t.Type),
		q(t.Channels), q(t.ClientPorts), q(t.ServerPorts), q(t.Ports), hx(t.MulticastIP), t.TTL, hx(t.Source))
}

// ---------------------------------------------------------------- wsp.DecodeStringRequest, directly

func implWspDecode(s string) (out string) {
	defer func() {
		if r := recover(); r != nil {
			out = "panic"
		}
	}()
	q, err := iwsp.DecodeStringRequest(s)
	if err != nil {
		e := err.Error()
		switch {
		case strings.HasPrefix(e, "malformed WSP request,missing"):
			return "err=separator"
		case strings.HasPrefix(e, "malformed WSP request first line"):
			return "err=firstline"
		case strings.HasPrefix(e, "malformed WSP request proto "):
			return "err=proto"
		case strings.HasPrefix(e, "malformed WSP request command "):
			return "err=command"
		}
		return "err=?" + e
	}
	keys := make([]string, 0, len(q.Header))
	for k := range q.Header {
		keys = append(keys, hx(k))
	}
	sort.Strings(keys)
	var hs []string
	for _, k := range keys {
		hs = append(hs, k+":"+hx(q.Header[string(Unhx(k))]))
	}
	h := "none"
	if len(hs) > 0 {
		h = strings.Join(hs, ",")
	}
	return fmt.Sprintf("cmd=%s h=%s body=%s", hx(q.Cmd), h, hx(q.Body))
}

func runWspDecode(c *Ctx) {
	r := c.Rng
	var cases []string
	for _, l := range c.CorpusLines() {
		f := strings.Fields(l)
		if len(f) == 3 && f[0] == "c12" && f[1] == "wspdec" {
			cases = append(cases, string(Unhx(f[2])))
		}
	}
	if c.Replay == "" {
		cmds := []string{"INIT", "JOIN", "WRAP", "GET_INFO", "SWITCH", "wrap", "PLAY", "", "WRAP x"}
		protos := []string{"WSP/1.1", "WSP/1.1", "WSP/1.1", "WSP/1.0", "wsp/1.1", "", " WSP/1.1"}
		hdrs := []string{"seq: 1", "seq:2", "channel: 12345", "proto: rtsp", "host: 1.2.3.4", "port: 554", " seq : 7 ", "seq: \"9\"", "novalue", ":", "a:b:c", "seq: 1\r", ""}
		bodies := []string{"", "OPTIONS * RTSP/1.0\r\nCSeq: 1\r\n\r\n", "x", "\r\n\r\nmore", " "}
		n := c.Budget(6000, 60000)
		for i := 0; i < n; i++ {
			var b strings.Builder
			b.WriteString(protos[r.Intn(len(protos))])
			if !r.Chance(5) {
				b.WriteString(" ")
			}
			b.WriteString(cmds[r.Intn(len(cmds))])
			eol := "\r\n"
			if r.Chance(10) {
				eol = "\n"
			}
			for k := r.Intn(4); k > 0; k-- {
				b.WriteString(eol)
				b.WriteString(hdrs[r.Intn(len(hdrs))])
			}
			if !r.Chance(8) {
				b.WriteString("\r\n\r\n")
			}
			b.WriteString(bodies[r.Intn(len(bodies))])
			s := b.String()
			if r.Chance(10) && len(s) > 0 { // a byte-level mutation
				bs := []byte(s)
				bs[r.Intn(len(bs))] = " \r\n:W/"[r.Intn(6)]
				s = string(bs)
			}
			cases = append(cases, s)
		}
	}
	lines := make([]string, len(cases))
	for i, s := range cases {
		lines[i] = "c12 wspdec " + hx(s)
	}
	outs := c.Drive(lines)
	for i, s := range cases {
		impl := "hang"
		if returned, _ := sl.Guard(sl.Watchdog, func() { impl = implWspDecode(s) }); !returned {
			c.Find(Finding{Kind: "oracle", Class: "wsp-decode-hang", Case: lines[i], Impl: "DecodeStringRequest did not return within " + sl.Watchdog.String(), Spec: "DecodeStringRequest returns", Detail: fmt.Sprintf("%q", s)})
			break
		}
		c.Eval(lines[i], strings.Contains(s, "\r\n\r\n"))
		c.Count("wspdec-cases")
		if strings.HasPrefix(impl, "err=") {
			c.Count("wspdec-" + impl)
		} else {
			c.Count("wspdec-ok")
		}
		if impl != outs[i] {
			c.Find(Finding{Kind: "corr", Class: "wsp-decode", Case: lines[i], Impl: impl, Model: outs[i], Detail: fmt.Sprintf("%q", s)})
		}
	}
}
