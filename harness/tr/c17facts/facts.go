// Package c17facts holds the RouteFacts generator shared by the C17 and C18 translators
// (C18's theorems about the route table also rest on the CanonicalPath fact).
package c17facts

import (
	"go/ast"
	"strings"

	. "verifharness/tlib"
)


// stripComments removes // comments (line by line)
func stripComments(s string) string {
	var out []string
	for _, l := range strings.Split(s, "\n") {
		if i := strings.Index(l, "//"); i >= 0 {
			l = l[:i]
		}
		out = append(out, l)
	}
	return strings.Join(out, "\n")
}

func nows(s string) string {
	return strings.Join(strings.Fields(s), "")
}

// RouteFacts: provider/route/routetable.go (Match), media/global.go (GetOrCreate)
// RegisterRouteFacts registers the generator of Gen/RouteFacts.lean
func RegisterRouteFacts() {
	Register("RouteFacts", func(e *Emitter) {
		rt := Parse("provider/route/routetable.go")
		match := FuncDecl(rt, "routetable", "Match")

		// --- how Match tests the last byte of the URL --------------------------------------
		guard, guardOK := false, false
		// --- does Match write into a copy? ---------------------------------------------------
		copiesDir, copiesDirOK := false, false
		copiesExact, copiesExactOK := false, false
		if match != nil && match.Body != nil {
			ast.Inspect(match.Body, func(n ast.Node) bool {
				ifs, ok := n.(*ast.IfStmt)
				if !ok {
					return true
				}
				// the join: if <cond> { r.URL = r.URL + path[len(r.Pattern):] } else {...}
				if len(ifs.Body.List) == 1 {
					if as, ok := ifs.Body.List[0].(*ast.AssignStmt); ok && len(as.Lhs) == 1 && nows(Src(as.Lhs[0])) == "r.URL" &&
						nows(Src(as.Rhs[0])) == "r.URL+path[len(r.Pattern):]" {
						switch nows(Src(ifs.Cond)) {
						case "r.URL[len(r.URL)-1]=='/'":
							guard, guardOK = false, true
						case `strings.HasSuffix(r.URL,"/")`, "len(r.URL)>0&&r.URL[len(r.URL)-1]=='/'":
							guard, guardOK = true, true
						}
						// the else branch must be the other slice
						if els, ok := ifs.Else.(*ast.BlockStmt); !ok || len(els.List) != 1 ||
							nows(Src(els.List[0])) != "r.URL=r.URL+path[len(r.Pattern)-1:]" {
							guardOK = false
						}
					}
				}
				// the directory branch: if r != nil { ret := *r; r = &ret; ...writes to r... }
				if nows(Src(ifs.Cond)) == "r!=nil" {
					writes, copied := false, false
					for i, st := range ifs.Body.List {
						s := nows(Src(st))
						if i == 0 && s == "ret:=*r" && len(ifs.Body.List) > 1 && nows(Src(ifs.Body.List[1])) == "r=&ret" {
							copied = true
						}
						ast.Inspect(st, func(m ast.Node) bool {
							if as, ok := m.(*ast.AssignStmt); ok {
								for _, l := range as.Lhs {
									if strings.HasPrefix(nows(Src(l)), "r.") {
										writes = true
									}
								}
							}
							return true
						})
					}
					if writes {
						copiesDir, copiesDirOK = copied, true
					}
				}
				// the exact branch: if ok { ret := *r; return &ret }
				if nows(Src(ifs.Cond)) == "ok" {
					b := ifs.Body.List
					if len(b) == 2 && nows(Src(b[0])) == "ret:=*r" && nows(Src(b[1])) == "return&ret" {
						copiesExact, copiesExactOK = true, true
					} else if len(b) == 1 && nows(Src(b[0])) == "returnr" {
						copiesExact, copiesExactOK = false, true
					}
				}
				return true
			})
		}
		if !guardOK {
			e.Unknown("Match: URL last-byte test")
		}
		if !copiesDirOK {
			e.Unknown("Match: copy before write (directory branch)")
		}
		if !copiesExactOK {
			e.Unknown("Match: copy on exact hit")
		}
		e.P("/-- provider/route/routetable.go Match: is the URL's last byte tested without indexing an empty string? -/")
		e.P("def matchUrlGuard : Bool := %s", LeanBool(guard))
		e.P("/-- Match, directory branch: `ret := *r; r = &ret` precede the writes to r.URL / r.Pattern -/")
		e.P("def matchCopies : Bool := %s", LeanBool(copiesDir))
		e.P("/-- Match, exact hit: a copy is returned, not the table's own pointer -/")
		e.P("def matchCopiesExact : Bool := %s", LeanBool(copiesExact))

		// --- Match runs under the read lock ---------------------------------------------------
		locked := false
		if match != nil && match.Body != nil && len(match.Body.List) >= 2 {
			locked = nows(Src(match.Body.List[0])) == "t.lock.RLock()" && nows(Src(match.Body.List[1])) == "defert.lock.RUnlock()"
		}
		e.P("/-- Match starts with `t.lock.RLock(); defer t.lock.RUnlock()` -/")
		e.P("def matchReadLocked : Bool := %s", LeanBool(locked))

		// --- the shape of the resolution itself -------------------------------------------------
		// Match: the trailing-slash rule comes before the exact lookup; the loop keeps the longest
		// matching pattern; pathMatch: exact comparison for a pattern without trailing '/', prefix
		// test guarded by the length otherwise.  (Expressions are compared as text.)
		slashFirst, loopKeepsLongest := false, false
		if match != nil && match.Body != nil {
			posSlash, posLookup := -1, -1
			for i, st := range match.Body.List {
				s := nows(Src(st))
				if ifs, ok := st.(*ast.IfStmt); ok && nows(Src(ifs.Cond)) == "path[len(path)-1]=='/'" &&
					len(ifs.Body.List) == 1 && nows(Src(ifs.Body.List[0])) == "returnnil" && posSlash < 0 {
					posSlash = i
				}
				if strings.HasPrefix(s, "r,ok:=t.m[path]") && posLookup < 0 {
					posLookup = i
				}
				if f, ok := st.(*ast.RangeStmt); ok && nows(Src(f.X)) == "t.m" && nows(Src(f.Key)) == "k" && nows(Src(f.Value)) == "v" {
					b := f.Body.List
					if len(b) == 2 && nows(Src(b[0])) == "if!pathMatch(k,path){continue}" && nows(Src(b[1])) == "ifr==nil||len(k)>n{n=len(k)r=v}" {
						loopKeepsLongest = true
					}
				}
			}
			slashFirst = posSlash >= 0 && posLookup > posSlash
		}
		pm := FuncDecl(rt, "", "pathMatch")
		pmBody := ""
		if pm != nil && pm.Body != nil {
			var parts []string
			for _, st := range pm.Body.List {
				parts = append(parts, nows(stripComments(Src(st))))
			}
			pmBody = strings.Join(parts, ";")
		} else {
			e.Unknown("pathMatch")
		}
		e.P("/-- Match: `if path[len(path)-1] == '/' { return nil }` stands before the lookup `t.m[path]` -/")
		e.P("def matchSlashRuleFirst : Bool := %s", LeanBool(slashFirst))
		e.P("/-- Match: `for k, v := range t.m { if !pathMatch(k, path) { continue }; if r == nil || len(k) > n { n = len(k); r = v } }` -/")
		e.P("def matchLoopKeepsLongest : Bool := %s", LeanBool(loopKeepsLongest))
		e.P("/-- pathMatch: its statements (whitespace and comments removed) -/")
		e.P("def pathMatchBody : String := %s", LeanStr(pmBody))

		// --- media.GetOrCreate: what is handed to the pull-stream factory -----------------------
		gl := Parse("media/global.go")
		goc := FuncDecl(gl, "", "GetOrCreate")
		matchArg, createArgs, canonBefore := "", "", false
		if goc != nil && goc.Body != nil {
			ast.Inspect(goc.Body, func(n ast.Node) bool {
				switch x := n.(type) {
				case *ast.AssignStmt:
					if len(x.Rhs) == 1 {
						if call, ok := x.Rhs[0].(*ast.CallExpr); ok {
							switch nows(Src(call.Fun)) {
							case "route.Match":
								if len(call.Args) == 1 && nows(Src(x.Lhs[0])) == "r" {
									matchArg = nows(Src(call.Args[0]))
								}
							case "psf.Create":
								var as []string
								for _, a := range call.Args {
									as = append(as, nows(Src(a)))
								}
								createArgs = strings.Join(as, ",")
							case "utils.CanonicalPath":
								if matchArg == "" && nows(Src(x.Lhs[0])) == "path" && len(call.Args) == 1 && nows(Src(call.Args[0])) == "path" {
									canonBefore = true
								}
							}
						}
					}
				}
				return true
			})
		}
		if goc == nil {
			e.Unknown("media.GetOrCreate")
		}
		// --- utils.CanonicalPath: one pass or iterate-until-stable ------------------------------
		pg := Parse("utils/path.go")
		cp := FuncDecl(pg, "", "CanonicalPath")
		loops, loopsOK := false, false
		if cp != nil && cp.Body != nil && len(cp.Body.List) > 0 {
			b := cp.Body.List
			first := nows(Src(b[0]))
			switch {
			case first == "p=strings.ToLower(strings.TrimSpace(p))" && FuncDecl(pg, "", "canonicalPath") == nil:
				loops, loopsOK = false, true
			case len(b) == 3 && first == "np:=canonicalPath(p)" && nows(Src(b[2])) == "returnnp":
				if f, ok := b[1].(*ast.ForStmt); ok && f.Init == nil && f.Post == nil && nows(Src(f.Cond)) == "np!=p" &&
					len(f.Body.List) == 1 && nows(Src(f.Body.List[0])) == "p,np=np,canonicalPath(np)" {
					if one := FuncDecl(pg, "", "canonicalPath"); one != nil && one.Body != nil && len(one.Body.List) > 0 &&
						nows(Src(one.Body.List[0])) == "p=strings.ToLower(strings.TrimSpace(p))" {
						loops, loopsOK = true, true
					}
				}
			}
		}
		if !loopsOK {
			e.Unknown("utils.CanonicalPath: single pass or loop")
		}
		e.P("/-- utils/path.go CanonicalPath repeats canonicalPath until the result is stable -/")
		e.P("def canonLoops : Bool := %s", LeanBool(loops))
		e.P("/-- media/global.go GetOrCreate: `r := route.Match(<arg>)` -/")
		e.P("def getOrCreateMatchArg : String := %s", LeanStr(matchArg))
		e.P("/-- … preceded by `path = utils.CanonicalPath(path)` -/")
		e.P("def getOrCreateCanonicalises : Bool := %s", LeanBool(canonBefore))
		e.P("/-- … `psf.Create(<args>)` -/")
		e.P("def getOrCreateCreateArgs : String := %s", LeanStr(createArgs))
	})
}
