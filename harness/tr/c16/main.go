package main

import (
	"go/ast"
	"strconv"
	"strings"

	. "verifharness/tlib"
)

func main() { Main() }

// skeleton renders a function body as the source-ordered list of its statements: simple
// statements as their source text, `if`/`for`/`switch`/`case` heads with their conditions, "end"
// closing every block.  Comments and layout do not matter; any other edit changes the list.
func skeleton(fd *ast.FuncDecl) []string {
	if fd == nil || fd.Body == nil {
		return nil
	}
	var out []string
	var block func(b *ast.BlockStmt)
	var stmt func(s ast.Stmt)
	one := func(n ast.Node) string { return strings.Join(strings.Fields(Src(n)), " ") }
	block = func(b *ast.BlockStmt) {
		if b == nil {
			return
		}
		for _, s := range b.List {
			stmt(s)
		}
		out = append(out, "end")
	}
	stmt = func(s ast.Stmt) {
		switch x := s.(type) {
		case *ast.IfStmt:
			h := "if "
			if x.Init != nil {
				h += one(x.Init) + "; "
			}
			out = append(out, h+one(x.Cond))
			block(x.Body)
			if x.Else != nil {
				out = append(out, "else")
				if eb, ok := x.Else.(*ast.BlockStmt); ok {
					block(eb)
				} else {
					stmt(x.Else)
				}
			}
		case *ast.ForStmt:
			h := "for "
			if x.Init != nil || x.Post != nil {
				i, p := "", ""
				if x.Init != nil {
					i = one(x.Init)
				}
				if x.Post != nil {
					p = one(x.Post)
				}
				c := ""
				if x.Cond != nil {
					c = one(x.Cond)
				}
				h += i + "; " + c + "; " + p
			} else if x.Cond != nil {
				h += one(x.Cond)
			}
			out = append(out, strings.TrimSpace(h))
			block(x.Body)
		case *ast.RangeStmt:
			k, v := "_", "_"
			if x.Key != nil {
				k = one(x.Key)
			}
			if x.Value != nil {
				v = one(x.Value)
			}
			out = append(out, "range "+k+", "+v+" "+x.Tok.String()+" "+one(x.X))
			block(x.Body)
		case *ast.SwitchStmt:
			h := "switch"
			if x.Init != nil {
				h += " " + one(x.Init) + ";"
			}
			if x.Tag != nil {
				h += " " + one(x.Tag)
			}
			out = append(out, h)
			for _, c := range x.Body.List {
				cc := c.(*ast.CaseClause)
				if cc.List == nil {
					out = append(out, "default")
				} else {
					var es []string
					for _, e := range cc.List {
						es = append(es, one(e))
					}
					out = append(out, "case "+strings.Join(es, ", "))
				}
				for _, s2 := range cc.Body {
					stmt(s2)
				}
				out = append(out, "end")
			}
			out = append(out, "end")
		case *ast.BlockStmt:
			out = append(out, "block")
			block(x)
		case *ast.EmptyStmt:
		default:
			out = append(out, one(s))
		}
	}
	block(fd.Body)
	return out
}

// relevant drops from a skeleton what C16 does not speak about — the user's name and password —
// so that a change there does not break a C16 obligation: single statements that mention them, and
// whole `if` blocks whose condition does.
func relevant(sk []string) []string {
	other := func(l string) bool {
		return strings.Contains(l, "Password") || strings.Contains(l, "u.Name") || l == "return nil"
	}
	var out []string
	for i := 0; i < len(sk); i++ {
		l := sk[i]
		if strings.HasPrefix(l, "if ") && other(l) {
			for depth := 1; depth > 0 && i+1 < len(sk); {
				i++
				switch {
				case sk[i] == "end":
					depth--
				case strings.HasPrefix(sk[i], "if "), strings.HasPrefix(sk[i], "for"), strings.HasPrefix(sk[i], "range "),
					strings.HasPrefix(sk[i], "switch"), strings.HasPrefix(sk[i], "case "), sk[i] == "default", sk[i] == "block":
					depth++
				}
			}
			continue
		}
		if other(l) {
			continue
		}
		out = append(out, l)
	}
	return out
}

func sig(fd *ast.FuncDecl) string {
	if fd == nil {
		return ""
	}
	return strings.Join(strings.Fields(Src(fd.Type)), " ")
}

// AuthFacts: provider/auth/path_matcher.go, provider/auth/user.go, utils/scan/scanner.go
func init() {
	Register("AuthFacts", func(e *Emitter) {
		pm := Parse("provider/auth/path_matcher.go")
		// var pathScanner = scan.NewScanner('/', unicode.IsSpace | nil)
		trims, delim, ok := true, "", false
		if call, isCall := TopValue(pm, "pathScanner").(*ast.CallExpr); isCall && Src(call.Fun) == "scan.NewScanner" && len(call.Args) == 2 {
			if lit, isLit := call.Args[0].(*ast.BasicLit); isLit {
				if r, err := strconv.Unquote(lit.Value); err == nil {
					delim = r
					switch Src(call.Args[1]) {
					case "nil":
						trims, ok = false, true
					case "unicode.IsSpace":
						trims, ok = true, true
					}
				}
			}
		}
		if !ok {
			e.Unknown("pathScanner")
		}
		e.P("/-- provider/auth/path_matcher.go: does `pathScanner` trim blanks off every path token? -/")
		e.P("def pathScannerTrims : Bool := %s", LeanBool(trims))
		e.P("def pathScannerDelim : String := %s", LeanStr(delim))
		for _, c := range []string{"sectionWildcard", "endWildcard"} {
			v := ""
			if lit, isLit := TopValue(pm, c).(*ast.BasicLit); isLit {
				v, _ = strconv.Unquote(lit.Value)
			} else {
				e.Unknown(c)
			}
			e.P("def %s : String := %s", c, LeanStr(v))
		}
		// scan.Semicolon = NewScanner(';', unicode.IsSpace)
		sc := Parse("utils/scan/scanner.go")
		semi := ""
		if call, isCall := TopValue(sc, "Semicolon").(*ast.CallExpr); isCall && len(call.Args) == 2 {
			semi = Src(call.Fun) + "(" + Src(call.Args[0]) + "," + Src(call.Args[1]) + ")"
		} else {
			e.Unknown("scan.Semicolon")
		}
		e.P("def semicolonScanner : String := %s", LeanStr(semi))

		// the bodies of the functions the model mirrors, statement by statement
		us := Parse("provider/auth/user.go")
		type fn struct {
			lean string
			file *ast.File
			recv string
			name string
		}
		for _, f := range []fn{
			{"NewPathMatcher", pm, "", "NewPathMatcher"},
			{"Match", pm, "pathMacher", "Match"},
			{"AlwaysMatch", pm, "alwaysMatcher", "Match"},
			{"partCount", pm, "", "partCount"},
			{"initMatchers", us, "", "initMatchers"},
			{"userInit", us, "User", "init"},
			{"ValidatePermission", us, "User", "ValidatePermission"},
			{"CopyFrom", us, "User", "CopyFrom"},
			{"Scan", sc, "Scanner", "Scan"},
			{"NewScanner", sc, "", "NewScanner"},
		} {
			fd := FuncDecl(f.file, f.recv, f.name)
			if fd == nil {
				e.Unknown("func " + f.lean)
			}
			e.P("/-- %s %s -/", f.name, sig(fd))
			sk := skeleton(fd)
			if f.lean == "userInit" || f.lean == "CopyFrom" {
				sk = relevant(sk)
			}
			e.P("def pmSkel_%s : List String := %s", f.lean, LeanStrList(sk))
		}
		// the two right constants: PullRight = 1 << iota, PushRight
		rights := ""
		if us != nil {
			for _, d := range us.Decls {
				g, isGen := d.(*ast.GenDecl)
				if !isGen {
					continue
				}
				for _, s := range g.Specs {
					vs, isVal := s.(*ast.ValueSpec)
					if !isVal || len(vs.Names) == 0 {
						continue
					}
					if n := vs.Names[0].Name; n == "PullRight" || n == "PushRight" {
						rights += n
						if vs.Type != nil {
							rights += " " + Src(vs.Type)
						}
						for _, v := range vs.Values {
							rights += " = " + strings.Join(strings.Fields(Src(v)), " ")
						}
						rights += ";"
					}
				}
			}
		}
		if rights == "" {
			e.Unknown("AccessRight constants")
		}
		e.P("def accessRights : String := %s", LeanStr(rights))
	})
}
