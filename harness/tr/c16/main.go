package main

import (
	"go/ast"
	"strconv"

	. "verifharness/tlib"
)

func main() { Main() }

// AuthFacts: provider/auth/path_matcher.go, utils/scan/scanner.go
func init() {
	Register("AuthFacts", func(e *Emitter) {
		pm := Parse("provider/auth/path_matcher.go")
		// var pathScanner = scan.NewScanner('/', unicode.IsSpace | nil)
		trims, delim, ok := true, "", false
		if call, isCall := TopValue(pm, "pathScanner").(*ast.CallExpr); isCall && Src(call.Fun) == "scan.NewScanner" && len(call.Args) == 2 {
			if lit, isLit := call.Args[0].(*ast.BasicLit); isLit {
				if r, err := strconv.Unquote(lit.Value); err == nil {
					delim = r
					switch Src(call.Args[1]) {
					case "nil":
						trims, ok = false, true
					case "unicode.IsSpace":
						trims, ok = true, true
					}
				}
			}
		}
		if !ok {
			e.Unknown("pathScanner")
		}
		e.P("/-- provider/auth/path_matcher.go: does `pathScanner` trim blanks off every path token? -/")
		e.P("def pathScannerTrims : Bool := %s", LeanBool(trims))
		e.P("def pathScannerDelim : String := %s", LeanStr(delim))
		for _, c := range []string{"sectionWildcard", "endWildcard"} {
			v := ""
			if lit, isLit := TopValue(pm, c).(*ast.BasicLit); isLit {
				v, _ = strconv.Unquote(lit.Value)
			} else {
				e.Unknown(c)
			}
			e.P("def %s : String := %s", c, LeanStr(v))
		}
		// scan.Semicolon = NewScanner(';', unicode.IsSpace)
		sc := Parse("utils/scan/scanner.go")
		semi := ""
		if call, isCall := TopValue(sc, "Semicolon").(*ast.CallExpr); isCall && len(call.Args) == 2 {
			semi = Src(call.Args[0]) + "," + Src(call.Args[1])
		} else {
			e.Unknown("scan.Semicolon")
		}
		e.P("def semicolonScanner : String := %s", LeanStr(semi))
	})
}
