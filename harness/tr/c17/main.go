package main

import (
	"verifharness/tlib"
	"verifharness/tr/c17facts"
)

// RouteFacts: provider/route/routetable.go (Match), utils/path.go (CanonicalPath), media/global.go (GetOrCreate)
func main() {
	c17facts.RegisterRouteFacts()
	tlib.Main()
}
