package main

import (
	"go/ast"
	"go/token"
	"strings"

	. "verifharness/tlib"
)

func main() { Main() }

// ---- helpers (go/ast only) ----

// calls returns, in source order, the tracked calls inside n; a call in a defer statement is
// prefixed "defer ", a call in a go statement "go ".  Tracking is by the printed callee.
func calls(n ast.Node, tracked func(string) bool) []string {
	var out []string
	pre := map[*ast.CallExpr]string{}
	ast.Inspect(n, func(x ast.Node) bool {
		switch v := x.(type) {
		case *ast.DeferStmt:
			pre[v.Call] = "defer "
		case *ast.GoStmt:
			pre[v.Call] = "go "
		case *ast.CallExpr:
			name := Src(v.Fun)
			if tracked(name) {
				args := make([]string, len(v.Args))
				for i, a := range v.Args {
					args[i] = Src(a)
				}
				out = append(out, pre[v]+name+"("+strings.Join(args, ", ")+")")
			}
		}
		return true
	})
	return out
}

func oneOf(names ...string) func(string) bool {
	return func(s string) bool {
		for _, n := range names {
			if s == n || strings.HasSuffix(s, "."+n) {
				return true
			}
		}
		return false
	}
}

// ifConds returns the printed conditions of every if statement in n, in source order
func ifConds(n ast.Node) []string {
	var out []string
	ast.Inspect(n, func(x ast.Node) bool {
		if v, ok := x.(*ast.IfStmt); ok {
			out = append(out, Src(v.Cond))
		}
		return true
	})
	return out
}

// guardOf returns the conditions of the if statements enclosing the first call whose printed
// callee satisfies tracked (outermost first); "else" branches are marked "!(" cond ")".
func guardOf(body ast.Node, tracked func(string) bool) ([]string, bool) {
	var res []string
	found := false
	var walk func(n ast.Node, guards []string)
	walk = func(n ast.Node, guards []string) {
		if n == nil || found {
			return
		}
		switch v := n.(type) {
		case *ast.IfStmt:
			if v.Init != nil {
				walk(v.Init, guards)
			}
			walk(v.Cond, guards)
			g := append(append([]string{}, guards...), Src(v.Cond))
			walk(v.Body, g)
			if v.Else != nil {
				g2 := append(append([]string{}, guards...), "!("+Src(v.Cond)+")")
				walk(v.Else, g2)
			}
			return
		case *ast.CallExpr:
			if tracked(Src(v.Fun)) {
				res, found = guards, true
				return
			}
		}
		ast.Inspect(n, func(x ast.Node) bool {
			if x == nil || x == n || found {
				return x == n
			}
			walk(x, guards)
			return false
		})
	}
	walk(body, nil)
	return res, found
}

func body(f *ast.File, recv, name string) *ast.BlockStmt {
	fd := FuncDecl(f, recv, name)
	if fd == nil {
		return nil
	}
	return fd.Body
}

func emitList(e *Emitter, name, doc string, v []string) {
	e.P("/-- %s -/", doc)
	e.P("def %s : List String := %s", name, LeanStrList(v))
}

func init() {
	Register("RegistryFacts", func(e *Emitter) {
		g := Parse("media/global.go")
		tracked := oneOf("Lock", "Unlock", "RLock", "RUnlock", "Load", "Store", "Delete", "LoadOrStore", "LoadAndDelete",
			"ConsumerCount", "Count", "close", "Close", "runZeroConsumersCloseTask", "CanonicalPath")
		for _, fn := range []struct{ lean, name, doc string }{
			{"registCalls", "Regist", "media.Regist: tracked calls in source order"},
			{"unregistCalls", "Unregist", "media.Unregist: tracked calls in source order"},
			{"getCalls", "Get", "media.Get: tracked calls in source order"},
		} {
			b := body(g, "", fn.name)
			if b == nil {
				e.Unknown(fn.name)
				emitList(e, fn.lean, fn.doc, nil)
				emitList(e, fn.lean+"Conds", "its if conditions in source order", nil)
				continue
			}
			emitList(e, fn.lean, fn.doc, calls(b, tracked))
			emitList(e, fn.lean+"Conds", "its if conditions in source order", ifConds(b))
		}
		// guards of the interesting calls
		type gq struct{ lean, fn, callee, doc string }
		for _, q := range []gq{
			{"registCloseGuard", "Regist", "close", "conditions under which Regist closes the old stream at once"},
			{"registTaskGuard", "Regist", "runZeroConsumersCloseTask", "conditions under which Regist posts the deferred close of the old stream"},
			{"registStoreGuard", "Regist", "Store", "conditions enclosing streams.Store in Regist (none expected: the early return is a separate if)"},
			{"unregistDeleteGuard", "Unregist", "Delete", "conditions under which Unregist deletes the registry entry"},
			{"unregistCloseGuard", "Unregist", "Close", "conditions enclosing s.Close() in Unregist (none expected)"},
		} {
			b := body(g, "", q.fn)
			var gs []string
			ok := false
			if b != nil {
				gs, ok = guardOf(b, oneOf(q.callee))
			}
			if !ok {
				e.Unknown(q.lean)
			}
			emitList(e, q.lean, q.doc, gs)
		}
		// Count / Infos: what the Range callbacks do
		for _, fn := range []struct{ lean, name string }{{"count", "Count"}, {"infos", "Infos"}} {
			b := body(g, "", fn.name)
			if b == nil {
				e.Unknown(fn.name)
				emitList(e, fn.lean+"Conds", "if conditions", nil)
				continue
			}
			emitList(e, fn.lean+"Conds", "media."+fn.name+": if conditions in source order", ifConds(b))
		}
		// GetOrCreate: the idle task for non-keepalive routes
		if b := body(g, "", "GetOrCreate"); b != nil {
			gs, ok := guardOf(b, oneOf("runZeroConsumersCloseTask"))
			if !ok {
				e.Unknown("getOrCreateTaskGuard")
			}
			emitList(e, "getOrCreateTaskGuard", "GetOrCreate: conditions under which the idle-close task is posted", gs)
			emitList(e, "getOrCreateCalls", "GetOrCreate: tracked calls", calls(b, oneOf("Get", "Match", "Can", "Create", "runZeroConsumersCloseTask", "CanonicalPath")))
		} else {
			e.Unknown("GetOrCreate")
			emitList(e, "getOrCreateTaskGuard", "", nil)
			emitList(e, "getOrCreateCalls", "", nil)
		}
		// runZeroConsumersCloseTask: the composite literal fields
		period, fields := "", []string{}
		if b := body(g, "", "runZeroConsumersCloseTask"); b != nil {
			ast.Inspect(b, func(x ast.Node) bool {
				if cl, ok := x.(*ast.CompositeLit); ok && strings.Contains(Src(cl.Type), "runZeroConsumersClose") {
					for _, el := range cl.Elts {
						if kv, ok := el.(*ast.KeyValueExpr); ok {
							fields = append(fields, Src(kv.Key)+"="+Src(kv.Value))
							if Src(kv.Key) == "d" {
								period = Src(kv.Value)
							}
						}
					}
				}
				return true
			})
		}
		if period == "" {
			e.Unknown("idlePeriod")
		}
		e.P("/-- runZeroConsumersCloseTask: the period expression -/")
		e.P("def idlePeriod : String := %s", LeanStr(period))
		emitList(e, "idleTaskFields", "runZeroConsumersCloseTask: fields of the task literal", fields)
		// run(): its two conditions and what it does inside
		rb := body(g, "runZeroConsumersClose", "run")
		var rc []string
		if rb != nil {
			rc = ifConds(rb)
		}
		if len(rc) != 2 {
			e.Unknown("idleRunConds")
		}
		emitList(e, "idleRunConds", "runZeroConsumersClose.run: if conditions, outer first", rc)
		var rcalls, rassign []string
		if rb != nil {
			rcalls = calls(rb, oneOf("close", "Close"))
			ast.Inspect(rb, func(x ast.Node) bool {
				if as, ok := x.(*ast.AssignStmt); ok {
					rassign = append(rassign, Src(as.Lhs[0])+" "+as.Tok.String()+" "+Src(as.Rhs[0]))
				}
				return true
			})
		}
		emitList(e, "idleRunCalls", "run: close calls", rcalls)
		emitList(e, "idleRunAssigns", "run: assignments in source order", rassign)
		// Next(): finished when closed
		nb := body(g, "runZeroConsumersClose", "Next")
		var nc []string
		if nb != nil {
			nc = ifConds(nb)
		}
		emitList(e, "idleNextConds", "runZeroConsumersClose.Next: if conditions", nc)
		// derived booleans, fail-closed
		idleFlv, idleNil, lookup := false, false, false
		if len(rc) == 2 {
			switch rc[0] {
			case "r.s.ConsumerCount() <= 0":
				idleFlv = true
			case "r.s.consumptions.Count() <= 0":
				idleFlv = false
			default:
				e.Unknown("idleCountsFlv")
			}
			switch {
			case strings.HasPrefix(rc[1], "pl == nil || ") && containsAssign(rassign, "pl := r.s.hlsPlaylist"):
				idleNil = true
			case strings.HasPrefix(rc[1], "hlsable == nil || ") && containsAssign(rassign, "hlsable := r.s.Hlsable()"):
				idleNil = false
			default:
				e.Unknown("idleNilSafe")
			}
		}
		// lookupSkipsClosed: Get, Count and Infos all test the status
		const okTest = "atomic.LoadInt32(&s.status) == StreamOK"
		const skipTest = "atomic.LoadInt32(&s.status) != StreamOK"
		has := func(fn string, want ...string) bool {
			b := body(g, "", fn)
			if b == nil {
				return false
			}
			for _, c := range ifConds(b) {
				for _, w := range want {
					if c == w {
						return true
					}
				}
			}
			return false
		}
		a, b2, c := has("Get", okTest), has("Count", skipTest, okTest), has("Infos", skipTest, okTest)
		switch {
		case a && b2 && c:
			lookup = true
		case !a && !b2 && !c:
			lookup = false
		default:
			e.Unknown("lookupSkipsClosed")
		}
		e.P("/-- run() counts the consumers of both tables -/")
		e.P("def idleCountsFlv : Bool := %s", LeanBool(idleFlv))
		e.P("/-- run() tests the playlist pointer, not the never-nil interface value -/")
		e.P("def idleNilSafe : Bool := %s", LeanBool(idleNil))
		e.P("/-- Get, Count and Infos skip streams whose status is not StreamOK -/")
		e.P("def lookupSkipsClosed : Bool := %s", LeanBool(lookup))
		// is the whole body of Regist / Unregist inside registLock?
		locked := func(fn string) bool {
			b := body(g, "", fn)
			if b == nil || len(b.List) < 2 {
				return false
			}
			first, ok1 := b.List[0].(*ast.ExprStmt)
			second, ok2 := b.List[1].(*ast.DeferStmt)
			return ok1 && ok2 && Src(first.X) == "registLock.Lock()" && Src(second.Call) == "registLock.Unlock()"
		}
		e.P("/-- the whole body of Regist runs under registLock (Lock(); defer Unlock() are its first two statements) -/")
		e.P("def registLocked : Bool := %s", LeanBool(locked("Regist")))
		e.P("def unregistLocked : Bool := %s", LeanBool(locked("Unregist")))
		// registLock is a package-level sync.Mutex
		isMutex := false
		if g != nil {
			for _, d := range g.Decls {
				if gd, ok := d.(*ast.GenDecl); ok && gd.Tok == token.VAR {
					for _, s := range gd.Specs {
						vs := s.(*ast.ValueSpec)
						for _, n := range vs.Names {
							if n.Name == "registLock" && Src(vs.Type) == "sync.Mutex" {
								isMutex = true
							}
						}
					}
				}
			}
		}
		e.P("def registLockIsMutex : Bool := %s", LeanBool(isMutex))

		// utils/path.go: the one-pass body (canonicalPath) and the fixed-point loop (CanonicalPath)
		pf := Parse("utils/path.go")
		var pc, pconds, passign []string
		if b := body(pf, "", "canonicalPath"); b != nil {
			pc = calls(b, oneOf("ToLower", "TrimSpace", "Clean", "HasPrefix"))
			pconds = ifConds(b)
			passign = stmts(b)
		} else {
			e.Unknown("canonicalPath")
		}
		emitList(e, "canonCalls", "utils.canonicalPath (one pass): tracked calls", pc)
		emitList(e, "canonConds", "utils.canonicalPath: if conditions", pconds)
		emitList(e, "canonStmts", "utils.canonicalPath: assignments and returns in source order", passign)
		var loopStmts []string
		loopCond := ""
		if b := body(pf, "", "CanonicalPath"); b != nil {
			loopStmts = stmts(b)
			ast.Inspect(b, func(x ast.Node) bool {
				if f, ok := x.(*ast.ForStmt); ok && f.Init == nil && f.Post == nil {
					loopCond = Src(f.Cond)
				}
				return true
			})
		} else {
			e.Unknown("CanonicalPath")
		}
		emitList(e, "canonLoopStmts", "utils.CanonicalPath: assignments and returns in source order", loopStmts)
		e.P("/-- utils.CanonicalPath: the condition of its for loop -/")
		e.P("def canonLoopCond : String := %s", LeanStr(loopCond))

		// media/stream.go: NewStream canonicalises; close's status mapping; ConsumerCount
		sf := Parse("media/stream.go")
		var nsPath string
		if b := body(sf, "", "NewStream"); b != nil {
			ast.Inspect(b, func(x ast.Node) bool {
				if kv, ok := x.(*ast.KeyValueExpr); ok && Src(kv.Key) == "path" {
					nsPath = Src(kv.Value)
				}
				return true
			})
		}
		if nsPath == "" {
			e.Unknown("newStreamPath")
		}
		e.P("/-- NewStream: the initialiser of Stream.path -/")
		e.P("def newStreamPath : String := %s", LeanStr(nsPath))
		cc := ""
		if b := body(sf, "Stream", "ConsumerCount"); b != nil && len(b.List) == 1 {
			if r, ok := b.List[0].(*ast.ReturnStmt); ok && len(r.Results) == 1 {
				cc = Src(r.Results[0])
			}
		}
		if cc == "" {
			e.Unknown("consumerCountExpr")
		}
		e.P("/-- Stream.ConsumerCount: the returned expression -/")
		e.P("def consumerCountExpr : String := %s", LeanStr(cc))
		var closeConds []string
		if b := body(sf, "Stream", "close"); b != nil {
			closeConds = ifConds(b)
		} else {
			e.Unknown("Stream.close")
		}
		emitList(e, "streamCloseConds", "Stream.close: if conditions in source order", closeConds)

		// service/apis.go onStopStream
		af := Parse("service/apis.go")
		var sc []string
		if b := body(af, "Service", "onStopStream"); b != nil {
			sc = calls(b, oneOf("Get", "Close", "Unregist", "close"))
		} else {
			e.Unknown("onStopStream")
		}
		emitList(e, "stopStreamCalls", "service.onStopStream: tracked calls", sc)
		// onGetStreamInfo: the stream found by Get reports itself
		var gi []string
		if b := body(af, "Service", "onGetStreamInfo"); b != nil {
			gi = calls(b, func(n string) bool { return n == "media.Get" || strings.HasSuffix(n, ".Info") })
		} else {
			e.Unknown("onGetStreamInfo")
		}
		emitList(e, "getStreamInfoCalls", "service.onGetStreamInfo: tracked calls", gi)
		// Stream.Info: the path and the consumer count it reports
		var sif []string
		if b := body(sf, "Stream", "Info"); b != nil {
			ast.Inspect(b, func(x ast.Node) bool {
				if cl, ok := x.(*ast.CompositeLit); ok && Src(cl.Type) == "StreamInfo" {
					for _, el := range cl.Elts {
						if kv, ok := el.(*ast.KeyValueExpr); ok && (Src(kv.Key) == "Path" || Src(kv.Key) == "ConsumptionCount") {
							sif = append(sif, Src(kv.Key)+"="+Src(kv.Value))
						}
					}
				}
				return true
			})
		}
		if len(sif) != 2 {
			e.Unknown("streamInfoFields")
		}
		emitList(e, "streamInfoFields", "Stream.Info: the Path and ConsumptionCount fields of the StreamInfo literal", sif)
		// Infos: sorted by path, cut to the page size
		var isort, iret []string
		if b := body(g, "", "Infos"); b != nil {
			ast.Inspect(b, func(x ast.Node) bool {
				switch v := x.(type) {
				case *ast.CallExpr:
					if Src(v.Fun) == "sort.Slice" && len(v.Args) == 2 {
						isort = append(isort, "sort.Slice")
						if fl, ok := v.Args[1].(*ast.FuncLit); ok && len(fl.Body.List) == 1 {
							if r, ok := fl.Body.List[0].(*ast.ReturnStmt); ok && len(r.Results) == 1 {
								isort = append(isort, Src(r.Results[0]))
							}
						}
					}
				case *ast.ReturnStmt:
					if len(v.Results) == 2 {
						iret = append(iret, Src(v.Results[0])+", "+Src(v.Results[1]))
					}
				}
				return true
			})
		} else {
			e.Unknown("Infos")
		}
		// (the return inside the sort.Slice literal has one result and is not collected; Range callbacks return one value)
		emitList(e, "infosSort", "media.Infos: the sort call and its less expression", isort)
		emitList(e, "infosReturns", "media.Infos: the two-valued return statements", iret)
		// UnregistAll (shutdown): every entry is deleted and its stream closed
		var ua []string
		if b := body(g, "", "UnregistAll"); b != nil {
			ua = calls(b, oneOf("Range", "Delete", "Close"))
			for i, c := range ua { // the Range argument is the whole callback: keep the callee only
				if strings.HasPrefix(c, "streams.Range(") {
					ua[i] = "streams.Range"
				}
			}
		} else {
			e.Unknown("UnregistAll")
		}
		emitList(e, "unregistAllCalls", "media.UnregistAll: tracked calls", ua)
	})
}

// stmts: assignments (all left/right sides) and returns of n in source order
func stmts(n ast.Node) []string {
	var out []string
	ast.Inspect(n, func(x ast.Node) bool {
		if as, ok := x.(*ast.AssignStmt); ok {
			l := make([]string, len(as.Lhs))
			for i, v := range as.Lhs {
				l[i] = Src(v)
			}
			r := make([]string, len(as.Rhs))
			for i, v := range as.Rhs {
				r[i] = Src(v)
			}
			out = append(out, strings.Join(l, ", ")+" "+as.Tok.String()+" "+strings.Join(r, ", "))
		}
		if r, ok := x.(*ast.ReturnStmt); ok && len(r.Results) == 1 {
			out = append(out, "return "+Src(r.Results[0]))
		}
		return true
	})
	return out
}

func containsAssign(as []string, want string) bool {
	for _, a := range as {
		if a == want {
			return true
		}
	}
	return false
}
