package main

import (
	"fmt"
	"go/ast"
	"strconv"
	"strings"

	. "verifharness/tlib"
	"verifharness/tr/c17facts"
)

func main() {
	c17facts.RegisterRouteFacts() // the route-table theorems of C18 rest on the CanonicalPath fact too
	Main()
}

func nows(s string) string { return strings.Join(strings.Fields(s), "") }

// TableFacts: utils/io.go (EncodeJSONFile), provider/auth/{manager,json}.go, provider/route/{routetable,json}.go
func init() {
	Register("TableFacts", func(e *Emitter) {
		// ---------- the file-system program of EncodeJSONFile (success path, in source order) ----------
		io := Parse("utils/io.go")
		enc := FuncDecl(io, "", "EncodeJSONFile")
		var prog []string
		files := map[string]string{} // Go variable → "target" | "temp"
		names := map[string]string{"path": "target"}
		progOK := enc != nil && enc.Body != nil
		var call func(c *ast.CallExpr, deferred bool)
		call = func(c *ast.CallExpr, deferred bool) {
			fun := nows(Src(c.Fun))
			switch {
			case fun == "os.OpenFile" && len(c.Args) == 3:
				nm, ok := names[nows(Src(c.Args[0]))]
				fl := nows(Src(c.Args[1]))
				if !ok || !strings.Contains(fl, "os.O_TRUNC") || !strings.Contains(fl, "os.O_CREATE") || !strings.Contains(fl, "os.O_WRONLY") {
					progOK = false
					e.Unknown("EncodeJSONFile: os.OpenFile(" + Src(c.Args[0]) + ", " + Src(c.Args[1]) + ")")
					return
				}
				prog = append(prog, "openTrunc "+nm)
			case fun == "os.Rename" && len(c.Args) == 2:
				a, ok1 := names[nows(Src(c.Args[0]))]
				b, ok2 := names[nows(Src(c.Args[1]))]
				if !ok1 || !ok2 {
					progOK = false
					e.Unknown("EncodeJSONFile: os.Rename arguments")
					return
				}
				prog = append(prog, "rename "+a+" "+b)
			case fun == "verifIOPoint" && len(c.Args) >= 1:
				if lit, ok := c.Args[0].(*ast.BasicLit); ok {
					s, _ := strconv.Unquote(lit.Value)
					prog = append(prog, "hook "+s)
				}
			case fun == "json.Marshal" || fun == "json.Indent" || fun == "json.MarshalIndent":
				if len(prog) == 0 || prog[len(prog)-1] != "marshal" {
					prog = append(prog, "marshal")
				}
			case strings.HasPrefix(fun, "os.") || strings.HasPrefix(fun, "ioutil.") || strings.HasPrefix(fun, "syscall."):
				progOK = false
				e.Unknown("EncodeJSONFile: unrecognised file-system call " + fun)
			default:
				if sel, ok := c.Fun.(*ast.SelectorExpr); ok {
					if id, ok := sel.X.(*ast.Ident); ok {
						if nm, isFile := files[id.Name]; isFile {
							switch sel.Sel.Name {
							case "Write":
								prog = append(prog, "write "+nm)
							case "Sync":
								prog = append(prog, "sync "+nm)
							case "Close":
								if !deferred {
									prog = append(prog, "close "+nm)
								}
							case "Name", "Bytes":
							default:
								progOK = false
								e.Unknown("EncodeJSONFile: unrecognised method on the file: " + sel.Sel.Name)
							}
						}
					}
				}
			}
		}
		// an expression on the success path: visit the calls in it (arguments first)
		var visit func(n ast.Node)
		visit = func(n ast.Node) {
			ast.Inspect(n, func(m ast.Node) bool {
				if c, ok := m.(*ast.CallExpr); ok {
					for _, a := range c.Args {
						visit(a)
					}
					call(c, false)
					return false
				}
				return true
			})
		}
		if progOK {
			for _, st := range enc.Body.List {
				switch x := st.(type) {
				case *ast.AssignStmt:
					// f, err := os.OpenFile(path, …)   /   tmp := path + ".tmp"
					if len(x.Rhs) == 1 {
						if c, ok := x.Rhs[0].(*ast.CallExpr); ok && nows(Src(c.Fun)) == "os.OpenFile" && len(c.Args) == 3 {
							if id, ok := x.Lhs[0].(*ast.Ident); ok {
								if nm, ok := names[nows(Src(c.Args[0]))]; ok {
									files[id.Name] = nm
								}
							}
						}
						if id, ok := x.Lhs[0].(*ast.Ident); ok && nows(Src(x.Rhs[0])) == `path+".tmp"` {
							names[id.Name] = "temp"
						}
					}
					for _, r := range x.Rhs {
						visit(r)
					}
				case *ast.IfStmt:
					// if err := X; err != nil { …error path, not followed… }   /   if err != nil { … }
					if x.Init != nil {
						visit(x.Init)
					}
					if c := nows(Src(x.Cond)); c != "err!=nil" {
						progOK = false
						e.Unknown("EncodeJSONFile: unrecognised condition " + Src(x.Cond))
					}
				case *ast.ExprStmt:
					visit(x.X)
				case *ast.DeferStmt:
					call(x.Call, true)
				case *ast.DeclStmt, *ast.ReturnStmt:
				default:
					progOK = false
					e.Unknown(fmt.Sprintf("EncodeJSONFile: unrecognised statement %T", st))
				}
			}
		}
		if enc == nil {
			e.Unknown("utils.EncodeJSONFile")
		}
		e.P("/-- utils/io.go EncodeJSONFile: its file-system operations and crash points on the success path, in source order -/")
		var triples []string
		for _, o := range prog {
			f := strings.Fields(o)
			for len(f) < 3 {
				f = append(f, "")
			}
			triples = append(triples, fmt.Sprintf("(%s, %s, %s)", LeanStr(f[0]), LeanStr(f[1]), LeanStr(f[2])))
		}
		e.P("def encodeJSONFileProg : List (String × String × String) := [%s]", strings.Join(triples, ", "))

		// ---------- the two tables ----------
		type tbl struct{ file, recv, v, lean string }
		for _, t := range []tbl{{"provider/auth/manager.go", "manager", "m", "manager"}, {"provider/route/routetable.go", "routetable", "t", "routetable"}} {
			f := Parse(t.file)
			fl := FuncDecl(f, t.recv, "Flush")
			guard, guardOK, passesFull, clears := false, false, false, 0
			// positions of: the provider call, the `if err != nil { return err }` behind it, the two clears
			posCall, posErr, posClear := -1, -1, -1
			if fl != nil && fl.Body != nil {
				guardOK = true
				for si, st := range fl.Body.List {
					if ifs, ok := st.(*ast.IfStmt); ok && ifs.Init == nil && nows(Src(ifs.Cond)) == "err!=nil" &&
						len(ifs.Body.List) == 1 && nows(Src(ifs.Body.List[0])) == "returnerr" && posErr < 0 {
						posErr = si
					}
					if ifs, ok := st.(*ast.IfStmt); ok && ifs.Init == nil {
						c := nows(Src(ifs.Cond))
						if c == fmt.Sprintf("len(%s.saves)+len(%s.removes)==0", t.v, t.v) && len(ifs.Body.List) == 1 && nows(Src(ifs.Body.List[0])) == "returnnil" {
							guard = true
						} else if c != "err!=nil" {
							guardOK = false // some other early return
						}
					}
					s := nows(Src(st))
					if s == fmt.Sprintf("err:=%s.provider.Flush(%s.l,%s.saves,%s.removes)", t.v, t.v, t.v, t.v) {
						passesFull = true
						posCall = si
					}
					if s == fmt.Sprintf("%s.saves=%s.saves[:0]", t.v, t.v) || s == fmt.Sprintf("%s.removes=%s.removes[:0]", t.v, t.v) {
						clears++
						if posClear < 0 {
							posClear = si
						}
					}
				}
			}
			// the order matters: the change lists are cleared only after the provider has succeeded
			// (a failed flush must leave them for the next one)
			if !(posCall >= 0 && posErr == posCall+1 && posClear > posErr) {
				passesFull = false
			}
			if !guardOK {
				e.Unknown(t.recv + ".Flush guard")
			}
			e.P("/-- %s Flush returns early when `len(saves)+len(removes) == 0` -/", t.file)
			e.P("def %sFlushGuard : Bool := %s", t.lean, LeanBool(guard))
			e.P("/-- … hands the full list to the provider, returns its error at once, and only then clears both change lists -/")
			e.P("def %sFlushPassesFull : Bool := %s", t.lean, LeanBool(passesFull && clears == 2))
			// locks: every method starts with Lock/RLock + deferred unlock and has no other lock/unlock in its body
			var locks []string
			for _, m := range []string{"Reset", "Get", "Del", "Save", "Flush", "All", "Match"} {
				fd := FuncDecl(f, t.recv, m)
				if fd == nil || fd.Body == nil {
					continue
				}
				kind := "none"
				if len(fd.Body.List) >= 2 {
					a, b := nows(Src(fd.Body.List[0])), nows(Src(fd.Body.List[1]))
					switch {
					case a == t.v+".lock.Lock()" && b == "defer"+t.v+".lock.Unlock()":
						kind = "Lock"
					case a == t.v+".lock.RLock()" && b == "defer"+t.v+".lock.RUnlock()":
						kind = "RLock"
					}
				}
				// … and holds it to the end: the lock is not touched anywhere else in the body (a method that
				// unlocks in the middle — say, around the provider's I/O — and locks again does not "hold" it)
				if kind != "none" && strings.Count(nows(Src(fd.Body)), "."+"lock.") != 2 {
					kind = "partly"
				}
				locks = append(locks, m+":"+kind)
			}
			e.P("/-- how each method of %s takes the table lock -/", t.recv)
			e.P("def %sLocks : List String := %s", t.lean, LeanStrList(locks))
		}

		// ---------- the JSON providers ----------
		for _, t := range []struct{ file, lean string }{{"provider/auth/json.go", "userJson"}, {"provider/route/json.go", "routeJson"}} {
			f := Parse(t.file)
			fl := FuncDecl(f, "jsonProvider", "Flush")
			ok := fl != nil && fl.Body != nil && len(fl.Body.List) == 1 && nows(Src(fl.Body.List[0])) == "returnutils.EncodeJSONFile(p.filePath,full)"
			e.P("/-- %s jsonProvider.Flush is `return utils.EncodeJSONFile(p.filePath, full)` -/", t.file)
			e.P("def %sFlushWritesFull : Bool := %s", t.lean, LeanBool(ok))
			// LoadAll: what a missing file yields
			la := FuncDecl(f, "jsonProvider", "LoadAll")
			missing := ""
			if la != nil && la.Body != nil {
				ast.Inspect(la.Body, func(n ast.Node) bool {
					if ifs, ok := n.(*ast.IfStmt); ok && nows(Src(ifs.Cond)) == "os.IsNotExist(err)" && len(ifs.Body.List) == 1 {
						if r, ok := ifs.Body.List[0].(*ast.ReturnStmt); ok && len(r.Results) == 2 && nows(Src(r.Results[1])) == "nil" {
							missing = nows(Src(r.Results[0]))
						}
					}
					return true
				})
			}
			if missing == "" {
				e.Unknown(t.file + " LoadAll: result for a missing file")
			}
			e.P("/-- … LoadAll of a missing file returns this (whitespace removed) -/")
			e.P("def %sMissingFile : String := %s", t.lean, LeanStr(missing))
		}
	})
}
