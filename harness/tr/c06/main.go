// Translator of property C06: facts of av/format/rtp (depacketizers, sync clock, demuxer).
package main

import (
	"verifharness/tlib"
	"verifharness/tr/depackfacts"
)

func main() {
	depackfacts.Register()
	tlib.Main()
}
