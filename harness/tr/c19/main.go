// Translator for C19: facts about the port multiplexer, re-extracted from /repo on every run.
package main

import (
	"go/ast"
	"go/token"
	"strconv"
	"strings"

	. "verifharness/tlib"
)

func main() { Main() }

// constString resolves an identifier / selector to a string constant:
// service/rtsp/types.go `MethodX = rtsp.MethodX` → av/format/rtsp/request.go `MethodX = "X"`.
func constString(e ast.Expr, files ...*ast.File) (string, bool) {
	switch v := e.(type) {
	case *ast.BasicLit:
		if v.Kind == token.STRING {
			s, err := strconv.Unquote(v.Value)
			return s, err == nil
		}
	case *ast.Ident:
		for _, f := range files {
			if x := TopValue(f, v.Name); x != nil {
				return constString(x, files...)
			}
		}
	case *ast.SelectorExpr:
		// rtsp.MethodX: look the selector name up in the remaining files
		for _, f := range files {
			if x := TopValue(f, v.Sel.Name); x != nil {
				if _, self := x.(*ast.SelectorExpr); self {
					continue
				}
				return constString(x, files...)
			}
		}
	}
	return "", false
}

func init() {
	Register("MuxFacts", func(e *Emitter) {
		mt := Parse("network/socket/listener/matcher.go")
		ls := Parse("network/socket/listener/listener.go")
		rt := Parse("service/rtsp/rtsp.go")
		ty := Parse("service/rtsp/types.go")
		rq := Parse("av/format/rtsp/request.go")
		sv := Parse("service/service.go")

		// --- defaultHTTPMethods
		var httpMethods []string
		if cl, ok := TopValue(mt, "defaultHTTPMethods").(*ast.CompositeLit); ok {
			for _, el := range cl.Elts {
				if s, ok := constString(el); ok {
					httpMethods = append(httpMethods, s)
				} else {
					e.Unknown("defaultHTTPMethods element " + Src(el))
				}
			}
		} else {
			e.Unknown("defaultHTTPMethods")
		}
		e.P("/-- network/socket/listener/matcher.go `defaultHTTPMethods` -/")
		e.P("def defaultHTTPMethods : List String := %s", LeanStrList(httpMethods))

		// --- MatchHTTP: MatchPrefix(append(defaultHTTPMethods, extMethods...)...)
		okHTTP := false
		if fd := FuncDecl(mt, "", "MatchHTTP"); fd != nil && fd.Body != nil && len(fd.Body.List) == 1 {
			if r, ok := fd.Body.List[0].(*ast.ReturnStmt); ok && len(r.Results) == 1 {
				okHTTP = Src(r.Results[0]) == "MatchPrefix(append(defaultHTTPMethods, extMethods...)...)"
			}
		}
		if !okHTTP {
			e.Unknown("MatchHTTP body")
		}
		// --- MatchPrefix: newPatriciaTreeString(strs...) ; return pt.matchPrefix
		okMP := false
		if fd := FuncDecl(mt, "", "MatchPrefix"); fd != nil && fd.Body != nil && len(fd.Body.List) == 2 {
			okMP = Src(fd.Body.List[0]) == "pt := newPatriciaTreeString(strs...)" && Src(fd.Body.List[1]) == "return pt.matchPrefix"
		}
		if !okMP {
			e.Unknown("MatchPrefix body")
		}
		e.P("/-- `MatchPrefix` builds the tree of its arguments and matches in prefix mode; `MatchHTTP()` = `MatchPrefix(defaultHTTPMethods...)` -/")
		e.P("def matchPrefixUsesPrefixMode : Bool := %s", LeanBool(okMP && okHTTP))

		// --- (*patriciaTree).matchPrefix: ReadFull of maxDepth bytes, match(buf[:n], true); maxDepth: max + 1
		okMatch := false
		if fd := FuncDecl(mt, "patriciaTree", "matchPrefix"); fd != nil && fd.Body != nil && len(fd.Body.List) == 3 {
			okMatch = Src(fd.Body.List[0]) == "buf := make([]byte, t.maxDepth)" &&
				Src(fd.Body.List[1]) == "n, _ := io.ReadFull(r, buf)" &&
				Src(fd.Body.List[2]) == "return t.root.match(buf[:n], true)"
		}
		if !okMatch {
			e.Unknown("patriciaTree.matchPrefix body")
		}
		depthPlus := -1
		if fd := FuncDecl(mt, "", "newPatriciaTree"); fd != nil {
			ast.Inspect(fd, func(n ast.Node) bool {
				if kv, ok := n.(*ast.KeyValueExpr); ok && Src(kv.Key) == "maxDepth" {
					if be, ok := kv.Value.(*ast.BinaryExpr); ok && be.Op == token.ADD && Src(be.X) == "max" {
						if lit, ok := be.Y.(*ast.BasicLit); ok {
							depthPlus, _ = strconv.Atoi(lit.Value)
						}
					}
				}
				return true
			})
		}
		if depthPlus < 0 {
			e.Unknown("newPatriciaTree maxDepth")
			depthPlus = 0
		}
		e.P("/-- `maxDepth: max + k` in newPatriciaTree -/")
		e.P("def maxDepthPlus : Nat := %d", depthPlus)

		// --- rtsp.MatchRTSP(): the argument list of listener.MatchPrefix
		var rtspArgs []string
		okR := false
		if fd := FuncDecl(rt, "", "MatchRTSP"); fd != nil && fd.Body != nil && len(fd.Body.List) == 1 {
			if r, ok := fd.Body.List[0].(*ast.ReturnStmt); ok && len(r.Results) == 1 {
				if call, ok := r.Results[0].(*ast.CallExpr); ok && Src(call.Fun) == "listener.MatchPrefix" && call.Ellipsis == token.NoPos {
					okR = true
					for _, a := range call.Args {
						if s, ok := constString(a, ty, rq); ok {
							rtspArgs = append(rtspArgs, s)
						} else {
							e.Unknown("MatchRTSP argument " + Src(a))
						}
					}
				}
			}
		}
		if !okR {
			e.Unknown("MatchRTSP body")
		}
		e.P("/-- service/rtsp/rtsp.go `MatchRTSP`: the strings handed to `listener.MatchPrefix`, constants resolved -/")
		e.P("def matchRTSPArgs : List String := %s", LeanStrList(rtspArgs))

		// --- service.listen: SetReadTimeout(config.NetTimeout()/3), then ServeAsync(rtsp), ServeAsync(http), go l.Serve()
		var order []string
		timeoutSet := false
		timeoutExpr := ""
		if fd := FuncDecl(sv, "Service", "listen"); fd != nil && fd.Body != nil {
			for _, st := range fd.Body.List {
				switch s := st.(type) {
				case *ast.AssignStmt:
					if len(s.Lhs) == 1 && Src(s.Lhs[0]) == "timeout" && len(s.Rhs) == 1 {
						timeoutExpr = Src(s.Rhs[0])
					}
				case *ast.ExprStmt:
					if call, ok := s.X.(*ast.CallExpr); ok {
						switch Src(call.Fun) {
						case "l.SetReadTimeout":
							if len(order) == 0 && len(call.Args) == 1 && Src(call.Args[0]) == "timeout" {
								timeoutSet = true
							}
						case "l.ServeAsync":
							if len(call.Args) == 2 {
								order = append(order, "("+LeanStr(Src(call.Args[0]))+", "+LeanStr(Src(call.Args[1]))+")")
							}
						}
					}
				}
			}
		} else {
			e.Unknown("Service.listen")
		}
		// --- service.listen: the error handler decides whether Serve goes on after a connection
		// nobody matched (ErrNotMatched → handleErr → errorHandler): every return of the handler
		// literal must be `true`; without a HandleError call the default of listener.New applies
		var handlerReturns []string
		handlerSeen := false
		collectReturns := func(n ast.Node) {
			ast.Inspect(n, func(x ast.Node) bool {
				if r, ok := x.(*ast.ReturnStmt); ok {
					if len(r.Results) == 1 {
						handlerReturns = append(handlerReturns, Src(r.Results[0]))
					} else {
						handlerReturns = append(handlerReturns, "?")
					}
				}
				return true
			})
		}
		if fd := FuncDecl(sv, "Service", "listen"); fd != nil && fd.Body != nil {
			ast.Inspect(fd.Body, func(x ast.Node) bool {
				call, ok := x.(*ast.CallExpr)
				if !ok || Src(call.Fun) != "l.HandleError" || len(call.Args) != 1 {
					return true
				}
				handlerSeen = true
				arg := call.Args[0]
				if conv, ok := arg.(*ast.CallExpr); ok && len(conv.Args) == 1 { // listener.ErrorHandler(func…)
					arg = conv.Args[0]
				}
				if fl, ok := arg.(*ast.FuncLit); ok {
					collectReturns(fl.Body)
				} else {
					e.Unknown("Service.listen HandleError argument " + Src(arg))
				}
				return false
			})
		}
		if !handlerSeen {
			// default handler in listener.New: errorHandler: func(_ error) bool { return true }
			if fd := FuncDecl(ls, "", "New"); fd != nil && fd.Body != nil {
				ast.Inspect(fd.Body, func(x ast.Node) bool {
					if kv, ok := x.(*ast.KeyValueExpr); ok && Src(kv.Key) == "errorHandler" {
						if fl, ok := kv.Value.(*ast.FuncLit); ok {
							collectReturns(fl.Body)
						}
						return false
					}
					return true
				})
			}
			if len(handlerReturns) == 0 {
				e.Unknown("listener.New default errorHandler")
			}
		}
		e.P("/-- service/service.go `listen`: what the error handler registered with `l.HandleError` (or, without one, the default of `listener.New`) returns — `true` everywhere means Serve keeps accepting after a connection nobody matched -/")
		e.P("def listenErrorHandlerReturns : List String := %s", LeanStrList(handlerReturns))
		e.P("/-- service/service.go `listen`: the `l.ServeAsync(matcher, serve)` registrations in source order -/")
		e.P("def muxRegistrations : List (String × String) := [%s]", strings.Join(order, ", "))
		e.P("/-- `l.SetReadTimeout(timeout)` is called before the registrations, with `timeout :=` this expression -/")
		e.P("def sniffTimeoutSet : Bool := %s", LeanBool(timeoutSet))
		e.P("def sniffTimeoutExpr : String := %s", LeanStr(timeoutExpr))

		// --- Listener.serve: the call sequence that matters
		//   before the loop: if m.readTimeout > noTimeout { c.SetReadDeadline(time.Now().Add(m.readTimeout)) }
		//   matched block: muc.doneSniffing(); if m.readTimeout > noTimeout { c.SetReadDeadline(time.Time{}) }; select send/close; return
		//   after the loop: c.Close()
		var seq []string
		if fd := FuncDecl(ls, "Listener", "serve"); fd != nil && fd.Body != nil {
			var walk func(n ast.Node, ctx string)
			walk = func(n ast.Node, ctx string) {
				ast.Inspect(n, func(x ast.Node) bool {
					switch v := x.(type) {
					case *ast.IfStmt:
						c := Src(v.Cond)
						walk(v.Body, ctx+"if("+c+")/")
						if v.Else != nil {
							walk(v.Else, ctx+"else("+c+")/")
						}
						return false
					case *ast.RangeStmt:
						walk(v.Body, ctx+"range("+Src(v.X)+")/")
						return false
					case *ast.SelectStmt:
						for _, cc := range v.Body.List {
							if cl, ok := cc.(*ast.CommClause); ok {
								walk(&ast.BlockStmt{List: cl.Body}, ctx+"select("+strings.TrimSpace(Src(cl.Comm))+")/")
								if len(cl.Body) == 0 {
									seq = append(seq, ctx+"select("+strings.TrimSpace(Src(cl.Comm))+")")
								}
							}
						}
						return false
					case *ast.AssignStmt:
						for _, r := range v.Rhs {
							if call, ok := r.(*ast.CallExpr); ok {
								seq = append(seq, ctx+Src(v.Lhs[0])+"="+Src(call))
							}
						}
						return false
					case *ast.ExprStmt:
						if call, ok := v.X.(*ast.CallExpr); ok {
							seq = append(seq, ctx+Src(call))
						}
						return false
					case *ast.ReturnStmt:
						seq = append(seq, ctx+"return")
						return false
					case *ast.DeferStmt:
						return false
					}
					return true
				})
			}
			walk(fd.Body, "")
		} else {
			e.Unknown("Listener.serve")
		}
		// only the tracked primitives (untracked statements such as logging do not matter)
		var tracked []string
		for _, x := range seq {
			for _, key := range []string{"SetReadDeadline", "startSniffing", "doneSniffing", ".Close()", "connections <-", "<-donec", "newConn(", "return"} {
				if strings.Contains(x, key) {
					tracked = append(tracked, x)
					break
				}
			}
		}
		seq = tracked
		e.P("/-- network/socket/listener/listener.go `Listener.serve`: the tracked calls (newConn, SetReadDeadline, start/doneSniffing, the hand-over, Close) and returns in source order, each prefixed by its enclosing conditions -/")
		e.P("def serveSequence : List String := %s", LeanStrList(seq))

		// --- sniffer.reset body
		var rs []string
		if fd := FuncDecl(ls, "sniffer", "reset"); fd != nil && fd.Body != nil {
			for _, st := range fd.Body.List {
				rs = append(rs, Src(st))
			}
		} else {
			e.Unknown("sniffer.reset")
		}
		e.P("/-- listener.go `sniffer.reset` statements -/")
		e.P("def snifferReset : List String := %s", LeanStrList(rs))
		// --- startSniffing / doneSniffing / newConn
		var ss []string
		for _, fn := range []string{"startSniffing", "doneSniffing"} {
			if fd := FuncDecl(ls, "Conn", fn); fd != nil && fd.Body != nil {
				for _, st := range fd.Body.List {
					ss = append(ss, fn+": "+Src(st))
				}
			} else {
				e.Unknown("Conn." + fn)
			}
		}
		e.P("def sniffingSwitch : List String := %s", LeanStrList(ss))
	})
}
