package main

import (
	"flag"
	"go/ast"
	"io/ioutil"
	"path/filepath"
	"regexp"
	"sort"
	"strings"

	. "verifharness/tlib"
)

func main() { Main() }

// WriterFacts: the writer programs of one connection, as the sequence of tracked primitives
// in source order (both branches of the `wsconn != nil` test separately):
//   service/rtsp/session.go        Session.response
//   service/rtsp/session_roles.go  tcpConsumer.Consume
//   service/wsp/session.go         Session.Consume, the reply write of process
//   av/format/rtp/packet.go        Packet.Write
//   network/websocket/websocket.go websocketTransport.Write
//   network/socket/buffered/conn.go  (constants only)
func init() {
	Register("WriterFacts", func(e *Emitter) {
		sess := Parse("service/rtsp/session.go")
		roles := Parse("service/rtsp/session_roles.go")
		wsp := Parse("service/wsp/session.go")
		pkt := Parse("av/format/rtp/packet.go")
		wst := Parse("network/websocket/websocket.go")

		emit := func(name, doc string, fd *ast.FuncDecl, ws int) {
			ops, ok := program(fd, ws)
			if !ok {
				e.Unknown(name)
			}
			e.P("/-- %s -/", doc)
			e.P("def %s : List String := %s", name, LeanStrList(ops))
		}
		emit("responseTcp", "Session.response, `s.wsconn == nil` branch", FuncDecl(sess, "Session", "response"), 0)
		emit("responseWs", "Session.response, `s.wsconn != nil` branch", FuncDecl(sess, "Session", "response"), 1)
		emit("consumeTcp", "tcpConsumer.Consume, `c.wsconn == nil` branch", FuncDecl(roles, "tcpConsumer", "Consume"), 0)
		emit("consumeWs", "tcpConsumer.Consume, `c.wsconn != nil` branch", FuncDecl(roles, "tcpConsumer", "Consume"), 1)
		emit("wspConsume", "wsp Session.Consume", FuncDecl(wsp, "Session", "Consume"), -1)
		emit("packetWrite", "rtp.Packet.Write", FuncDecl(pkt, "Packet", "Write"), -1)
		emit("wsTransportWrite", "websocketTransport.Write", FuncDecl(wst, "websocketTransport", "Write"), -1)
		emit("wsTextTransportWrite", "websocketTextTransport.Write", FuncDecl(wst, "websocketTextTransport", "Write"), -1)
		// wsp process: how many writes of the reply buffer to the control channel per request
		n := 0
		if fd := FuncDecl(wsp, "Session", "process"); fd != nil {
			for _, c := range calls(fd.Body) {
				if c == "s.conn.Write(buf.Bytes())" {
					n++
				}
			}
		} else {
			e.Unknown("wspProcess")
		}
		e.P("/-- wsp Session.process: writes of the reply buffer to the control channel per loop iteration -/")
		e.P("def wspReplyWrites : Nat := %d", n)
		// the SET of writers: every place of the two session packages where a connection of a session is
		// written, flushed, handed to a callee or aliased
		e.P("/-- every use of a session connection (`.conn`, `.wsconn`, `.dataChannel`) in service/rtsp and service/wsp that is not")
		e.P("    a read / address / deadline / close call: (file, function, call or assignment), sorted -/")
		e.P("def connUses : List String := %s", LeanStrList(connUses(e)))
		// the scratch buffers in which the WebSocket writers compose their messages OUTSIDE lockW come from a
		// sync.Pool: a buffer is private to its user only if every Get is matched by exactly one Put
		e.P("/-- every function of service/rtsp and service/wsp that uses the `buffers` pool: (file:function, Get calls, deferred Put calls, other Put calls) -/")
		e.P("def poolUses : List (String × Nat × Nat × Nat) := %s", poolUses(e))
		bconnFacts(e)
	})
}

// bconnFacts: the METHOD SET of buffered.Conn.  A caller that probes its io.Writer for a faster
// method (io.WriteString, io.Copy, the writeStringer probe of av/format/rtsp Response.Write /
// Header.Write / Request.Write, fmt, bufio …) ends up in whatever method the type has, so every method
// that can put bytes on the connection is a write path the model has to describe.  Listed: every
// method declared on Conn in the non-test, non-verif files of network/socket/buffered with its
// signature; the fields the struct embeds (their methods are promoted); and, of the methods, those
// whose body touches the write queue (a call on m.writer other than Len / Bytes), the socket's Write,
// the rate limiter, or another such method.
func bconnFacts(e *Emitter) {
	root := "/repo"
	if f := flag.Lookup("repo"); f != nil {
		root = f.Value.String()
	}
	dir := "network/socket/buffered"
	fis, err := ioutil.ReadDir(filepath.Join(root, dir))
	if err != nil {
		e.Unknown("bconnMethods")
		return
	}
	var sigs, names, embedded []string
	bodies := map[string]*ast.FuncDecl{}
	structSeen := false
	for _, fi := range fis {
		name := fi.Name()
		if fi.IsDir() || !strings.HasSuffix(name, ".go") || strings.HasSuffix(name, "_test.go") {
			continue
		}
		f := Parse(dir + "/" + name)
		if f == nil {
			e.Unknown("bconnMethods:" + name)
			continue
		}
		if hasVerifTag(f) {
			continue // harness accessors, compiled only with the verif tag
		}
		for _, d := range f.Decls {
			switch x := d.(type) {
			case *ast.GenDecl:
				for _, sp := range x.Specs {
					ts, ok := sp.(*ast.TypeSpec)
					if !ok || ts.Name.Name != "Conn" {
						continue
					}
					st, ok := ts.Type.(*ast.StructType)
					if !ok {
						e.Unknown("bconnStruct")
						continue
					}
					structSeen = true
					for _, fld := range st.Fields.List {
						if len(fld.Names) == 0 {
							embedded = append(embedded, strings.Join(strings.Fields(Src(fld.Type)), ""))
						}
					}
				}
			case *ast.FuncDecl:
				if x.Recv == nil || len(x.Recv.List) == 0 || strings.TrimPrefix(Src(x.Recv.List[0].Type), "*") != "Conn" {
					continue
				}
				sig := strings.TrimPrefix(strings.Join(strings.Fields(Src(x.Type)), " "), "func")
				sigs = append(sigs, x.Name.Name+sig)
				names = append(names, x.Name.Name)
				bodies[x.Name.Name] = x
			}
		}
	}
	if !structSeen {
		e.Unknown("bconnStruct")
	}
	// write paths: fixed point over "touches the queue / the socket's Write / the limiter / a write path"
	wp := map[string]bool{}
	touches := func(fd *ast.FuncDecl) bool {
		if fd.Body == nil || fd.Recv == nil || len(fd.Recv.List[0].Names) == 0 {
			return fd.Body != nil // a receiver without a name cannot touch anything; no body: unknown shape
		}
		r := fd.Recv.List[0].Names[0].Name
		hit := false
		ast.Inspect(fd.Body, func(n ast.Node) bool {
			switch x := n.(type) {
			case *ast.CallExpr:
				fun := strings.Join(strings.Fields(Src(x.Fun)), "")
				switch {
				case strings.HasPrefix(fun, r+".writer.") && fun != r+".writer.Len" && fun != r+".writer.Bytes":
					hit = true
				case fun == r+".socket.Write", strings.HasPrefix(fun, r+".limit."):
					hit = true
				case strings.HasPrefix(fun, r+".") && wp[strings.TrimPrefix(fun, r+".")]:
					hit = true
				}
				// the queue, the socket or the receiver itself handed to a callee (io.Copy(m.writer, …), fmt.Fprintf(m.socket, …))
				for _, a := range x.Args {
					as := strings.Join(strings.Fields(Src(a)), "")
					if as == r+".writer" || as == r+".socket" || as == r+".limit" || (as == r && !strings.HasPrefix(fun, "option.")) {
						hit = true
					}
				}
			case *ast.AssignStmt:
				for _, l := range x.Lhs {
					ls := strings.Join(strings.Fields(Src(l)), "")
					if ls == r+".writer" || ls == r+".socket" || ls == r+".limit" {
						hit = true
					}
				}
			}
			return true
		})
		return hit
	}
	for changed := true; changed; {
		changed = false
		for n, fd := range bodies {
			if !wp[n] && touches(fd) {
				wp[n] = true
				changed = true
			}
		}
	}
	var paths []string
	for n := range wp {
		paths = append(paths, n)
	}
	sort.Strings(sigs)
	sort.Strings(names)
	sort.Strings(embedded)
	sort.Strings(paths)
	e.P("/-- network/socket/buffered: every method declared on Conn (non-test, non-verif files), with its signature, sorted -/")
	e.P("def bconnMethodSigs : List String := %s", LeanStrList(sigs))
	e.P("/-- the names of those methods -/")
	e.P("def bconnMethods : List String := %s", LeanStrList(names))
	e.P("/-- the fields struct Conn embeds (their methods are promoted into its method set) -/")
	e.P("def bconnEmbedded : List String := %s", LeanStrList(embedded))
	e.P("/-- the methods whose body touches the write queue, the socket's Write, the rate limiter, or another such method -/")
	e.P("def bconnWritePaths : List String := %s", LeanStrList(paths))
}

// hasVerifTag: the file carries a `//go:build verif` (or `// +build verif`) constraint
func hasVerifTag(f *ast.File) bool {
	for _, cg := range f.Comments {
		if cg.Pos() > f.Package {
			break
		}
		for _, c := range cg.List {
			t := strings.TrimSpace(strings.TrimPrefix(c.Text, "//"))
			if t == "go:build verif" || t == "+build verif" {
				return true
			}
		}
	}
	return false
}

var connField = regexp.MustCompile(`\.(conn|wsconn|dataChannel)$`)

// methods of a connection that neither put bytes on it nor hand it on
var connNeutral = map[string]bool{"RemoteAddr": true, "LocalAddr": true, "Close": true, "Reader": true, "Read": true,
	"SetReadDeadline": true, "SetDeadline": true, "Path": true, "Username": true, "Subprotocol": true, "Buffered": true}

// connUses lists, over all non-test files of service/rtsp and service/wsp (the pull client's own
// connection to a camera included: it is a `.conn` too), every call on a session connection that is
// not neutral, every call that receives such a connection as an argument, and every place where
// one is copied into another variable, field or composite literal.
func connUses(e *Emitter) []string {
	root := "/repo"
	if f := flag.Lookup("repo"); f != nil {
		root = f.Value.String()
	}
	var out []string
	for _, dir := range []string{"service/rtsp", "service/wsp"} {
		fis, err := ioutil.ReadDir(filepath.Join(root, dir))
		if err != nil {
			e.Unknown("connUses:" + dir)
			continue
		}
		for _, fi := range fis {
			name := fi.Name()
			if fi.IsDir() || !strings.HasSuffix(name, ".go") || strings.HasSuffix(name, "_test.go") {
				continue
			}
			f := Parse(dir + "/" + name)
			if f == nil {
				e.Unknown("connUses:" + dir + "/" + name)
				continue
			}
			for _, d := range f.Decls {
				fd, ok := d.(*ast.FuncDecl)
				if !ok || fd.Body == nil {
					continue
				}
				fn := fd.Name.Name
				if fd.Recv != nil && len(fd.Recv.List) > 0 {
					fn = strings.TrimPrefix(Src(fd.Recv.List[0].Type), "*") + "." + fn
				}
				add := func(what string) {
					out = append(out, dir+"/"+name+":"+fn+": "+strings.Join(strings.Fields(what), " "))
				}
				isConn := func(x ast.Expr) bool { return connField.MatchString(strings.Join(strings.Fields(Src(x)), "")) }
				ast.Inspect(fd.Body, func(n ast.Node) bool {
					switch x := n.(type) {
					case *ast.CallExpr:
						if sel, ok := x.Fun.(*ast.SelectorExpr); ok && isConn(sel.X) && !connNeutral[sel.Sel.Name] {
							add(Src(x))
							return true
						}
						for _, a := range x.Args {
							if isConn(a) {
								add(Src(x))
								break
							}
						}
					case *ast.AssignStmt:
						for _, r := range x.Rhs {
							if isConn(r) {
								add(Src(x))
							}
						}
					case *ast.ValueSpec:
						for _, r := range x.Values {
							if isConn(r) {
								add("var " + Src(x))
							}
						}
					case *ast.CompositeLit:
						for _, el := range x.Elts {
							v := el
							if kv, ok := el.(*ast.KeyValueExpr); ok {
								v = kv.Value
							}
							if isConn(v) {
								add(Src(x))
							}
						}
					case *ast.ReturnStmt:
						for _, r := range x.Results {
							if isConn(r) {
								add(Src(x))
							}
						}
					}
					return true
				})
			}
		}
	}
	sort.Strings(out)
	return out
}

// poolUses counts buffers.Get / buffers.Put per function
func poolUses(e *Emitter) string {
	root := "/repo"
	if f := flag.Lookup("repo"); f != nil {
		root = f.Value.String()
	}
	var rows []string
	for _, dir := range []string{"service/rtsp", "service/wsp"} {
		fis, err := ioutil.ReadDir(filepath.Join(root, dir))
		if err != nil {
			e.Unknown("poolUses:" + dir)
			continue
		}
		for _, fi := range fis {
			name := fi.Name()
			if fi.IsDir() || !strings.HasSuffix(name, ".go") || strings.HasSuffix(name, "_test.go") {
				continue
			}
			f := Parse(dir + "/" + name)
			if f == nil {
				e.Unknown("poolUses:" + dir + "/" + name)
				continue
			}
			for _, d := range f.Decls {
				fd, ok := d.(*ast.FuncDecl)
				if !ok || fd.Body == nil {
					continue
				}
				fn := fd.Name.Name
				if fd.Recv != nil && len(fd.Recv.List) > 0 {
					fn = strings.TrimPrefix(Src(fd.Recv.List[0].Type), "*") + "." + fn
				}
				gets, dputs, puts := 0, 0, 0
				deferred := map[*ast.CallExpr]bool{}
				ast.Inspect(fd.Body, func(n ast.Node) bool {
					switch x := n.(type) {
					case *ast.DeferStmt:
						deferred[x.Call] = true
					case *ast.CallExpr:
						switch strings.Join(strings.Fields(Src(x.Fun)), "") {
						case "buffers.Get":
							gets++
						case "buffers.Put":
							if deferred[x] {
								dputs++
							} else {
								puts++
							}
						}
					}
					return true
				})
				if gets+dputs+puts > 0 {
					rows = append(rows, "("+LeanStr(dir+"/"+name+":"+fn)+", "+itoa(gets)+", "+itoa(dputs)+", "+itoa(puts)+")")
				}
			}
		}
	}
	sort.Strings(rows)
	return "[" + strings.Join(rows, ", ") + "]"
}

func itoa(n int) string {
	if n == 0 {
		return "0"
	}
	s := ""
	for n > 0 {
		s = string(rune('0'+n%10)) + s
		n /= 10
	}
	return s
}

func calls(n ast.Node) []string {
	var out []string
	ast.Inspect(n, func(x ast.Node) bool {
		if c, ok := x.(*ast.CallExpr); ok {
			out = append(out, strings.Join(strings.Fields(Src(c)), " "))
		}
		return true
	})
	return out
}

// classify maps a call (source text) to a tracked primitive, "" if untracked
func classify(call string) string {
	fun := call
	if i := strings.Index(call, "("); i >= 0 {
		fun = call[:i]
	}
	arg := strings.TrimSuffix(strings.TrimPrefix(call[len(fun):], "("), ")")
	switch {
	case strings.HasSuffix(fun, ".lockW.Lock"):
		return "lock:lockW"
	case strings.HasSuffix(fun, ".lockW.Unlock"):
		return "unlock:lockW"
	case fun == "c.Lock":
		return "lock:self"
	case fun == "c.Unlock":
		return "unlock:self"
	case fun == "buf.Reset":
		return "bufreset"
	case fun == "buf.Len":
		return "buflen"
	case fun == "resp.Write" || fun == "p2.Write":
		first := strings.TrimSpace(strings.Split(arg, ",")[0])
		if first == "buf" {
			return "bufwrite"
		}
		if first == "s.conn" || first == "c.conn" {
			return "connwrite"
		}
		return "write?" + first
	case fun == "s.conn.Flush" || fun == "c.conn.Flush":
		return "flush"
	case fun == "s.wsconn.Write" || fun == "c.wsconn.Write" || fun == "s.dataChannel.Write":
		if arg == "buf.Bytes()" {
			return "wswrite"
		}
		return "wswrite?" + arg
	case fun == "w.Write":
		return "write:" + arg
	case fun == "verifhook.Point":
		return "hook"
	case fun == "c.socket.NextWriter":
		return "nextwriter:" + arg
	case fun == "w.Close":
		return "close"
	case fun == "c.Close" || fun == "s.Close":
		return "closeSession"
	}
	return ""
}

// program flattens the function body into tracked primitives in source order.
// ws = 1 / 0 selects the branch of an `if X.wsconn != nil` statement, -1 = no such test expected.
// An early `return` guarded by a condition is reported as "return-if:<cond>".
func program(fd *ast.FuncDecl, ws int) ([]string, bool) {
	if fd == nil {
		return nil, false
	}
	ok := true
	var out []string
	var deferred []string
	// `defer X.lockW.Unlock()`: the section ends at every return that follows; such a return is
	// reported as "return-unlocks" and the unlock is placed at the end of the program
	deferUnlock := false
	var walk func(stmts []ast.Stmt)
	exprOps := func(n ast.Node) {
		for _, c := range calls(n) {
			if op := classify(c); op != "" {
				out = append(out, op)
			}
		}
	}
	walk = func(stmts []ast.Stmt) {
		for _, st := range stmts {
			switch s := st.(type) {
			case *ast.IfStmt:
				cond := strings.Join(strings.Fields(Src(s.Cond)), " ")
				if cond == "s.wsconn != nil" || cond == "c.wsconn != nil" {
					if ws < 0 {
						ok = false
						return
					}
					if ws == 1 {
						walk(s.Body.List)
					} else if el, isBlock := s.Else.(*ast.BlockStmt); isBlock {
						walk(el.List)
					}
					continue
				}
				if s.Init != nil {
					exprOps(s.Init)
				}
				exprOps(s.Cond)
				// a guarded early return
				if n := len(s.Body.List); n > 0 {
					if _, isRet := s.Body.List[n-1].(*ast.ReturnStmt); isRet && s.Else == nil {
						if deferUnlock {
							out = append(out, "return-unlocks") // the condition is not needed by any obligation
						} else {
							out = append(out, "return-if:"+cond)
						}
						sub := out
						out = nil
						walk(s.Body.List)
						inner := out
						out = sub
						for _, x := range inner {
							out = append(out, "  in-return:"+x)
						}
						continue
					}
				}
				walk(s.Body.List)
				switch el := s.Else.(type) {
				case *ast.BlockStmt:
					walk(el.List)
				case *ast.IfStmt:
					walk([]ast.Stmt{el})
				}
			case *ast.DeferStmt:
				if op := classify(strings.Join(strings.Fields(Src(s.Call)), " ")); op == "unlock:lockW" {
					deferUnlock = true
				} else if op != "" {
					deferred = append([]string{op}, deferred...)
				}
			case *ast.BlockStmt:
				walk(s.List)
			default:
				exprOps(st)
			}
		}
	}
	walk(fd.Body.List)
	if deferUnlock {
		out = append(out, "unlock:lockW")
	}
	for _, d := range deferred {
		out = append(out, "deferred:"+d)
	}
	return out, ok
}
