// Translator for C15: source-level facts of the codec parameter parsers
// (utils/bits/reader.go, av/codec/{h264,hevc,aac}) → lean/IpcHub/Gen/CodecFacts.lean.
package main

import (
	"bytes"
	"crypto/sha256"
	"encoding/hex"
	"fmt"
	"go/ast"
	"go/printer"
	"go/token"
	"strconv"
	"strings"

	. "verifharness/tlib"
)

func main() { Main() }

// ---- a tiny constant evaluator (ints, iota, + - * << | parentheses, earlier constants) ----

type consts map[string]int64

func evalConsts(f *ast.File, into consts) {
	if f == nil {
		return
	}
	for _, d := range f.Decls {
		g, ok := d.(*ast.GenDecl)
		if !ok || g.Tok != token.CONST {
			continue
		}
		var last []ast.Expr
		for idx, s := range g.Specs {
			vs := s.(*ast.ValueSpec)
			if len(vs.Values) > 0 {
				last = vs.Values
			}
			for i, n := range vs.Names {
				if i < len(last) {
					if v, ok := evalExpr(last[i], int64(idx), into); ok {
						into[n.Name] = v
					}
				}
			}
		}
	}
}

func evalExpr(e ast.Expr, iota int64, c consts) (int64, bool) {
	switch x := e.(type) {
	case *ast.BasicLit:
		if x.Kind == token.INT {
			v, err := strconv.ParseInt(x.Value, 0, 64)
			return v, err == nil
		}
		if x.Kind == token.CHAR {
			r, _, _, err := strconv.UnquoteChar(strings.Trim(x.Value, "'"), '\'')
			return int64(r), err == nil
		}
	case *ast.Ident:
		if x.Name == "iota" {
			return iota, true
		}
		v, ok := c[x.Name]
		return v, ok
	case *ast.ParenExpr:
		return evalExpr(x.X, iota, c)
	case *ast.BinaryExpr:
		a, ok1 := evalExpr(x.X, iota, c)
		b, ok2 := evalExpr(x.Y, iota, c)
		if !ok1 || !ok2 {
			return 0, false
		}
		switch x.Op {
		case token.ADD:
			return a + b, true
		case token.SUB:
			return a - b, true
		case token.MUL:
			return a * b, true
		case token.SHL:
			return a << uint(b), true
		case token.OR:
			return a | b, true
		}
	}
	return 0, false
}

func natList(vs []int64) string {
	s := make([]string, len(vs))
	for i, v := range vs {
		s[i] = strconv.FormatInt(v, 10)
	}
	return "[" + strings.Join(s, ", ") + "]"
}

// elements of a composite literal of ints (array/slice var initialiser)
func litInts(e ast.Expr, c consts) ([]int64, bool) {
	cl, ok := e.(*ast.CompositeLit)
	if !ok {
		return nil, false
	}
	var out []int64
	for _, el := range cl.Elts {
		v, ok := evalExpr(el, 0, c)
		if !ok {
			return nil, false
		}
		out = append(out, v)
	}
	return out, true
}

func stmtsSrc(b *ast.BlockStmt) []string {
	var out []string
	if b == nil {
		return out
	}
	for _, s := range b.List {
		out = append(out, strings.Join(strings.Fields(Src(s)), " "))
	}
	return out
}

// the statements of a body printed without the comments inside them
func bodyNoComments(fd *ast.FuncDecl) string {
	if fd == nil || fd.Body == nil {
		return ""
	}
	// doc comments are part of the declaration nodes: detach them
	ast.Inspect(fd.Body, func(n ast.Node) bool {
		switch x := n.(type) {
		case *ast.GenDecl:
			x.Doc = nil
		case *ast.ValueSpec:
			x.Doc, x.Comment = nil, nil
		case *ast.TypeSpec:
			x.Doc, x.Comment = nil, nil
		case *ast.Field:
			x.Doc, x.Comment = nil, nil
		}
		return true
	})
	var out []string
	for _, st := range fd.Body.List {
		var b bytes.Buffer
		printer.Fprint(&b, token.NewFileSet(), st)
		out = append(out, strings.Join(strings.Fields(b.String()), " "))
	}
	return strings.Join(out, " ; ")
}

func bodySrc(fd *ast.FuncDecl) string {
	if fd == nil {
		return ""
	}
	return strings.Join(stmtsSrc(fd.Body), " ; ")
}

// the || chain  x == a || x == b ...  → the literals compared against
func orChainLits(e ast.Expr, lhs string, c consts, out *[]int64) bool {
	switch x := e.(type) {
	case *ast.ParenExpr:
		return orChainLits(x.X, lhs, c, out)
	case *ast.BinaryExpr:
		if x.Op == token.LOR {
			return orChainLits(x.X, lhs, c, out) && orChainLits(x.Y, lhs, c, out)
		}
		if x.Op == token.EQL && Src(x.X) == lhs {
			v, ok := evalExpr(x.Y, 0, c)
			if ok {
				*out = append(*out, v)
			}
			return ok
		}
	}
	return false
}

func init() {
	Register("CodecFacts", func(e *Emitter) {
		num := func(name string, c consts, key string) {
			v, ok := c[key]
			if !ok {
				e.Unknown(name)
			}
			e.P("def %s : Nat := %d", name, v)
		}
		// ---------------- utils/bits/reader.go ----------------
		rd := Parse("utils/bits/reader.go")
		bc := consts{}
		evalConsts(rd, bc)
		if m, ok := litInts(TopValue(rd, "bitsMask"), bc); ok {
			e.P("/-- utils/bits/reader.go: bitsMask -/")
			e.P("def bitsMask : List Nat := %s", natList(m))
		} else {
			e.Unknown("bitsMask")
			e.P("def bitsMask : List Nat := []")
		}
		// ReadUe: the `i < N` of the loop condition
		lim := int64(-1)
		if fd := FuncDecl(rd, "Reader", "ReadUe"); fd != nil {
			ast.Inspect(fd, func(n ast.Node) bool {
				if b, ok := n.(*ast.BinaryExpr); ok && b.Op == token.LSS && Src(b.X) == "i" {
					if v, ok := evalExpr(b.Y, 0, bc); ok {
						lim = v
					}
				}
				return true
			})
		}
		if lim < 0 {
			e.Unknown("ReadUe.limit")
			lim = 0
		}
		e.P("/-- utils/bits/reader.go ReadUe: the bound of the leading-zero loop `i < N` -/")
		e.P("def readUeLimit : Nat := %d", lim)
		e.P("/-- utils/bits/reader.go ReadUe / ReadSe / readUint64: the statements of the bodies -/")
		e.P("def readUeBody : String := %s", LeanStr(bodySrc(FuncDecl(rd, "Reader", "ReadUe"))))
		se := bodySrc(FuncDecl(rd, "Reader", "ReadSe"))
		e.P("def readSeBody : String := %s", LeanStr(se))
		seNew := "ui32 := r.ReadUe() ; half := int32(ui32 >> 1) ; if ui32&0x01 != 0 { res = half + 1 } else { res = -half } ; return"
		seOld := "ui32 := r.ReadUe() ; if ui32&0x01 != 0 { res = (int32(res) + 1) / 2 } else { res = -int32(res) / 2 } ; return"
		switch se {
		case seNew:
			e.P("def readSeFromUe : Bool := true")
		case seOld:
			e.P("def readSeFromUe : Bool := false")
		default:
			e.Unknown("ReadSe.shape")
			e.P("def readSeFromUe : Bool := false")
		}
		e.P("def readUint64Body : String := %s", LeanStr(bodySrc(FuncDecl(rd, "Reader", "readUint64"))))

		// ---------------- av/codec/h264 ----------------
		hc := consts{}
		evalConsts(Parse("av/codec/h264/const.go"), hc)
		num("h264NalSps", hc, "NalSps")
		num("h264MaxCpbCnt", hc, "MaxCpbCnt")
		num("h264MaxDpbFrames", hc, "MaxDpbFrames")
		sps := Parse("av/codec/h264/sps.go")
		// nal types rejected by RawNALUnitHeader.decode
		var svc []int64
		if fd := FuncDecl(sps, "RawNALUnitHeader", "decode"); fd != nil {
			ast.Inspect(fd, func(n ast.Node) bool {
				if is, ok := n.(*ast.IfStmt); ok && len(svc) == 0 {
					var l []int64
					if orChainLits(is.Cond, "h.NalUnitType", hc, &l) {
						svc = l
					}
				}
				return true
			})
		}
		if len(svc) == 0 {
			e.Unknown("h264.svcTypes")
		}
		e.P("/-- av/codec/h264/sps.go RawNALUnitHeader.decode: nal_unit_type values answered with an error -/")
		e.P("def h264SvcTypes : List Nat := %s", natList(svc))
		// profiles with chroma info in RawSPS.Decode: the first || chain over sps.ProfileIdc
		var hp []int64
		dec := FuncDecl(sps, "RawSPS", "Decode")
		if dec != nil {
			ast.Inspect(dec, func(n ast.Node) bool {
				if is, ok := n.(*ast.IfStmt); ok && len(hp) == 0 {
					var l []int64
					if orChainLits(is.Cond, "sps.ProfileIdc", hc, &l) && len(l) > 1 {
						hp = l
					}
				}
				return true
			})
		}
		if len(hp) == 0 {
			e.Unknown("h264.highProfiles")
		}
		e.P("/-- av/codec/h264/sps.go RawSPS.Decode: profile_idc values for which chroma_format_idc … scaling lists are read -/")
		e.P("def h264HighProfiles : List Nat := %s", natList(hp))
		// the profile_idc == 183 special case of the `else` branch (chroma_format_idc inferred 0)
		mono := false
		if dec != nil {
			ast.Inspect(dec, func(n ast.Node) bool {
				if b, ok := n.(*ast.BinaryExpr); ok && b.Op == token.EQL && Src(b.X) == "sps.ProfileIdc" && Src(b.Y) == "183" {
					mono = true
				}
				return true
			})
		} else {
			e.Unknown("h264.Decode")
		}
		e.P("/-- av/codec/h264/sps.go RawSPS.Decode: is there a `sps.ProfileIdc == 183` special case? -/")
		e.P("def h264Mono183 : Bool := %s", LeanBool(mono))
		w, h, fr, cu := bodySrc(FuncDecl(sps, "RawSPS", "Width")), bodySrc(FuncDecl(sps, "RawSPS", "Height")), bodySrc(FuncDecl(sps, "RawSPS", "FrameRate")), bodySrc(FuncDecl(sps, "RawSPS", "cropUnits"))
		e.P("def h264WidthBody : String := %s", LeanStr(w))
		e.P("def h264HeightBody : String := %s", LeanStr(h))
		e.P("def h264CropUnitsBody : String := %s", LeanStr(cu))
		e.P("def h264FrameRateBody : String := %s", LeanStr(fr))
		wOld := "w := (sps.PicWidthInMbsMinus1+1)*16 - sps.FrameCropLeftOffset*2 - sps.FrameCropRightOffset*2 ; return int(w)"
		hOld := "h := (2-uint16(sps.FrameMbsOnlyFlag))*(sps.PicHeightInMapUnitsMinus1+1)*16 - sps.FrameCropTopOffset*2 - sps.FrameCropBottomOffset*2 ; return int(h)"
		switch {
		case w == wOld && h == hOld:
			e.P("def h264CropByChroma : Bool := false")
		case w == h264WidthNew && h == h264HeightNew && cu == h264CropUnitsNew:
			e.P("def h264CropByChroma : Bool := true")
		default:
			e.Unknown("h264.Width/Height.shape")
			e.P("def h264CropByChroma : Bool := false")
		}
		frOld := "if sps.Vui.NumUnitsInTick == 0 { return 0.0 } ; return float64(sps.Vui.TimeScale) / float64(sps.Vui.NumUnitsInTick*2)"
		switch fr {
		case frOld:
			e.P("def h264FpsWide : Bool := false")
		case h264FrameRateNew:
			e.P("def h264FpsWide : Bool := true")
		default:
			e.Unknown("h264.FrameRate.shape")
			e.P("def h264FpsWide : Bool := false")
		}

		// ---------------- av/codec/hevc ----------------
		vc := consts{}
		evalConsts(Parse("av/codec/hevc/const.go"), vc)
		for _, k := range [][2]string{{"hevcNalVps", "NalVps"}, {"hevcNalSps", "NalSps"}, {"hevcMaxSubLayers", "HEVC_MAX_SUB_LAYERS"},
			{"hevcMaxRefs", "HEVC_MAX_REFS"}, {"hevcMaxDpbSize", "HEVC_MAX_DPB_SIZE"}, {"hevcMaxLongTermRefPics", "HEVC_MAX_LONG_TERM_REF_PICS"},
			{"hevcMaxCpbCnt", "HEVC_MAX_CPB_CNT"}, {"hevcMaxLayers", "HEVC_MAX_LAYERS"}} {
			num(k[0], vc, k[1])
		}

		// H265RawSPS.Decode: where the sub-layer ordering loop starts
		hsps := Parse("av/codec/hevc/sps.go")
		startInit, startIf := "", ""
		if fd := FuncDecl(hsps, "H265RawSPS", "Decode"); fd != nil {
			for i, st := range fd.Body.List {
				t := strings.Join(strings.Fields(Src(st)), " ")
				if strings.HasPrefix(t, "loopStart :=") && i+1 < len(fd.Body.List) {
					startInit = t
					startIf = strings.Join(strings.Fields(Src(fd.Body.List[i+1])), " ")
				}
			}
		}
		e.P("/-- av/codec/hevc/sps.go H265RawSPS.Decode: initialisation of the sub-layer ordering loop -/")
		e.P("def hevcSpsOrderingStart : String := %s", LeanStr(startInit+" ; "+startIf))
		switch startInit + " ; " + startIf {
		case "loopStart := uint8(0) ; if sps.Sps_sub_layer_ordering_info_present_flag == 1 { loopStart = sps.Sps_max_sub_layers_minus1 }":
			e.P("def hevcSpsOrderingStd : Bool := false")
		case "loopStart := sps.Sps_max_sub_layers_minus1 ; if sps.Sps_sub_layer_ordering_info_present_flag == 1 { loopStart = 0 }":
			e.P("def hevcSpsOrderingStd : Bool := true")
		default:
			e.Unknown("hevc.sps.orderingStart")
			e.P("def hevcSpsOrderingStd : Bool := false")
		}
		// H265RawSTRefPicSet.decode: the whole body by hash (pinned / repaired)
		rb := bodySrc(FuncDecl(hsps, "H265RawSTRefPicSet", "decode"))
		sum := sha256.Sum256([]byte(rb))
		rh := hex.EncodeToString(sum[:])
		e.P("/-- av/codec/hevc/sps.go H265RawSTRefPicSet.decode: sha256 of the normalised statements of the body -/")
		e.P("def hevcStRpsBodySha : String := %s", LeanStr(rh))
		switch rh {
		case hevcStRpsOldSha:
			e.P("def hevcRpsInterStd : Bool := false")
		case hevcStRpsNewSha:
			e.P("def hevcRpsInterStd : Bool := true")
		default:
			e.Unknown("hevc.stRps.body")
			e.P("def hevcRpsInterStd : Bool := false")
		}

		// ---------------- av/codec/aac ----------------
		ac := consts{}
		acf := Parse("av/codec/aac/const.go")
		evalConsts(acf, ac)
		for _, k := range [][2]string{{"aotNull", "AOT_NULL"}, {"aotAacLc", "AOT_AAC_LC"}, {"aotSbr", "AOT_SBR"}, {"aotErBsac", "AOT_ER_BSAC"},
			{"aotPs", "AOT_PS"}, {"aotEscape", "AOT_ESCAPE"}, {"aotAls", "AOT_ALS"}} {
			num(k[0], ac, k[1])
		}
		if m, ok := litInts(TopValue(acf, "SampleRates"), ac); ok {
			e.P("/-- av/codec/aac/const.go: SampleRates (the literal's elements; the array has 16 entries, the rest zero) -/")
			e.P("def aacSampleRates : List Nat := %s", natList(m))
		} else {
			e.Unknown("aac.SampleRates")
			e.P("def aacSampleRates : List Nat := []")
		}
		if m, ok := litInts(TopValue(acf, "aacAudioChannels"), ac); ok {
			e.P("def aacAudioChannels : List Nat := %s", natList(m))
		} else {
			e.Unknown("aac.aacAudioChannels")
			e.P("def aacAudioChannels : List Nat := []")
		}
		// AudioSpecificConfig.Decode: the hierarchical-signalling guard and the sync extension constants
		asc := Parse("av/codec/aac/asc.go")
		guard := ""
		var syncs []int64
		if fd := FuncDecl(asc, "AudioSpecificConfig", "Decode"); fd != nil {
			ast.Inspect(fd, func(n ast.Node) bool {
				switch x := n.(type) {
				case *ast.IfStmt:
					c := strings.Join(strings.Fields(Src(x.Cond)), " ")
					if guard == "" && strings.Contains(c, "AOT_PS") && strings.Contains(c, "Peek") {
						guard = c
					}
				case *ast.BinaryExpr:
					if x.Op == token.EQL {
						if l, ok := x.Y.(*ast.BasicLit); ok && strings.HasPrefix(l.Value, "0x") && (strings.Contains(Src(x.X), "Peek(11)") || strings.Contains(Src(x.X), "Read(11)")) {
							if v, ok := evalExpr(l, 0, ac); ok {
								syncs = append(syncs, v)
							}
						}
					}
				}
				return true
			})
		}
		e.P("/-- av/codec/aac/asc.go Decode: the condition that selects hierarchical SBR/PS signalling -/")
		e.P("def aacHierGuard : String := %s", LeanStr(guard))
		switch guard {
		case "asc.ObjectType == AOT_SBR || (asc.ObjectType == AOT_PS && 0 == r.Peek(3)&0x03 && 0 == r.Peek(9)&0x3F)":
			e.P("def aacPsGuardFFmpeg : Bool := false")
		case aacGuardNew:
			e.P("def aacPsGuardFFmpeg : Bool := true")
		default:
			e.Unknown("aac.Decode.guard")
			e.P("def aacPsGuardFFmpeg : Bool := false")
		}
		e.P("/-- av/codec/aac/asc.go Decode: the 11-bit sync extension types compared against Peek(11) / Read(11) -/")
		e.P("def aacSyncExtTypes : List Nat := %s", natList(syncs))

		// ---------------- the MetadataIsReady shortcuts and the SDP fmtp extraction ----------------
		// (Model/MetaReady.lean: nothing is stored when Decode fails; the sets of the SDP are stored, then MetadataIsReady runs)
		shape := func(name, file, recv, fn string, want ...string) {
			b := bodyNoComments(FuncDecl(Parse(file), recv, fn))
			e.P("/-- %s %s: the statements of the body -/", file, fn)
			e.P("def %sBody : String := %s", name, LeanStr(b))
			ok := false
			for _, w := range want {
				ok = ok || b == w
			}
			if !ok {
				e.Unknown(name + ".shape")
			}
			e.P("def %sStd : Bool := %s", name, LeanBool(ok))
		}
		shape("h264Ready", "av/codec/h264/shortcut.go", "", "MetadataIsReady", h264ReadyStd)
		shape("hevcReady", "av/codec/hevc/shortcut.go", "", "MetadataIsReady", hevcReadyStd)
		shape("aacReady", "av/codec/aac/shortcut.go", "", "MetadataIsReady", aacReadyStd)
		shape("sdpH264Sets", "av/format/sdp/parsemeta.go", "", "parseH264SpsPps", sdpH264SetsStd)
		shape("sdpH265Sets", "av/format/sdp/parsemeta.go", "", "parseH265VpsSpsPps", sdpH265SetsStd)
		shape("hevcFixedRate", "av/codec/hevc/sps.go", "H265RawSPS", "IsFixedFrameRate", "return sps.FrameRate() > 0")
		shape("hevcFrameRate", "av/codec/hevc/sps.go", "H265RawSPS", "FrameRate", "if sps.Vui.Vui_num_units_in_tick == 0 { return 0.0 } ; return float64(sps.Vui.Vui_time_scale) / float64(sps.Vui.Vui_num_units_in_tick)")
		shape("h264FixedRate", "av/codec/h264/sps.go", "RawSPS", "IsFixedFrameRate", "return sps.Vui.FixedFrameRateFlag == 1")
		_ = fmt.Sprint
	})
}

// the shapes Model/MetaReady.lean describes
const h264ReadyStd = "sps := vm.Sps ; pps := vm.Pps ; if len(sps) == 0 || len(pps) == 0 { return false } ; if vm.Width == 0 { var rawsps RawSPS if err := rawsps.Decode(sps); err != nil { return false } vm.Width = rawsps.Width() vm.Height = rawsps.Height() vm.FixedFrameRate = rawsps.IsFixedFrameRate() vm.FrameRate = rawsps.FrameRate() } ; return true"
const hevcReadyStd = "vps := vm.Vps ; sps := vm.Sps ; pps := vm.Pps ; if len(vps) == 0 || len(sps) == 0 || len(pps) == 0 { return false } ; if vm.Width == 0 { var rawsps H265RawSPS if err := rawsps.Decode(sps); err != nil { return false } vm.Width = rawsps.Width() vm.Height = rawsps.Height() vm.FixedFrameRate = rawsps.IsFixedFrameRate() vm.FrameRate = rawsps.FrameRate() } ; return true"
const aacReadyStd = "config := am.Sps ; if len(config) == 0 { return false } ; if am.SampleRate == 0 { var asc AudioSpecificConfig if err := asc.Decode(config); err != nil { return false } am.Channels = int(asc.Channels) am.SampleRate = asc.SampleRate if asc.ExtSampleRate > 0 { am.SampleRate = asc.ExtSampleRate } am.SampleSize = 16 } ; return true"
const sdpH264SetsStd = "rest, spsStr, ok := scan.Comma.Scan(s) ; if !ok { return } ; _, ppsStr, _ := scan.Comma.Scan(rest) ; sps, err := base64.StdEncoding.DecodeString(spsStr) ; if err == nil { video.Sps = utils.RemoveNaluSeparator(sps) } ; pps, err := base64.StdEncoding.DecodeString(ppsStr) ; if err == nil { video.Pps = utils.RemoveNaluSeparator(pps) } ; _ = h264.MetadataIsReady(video)"
const sdpH265SetsStd = "var advance, token string ; continueScan := true ; advance = s ; for continueScan { advance, token, continueScan = scan.Semicolon.Scan(advance) name, value, ok := scan.EqualPair.Scan(token) if ok { switch name { case \"sprop-vps\", \"sprop-sps\", \"sprop-pps\": default: continue } var ps []byte var err error if ps, err = base64.StdEncoding.DecodeString(value); err != nil { return } ps = utils.RemoveNaluSeparator(ps) switch name { case \"sprop-vps\": video.Vps = ps case \"sprop-sps\": video.Sps = ps case \"sprop-pps\": video.Pps = ps } } } ; _ = hevc.MetadataIsReady(video)"

// the shapes of the repaired functions (kept in step with the 'fix:' commits in /repo)
const hevcStRpsOldSha = "14c86a457a06877b428070b7d72f41026de14c12559d18b3c56043daf5e5df2e"
const hevcStRpsNewSha = "aa90604d2b14f72d50d55e6dae0deb87532f22599f3b3d2ef76d6e33e0617a4d"
const aacGuardNew = "asc.ObjectType == AOT_SBR || (asc.ObjectType == AOT_PS && !(r.Peek(3)&0x03 != 0 && r.Peek(9)&0x3F == 0))"
const h264WidthNew = "cropUnitX, _ := sps.cropUnits() ; return (int(sps.PicWidthInMbsMinus1)+1)*16 - cropUnitX*(int(sps.FrameCropLeftOffset)+int(sps.FrameCropRightOffset))"
const h264HeightNew = "_, cropUnitY := sps.cropUnits() ; return (2-int(sps.FrameMbsOnlyFlag))*(int(sps.PicHeightInMapUnitsMinus1)+1)*16 - cropUnitY*(int(sps.FrameCropTopOffset)+int(sps.FrameCropBottomOffset))"
const h264CropUnitsNew = "chromaArrayType := sps.ChromaFormatIdc ; if sps.SeparateColourPlaneFlag == 1 { chromaArrayType = 0 } ; cropUnitX, cropUnitY = 1, 2-int(sps.FrameMbsOnlyFlag) ; switch chromaArrayType { case 1: cropUnitX, cropUnitY = 2, 2*cropUnitY case 2: cropUnitX = 2 } ; return"
const h264FrameRateNew = "if sps.Vui.NumUnitsInTick == 0 { return 0.0 } ; return float64(sps.Vui.TimeScale) / (2 * float64(sps.Vui.NumUnitsInTick))"
